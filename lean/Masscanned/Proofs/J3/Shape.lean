/-
  Proofs/J3/Shape — which replies of the model can be mistaken for an HTTP response ("HTTP/1." in
  front) or an SSH banner ("SSH-" in front) by `Spec.classify`: only those of the HTTP resp. SSH
  responder.  The one delicate responder is ONC-RPC/UDP, whose reply begins with the xid copied from
  the request: the compiled matcher never hands it a payload starting with 'S' or 'H' (finding K2: its
  first position excludes the nine bytes 00 C D G H O P S T).
-/
import Masscanned.Proofs.J3.Ident
namespace Masscanned.J3
open Masscanned Masscanned.Spec Masscanned.E2E Masscanned.C10

def http7 : Bytes := [72, 84, 84, 80, 47, 49, 46]
def gh5 : Bytes := [71, 104, 48, 115, 116]
theorem http7_eq : "HTTP/1.".toUTF8.toList = http7 := by decide +kernel
theorem ssh4_eq : "SSH-".toUTF8.toList = sshMagic := by decide +kernel
theorem gh5_eq : "Gh0st".toUTF8.toList = gh5 := by decide +kernel

/-- neither "SSH-" nor "HTTP/1." in front -/
def NotSH (r : Bytes) : Prop := sshMagic.isPrefixOf r = false ∧ http7.isPrefixOf r = false

theorem classify_http_iff (r : Bytes) : classify r = .http ↔ http7.isPrefixOf r = true := by
  unfold classify
  rw [http7_eq]
  constructor
  · intro h
    split at h
    · assumption
    · repeat' split at h
      all_goals cases h
  · intro h
    rw [if_pos h]

theorem classify_ssh_imp (r : Bytes) (h : classify r = .ssh) : sshMagic.isPrefixOf r = true := by
  unfold classify at h
  rw [ssh4_eq] at h
  split at h
  · cases h
  · split at h
    · assumption
    · repeat' split at h
      all_goals cases h

theorem notSH_classify {r : Bytes} (h : NotSH r) : classify r ≠ .ssh ∧ classify r ≠ .http := by
  constructor
  · intro hc; have := classify_ssh_imp r hc; rw [h.1] at this; cases this
  · intro hc; have := (classify_http_iff r).1 hc; rw [h.2] at this; cases this

/-- a reply whose first byte is neither 'S' nor 'H' -/
theorem notSH_of_head (b : UInt8) (t : Bytes) (hS : b ≠ 83) (hH : b ≠ 72) : NotSH (b :: t) := by
  constructor
  · simp [sshMagic, List.isPrefixOf, hS.symm]
  · simp [http7, List.isPrefixOf, hH.symm]

/-! ### ONC-RPC/UDP: the reply begins with the first byte of the request -/

theorem rpcByte_xid_keep (ovf : Bool) (s s' : RpcSt) (b : UInt8) (h : rpcByte ovf s b = .ok s')
    (h1 : s.state ≠ .frag) (h2 : s.state ≠ .xid) : s'.xid = s.xid ∧ s'.state ≠ .frag ∧ s'.state ≠ .xid := by
  obtain ⟨st, lf, fl, xid, mt, rv, prog, pv, proc, cf, vf, cur, dl⟩ := s
  simp only at h1 h2
  unfold rpcByte at h
  cases st <;> simp only [ne_eq, not_true_eq_false] at h1 h2 <;> simp only [rpcAdvance] at h <;>
    (repeat' split at h) <;>
    first
    | (cases h; done)
    | (cases h; simp)
    | (cases h; split <;> simp)

theorem rpcParse_xid_keep (ovf : Bool) (d : Bytes) : ∀ (s s' : RpcSt), rpcParse ovf s d = .ok s' →
    s.state ≠ .frag → s.state ≠ .xid → s'.xid = s.xid := by
  induction d with
  | nil => intro s s' h _ _; cases h; rfl
  | cons b t ih =>
    intro s s' h h1 h2
    rw [C16.rpcParse_cons] at h
    cases hb : rpcByte ovf s b with
    | error e => rw [hb] at h; cases h
    | ok s1 =>
      rw [hb] at h
      obtain ⟨e, k1, k2⟩ := rpcByte_xid_keep ovf s s1 b hb h1 h2
      rw [← e]
      exact ih s1 s' h k1 k2

theorem rpc_short_xid (ovf : Bool) (n : Nat) (d : Bytes) (hl : d.length ≤ 3) (s' : RpcSt)
    (hp : rpcParse ovf { state := .xid, lastFrag := true, fragLen := n } d = .ok s') : s'.state = .xid := by
  match d, hl with
  | [], _ => cases hp; rfl
  | [a], _ =>
    have := a.toNat_lt
    simp (disch := omega) [rpcParse, rpcByte, rpcAdvance, C16.rpcAcc_lt] at hp
    rw [← hp]
  | [a, b], _ =>
    have := a.toNat_lt; have := b.toNat_lt
    simp (disch := omega) [rpcParse, rpcByte, rpcAdvance, C16.rpcAcc_lt] at hp
    rw [← hp]
  | [a, b, c], _ =>
    have := a.toNat_lt; have := b.toNat_lt; have := c.toNat_lt
    simp (disch := omega) [rpcParse, rpcByte, rpcAdvance, C16.rpcAcc_lt] at hp
    rw [← hp]

theorem rpc_udp_head (ovf : Bool) (ci : ClientInfo) (b : UInt8) (t r : Bytes)
    (h : rpcReplUdp ovf ci (b :: t) = .ok (some r)) : ∃ t', r = b :: t' := by
  unfold rpcReplUdp at h
  split at h
  · cases h
  · rename_i s' hp
    split at h
    · rename_i hdone
      split at h
      · cases h
      · rename_i resp hb
        cases h
        by_cases hl : 3 ≤ t.length
        · obtain ⟨b1, b2, b3, t', rfl⟩ : ∃ b1 b2 b3 t', t = b1 :: b2 :: b3 :: t' := by
            match t, hl with
            | b1 :: b2 :: b3 :: t', _ => exact ⟨b1, b2, b3, t', rfl⟩
          rw [C16.read4_xid ovf _ b b1 b2 b3 t' rfl rfl rfl] at hp
          have hx := rpcParse_xid_keep ovf t' _ s' hp (by simp) (by simp)
          simp only at hx
          obtain ⟨x, tt, rfl⟩ := C12.rpcBuild_shape hb
          have e : byte (C16.acc4 b b1 b2 b3 / 16777216) = b := by
            have := b.toNat_lt; have := b1.toNat_lt; have := b2.toNat_lt; have := b3.toNat_lt
            have : C16.acc4 b b1 b2 b3 / 16777216 = b.toNat := by unfold C16.acc4; omega
            rw [this]; simp [byte]
          rw [hx]
          simp only [u32be, e, List.cons_append]
          exact ⟨_, rfl⟩
        · -- fewer than four bytes: the parser is still reading the xid
          exfalso
          have := rpc_short_xid ovf _ (b :: t) (by simp only [List.length_cons]; omega) s' hp
          rw [this] at hdone; cases hdone
    · cases h

end Masscanned.J3
