/-
  Proofs/J3/RpcShort — the ONC-RPC responders never answer a payload shorter than a complete call header
  (40 bytes over UDP; 44 with the record mark): a lower bound `need` on the number of bytes the FSM still
  has to read before `done` decreases by at most one per byte.  Used for the one-byte-short datagrams
  (23 / 27 bytes) that the compiled matcher identifies as ONC-RPC at the end of a datagram.
-/
import Masscanned.Proofs.J3.Shape
namespace Masscanned.J3
open Masscanned

/-- bytes still to be read before the parser can be in `done` (a lower bound) -/
def need (s : RpcSt) : Nat :=
  match s.state with
  | .frag => 44 - s.curLen
  | .xid => 40 - s.curLen
  | .messageType => 36 - s.curLen
  | .rpcVersion => 32 - s.curLen
  | .program => 28 - s.curLen
  | .programVersion => 24 - s.curLen
  | .procedure => 20 - s.curLen
  | .credsFlavor => 16 - s.curLen
  | .credsLen => 12 - s.curLen
  | .creds => (8 - s.curLen) + s.dataLen
  | .verifFlavor => 8 - s.curLen
  | .verifLen => 4 - s.curLen
  | .verif => s.dataLen
  | .done => 0

theorem need_step (ovf : Bool) (s s' : RpcSt) (b : UInt8) (h : rpcByte ovf s b = .ok s') :
    need s ≤ need s' + 1 := by
  obtain ⟨st, lf, fl, xid, mt, rv, prog, pv, proc, cf, vf, cur, dl⟩ := s
  unfold rpcByte at h
  cases st <;> simp only [rpcAdvance] at h <;> (repeat' split at h) <;>
    first
    | (cases h; done)
    | (cases h; simp only [need]; omega)
    | (cases h; simp only [need]; simp_all; done)
    | (cases h; simp only [need]; simp_all; omega)
    | (cases h; simp only [need]; split <;> simp_all <;> omega)

theorem need_parse (ovf : Bool) (d : Bytes) : ∀ (s s' : RpcSt), rpcParse ovf s d = .ok s' →
    need s ≤ need s' + d.length := by
  induction d with
  | nil => intro s s' h; cases h; simp
  | cons b t ih =>
    intro s s' h
    rw [C16.rpcParse_cons] at h
    cases hb : rpcByte ovf s b with
    | error e => rw [hb] at h; cases h
    | ok s1 =>
      rw [hb] at h
      have h1 := need_step ovf s s1 b hb
      have h2 := ih s1 s' h
      simp only [List.length_cons]
      omega

theorem need_done (s : RpcSt) (h : s.state = .done) : need s = 0 := by
  unfold need; rw [h]

/-- fewer than 40 bytes over UDP: no answer -/
theorem rpc_udp_short (ovf : Bool) (ci : ClientInfo) (d : Bytes) (hl : d.length < 40) (o : Option Bytes)
    (h : rpcReplUdp ovf ci d = .ok o) : o = none := by
  unfold rpcReplUdp at h
  split at h
  · cases h
  · rename_i s' hp
    split at h
    · rename_i hdone
      have := need_parse ovf d _ s' hp
      rw [need_done s' hdone] at this
      simp only [need] at this
      omega
    · cases h; rfl

/-- fewer than 44 bytes as first bytes of a TCP stream: no answer -/
theorem rpc_tcp_short (ovf : Bool) (ci : ClientInfo) (d : Bytes) (hl : d.length < 44) (s : RpcSt)
    (o : Option Bytes) (h : rpcReplTcp ovf {} ci d = .ok (s, o)) : o = none := by
  unfold rpcReplTcp at h
  split at h
  · cases h
  · rename_i s' hp
    split at h
    · rename_i hdone
      have := need_parse ovf d _ s' hp
      rw [need_done s' hdone] at this
      simp only [need] at this
      omega
    · simp only [Except.ok.injEq, Prod.mk.injEq] at h; exact h.2.symm

end Masscanned.J3
