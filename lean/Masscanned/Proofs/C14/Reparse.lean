/-
  Proofs/C14/Reparse — the reply of `dnsRepl` parses completely with the responder's OWN parser
  (`dnsParse`), without any precondition on the names (what the Rust unit test `dispatch_dns` checks).
-/
import Masscanned.Proofs.C14.Parse
namespace Masscanned.C14
open Masscanned Masscanned.DnsFix

theorem dnsReadQ_echo (n : Bytes) (hn : IsRaw n) (rest : Bytes) :
    dnsReadQ [] (n ++ ([0, 1, 0, 1] ++ rest)) = some ({ name := n, qtype := 1, qclass := 1 }, rest) := by
  rw [dnsReadQ_raw hn]
  simp [slice, rdBE]

theorem dnsSkipRR_answer (n : Bytes) (hn : IsRaw n) (rd : Bytes) (hrd : rd.length < 65536) (rest : Bytes) :
    dnsSkipRR (n ++ ([0, 1, 0, 1] ++ (u32be 43200 ++ (u16be rd.length ++ (rd ++ rest))))) = some rest := by
  have h32 : u32be 43200 = [0, 0, 168, 192] := by decide
  rw [dnsSkipRR_raw hn, h32]
  have hlen := u16be_be16 rd.length hrd (rd ++ rest)
  have he : [0, 1, 0, 1] ++ ([0, 0, 168, 192] ++ (u16be rd.length ++ (rd ++ rest))) =
      [0, 1, 0, 1, 0, 0, 168, 192] ++ (u16be rd.length ++ (rd ++ rest)) := by simp
  rw [he]
  have hl : ¬ ([0, 1, 0, 1, 0, 0, 168, 192] ++ (u16be rd.length ++ (rd ++ rest))).length < 10 := by
    simp [u16be]
  rw [if_neg hl, rdBE_slice2 _ 8 (by simp [u16be]), hlen]
  simp [u16be]

theorem dnsReadQs_echo : ∀ (qs : List DnsQ),
    (∀ q ∈ qs, IsRaw q.name ∧ q.qtype = 1 ∧ q.qclass = 1) →
    ∀ rest, dnsReadQs qs.length ((qs.map (fun q => q.name ++ [0, 1, 0, 1])).flatten ++ rest) = some (qs, rest) := by
  intro qs
  induction qs with
  | nil => intro _ rest; rfl
  | cons q t ih =>
    intro h rest
    obtain ⟨hn, ht, hc⟩ := h q (by simp)
    simp only [List.length_cons, List.map_cons, List.flatten_cons, List.append_assoc, dnsReadQs]
    rw [dnsReadQ_echo q.name hn]
    simp only
    rw [ih (fun x hx => h x (by simp [hx]))]
    cases q
    simp_all

theorem dnsSkipRRs_answers (ci : ClientInfo) (hrd : (rdataOf ci).length < 65536) : ∀ (qs : List DnsQ),
    (∀ q ∈ qs, IsRaw q.name) →
    ∀ rest, dnsSkipRRs qs.length ((qs.map (dnsAnswer ci.ipDst)).flatten ++ rest) = some rest := by
  intro qs
  induction qs with
  | nil => intro _ rest; rfl
  | cons q t ih =>
    intro h rest
    have hn := h q (by simp)
    simp only [List.length_cons, List.map_cons, List.flatten_cons, List.append_assoc, dnsSkipRRs]
    rw [dnsAnswer_eq]
    simp only [List.append_assoc]
    rw [dnsSkipRR_answer q.name hn _ hrd]
    simp only
    exact ih (fun x hx => h x (by simp [hx])) rest

/-- the reply of the responder to a message it parsed is itself parsed completely by the responder's
    parser: same ID, the reply flag word, the same questions, same count -/
theorem dnsParse_reply {p r : Bytes} {m : DnsMsg} {ci : ClientInfo}
    (hm : dnsParse p = some m) (hr : dnsRepl ci m = some r) (hrd : (rdataOf ci).length < 65536) :
    dnsParse r = some { id := m.id, flags := replyFlags m.flags, qd := m.qd, qdcount := m.qdcount } := by
  obtain ⟨_, hid, _, hqd, hqc, _, _, rest0, hqs0, _⟩ := dnsParse_some hm
  have hid' : m.id < 65536 := by rw [hid]; exact be16_lt p 0
  have hq : m.qdcount < 65536 := by rw [hqd]; exact be16_lt p 4
  have hnames := dnsReadQs_names _ _ _ _ hqs0
  obtain ⟨_, hall, rfl⟩ := dnsRepl_some hr
  generalize hQ : (m.qd.map (fun q => q.name ++ [0, 1, 0, 1])).flatten = Q
  generalize hA : (m.qd.map (dnsAnswer ci.ipDst)).flatten = A
  have hop : m.flags / 2048 % 16 < 16 := Nat.mod_lt _ (by omega)
  have hrdb : m.flags / 256 % 2 < 2 := Nat.mod_lt _ (by omega)
  generalize hopv : m.flags / 2048 % 16 = op at hop
  generalize hrdv : m.flags / 256 % 2 = rdb at hrdb
  have h4 : Spec.be16 (u16be m.id ++ [byte (128 + op * 8 + 4 + rdb), 0] ++ u16be m.qdcount ++ u16be m.qdcount ++
      [0, 0, 0, 0] ++ Q ++ A) 4 = m.qd.length := by
    simp [u16be, Spec.be16, Spec.u8, byte_toNat]; omega
  have h6 : Spec.be16 (u16be m.id ++ [byte (128 + op * 8 + 4 + rdb), 0] ++ u16be m.qdcount ++ u16be m.qdcount ++
      [0, 0, 0, 0] ++ Q ++ A) 6 = m.qd.length := by
    simp [u16be, Spec.be16, Spec.u8, byte_toNat]; omega
  have h0 : Spec.be16 (u16be m.id ++ [byte (128 + op * 8 + 4 + rdb), 0] ++ u16be m.qdcount ++ u16be m.qdcount ++
      [0, 0, 0, 0] ++ Q ++ A) 0 = m.id := by
    simp [u16be, Spec.be16, Spec.u8, byte_toNat]; omega
  have h2 : Spec.be16 (u16be m.id ++ [byte (128 + op * 8 + 4 + rdb), 0] ++ u16be m.qdcount ++ u16be m.qdcount ++
      [0, 0, 0, 0] ++ Q ++ A) 2 = (128 + op * 8 + 4 + rdb) * 256 := by
    simp [u16be, Spec.be16, Spec.u8, byte_toNat]; omega
  have h8 : Spec.be16 (u16be m.id ++ [byte (128 + op * 8 + 4 + rdb), 0] ++ u16be m.qdcount ++ u16be m.qdcount ++
      [0, 0, 0, 0] ++ Q ++ A) 8 = 0 := by
    simp [u16be, Spec.be16, Spec.u8]
  have h10 : Spec.be16 (u16be m.id ++ [byte (128 + op * 8 + 4 + rdb), 0] ++ u16be m.qdcount ++ u16be m.qdcount ++
      [0, 0, 0, 0] ++ Q ++ A) 10 = 0 := by
    simp [u16be, Spec.be16, Spec.u8]
  have hd : (u16be m.id ++ [byte (128 + op * 8 + 4 + rdb), 0] ++ u16be m.qdcount ++ u16be m.qdcount ++
      [0, 0, 0, 0] ++ Q ++ A).drop 12 = Q ++ A := by
    simp [u16be]
  have hl : 12 ≤ (u16be m.id ++ [byte (128 + op * 8 + 4 + rdb), 0] ++ u16be m.qdcount ++ u16be m.qdcount ++
      [0, 0, 0, 0] ++ Q ++ A).length := by
    simp [u16be]
  rw [dnsParse_eq _ hl, h0, h2, h4, h6, h8, h10, hd, ← hQ,
    dnsReadQs_echo m.qd (fun q hq => ⟨hnames q hq, hall q hq⟩)]
  simp only
  have := dnsSkipRRs_answers ci hrd m.qd hnames []
  rw [List.append_nil] at this
  rw [← hA, this]
  simp [replyFlags, hrdv, hopv, hqc]

end Masscanned.C14
