/-
  Proofs/C14/Reply — the reply built by `dnsRepl` re-parses completely with the Spec's RFC 1035
  parser, provided the echoed names are well-formed names.
-/
import Masscanned.Proofs.C14.Bridge
namespace Masscanned.C14
open Masscanned

/-- RDATA of the answers: the IPv4 destination address, empty otherwise -/
def rdataOf (ci : ClientInfo) : Bytes :=
  match ci.ipDst with
  | some (.v4 a) => a
  | _ => []

theorem dnsAnswer_eq (ci : ClientInfo) (q : DnsQ) :
    dnsAnswer ci.ipDst q = q.name ++ ([0, 1, 0, 1] ++ (u32be 43200 ++ (u16be (rdataOf ci).length ++ rdataOf ci))) := by
  unfold dnsAnswer rdataOf
  rcases ci.ipDst with _ | (a | a) <;> simp

def echoQ (q : DnsQ) : Spec.DQ := { name := q.name, qtype := 1, qclass := 1 }
def ansRR (rd : Bytes) (q : DnsQ) : Spec.DRR := { name := q.name, rtype := 1, rclass := 1, ttl := 43200, rdata := rd }

theorem readQuestion_echo (n : Bytes) (hN : IsName n) (hl : n.length ≤ 255) (rest : Bytes) :
    Spec.readQuestion (n ++ ([0, 1, 0, 1] ++ rest)) = some ({ name := n, qtype := 1, qclass := 1 }, rest) := by
  unfold Spec.readQuestion
  rw [readName_of_isName hN _ [] _ (by simp; omega) (by simpa using hl)]
  simp [Spec.be16, Spec.u8]

theorem u16be_be16 (n : Nat) (h : n < 65536) (t : Bytes) :
    Spec.be16 ([0, 1, 0, 1, 0, 0, 168, 192] ++ (u16be n ++ t)) 8 = n := by
  simp [u16be, Spec.be16, Spec.u8, byte_toNat]; omega

theorem readRR_answer (n : Bytes) (hN : IsName n) (hl : n.length ≤ 255) (rd : Bytes) (hrd : rd.length < 65536)
    (rest : Bytes) :
    Spec.readRR (n ++ ([0, 1, 0, 1] ++ (u32be 43200 ++ (u16be rd.length ++ rd))) ++ rest) =
      some ({ name := n, rtype := 1, rclass := 1, ttl := 43200, rdata := rd }, rest) := by
  unfold Spec.readRR
  have h32 : u32be 43200 = [0, 0, 168, 192] := by decide
  rw [List.append_assoc, readName_of_isName hN _ [] _ (by simp; omega) (by simpa using hl)]
  have hlen : Spec.be16 ([0, 1, 0, 1] ++ (u32be 43200 ++ (u16be rd.length ++ rd)) ++ rest) 8 = rd.length := by
    have := u16be_be16 rd.length hrd (rd ++ rest)
    rw [h32]
    simpa using this
  simp only [List.nil_append]
  rw [hlen]
  simp [h32, u16be, Spec.be16, Spec.be32, Spec.u8]

theorem readQuestions_echo : ∀ (qs : List DnsQ), (∀ q ∈ qs, IsName q.name ∧ q.name.length ≤ 255) →
    ∀ rest, Spec.readQuestions qs.length ((qs.map (fun q => q.name ++ [0, 1, 0, 1])).flatten ++ rest) =
      some (qs.map echoQ, rest) := by
  intro qs
  induction qs with
  | nil => intro _ rest; rfl
  | cons q t ih =>
    intro h rest
    have hq := h q (by simp)
    simp only [List.length_cons, List.map_cons, List.flatten_cons, List.append_assoc, Spec.readQuestions]
    rw [readQuestion_echo q.name hq.1 hq.2]
    simp only
    rw [ih (fun x hx => h x (by simp [hx]))]
    rfl

theorem readRRs_answers (ci : ClientInfo) (hrd : (rdataOf ci).length < 65536) : ∀ (qs : List DnsQ),
    (∀ q ∈ qs, IsName q.name ∧ q.name.length ≤ 255) →
    ∀ rest, Spec.readRRs qs.length ((qs.map (dnsAnswer ci.ipDst)).flatten ++ rest) =
      some (qs.map (ansRR (rdataOf ci)), rest) := by
  intro qs
  induction qs with
  | nil => intro _ rest; rfl
  | cons q t ih =>
    intro h rest
    have hq := h q (by simp)
    simp only [List.length_cons, List.map_cons, List.flatten_cons, List.append_assoc, Spec.readRRs]
    rw [dnsAnswer_eq, readRR_answer q.name hq.1 hq.2 _ hrd]
    simp only
    rw [ih (fun x hx => h x (by simp [hx]))]
    rfl

theorem typeNorm_one (t : Nat) : dnsTypeNorm t = 1 ↔ t = 1 := by
  unfold dnsTypeNorm; split <;> (try split) <;> simp_all

theorem classNorm_one (t : Nat) : dnsClassNorm t = 1 ↔ t = 1 := by
  unfold dnsClassNorm; split <;> (try split) <;> simp_all

/-- the flag word of a reply -/
def replyFlags (f : Nat) : Nat := (128 + f / 2048 % 16 * 8 + 4 + f / 256 % 2) * 256

/-- shape of a successful `dnsRepl` -/
theorem dnsRepl_some {ci : ClientInfo} {m : DnsMsg} {r : Bytes} (h : dnsRepl ci m = some r) :
    m.flags / 32768 ≠ 1 ∧ (∀ q ∈ m.qd, q.qtype = 1 ∧ q.qclass = 1) ∧
    r = u16be m.id ++ [byte (128 + m.flags / 2048 % 16 * 8 + 4 + m.flags / 256 % 2), 0] ++ u16be m.qdcount ++
          u16be m.qdcount ++ [0, 0, 0, 0] ++ (m.qd.map (fun q => q.name ++ [0, 1, 0, 1])).flatten ++
          (m.qd.map (dnsAnswer ci.ipDst)).flatten := by
  unfold dnsRepl at h
  split at h
  · cases h
  · rename_i hqr
    split at h
    · rename_i hall
      simp only [Option.some.injEq] at h
      refine ⟨hqr, ?_, h.symm⟩
      intro q hq
      have := (List.all_eq_true.mp hall) q hq
      simpa [typeNorm_one, classNorm_one] using this
    · cases h

/-- **the reply re-parses completely** with the Spec's parser -/
theorem parseDns_reply {ci : ClientInfo} {m : DnsMsg} {r : Bytes} (h : dnsRepl ci m = some r)
    (hid : m.id < 65536) (hqc : m.qdcount = m.qd.length) (hq : m.qdcount < 65536)
    (hwf : ∀ q ∈ m.qd, IsName q.name ∧ q.name.length ≤ 255) (hrd : (rdataOf ci).length < 65536) :
    Spec.parseDns r = some { id := m.id, flags := replyFlags m.flags, qd := m.qd.map echoQ,
                             an := m.qd.map (ansRR (rdataOf ci)), nscount := 0, arcount := 0, rest := [] } := by
  obtain ⟨_, _, rfl⟩ := dnsRepl_some h
  generalize hQ : (m.qd.map (fun q => q.name ++ [0, 1, 0, 1])).flatten = Q
  generalize hA : (m.qd.map (dnsAnswer ci.ipDst)).flatten = A
  have hop : m.flags / 2048 % 16 < 16 := Nat.mod_lt _ (by omega)
  have hrdb : m.flags / 256 % 2 < 2 := Nat.mod_lt _ (by omega)
  generalize hopv : m.flags / 2048 % 16 = op at hop
  generalize hrdv : m.flags / 256 % 2 = rdb at hrdb
  unfold Spec.parseDns
  have h4 : Spec.be16 (u16be m.id ++ [byte (128 + op * 8 + 4 + rdb), 0] ++ u16be m.qdcount ++ u16be m.qdcount ++
      [0, 0, 0, 0] ++ Q ++ A) 4 = m.qd.length := by
    simp [u16be, Spec.be16, Spec.u8, byte_toNat]; omega
  have h6 : Spec.be16 (u16be m.id ++ [byte (128 + op * 8 + 4 + rdb), 0] ++ u16be m.qdcount ++ u16be m.qdcount ++
      [0, 0, 0, 0] ++ Q ++ A) 6 = m.qd.length := by
    simp [u16be, Spec.be16, Spec.u8, byte_toNat]; omega
  have h0 : Spec.be16 (u16be m.id ++ [byte (128 + op * 8 + 4 + rdb), 0] ++ u16be m.qdcount ++ u16be m.qdcount ++
      [0, 0, 0, 0] ++ Q ++ A) 0 = m.id := by
    simp [u16be, Spec.be16, Spec.u8, byte_toNat]; omega
  have h2 : Spec.be16 (u16be m.id ++ [byte (128 + op * 8 + 4 + rdb), 0] ++ u16be m.qdcount ++ u16be m.qdcount ++
      [0, 0, 0, 0] ++ Q ++ A) 2 = (128 + op * 8 + 4 + rdb) * 256 := by
    simp [u16be, Spec.be16, Spec.u8, byte_toNat]; omega
  have h8 : Spec.be16 (u16be m.id ++ [byte (128 + op * 8 + 4 + rdb), 0] ++ u16be m.qdcount ++ u16be m.qdcount ++
      [0, 0, 0, 0] ++ Q ++ A) 8 = 0 := by
    simp [u16be, Spec.be16, Spec.u8]
  have h10 : Spec.be16 (u16be m.id ++ [byte (128 + op * 8 + 4 + rdb), 0] ++ u16be m.qdcount ++ u16be m.qdcount ++
      [0, 0, 0, 0] ++ Q ++ A) 10 = 0 := by
    simp [u16be, Spec.be16, Spec.u8]
  have hd : (u16be m.id ++ [byte (128 + op * 8 + 4 + rdb), 0] ++ u16be m.qdcount ++ u16be m.qdcount ++
      [0, 0, 0, 0] ++ Q ++ A).drop 12 = Q ++ A := by
    simp [u16be]
  have hl : ¬ (u16be m.id ++ [byte (128 + op * 8 + 4 + rdb), 0] ++ u16be m.qdcount ++ u16be m.qdcount ++
      [0, 0, 0, 0] ++ Q ++ A).length < 12 := by
    simp [u16be]
  rw [if_neg hl, h0, h2, h4, h6, h8, h10, hd, ← hQ, readQuestions_echo m.qd hwf]
  simp only
  have := readRRs_answers ci hrd m.qd hwf []
  rw [List.append_nil] at this
  rw [← hA, this]
  simp [replyFlags, hrdv, hopv]

end Masscanned.C14
