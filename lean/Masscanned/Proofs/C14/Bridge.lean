/-
  Proofs/C14/Bridge — the model's question reader agrees with the Spec's on NUL-free names;
  the Spec's truncation scanner implies failure of the model's readers.
-/
import Masscanned.Proofs.C14.Name
namespace Masscanned.C14
open Masscanned

/-- the model's view of a Spec question -/
def toQ (q : Spec.DQ) : DnsQ := { name := q.name, qtype := q.qtype, qclass := q.qclass }

theorem rdBE_take2 (r : Bytes) (h : 2 ≤ r.length) : rdBE (r.take 2) = Spec.be16 r 0 := by
  have := rdBE_slice2 r 0 (by omega)
  simpa [slice] using this

/-- **Bridge lemma (names).**  If `Spec.readName` reads the name `n` from `p` leaving `r`, and no label
    byte of `n` is 0x00, the model's question reader splits `p` at the same place. -/
theorem dnsReadQ_of_readName {fuel : Nat} {p n r : Bytes} (h : Spec.readName fuel [] p = some (n, r))
    (hn : Spec.labelsNoNul 256 n = true) :
    dnsReadQ [] p =
      if r.length < 4 then none
      else some ({ name := n, qtype := Spec.be16 r 0, qclass := Spec.be16 r 2 }, r.drop 4) := by
  obtain ⟨n', hN, hnn, rfl, hlen⟩ := readName_spec _ _ _ _ _ h
  simp only [List.nil_append] at hnn
  subst hnn
  obtain ⟨body, rfl, hb⟩ := isName_split hN 256 (by omega) hn
  rw [List.append_assoc, List.singleton_append, dnsReadQ_body body hb]
  split
  · rfl
  · rw [rdBE_take2 r (by omega), rdBE_slice2 r 2 (by omega)]; simp

theorem dnsReadQ_of_readQuestion {p r : Bytes} {q : Spec.DQ} (h : Spec.readQuestion p = some (q, r))
    (hn : Spec.labelsNoNul 256 q.name = true) : dnsReadQ [] p = some (toQ q, r) := by
  unfold Spec.readQuestion at h
  split at h
  · cases h
  · rename_i n r0 hr
    split at h
    · cases h
    · rename_i hl
      simp only [Option.some.injEq, Prod.mk.injEq] at h
      obtain ⟨rfl, rfl⟩ := h
      rw [dnsReadQ_of_readName hr hn, if_neg hl]
      rfl

/-- **Bridge lemma (question sections).** -/
theorem dnsReadQs_of_readQuestions : ∀ (k : Nat) (p : Bytes) (qs : List Spec.DQ) (r : Bytes),
    Spec.readQuestions k p = some (qs, r) → (∀ q ∈ qs, Spec.labelsNoNul 256 q.name = true) →
    dnsReadQs k p = some (qs.map toQ, r) := by
  intro k
  induction k with
  | zero =>
    intro p qs r h _
    simp only [Spec.readQuestions, Option.some.injEq, Prod.mk.injEq] at h
    obtain ⟨rfl, rfl⟩ := h
    rfl
  | succ k ih =>
    intro p qs r h hn
    unfold Spec.readQuestions at h
    split at h
    · cases h
    · rename_i q r1 hq
      split at h
      · cases h
      · rename_i qs' r' hqs
        simp only [Option.some.injEq, Prod.mk.injEq] at h
        obtain ⟨rfl, rfl⟩ := h
        unfold dnsReadQs
        rw [dnsReadQ_of_readQuestion hq (hn q (by simp))]
        simp only
        rw [ih _ _ _ hqs (fun x hx => hn x (by simp [hx]))]
        rfl

theorem readQuestions_length : ∀ (k : Nat) (p : Bytes) (qs : List Spec.DQ) (r : Bytes),
    Spec.readQuestions k p = some (qs, r) → qs.length = k := by
  intro k
  induction k with
  | zero => intro p qs r h; simp only [Spec.readQuestions, Option.some.injEq, Prod.mk.injEq] at h; simp [← h.1]
  | succ k ih =>
    intro p qs r h
    unfold Spec.readQuestions at h
    split at h
    · cases h
    · split at h
      · cases h
      · rename_i hqs
        simp only [Option.some.injEq, Prod.mk.injEq] at h
        rw [← h.1, List.length_cons, ih _ _ _ hqs]

theorem readRRs_length : ∀ (k : Nat) (p : Bytes) (xs : List Spec.DRR) (r : Bytes),
    Spec.readRRs k p = some (xs, r) → xs.length = k := by
  intro k
  induction k with
  | zero => intro p qs r h; simp only [Spec.readRRs, Option.some.injEq, Prod.mk.injEq] at h; simp [← h.1]
  | succ k ih =>
    intro p qs r h
    unfold Spec.readRRs at h
    split at h
    · cases h
    · split at h
      · cases h
      · rename_i hqs
        simp only [Option.some.injEq, Prod.mk.injEq] at h
        rw [← h.1, List.length_cons, ih _ _ _ hqs]

theorem dnsReadQs_length : ∀ (k : Nat) (p : Bytes) (qs : List DnsQ) (r : Bytes),
    dnsReadQs k p = some (qs, r) → qs.length = k := by
  intro k
  induction k with
  | zero => intro p qs r h; simp only [dnsReadQs, Option.some.injEq, Prod.mk.injEq] at h; simp [← h.1]
  | succ k ih =>
    intro p qs r h
    unfold dnsReadQs at h
    split at h
    · cases h
    · split at h
      · cases h
      · rename_i hqs
        simp only [Option.some.injEq, Prod.mk.injEq] at h
        rw [← h.1, List.length_cons, ih _ _ _ hqs]

/-- every name the model reads is "NUL-free bytes, then one 0x00" -/
theorem dnsReadQ_name : ∀ (p acc : Bytes) (q : DnsQ) (r : Bytes), dnsReadQ acc p = some (q, r) →
    ∃ body, q.name = acc ++ body ++ [0] ∧ ∀ b ∈ body, b ≠ 0 := by
  intro p
  induction p with
  | nil => intro acc q r h; cases h
  | cons b t ih =>
    intro acc q r h
    unfold dnsReadQ at h
    split at h
    · split at h
      · cases h
      · simp only [Option.some.injEq, Prod.mk.injEq] at h
        exact ⟨[], by simp [← h.1], by simp⟩
    · rename_i hb
      obtain ⟨body, hq, hnz⟩ := ih _ _ _ h
      refine ⟨b :: body, by simp [hq], ?_⟩
      intro x hx
      simp only [List.mem_cons] at hx
      rcases hx with rfl | hx
      · exact hb
      · exact hnz x hx

theorem dnsReadQs_names : ∀ (k : Nat) (p : Bytes) (qs : List DnsQ) (r : Bytes),
    dnsReadQs k p = some (qs, r) → ∀ q ∈ qs, ∃ body, q.name = body ++ [0] ∧ ∀ b ∈ body, b ≠ 0 := by
  intro k
  induction k with
  | zero => intro p qs r h; simp only [dnsReadQs, Option.some.injEq, Prod.mk.injEq] at h; simp [← h.1]
  | succ k ih =>
    intro p qs r h
    unfold dnsReadQs at h
    split at h
    · cases h
    · rename_i q0 r0 hq0
      split at h
      · cases h
      · rename_i hqs
        simp only [Option.some.injEq, Prod.mk.injEq] at h
        rw [← h.1]
        intro q hq
        simp only [List.mem_cons] at hq
        rcases hq with rfl | hq
        · simpa using dnsReadQ_name _ _ _ _ hq0
        · exact ih _ _ _ hqs q hq

/-! ### truncation -/

/-- outcome of the Spec's name scanner, in terms of the first zero byte -/
theorem scanName_spec : ∀ (fuel : Nat) (p : Bytes),
    (Spec.scanName fuel p = .short → ∀ b ∈ p, b ≠ 0) ∧
    (∀ r, Spec.scanName fuel p = .done r → ∃ body, p = body ++ 0 :: r ∧ ∀ b ∈ body, b ≠ 0) := by
  intro fuel
  induction fuel with
  | zero => intro p; simp [Spec.scanName]
  | succ f ih =>
    intro p
    unfold Spec.scanName
    split
    · simp
    · rename_i l t
      split
      · rename_i hl
        subst hl
        refine ⟨by simp, ?_⟩
        intro r hr
        simp only [Spec.Scan.done.injEq] at hr
        subst hr
        exact ⟨[], rfl, by simp⟩
      · rename_i hl
        split
        · simp
        · split
          · simp
          · rename_i hnz
            have hnz' : ∀ b ∈ t.take l.toNat, b ≠ 0 := by
              intro b hb h0
              apply hnz
              simp only [List.any_eq_true, decide_eq_true_eq]
              exact ⟨b, hb, h0⟩
            split
            · rename_i hsh
              refine ⟨?_, by simp⟩
              intro _ b hb
              simp only [List.mem_cons] at hb
              rcases hb with rfl | hb
              · exact hl
              · rw [List.take_of_length_le (by omega)] at hnz'
                exact hnz' b hb
            · obtain ⟨ih1, ih2⟩ := ih (t.drop l.toNat)
              constructor
              · intro hs b hb
                simp only [List.mem_cons] at hb
                rcases hb with rfl | hb
                · exact hl
                · rw [← List.take_append_drop l.toNat t, List.mem_append] at hb
                  rcases hb with hb | hb
                  · exact hnz' b hb
                  · exact ih1 hs b hb
              · intro r hr
                obtain ⟨body, hbd, hbz⟩ := ih2 r hr
                refine ⟨l :: (t.take l.toNat ++ body), ?_, ?_⟩
                · rw [List.cons_append, List.append_assoc, ← hbd, List.take_append_drop]
                · intro b hb
                  simp only [List.mem_cons, List.mem_append] at hb
                  rcases hb with rfl | hb | hb
                  · exact hl
                  · exact hnz' b hb
                  · exact hbz b hb

theorem scanQuestions_spec : ∀ (k : Nat) (p : Bytes),
    (Spec.scanQuestions k p = .short → dnsReadQs k p = none) ∧
    (∀ r, Spec.scanQuestions k p = .done r → ∃ qs, dnsReadQs k p = some (qs, r)) := by
  intro k
  induction k with
  | zero =>
    intro p
    simp [Spec.scanQuestions, dnsReadQs]
  | succ k ih =>
    intro p
    obtain ⟨s1, s2⟩ := scanName_spec (p.length + 1) p
    unfold Spec.scanQuestions dnsReadQs
    split
    · rename_i r hr
      obtain ⟨body, rfl, hb⟩ := s2 r hr
      rw [dnsReadQ_body body hb]
      split
      · simp
      · obtain ⟨i1, i2⟩ := ih (r.drop 4)
        constructor
        · intro hs; simp only [i1 hs]
        · intro r' hr'
          obtain ⟨qs, hqs⟩ := i2 r' hr'
          simp only [hqs]
          exact ⟨_, rfl⟩
    · rename_i x hx
      constructor
      · intro hs
        rw [dnsReadQ_noNul p (s1 hs)]
      · intro r hr
        exact absurd hr (hx r)

theorem scanRRs_spec : ∀ (k : Nat) (p : Bytes),
    (Spec.scanRRs k p = .short → dnsSkipRRs k p = none) ∧
    (∀ r, Spec.scanRRs k p = .done r → dnsSkipRRs k p = some r) := by
  intro k
  induction k with
  | zero =>
    intro p
    simp [Spec.scanRRs, dnsSkipRRs]
  | succ k ih =>
    intro p
    obtain ⟨s1, s2⟩ := scanName_spec (p.length + 1) p
    unfold Spec.scanRRs dnsSkipRRs
    split
    · rename_i r hr
      obtain ⟨body, rfl, hb⟩ := s2 r hr
      rw [dnsSkipRR_body body hb]
      split
      · simp
      · rw [rdBE_slice2 r 8 (by omega)]
        split
        · simp
        · exact ih _
    · rename_i x hx
      constructor
      · intro hs
        rw [dnsSkipRR_noNul p (s1 hs)]
      · intro r hr
        exact absurd hr (hx r)

end Masscanned.C14
