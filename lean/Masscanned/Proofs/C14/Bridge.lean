/-
  Proofs/C14/Bridge — the model's (label-wise) question reader agrees with the Spec's on every name the
  Spec reads, whatever octets the labels contain; the truncation scanners (the Spec's, and its twin without
  the "no 0x00 in a label" line, `DnsFix.scanNameAny`) imply failure of the model's readers; what happens
  at a length octet ≥ 64.
-/
import Masscanned.Proofs.C14.Name
import Masscanned.Proofs.DnsFix.Full
namespace Masscanned.C14
open Masscanned Masscanned.DnsFix

/-- the model's view of a Spec question -/
def toQ (q : Spec.DQ) : DnsQ := { name := q.name, qtype := q.qtype, qclass := q.qclass }

theorem rdBE_take2 (r : Bytes) (h : 2 ≤ r.length) : rdBE (r.take 2) = Spec.be16 r 0 := by
  have := rdBE_slice2 r 0 (by omega)
  simpa [slice] using this

/-- **Bridge lemma (names).**  If `Spec.readName` reads the name `n` from `p` leaving `r`, the model's
    question reader splits `p` at the same place — for every name (labels of 1..63 octets of ANY value,
    at most 255 octets in total). -/
theorem dnsReadQ_of_readName {fuel : Nat} {p n r : Bytes} (h : Spec.readName fuel [] p = some (n, r)) :
    dnsReadQ [] p =
      if r.length < 4 then none
      else some ({ name := n, qtype := Spec.be16 r 0, qclass := Spec.be16 r 2 }, r.drop 4) := by
  obtain ⟨n', hN, hnn, rfl, hlen⟩ := readName_spec _ _ _ _ _ h
  simp only [List.nil_append] at hnn
  subst hnn
  rw [dnsReadQ_isName hN]
  split
  · rfl
  · rw [rdBE_take2 r (by omega), rdBE_slice2 r 2 (by omega)]; simp

/-- the record skipper likewise -/
theorem dnsSkipRR_of_readName {fuel : Nat} {p n r : Bytes} (h : Spec.readName fuel [] p = some (n, r)) :
    dnsSkipRR p =
      if r.length < 10 then none
      else if (r.drop 10).length < Spec.be16 r 8 then none
      else some ((r.drop 10).drop (Spec.be16 r 8)) := by
  obtain ⟨n', hN, _, rfl, _⟩ := readName_spec _ _ _ _ _ h
  rw [dnsSkipRR_isName hN]
  split
  · rfl
  · rw [rdBE_slice2 r 8 (by omega)]

theorem dnsReadQ_of_readQuestion {p r : Bytes} {q : Spec.DQ} (h : Spec.readQuestion p = some (q, r)) :
    dnsReadQ [] p = some (toQ q, r) := by
  unfold Spec.readQuestion at h
  split at h
  · cases h
  · rename_i n r0 hr
    split at h
    · cases h
    · rename_i hl
      simp only [Option.some.injEq, Prod.mk.injEq] at h
      obtain ⟨rfl, rfl⟩ := h
      rw [dnsReadQ_of_readName hr, if_neg hl]
      rfl

/-- **Bridge lemma (question sections).** -/
theorem dnsReadQs_of_readQuestions : ∀ (k : Nat) (p : Bytes) (qs : List Spec.DQ) (r : Bytes),
    Spec.readQuestions k p = some (qs, r) → dnsReadQs k p = some (qs.map toQ, r) := by
  intro k
  induction k with
  | zero =>
    intro p qs r h
    simp only [Spec.readQuestions, Option.some.injEq, Prod.mk.injEq] at h
    obtain ⟨rfl, rfl⟩ := h
    rfl
  | succ k ih =>
    intro p qs r h
    unfold Spec.readQuestions at h
    split at h
    · cases h
    · rename_i q r1 hq
      split at h
      · cases h
      · rename_i qs' r' hqs
        simp only [Option.some.injEq, Prod.mk.injEq] at h
        obtain ⟨rfl, rfl⟩ := h
        unfold dnsReadQs
        rw [dnsReadQ_of_readQuestion hq]
        simp only
        rw [ih _ _ _ hqs]
        rfl

/-! ### length octets ≥ 64

  The Spec (RFC 1035: the two top bits of a length octet are reserved) rejects them; the repaired reader
  treats ANY non-zero octet as a plain label length.  So a message with such an octet in a name position
  is outside all hypotheses of C14 (`Spec.parseDns` fails, `Spec.scanName` says `.bad`): C14 neither
  demands an answer nor silence for it. -/

/-- the Spec's name reader fails at a length octet ≥ 64 … -/
theorem readName_long_label (fuel : Nat) (acc : Bytes) (l : UInt8) (t : Bytes) (h : l.toNat > 63) :
    Spec.readName fuel acc (l :: t) = none := by
  cases fuel with
  | zero => rfl
  | succ f =>
    have hl : l ≠ 0 := by intro h0; subst h0; simp at h
    simp [Spec.readName, hl, h]

/-- … both scanners say `.bad` (not "truncated") … -/
theorem scanName_long_label (fuel : Nat) (l : UInt8) (t : Bytes) (h : l.toNat > 63) :
    Spec.scanName (fuel + 1) (l :: t) = .bad ∧ scanNameAny (fuel + 1) (l :: t) = .bad := by
  have hl : l ≠ 0 := by intro h0; subst h0; simp at h
  simp [Spec.scanName, scanNameAny, hl, h]

/-- … while the model's reader takes the octet as a length like any other: it copies that many octets
    (`lab`) and goes on with the next length octet (stated for every non-zero `l`, 64..255 included) -/
theorem dnsReadQ_any_label (l : UInt8) (hl : l ≠ 0) (lab : Bytes) (hlab : lab.length = l.toNat) (acc t : Bytes) :
    dnsReadQ acc (l :: (lab ++ t)) = dnsReadQ (acc ++ l :: lab) t := by
  unfold dnsReadQ
  rw [dnsReadQL_eq, dnsReadQL_eq, rawSplit_cons_label l hl lab hlab]
  cases rawSplit 0 t with
  | none => rfl
  | some x => simp

theorem dnsSkipRR_any_label (l : UInt8) (hl : l ≠ 0) (lab : Bytes) (hlab : lab.length = l.toNat) (t : Bytes) :
    dnsSkipRR (l :: (lab ++ t)) = dnsSkipRR t := by
  unfold dnsSkipRR
  rw [dnsSkipRRL_eq, dnsSkipRRL_eq, rawSplit_cons_label l hl lab hlab]
  cases rawSplit 0 t with
  | none => rfl
  | some x => simp

theorem readQuestions_length : ∀ (k : Nat) (p : Bytes) (qs : List Spec.DQ) (r : Bytes),
    Spec.readQuestions k p = some (qs, r) → qs.length = k := by
  intro k
  induction k with
  | zero => intro p qs r h; simp only [Spec.readQuestions, Option.some.injEq, Prod.mk.injEq] at h; simp [← h.1]
  | succ k ih =>
    intro p qs r h
    unfold Spec.readQuestions at h
    split at h
    · cases h
    · split at h
      · cases h
      · rename_i hqs
        simp only [Option.some.injEq, Prod.mk.injEq] at h
        rw [← h.1, List.length_cons, ih _ _ _ hqs]

theorem readRRs_length : ∀ (k : Nat) (p : Bytes) (xs : List Spec.DRR) (r : Bytes),
    Spec.readRRs k p = some (xs, r) → xs.length = k := by
  intro k
  induction k with
  | zero => intro p qs r h; simp only [Spec.readRRs, Option.some.injEq, Prod.mk.injEq] at h; simp [← h.1]
  | succ k ih =>
    intro p qs r h
    unfold Spec.readRRs at h
    split at h
    · cases h
    · split at h
      · cases h
      · rename_i hqs
        simp only [Option.some.injEq, Prod.mk.injEq] at h
        rw [← h.1, List.length_cons, ih _ _ _ hqs]

theorem dnsReadQs_length : ∀ (k : Nat) (p : Bytes) (qs : List DnsQ) (r : Bytes),
    dnsReadQs k p = some (qs, r) → qs.length = k := by
  intro k
  induction k with
  | zero => intro p qs r h; simp only [dnsReadQs, Option.some.injEq, Prod.mk.injEq] at h; simp [← h.1]
  | succ k ih =>
    intro p qs r h
    unfold dnsReadQs at h
    split at h
    · cases h
    · split at h
      · cases h
      · rename_i hqs
        simp only [Option.some.injEq, Prod.mk.injEq] at h
        rw [← h.1, List.length_cons, ih _ _ _ hqs]

/-- every name the model reads is a sequence of labels (any octets) closed by the root label -/
theorem dnsReadQs_names : ∀ (k : Nat) (p : Bytes) (qs : List DnsQ) (r : Bytes),
    dnsReadQs k p = some (qs, r) → ∀ q ∈ qs, IsRaw q.name := dnsReadQs_raw

/-! ### truncation -/

/-- outcome of the unrestricted name scanner, in terms of the label-wise reader: `.short` — the reader finds
    no complete name; `.done r` — the input is an RFC 1035 name followed by `r` -/
theorem scanNameAny_spec : ∀ (fuel : Nat) (p : Bytes),
    (scanNameAny fuel p = .short → rawSplit 0 p = none) ∧
    (∀ r, scanNameAny fuel p = .done r → ∃ n, IsName n ∧ p = n ++ r) := by
  intro fuel
  induction fuel with
  | zero => intro p; simp [scanNameAny]
  | succ f ih =>
    intro p
    cases p with
    | nil => simp [scanNameAny, rawSplit]
    | cons l t =>
      simp only [scanNameAny]
      by_cases hl : l = 0
      · subst hl
        refine ⟨by simp, ?_⟩
        intro r hr
        simp only [if_true, Spec.Scan.done.injEq] at hr
        subst hr
        exact ⟨[0], .root, rfl⟩
      · rw [if_neg hl]
        by_cases h63 : l.toNat > 63
        · simp [h63]
        · rw [if_neg h63]
          by_cases hs : t.length < l.toNat
          · rw [if_pos hs]
            refine ⟨?_, by simp⟩
            intro _
            rw [rawSplit, if_neg (by omega), if_neg hl, rawSplit_short t _ (by omega)]
            rfl
          · rw [if_neg hs]
            obtain ⟨ih1, ih2⟩ := ih (t.drop l.toNat)
            have hlab : (t.take l.toNat).length = l.toNat := by simp; omega
            have hsplit := rawSplit_cons_label l hl (t.take l.toNat) hlab (t.drop l.toNat)
            rw [List.take_append_drop] at hsplit
            constructor
            · intro h
              rw [hsplit, ih1 h]
              rfl
            · intro r hr
              obtain ⟨n, hN, hn⟩ := ih2 r hr
              refine ⟨l :: (t.take l.toNat ++ n), .label l _ _ hl (by omega) hlab hN, ?_⟩
              rw [List.cons_append, List.append_assoc, ← hn, List.take_append_drop]

theorem scanQuestionsAny_spec : ∀ (k : Nat) (p : Bytes),
    (scanQuestionsAny k p = .short → dnsReadQs k p = none) ∧
    (∀ r, scanQuestionsAny k p = .done r → ∃ qs, dnsReadQs k p = some (qs, r)) := by
  intro k
  induction k with
  | zero =>
    intro p
    simp [scanQuestionsAny, dnsReadQs]
  | succ k ih =>
    intro p
    obtain ⟨s1, s2⟩ := scanNameAny_spec (p.length + 1) p
    unfold scanQuestionsAny dnsReadQs
    split
    · rename_i r hr
      obtain ⟨n, hN, rfl⟩ := s2 r hr
      rw [dnsReadQ_isName hN]
      split
      · simp
      · obtain ⟨i1, i2⟩ := ih (r.drop 4)
        constructor
        · intro hs; simp only [i1 hs]
        · intro r' hr'
          obtain ⟨qs, hqs⟩ := i2 r' hr'
          simp only [hqs]
          exact ⟨_, rfl⟩
    · rename_i x hx
      constructor
      · intro hs
        rw [dnsReadQ_none_of_rawSplit (s1 hs)]
      · intro r hr
        exact absurd hr (hx r)

theorem scanRRsAny_spec : ∀ (k : Nat) (p : Bytes),
    (scanRRsAny k p = .short → dnsSkipRRs k p = none) ∧
    (∀ r, scanRRsAny k p = .done r → dnsSkipRRs k p = some r) := by
  intro k
  induction k with
  | zero =>
    intro p
    simp [scanRRsAny, dnsSkipRRs]
  | succ k ih =>
    intro p
    obtain ⟨s1, s2⟩ := scanNameAny_spec (p.length + 1) p
    unfold scanRRsAny dnsSkipRRs
    split
    · rename_i r hr
      obtain ⟨n, hN, rfl⟩ := s2 r hr
      rw [dnsSkipRR_isName hN]
      split
      · simp
      · rw [rdBE_slice2 r 8 (by omega)]
        split
        · simp
        · exact ih _
    · rename_i x hx
      constructor
      · intro hs
        rw [dnsSkipRR_none_of_rawSplit (s1 hs)]
      · intro r hr
        exact absurd hr (hx r)

/-- the Spec's own scanners (which additionally reject 0x00 inside a label) a fortiori -/
theorem scanQuestions_spec (k : Nat) (p : Bytes) :
    (Spec.scanQuestions k p = .short → dnsReadQs k p = none) ∧
    (∀ r, Spec.scanQuestions k p = .done r → ∃ qs, dnsReadQs k p = some (qs, r)) :=
  ⟨fun h => (scanQuestionsAny_spec k p).1 ((scanQuestions_any k p).1 h),
   fun r h => (scanQuestionsAny_spec k p).2 r ((scanQuestions_any k p).2 r h)⟩

theorem scanRRs_spec (k : Nat) (p : Bytes) :
    (Spec.scanRRs k p = .short → dnsSkipRRs k p = none) ∧
    (∀ r, Spec.scanRRs k p = .done r → dnsSkipRRs k p = some r) :=
  ⟨fun h => (scanRRsAny_spec k p).1 ((scanRRs_any k p).1 h),
   fun r h => (scanRRsAny_spec k p).2 r ((scanRRs_any k p).2 r h)⟩

end Masscanned.C14
