/-
  Proofs/C14/Parse — `dnsParse` in the Spec's vocabulary; what a successful `Spec.parseDns` gives.
-/
import Masscanned.Proofs.C14.Reply
namespace Masscanned.C14
open Masscanned

/-- `dnsParse` with the header fields read by the Spec's `be16` -/
theorem dnsParse_eq (p : Bytes) (h : 12 ≤ p.length) :
    dnsParse p =
      match dnsReadQs (Spec.be16 p 4) (p.drop 12) with
      | none => none
      | some (qs, rest) =>
        match dnsSkipRRs (Spec.be16 p 6) rest with
        | none => none
        | some _ =>
          if Spec.be16 p 8 > 0 ∨ Spec.be16 p 10 > 0 then none
          else some { id := Spec.be16 p 0, flags := Spec.be16 p 2, qd := qs, qdcount := Spec.be16 p 4 } := by
  unfold dnsParse
  rw [if_neg (by omega)]
  simp only [rdBE_slice2 p 0 (by omega), rdBE_slice2 p 2 (by omega), rdBE_slice2 p 4 (by omega),
    rdBE_slice2 p 6 (by omega), rdBE_slice2 p 8 (by omega), rdBE_slice2 p 10 (by omega)]
  rcases dnsReadQs (Spec.be16 p 4) (List.drop 12 p) with _ | ⟨qs, rest⟩
  · rfl
  · dsimp only
    cases dnsSkipRRs (Spec.be16 p 6) rest <;> rfl

theorem dnsParse_short (p : Bytes) (h : p.length < 12) : dnsParse p = none := by
  unfold dnsParse; rw [if_pos h]

/-- facts about a message the model parsed -/
theorem dnsParse_some {p : Bytes} {m : DnsMsg} (h : dnsParse p = some m) :
    12 ≤ p.length ∧ m.id = Spec.be16 p 0 ∧ m.flags = Spec.be16 p 2 ∧ m.qdcount = Spec.be16 p 4 ∧
    m.qdcount = m.qd.length ∧ Spec.be16 p 8 = 0 ∧ Spec.be16 p 10 = 0 ∧
    ∃ rest, dnsReadQs (Spec.be16 p 4) (p.drop 12) = some (m.qd, rest) ∧
      (dnsSkipRRs (Spec.be16 p 6) rest).isSome = true := by
  by_cases hl : p.length < 12
  · rw [dnsParse_short p hl] at h; cases h
  · have hl' : 12 ≤ p.length := by omega
    rw [dnsParse_eq p hl'] at h
    split at h
    · cases h
    · rename_i qs rest hqs
      split at h
      · cases h
      · rename_i hsk
        split at h
        · cases h
        · rename_i hc
          simp only [Option.some.injEq] at h
          subst h
          refine ⟨hl', rfl, rfl, rfl, (dnsReadQs_length _ _ _ _ hqs).symm, by omega, by omega, rest, hqs, ?_⟩
          simp [hsk]

theorem readQuestion_name {p r : Bytes} {q : Spec.DQ} (h : Spec.readQuestion p = some (q, r)) :
    IsName q.name ∧ q.name.length ≤ 255 := by
  unfold Spec.readQuestion at h
  split at h
  · cases h
  · rename_i n r0 hr
    split at h
    · cases h
    · simp only [Option.some.injEq, Prod.mk.injEq] at h
      obtain ⟨rfl, rfl⟩ := h
      obtain ⟨n', hN, hnn, _, hlen⟩ := readName_spec _ _ _ _ _ hr
      simp only [List.nil_append] at hnn
      subst hnn
      exact ⟨hN, hlen⟩

theorem readQuestions_names : ∀ (k : Nat) (p : Bytes) (qs : List Spec.DQ) (r : Bytes),
    Spec.readQuestions k p = some (qs, r) → ∀ q ∈ qs, IsName q.name ∧ q.name.length ≤ 255 := by
  intro k
  induction k with
  | zero => intro p qs r h; simp only [Spec.readQuestions, Option.some.injEq, Prod.mk.injEq] at h; simp [← h.1]
  | succ k ih =>
    intro p qs r h
    unfold Spec.readQuestions at h
    split at h
    · cases h
    · rename_i q0 r0 hq0
      split at h
      · cases h
      · rename_i hqs
        simp only [Option.some.injEq, Prod.mk.injEq] at h
        rw [← h.1]
        intro q hq
        simp only [List.mem_cons] at hq
        rcases hq with rfl | hq
        · exact readQuestion_name hq0
        · exact ih _ _ _ hqs q hq

/-- facts about a message the Spec parsed -/
theorem parseDns_some {p : Bytes} {q : Spec.DMsg} (h : Spec.parseDns p = some q) :
    12 ≤ p.length ∧ q.id = Spec.be16 p 0 ∧ q.flags = Spec.be16 p 2 ∧ q.nscount = Spec.be16 p 8 ∧
    q.arcount = Spec.be16 p 10 ∧ q.qd.length = Spec.be16 p 4 ∧ q.an.length = Spec.be16 p 6 ∧
    ∃ r, Spec.readQuestions (Spec.be16 p 4) (p.drop 12) = some (q.qd, r) ∧
      Spec.readRRs (Spec.be16 p 6) r = some (q.an, q.rest) := by
  unfold Spec.parseDns at h
  split at h
  · cases h
  · split at h
    · cases h
    · rename_i qs r hqs
      split at h
      · cases h
      · rename_i an r' han
        simp only [Option.some.injEq] at h
        subst h
        exact ⟨by omega, rfl, rfl, rfl, rfl, readQuestions_length _ _ _ _ hqs, readRRs_length _ _ _ _ han,
          r, hqs, han⟩

/-- the Spec's questions (whatever octets their labels contain) are the model's questions -/
theorem dnsReadQs_of_parseDns {p : Bytes} {q : Spec.DMsg} (h : Spec.parseDns p = some q) :
    ∃ r, dnsReadQs (Spec.be16 p 4) (p.drop 12) = some (q.qd.map toQ, r) ∧
      Spec.readRRs (Spec.be16 p 6) r = some (q.an, q.rest) := by
  obtain ⟨_, _, _, _, _, _, _, r, hqs, han⟩ := parseDns_some h
  exact ⟨r, dnsReadQs_of_readQuestions _ _ _ _ hqs, han⟩

theorem zip_map_all {α β : Type} (f : α → β) (P : α × β → Bool) : ∀ l : List α,
    (List.zip l (l.map f)).all P = l.all (fun x => P (x, f x)) := by
  intro l
  induction l with
  | nil => rfl
  | cons a t ih => simp [ih]

theorem replyFlags_qr (f : Nat) : replyFlags f / 32768 = 1 := by
  unfold replyFlags
  have := Nat.mod_lt (f / 2048) (show 16 > 0 by omega)
  have := Nat.mod_lt (f / 256) (show 2 > 0 by omega)
  omega

theorem replyFlags_opcode (f : Nat) : replyFlags f / 2048 % 16 = f / 2048 % 16 := by
  unfold replyFlags
  have := Nat.mod_lt (f / 2048) (show 16 > 0 by omega)
  have := Nat.mod_lt (f / 256) (show 2 > 0 by omega)
  omega

theorem replyFlags_rd (f : Nat) : replyFlags f / 256 % 2 = f / 256 % 2 := by
  unfold replyFlags
  have := Nat.mod_lt (f / 2048) (show 16 > 0 by omega)
  have := Nat.mod_lt (f / 256) (show 2 > 0 by omega)
  omega

/-- AA set, TC/RA/Z/RCODE clear -/
theorem replyFlags_rest (f : Nat) : replyFlags f / 1024 % 2 = 1 ∧ replyFlags f / 512 % 2 = 0 ∧
    replyFlags f % 256 = 0 := by
  unfold replyFlags
  have := Nat.mod_lt (f / 2048) (show 16 > 0 by omega)
  have := Nat.mod_lt (f / 256) (show 2 > 0 by omega)
  omega

end Masscanned.C14
