/-
  Proofs/C14/Name — RFC 1035 names (`IsName`), what `Spec.readName` accepts, and the bridge to the
  model's label-wise name reader (after the repair of the DNS dissectors: a length octet, then that many
  octets of any value — a 0x00 inside a label is an ordinary octet).
-/
import Masscanned.Model.Dns
import Masscanned.Spec.Dns
import Masscanned.Proofs.Bytes
import Masscanned.Proofs.DnsFix.Raw
namespace Masscanned.C14
open Masscanned

/-- an uncompressed encoded name: labels of 1..63 bytes, closed by the root label -/
inductive IsName : Bytes → Prop
  | root : IsName [0]
  | label (l : UInt8) (lab rest : Bytes) : l ≠ 0 → l.toNat ≤ 63 → lab.length = l.toNat → IsName rest →
      IsName (l :: (lab ++ rest))

theorem IsName.length_pos {n : Bytes} (h : IsName n) : 1 ≤ n.length := by
  cases h <;> simp

/-- what `Spec.readName` returns: `acc` followed by a name that is a prefix of the input -/
theorem readName_spec : ∀ (fuel : Nat) (acc p n r : Bytes), Spec.readName fuel acc p = some (n, r) →
    ∃ n', IsName n' ∧ n = acc ++ n' ∧ p = n' ++ r ∧ n.length ≤ 255 := by
  intro fuel
  induction fuel with
  | zero => intro acc p n r h; simp [Spec.readName] at h
  | succ f ih =>
    intro acc p n r h
    unfold Spec.readName at h
    split at h
    · cases h
    · rename_i l t
      split at h
      · rename_i hl
        split at h
        · simp only [Option.some.injEq, Prod.mk.injEq] at h
          obtain ⟨rfl, rfl⟩ := h
          exact ⟨[0], .root, rfl, by simp [hl], by simp; omega⟩
        · cases h
      · rename_i hl
        split at h
        · cases h
        · rename_i hc
          obtain ⟨n'', hn, rfl, hp, hlen⟩ := ih _ _ _ _ h
          refine ⟨l :: (t.take l.toNat ++ n''), ?_, by simp, ?_, hlen⟩
          · exact .label l _ _ hl (by omega) (by simp; omega) hn
          · rw [List.cons_append, List.append_assoc, ← hp, List.take_append_drop]

/-- a name is read back whatever follows it -/
theorem readName_of_isName {n' : Bytes} (h : IsName n') : ∀ (fuel : Nat) (acc r : Bytes),
    n'.length ≤ fuel → acc.length + n'.length ≤ 255 →
    Spec.readName fuel acc (n' ++ r) = some (acc ++ n', r) := by
  induction h with
  | root =>
    intro fuel acc r hf ha
    cases fuel with
    | zero => simp at hf
    | succ f =>
      simp only [List.length_cons, List.length_nil] at ha
      simp [Spec.readName]; omega
  | label l lab rest hl h63 hlab hrest ih =>
    intro fuel acc r hf ha
    cases fuel with
    | zero => simp at hf
    | succ f =>
      simp only [List.length_cons, List.length_append] at hf ha
      have htk : (lab ++ (rest ++ r)).take l.toNat = lab := by
        rw [← hlab]; simp
      have hdr : (lab ++ (rest ++ r)).drop l.toNat = rest ++ r := by
        rw [← hlab]; simp
      have hlen : ¬ (l.toNat > 63 ∨ (lab ++ (rest ++ r)).length < l.toNat) := by
        simp only [List.length_append]; omega
      simp only [List.cons_append, List.append_assoc, Spec.readName, hl, if_false, hlen, htk, hdr]
      rw [ih f _ r (by omega) (by simp; omega)]
      simp

/-! ### NUL-free names (`Spec.labelsNoNul`)

  No longer used by the bridge — the repaired reader does not care about 0x00 inside labels.  Kept as facts
  about `Spec.labelsNoNul` (still a conjunct of `Spec.inAQuery` / `Spec.hasNonInA`). -/

/-- a name whose label bytes are never 0x00 contains exactly one zero byte: its last -/
theorem isName_split {n' : Bytes} (h : IsName n') : ∀ f, n'.length ≤ f → Spec.labelsNoNul f n' = true →
    ∃ body, n' = body ++ [0] ∧ ∀ b ∈ body, b ≠ 0 := by
  induction h with
  | root => intro f _ _; exact ⟨[], rfl, by simp⟩
  | label l lab rest hl h63 hlab hrest ih =>
    intro f hf hn
    cases f with
    | zero => simp at hf
    | succ f =>
      simp only [List.length_cons, List.length_append] at hf
      have htk : (lab ++ rest).take l.toNat = lab := by rw [← hlab]; simp
      have hdr : (lab ++ rest).drop l.toNat = rest := by rw [← hlab]; simp
      simp only [Spec.labelsNoNul, hl, if_false, htk, hdr, Bool.and_eq_true, List.all_eq_true,
        decide_eq_true_eq] at hn
      obtain ⟨body, rfl, hb⟩ := ih f (by omega) hn.2
      refine ⟨l :: (lab ++ body), by simp, ?_⟩
      intro b hbm
      simp only [List.mem_cons, List.mem_append] at hbm
      rcases hbm with rfl | hbm | hbm
      · exact hl
      · exact hn.1 b hbm
      · exact hb b hbm

/-- conversely, a name that ends at its first zero byte has NUL-free labels -/
theorem isName_noNul {n' : Bytes} (h : IsName n') : ∀ f body, n' = body ++ [0] → (∀ b ∈ body, b ≠ 0) →
    Spec.labelsNoNul f n' = true := by
  induction h with
  | root => intro f _ _ _; cases f <;> simp [Spec.labelsNoNul]
  | label l lab rest hl h63 hlab hrest ih =>
    intro f body hb hnz
    cases f with
    | zero => simp [Spec.labelsNoNul]
    | succ f =>
      have htk : (lab ++ rest).take l.toNat = lab := by rw [← hlab]; simp
      have hdr : (lab ++ rest).drop l.toNat = rest := by rw [← hlab]; simp
      simp only [Spec.labelsNoNul, hl, if_false, htk, hdr, Bool.and_eq_true, List.all_eq_true,
        decide_eq_true_eq]
      -- body = l :: lab ++ body'
      have hrl := hrest.length_pos
      have hlen : body.length = 1 + lab.length + (rest.length - 1) := by
        have := congrArg List.length hb
        simp at this; omega
      have hbody : body = (l :: (lab ++ rest)).take body.length := by
        rw [hb]; simp
      have hrest' : rest = rest.take (rest.length - 1) ++ [0] := by
        have h1 : (l :: (lab ++ rest)).drop body.length = [0] := by rw [hb]; simp
        rw [hlen] at h1
        have h2 : (l :: (lab ++ rest)).drop (1 + lab.length + (rest.length - 1)) = rest.drop (rest.length - 1) := by
          rw [show 1 + lab.length + (rest.length - 1) = (lab.length + (rest.length - 1)) + 1 by omega]
          simp [List.drop_append]
        rw [h2] at h1
        conv => lhs; rw [← List.take_append_drop (rest.length - 1) rest, h1]
      have hmem : ∀ b ∈ lab ++ rest.take (rest.length - 1), b ≠ 0 := by
        intro b hbm
        apply hnz
        rw [hbody, hlen]
        rw [show 1 + lab.length + (rest.length - 1) = (lab.length + (rest.length - 1)) + 1 by omega]
        simp only [List.take_succ_cons, List.mem_cons]
        right
        rw [List.take_append]
        simp only [List.mem_append] at hbm ⊢
        rcases hbm with hbm | hbm
        · left; rw [List.take_of_length_le (by omega)]; exact hbm
        · right; simpa using hbm
      refine ⟨fun b hbm => hmem b (by simp [hbm]), ih f _ hrest' (fun b hbm => hmem b (by simp [hbm]))⟩

/-! ### the model's label-wise readers on an RFC 1035 name

  (`Proofs/DnsFix/Raw`: the repaired dissectors read a length octet, then that many octets of any value;
  a name in the Spec's sense is in particular such a "raw" name, whatever octets its labels contain) -/

open Masscanned.DnsFix in
/-- an RFC 1035 name is a name as the label-wise reader delimits it (the converse fails only for labels
    longer than 63 octets, which the reader accepts as plain lengths) -/
theorem IsName.isRaw {n : Bytes} (h : IsName n) : IsRaw n := by
  induction h with
  | root => exact .root
  | label l lab rest hl _ hlab _ ih => exact .label l lab rest hl hlab ih

/-- the question reader on a name followed by `r`: the name, the two 16-bit fields; fails exactly when
    fewer than 4 octets follow.  No condition on the label octets. -/
theorem dnsReadQ_isName {n : Bytes} (h : IsName n) (acc r : Bytes) :
    dnsReadQ acc (n ++ r) =
      if r.length < 4 then none
      else some ({ name := acc ++ n, qtype := rdBE (r.take 2), qclass := rdBE (slice r 2 2) }, r.drop 4) :=
  DnsFix.dnsReadQ_raw h.isRaw acc r

theorem dnsSkipRR_isName {n : Bytes} (h : IsName n) (r : Bytes) :
    dnsSkipRR (n ++ r) =
      if r.length < 10 then none
      else if (r.drop 10).length < rdBE (slice r 8 2) then none
      else some ((r.drop 10).drop (rdBE (slice r 8 2))) :=
  DnsFix.dnsSkipRR_raw h.isRaw r

end Masscanned.C14
