/-
  Proofs/Cookie — the byte string hashed by the SYN cookie determines the 4-tuple.
-/
import Masscanned.Model.SipHash
namespace Masscanned

/-- a well-formed address: 4 bytes for IPv4, 16 bytes for IPv6 (what `ipv4Repl` / `ipv6Repl`
    put into the client info) -/
def Ip.Wf : Ip → Prop
  | .v4 a => a.length = 4
  | .v6 a => a.length = 16

instance : DecidablePred Ip.Wf := fun ip => by
  cases ip <;> unfold Ip.Wf <;> infer_instance

theorem Ip.Wf.length {ip : Ip} (h : ip.Wf) : ip.bytes.length = if ip.isV4 then 4 else 16 := by
  cases ip <;> exact h

theorem Ip.eq_of_bytes {a b : Ip} (ha : a.Wf) (hb : b.Wf) (h : a.bytes = b.bytes) : a = b := by
  cases a <;> cases b <;> simp only [Ip.bytes] at h <;> subst h <;>
    simp only [Ip.Wf] at ha hb <;> first | rfl | omega

theorem u16le_inj {a b : Nat} (ha : a < 65536) (hb : b < 65536) (h : u16le a = u16le b) : a = b := by
  simp only [u16le, byte, List.cons.injEq, and_true] at h
  have h1 := congrArg UInt8.toNat h.1
  have h2 := congrArg UInt8.toNat h.2
  simp only [UInt8.toNat_ofNat'] at h1 h2
  omega

theorem cookieMsg_length (s d : Ip) (sp dp : Nat) :
    (cookieMsg s d sp dp).length = s.bytes.length + d.bytes.length + 4 := by
  simp [cookieMsg, u16le]; omega

theorem cookieMsg_inj {s d s' d' : Ip} {sp dp sp' dp' : Nat}
    (hs : s.Wf) (hd : d.Wf) (hs' : s'.Wf) (hd' : d'.Wf)
    (hv : s.isV4 = d.isV4) (hv' : s'.isV4 = d'.isV4)
    (hsp : sp < 65536) (hdp : dp < 65536) (hsp' : sp' < 65536) (hdp' : dp' < 65536)
    (h : cookieMsg s d sp dp = cookieMsg s' d' sp' dp') :
    s = s' ∧ d = d' ∧ sp = sp' ∧ dp = dp' := by
  have hlen := congrArg List.length h
  rw [cookieMsg_length, cookieMsg_length, hs.length, hd.length, hs'.length, hd'.length, ← hv, ← hv'] at hlen
  have hss : s.bytes.length = s'.bytes.length := by
    rw [hs.length, hs'.length]; split at hlen <;> split at hlen <;> simp_all
  have hdd : d.bytes.length = d'.bytes.length := by
    rw [hd.length, hd'.length, ← hv, ← hv', ← hs.length, ← hs'.length]; exact hss
  unfold cookieMsg at h
  have h1 := List.append_inj' h (by simp [u16le])
  have h2 := List.append_inj' h1.1 (by simp [u16le])
  have h3 := List.append_inj h2.1 (by simpa using hss)
  exact ⟨Ip.eq_of_bytes hs hs' (List.reverse_inj.mp h3.1),
         Ip.eq_of_bytes hd hd' (List.reverse_inj.mp h3.2),
         u16le_inj hsp hsp' h2.2, u16le_inj hdp hdp' h1.2⟩

end Masscanned
