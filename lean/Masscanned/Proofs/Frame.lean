/-
  Proofs/Frame — what one received frame (`step`) can do to the connection table:
  inversion of `ethRepl` / `ipv4Repl` / `ipv6Repl` down to `tcpRepl`, and the bridge from the
  model's header readers to the spec's (`Spec.srcIp`, `Spec.dstIp`, `Spec.ipProto`, `Spec.l4Bytes`).
-/
import Masscanned.Proofs.Ref
namespace Masscanned

def ip4Ci (ci : ClientInfo) (p : Bytes) : ClientInfo :=
  { ci with ipSrc := some (.v4 (slice p 12 4)), ipDst := some (.v4 (slice p 16 4)), transport := some (at8 p 9) }

def ip6Ci (ci : ClientInfo) (p : Bytes) : ClientInfo :=
  { ci with ipSrc := some (.v6 (slice p 8 16)), ipDst := some (.v6 (slice p 24 16)), transport := some (at8 p 6) }

theorem ipv4Repl_inv {cfg : Cfg} {env : Env} {st : Table} {ci : ClientInfo} {p : Bytes}
    {evs : List Ev} {ci' : ClientInfo} {st' : Table} {out : Option Bytes}
    (h : ipv4Repl cfg env st ci p = .ok (evs, ci', st', out)) :
    (st' = st) ∨
    (at8 p 9 = 6 ∧ (ipv4Payload p).length ≥ 20 ∧
      ∃ evs0 r, tcpRepl cfg env st (ip4Ci ci p) (ipv4Payload p) = .ok (evs0, ci', st', r) ∧
        out.isSome = r.isSome) := by
  unfold ipv4Repl at h
  dsimp only at h
  repeat' split at h
  all_goals first
    | (cases h; done)
    | (cases h; left; rfl)
    | (cases h; right
       have e := ‹tcpRepl _ _ _ _ _ = _›
       exact ⟨‹at8 p 9 = 6›, by omega, _, _, e, rfl⟩)

theorem ipv6Repl_inv {cfg : Cfg} {env : Env} {st : Table} {ci : ClientInfo} {p : Bytes}
    {evs : List Ev} {ci' : ClientInfo} {st' : Table} {out : Option Bytes}
    (h : ipv6Repl cfg env st ci p = .ok (evs, ci', st', out)) :
    (st' = st) ∨
    (at8 p 6 = 6 ∧ (ipv6Payload p).length ≥ 20 ∧
      ∃ evs0 r, tcpRepl cfg env st (ip6Ci ci p) (ipv6Payload p) = .ok (evs0, ci', st', r) ∧
        out.isSome = r.isSome) := by
  unfold ipv6Repl at h
  dsimp only at h
  repeat' split at h
  all_goals first
    | (cases h; done)
    | (cases h; left; rfl)
    | (cases h; right
       have e := ‹tcpRepl _ _ _ _ _ = _›
       exact ⟨‹at8 p 6 = 6›, by omega, _, _, e, rfl⟩)

def ethCi (f : Bytes) : ClientInfo := { macSrc := some (slice f 6 6), macDst := some (slice f 0 6) }

theorem ethRepl_inv {cfg : Cfg} {env : Env} {st : Table} {f : Bytes}
    {evs : List Ev} {st' : Table} {out : Option Bytes}
    (h : ethRepl cfg env st f = .ok (evs, st', out)) :
    (st' = st) ∨
    (rdBE (slice f 12 2) = 0x0800 ∧ (f.drop 14).length ≥ 20 ∧
      ∃ evs0 ci' r, ipv4Repl cfg env st (ethCi f) (f.drop 14) = .ok (evs0, ci', st', r) ∧
        out.isSome = r.isSome) ∨
    (rdBE (slice f 12 2) = 0x86dd ∧ (f.drop 14).length ≥ 40 ∧
      ∃ evs0 ci' r, ipv6Repl cfg env st (ethCi f) (f.drop 14) = .ok (evs0, ci', st', r) ∧
        out.isSome = r.isSome) := by
  unfold ethRepl at h
  dsimp only at h
  repeat' split at h
  all_goals first
    | (cases h; done)
    | (cases h; left; rfl)
    | (cases h; right; left
       have e := ‹ipv4Repl _ _ _ _ _ = _›
       exact ⟨‹rdBE (slice f 12 2) = 0x0800›, by omega, _, _, _, e, rfl⟩)
    | (cases h; right; right
       have e := ‹ipv6Repl _ _ _ _ _ = _›
       exact ⟨‹rdBE (slice f 12 2) = 0x86dd›, by omega, _, _, _, e, rfl⟩)

/-! ### one segment and the table -/

theorem dataOut_isSome (p : Bytes) (ci' : ClientInfo) (r : Option Bytes) : (dataOut p ci' r).isSome = true := by
  unfold dataOut; cases r <;> rfl

/-- effect of one TCP segment on the table (`ck` = the cookie the model computes for the flow) -/
theorem tcp_table_step' {cfg : Cfg} {env : Env} {st : Table} {ci : ClientInfo} {p : Bytes}
    (hl : p.length ≥ 20)
    {evs : List Ev} {ci' : ClientInfo} {st' : Table} {out : Option Bytes}
    (h : tcpRepl cfg env st ci p = .ok (evs, ci', st', out)) :
    st' = st ∨
    ((st.get? (tcpCk cfg ci p)).isSome = true ∧ (tcpFlags p / 8 % 2 = 1 ∧ tcpFlags p / 16 % 2 = 1) ∧
      out.isSome = true ∧ ∃ v, st' = st.set (tcpCk cfg ci p) v) ∨
    (st.get? (tcpCk cfg ci p) = none ∧ (tcpFlags p / 8 % 2 = 1 ∧ tcpFlags p / 16 % 2 = 1) ∧
      Spec.be32 p 8 = (tcpCk cfg ci p + 1) % 4294967296 ∧
      out.isSome = true ∧ ∃ v, st' = st ++ [(tcpCk cfg ci p, v)]) := by
  cases tcpRepl_inv h with
  | nodata hd => exact .inl rfl
  | badAck hd hg hne => exact .inl rfl
  | first hd hg he ci' tcb' r hp =>
    exact .inr (.inr ⟨hg, hd, (ackno_iff hl (tcpCk_lt ..)).mp he, dataOut_isSome .., _, rfl⟩)
  | known hd tcb hg ci' tcb' r hp =>
    exact .inr (.inl ⟨by rw [hg]; rfl, hd, dataOut_isSome .., _, rfl⟩)

/-! ### the model's header readers through the spec's -/

theorem ipv4Payload_eq (p : Bytes) (hl : p.length ≥ 20) :
    ipv4Payload p =
      (p.take (min (20 + (Spec.u8 p 0 % 16 * 4 - 20) + (Spec.be16 p 2 - Spec.u8 p 0 % 16 * 4)) p.length)).drop
        (20 + (Spec.u8 p 0 % 16 * 4 - 20)) := by
  unfold ipv4Payload
  rw [at8_eq_u8, rdBE_slice2 p 2 (by omega)]
  dsimp only
  split
  · symm
    apply List.drop_eq_nil_of_le
    rw [List.length_take]; omega
  · rfl

theorem ipv6Payload_eq (p : Bytes) (hl : p.length ≥ 40) :
    ipv6Payload p = (p.take (min (40 + Spec.be16 p 4) p.length)).drop 40 := by
  unfold ipv6Payload
  rw [rdBE_slice2 p 4 (by omega)]
  dsimp only
  split
  · symm
    apply List.drop_eq_nil_of_le
    rw [List.length_take]; omega
  · rfl

theorem slice_drop (f : Bytes) (k i n : Nat) : slice (f.drop k) i n = Spec.sub f (k + i) n := by
  unfold slice Spec.sub
  rw [List.drop_drop]

structure V4Frame (f : Bytes) : Prop where
  src : Spec.srcIp f = some (.v4 (slice (f.drop 14) 12 4))
  dst : Spec.dstIp f = some (.v4 (slice (f.drop 14) 16 4))
  proto : Spec.ipProto f = some (at8 (f.drop 14) 9)
  l4 : Spec.l4Bytes f = ipv4Payload (f.drop 14)

theorem v4Frame {f : Bytes} (hE : rdBE (slice f 12 2) = 0x0800) (hL : (f.drop 14).length ≥ 20) : V4Frame f := by
  have hlen : f.length ≥ 34 := by rw [List.length_drop] at hL; omega
  have hE' : Spec.be16 f 12 = 0x0800 := by rw [← rdBE_slice2 f 12 (by omega)]; exact hE
  refine ⟨?_, ?_, ?_, ?_⟩
  · unfold Spec.srcIp; dsimp only; rw [if_pos ⟨hE', hlen⟩, slice_drop]
  · unfold Spec.dstIp; dsimp only; rw [if_pos ⟨hE', hlen⟩, slice_drop]
  · unfold Spec.ipProto; dsimp only; rw [if_pos ⟨hE', hlen⟩, at8_eq_u8, u8_drop]
  · unfold Spec.l4Bytes; dsimp only; rw [if_pos hE', ipv4Payload_eq _ hL]

structure V6Frame (f : Bytes) : Prop where
  src : Spec.srcIp f = some (.v6 (slice (f.drop 14) 8 16))
  dst : Spec.dstIp f = some (.v6 (slice (f.drop 14) 24 16))
  proto : Spec.ipProto f = some (at8 (f.drop 14) 6)
  l4 : Spec.l4Bytes f = ipv6Payload (f.drop 14)

theorem v6Frame {f : Bytes} (hE : rdBE (slice f 12 2) = 0x86dd) (hL : (f.drop 14).length ≥ 40) : V6Frame f := by
  have hlen : f.length ≥ 54 := by rw [List.length_drop] at hL; omega
  have hE' : Spec.be16 f 12 = 0x86dd := by rw [← rdBE_slice2 f 12 (by omega)]; exact hE
  have hne : ¬ (Spec.be16 f 12 = 0x0800 ∧ f.length ≥ 34) := by omega
  have hne' : ¬ (Spec.be16 f 12 = 0x0800) := by omega
  refine ⟨?_, ?_, ?_, ?_⟩
  · unfold Spec.srcIp; dsimp only; rw [if_neg hne, if_pos ⟨hE', hlen⟩, slice_drop]
  · unfold Spec.dstIp; dsimp only; rw [if_neg hne, if_pos ⟨hE', hlen⟩, slice_drop]
  · unfold Spec.ipProto; dsimp only; rw [if_neg hne, if_pos ⟨hE', hlen⟩, at8_eq_u8, u8_drop]
  · unfold Spec.l4Bytes; dsimp only; rw [if_neg hne', ipv6Payload_eq _ hL]

/-- a frame either leaves the table alone or reaches `tcpRepl` with the addresses, protocol and
    TCP bytes the spec's readers see in the frame; the table after the frame is the one `tcpRepl`
    returned, and the frame is answered iff the segment is -/
theorem step_inv (cfg : Cfg) (env : Env) (st : Table) (f : Bytes) :
    (step cfg env st f).st = st ∨
    ∃ (s d : Ip) (ci0 ci' : ClientInfo) (evs : List Ev) (r o : Option Bytes),
      Spec.srcIp f = some s ∧ Spec.dstIp f = some d ∧ Spec.ipProto f = some 6 ∧
      (Spec.l4Bytes f).length ≥ 20 ∧ ci0.ipSrc = some s ∧ ci0.ipDst = some d ∧
      tcpRepl cfg env st ci0 (Spec.l4Bytes f) = .ok (evs, ci', (step cfg env st f).st, r) ∧
      (step cfg env st f).out = .ok o ∧ o.isSome = r.isSome := by
  unfold step
  split
  · exact .inl rfl
  · split
    · exact .inl rfl
    · rename_i evs st' o he
      dsimp only
      rcases ethRepl_inv he with h | ⟨hE, hL, evs0, ci1, r1, h4, ho⟩ | ⟨hE, hL, evs0, ci1, r1, h6, ho⟩
      · exact .inl h
      · rcases ipv4Repl_inv h4 with h | ⟨hp, hl, evs1, r, ht, hr⟩
        · exact .inl h
        · right
          have F := v4Frame hE hL
          refine ⟨_, _, ip4Ci (ethCi f) (f.drop 14), ci1, evs1, r, o, F.src, F.dst, ?_, ?_, rfl, rfl, ?_, rfl, ?_⟩
          · rw [F.proto, hp]
          · rw [F.l4]; exact hl
          · rw [F.l4]; exact ht
          · rw [ho, hr]
      · rcases ipv6Repl_inv h6 with h | ⟨hp, hl, evs1, r, ht, hr⟩
        · exact .inl h
        · right
          have F := v6Frame hE hL
          refine ⟨_, _, ip6Ci (ethCi f) (f.drop 14), ci1, evs1, r, o, F.src, F.dst, ?_, ?_, rfl, rfl, ?_, rfl, ?_⟩
          · rw [F.proto, hp]
          · rw [F.l4]; exact hl
          · rw [F.l4]; exact ht
          · rw [ho, hr]

end Masscanned
