/-
  Proofs/C05 — helper lemmas of property C05 (ARP / ND / echo): closed forms of `step` on
  deliverable ICMPv4 / ICMPv6 frames and on ARP frames, and the Spec judgement of the replies.
-/
import Masscanned.Proofs.Delivery
import Masscanned.Spec.Icmp
namespace Masscanned
open Masscanned

theorem l3Out_ite (c : Prop) [Decidable c] (a b : Except Site (List Ev × ClientInfo × Table × Option Bytes))
    (w : Bytes → Bytes) : l3Out (if c then a else b) w = if c then l3Out a w else l3Out b w := by
  split <;> rfl

/-! ### ICMPv4 -/

/-- the ICMPv4 echo reply message built for the request message `m` -/
def echo4Msg (m : Bytes) : Bytes :=
  setU16 ([0, 0, 0, 0] ++ m.drop 4) 2 (csumPlain ([0, 0, 0, 0] ++ m.drop 4))

theorem icmp4_out {cfg : Cfg} {env : Env} {st : Table} {f : Bytes}
    (h : Spec.deliverable cfg f false 1 4 = true) :
    (step cfg env st f).out =
      if Spec.u8 (Spec.l4Bytes f) 0 = 8 ∧ Spec.u8 (Spec.l4Bytes f) 1 = 0 then
        if 20 + (echo4Msg (Spec.l4Bytes f)).length > 65535 then .error .setPayload
        else .ok (some (ethWrap cfg f
          (ipv4Hdr (Spec.sub f 30 4) (Spec.sub f 26 4) 1 (20 + (echo4Msg (Spec.l4Bytes f)).length) ++
            echo4Msg (Spec.l4Bytes f))))
      else .ok none := by
  have hl : ¬ (Spec.l4Bytes f).length < 4 := by have := (deliverable4_elim h).2.2.2.2.2.2; omega
  rw [step_out_v4 h, ipv4Repl_deliverable env st _ h]
  simp only [ipv4Deliver, if_true, hl, if_false, icmp4Repl, at8_eq_u8, echo4Msg]
  by_cases h8 : Spec.u8 (Spec.l4Bytes f) 0 = 8
  · by_cases h0 : Spec.u8 (Spec.l4Bytes f) 1 = 0
    · simp only [h8, h0, if_true, ne_eq, not_true, if_false, and_self]
      rw [l3Out_ite]; rfl
    · simp [h8, h0, l3Out]
  · simp [h8, l3Out]

theorem echo4Msg_eq (m : Bytes) :
    echo4Msg m = [0, 0] ++ u16be (csumPlain ([0, 0, 0, 0] ++ m.drop 4)) ++ m.drop 4 := by
  simp [echo4Msg, setU16]

theorem echo4Msg_length (m : Bytes) (h : 4 ≤ m.length) : (echo4Msg m).length = m.length := by
  simp [echo4Msg_eq, u16be]; omega

/-- the receiver-delimited payload is bounded by the frame -/
theorem l4Bytes_length_le (f : Bytes) : (Spec.l4Bytes f).length ≤ f.length - 34 := by
  simp only [Spec.l4Bytes]
  split <;> simp <;> omega

/-- with a real header length (IHL ≥ 5) the payload fits the 16-bit total length -/
theorem l4Bytes_v4_le (f : Bytes) (he : Spec.be16 f 12 = 0x0800) (hi : 5 ≤ Spec.u8 f 14 % 16) :
    (Spec.l4Bytes f).length ≤ 65515 := by
  have hb := be16_lt (f.drop 14) 2
  have hu : Spec.u8 (f.drop 14) 0 = Spec.u8 f 14 := u8_drop f 14 0
  simp only [Spec.l4Bytes, he, if_true, hu]
  simp; omega

/-- the judged echo reply -/
theorem echo4_reply_ok (cfg : Cfg) (f : Bytes) (hm : cfg.mac.length = 6)
    (h : Spec.deliverable cfg f false 1 4 = true) (hsz : (Spec.l4Bytes f).length ≤ 65515) :
    Spec.echo4ReplyOk f (ethWrap cfg f
      (ipv4Hdr (Spec.sub f 30 4) (Spec.sub f 26 4) 1 (20 + (echo4Msg (Spec.l4Bytes f)).length) ++
        echo4Msg (Spec.l4Bytes f))) = true := by
  obtain ⟨hl, -, he, -, -, -, h4⟩ := deliverable4_elim h
  have hML := echo4Msg_length _ h4
  have hs : (Spec.sub f 30 4).length = 4 := slice_length f 30 4 (by omega)
  have hd : (Spec.sub f 26 4).length = 4 := slice_length f 26 4 (by omega)
  have hM0 : Spec.u8 (echo4Msg (Spec.l4Bytes f)) 0 = 0 := by simp [echo4Msg_eq, Spec.u8]
  have hM1 : Spec.u8 (echo4Msg (Spec.l4Bytes f)) 1 = 0 := by simp [echo4Msg_eq, Spec.u8]
  have hM4 : (echo4Msg (Spec.l4Bytes f)).drop 4 = (Spec.l4Bytes f).drop 4 := by simp [echo4Msg_eq, u16be]
  generalize echo4Msg (Spec.l4Bytes f) = M at *
  obtain ⟨r1, r2, r3, r4, r5⟩ := reply_v4_frame cfg f (Spec.sub f 30 4) (Spec.sub f 26 4)
    M 1 hm (by omega) he hs hd (by omega)
  simp only [Spec.echo4ReplyOk, r1, r2, r3, r4, r5, hM0, hM1, hM4]
  simp
  omega

/-! ### ICMPv6 -/

/-- the Neighbour Advertisement for target `tgt`, checksum field still zero -/
def naBody (cfg : Cfg) (tgt : Bytes) : Bytes := [136, 0, 0, 0, 0x60, 0, 0, 0] ++ tgt ++ [2, 1] ++ cfg.mac

/-- the Neighbour Advertisement built for target `tgt`, sent to `src` -/
def naMsg (cfg : Cfg) (src tgt : Bytes) : Bytes :=
  setU16 (naBody cfg tgt) 2 (csumPseudo src tgt 58 (naBody cfg tgt))

/-- byte layout of `naMsg` -/
theorem naMsg_eq (cfg : Cfg) (src tgt : Bytes) :
    naMsg cfg src tgt =
      ([136, 0] ++ u16be (csumPseudo src tgt 58 (naBody cfg tgt)) ++ [0x60, 0, 0, 0]) ++ (tgt ++ ([2, 1] ++ cfg.mac)) := by
  simp [naMsg, setU16, naBody]

theorem sub_append_here (P B C : Bytes) (i n : Nat) (hP : P.length = i) (hB : B.length = n) :
    Spec.sub (P ++ (B ++ C)) i n = B := by
  subst hP hB
  simp [Spec.sub]

theorem naMsg_facts (cfg : Cfg) (src tgt : Bytes) (hm : cfg.mac.length = 6) (ht : tgt.length = 16) :
    (naMsg cfg src tgt).length = 32 ∧ Spec.u8 (naMsg cfg src tgt) 0 = 136 ∧ Spec.u8 (naMsg cfg src tgt) 1 = 0 ∧
    Spec.u8 (naMsg cfg src tgt) 4 = 0x60 ∧ Spec.u8 (naMsg cfg src tgt) 5 = 0 ∧
    Spec.u8 (naMsg cfg src tgt) 6 = 0 ∧ Spec.u8 (naMsg cfg src tgt) 7 = 0 ∧
    Spec.sub (naMsg cfg src tgt) 8 16 = tgt ∧ Spec.u8 (naMsg cfg src tgt) 24 = 2 ∧
    Spec.u8 (naMsg cfg src tgt) 25 = 1 ∧ Spec.sub (naMsg cfg src tgt) 26 6 = cfg.mac := by
  rw [naMsg_eq]
  generalize csumPseudo src tgt 58 (naBody cfg tgt) = c
  have h8 : ([136, 0] ++ u16be c ++ [0x60, 0, 0, 0] : Bytes).length = 8 := by simp [u16be]
  refine ⟨?_, ?_, ?_, ?_, ?_, ?_, ?_, ?_, ?_, ?_, ?_⟩
  · simp [u16be, hm, ht]
  · simp [u16be, Spec.u8]
  · simp [u16be, Spec.u8]
  · simp [u16be, Spec.u8]
  · simp [u16be, Spec.u8]
  · simp [u16be, Spec.u8]
  · simp [u16be, Spec.u8]
  · exact sub_append_here _ _ _ _ _ h8 ht
  · rw [u8_append_right (by omega), h8, u8_append_right (by omega), ht]; simp [Spec.u8]
  · rw [u8_append_right (by omega), h8, u8_append_right (by omega), ht]; simp [Spec.u8]
  · have := sub_append_here (([136, 0] ++ u16be c ++ [0x60, 0, 0, 0]) ++ tgt ++ [2, 1]) cfg.mac [] 26 6
      (by simp [u16be, ht]) hm
    simpa using this

/-- the ICMPv6 echo reply message built for the request message `m` (`src`: requester, `dst`: us) -/
def echo6Msg (src dst m : Bytes) : Bytes :=
  setU16 ([129, 0, 0, 0] ++ m.drop 4) 2 (csumPseudo src dst 58 ([129, 0, 0, 0] ++ m.drop 4))

/-- IPv6 + Ethernet framing of an ICMPv6 reply `L` sent from address `from_` -/
def reply6 (cfg : Cfg) (f from_ : Bytes) (hlim : Nat) (L : Bytes) : Except Site (Option Bytes) :=
  if L.length > 65535 then .error .setPayload
  else .ok (some (ethWrap cfg f (ipv6Hdr from_ (Spec.sub f 22 16) 58 L.length hlim ++ L)))

theorem icmp6_out {cfg : Cfg} {env : Env} {st : Table} {f : Bytes}
    (h : Spec.deliverable cfg f true 58 4 = true) :
    (step cfg env st f).out =
      if Spec.u8 (Spec.l4Bytes f) 1 ≠ 0 then .ok none
      else if Spec.u8 (Spec.l4Bytes f) 0 = 135 then
        if (Spec.l4Bytes f).length < 24 then .ok none
        else if Spec.handled cfg (.v6 (Spec.sub (Spec.l4Bytes f) 8 16)) = false then .ok none
        else reply6 cfg f (Spec.sub (Spec.l4Bytes f) 8 16) 255
          (naMsg cfg (Spec.sub f 22 16) (Spec.sub (Spec.l4Bytes f) 8 16))
      else if Spec.u8 (Spec.l4Bytes f) 0 = 128 then
        if Spec.handled cfg (.v6 (Spec.sub f 38 16)) = false then .ok none
        else reply6 cfg f (Spec.sub f 38 16) 64 (echo6Msg (Spec.sub f 22 16) (Spec.sub f 38 16) (Spec.l4Bytes f))
      else .ok none := by
  have hl : ¬ (Spec.l4Bytes f).length < 4 := by have := (deliverable6_elim h).2.2.2.2.2.2; omega
  rw [step_out_v6 h, ipv6Repl_deliverable env st _ h]
  simp only [ipv6Deliver, if_true, hl, if_false, icmp6Repl, at8_eq_u8, slice_eq_sub, isSelf_eq_handled]
  by_cases hc : Spec.u8 (Spec.l4Bytes f) 1 = 0
  · simp only [hc, ne_eq, not_true, if_false]
    by_cases h135 : Spec.u8 (Spec.l4Bytes f) 0 = 135
    · simp only [h135, if_true]
      by_cases h24 : (Spec.l4Bytes f).length < 24
      · simp [h24, l3Out]
      · simp only [h24, if_false]
        by_cases hh : Spec.handled cfg (.v6 (Spec.sub (Spec.l4Bytes f) 8 16)) = true
        · simp only [hh, Bool.not_true, Bool.false_eq_true, if_false, Option.getD_some, naMsg, naBody, reply6]
          rw [l3Out_ite]
          simp [l3Out, Spec.u8]
        · simp [hh, l3Out]
    · simp only [h135, if_false]
      by_cases h128 : Spec.u8 (Spec.l4Bytes f) 0 = 128
      · simp only [h128, if_true]
        by_cases hh : Spec.handled cfg (.v6 (Spec.sub f 38 16)) = true
        · simp only [hh, Bool.not_true, Bool.false_eq_true, if_false, Option.getD_none, echo6Msg, reply6]
          rw [l3Out_ite]
          simp [l3Out, Spec.u8]
        · simp [hh, l3Out]
      · simp [h128, l3Out]
  · simp [hc, l3Out]

theorem echo6Msg_eq (src dst m : Bytes) :
    echo6Msg src dst m = [129, 0] ++ u16be (csumPseudo src dst 58 ([129, 0, 0, 0] ++ m.drop 4)) ++ m.drop 4 := by
  simp [echo6Msg, setU16]

theorem echo6Msg_length (src dst m : Bytes) (h : 4 ≤ m.length) : (echo6Msg src dst m).length = m.length := by
  simp [echo6Msg_eq, u16be]; omega

/-- the IPv6 payload fits the 16-bit payload length -/
theorem l4Bytes_v6_le (f : Bytes) (he : Spec.be16 f 12 = 0x86dd) : (Spec.l4Bytes f).length ≤ 65535 := by
  have hb := be16_lt (f.drop 14) 4
  simp only [Spec.l4Bytes, he]
  simp; omega

/-- the judged ICMPv6 echo reply -/
theorem echo6_reply_ok (cfg : Cfg) (f : Bytes) (hm : cfg.mac.length = 6)
    (h : Spec.deliverable cfg f true 58 4 = true) :
    ∃ r, reply6 cfg f (Spec.sub f 38 16) 64 (echo6Msg (Spec.sub f 22 16) (Spec.sub f 38 16) (Spec.l4Bytes f)) =
        .ok (some r) ∧ Spec.echo6ReplyOk f r = true := by
  obtain ⟨hl, -, he, -, -, -, h4⟩ := deliverable6_elim h
  have hsz := l4Bytes_v6_le f he
  have hML := echo6Msg_length (Spec.sub f 22 16) (Spec.sub f 38 16) _ h4
  have hs : (Spec.sub f 38 16).length = 16 := slice_length f 38 16 (by omega)
  have hd : (Spec.sub f 22 16).length = 16 := slice_length f 22 16 (by omega)
  have hM0 : Spec.u8 (echo6Msg (Spec.sub f 22 16) (Spec.sub f 38 16) (Spec.l4Bytes f)) 0 = 129 := by
    simp [echo6Msg_eq, Spec.u8]
  have hM1 : Spec.u8 (echo6Msg (Spec.sub f 22 16) (Spec.sub f 38 16) (Spec.l4Bytes f)) 1 = 0 := by
    simp [echo6Msg_eq, Spec.u8]
  have hM4 : (echo6Msg (Spec.sub f 22 16) (Spec.sub f 38 16) (Spec.l4Bytes f)).drop 4 = (Spec.l4Bytes f).drop 4 := by
    simp [echo6Msg_eq, u16be]
  generalize echo6Msg (Spec.sub f 22 16) (Spec.sub f 38 16) (Spec.l4Bytes f) = M at *
  obtain ⟨r1, r2, r3, r4, r5, -⟩ := reply_v6_frame cfg f (Spec.sub f 38 16) (Spec.sub f 22 16)
    M 58 64 hm (by omega) he hs hd (by omega)
  refine ⟨_, by rw [reply6, if_neg (by omega)], ?_⟩
  simp only [Spec.echo6ReplyOk, r1, r2, r3, r4, r5, hM0, hM1, hM4]
  simp
  omega

/-- the judged Neighbour Advertisement -/
theorem na_reply_ok (cfg : Cfg) (f : Bytes) (hm : cfg.mac.length = 6)
    (h : Spec.deliverable cfg f true 58 24 = true) :
    ∃ r, reply6 cfg f (Spec.sub (Spec.l4Bytes f) 8 16) 255
          (naMsg cfg (Spec.sub f 22 16) (Spec.sub (Spec.l4Bytes f) 8 16)) = .ok (some r) ∧
      Spec.naReplyOk cfg f r = true := by
  obtain ⟨hl, -, he, -, -, -, h24⟩ := deliverable6_elim h
  have ht : (Spec.sub (Spec.l4Bytes f) 8 16).length = 16 := slice_length _ 8 16 (by omega)
  have hd : (Spec.sub f 22 16).length = 16 := slice_length f 22 16 (by omega)
  obtain ⟨n0, n1, n2, n3, n4, n5, n6, n7, n8, n9, n10⟩ :=
    naMsg_facts cfg (Spec.sub f 22 16) (Spec.sub (Spec.l4Bytes f) 8 16) hm ht
  generalize naMsg cfg (Spec.sub f 22 16) (Spec.sub (Spec.l4Bytes f) 8 16) = M at *
  obtain ⟨r1, r2, r3, r4, r5, r6⟩ := reply_v6_frame cfg f (Spec.sub (Spec.l4Bytes f) 8 16) (Spec.sub f 22 16)
    M 58 255 hm (by omega) he ht hd (by omega)
  refine ⟨_, by rw [reply6, if_neg (by omega)], ?_⟩
  simp only [n0] at r1 r2 r3 r4 r5 r6 ⊢
  simp only [Spec.naReplyOk, Spec.ndTarget, r1, r2, r3, r4, r5, r6, n0, n1, n2, n3, n4, n5, n6, n7, n8, n9, n10]
  simp

/-! ### ARP -/

/-- the ARP reply message built for the request frame `f` -/
def arpMsg (cfg : Cfg) (f : Bytes) : Bytes :=
  [0, 1] ++ Spec.sub f 16 4 ++ [0, 2] ++ cfg.mac ++ Spec.sub f 38 4 ++ Spec.sub f 22 6 ++ Spec.sub f 28 4 ++ f.drop 42

theorem arp_out {cfg : Cfg} {env : Env} {st : Table} {f : Bytes}
    (hl : 42 ≤ f.length) (he : Spec.be16 f 12 = 0x0806) :
    (step cfg env st f).out =
      if Spec.authMac cfg (Spec.sub f 0 6) = true ∧ Spec.be16 f 20 = 1 ∧ Spec.handled cfg (.v4 (Spec.sub f 38 4)) = true
      then .ok (some (ethWrap cfg f (arpMsg cfg f)))
      else .ok none := by
  have hety : rdBE (Spec.sub f 12 2) = 0x0806 := by rw [← slice_eq_sub, rdBE_slice2 _ _ (by omega)]; exact he
  have h14 : ¬ f.length < 14 := by omega
  have hpl : ¬ (f.drop 14).length < 28 := by simp; omega
  have hop : rdBE (Spec.sub f 20 2) = Spec.be16 f 20 := by
    rw [← slice_eq_sub, rdBE_slice2 _ _ (by omega)]
  simp only [step, h14, if_false, ethRepl, hety, if_true, hpl, authMacs_contains, slice_eq_sub, arpRepl, hop,
    isSelf_eq_handled, sub_drop, List.drop_drop]
  by_cases ha : Spec.authMac cfg (Spec.sub f 0 6) = true
  · by_cases h1 : Spec.be16 f 20 = 1
    · by_cases hh : Spec.handled cfg (.v4 (Spec.sub f 38 4)) = true
      · simp [ha, h1, hh, ethWrap, arpMsg, hety, slice_eq_sub]
      · simp [ha, h1, hh]
    · simp [ha, h1]
  · simp [ha]

theorem u8_sub (b : Bytes) (i n j : Nat) (h : j < n) : Spec.u8 (Spec.sub b i n) j = Spec.u8 b (i + j) := by
  simp [Spec.u8, Spec.sub, List.getD_eq_getElem?_getD, h, List.getElem?_drop]

theorem arp_reply_ok (cfg : Cfg) (f : Bytes) (hm : cfg.mac.length = 6)
    (h : Spec.arpRequestFor cfg f = true) :
    Spec.arpReplyOk cfg f (ethWrap cfg f (arpMsg cfg f)) = true := by
  simp only [Spec.arpRequestFor, Bool.and_eq_true, decide_eq_true_eq] at h
  obtain ⟨⟨⟨⟨⟨⟨⟨⟨hl, -⟩, he⟩, -⟩, hp⟩, h6⟩, h4⟩, -⟩, -⟩ := h
  have hl : 42 ≤ f.length := hl
  have hE := ethHdr_length cfg f hm (by omega)
  have hE2 := ethHdr_be16 cfg f hm (by omega)
  have l1 : (Spec.sub f 16 4).length = 4 := slice_length f 16 4 (by omega)
  have l2 : (Spec.sub f 38 4).length = 4 := slice_length f 38 4 (by omega)
  have l3 : (Spec.sub f 22 6).length = 6 := slice_length f 22 6 (by omega)
  have l4 : (Spec.sub f 28 4).length = 4 := slice_length f 28 4 (by omega)
  have a0 : Spec.u8 (Spec.sub f 16 4) 0 = Spec.u8 f 16 := u8_sub f 16 4 0 (by omega)
  have a1 : Spec.u8 (Spec.sub f 16 4) 1 = Spec.u8 f 17 := u8_sub f 16 4 1 (by omega)
  have a2 : Spec.u8 (Spec.sub f 16 4) 2 = Spec.u8 f 18 := u8_sub f 16 4 2 (by omega)
  have a3 : Spec.u8 (Spec.sub f 16 4) 3 = Spec.u8 f 19 := u8_sub f 16 4 3 (by omega)
  rw [ethWrap_eq]
  unfold arpMsg Spec.arpReplyOk
  generalize ethHdr cfg f = E at *
  generalize Spec.sub f 16 4 = A at *
  generalize Spec.sub f 38 4 = tpa at *
  generalize Spec.sub f 22 6 = sha at *
  generalize Spec.sub f 28 4 = spa at *
  generalize f.drop 42 = rest at *
  have b12 : Spec.be16 (E ++ ([0, 1] ++ A ++ [0, 2] ++ cfg.mac ++ tpa ++ sha ++ spa ++ rest)) 12 = 0x0806 := by
    rw [be16_append_left (by omega), hE2, he]
  have b14 : Spec.be16 (E ++ ([0, 1] ++ A ++ [0, 2] ++ cfg.mac ++ tpa ++ sha ++ spa ++ rest)) 14 = 1 := by
    rw [be16_append_right (by omega), hE]; simp [Spec.be16, Spec.u8]
  have b16 : Spec.be16 (E ++ ([0, 1] ++ A ++ [0, 2] ++ cfg.mac ++ tpa ++ sha ++ spa ++ rest)) 16 = 0x0800 := by
    have : ([0, 1] ++ A ++ [0, 2] ++ cfg.mac ++ tpa ++ sha ++ spa ++ rest : Bytes) =
        [0, 1] ++ (A ++ ([0, 2] ++ cfg.mac ++ tpa ++ sha ++ spa ++ rest)) := by simp
    rw [be16_append_right (by omega), hE, this, be16_append_right (by simp), be16_append_left (by simp; omega)]
    simp only [Spec.be16] at hp ⊢
    simp [a0, a1, hp]
  have b18 : Spec.u8 (E ++ ([0, 1] ++ A ++ [0, 2] ++ cfg.mac ++ tpa ++ sha ++ spa ++ rest)) 18 = 6 := by
    have : ([0, 1] ++ A ++ [0, 2] ++ cfg.mac ++ tpa ++ sha ++ spa ++ rest : Bytes) =
        [0, 1] ++ (A ++ ([0, 2] ++ cfg.mac ++ tpa ++ sha ++ spa ++ rest)) := by simp
    rw [u8_append_right (by omega), hE, this, u8_append_right (by simp), u8_append_left (by simp; omega)]
    simp [a2, h6]
  have b19 : Spec.u8 (E ++ ([0, 1] ++ A ++ [0, 2] ++ cfg.mac ++ tpa ++ sha ++ spa ++ rest)) 19 = 4 := by
    have : ([0, 1] ++ A ++ [0, 2] ++ cfg.mac ++ tpa ++ sha ++ spa ++ rest : Bytes) =
        [0, 1] ++ (A ++ ([0, 2] ++ cfg.mac ++ tpa ++ sha ++ spa ++ rest)) := by simp
    rw [u8_append_right (by omega), hE, this, u8_append_right (by simp), u8_append_left (by simp; omega)]
    simp [a3, h4]
  have b20 : Spec.be16 (E ++ ([0, 1] ++ A ++ [0, 2] ++ cfg.mac ++ tpa ++ sha ++ spa ++ rest)) 20 = 2 := by
    have : ([0, 1] ++ A ++ [0, 2] ++ cfg.mac ++ tpa ++ sha ++ spa ++ rest : Bytes) =
        ([0, 1] ++ A) ++ ([0, 2] ++ (cfg.mac ++ tpa ++ sha ++ spa ++ rest)) := by simp
    rw [be16_append_right (by omega), hE, this, be16_append_right (by simp; omega)]
    simp [l1, Spec.be16, Spec.u8]
  have s22 : Spec.sub (E ++ ([0, 1] ++ A ++ [0, 2] ++ cfg.mac ++ tpa ++ sha ++ spa ++ rest)) 22 6 = cfg.mac := by
    have := sub_append_here (E ++ [0, 1] ++ A ++ [0, 2]) cfg.mac (tpa ++ sha ++ spa ++ rest) 22 6
      (by simp [hE, l1]) hm
    simpa [List.append_assoc] using this
  have s28 : Spec.sub (E ++ ([0, 1] ++ A ++ [0, 2] ++ cfg.mac ++ tpa ++ sha ++ spa ++ rest)) 28 4 = tpa := by
    have := sub_append_here (E ++ [0, 1] ++ A ++ [0, 2] ++ cfg.mac) tpa (sha ++ spa ++ rest) 28 4
      (by simp [hE, l1, hm]) l2
    simpa [List.append_assoc] using this
  have s32 : Spec.sub (E ++ ([0, 1] ++ A ++ [0, 2] ++ cfg.mac ++ tpa ++ sha ++ spa ++ rest)) 32 6 = sha := by
    have := sub_append_here (E ++ [0, 1] ++ A ++ [0, 2] ++ cfg.mac ++ tpa) sha (spa ++ rest) 32 6
      (by simp [hE, l1, hm, l2]) l3
    simpa [List.append_assoc] using this
  have s38 : Spec.sub (E ++ ([0, 1] ++ A ++ [0, 2] ++ cfg.mac ++ tpa ++ sha ++ spa ++ rest)) 38 4 = spa := by
    have := sub_append_here (E ++ [0, 1] ++ A ++ [0, 2] ++ cfg.mac ++ tpa ++ sha) spa rest 38 4
      (by simp [hE, l1, hm, l2, l3]) l4
    simpa [List.append_assoc] using this
  simp only [b12, b14, b16, b18, b19, b20, s22, s28, s32, s38]
  simp [hE, l1, l2, l3, l4, hm]
  omega

/-! ### witnesses: configurations and frames used by the non-vacuity examples of Thm/C05 -/

namespace C05W

/-- the default configuration of the driver: no self-IP list, no deny list -/
def cfgD : Cfg := { mac := [0xc0, 0xff, 0xee, 0xc0, 0xff, 0xee], selfIps := none, deny := none, k0 := 0, k1 := 0,
                    logger := .none, level := 0, ovf := true }

/-- a scoped configuration: we are 10.0.0.1 and 2001:db8::1, 10.0.0.66 is denied -/
def cfgS : Cfg :=
  { cfgD with
    selfIps := some [.v4 [10, 0, 0, 1], .v6 [0x20, 0x01, 0x0d, 0xb8, 0, 0, 0, 0, 0, 0, 0, 0, 0, 0, 0, 1]],
    deny := some [.v4 [10, 0, 0, 66]] }

def eth (dst : Bytes) (ety : Bytes) : Bytes := dst ++ [2, 0, 0, 0, 0, 1] ++ ety

def ip6Self : Bytes := [0x20, 0x01, 0x0d, 0xb8, 0, 0, 0, 0, 0, 0, 0, 0, 0, 0, 0, 1]
def ip6Peer : Bytes := [0x20, 0x01, 0x0d, 0xb8, 0, 0, 0, 0, 0, 0, 0, 0, 0, 0, 0, 2]
def ip6Other : Bytes := [0x20, 0x01, 0x0d, 0xb8, 0, 0, 0, 0, 0, 0, 0, 0, 0, 0, 0, 9]

/-- who-has `tpa` tell 10.0.0.2, operation `op`, broadcast -/
def arpFrame (op : UInt8) (tpa : Bytes) : Bytes :=
  eth [255, 255, 255, 255, 255, 255] [8, 6] ++
  [0, 1, 8, 0, 6, 4, 0, op, 2, 0, 0, 0, 0, 1, 10, 0, 0, 2, 0, 0, 0, 0, 0, 0] ++ tpa

/-- IPv4 10.0.0.2 → 10.0.0.1, ICMP `ty`/`code`, identifier 0x1234, sequence 7, data "abcd" -/
def icmp4Frame (ty code : UInt8) : Bytes :=
  eth cfgD.mac [8, 0] ++
  [0x45, 0, 0, 32, 0, 1, 0, 0, 64, 1, 0, 0, 10, 0, 0, 2, 10, 0, 0, 1] ++
  [ty, code, 0, 0, 0x12, 0x34, 0, 7, 0x61, 0x62, 0x63, 0x64]

/-- IPv6 2001:db8::2 → `dst`, ICMPv6 `ty`/`code`, identifier 0x1234, sequence 7, data "abcd" -/
def icmp6Frame (dst : Bytes) (ty code : UInt8) : Bytes :=
  eth cfgD.mac [0x86, 0xdd] ++
  [0x60, 0, 0, 0, 0, 12, 58, 64] ++ ip6Peer ++ dst ++
  [ty, code, 0, 0, 0x12, 0x34, 0, 7, 0x61, 0x62, 0x63, 0x64]

/-- Neighbour Solicitation for `tgt` with a Source Link-Layer Address option, sent to our MAC -/
def nsFrame (tgt : Bytes) (code : UInt8) : Bytes :=
  eth cfgD.mac [0x86, 0xdd] ++
  [0x60, 0, 0, 0, 0, 32, 58, 255] ++ ip6Peer ++ [0xff, 2, 0, 0, 0, 0, 0, 0, 0, 0, 0, 1, 0xff, 0, 0, 1] ++
  [135, code, 0, 0, 0, 0, 0, 0] ++ tgt ++ [1, 1, 2, 0, 0, 0, 0, 1]

/-- a Neighbour Solicitation cut after 20 of its 24 fixed bytes -/
def nsShortFrame : Bytes :=
  eth cfgD.mac [0x86, 0xdd] ++
  [0x60, 0, 0, 0, 0, 20, 58, 255] ++ ip6Peer ++ ip6Self ++
  [135, 0, 0, 0, 0, 0, 0, 0, 0x20, 0x01, 0x0d, 0xb8, 0, 0, 0, 0, 0, 0, 0, 0]

/-- Ethernet + IPv4 (IHL 0, total length 0xFFFF, protocol 1) + ICMP echo header: with 65 508 more
    bytes this is the counterexample to `echo4_reply` -/
def hugeHdr : Bytes :=
  [0xc0, 0xff, 0xee, 0xc0, 0xff, 0xee, 2, 0, 0, 0, 0, 1, 8, 0,
   0x40, 0, 0xff, 0xff, 0, 0, 0, 0, 64, 1, 0, 0, 1, 2, 3, 4, 10, 0, 0, 1,
   8, 0, 0, 0, 0, 1, 0, 1]

theorem huge_l4 (t : Bytes) (ht : t.length = 65508) :
    Spec.l4Bytes (hugeHdr ++ t) = [8, 0, 0, 0, 0, 1, 0, 1] ++ t := by
  have h12 : Spec.be16 (hugeHdr ++ t) 12 = 0x0800 := by rw [be16_append_left (by decide)]; decide
  have hd : (hugeHdr ++ t).drop 14 = hugeHdr.drop 14 ++ t := by
    rw [List.drop_append_of_le_length (by decide)]
  have h0 : Spec.u8 (hugeHdr.drop 14 ++ t) 0 = 0x40 := by rw [u8_append_left (by decide)]; decide
  have h2 : Spec.be16 (hugeHdr.drop 14 ++ t) 2 = 0xffff := by rw [be16_append_left (by decide)]; decide
  simp only [Spec.l4Bytes, h12, if_true, hd, h0, h2]
  have hl : (hugeHdr.drop 14 ++ t).length = 65536 := by simp [ht, hugeHdr]
  rw [hl]
  simp only [show min (20 + (16 % 16 * 4 - 20) + (65535 - 64 % 16 * 4)) 65536 = 65536 by decide,
    show 20 + (64 % 16 * 4 - 20) = 20 by decide]
  rw [List.take_of_length_le (by omega), List.drop_append_of_le_length (by decide)]
  rfl

theorem huge_request (t : Bytes) (ht : t.length = 65508) :
    Spec.echo4Request cfgD (hugeHdr ++ t) = true ∧ 65515 < (Spec.l4Bytes (hugeHdr ++ t)).length := by
  have hl4 := huge_l4 t ht
  refine ⟨?_, by rw [hl4]; simp [ht]⟩
  have hlen : (hugeHdr ++ t).length = 65550 := by simp [ht, hugeHdr]
  have h12 : Spec.be16 (hugeHdr ++ t) 12 = 0x0800 := by rw [be16_append_left (by decide)]; decide
  have h23 : Spec.u8 (hugeHdr ++ t) 23 = 1 := by rw [u8_append_left (by decide)]; decide
  have hmac : Spec.sub (hugeHdr ++ t) 0 6 = cfgD.mac := by
    simp [Spec.sub, hugeHdr, cfgD]
  simp only [Spec.echo4Request, Spec.deliverable, hl4, hlen, h12, hmac, Spec.srcIp, Spec.dstIp, Spec.ipProto, h23]
  simp [Spec.authMac, Spec.inList, Spec.handled, cfgD, Spec.u8, ht]

end C05W

end Masscanned
