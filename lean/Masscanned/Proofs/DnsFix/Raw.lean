/-
  Proofs/DnsFix/Raw — the label-wise name reader of the repaired DNS dissectors
  (`dnsReadQL` / `dnsSkipRRL`: a length octet, then that many octets of ANY value; the name ends at a
  zero LENGTH octet).

  * `IsRaw n`: `n` is a sequence of labels (length octet 1..255, then that many arbitrary octets) closed
    by the root label — the names the reader delimits.  No bound on label length or total length: the
    reader treats a length octet ≥ 64 as a plain length.
  * `rawSplit left p`: the name part the reader consumes from `p` (`left` octets of the current label
    still to come) and what follows; both model readers are `rawSplit` followed by their fixed-size tail
    (`dnsReadQL_eq`, `dnsSkipRRL_eq`).
  * `rawSplit_raw`: a raw name is split off whatever follows it; `rawSplit_some`: only raw names are
    split off; `rawSplit_short`: input that ends inside a label gives nothing.
-/
import Masscanned.Model.Dns
namespace Masscanned.DnsFix
open Masscanned

/-- a name as the label-wise reader delimits it: labels `l :: lab` with `lab.length = l ≥ 1` (any octets,
    0x00 included; any length 1..255), closed by the root label `0` -/
inductive IsRaw : Bytes → Prop
  | root : IsRaw [0]
  | label (l : UInt8) (lab rest : Bytes) : l ≠ 0 → lab.length = l.toNat → IsRaw rest →
      IsRaw (l :: (lab ++ rest))

theorem IsRaw.length_pos {n : Bytes} (h : IsRaw n) : 1 ≤ n.length := by
  cases h <;> simp

/-- a raw name is `0`, or starts with a non-zero (length) octet -/
theorem IsRaw.head {n : Bytes} (h : IsRaw n) : n = [0] ∨ ∃ b t, n = b :: t ∧ b ≠ 0 := by
  cases h with
  | root => exact .inl rfl
  | label l lab rest hl _ _ => exact .inr ⟨l, _, rfl, hl⟩

/-- the name part consumed by the label-wise reader, and the rest; `left` = octets of the current label
    still to be read -/
def rawSplit : Nat → Bytes → Option (Bytes × Bytes)
  | _, [] => none
  | left, b :: t =>
    if left > 0 then (rawSplit (left - 1) t).map (fun x => (b :: x.1, x.2))
    else if b = 0 then some ([0], t)
    else (rawSplit b.toNat t).map (fun x => (b :: x.1, x.2))

/-- **the question reader is `rawSplit` followed by type and class** -/
theorem dnsReadQL_eq : ∀ (p : Bytes) (left : Nat) (acc : Bytes),
    dnsReadQL left acc p =
      match rawSplit left p with
      | none => none
      | some (n, t) =>
        if t.length < 4 then none
        else some ({ name := acc ++ n, qtype := rdBE (t.take 2), qclass := rdBE (slice t 2 2) }, t.drop 4) := by
  intro p
  induction p with
  | nil => intro left acc; simp [dnsReadQL, rawSplit]
  | cons b t ih =>
    intro left acc
    unfold dnsReadQL rawSplit
    split
    · rw [ih]
      cases rawSplit (left - 1) t with
      | none => rfl
      | some x => simp
    · split
      · simp
      · rw [ih]
        cases rawSplit b.toNat t with
        | none => rfl
        | some x => simp

/-- **the record skipper is `rawSplit` followed by the fixed part and RDATA** -/
theorem dnsSkipRRL_eq : ∀ (p : Bytes) (left : Nat),
    dnsSkipRRL left p =
      match rawSplit left p with
      | none => none
      | some (_, t) =>
        if t.length < 10 then none
        else if (t.drop 10).length < rdBE (slice t 8 2) then none
        else some ((t.drop 10).drop (rdBE (slice t 8 2))) := by
  intro p
  induction p with
  | nil => intro left; simp [dnsSkipRRL, rawSplit]
  | cons b t ih =>
    intro left
    unfold dnsSkipRRL rawSplit
    split
    · rw [ih]
      cases rawSplit (left - 1) t with
      | none => rfl
      | some x => simp
    · split
      · simp
      · rw [ih]
        cases rawSplit b.toNat t with
        | none => rfl
        | some x => simp

/-- inside a label the reader copies octets whatever their value -/
theorem rawSplit_label (lab : Bytes) : ∀ (t : Bytes),
    rawSplit lab.length (lab ++ t) = (rawSplit 0 t).map (fun x => (lab ++ x.1, x.2)) := by
  induction lab with
  | nil => intro t; cases h : rawSplit 0 t <;> simp [h]
  | cons b lab ih =>
    intro t
    simp only [List.length_cons, List.cons_append]
    rw [rawSplit, if_pos (by omega)]
    simp only [Nat.add_sub_cancel]
    rw [ih]
    cases rawSplit 0 t <;> simp

/-- one whole label (its length octet may be anything from 1 to 255) is copied, then the next is looked at -/
theorem rawSplit_cons_label (l : UInt8) (hl : l ≠ 0) (lab : Bytes) (hlab : lab.length = l.toNat) (t : Bytes) :
    rawSplit 0 (l :: (lab ++ t)) = (rawSplit 0 t).map (fun x => (l :: (lab ++ x.1), x.2)) := by
  rw [rawSplit, if_neg (by omega), if_neg hl, ← hlab, rawSplit_label]
  cases rawSplit 0 t <;> simp

/-- **a raw name is split off**, whatever follows it -/
theorem rawSplit_raw {n : Bytes} (h : IsRaw n) (r : Bytes) : rawSplit 0 (n ++ r) = some (n, r) := by
  induction h with
  | root => simp [rawSplit]
  | label l lab rest hl hlab _ ih =>
    rw [List.cons_append, List.append_assoc, rawSplit_cons_label l hl lab hlab, ih]
    rfl

/-- **only raw names are split off**: what `rawSplit` returns is the rest of the current label, then a
    raw name; input = that ++ rest -/
theorem rawSplit_some : ∀ (p : Bytes) (left : Nat) (n r : Bytes), rawSplit left p = some (n, r) →
    p = n ++ r ∧ ∃ lab n', n = lab ++ n' ∧ lab.length = left ∧ IsRaw n' := by
  intro p
  induction p with
  | nil => intro left n r h; simp [rawSplit] at h
  | cons b t ih =>
    intro left n r h
    unfold rawSplit at h
    split at h
    · rename_i hpos
      cases hx : rawSplit (left - 1) t with
      | none => rw [hx] at h; cases h
      | some x =>
        rw [hx] at h
        simp only [Option.map_some, Option.some.injEq, Prod.mk.injEq] at h
        obtain ⟨rfl, rfl⟩ := h
        obtain ⟨hp, lab, n', hn, hlab, hraw⟩ := ih _ _ _ hx
        refine ⟨by rw [hp]; rfl, b :: lab, n', by rw [hn]; rfl, by simp [hlab]; omega, hraw⟩
    · split at h
      · rename_i hb
        simp only [Option.some.injEq, Prod.mk.injEq] at h
        obtain ⟨rfl, rfl⟩ := h
        subst hb
        exact ⟨rfl, [], [0], rfl, by simp; omega, .root⟩
      · rename_i hb
        cases hx : rawSplit b.toNat t with
        | none => rw [hx] at h; cases h
        | some x =>
          rw [hx] at h
          simp only [Option.map_some, Option.some.injEq, Prod.mk.injEq] at h
          obtain ⟨rfl, rfl⟩ := h
          obtain ⟨hp, lab, n', hn, hlab, hraw⟩ := ih _ _ _ hx
          refine ⟨by rw [hp]; rfl, [], b :: (lab ++ n'), by rw [hn]; rfl, by simp; omega, ?_⟩
          exact .label b lab n' hb hlab hraw

theorem rawSplit_zero_some {p n r : Bytes} (h : rawSplit 0 p = some (n, r)) : p = n ++ r ∧ IsRaw n := by
  obtain ⟨hp, lab, n', hn, hlab, hraw⟩ := rawSplit_some p 0 n r h
  have : lab = [] := List.length_eq_zero_iff.mp hlab
  subst this
  simp only [List.nil_append] at hn
  subst hn
  exact ⟨hp, hraw⟩

/-- input that ends inside the current label (or exactly at its end) gives nothing -/
theorem rawSplit_short : ∀ (p : Bytes) (left : Nat), p.length ≤ left → rawSplit left p = none := by
  intro p
  induction p with
  | nil => intro left _; simp [rawSplit]
  | cons b t ih =>
    intro left h
    simp only [List.length_cons] at h
    rw [rawSplit, if_pos (by omega), ih _ (by omega)]
    rfl

/-! ### the model's readers in these terms -/

/-- a raw name followed by `r`: the question reader returns the name and the two 16-bit fields, and
    fails exactly when fewer than 4 octets follow -/
theorem dnsReadQ_raw {n : Bytes} (h : IsRaw n) (acc r : Bytes) :
    dnsReadQ acc (n ++ r) =
      if r.length < 4 then none
      else some ({ name := acc ++ n, qtype := rdBE (r.take 2), qclass := rdBE (slice r 2 2) }, r.drop 4) := by
  unfold dnsReadQ
  rw [dnsReadQL_eq, rawSplit_raw h]

/-- whatever the question reader returns is a raw name followed by 4 octets -/
theorem dnsReadQ_some {p acc : Bytes} {q : DnsQ} {r : Bytes} (h : dnsReadQ acc p = some (q, r)) :
    ∃ n t, IsRaw n ∧ q.name = acc ++ n ∧ p = n ++ t ∧ 4 ≤ t.length ∧ r = t.drop 4 ∧
      q.qtype = rdBE (t.take 2) ∧ q.qclass = rdBE (slice t 2 2) := by
  unfold dnsReadQ at h
  rw [dnsReadQL_eq] at h
  split at h
  · cases h
  · rename_i n t hs
    split at h
    · cases h
    · simp only [Option.some.injEq, Prod.mk.injEq] at h
      obtain ⟨rfl, rfl⟩ := h
      obtain ⟨hp, hraw⟩ := rawSplit_zero_some hs
      exact ⟨n, t, hraw, rfl, hp, by omega, rfl, rfl, rfl⟩

theorem dnsSkipRR_raw {n : Bytes} (h : IsRaw n) (r : Bytes) :
    dnsSkipRR (n ++ r) =
      if r.length < 10 then none
      else if (r.drop 10).length < rdBE (slice r 8 2) then none
      else some ((r.drop 10).drop (rdBE (slice r 8 2))) := by
  unfold dnsSkipRR
  rw [dnsSkipRRL_eq, rawSplit_raw h]

theorem dnsReadQ_none_of_rawSplit {p : Bytes} (h : rawSplit 0 p = none) (acc : Bytes) : dnsReadQ acc p = none := by
  unfold dnsReadQ
  rw [dnsReadQL_eq, h]

theorem dnsSkipRR_none_of_rawSplit {p : Bytes} (h : rawSplit 0 p = none) : dnsSkipRR p = none := by
  unfold dnsSkipRR
  rw [dnsSkipRRL_eq, h]

/-- names of a whole question section are raw names -/
theorem dnsReadQs_raw : ∀ (k : Nat) (p : Bytes) (qs : List DnsQ) (r : Bytes),
    dnsReadQs k p = some (qs, r) → ∀ q ∈ qs, IsRaw q.name := by
  intro k
  induction k with
  | zero => intro p qs r h; simp only [dnsReadQs, Option.some.injEq, Prod.mk.injEq] at h; simp [← h.1]
  | succ k ih =>
    intro p qs r h
    unfold dnsReadQs at h
    split at h
    · cases h
    · rename_i q0 r0 hq0
      split at h
      · cases h
      · rename_i hqs
        simp only [Option.some.injEq, Prod.mk.injEq] at h
        rw [← h.1]
        intro q hq
        simp only [List.mem_cons] at hq
        rcases hq with rfl | hq
        · obtain ⟨n, _, hraw, hn, _⟩ := dnsReadQ_some hq0
          simp only [List.nil_append] at hn
          rw [hn]; exact hraw
        · exact ih _ _ _ hqs q hq

end Masscanned.DnsFix
