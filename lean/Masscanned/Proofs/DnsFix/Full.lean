/-
  Proofs/DnsFix/Full — the hypotheses of C14 WITHOUT the "no 0x00 inside a label" restriction.

  `Spec/Dns.lean` (not editable here) still carries that restriction inside its predicates:
  `Spec.inAQuery` and `Spec.hasNonInA` demand `Spec.labelsNoNul 256 q.name` of every question, and
  `Spec.scanName` (hence `Spec.dnsTruncated`) answers `.bad` on a label containing 0x00.  The predicates
  below are the same definitions with exactly that conjunct / that line removed; nothing else differs.
  Each Spec predicate implies its unrestricted twin (`inAQuery_any`, `hasNonInA_any`, `dnsTruncated_any`),
  so a theorem about the twin is a strictly stronger theorem.  C14 is proved for the twins
  (`Thm/C14.lean`), i.e. for every label layout, whatever octets the labels contain.
-/
import Masscanned.Spec.Dns
namespace Masscanned.DnsFix
open Masscanned Masscanned.Spec

/-- a query (QR=0) made only of IN/A questions, nothing else in the message — `Spec.inAQuery` without
    `labelsNoNul`: labels (1..63 octets each, name ≤ 255 octets, as `Spec.readName` demands) may contain
    any octet -/
def inAQueryAny (p : Bytes) : Option DMsg :=
  match parseDns p with
  | none => none
  | some m =>
    if m.flags / 32768 = 0 ∧ m.an.isEmpty ∧ m.nscount = 0 ∧ m.arcount = 0 ∧ m.rest.isEmpty ∧
       m.qd.all (fun q => q.qtype = 1 ∧ q.qclass = 1) then some m else none

/-- a message that contains a question that is not IN/A (and is otherwise a parseable query) —
    `Spec.hasNonInA` without `labelsNoNul` -/
def hasNonInAAny (p : Bytes) : Bool :=
  match parseDns p with
  | some m => m.flags / 32768 = 0 && m.qd.any (fun q => !(q.qtype = 1 ∧ q.qclass = 1))
  | none => false

/-- `Spec.scanName` without the line that rejects a 0x00 inside a label -/
def scanNameAny : Nat → Bytes → Scan
  | 0, _ => .bad
  | fuel + 1, p =>
    match p with
    | [] => .short
    | l :: t =>
      if l = 0 then .done t
      else if l.toNat > 63 then .bad
      else if t.length < l.toNat then .short
      else scanNameAny fuel (t.drop l.toNat)

def scanQuestionsAny : Nat → Bytes → Scan
  | 0, p => .done p
  | k + 1, p =>
    match scanNameAny (p.length + 1) p with
    | .done r => if r.length < 4 then .short else scanQuestionsAny k (r.drop 4)
    | x => x

def scanRRsAny : Nat → Bytes → Scan
  | 0, p => .done p
  | k + 1, p =>
    match scanNameAny (p.length + 1) p with
    | .done r =>
      if r.length < 10 then .short
      else if (r.drop 10).length < be16 r 8 then .short
      else scanRRsAny k ((r.drop 10).drop (be16 r 8))
    | x => x

/-- truncated message: ends before the sections announced in its header are complete —
    `Spec.dnsTruncated` over `scanNameAny` -/
def dnsTruncatedAny (p : Bytes) : Bool :=
  if p.length < 12 then true else
  match scanQuestionsAny (be16 p 4) (p.drop 12) with
  | .short => true
  | .bad => false
  | .done r =>
    match scanRRsAny (be16 p 6) r with
    | .short => true
    | _ => false

/-! ### each Spec predicate implies its unrestricted twin -/

theorem inAQuery_any {p : Bytes} {q : DMsg} (h : inAQuery p = some q) : inAQueryAny p = some q := by
  unfold inAQuery at h
  unfold inAQueryAny
  split at h
  · cases h
  · rename_i m hp
    rw [hp]
    split at h
    · rename_i hc
      simp only [Option.some.injEq] at h
      subst h
      obtain ⟨h1, h2, h3, h4, h5, h6⟩ := hc
      have h6' : m.qd.all (fun q => decide (q.qtype = 1 ∧ q.qclass = 1)) = true := by
        rw [List.all_eq_true] at h6 ⊢
        intro x hx
        have := h6 x hx
        simp only [decide_eq_true_eq] at this ⊢
        first | exact ⟨this.1, this.2.1⟩ | exact this
      simp only
      rw [if_pos ⟨h1, h2, h3, h4, h5, h6'⟩]
    · cases h

theorem hasNonInA_any {p : Bytes} (h : hasNonInA p = true) : hasNonInAAny p = true := by
  unfold hasNonInA at h
  unfold hasNonInAAny
  split at h
  · rename_i m hp
    rw [hp]
    simp only [Bool.and_eq_true] at h ⊢
    first | exact h.1 | exact h
  · cases h

theorem scanName_any : ∀ (fuel : Nat) (p : Bytes),
    (scanName fuel p = .short → scanNameAny fuel p = .short) ∧
    (∀ r, scanName fuel p = .done r → scanNameAny fuel p = .done r) := by
  intro fuel
  induction fuel with
  | zero => intro p; simp [scanName]
  | succ f ih =>
    intro p
    cases p with
    | nil => simp [scanName, scanNameAny]
    | cons l t =>
      simp only [scanName, scanNameAny]
      by_cases hl : l = 0
      · simp [hl]
      · rw [if_neg hl, if_neg hl]
        by_cases h63 : l.toNat > 63
        · simp [h63]
        · rw [if_neg h63, if_neg h63]
          -- (the `first` alternative without `hn` is the same proof once `Spec.scanName` has lost its
          -- "0x00 inside a label ⇒ .bad" line: then the two scanners coincide)
          first
          | (by_cases hn : (t.take l.toNat).any (· = 0) = true
             · simp [hn]
             · rw [if_neg hn]
               by_cases hs : t.length < l.toNat
               · simp [hs]
               · rw [if_neg hs, if_neg hs]
                 exact ih _)
          | (by_cases hs : t.length < l.toNat
             · simp [hs]
             · rw [if_neg hs, if_neg hs]
               exact ih _)

theorem scanQuestions_any : ∀ (k : Nat) (p : Bytes),
    (scanQuestions k p = .short → scanQuestionsAny k p = .short) ∧
    (∀ r, scanQuestions k p = .done r → scanQuestionsAny k p = .done r) := by
  intro k
  induction k with
  | zero => intro p; simp [scanQuestions, scanQuestionsAny]
  | succ k ih =>
    intro p
    obtain ⟨s1, s2⟩ := scanName_any (p.length + 1) p
    unfold scanQuestions scanQuestionsAny
    split
    · rename_i r hr
      rw [s2 r hr]
      simp only
      split
      · simp
      · exact ih _
    · rename_i x hx
      constructor
      · intro hs; rw [s1 hs]
      · intro r hr; exact absurd hr (hx r)

theorem scanRRs_any : ∀ (k : Nat) (p : Bytes),
    (scanRRs k p = .short → scanRRsAny k p = .short) ∧
    (∀ r, scanRRs k p = .done r → scanRRsAny k p = .done r) := by
  intro k
  induction k with
  | zero => intro p; simp [scanRRs, scanRRsAny]
  | succ k ih =>
    intro p
    obtain ⟨s1, s2⟩ := scanName_any (p.length + 1) p
    unfold scanRRs scanRRsAny
    split
    · rename_i r hr
      rw [s2 r hr]
      simp only
      split
      · simp
      · split
        · simp
        · exact ih _
    · rename_i x hx
      constructor
      · intro hs; rw [s1 hs]
      · intro r hr; exact absurd hr (hx r)

theorem dnsTruncated_any {p : Bytes} (h : dnsTruncated p = true) : dnsTruncatedAny p = true := by
  unfold dnsTruncated at h
  unfold dnsTruncatedAny
  split at h
  · rename_i hl; rw [if_pos hl]
  · rename_i hl
    rw [if_neg hl]
    obtain ⟨s1, s2⟩ := scanQuestions_any (be16 p 4) (p.drop 12)
    split at h
    · rename_i hs; rw [s1 hs]
    · cases h
    · rename_i r hs
      rw [s2 r hs]
      simp only
      split at h
      · rename_i hs2; rw [(scanRRs_any _ _).1 hs2]
      · cases h

end Masscanned.DnsFix
