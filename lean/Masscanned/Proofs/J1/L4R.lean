/-
  Proofs/J1/L4R — the refined port rule carried from the application layer (`PortRule2`,
  Proofs/J1/FirstByte) through UDP / TCP, IPv4 / IPv6 and Ethernet up to `step`, in the vocabulary
  of the Spec readers (`Spec.l4Bytes`, `Spec.appPayload`):

  for a TCP/UDP frame `f` answered by `r`, with `q = l4Bytes f`, `l4 = l4Bytes r`, `d = appPayload f`,
  the ports are swapped, the source port is shifted by `k`, and
    * `k = 0`, and the reply's application payload starts with `01` only if `d` does, or
    * the STUN responder answered: `k = stunBumps d` and the reply's application payload starts `01 01`.
  (Same structure as Proofs/C0203/Net, whose `PortRule` / `L4Mirror` are the weaker versions.)
-/
import Masscanned.Proofs.J1.FirstByte
import Masscanned.Proofs.C0203.Mirror
import Masscanned.Proofs.E2E.Frame
import Masscanned.Proofs.E2E.Bridge
import Masscanned.Spec.Judge
namespace Masscanned.J1
open Masscanned Spec

/-- reply segment `l4` (header length `hl`) w.r.t. the request segment `q` with application data `d` -/
def L4R (hl : Nat) (q l4 d : Bytes) : Prop :=
  hl ≤ q.length ∧ hl ≤ l4.length ∧ (hl = 20 → u8 l4 12 / 16 = 5) ∧
  ∃ k, be16 l4 2 = be16 q 0 ∧ be16 l4 0 = (be16 q 2 + k) % 65536 ∧
    ((k = 0 ∧ (u8 l4 hl = 1 → u8 d 0 = 1)) ∨
     (k = stunBumps d ∧ StunAnswered d ∧ u8 l4 hl = 1 ∧ u8 l4 (hl + 1) = 1))

theorem u8_nil (i : Nat) : u8 [] i = 0 := by simp [u8]

theorem l4R_of_ports {hl : Nat} {q : Bytes} {ci0 ci' : ClientInfo} {ro : Option Bytes} {d : Bytes}
    (hq : 4 ≤ q.length) (hql : hl ≤ q.length)
    (hs : ci0.portSrc = some (rdBE (slice q 0 2))) (hd : ci0.portDst = some (rdBE (slice q 2 2)))
    (hp : PortRule2 ci0 ci' ro d) (tail : Bytes) (htl : tail.length + 4 = hl)
    (h12 : hl = 20 → u8 tail 8 / 16 = 5) :
    L4R hl q (u16be (ci'.portDst.getD 0) ++ u16be (ci'.portSrc.getD 0) ++ tail ++ ro.getD []) d := by
  rw [rdBE_slice2 (by omega)] at hs hd
  have hhl : ∀ x y, (u16be x ++ u16be y ++ tail).length = hl := by
    intro x y; simp [u16be_length]; omega
  have hsrc : ∀ x y (body : Bytes), be16 (u16be x ++ u16be y ++ tail ++ body) 2 = y % 65536 := by
    intro x y body
    rw [List.append_assoc, List.append_assoc]
    have := be16_append_right (u16be y ++ (tail ++ body)) (u16be_length x) 0
    simp only [Nat.add_zero] at this
    rw [this, be16_u16be]
  have hdst : ∀ x y (body : Bytes), be16 (u16be x ++ u16be y ++ tail ++ body) 0 = x % 65536 := by
    intro x y body
    rw [List.append_assoc, List.append_assoc, be16_u16be]
  have hbody : ∀ x y (body : Bytes) i, u8 (u16be x ++ u16be y ++ tail ++ body) (hl + i) = u8 body i :=
    fun x y body i => u8_append_right body (hhl x y) i
  have h1 := be16_lt q 0
  have h2 := be16_lt q 2
  refine ⟨hql, by simp [u16be_length]; omega, ?_, ?_⟩
  · intro h20
    have e := u8_append_right (a := u16be (ci'.portDst.getD 0) ++ u16be (ci'.portSrc.getD 0))
      (tail ++ ro.getD []) (n := 4) (by simp [u16be_length]) 8
    rw [List.append_assoc, e, u8_append_left _ (by omega)]
    exact h12 h20
  · rcases hp with ⟨rfl, hfb⟩ | ⟨rfl, hsa, t, rfl⟩
    · refine ⟨0, ?_, ?_, .inl ⟨rfl, ?_⟩⟩
      · rw [hsrc, hs]; simp; omega
      · rw [hdst, hd]; simp
      · have := hbody (ci'.portDst.getD 0) (ci'.portSrc.getD 0) (ro.getD []) 0
        rw [Nat.add_zero] at this
        rw [this]
        intro hb
        rcases ro with _ | (_ | ⟨b, t⟩)
        · simp [u8_nil] at hb
        · simp [u8_nil] at hb
        · have hb1 : b = 1 := by
            simp only [Option.getD_some, u8, List.getD_cons_zero] at hb
            exact UInt8.toNat_inj.mp hb
          subst hb1
          exact hfb t rfl
    · refine ⟨stunBumps d, ?_, ?_, .inr ⟨rfl, hsa, ?_, ?_⟩⟩
      · rw [hsrc]; simp [hs]; omega
      · rw [hdst]; simp [hd]
      · have := hbody ((ci0.portDst.map fun p => (p + stunBumps d) % 65536).getD 0) (ci0.portSrc.getD 0)
          (1 :: 1 :: t) 0
        rw [Nat.add_zero] at this
        simp only [Option.getD_some]
        rw [this]; rfl
      · have := hbody ((ci0.portDst.map fun p => (p + stunBumps d) % 65536).getD 0) (ci0.portSrc.getD 0)
          (1 :: 1 :: t) 1
        simp only [Option.getD_some]
        rw [this]; rfl

theorem udpRepl_R {cfg : Cfg} {env : Env} {ci ci' : ClientInfo} {p r : Bytes} {evs : List Ev}
    (hp : 8 ≤ p.length) (h : udpRepl cfg env ci p = .ok (evs, ci', some r)) :
    L4R 8 p r (p.drop 8) := by
  unfold udpRepl at h
  split_all h
  · cases h
  · cases h
  · rename_i ci1 _ r0 hpr
    cases h
    have hpr' := protoRepl_shape2 hpr
    have := l4R_of_ports (hl := 8) (q := p) (by omega) hp rfl rfl hpr'
      (u16be ((8 + r0.length) % 65536) ++ [0, 0]) (by simp [u16be_length]) (by omega)
    simpa [List.append_assoc] using this

theorem tcp_finish_R {q : Bytes} {ci0 ci' : ClientInfo} {ro : Option Bytes} {d : Bytes}
    (hq : 20 ≤ q.length)
    (hs : ci0.portSrc = some (rdBE (slice q 0 2))) (hd : ci0.portDst = some (rdBE (slice q 2 2)))
    (hp : PortRule2 ci0 ci' ro d) (seq ack flags : Nat) :
    L4R 20 q (tcpHdr (ci'.portDst.getD 0) (ci'.portSrc.getD 0) seq ack flags ++ ro.getD []) d := by
  have := l4R_of_ports (hl := 20) (q := q) (by omega) hq hs hd hp
    (u32be seq ++ u32be ack ++ [byte (0x50 + flags / 256 % 2), byte flags] ++ [255, 255, 0, 0, 0, 0])
    (by simp [u32be]) (by
      intro _
      have : (byte (0x50 + flags / 256 % 2)).toNat = (0x50 + flags / 256 % 2) % 256 := by simp [byte]
      simp only [u32be, u8, List.cons_append, List.nil_append, List.getD_cons_succ, List.getD_cons_zero, this]
      omega)
  simpa [tcpHdr, List.append_assoc] using this

theorem tcpRepl_R {cfg : Cfg} {env : Env} {st st' : Table} {ci ci' : ClientInfo} {p r : Bytes}
    {evs : List Ev} (hp : 20 ≤ p.length)
    (h : tcpRepl cfg env st ci p = .ok (evs, ci', st', some r)) :
    L4R 20 p r (tcpPayload p) := by
  unfold tcpRepl at h
  extract_lets sport dport seq ack flags ci0 rcv ck finish ackno ci1 data at h
  clear_value ck
  split_all h
  all_goals try dsimp only [finish] at h
  all_goals simp only [Except.ok.injEq, Prod.mk.injEq, Option.some.injEq, reduceCtorEq, and_false] at h
  all_goals obtain ⟨rfl, rfl, rfl, rfl⟩ := h
  all_goals first
    | exact tcp_finish_R (ro := some _) hp rfl rfl (protoRepl_shape2 (by assumption)) _ _ _
    | exact tcp_finish_R (ro := none) hp rfl rfl (protoRepl_shape2 (by assumption)) _ _ _
    | exact tcp_finish_R (ro := none) hp rfl rfl (pr_none _ (tcpPayload p)) _ _ _

/-! ### checksum insertion does not touch what `L4R` reads -/

theorem u8_setU16_ge {r : Bytes} {off : Nat} (v i : Nat) (hl : off + 2 ≤ r.length) :
    u8 (setU16 r off v) (off + 2 + i) = u8 r (off + 2 + i) := by
  unfold setU16
  have hlen : (r.take off ++ u16be v).length = off + 2 := by simp [u16be_length]; omega
  rw [u8_append_right _ hlen i, u8_drop]

theorem L4R.setU16 {hl : Nat} {q l4 d : Bytes} (h : L4R hl q l4 d) (off v : Nat)
    (h4 : 4 ≤ off) (hoff : off + 2 ≤ hl) (h12 : hl = 20 → 12 < off) :
    L4R hl q (setU16 l4 off v) d := by
  obtain ⟨hql, hlen, hd, k, h1, h2, h3⟩ := h
  have ehl : ∀ i, u8 (Masscanned.setU16 l4 off v) (hl + i) = u8 l4 (hl + i) := by
    intro i
    have := u8_setU16_ge (r := l4) (off := off) v (hl - (off + 2) + i) (by omega)
    rw [show off + 2 + (hl - (off + 2) + i) = hl + i by omega] at this
    exact this
  have e0 := ehl 0
  rw [Nat.add_zero] at e0
  refine ⟨hql, by rw [setU16_length v (by omega)]; exact hlen, ?_, k, ?_, ?_, ?_⟩
  · intro h20
    rw [u8_setU16_lt v (h12 h20) (by omega)]; exact hd h20
  · rw [be16_setU16_lt v (by omega) (by omega)]; exact h1
  · rw [be16_setU16_lt v (by omega) (by omega)]; exact h2
  · rw [e0, ehl 1]; exact h3

/-! ### network layer -/

theorem ipv4Repl_R {cfg : Cfg} {env : Env} {st st' : Table} {ci ci' : ClientInfo} {p r : Bytes}
    {evs : List Ev} (h : ipv4Repl cfg env st ci p = .ok (evs, ci', st', some r)) :
    ∃ l4, r = ipv4Hdr (slice p 16 4) (slice p 12 4) (at8 p 9) (20 + l4.length) ++ l4 ∧
      20 + l4.length ≤ 65535 ∧
      (at8 p 9 = 6 → L4R 20 (ipv4Payload p) l4 (tcpPayload (ipv4Payload p))) ∧
      (at8 p 9 = 17 → L4R 8 (ipv4Payload p) l4 ((ipv4Payload p).drop 8)) := by
  unfold ipv4Repl at h
  extract_lets src dst proto ci0 rcv ci1 pl wrap drop at h
  split at h
  · simp at h
  split at h
  · simp at h
  split_all h
  all_goals try dsimp only [wrap, drop] at h
  all_goals try split at h
  all_goals simp only [Except.ok.injEq, Prod.mk.injEq, Option.some.injEq, reduceCtorEq, and_false] at h
  all_goals obtain ⟨_, _, _, rfl⟩ := h
  · have hpr : at8 p 9 = 1 := by assumption
    exact ⟨_, rfl, by omega, fun h6 => by omega, fun h17 => by omega⟩
  · have hlen : ¬ pl.length < 20 := by assumption
    have hpr : at8 p 9 = 6 := by assumption
    have := tcpRepl_R (p := pl) (by omega) (by assumption)
    exact ⟨_, rfl, by omega, fun _ => this.setU16 16 _ (by omega) (by omega) (fun _ => by omega),
      fun h17 => by omega⟩
  · have hlen : ¬ pl.length < 8 := by assumption
    have hpr : at8 p 9 = 17 := by assumption
    have := udpRepl_R (p := pl) (by omega) (by assumption)
    exact ⟨_, rfl, by omega, fun h6 => by omega,
      fun _ => this.setU16 6 _ (by omega) (by omega) (fun h => by omega)⟩

theorem ipv6Repl_R {cfg : Cfg} {env : Env} {st st' : Table} {ci ci' : ClientInfo} {p r : Bytes}
    {evs : List Ev} (h : ipv6Repl cfg env st ci p = .ok (evs, ci', st', some r)) :
    ∃ from_ hlim l4, r = ipv6Hdr from_ (slice p 8 16) (at8 p 6) l4.length hlim ++ l4 ∧
      l4.length ≤ 65535 ∧
      (at8 p 6 = 6 → from_ = slice p 24 16 ∧ L4R 20 (ipv6Payload p) l4 (tcpPayload (ipv6Payload p))) ∧
      (at8 p 6 = 17 → from_ = slice p 24 16 ∧ L4R 8 (ipv6Payload p) l4 ((ipv6Payload p).drop 8)) := by
  unfold ipv6Repl at h
  extract_lets src dst nh ci0 rcv ci1 pl wrap drop at h
  split at h
  · simp at h
  split at h
  · simp at h
  split_all h
  all_goals try dsimp only [wrap, drop] at h
  all_goals try split at h
  all_goals simp only [Except.ok.injEq, Prod.mk.injEq, Option.some.injEq, reduceCtorEq, and_false] at h
  all_goals obtain ⟨_, _, _, rfl⟩ := h
  all_goals first
    | (have hpr : at8 p 6 = 58 := by assumption
       exact ⟨_, _, _, rfl, by omega, fun h6 => by omega, fun h17 => by omega⟩)
    | (have hlen : ¬ pl.length < 20 := by assumption
       have hpr : at8 p 6 = 6 := by assumption
       have := tcpRepl_R (p := pl) (by omega) (by assumption)
       exact ⟨_, _, _, rfl, by omega,
         fun _ => ⟨rfl, this.setU16 16 _ (by omega) (by omega) (fun _ => by omega)⟩, fun h17 => by omega⟩)
    | (have hlen : ¬ pl.length < 8 := by assumption
       have hpr : at8 p 6 = 17 := by assumption
       have := udpRepl_R (p := pl) (by omega) (by assumption)
       exact ⟨_, _, _, rfl, by omega, fun h6 => by omega,
         fun _ => ⟨rfl, this.setU16 6 _ (by omega) (by omega) (fun h => by omega)⟩⟩)

/-! ### Ethernet layer and `step`, in the Spec's vocabulary -/

theorem ethRepl_R {cfg : Cfg} {env : Env} {st st' : Table} {f r : Bytes} {evs : List Ev}
    (h : ethRepl cfg env st f = .ok (evs, st', some r)) :
    rdBE (slice f 12 2) = 0x0806 ∨
    (rdBE (slice f 12 2) = 0x0800 ∧ 20 ≤ (f.drop 14).length ∧
      ∃ evs0 ci ci' l3, ipv4Repl cfg env st ci (f.drop 14) = .ok (evs0, ci', st', some l3) ∧
        r = C12.ethWrap cfg f l3) ∨
    (rdBE (slice f 12 2) = 0x86dd ∧ 40 ≤ (f.drop 14).length ∧
      ∃ evs0 ci ci' l3, ipv6Repl cfg env st ci (f.drop 14) = .ok (evs0, ci', st', some l3) ∧
        r = C12.ethWrap cfg f l3) := by
  unfold ethRepl at h
  dsimp only at h
  repeat' split at h
  all_goals first
    | (cases h; done)
    | (cases h; left; assumption)
    | (cases h; right; left
       have e := ‹ipv4Repl _ _ _ _ _ = _›
       exact ⟨‹rdBE (slice f 12 2) = 0x0800›, by omega, _, _, _, _, e, rfl⟩)
    | (cases h; right; right
       have e := ‹ipv6Repl _ _ _ _ _ = _›
       exact ⟨‹rdBE (slice f 12 2) = 0x86dd›, by omega, _, _, _, _, e, rfl⟩)

theorem appPayload_tcp {f : Bytes} (h : ipProto f = some 6) : appPayload f = tcpPayload (l4Bytes f) := by
  simp only [appPayload, tcpPayload, h, at8_eq_u8]
  by_cases hc : u8 (l4Bytes f) 12 / 16 > 5 <;> simp [hc]

theorem appPayload_udp {f : Bytes} (h : ipProto f = some 17) : appPayload f = (l4Bytes f).drop 8 := by
  simp only [appPayload, h]

theorem ipProto_v4 {r : Bytes} (h12 : be16 r 12 = 0x0800) (hl : r.length ≥ 34) : ipProto r = some (u8 r 23) := by
  simp [ipProto, h12, hl]

theorem ipProto_v6 {r : Bytes} (h12 : be16 r 12 = 0x86dd) (hl : r.length ≥ 54) : ipProto r = some (u8 r 20) := by
  simp [ipProto, h12, hl]

/-- **the refined port rule at frame level**: a TCP/UDP frame (`ipProto f = some pr`, `pr` = 6 or 17)
    answered by `r` -/
theorem step_R {cfg : Cfg} {env : Env} {st : Table} {f r : Bytes} (hm : cfg.mac.length = 6)
    (h : (step cfg env st f).out = .ok (some r)) {pr : Nat} (hpr : ipProto f = some pr)
    (h617 : pr = 6 ∨ pr = 17) :
    ipProto r = some pr ∧ L4R (if pr = 6 then 20 else 8) (l4Bytes f) (l4Bytes r) (appPayload f) := by
  unfold step at h
  split at h
  · simp at h
  rename_i hf14
  split at h
  · simp at h
  rename_i evs st' o heth
  simp only [Except.ok.injEq] at h
  subst h
  have hf : 14 ≤ f.length := by omega
  have hety : rdBE (slice f 12 2) = be16 f 12 := rdBE_slice2 (by omega)
  rcases ethRepl_R heth with he | ⟨he, hl, evs0, ci, ci', l3, h4, rfl⟩ | ⟨he, hl, evs0, ci, ci', l3, h6, rfl⟩
  · rw [hety] at he
    simp [ipProto, he] at hpr
  · rw [hety] at he
    obtain ⟨l4, rfl, hb, c6, c17⟩ := ipv4Repl_R h4
    have hlen : 34 ≤ f.length := by simp at hl; omega
    have hs : (slice (f.drop 14) 12 4).length = 4 := slice_length_of_le (by omega)
    have hd : (slice (f.drop 14) 16 4).length = 4 := slice_length_of_le (by omega)
    obtain ⟨rl, r12, -, r23, rl4⟩ := E2E.Fr.reply_v4_frame cfg f (slice (f.drop 14) 16 4)
      (slice (f.drop 14) 12 4) l4 (at8 (f.drop 14) 9) hm hf he hd hs hb
    have hp9 : at8 (f.drop 14) 9 = pr := by
      have : ipProto f = some (u8 f 23) := ipProto_v4 he hlen
      rw [this] at hpr
      rw [at8_eq_u8, u8_drop]
      exact Option.some.inj hpr
    have hprlt : pr < 256 := by rw [← hp9]; exact u8_lt _ _
    have hq : l4Bytes f = ipv4Payload (f.drop 14) := l4Bytes_v4 he
    refine ⟨?_, ?_⟩
    · have : (C12.ethWrap cfg f (ipv4Hdr (slice (f.drop 14) 16 4) (slice (f.drop 14) 12 4) (at8 (f.drop 14) 9)
          (20 + l4.length) ++ l4)).length ≥ 34 := by omega
      rw [ipProto_v4 r12 this, r23, hp9, Nat.mod_eq_of_lt hprlt]
    · rw [rl4, hq]
      rcases h617 with rfl | rfl
      · rw [appPayload_tcp hpr, hq]; exact c6 hp9
      · rw [appPayload_udp hpr, hq]; exact c17 hp9
  · rw [hety] at he
    obtain ⟨from_, hlim, l4, rfl, hb, c6, c17⟩ := ipv6Repl_R h6
    have hlen : 54 ≤ f.length := by simp at hl; omega
    have hs : (slice (f.drop 14) 8 16).length = 16 := slice_length_of_le (by omega)
    have hp6 : at8 (f.drop 14) 6 = pr := by
      have : ipProto f = some (u8 f 20) := ipProto_v6 he hlen
      rw [this] at hpr
      rw [at8_eq_u8, u8_drop]
      exact Option.some.inj hpr
    have hfrom : from_ = slice (f.drop 14) 24 16 := by
      rcases h617 with rfl | rfl
      · exact (c6 hp6).1
      · exact (c17 hp6).1
    have hd : from_.length = 16 := by rw [hfrom]; exact slice_length_of_le (by omega)
    obtain ⟨rl, r12, -, r20, rl4, -⟩ := E2E.Fr.reply_v6_frame cfg f from_
      (slice (f.drop 14) 8 16) l4 (at8 (f.drop 14) 6) hlim hm hf he hd hs hb
    have hprlt : pr < 256 := by rw [← hp6]; exact u8_lt _ _
    have hq : l4Bytes f = ipv6Payload (f.drop 14) := l4Bytes_v6 he
    refine ⟨?_, ?_⟩
    · have h54 : (C12.ethWrap cfg f (ipv6Hdr from_ (slice (f.drop 14) 8 16) (at8 (f.drop 14) 6)
          l4.length hlim ++ l4)).length ≥ 54 := by omega
      rw [ipProto_v6 r12 h54, r20, hp6, Nat.mod_eq_of_lt hprlt]
    · rw [rl4, hq]
      rcases h617 with rfl | rfl
      · rw [appPayload_tcp hpr, hq]; exact (c6 hp6).2
      · rw [appPayload_udp hpr, hq]; exact (c17 hp6).2

end Masscanned.J1
