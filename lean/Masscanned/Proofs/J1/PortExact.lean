/-
  Proofs/J1/PortExact — the exact port rule of C03 at frame level, in the judge's vocabulary
  (`Spec.mirrors`, `Spec.appPayload`): every reply mirrors the request with offset 0 and starts with
  `01` only if the request does, or the STUN responder answered and the offset is `stunBumps`.
-/
import Masscanned.Thm.C03
import Masscanned.Proofs.J1.L4R
import Masscanned.Proofs.J1.StunWalk
namespace Masscanned.J1
open Masscanned Spec

theorem ipProto_arp {r : Bytes} (h : be16 r 12 = 0x0806) : ipProto r = none := by
  simp [ipProto, h]

/-- replies to frames that are not TCP/UDP carry no application payload -/
theorem appPayload_nil_of_mirrors {cfg : Cfg} {f r : Bytes} {k : Nat} (h : mirrors cfg f r k = true)
    (hn : isTcpUdp f = false) : appPayload r = [] := by
  unfold mirrors at h
  simp only [Bool.and_eq_true, decide_eq_true_eq] at h
  obtain ⟨⟨⟨⟨_, _⟩, _⟩, hety⟩, hrest⟩ := h
  by_cases he : be16 f 12 = 0x0806
  · simp [appPayload, ipProto_arp (hety.trans he)]
  · rw [if_neg he] at hrest
    simp only [Bool.and_eq_true, decide_eq_true_eq] at hrest
    have hp : ipProto r = ipProto f := hrest.1.2
    unfold isTcpUdp at hn
    unfold appPayload
    rw [hp]
    split at hn
    · rename_i p hpf
      simp only [Bool.or_eq_false_iff, decide_eq_false_iff_not] at hn
      rw [hpf]
      split
      · rename_i h6; simp only [Option.some.injEq] at h6; exact absurd h6 hn.1
      · rename_i h17; simp only [Option.some.injEq] at h17; exact absurd h17 hn.2
      · rfl
    · rename_i hpf
      rw [hpf]

/-- **C03, exact port rule** (frame level).  `stunBumps d` = number of change-port CHANGE-REQUESTs
    the STUN responder finds in `d`. -/
theorem port_rule_exact {cfg : Cfg} {env : Env} {st : Table} {f r : Bytes} (hm : cfg.mac.length = 6)
    (h : (step cfg env st f).out = .ok (some r)) :
    (mirrors cfg f r 0 = true ∧ (u8 (appPayload r) 0 = 1 → u8 (appPayload f) 0 = 1)) ∨
    (mirrors cfg f r (stunBumps (appPayload f)) = true ∧ StunAnswered (appPayload f) ∧
      u8 (appPayload r) 0 = 1 ∧ u8 (appPayload r) 1 = 1 ∧ isTcpUdp f = true) := by
  cases htu : isTcpUdp f with
  | false =>
    have h0 := C03.reply_mirrors_non_l4 cfg env st f r hm h htu
    refine .inl ⟨h0, ?_⟩
    rw [appPayload_nil_of_mirrors h0 htu]
    intro hc; simp [u8] at hc
  | true =>
    obtain ⟨k0, hk0⟩ : ∃ k0, mirrors cfg f r k0 = true := by
      rcases C03.reply_port_rule cfg env st f r hm h with h0 | ⟨h0, -⟩
      · exact ⟨0, h0⟩
      · exact ⟨_, h0⟩
    obtain ⟨pr, hpr, h617⟩ : ∃ pr, ipProto f = some pr ∧ (pr = 6 ∨ pr = 17) := by
      unfold isTcpUdp at htu
      split at htu
      · rename_i p hp
        exact ⟨p, hp, by simpa using htu⟩
      · cases htu
    obtain ⟨hprr, hql, hlen, hdoff, k, p2, p0, hcase⟩ := step_R hm h hpr h617
    have hne : be16 f 12 ≠ 0x0806 := by
      intro he; rw [ipProto_arp he] at hpr; cases hpr
    -- the reply's application payload, byte by byte
    have hrp : ∀ i, u8 (appPayload r) i = u8 (l4Bytes r) ((if pr = 6 then 20 else 8) + i) := by
      intro i
      rcases h617 with rfl | rfl
      · rw [appPayload_tcp hprr]
        have h5 := hdoff rfl
        unfold tcpPayload
        rw [at8_eq_u8, if_neg (by omega), u8_drop]; rfl
      · rw [appPayload_udp hprr, u8_drop]; rfl
    -- the offset found by `step_R` is a mirror offset
    have hmk : mirrors cfg f r k = true := by
      have e1 := E2E.Br.mirrors_port cfg f r k0 hk0 hne htu
      have e2 := E2E.Br.be16_l4Bytes r 0 (by rcases h617 with rfl | rfl <;> simp at hlen <;> omega)
      have e3 := E2E.Br.be16_l4Bytes f 2 (by rcases h617 with rfl | rfl <;> simp at hql <;> omega)
      rw [Nat.add_zero] at e2
      have key : (be16 f (l4Off f + 2) + k) % 65536 = (be16 f (l4Off f + 2) + k0) % 65536 := by
        rw [← e1, ← e2, p0, e3]
      rw [E2E.Br.mirrors_congr cfg f r k k0 key]; exact hk0
    have hr0 := hrp 0
    have hr1 := hrp 1
    rw [Nat.add_zero] at hr0
    rcases hcase with ⟨rfl, hfb⟩ | ⟨rfl, hsa, hb0, hb1⟩
    · exact .inl ⟨hmk, fun hc => hfb (by rw [← hr0]; exact hc)⟩
    · exact .inr ⟨hmk, hsa, by rw [hr0]; exact hb0, by rw [hr1]; exact hb1, rfl⟩

/-- two offsets below 2^16 that both mirror a TCP/UDP request are equal -/
theorem mirrors_unique {cfg : Cfg} {f r : Bytes} {a b : Nat} (ha : mirrors cfg f r a = true)
    (hb : mirrors cfg f r b = true) (htu : isTcpUdp f = true) (ha64 : a < 65536) (hb64 : b < 65536) :
    a = b := by
  have hne : be16 f 12 ≠ 0x0806 := by
    intro he
    simp [isTcpUdp, ipProto_arp he] at htu
  have e1 := E2E.Br.mirrors_port cfg f r a ha hne htu
  have e2 := E2E.Br.mirrors_port cfg f r b hb hne htu
  have := E2E.Br.be16_lt' f (l4Off f + 2)
  omega

/-- the STUN responder answers only messages whose first byte is even -/
theorem stunAnswered_first {d : Bytes} (h : StunAnswered d) : u8 d 0 ≠ 1 := by
  obtain ⟨req, hp, hc, _⟩ := h
  unfold stunParse at hp
  split at hp
  · cases hp
  dsimp only at hp
  split at hp
  · cases hp
  split at hp
  · cases hp
  split at hp
  · cases hp
  · simp only [Except.ok.injEq, Option.some.injEq] at hp
    subst hp
    simp only [at8_eq_u8] at hc
    omega

end Masscanned.J1
