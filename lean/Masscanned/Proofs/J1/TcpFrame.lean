/-
  Proofs/J1/TcpFrame — frame level (`step`) for ANY deliverable TCP frame: the outcome of `step` is
  the outcome of `tcpRepl` on `Spec.l4Bytes f`; a reply frame carries, where `Spec.replyTcp` looks
  for it, the segment `tcpRepl` produced with its checksum field filled in.
  Used by Thm/C06Judge.
-/
import Masscanned.Proofs.E2E.FrameTcp
import Masscanned.Spec.Judge
namespace Masscanned.J1
open Masscanned Masscanned.C12 Masscanned.E2E.Fr

/-- the client information layer 3 hands to `tcp::repl` -/
def ciL4 (v6 : Bool) (f : Bytes) : ClientInfo :=
  { macSrc := some (slice f 6 6), macDst := some (slice f 0 6),
    ipSrc := some (if v6 then .v6 (Spec.sub f 22 16) else .v4 (Spec.sub f 26 4)),
    ipDst := some (if v6 then .v6 (Spec.sub f 38 16) else .v4 (Spec.sub f 30 4)),
    transport := some 6 }

/-! ### `setU16` at offset 16 of a segment of at least 20 bytes leaves the fields C06 reads alone -/

theorem u8_setU16_lt {r : Bytes} {off i : Nat} (v : Nat) (h : i < off) (hl : off ≤ r.length) :
    Spec.u8 (setU16 r off v) i = Spec.u8 r i := by
  unfold setU16
  rw [List.append_assoc, u8_append_left (by simp; omega)]
  simp [Spec.u8, List.getD_eq_getElem?_getD, h]

theorem setU16_length {r : Bytes} {off : Nat} (v : Nat) (h : off + 2 ≤ r.length) :
    (setU16 r off v).length = r.length := by
  simp [setU16, u16be]; omega

theorem seg_setU16 {rt : Bytes} (c : Nat) (h : 20 ≤ rt.length) :
    Spec.tcpFlagsOf (setU16 rt 16 c) = Spec.tcpFlagsOf rt ∧
    Spec.be32 (setU16 rt 16 c) 4 = Spec.be32 rt 4 ∧
    Spec.be32 (setU16 rt 16 c) 8 = Spec.be32 rt 8 ∧
    (setU16 rt 16 c).length = rt.length := by
  have e : ∀ i, i < 16 → Spec.u8 (setU16 rt 16 c) i = Spec.u8 rt i :=
    fun i hi => u8_setU16_lt c hi (by omega)
  refine ⟨?_, ?_, ?_, setU16_length c (by omega)⟩
  · simp only [Spec.tcpFlagsOf, e 12 (by omega), e 13 (by omega)]
  · simp only [Spec.be32, Spec.be16, e 4 (by omega), e 5 (by omega), e 6 (by omega), e 7 (by omega)]
  · simp only [Spec.be32, Spec.be16, e 8 (by omega), e 9 (by omega), e 10 (by omega), e 11 (by omega)]

/-- every segment `tcpRepl` emits has at least the 20 header bytes -/
theorem tcpRepl_out_len {cfg : Cfg} {env : Env} {st st' : Table} {ci ci' : ClientInfo} {p rt : Bytes}
    {evs : List Ev} (h : tcpRepl cfg env st ci p = .ok (evs, ci', st', some rt)) : 20 ≤ rt.length := by
  have hc := tcpRepl_inv h
  generalize hout : some rt = out at hc
  cases hc with
  | nodata hd =>
    unfold nodataRes at hout
    split at hout
    · cases hout
    · split at hout
      · cases hout
      · split at hout
        · cases hout; rw [tcpHdr_append_length]; omega
        · split at hout
          · cases hout; rw [tcpHdr_append_length]; omega
          · cases hout
  | badAck => cases hout
  | first _ _ _ _ _ r _ =>
    unfold dataOut at hout
    cases r <;> (cases hout; rw [tcpHdr_append_length]; omega)
  | known _ _ _ _ _ r _ =>
    unfold dataOut at hout
    cases r <;> (cases hout; rw [tcpHdr_append_length]; omega)

/-- what the judge needs to know about the outcome of a deliverable TCP frame -/
def TcpOut (o : Option Bytes) (ot : Option Bytes) : Prop :=
  match ot with
  | none => o = none
  | some rt => ∃ r c, o = some r ∧ Spec.replyTcp r = some (setU16 rt 16 c) ∧ 20 ≤ rt.length

theorem drop34 (E H L : Bytes) (hE : E.length = 14) (hH : H.length = 20) : (E ++ (H ++ L)).drop 34 = L := by
  have hl : (E ++ H).length = 34 := by simp [hE, hH]
  rw [← List.append_assoc, ← hl, List.drop_left]

theorem drop54 (E H L : Bytes) (hE : E.length = 14) (hH : H.length = 40) : (E ++ (H ++ L)).drop 54 = L := by
  have hl : (E ++ H).length = 54 := by simp [hE, hH]
  rw [← List.append_assoc, ← hl, List.drop_left]

theorem tcp_out_v4 {cfg : Cfg} {env : Env} {st : Table} {f : Bytes} {o : Option Bytes}
    (hm : cfg.mac.length = 6) (hd : Spec.deliverable cfg f false 6 20 = true)
    (h : (step cfg env st f).out = .ok o) :
    ∃ evs ci' st' ot, tcpRepl cfg env st (ciL4 false f) (Spec.l4Bytes f) = .ok (evs, ci', st', ot) ∧
      TcpOut o ot := by
  obtain ⟨hl34, -, he, -, -, -, h20⟩ := deliverable4_elim hd
  have h20' : ¬ (Spec.l4Bytes f).length < 20 := by omega
  have hs : (Spec.sub f 26 4).length = 4 := by simp [Spec.sub]; omega
  have hdl : (Spec.sub f 30 4).length = 4 := by simp [Spec.sub]; omega
  rw [step_out_v4 hd, ipv4Repl_deliverable env st _ hd] at h
  simp only [ipv4Deliver, show ¬ (6 = 1) by decide, if_false, if_true, h20'] at h
  have hci : ({ ({ ci0 f with ipSrc := some (.v4 (Spec.sub f 26 4)), ipDst := some (.v4 (Spec.sub f 30 4)) } :
      ClientInfo) with transport := some 6 } : ClientInfo) = ciL4 false f := rfl
  rw [hci] at h
  generalize hR : tcpRepl cfg env st (ciL4 false f) (Spec.l4Bytes f) = R at h
  rcases R with e | ⟨evs, ci', st', _ | rt⟩
  · simp [l3Out] at h
  · refine ⟨evs, ci', st', none, rfl, ?_⟩
    simp only [l3Out, Option.map_none, Except.ok.injEq] at h
    exact h.symm
  · refine ⟨evs, ci', st', some rt, rfl, ?_⟩
    simp only at h
    split at h
    · simp [l3Out] at h
    · rename_i hlen
      simp only [l3Out, Option.map_some, Except.ok.injEq] at h
      generalize csumPseudo (Spec.sub f 30 4) (Spec.sub f 26 4) 6 rt = c at h hlen
      have hL : 20 + (setU16 rt 16 c).length ≤ 65535 := by omega
      obtain ⟨-, r12, -, r23, -⟩ := reply_v4_frame cfg f (Spec.sub f 30 4) (Spec.sub f 26 4)
        (setU16 rt 16 c) 6 hm (by omega) he hdl hs hL
      refine ⟨_, c, h.symm, ?_, tcpRepl_out_len hR⟩
      unfold Spec.replyTcp
      rw [if_pos ⟨r12, r23⟩, ethWrap_eq,
        drop34 _ _ _ (ethHdr_length cfg f hm (by omega)) (ipv4Hdr_length _ _ _ _ hdl hs)]

theorem tcp_out_v6 {cfg : Cfg} {env : Env} {st : Table} {f : Bytes} {o : Option Bytes}
    (hm : cfg.mac.length = 6) (hd : Spec.deliverable cfg f true 6 20 = true)
    (h : (step cfg env st f).out = .ok o) :
    ∃ evs ci' st' ot, tcpRepl cfg env st (ciL4 true f) (Spec.l4Bytes f) = .ok (evs, ci', st', ot) ∧
      TcpOut o ot := by
  obtain ⟨hl54, -, he, -, -, -, h20⟩ := deliverable6_elim hd
  have h20' : ¬ (Spec.l4Bytes f).length < 20 := by omega
  have hs : (Spec.sub f 22 16).length = 16 := by simp [Spec.sub]; omega
  have hdl : (Spec.sub f 38 16).length = 16 := by simp [Spec.sub]; omega
  rw [step_out_v6 hd, ipv6Repl_deliverable env st _ hd] at h
  simp only [ipv6Deliver, show ¬ (6 = 58) by decide, if_false, if_true, h20'] at h
  have hci : ({ ({ ci0 f with ipSrc := some (.v6 (Spec.sub f 22 16)), ipDst := some (.v6 (Spec.sub f 38 16)) } :
      ClientInfo) with transport := some 6 } : ClientInfo) = ciL4 true f := rfl
  rw [hci] at h
  generalize hR : tcpRepl cfg env st (ciL4 true f) (Spec.l4Bytes f) = R at h
  rcases R with e | ⟨evs, ci', st', _ | rt⟩
  · simp [l3Out] at h
  · refine ⟨evs, ci', st', none, rfl, ?_⟩
    simp only [l3Out, Option.map_none, Except.ok.injEq] at h
    exact h.symm
  · refine ⟨evs, ci', st', some rt, rfl, ?_⟩
    simp only at h
    split at h
    · simp [l3Out] at h
    · rename_i hlen
      simp only [l3Out, Option.map_some, Except.ok.injEq] at h
      generalize csumPseudo (Spec.sub f 38 16) (Spec.sub f 22 16) 6 rt = c at h hlen
      have hL : (setU16 rt 16 c).length ≤ 65535 := by omega
      obtain ⟨-, r12, -, r20, -, -⟩ := reply_v6_frame cfg f (Spec.sub f 38 16) (Spec.sub f 22 16)
        (setU16 rt 16 c) 6 64 hm (by omega) he hdl hs hL
      refine ⟨_, c, h.symm, ?_, tcpRepl_out_len hR⟩
      unfold Spec.replyTcp
      rw [if_neg (by rw [r12]; simp), if_pos ⟨r12, r20⟩, ethWrap_eq,
        drop54 _ _ _ (ethHdr_length cfg f hm (by omega)) (ipv6Hdr_length _ _ _ _ _ hdl hs)]

/-- both IP versions -/
theorem tcp_out {cfg : Cfg} {env : Env} {st : Table} {f : Bytes} {o : Option Bytes} (v6 : Bool)
    (hm : cfg.mac.length = 6) (hd : Spec.deliverable cfg f v6 6 20 = true)
    (h : (step cfg env st f).out = .ok o) :
    ∃ evs ci' st' ot, tcpRepl cfg env st (ciL4 v6 f) (Spec.l4Bytes f) = .ok (evs, ci', st', ot) ∧
      TcpOut o ot := by
  cases v6 with
  | false => exact tcp_out_v4 hm hd h
  | true => exact tcp_out_v6 hm hd h

/-- the judge's `tcpDelivered`, spelled out -/
theorem tcpDelivered_some {cfg : Cfg} {f : Bytes} {fl : Spec.Flow} {t : Bytes}
    (h : Spec.tcpDelivered cfg f = some (fl, t)) :
    ∃ v6 : Bool, Spec.deliverable cfg f v6 6 20 = true ∧ t = Spec.l4Bytes f ∧
      (ciL4 v6 f).ipSrc = some (Spec.ipOf fl.src) ∧ (ciL4 v6 f).ipDst = some (Spec.ipOf fl.dst) ∧
      fl.sport = Spec.be16 t 0 ∧ fl.dport = Spec.be16 t 2 := by
  unfold Spec.tcpDelivered at h
  simp only at h
  split at h
  · rename_i hd
    refine ⟨decide (Spec.be16 f 12 = 0x86dd), hd, ?_⟩
    obtain ⟨hlen, -, -, -, hs, hdst⟩ := deliverable_facts hd
    rw [hs, hdst] at h
    simp only [Option.some.injEq, Prod.mk.injEq] at h
    obtain ⟨rfl, rfl⟩ := h
    refine ⟨rfl, ?_, ?_, rfl, rfl⟩
    · by_cases h6 : Spec.be16 f 12 = 0x86dd
      · have : (Spec.sub f 22 16).length ≠ 4 := by
          simp only [h6, decide_true, if_true] at hlen; simp [Spec.sub]; omega
        simp [ciL4, h6, Spec.ipOf, Ip.bytes, this]
      · have : (Spec.sub f 26 4).length = 4 := by
          simp only [h6, decide_false, Bool.false_eq_true, if_false] at hlen; simp [Spec.sub]; omega
        simp [ciL4, h6, Spec.ipOf, Ip.bytes, this]
    · by_cases h6 : Spec.be16 f 12 = 0x86dd
      · have : (Spec.sub f 38 16).length ≠ 4 := by
          simp only [h6, decide_true, if_true] at hlen; simp [Spec.sub]; omega
        simp [ciL4, h6, Spec.ipOf, Ip.bytes, this]
      · have : (Spec.sub f 30 4).length = 4 := by
          simp only [h6, decide_false, Bool.false_eq_true, if_false] at hlen; simp [Spec.sub]; omega
        simp [ciL4, h6, Spec.ipOf, Ip.bytes, this]
  · cases h

end Masscanned.J1
