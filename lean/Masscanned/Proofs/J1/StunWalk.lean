/-
  Proofs/J1/StunWalk — the attribute walk of the judge (`Spec.stunChangePorts`, fallback branch of
  `Spec.judgeC03`) against the attribute loop of the STUN responder (`stunAttrs`):
  * on the SAME buffer with the SAME fuel the two walks count the same change-port CHANGE-REQUESTs
    (`bumps_eq_walk`);
  * the judge's walk does not depend on the fuel once the fuel exceeds a quarter of the buffer
    (`walk_fuel`);
  * hence `stunBumps d` = the walk over the announced attribute area (`stunBumps_eq_walk`), which is
    what the fallback branch of the judge computes (`(pl.drop 20).take (be16 pl 2)`, fuel `be16 pl 2 + 1`).
-/
import Masscanned.Proofs.C15.Repl
import Masscanned.Proofs.C0203.Net
import Masscanned.Spec.Judge
namespace Masscanned.J1
open Masscanned Spec

/-- one attribute, whatever its padding: the model's `try_from`, when it succeeds, returns the declared
    length and classifies a change-port CHANGE-REQUEST as the judge's walk does -/
theorem stunAttr_spec {a : Bytes} {x : StunAttr} {len : Nat} (h : stunAttr a = some (x, len)) :
    len = be16 a 2 ∧
    (x = .changeRequest true ↔ (be16 a 0 = 3 ∧ be16 a 2 ≥ 4 ∧ be32 a 4 / 2 % 2 = 1)) := by
  unfold stunAttr at h
  split at h
  · cases h
  rename_i h4
  have e0 : rdBE (slice a 0 2) = be16 a 0 := rdBE_slice2 (by omega)
  have e2 : rdBE (slice a 2 2) = be16 a 2 := rdBE_slice2 (by omega)
  simp only [e0, e2] at h
  split at h
  · cases h
  rename_i hfit
  split at h
  · rename_i hc
    simp only [Option.some.injEq, Prod.mk.injEq] at h
    obtain ⟨rfl, rfl⟩ := h
    exact ⟨rfl, ⟨fun hh => (by cases hh), fun hh => (by have := hh.1; have := hc.1; omega)⟩⟩
  split at h
  · rename_i hc
    simp only [Option.some.injEq, Prod.mk.injEq] at h
    obtain ⟨rfl, rfl⟩ := h
    exact ⟨rfl, ⟨fun hh => (by cases hh), fun hh => (by have := hh.1; have := hc.1; omega)⟩⟩
  split at h
  · rename_i hc
    simp only [Option.some.injEq, Prod.mk.injEq] at h
    obtain ⟨rfl, rfl⟩ := h
    have e4 : rdBE (slice a 4 4) = be32 a 4 := rdBE_slice4' (by omega)
    rw [e4]
    refine ⟨rfl, ?_⟩
    constructor
    · intro hh
      simp only [StunAttr.changeRequest.injEq, decide_eq_true_eq] at hh
      exact ⟨hc.1, hc.2, hh⟩
    · intro hh
      simp [hh.2.2]
  · rename_i hc
    simp only [Option.some.injEq, Prod.mk.injEq] at h
    obtain ⟨rfl, rfl⟩ := h
    refine ⟨rfl, ?_⟩
    constructor
    · intro hh; cases hh
    · intro hh; exact absurd ⟨hh.1, hh.2.1⟩ hc

/-- same buffer, same fuel: the responder's loop and the judge's walk count the same -/
theorem bumps_eq_walk : ∀ (fuel : Nat) (a : Bytes) (l : List StunAttr),
    stunAttrs fuel a = some l → bumps l = stunChangePorts fuel a := by
  intro fuel
  induction fuel with
  | zero => intro a l h; simp only [stunAttrs, Option.some.injEq] at h; subst h; rfl
  | succ n ih =>
    intro a l h
    unfold stunAttrs at h
    unfold stunChangePorts
    split at h
    · rename_i hgt
      rw [if_neg (by omega)]
      split at h
      · cases h
      · rename_i x len hx
        split at h
        · cases h
        · rename_i l' hrec
          simp only [Option.some.injEq] at h
          subst h
          obtain ⟨rfl, hiff⟩ := stunAttr_spec hx
          have := ih _ _ hrec
          simp only
          rw [← this]
          unfold bumps
          simp only [List.filter_cons]
          by_cases hc : x = StunAttr.changeRequest true
          · rw [if_pos (hiff.mp hc)]; simp [hc]; omega
          · rw [if_neg (fun hh => hc (hiff.mpr hh))]; simp [hc]
    · rename_i hle
      simp only [Option.some.injEq] at h
      subst h
      rw [if_pos (by omega)]; rfl

/-- the judge's walk is independent of the fuel once every step (≥ 4 bytes) is paid for -/
theorem walk_fuel : ∀ (n m : Nat) (a : Bytes), a.length ≤ 4 * n → a.length ≤ 4 * m →
    stunChangePorts n a = stunChangePorts m a := by
  intro n
  induction n with
  | zero =>
    intro m a hn hm
    have : a.length ≤ 4 := by omega
    cases m with
    | zero => rfl
    | succ m => unfold stunChangePorts; rw [if_pos this]
  | succ n ih =>
    intro m a hn hm
    cases m with
    | zero =>
      have : a.length ≤ 4 := by omega
      unfold stunChangePorts; rw [if_pos this]
    | succ m =>
      unfold stunChangePorts
      by_cases h4 : a.length ≤ 4
      · rw [if_pos h4, if_pos h4]
      · rw [if_neg h4, if_neg h4]
        simp only
        rw [ih m _ (by simp; omega) (by simp; omega)]

/-- what `stunParse` accepted -/
theorem stunParse_some {d : Bytes} {req : StunReq} (h : stunParse d = .ok (some req)) :
    20 + be16 d 2 ≤ d.length ∧ 20 + be16 d 2 ≤ 65535 ∧
    stunAttrs (be16 d 2 + 1) (sub d 20 (be16 d 2)) = some req.attrs := by
  unfold stunParse at h
  split at h
  · cases h
  rename_i h20
  have e2 : rdBE (slice d 2 2) = be16 d 2 := rdBE_slice2 (by omega)
  simp only [e2] at h
  split at h
  · cases h
  split at h
  · cases h
  split at h
  · cases h
  · rename_i attrs ha
    simp only [Except.ok.injEq, Option.some.injEq] at h
    subst h
    exact ⟨by omega, by omega, ha⟩

/-- the port offset of the STUN responder = the judge's walk over the ANNOUNCED attribute area -/
theorem stunBumps_eq_walk {d : Bytes} {req : StunReq} (h : stunParse d = .ok (some req)) :
    stunBumps d = stunChangePorts (be16 d 2 + 1) (sub d 20 (be16 d 2)) := by
  have := bumps_eq_walk _ _ _ (stunParse_some h).2.2
  simp only [stunBumps, h]
  exact this

theorem walk_le_fuel : ∀ (n : Nat) (a : Bytes), stunChangePorts n a ≤ n := by
  intro n
  induction n with
  | zero => intro a; simp [stunChangePorts]
  | succ n ih =>
    intro a
    unfold stunChangePorts
    split
    · omega
    · have := ih (a.drop (4 + (be16 a 2 + 3) / 4 * 4))
      simp only
      split <;> omega

/-- the offset is 0, or the responder parsed the message and the offset is the walk over the announced
    attribute area; it is always below 2^16 -/
theorem stunBumps_cases (d : Bytes) :
    stunBumps d < 65536 ∧
    (stunBumps d = 0 ∨ stunBumps d = stunChangePorts (be16 d 2 + 1) (sub d 20 (be16 d 2))) := by
  cases hp : stunParse d with
  | error e => simp [stunBumps, hp]
  | ok o =>
    cases o with
    | none => simp [stunBumps, hp]
    | some req =>
      have e := stunBumps_eq_walk hp
      have hb := (stunParse_some hp).2.1
      have := walk_le_fuel (be16 d 2 + 1) (sub d 20 (be16 d 2))
      exact ⟨by omega, .inr e⟩

end Masscanned.J1
