/-
  Proofs/J1/FirstByte — refinement of `PortRule` (Proofs/C0203/Net): what a protocol handler does to
  the client info AND how its reply starts.

  * the STUN responder, when it answers, adds `stunBumps d` to the destination port and its reply
    starts with `01 01`;
  * every other responder leaves the client info alone, and its reply starts with the byte `01` only
    if the request does (HTTP 'H', SSH 'S', Gh0st 'G', SMB `00`, ONC-RPC/TCP a record mark ≥ 0x80;
    ONC-RPC/UDP and DNS echo the first bytes of the request: xid / id).
  Used by Thm/C03Judge (the strict STUN port rule of `Spec.judgeC03`).
-/
import Masscanned.Proofs.C12.Shapes
import Masscanned.Proofs.C16.Parse
import Masscanned.Proofs.C0203.Net
namespace Masscanned.J1
open Masscanned Spec

/-- a reply that starts with `01` answers a request that starts with `01` -/
def FirstByte (r : Option Bytes) (d : Bytes) : Prop := ∀ t, r = some (1 :: t) → u8 d 0 = 1

/-- the STUN responder parses `d` as a Binding Request (its own notion of class and method) -/
def StunAnswered (d : Bytes) : Prop := ∃ req, stunParse d = .ok (some req) ∧ req.cls = 0 ∧ req.method = 1

def PortRule2 (ci ci' : ClientInfo) (r : Option Bytes) (d : Bytes) : Prop :=
  (ci' = ci ∧ FirstByte r d) ∨
  (ci' = { ci with portDst := ci.portDst.map (fun p => (p + stunBumps d) % 65536) } ∧ StunAnswered d ∧
   ∃ t, r = some (1 :: 1 :: t))

theorem pr_none (ci : ClientInfo) (d : Bytes) : PortRule2 ci ci none d :=
  .inl ⟨rfl, fun _ h => by cases h⟩

theorem pr_of_ne (ci : ClientInfo) (d : Bytes) {r : Option Bytes} (h : ∀ t, r ≠ some (1 :: t)) :
    PortRule2 ci ci r d :=
  .inl ⟨rfl, fun t ht => absurd ht (h t)⟩

/-! ### the responders one by one -/

theorem stunRepl_shape2 {ci ci' : ClientInfo} {d : Bytes} {r : Option Bytes}
    (h : stunRepl ci d = .ok (ci', r)) : PortRule2 ci ci' r d := by
  unfold stunRepl at h
  split at h
  · cases h
  · cases h; exact pr_none _ _
  · rename_i req hp
    split at h
    · cases h; exact pr_none _ _
    · rename_i hc
      split at h
      · cases h; exact pr_none _ _
      · rename_i hm
        split at h
        · cases h
          refine .inr ⟨?_, ⟨req, hp, by simpa using hc, by simpa using hm⟩, _, rfl⟩
          simp [stunBumps, hp]
        · cases h; exact pr_none _ _

theorem http_isHttp {env : Env} {s s' : HttpSt} {d x : Bytes}
    (h : httpRepl env s d = .ok (s', some x)) : C12.IsHttp x := by
  unfold httpRepl at h
  split at h
  · cases h
  · split at h
    · simp only [Except.ok.injEq, Prod.mk.injEq, Option.some.injEq] at h
      exact ⟨env, h.2.symm⟩
    · simp only [Except.ok.injEq, Prod.mk.injEq] at h
      exact absurd h.2 (by simp)

theorem pr_http {env : Env} {s s' : HttpSt} {d : Bytes} {r : Option Bytes} (ci : ClientInfo)
    (h : httpRepl env s d = .ok (s', r)) : PortRule2 ci ci r d := by
  apply pr_of_ne
  intro t ht
  subst ht
  obtain ⟨rest, hr⟩ := C12.http_shape (http_isHttp h)
  simp [C12.httpHead] at hr

theorem pr_ssh {d : Bytes} {r : Option Bytes} (ci : ClientInfo) (h : sshRepl d = .ok r) :
    PortRule2 ci ci r d := by
  apply pr_of_ne
  intro t ht
  subst ht
  unfold sshRepl at h
  split at h
  · cases h
  · simp only [Except.ok.injEq] at h
    split at h
    · have : sshBanner = 83 :: "SH-2.0-1\r\n".toUTF8.toList := by decide +kernel
      rw [this] at h; cases h
    · cases h

theorem pr_ghost (ci : ClientInfo) (d : Bytes) : PortRule2 ci ci (some Gen.ghostReply) d := by
  apply pr_of_ne
  intro t ht
  have : (Gen.ghostReply.head?) = some 71 := by decide +kernel
  simp only [Option.some.injEq] at ht
  rw [ht] at this; cases this

theorem pr_rpcTcp {ovf : Bool} {s s' : RpcSt} {ci0 : ClientInfo} {d : Bytes} {r : Option Bytes}
    (ci : ClientInfo) (h : rpcReplTcp ovf s ci0 d = .ok (s', r)) : PortRule2 ci ci r d := by
  apply pr_of_ne
  intro t ht
  subst ht
  obtain ⟨m0, m1, m2, m3, x0, x1, x2, x3, x, t', hm, hr⟩ := C12.rpc_tcp_shape ⟨ovf, s, s', ci0, d, h⟩
  simp only [List.cons_append, List.cons.injEq] at hr
  rw [← hr.1] at hm
  simp at hm

theorem pr_smb1 (ci : ClientInfo) (env : Env) (d : Bytes) : PortRule2 ci ci (smb1Repl env d) d := by
  apply pr_of_ne
  intro t ht
  obtain ⟨l2, l3, cmd, rest, _, _, hr⟩ := C12.smb1_shape ⟨env, d, ht⟩
  simp at hr

theorem pr_smb2 (ci : ClientInfo) (env : Env) (d : Bytes) : PortRule2 ci ci (smb2Repl env d) d := by
  apply pr_of_ne
  intro t ht
  obtain ⟨l2, l3, c0, c1, rest, _, hr⟩ := C12.smb2_shape ⟨env, d, ht⟩
  simp at hr

/-! ### ONC-RPC over UDP echoes the xid = the first four bytes of the datagram -/

theorem rpcByte_xid {ovf : Bool} {s s' : RpcSt} {b : UInt8} (h1 : s.state ≠ .frag) (h2 : s.state ≠ .xid)
    (h : rpcByte ovf s b = .ok s') : s'.xid = s.xid ∧ s'.state ≠ .frag ∧ s'.state ≠ .xid := by
  obtain ⟨st, lf, fl, xid, mt, rv, prog, pv, proc, cf, vf, cur, dl⟩ := s
  simp only at h1 h2
  unfold rpcByte at h
  cases st <;> simp only [] at h h1 h2
  all_goals try contradiction
  all_goals (repeat' split at h)
  all_goals first
    | (cases h; done)
    | (simp only [Except.ok.injEq] at h; subst h; simp [rpcAdvance]; try (split <;> simp))

theorem rpcParse_xid {ovf : Bool} {s s' : RpcSt} {d : Bytes} (h1 : s.state ≠ .frag) (h2 : s.state ≠ .xid)
    (h : rpcParse ovf s d = .ok s') : s'.xid = s.xid := by
  induction d generalizing s with
  | nil => simp only [rpcParse, Except.ok.injEq] at h; rw [← h]
  | cons b t ih =>
    rw [rpcParse] at h
    split at h
    · cases h
    · rename_i s1 hb
      obtain ⟨e, n1, n2⟩ := rpcByte_xid h1 h2 hb
      rw [ih n1 n2 h, e]

theorem rpcReplUdp_first {ovf : Bool} {ci0 : ClientInfo} {d x : Bytes}
    (h : rpcReplUdp ovf ci0 d = .ok (some x)) : u8 x 0 = u8 d 0 := by
  unfold rpcReplUdp at h
  split at h
  · cases h
  · rename_i s' hp
    split at h
    · rename_i hdone
      split at h
      · cases h
      · rename_i resp hb
        simp only [Except.ok.injEq, Option.some.injEq] at h
        subst h
        obtain ⟨y, t, rfl⟩ := C12.rpcBuild_shape hb
        have short : ∀ {s0 : RpcSt} {l : Bytes}, s0.state = .xid → s0.curLen = 0 → s0.xid = 0 → l.length < 4 →
            rpcParse ovf s0 l = .ok s' → False := by
          intro s0 l e1 e2 e3 hl hp
          obtain ⟨st, lf, fl, xid, mt, rv, prog, pv, proc, cf, vf, cur, dl⟩ := s0
          simp only at e1 e2 e3; subst e1 e2 e3
          rcases l with _ | ⟨b0, _ | ⟨b1, _ | ⟨b2, _ | ⟨b3, t'⟩⟩⟩⟩
          · simp only [rpcParse, Except.ok.injEq] at hp; rw [← hp] at hdone; cases hdone
          · have := b0.toNat_lt
            simp (disch := omega) [rpcParse, rpcByte, rpcAdvance, C16.rpcAcc_lt] at hp
            rw [← hp] at hdone; cases hdone
          · have := b0.toNat_lt; have := b1.toNat_lt
            simp (disch := omega) [rpcParse, rpcByte, rpcAdvance, C16.rpcAcc_lt] at hp
            rw [← hp] at hdone; cases hdone
          · have := b0.toNat_lt; have := b1.toNat_lt; have := b2.toNat_lt
            simp (disch := omega) [rpcParse, rpcByte, rpcAdvance, C16.rpcAcc_lt] at hp
            rw [← hp] at hdone; cases hdone
          · simp at hl; omega
        rcases d with _ | ⟨b0, _ | ⟨b1, _ | ⟨b2, _ | ⟨b3, t'⟩⟩⟩⟩
        · exact (short rfl rfl rfl (by simp) hp).elim
        · exact (short rfl rfl rfl (by simp) hp).elim
        · exact (short rfl rfl rfl (by simp) hp).elim
        · exact (short rfl rfl rfl (by simp) hp).elim
        · rw [C16.read4_xid ovf _ b0 b1 b2 b3 t' rfl rfl rfl] at hp
          have hx := rpcParse_xid (by simp) (by simp) hp
          simp only at hx
          have := b0.toNat_lt; have := b1.toNat_lt; have := b2.toNat_lt; have := b3.toNat_lt
          simp only [hx, C16.acc4, u32be, u8, byte, List.cons_append, List.getD_cons_zero, UInt8.toNat_ofNat']
          omega
    · cases h

theorem pr_rpcUdp {ovf : Bool} {ci0 : ClientInfo} {d : Bytes} {r : Option Bytes} (ci : ClientInfo)
    (h : rpcReplUdp ovf ci0 d = .ok r) : PortRule2 ci ci r d := by
  refine .inl ⟨rfl, fun t ht => ?_⟩
  subst ht
  have := rpcReplUdp_first h
  simpa [u8] using this.symm

/-! ### DNS echoes the id = the first two bytes of the datagram -/

theorem pr_dns {ci0 : ClientInfo} {d x : Bytes} {m : DnsMsg} (ci : ClientInfo)
    (hm : dnsParse d = some m) (h : dnsRepl ci0 m = some x) : PortRule2 ci ci (some x) d := by
  refine .inl ⟨rfl, fun t ht => ?_⟩
  simp only [Option.some.injEq] at ht
  subst ht
  obtain ⟨_, hid, -⟩ := C14.dnsParse_some hm
  unfold dnsRepl at h
  split at h
  · cases h
  · split at h
    · simp only [Option.some.injEq, u16be, List.cons_append, List.nil_append, List.cons.injEq] at h
      have h0 := h.1
      have := u8_lt d 0; have := u8_lt d 1
      rw [hid, be16] at h0
      simp only [Nat.zero_add] at h0
      have e : (byte ((u8 d 0 * 256 + u8 d 1) / 256)).toNat = 1 := by rw [h0]; rfl
      simp only [byte, UInt8.toNat_ofNat'] at e
      omega
    · cases h

/-! ### the dispatcher -/

theorem protoHandle_shape2 {cfg : Cfg} {env : Env} {id : Nat} {ci ci' : ClientInfo} {tcb tcb' : Option Tcb}
    {d : Bytes} {r : Option Bytes}
    (h : protoHandle cfg env id ci tcb d = .ok (ci', tcb', r)) : PortRule2 ci ci' r d := by
  unfold protoHandle at h
  split_all h
  all_goals first
    | (cases h; done)
    | (cases h; exact pr_none _ _)
    | (cases h; exact stunRepl_shape2 (by assumption))
    | (cases h; exact pr_http _ (by assumption))
    | (cases h; exact pr_ssh _ (by assumption))
    | (cases h; exact pr_ghost _ _)
    | (cases h; exact pr_rpcTcp _ (by assumption))
    | (cases h; exact pr_rpcUdp _ (by assumption))
    | (cases h; exact pr_smb1 _ _ _)
    | (cases h; exact pr_smb2 _ _ _)

theorem protoRepl_shape2 {cfg : Cfg} {env : Env} {ci ci' : ClientInfo} {tcb tcb' : Option Tcb}
    {d : Bytes} {r : Option Bytes}
    (h : protoRepl cfg env ci tcb d = .ok (ci', tcb', r)) : PortRule2 ci ci' r d := by
  unfold protoRepl at h
  split at h
  · cases h; exact pr_none _ _
  split at h
  · -- a control block
    split_all h
    all_goals first
      | (cases h; done)
      | exact protoHandle_shape2 h
  · -- datagram / no control block
    split at h
    · cases h
    · dsimp only at h
      split at h
      · cases h
      · rename_i id hid
        split at h
        · rename_i x hdns
          cases h
          split at hdns
          · split at hdns
            · exact pr_dns _ (by assumption) hdns
            · cases hdns
          · cases hdns
        · exact protoHandle_shape2 h

end Masscanned.J1
