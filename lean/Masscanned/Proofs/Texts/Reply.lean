/-
  Proofs/Texts/Reply — what the proofs use of `httpReplyBytes`, derived from the facts of
  Proofs/Texts/Facts only (no proof below looks at the generated text):
  the response as status line + header lines + empty line + body, its first 12 bytes, its length.
-/
import Masscanned.Proofs.Texts.Facts
namespace Masscanned.Texts
open Masscanned

theorem glue_append (A B : List Bytes) : glue (A ++ B) = glue A ++ glue B := by
  simp [glue, List.flatMap_append]

theorem glue_singleton (l : Bytes) : glue [l] = 10 :: l := by simp [glue]

theorem glue_cons (l : Bytes) (L : List Bytes) : glue (l :: L) = 10 :: (l ++ glue L) := by simp [glue]

theorem glue_nil : glue [] = [] := rfl

/-- the header lines of the response after the status line: the fixed lines, the Date line and the
    Content-Length line -/
def restLines (env : Env) : List Bytes :=
  hdrs1 ++ [datePre ++ env.httpDate] ++ hdrs2 ++ [clPre ++ natDec Gen.httpContent.length] ++ hdrs3

/-- the response: status line, header lines each introduced by LF, the empty line, the body -/
theorem httpReply_eq (env : Env) :
    httpReplyBytes env = statusLine ++ glue (restLines env) ++ 10 :: 10 :: Gen.httpContent := by
  unfold httpReplyBytes httpContent restLines
  rw [head1_eq, head2_eq, head3_eq]
  simp only [glue_append, glue_cons, glue_nil, List.append_assoc, List.cons_append, List.nil_append]

/-- the response starts with "HTTP/1.1 401" -/
theorem httpReply_status (env : Env) : ∃ rest, httpReplyBytes env = status12 ++ rest := by
  obtain ⟨t, ht⟩ := List.isPrefixOf_iff_prefix.1 status_ok
  rw [httpReply_eq, ← ht]
  exact ⟨t ++ (glue (restLines env) ++ 10 :: 10 :: Gen.httpContent), by simp only [List.append_assoc]⟩

theorem httpReply_ne_nil (env : Env) : httpReplyBytes env ≠ [] := by
  obtain ⟨rest, h⟩ := httpReply_status env
  rw [h]; simp [status12]

theorem httpReply_length (env : Env) :
    (httpReplyBytes env).length = httpFixedLen + env.httpDate.length := by
  unfold httpReplyBytes httpContent httpFixedLen
  simp only [List.length_append]
  omega

/-- C01's bound -/
theorem httpReply_length_le (env : Env) : (httpReplyBytes env).length ≤ 2000 + env.httpDate.length := by
  have := httpFixed_le
  rw [httpReply_length]; omega

end Masscanned.Texts
