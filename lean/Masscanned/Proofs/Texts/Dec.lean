/-
  Proofs/Texts/Dec — the Content-Length value: `natDec n` is a non-empty string of decimal digits that
  `Spec.parseDec` (the reader of Spec/Http) reads back as `n`, for every `n`.
-/
import Masscanned.Proofs.C20Text.Fields
import Masscanned.Spec.Http
namespace Masscanned.Texts
open Masscanned

theorem dch_digit : ∀ d, d < 10 → Spec.digit (C20Text.dch d) = true := by decide

theorem natDec_digits (n : Nat) : ∀ b ∈ natDec n, Spec.digit b = true := by
  rw [C20Text.natDec_eq]
  exact C20Text.digitsB_all 10 (by omega) (fun x => Spec.digit x = true) dch_digit n

theorem natDec_ne_nil (n : Nat) : natDec n ≠ [] := C20Text.natDec_ne_nil n

theorem digit_ne {b : UInt8} (h : Spec.digit b = true) : b ≠ 10 ∧ b ≠ 13 ∧ b ≠ 32 := by
  refine ⟨?_, ?_, ?_⟩ <;> (intro e; subst e; revert h; decide)

theorem parseDec_natDec (n : Nat) : Spec.parseDec (natDec n) = some n := by
  unfold Spec.parseDec
  have h1 := natDec_ne_nil n
  have h2 : (natDec n).all Spec.digit = true := List.all_eq_true.2 (natDec_digits n)
  have h3 : (natDec n).isEmpty = false := by
    cases h : natDec n with
    | nil => exact absurd h h1
    | cons _ _ => rfl
  rw [h3, h2]
  simp only [Bool.not_true, Bool.false_eq_true, or_self, if_false]
  have := C20Text.decFold_digits n
  rw [← C20Text.natDec_eq] at this
  exact congrArg some this

end Masscanned.Texts
