/-
  Proofs/Texts/Facts — everything the proofs require of the REGENERATED free text (`Gen/Texts.lean`):
  the HTTP 401 response text around the date and the Content-Length value, and the owner string of the
  rpcbind DUMP entries.  Each fact is a closed statement about the `Gen` definitions themselves, checked by
  kernel evaluation; no proof file mentions the text.  After a change of the text `Gen/Texts.lean` is
  regenerated and this file re-checks the facts (a text violating one of them makes THIS file fail).

  What is required (and why):
  * `head1_eq`, `head2_eq`, `head3_eq` — the header text is a status line followed by header lines, each
    introduced by one LF; `httpHead1` ends with the line start "Date: ", `httpHead2` begins with LF and ends
    with the line start "Content-Length: ", `httpHead3` begins with LF (or is empty of headers) and ends with
    the empty line LF LF.  (`Spec.reply401Ok` reads the header block line by line.)
  * `lines_clean` — no fixed header line is empty (the first empty line ends the header block) and none
    contains CR (or LF).
  * `status_ok` — the status line starts with "HTTP/1.1 401" (`Spec.reply401Ok`; `Spec.classify` and the
    C12 shape lemma need the first 7 resp. 12 bytes).
  * `challenge` — some fixed header line is a `WWW-Authenticate:` header.
  * `no_early_cl` — no fixed header line before the computed Content-Length line is a `Content-Length:` header.
  * `httpFixed_le` — the fixed text and the Content-Length digits have at most 2000 bytes (C01's reply bound).
  * `rpcOwner_le` — the owner string has at most 32 bytes (reply bound 1200 of the RPC theorems; XDR padding
    is generic).
  Nothing is required of the body.
-/
import Masscanned.Model.Http
import Masscanned.Model.Rpc
import Masscanned.Spec.Http
namespace Masscanned.Texts
open Masscanned

/-! ### vocabulary -/

/-- "HTTP/1.1 401" -/
def status12 : Bytes := [72, 84, 84, 80, 47, 49, 46, 49, 32, 52, 48, 49]
/-- "Date: " -/
def datePre : Bytes := [68, 97, 116, 101, 58, 32]
/-- "Content-Length: " -/
def clPre : Bytes := [67, 111, 110, 116, 101, 110, 116, 45, 76, 101, 110, 103, 116, 104, 58, 32]

/-- "WWW-Authenticate:" / "Content-Length:" as `Spec.headerValue` builds them -/
def wwwName : Bytes := ("WWW-Authenticate" ++ ":").toUTF8.toList
def clName : Bytes := ("Content-Length" ++ ":").toUTF8.toList

/-- the line-selection predicate of `Spec.headerValue`: `l` starts with the name `n`, case-insensitively -/
def isHdr (n l : Bytes) : Bool := decide ((l.take n.length).map Spec.lowerB = n.map Spec.lowerB)

/-- header lines, each introduced by LF -/
def glue (L : List Bytes) : Bytes := L.flatMap (fun l => 10 :: l)

/-! ### the lines of the generated text -/

def lines1 : List Bytes := Gen.httpHead1.splitOn 10
/-- first line of the response -/
def statusLine : Bytes := lines1.headD []
/-- fixed header lines before the Date line -/
def hdrs1 : List Bytes := (lines1.drop 1).dropLast
/-- fixed header lines between the Date line and the Content-Length line -/
def hdrs2 : List Bytes := ((Gen.httpHead2.splitOn 10).drop 1).dropLast
/-- fixed header lines after the Content-Length line -/
def hdrs3 : List Bytes := ((Gen.httpHead3.dropLast.dropLast).splitOn 10).drop 1

/-- the fixed header lines of the response -/
def fixedLines : List Bytes := statusLine :: (hdrs1 ++ hdrs2 ++ hdrs3)

/-- bytes of the response that do not depend on the date -/
def httpFixedLen : Nat :=
  Gen.httpHead1.length + Gen.httpHead2.length + (natDec Gen.httpContent.length).length +
    Gen.httpHead3.length + Gen.httpContent.length

/-! ### the facts (kernel-checked on the generated text) -/

theorem head1_eq : Gen.httpHead1 = statusLine ++ glue (hdrs1 ++ [datePre]) := by decide +kernel
theorem head2_eq : Gen.httpHead2 = glue (hdrs2 ++ [clPre]) := by decide +kernel
theorem head3_eq : Gen.httpHead3 = glue hdrs3 ++ [10, 10] := by decide +kernel

theorem lines_clean :
    fixedLines.all (fun l => !l.isEmpty && !l.contains 10 && !l.contains 13) = true := by decide +kernel

theorem status_ok : status12.isPrefixOf statusLine = true := by decide +kernel

theorem challenge : (hdrs1 ++ hdrs2 ++ hdrs3).any (isHdr wwwName) = true := by decide +kernel

theorem no_early_cl : (hdrs1 ++ hdrs2).any (isHdr clName) = false := by decide +kernel

theorem httpFixed_le : httpFixedLen ≤ 2000 := by decide +kernel

theorem rpcOwner_le : Gen.rpcOwner.length ≤ 32 := by decide +kernel

/-! ### facts about the vocabulary (independent of the generated text) -/

theorem status12_eq : status12 = "HTTP/1.1 401".toUTF8.toList := by decide +kernel
theorem datePre_clean : datePre ≠ [] ∧ (10 : UInt8) ∉ datePre ∧ (13 : UInt8) ∉ datePre := by decide +kernel
theorem clPre_clean : clPre ≠ [] ∧ (10 : UInt8) ∉ clPre ∧ (13 : UInt8) ∉ clPre := by decide +kernel
theorem clPre_eq : clPre = clName ++ [32] := by decide +kernel
theorem clName_length : clName.length = 15 := by decide +kernel
theorem clName_head : clName = 67 :: clName.tail := by decide +kernel
theorem datePre_head : datePre = 68 :: datePre.tail := by decide +kernel

end Masscanned.Texts
