/-
  Proofs/C17/Request — inversion of the Spec request predicates.
-/
import Masscanned.Proofs.C17.Payload
namespace Masscanned.C17
open Masscanned
open Masscanned.Spec (u8 le16 le32 sub be16)

theorem smb1Request_inv {m : Bytes} {req : Spec.Smb1Req} (h : Spec.smb1Request m = some req) :
    m.length ≥ 32 ∧ u8 m 9 < 128 ∧
    ((u8 m 4 = 0x72 ∧ ∃ ds, req = .negotiate ds ∧ ds ≠ [] ∧ (m.drop 32).length ≥ 3 ∧
        (m.drop 32).length - 3 = le16 (m.drop 32) 1 ∧
        Spec.smb1DialectList (le16 (m.drop 32) 1 + 1) ((m.drop 32).drop 3) = some ds) ∨
     (u8 m 4 = 0x73 ∧ req = .sessionSetup ∧ (m.drop 32).length ≥ 27 ∧ le16 (m.drop 32) 15 ≥ 1 ∧
        27 + le16 (m.drop 32) 15 ≤ (m.drop 32).length)) := by
  unfold Spec.smb1Request at h
  split at h
  · cases h
  rename_i h1
  split at h
  · cases h
  rename_i hfl
  dsimp only at h
  refine ⟨by omega, by omega, ?_⟩
  split at h
  · rename_i hc
    left
    split at h
    · cases h
    rename_i h3
    split at h
    · cases h
    rename_i hbc
    split at h
    · rename_i ds hds
      split at h
      · cases h
      rename_i hne
      cases h
      refine ⟨hc, ds, rfl, ?_, by omega, by omega, hds⟩
      intro h0; subst h0; simp at hne
    · cases h
  · split at h
    · rename_i hc
      right
      split at h
      · cases h
      rename_i h27
      split at h
      · rename_i hs
        cases h
        exact ⟨hc, rfl, by omega, by omega, by omega⟩
      · cases h
    · cases h

theorem smb2Request_inv {m : Bytes} {req : Spec.Smb2Req} (h : Spec.smb2Request m = some req) :
    m.length ≥ 64 ∧ le32 m 16 % 2 = 0 ∧
    ((le16 m 12 = 0 ∧ (m.drop 64).length ≥ 36 ∧ le16 (m.drop 64) 2 ≠ 0 ∧
        36 + 2 * le16 (m.drop 64) 2 ≤ (m.drop 64).length ∧
        req = .negotiate (Spec.le16List (le16 (m.drop 64) 2) ((m.drop 64).drop 36))) ∨
     (le16 m 12 = 1 ∧ req = .sessionSetup ∧ (m.drop 64).length ≥ 24 ∧ le16 (m.drop 64) 14 ≥ 1 ∧
        24 + le16 (m.drop 64) 14 ≤ (m.drop 64).length)) := by
  unfold Spec.smb2Request at h
  split at h
  · cases h
  rename_i h1
  split at h
  · cases h
  rename_i hfl
  dsimp only at h
  refine ⟨by omega, by omega, ?_⟩
  split at h
  · rename_i hc
    left
    split at h
    · cases h
    rename_i h36
    split at h
    · cases h
    rename_i hn
    cases h
    exact ⟨hc, by omega, by omega, by omega, rfl⟩
  · split at h
    · rename_i hc
      right
      split at h
      · cases h
      rename_i h24
      split at h
      · cases h
        exact ⟨hc, rfl, by omega, by omega, by omega⟩
      · cases h
    · cases h

end Masscanned.C17
