/-
  Proofs/C17/Smb2 — SMB2: dialect-list bridge (Spec.le16List ↔ model smb2Dialects), dialect choice,
  the reply header frame and the two bodies satisfy Spec.smb2ReplyOk.
-/
import Masscanned.Proofs.C17.Smb1Reply
namespace Masscanned.C17
open Masscanned
open Masscanned.Spec (u8 le16 le32 sub be16)

/-! ### dialect list -/

theorem smb2Dialects_eq : ∀ (n : Nat) (b : Bytes), 2 * n ≤ b.length →
    smb2Dialects n b = some (Spec.le16List n b)
  | 0, _, _ => by simp [smb2Dialects, Spec.le16List]
  | n + 1, [], h => by simp at h
  | n + 1, [_], h => by simp at h; omega
  | n + 1, a :: b :: t, h => by
    have ht : 2 * n ≤ t.length := by simp at h; omega
    rw [smb2Dialects, smb2Dialects_eq n t ht]
    simp [Spec.le16List, Spec.le16, Spec.u8]

theorem smb2Dialects_some_len : ∀ (n : Nat) (b : Bytes) (ds : List Nat),
    smb2Dialects n b = some ds → 2 * n ≤ b.length
  | 0, _, _, _ => by simp
  | n + 1, [], _, h => by simp [smb2Dialects] at h
  | n + 1, [_], _, h => by simp [smb2Dialects] at h
  | n + 1, a :: b :: t, ds, h => by
    rw [smb2Dialects] at h
    split at h
    · rename_i l hl
      have := smb2Dialects_some_len n t l hl
      simp; omega
    · cases h

/-- the dialect chosen by the model is supported and offered -/
theorem find_versions {ds : List Nat} {v : Nat}
    (h : smb2Versions.find? (fun v => ds.contains v) = some v) :
    ds.contains v = true ∧ Spec.smb2Supported.contains v = true ∧ v < 65536 := by
  have h1 := List.find?_some h
  have h2 : v ∈ smb2Versions := List.mem_of_find?_eq_some h
  refine ⟨h1, ?_, ?_⟩
  · simpa [Spec.smb2Supported, smb2Versions] using h2
  · simp [smb2Versions] at h2; omega

theorem find_versions_isSome {ds : List Nat} (h : ds.any Spec.smb2Supported.contains = true) :
    ∃ v, smb2Versions.find? (fun v => ds.contains v) = some v := by
  rw [List.any_eq_true] at h
  obtain ⟨x, hx, hs⟩ := h
  have : (smb2Versions.find? (fun v => ds.contains v)).isSome = true := by
    rw [List.find?_isSome]
    refine ⟨x, ?_, ?_⟩
    · simpa [Spec.smb2Supported, smb2Versions] using hs
    · simpa using hx
  exact Option.isSome_iff_exists.mp this

theorem find_versions_none {ds : List Nat} (h : ds.any Spec.smb2Supported.contains = false) :
    smb2Versions.find? (fun v => ds.contains v) = none := by
  rw [List.find?_eq_none]
  intro x hx hc
  have : ds.any Spec.smb2Supported.contains = true := by
    rw [List.any_eq_true]
    exact ⟨x, by simpa using hc, by simpa [Spec.smb2Supported, smb2Versions] using hx⟩
  rw [h] at this; cases this

/-! ### reply frame -/

/-- fixed part of the SMB2 reply header -/
def hdr2 (cmd : Nat) : Bytes :=
  [254, 83, 77, 66, 64, 0, 0, 0, 0, 0, 0, 0, byte cmd, byte (cmd / 256), 1, 0, 1, 0, 0, 0, 0, 0, 0, 0]

def msg2 (m body : Bytes) : Bytes :=
  hdr2 (le16 m 12) ++ (slice m 24 24 ++ (zeros 16 ++ body))

theorem smb2Message_some {env : Env} {m body : Bytes} (h65 : m.length ≥ 65) (hf : le32 m 16 % 2 = 0)
    (hp : smb2Payload env (le16 m 12) (m.drop 64) = some body) :
    smb2Message env m = some (msg2 m body) := by
  unfold smb2Message
  rw [if_neg (by omega)]
  dsimp only
  rw [rdLE_slice4 m 16 (by omega), rdLE_slice2 m 12 (by omega), if_neg (by omega), hp]
  dsimp only
  have e : slice m 24 8 ++ (slice m 32 8 ++ slice m 40 8) = slice m 24 24 := by
    rw [slice_append_slice m 32 8 8, slice_append_slice m 24 8 16]
  simp only [msg2, hdr2, ← e, u32le, u16le, zeros, List.append_assoc, List.cons_append, List.nil_append]
  rfl

theorem msg2_length (m body : Bytes) (h : m.length ≥ 64) : (msg2 m body).length = 64 + body.length := by
  simp [msg2, hdr2, zeros, slice_length m 24 24 (by omega)]; omega

/-- the body part of `Spec.smb2ReplyOk` (`alen` = length of the whole SMB2 message) -/
def body2Ok (req : Spec.Smb2Req) (alen : Nat) (p : Bytes) : Bool :=
  match req with
  | .negotiate ds =>
    p.length ≥ 64 && le16 p 0 = 65 &&
    ds.contains (le16 p 4) && Spec.smb2Supported.contains (le16 p 4) &&
    le16 p 56 = 128 && le16 p 56 + le16 p 58 = alen && Spec.derSpan (p.drop 64) = some (le16 p 58)
  | .sessionSetup =>
    p.length ≥ 8 && le16 p 0 = 9 &&
    le16 p 4 = 72 && le16 p 4 + le16 p 6 = alen && Spec.derSpan (p.drop 8) = some (le16 p 6)

theorem smb2ReplyOk_frame (m body : Bytes) (req : Spec.Smb2Req) (h64 : m.length ≥ 64)
    (hbl : body.length < 100000) (hbody : body2Ok req (64 + body.length) body = true) :
    Spec.smb2ReplyOk m req (nbtWrap (msg2 m body)) = true := by
  have hlen := msg2_length m body h64
  unfold Spec.smb2ReplyOk
  rw [nbtBody_nbtWrap _ (by omega)]
  dsimp only
  have hc := le16_lt m 12
  have h1 : sub (msg2 m body) 0 4 = [0xfe, 0x53, 0x4d, 0x42] := by simp [msg2, hdr2, sub]
  have h2 : le16 (msg2 m body) 4 = 64 := by simp [msg2, hdr2, Spec.le16, Spec.u8]
  have h3 : le16 (msg2 m body) 12 = le16 m 12 := by
    unfold msg2
    generalize le16 m 12 = c at hc ⊢
    simp [hdr2, Spec.le16, Spec.u8, byte_toNat]; omega
  have h4 : le32 (msg2 m body) 16 = 1 := by simp [msg2, hdr2, Spec.le32, Spec.le16, Spec.u8]
  have h5 : sub (msg2 m body) 24 24 = sub m 24 24 :=
    sub_mid _ _ _ 24 24 (by simp [hdr2]) (slice_length m 24 24 (by omega))
  have h6 : (msg2 m body).drop 64 = body := by
    have e : msg2 m body = (hdr2 (le16 m 12) ++ (slice m 24 24 ++ zeros 16)) ++ body := by
      simp [msg2]
    rw [e]
    exact drop_append_len _ _ 64 (by simp [hdr2, zeros, slice_length m 24 24 (by omega)])
  rw [h1, h2, h3, h4, h5, h6, hlen]
  have hb := hbody
  unfold body2Ok at hb
  cases req <;> simp at hb ⊢ <;> omega

/-! ### bodies -/

theorem ss2Body_length : smb2SessionSetupReply.length = 167 := by decide +kernel

theorem ss2Body_ok : body2Ok .sessionSetup (64 + 167) smb2SessionSetupReply = true := by decide +kernel

theorem neg2Body_length (env : Env) (v : Nat) (guid : Bytes) (hg : guid.length = 16) :
    (smb2NegotiateReply env v guid).length = 384 := by
  simp [smb2NegotiateReply, u16le, u32le, u64le, negBlob_length, hg]

theorem le16_append_right' (x y : Bytes) (k i : Nat) (hx : x.length = i) (hk : i ≤ k) :
    le16 (x ++ y) k = le16 y (k - i) := by
  have := le16_append_right x y i (k - i) hx
  rwa [Nat.add_sub_cancel' hk] at this

theorem neg2Body_ok (env : Env) (ds : List Nat) (v : Nat) (guid : Bytes) (hg : guid.length = 16)
    (hv : ds.contains v = true) (hs : Spec.smb2Supported.contains v = true) (hlt : v < 65536) :
    body2Ok (.negotiate ds) (64 + 384) (smb2NegotiateReply env v guid) = true := by
  have hl := neg2Body_length env v guid hg
  unfold body2Ok
  dsimp only
  rw [hl]
  have e : smb2NegotiateReply env v guid =
      ([65, 0, 1, 0, byte v, byte (v / 256), 1, 0] ++ guid) ++
      (u32le 1 ++ u32le 65536 ++ u32le 65536 ++ u32le 65536 ++ u64le (smbTime env) ++ u64le (smbTime env) ++
        [128, 0, 64, 1, 0, 0, 0, 0] ++ SECURITY_BLOB_NEG_PROTO) := by
    simp [smb2NegotiateReply, u16le, u32le, negBlob_length, byte]
  have h0 : le16 (smb2NegotiateReply env v guid) 0 = 65 := by
    rw [e]; simp [Spec.le16, Spec.u8]
  have h4 : le16 (smb2NegotiateReply env v guid) 4 = v := by
    rw [e]; simp [Spec.le16, Spec.u8, byte_toNat]; omega
  have h56 : le16 (smb2NegotiateReply env v guid) 56 = 128 := by
    rw [e, le16_append_right' _ _ 56 24 (by simp [hg]) (by omega)]
    generalize smbTime env = T
    generalize SECURITY_BLOB_NEG_PROTO = B
    simp [u32le, u64le, Spec.le16, Spec.u8]
  have h58 : le16 (smb2NegotiateReply env v guid) 58 = 320 := by
    rw [e, le16_append_right' _ _ 58 24 (by simp [hg]) (by omega)]
    generalize smbTime env = T
    generalize SECURITY_BLOB_NEG_PROTO = B
    simp [u32le, u64le, Spec.le16, Spec.u8]
  have hd : (smb2NegotiateReply env v guid).drop 64 = SECURITY_BLOB_NEG_PROTO := by
    have e2 : smb2NegotiateReply env v guid =
        (([65, 0, 1, 0, byte v, byte (v / 256), 1, 0] ++ guid) ++
         (u32le 1 ++ u32le 65536 ++ u32le 65536 ++ u32le 65536 ++ u64le (smbTime env) ++ u64le (smbTime env) ++
          [128, 0, 64, 1, 0, 0, 0, 0])) ++ SECURITY_BLOB_NEG_PROTO := by
      rw [e]; simp only [List.append_assoc]
    rw [e2]
    exact drop_append_len _ _ 64 (by simp [hg, u32le, u64le])
  have hder : Spec.derSpan SECURITY_BLOB_NEG_PROTO = some 320 := by decide +kernel
  rw [h0, h4, h56, h58, hv, hs, hd, hder]
  rfl

end Masscanned.C17
