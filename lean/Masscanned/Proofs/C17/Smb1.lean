/-
  Proofs/C17/Smb1 — SMB1: dialect-list bridge (Spec.smb1DialectList ↔ model smb1Dialects),
  dialect index bound, shape of the reply header and bodies.
-/
import Masscanned.Proofs.C17.Bytes
namespace Masscanned.C17
open Masscanned
open Masscanned.Spec (u8 le16 le32 sub be16)

/-! ### dialect list -/

/-- the model's Dialects state running over a NUL-free string followed by NUL -/
theorem smb1Dialects_run (bc : Nat) (s : Bytes) (hs : ∀ b ∈ s, b ≠ 0) (t' : Bytes) (j : Nat)
    (cur : Bytes) (acc : List Bytes) :
    smb1Dialects bc (s ++ 0 :: t') j (some cur) acc =
      if j + s.length + 1 = bc then some (acc ++ [cur ++ s])
      else smb1Dialects bc t' (j + s.length + 1) none (acc ++ [cur ++ s]) := by
  induction s generalizing j cur with
  | nil => simp [smb1Dialects]
  | cons b s ih =>
    have hb : b ≠ 0 := hs b (by simp)
    rw [List.cons_append, smb1Dialects]
    simp only [hb, if_false]
    rw [ih (fun x hx => hs x (by simp [hx]))]
    have e : j + 1 + s.length + 1 = j + (b :: s).length + 1 := by simp; omega
    rw [e]; simp

theorem takeWhile_split (t : Bytes) (h : (t.takeWhile (· ≠ 0)).length < t.length) :
    t = t.takeWhile (· ≠ 0) ++ 0 :: t.drop ((t.takeWhile (· ≠ 0)).length + 1) := by
  induction t with
  | nil => simp at h
  | cons b t ih =>
    by_cases hb : b = 0
    · subst hb; simp
    · have e : (b :: t).takeWhile (· ≠ 0) = b :: t.takeWhile (· ≠ 0) := by simp [List.takeWhile, hb]
      rw [e] at h ⊢
      simp only [List.length_cons, Nat.add_lt_add_iff_right] at h
      simp only [List.length_cons, List.drop_succ_cons, List.cons_append, List.cons.injEq, true_and]
      exact ih h

theorem mem_takeWhile_ne0 (t : Bytes) (b : UInt8) (h : b ∈ t.takeWhile (· ≠ 0)) : b ≠ 0 := by
  induction t with
  | nil => simp at h
  | cons a t ih =>
    by_cases ha : a = 0
    · subst ha; simp at h
    · have e : (a :: t).takeWhile (· ≠ 0) = a :: t.takeWhile (· ≠ 0) := by simp [List.takeWhile, ha]
      rw [e] at h
      rcases List.mem_cons.mp h with h | h
      · subst h; exact ha
      · exact ih h

theorem smb1Dialects_of_spec (bc : Nat) : ∀ (fuel : Nat) (d : Bytes) (i : Nat) (acc ds : List Bytes),
    d ≠ [] → i + d.length = bc → Spec.smb1DialectList fuel d = some ds →
    smb1Dialects bc d i none acc = some (acc ++ ds) := by
  intro fuel
  induction fuel with
  | zero => intro d i acc ds _ _ h; simp [Spec.smb1DialectList] at h
  | succ fuel ih =>
    intro d i acc ds hd hlen h
    unfold Spec.smb1DialectList at h
    split at h
    · exact absurd rfl hd
    · rename_i t
      dsimp only at h
      split at h
      · cases h
      · rename_i hlt
        have hlt' : (t.takeWhile (· ≠ 0)).length < t.length := by omega
        have hsplit := takeWhile_split t hlt'
        generalize hs : t.takeWhile (· ≠ 0) = s at h hlt' hsplit
        have hs0 : ∀ b ∈ s, b ≠ 0 := by
          intro b hb; rw [← hs] at hb
          exact mem_takeWhile_ne0 t b hb
        generalize ht' : t.drop (s.length + 1) = t' at h hsplit
        rw [smb1Dialects, hsplit, smb1Dialects_run bc s hs0]
        have hl : t.length = s.length + 1 + t'.length := by
          conv => lhs; rw [hsplit]
          simp; omega
        simp only [List.length_cons] at hlen
        split at h
        · rename_i l hl'
          cases h
          by_cases hte : t' = []
          · subst hte
            cases fuel with
            | zero => simp [Spec.smb1DialectList] at hl'
            | succ f =>
              simp [Spec.smb1DialectList] at hl'
              subst hl'
              simp at hl
              rw [if_pos (by omega)]; simp
          · have hne : t'.length ≠ 0 := by simpa using hte
            rw [if_neg (by omega)]
            rw [ih t' _ _ l hte (by omega) hl']
            simp
        · cases h
    · cases h

/-- End is reached only when `byte_count` bytes were available -/
theorem smb1Dialects_some_len (bc : Nat) : ∀ (d : Bytes) (i : Nat) (tmp : Option Bytes) (acc ds : List Bytes),
    smb1Dialects bc d i tmp acc = some ds → bc ≤ i + d.length := by
  intro d
  induction d with
  | nil => intro i tmp acc ds h; simp [smb1Dialects] at h
  | cons b t ih =>
    intro i tmp acc ds h
    simp only [List.length_cons]
    cases tmp with
    | none => rw [smb1Dialects] at h; have := ih _ _ _ _ h; omega
    | some s =>
      rw [smb1Dialects] at h
      split at h
      · split at h
        · omega
        · have := ih _ _ _ _ h; omega
      · have := ih _ _ _ _ h; omega

/-! ### dialect index -/

theorem indexOf?_lt {l : List Bytes} {x : Bytes} {i : Nat} (h : indexOf? l x = some i) : i < l.length := by
  unfold indexOf? at h
  dsimp only at h
  split at h
  · cases h; assumption
  · cases h

theorem smb1DialectIndex_lt (ds : List Bytes) (h : ds ≠ []) : smb1DialectIndex ds < ds.length := by
  unfold smb1DialectIndex
  split
  · exact indexOf?_lt ‹_›
  · split
    · exact indexOf?_lt ‹_›
    · split
      · exact indexOf?_lt ‹_›
      · exact List.length_pos_iff.mpr h

/-- `indexOf?` returns a position holding the searched string -/
theorem indexOf?_getD {l : List Bytes} {x : Bytes} {i : Nat} (h : indexOf? l x = some i) : l.getD i [] = x := by
  unfold indexOf? at h
  dsimp only at h
  split at h
  · rename_i hlt
    cases h
    rw [List.getD_eq_getElem?_getD, List.getElem?_eq_getElem hlt]
    simpa using List.findIdx_getElem (w := hlt)
  · cases h

theorem indexOf?_none {l : List Bytes} {x : Bytes} (h : indexOf? l x = none) : x ∉ l := by
  unfold indexOf? at h
  dsimp only at h
  split at h
  · cases h
  · rename_i hge
    intro hx
    have := List.findIdx_lt_length_of_exists (p := (· = x)) (xs := l) ⟨x, hx, by simp⟩
    omega

/-- the index designates a dialect the responder speaks whenever the client offered one -/
theorem smb1DialectIndex_speaks (ds : List Bytes) (h : ds.any Spec.smb1Speaks = true) :
    Spec.smb1Speaks (ds.getD (smb1DialectIndex ds) []) = true := by
  unfold smb1DialectIndex
  split
  · rename_i i hi; rw [indexOf?_getD hi]; simp [Spec.smb1Speaks]
  · rename_i h1
    split
    · rename_i i hi; rw [indexOf?_getD hi]; simp [Spec.smb1Speaks]
    · rename_i h2
      split
      · rename_i i hi; rw [indexOf?_getD hi]; simp [Spec.smb1Speaks]
      · rename_i h3
        exfalso
        obtain ⟨x, hx, hsp⟩ := List.any_eq_true.mp h
        have n1 := indexOf?_none h1
        have n2 := indexOf?_none h2
        have n3 := indexOf?_none h3
        simp only [Spec.smb1Speaks, Bool.or_eq_true, decide_eq_true_eq] at hsp
        rcases hsp with (rfl | rfl) | rfl
        · exact n1 hx
        · exact n2 hx
        · exact n3 hx

/-- the dialect list is shorter than the fuel, i.e. than ByteCount + 1 -/
theorem smb1DialectList_length : ∀ (fuel : Nat) (d : Bytes) (ds : List Bytes),
    Spec.smb1DialectList fuel d = some ds → ds.length < fuel := by
  intro fuel
  induction fuel with
  | zero => intro d ds h; simp [Spec.smb1DialectList] at h
  | succ n ih =>
    intro d ds h
    unfold Spec.smb1DialectList at h
    split at h
    · cases h; simp
    · dsimp only at h
      split at h
      · cases h
      · split at h
        · rename_i l hl
          cases h
          have := ih _ _ hl
          simp; omega
        · cases h
    · cases h

end Masscanned.C17
