/-
  Proofs/C17/Trunc — truncated messages: readers on a prefix, too-short messages.
-/
import Masscanned.Proofs.C17.Request
namespace Masscanned.C17
open Masscanned
open Masscanned.Spec (u8 le16 le32 sub be16)

/-- number of bytes of the SMB1 message (after the NetBIOS header) the dissector must have consumed to
    reach its End state: header 32 + WordCount/ByteCount 3 + `ByteCount` dialect bytes (negotiate), or
    header 32 + 27 fixed bytes + `SecurityBlobLength` blob bytes (session setup) -/
def smb1Needed (m : Bytes) : Nat :=
  if u8 m 4 = 0x72 then 35 + le16 m 33 else 59 + le16 m 47

/-- SMB2: header 64 + 36 fixed bytes + `2·DialectCount` dialect bytes (negotiate), or
    header 64 + 24 fixed bytes + `SecurityBufferLength` blob bytes (session setup) -/
def smb2Needed (m : Bytes) : Nat :=
  if le16 m 12 = 0 then 100 + 2 * le16 m 66 else 88 + le16 m 78

theorem u8_take (m : Bytes) (k i : Nat) (h : i < k) : u8 (m.take k) i = u8 m i := by
  simp [Spec.u8, List.getD_eq_getElem?_getD, h]

theorem le16_take (m : Bytes) (k i : Nat) (h : i + 2 ≤ k) : le16 (m.take k) i = le16 m i := by
  unfold le16; rw [u8_take m k i (by omega), u8_take m k (i + 1) (by omega)]

theorem smb1Message_short (env : Env) (m : Bytes) (h : m.length < 33) : smb1Message env m = none := by
  unfold smb1Message; rw [if_pos h]

theorem smb2Message_short (env : Env) (m : Bytes) (h : m.length < 65) : smb2Message env m = none := by
  unfold smb2Message; rw [if_pos h]

/-- SMB1 negotiate: fewer than `ByteCount` data bytes -/
theorem smb1Message_neg_short (env : Env) (m : Bytes) (hc : u8 m 4 = 0x72)
    (h : m.length < 35 + le16 m 33) : smb1Message env m = none := by
  have e : le16 (m.drop 32) 1 = le16 m 33 := le16_drop m 32 1
  exact smb1Message_none_of_payload
    (by rw [hc]; exact smb1Payload_neg_short env _ (by rw [e]; simp; omega))

/-- SMB1 session setup: fewer than `SecurityBlobLength` blob bytes -/
theorem smb1Message_ss_short (env : Env) (m : Bytes) (hc : u8 m 4 = 0x73)
    (h : m.length < 59 + le16 m 47) : smb1Message env m = none := by
  have e : le16 (m.drop 32) 15 = le16 m 47 := le16_drop m 32 15
  exact smb1Message_none_of_payload
    (by rw [hc]; exact smb1Payload_ss_short env _ (by rw [e]; simp; omega))

/-- SMB2 negotiate: fewer than `2·DialectCount` dialect bytes -/
theorem smb2Message_neg_short (env : Env) (m : Bytes) (hc : le16 m 12 = 0)
    (h : m.length < 100 + 2 * le16 m 66) : smb2Message env m = none := by
  have e : le16 (m.drop 64) 2 = le16 m 66 := le16_drop m 64 2
  exact smb2Message_none_of_payload
    (by rw [hc]; exact smb2Payload_neg_short env _ (by rw [e]; simp; omega))

/-- SMB2 session setup: fewer than `SecurityBufferLength` blob bytes -/
theorem smb2Message_ss_short (env : Env) (m : Bytes) (hc : le16 m 12 = 1)
    (h : m.length < 88 + le16 m 78) : smb2Message env m = none := by
  have e : le16 (m.drop 64) 14 = le16 m 78 := le16_drop m 64 14
  exact smb2Message_none_of_payload
    (by rw [hc]; exact smb2Payload_ss_short env _ (by rw [e]; simp; omega))

/-! ### enough bytes: answered -/

theorem smb1Message_neg_enough (env : Env) (m : Bytes) (ds : List Bytes) (hc : u8 m 4 = 0x72)
    (hfl : u8 m 9 < 128) (h3 : (m.drop 32).length ≥ 3) (hbc : (m.drop 32).length - 3 = le16 (m.drop 32) 1)
    (hds : Spec.smb1DialectList (le16 (m.drop 32) 1 + 1) ((m.drop 32).drop 3) = some ds) (hne : ds ≠ []) :
    smb1Message env m = some (msg1 m (smb1NegotiateReply env ds)) := by
  have hlen : m.length ≥ 35 := by simp at h3; omega
  exact smb1Message_some (by omega) hfl
    (by rw [at8_eq_u8, hc]; exact smb1Payload_neg env (m.drop 32) ds h3 hbc hds hne)

theorem smb1Message_ss_enough (env : Env) (m : Bytes) (hc : u8 m 4 = 0x73) (hfl : u8 m 9 < 128)
    (h1 : le16 m 47 ≥ 1) (h2 : 59 + le16 m 47 ≤ m.length) :
    smb1Message env m = some (msg1 m smb1SessionSetupReply) := by
  have e : le16 (m.drop 32) 15 = le16 m 47 := le16_drop m 32 15
  exact smb1Message_some (by omega) hfl
    (by rw [at8_eq_u8, hc]
        exact smb1Payload_ss env (m.drop 32) (by simp; omega) (by omega) (by rw [e]; simp; omega))

theorem le16List_take : ∀ (n : Nat) (b : Bytes) (j : Nat), 2 * n ≤ j →
    Spec.le16List n (b.take j) = Spec.le16List n b
  | 0, _, _, _ => rfl
  | n + 1, b, j, h => by
    have e : (b.take j).drop 2 = (b.drop 2).take (j - 2) := by rw [List.drop_take]
    rw [Spec.le16List, Spec.le16List, le16_take b j 0 (by omega), e, le16List_take n _ _ (by omega)]

theorem smb2Message_ss_enough (env : Env) (m : Bytes) (hc : le16 m 12 = 1) (hfl : le32 m 16 % 2 = 0)
    (h1 : le16 m 78 ≥ 1) (h2 : 88 + le16 m 78 ≤ m.length) :
    smb2Message env m = some (msg2 m smb2SessionSetupReply) := by
  have e : le16 (m.drop 64) 14 = le16 m 78 := le16_drop m 64 14
  exact smb2Message_some (by omega) hfl
    (by rw [hc]
        exact smb2Payload_ss env (m.drop 64) (by simp; omega) (by omega) (by rw [e]; simp; omega))

theorem smb2Message_neg_enough (env : Env) (m : Bytes) (hc : le16 m 12 = 0) (hfl : le32 m 16 % 2 = 0)
    (hn : le16 m 66 ≠ 0) (h2 : 100 + 2 * le16 m 66 ≤ m.length)
    (hany : (Spec.le16List (le16 m 66) (m.drop 100)).any Spec.smb2Supported.contains = true) :
    ∃ v, smb2Message env m = some (msg2 m (smb2NegotiateReply env v (slice (m.drop 64) 12 16))) := by
  have e : le16 (m.drop 64) 2 = le16 m 66 := le16_drop m 64 2
  have e2 : (m.drop 64).drop 36 = m.drop 100 := by rw [List.drop_drop]
  obtain ⟨v, hv⟩ := find_versions_isSome hany
  refine ⟨v, smb2Message_some (by omega) hfl ?_⟩
  rw [hc]
  exact smb2Payload_neg env (m.drop 64) v (by simp; omega) (by omega) (by rw [e]; simp; omega)
    (by rw [e, e2]; exact hv)

end Masscanned.C17
