/-
  Proofs/C17/Smb1Reply — the SMB1 reply: header frame and the two bodies satisfy Spec.smb1ReplyOk.
-/
import Masscanned.Proofs.C17.Smb1
namespace Masscanned.C17
open Masscanned
open Masscanned.Spec (u8 le16 le32 sub be16)

theorem negBlob_length : SECURITY_BLOB_NEG_PROTO.length = 320 := by decide +kernel
theorem chalBlob_length : SECURITY_BLOB_CHALLENGE.length = 159 := by decide +kernel

/-- fixed part of the SMB1 reply header -/
def hdr1 (m : Bytes) : Bytes := [255, 83, 77, 66, byte (at8 m 4), 0, 0, 0, 0, 0x98, 7, 0xc8]

/-- the whole reply message -/
def msg1 (m body : Bytes) : Bytes :=
  hdr1 m ++ (slice m 12 2 ++ (zeros 10 ++ (slice m 24 8 ++ body)))

theorem smb1Message_some {env : Env} {m body : Bytes} (h33 : m.length ≥ 33) (hf : u8 m 9 < 128)
    (hp : smb1Payload env (at8 m 4) (m.drop 32) = some body) :
    smb1Message env m = some (msg1 m body) := by
  unfold smb1Message
  rw [if_neg (by omega)]
  dsimp only
  rw [at8_eq_u8 m 9, if_neg (by omega), hp]
  dsimp only
  have e : slice m 24 2 ++ (slice m 26 2 ++ (slice m 28 2 ++ slice m 30 2)) = slice m 24 8 := by
    rw [slice_append_slice m 28 2 2, slice_append_slice m 26 2 4, slice_append_slice m 24 2 6]
  simp only [msg1, hdr1, ← e, u32le, u16le, zeros, List.append_assoc, List.cons_append, List.nil_append,
    List.replicate]
  rfl

theorem msg1_length (m body : Bytes) (h : m.length ≥ 32) : (msg1 m body).length = 32 + body.length := by
  simp [msg1, hdr1, zeros, slice_length m 12 2 (by omega), slice_length m 24 8 (by omega)]; omega

/-- the body part of `Spec.smb1ReplyOk` -/
def body1Ok (req : Spec.Smb1Req) (p : Bytes) : Bool :=
  let wc := u8 p 0
  let bcOff := 1 + 2 * wc
  p.length ≥ bcOff + 2 && le16 p bcOff = p.length - (bcOff + 2) &&
  (match req with
   | .negotiate ds => wc = 17 && le16 p 1 < ds.length &&
       (!ds.any Spec.smb1Speaks || Spec.smb1Speaks (ds.getD (le16 p 1) [])) && le16 p bcOff ≥ 16
   | .sessionSetup => wc = 4 && le16 p 7 ≤ le16 p bcOff && le16 p 7 ≥ 1)

/-- the part of `Spec.smb1ReplyOk` about the security blob actually present -/
def der1Ok (req : Spec.Smb1Req) (p : Bytes) : Bool :=
  match req with
  | .negotiate _ => Spec.derSpan (p.drop (1 + 2 * u8 p 0 + 18)) = some (le16 p (1 + 2 * u8 p 0) - 16)
  | .sessionSetup => Spec.derSpan (p.drop (1 + 2 * u8 p 0 + 2)) = some (le16 p 7)

theorem smb1ReplyOk_frame (m body : Bytes) (req : Spec.Smb1Req) (h32 : m.length ≥ 32)
    (hb1 : body.length ≥ 1) (hbl : body.length < 100000) (hbody : body1Ok req body = true)
    (hder : der1Ok req body = true) :
    Spec.smb1ReplyOk m req (nbtWrap (msg1 m body)) = true := by
  have hlen := msg1_length m body h32
  unfold Spec.smb1ReplyOk
  rw [nbtBody_nbtWrap _ (by omega)]
  dsimp only
  have h1 : sub (msg1 m body) 0 4 = [0xff, 0x53, 0x4d, 0x42] := by simp [msg1, hdr1, sub]
  have h2 : u8 (msg1 m body) 4 = u8 m 4 := by
    have := u8_lt m 4
    simp [msg1, hdr1, Spec.u8, byte_toNat, at8] at this ⊢
  have h3 : u8 (msg1 m body) 9 = 0x98 := by simp [msg1, hdr1, Spec.u8]
  have h4 : sub (msg1 m body) 12 2 = sub m 12 2 :=
    sub_mid _ _ _ 12 2 (by simp [hdr1]) (slice_length m 12 2 (by omega))
  have h5 : sub (msg1 m body) 24 8 = sub m 24 8 := by
    have e : msg1 m body = (hdr1 m ++ (slice m 12 2 ++ zeros 10)) ++ (slice m 24 8 ++ body) := by
      simp [msg1]
    rw [e]
    exact sub_mid _ _ _ 24 8 (by simp [hdr1, zeros, slice_length m 12 2 (by omega)]) (slice_length m 24 8 (by omega))
  have h6 : (msg1 m body).drop 32 = body := by
    have e : msg1 m body = (hdr1 m ++ (slice m 12 2 ++ (zeros 10 ++ slice m 24 8))) ++ body := by
      simp [msg1]
    rw [e]
    exact drop_append_len _ _ 32
      (by simp [hdr1, zeros, slice_length m 12 2 (by omega), slice_length m 24 8 (by omega)])
  rw [h1, h2, h3, h4, h5, h6, hlen]
  have hb := hbody
  unfold body1Ok at hb
  have hd := hder
  unfold der1Ok at hd
  cases req with
  | negotiate ds =>
    simp at hb hd ⊢
    exact ⟨by omega, hb, hd⟩
  | sessionSetup =>
    simp at hb hd ⊢
    exact ⟨by omega, hb, hd⟩

theorem ssBody_length : smb1SessionSetupReply.length = 218 := by decide +kernel

theorem ssBody_ok : body1Ok .sessionSetup smb1SessionSetupReply = true := by decide +kernel

theorem negBody_length (env : Env) (ds : List Bytes) : (smb1NegotiateReply env ds).length = 373 := by
  simp [smb1NegotiateReply, u16le, u32le, u64le, zeros, negBlob_length]

theorem negBody_ok (env : Env) (ds : List Bytes) (h : smb1DialectIndex ds < ds.length)
    (h16 : ds.length < 65536)
    (hs : ds.any Spec.smb1Speaks = true → Spec.smb1Speaks (ds.getD (smb1DialectIndex ds) []) = true) :
    body1Ok (.negotiate ds) (smb1NegotiateReply env ds) = true := by
  have hl := negBody_length env ds
  unfold body1Ok
  rw [hl]
  unfold smb1NegotiateReply
  rw [negBlob_length]
  generalize smbTime env = T
  generalize smb1DialectIndex ds = idx at h hs
  generalize SECURITY_BLOB_NEG_PROTO = B
  have hidx : idx % 256 + 256 * (idx % 65536 / 256 % 256) = idx := by omega
  simp [u16le, u32le, u64le, zeros, Spec.le16, Spec.u8, byte_toNat]
  rw [hidx]
  refine ⟨h, ?_⟩
  cases hany : ds.any Spec.smb1Speaks
  · left
    intro x hx
    have := List.any_eq_false.mp hany x hx
    simpa using this
  · right
    have := hs hany
    rwa [List.getD_eq_getElem?_getD] at this

theorem ssBody_der : der1Ok .sessionSetup smb1SessionSetupReply = true := by decide +kernel

theorem negBody_der (env : Env) (ds : List Bytes) : der1Ok (.negotiate ds) (smb1NegotiateReply env ds) = true := by
  have hder : Spec.derSpan SECURITY_BLOB_NEG_PROTO = some 320 := by decide +kernel
  unfold der1Ok smb1NegotiateReply
  rw [negBlob_length]
  generalize smbTime env = T
  generalize smb1DialectIndex ds = idx
  generalize SECURITY_BLOB_NEG_PROTO = B at hder ⊢
  simp [u16le, u32le, u64le, zeros, Spec.le16, Spec.u8, byte_toNat, hder]

end Masscanned.C17
