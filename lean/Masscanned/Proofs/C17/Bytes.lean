/-
  Proofs/C17/Bytes — little-endian reader bridges (model `rdLE (slice …)` ↔ `Spec.le16/le32`),
  reading inside appended blocks, NetBIOS wrapping.
-/
import Masscanned.Model.Smb
import Masscanned.Spec.Smb
import Masscanned.Proofs.Bytes
namespace Masscanned.C17
open Masscanned
open Masscanned.Spec (u8 le16 le32 sub be16)

theorem le16_lt (p : Bytes) (i : Nat) : le16 p i < 65536 := by
  have := u8_lt p i; have := u8_lt p (i + 1); unfold le16; omega

theorem le16_drop (p : Bytes) (i j : Nat) : le16 (p.drop i) j = le16 p (i + j) := by
  unfold le16; rw [u8_drop, u8_drop]; rfl

theorem le32_drop (p : Bytes) (i j : Nat) : le32 (p.drop i) j = le32 p (i + j) := by
  unfold le32; rw [le16_drop, le16_drop]; rfl

theorem rdLE_slice2 (p : Bytes) (i : Nat) (h : i + 2 ≤ p.length) :
    rdLE (slice p i 2) = le16 p i := by
  have e : le16 p i = le16 (p.drop i) 0 := by rw [le16_drop]; rfl
  rw [e]; unfold slice
  have hl : (p.drop i).length ≥ 2 := by simp; omega
  generalize p.drop i = q at hl
  match q, hl with
  | a :: b :: t, _ => simp [rdLE, le16, Spec.u8]

theorem rdLE_slice4 (p : Bytes) (i : Nat) (h : i + 4 ≤ p.length) :
    rdLE (slice p i 4) = le32 p i := by
  have e : le32 p i = le32 (p.drop i) 0 := by rw [le32_drop]; rfl
  rw [e]; unfold slice
  have hl : (p.drop i).length ≥ 4 := by simp; omega
  generalize p.drop i = q at hl
  match q, hl with
  | a :: b :: c :: d :: t, _ =>
    simp [rdLE, le32, le16, Spec.u8]
    omega

theorem slice_length (p : Bytes) (i n : Nat) (h : i + n ≤ p.length) : (slice p i n).length = n := by
  simp [slice]; omega

theorem slice_append_slice (p : Bytes) (i a b : Nat) :
    slice p i a ++ slice p (i + a) b = slice p i (a + b) := by
  unfold slice
  rw [List.take_add, List.drop_drop]

/-- reading a block in the middle of an append -/
theorem sub_mid (x y z : Bytes) (i n : Nat) (hx : x.length = i) (hy : y.length = n) :
    sub (x ++ (y ++ z)) i n = y := by
  subst hx hy; simp [sub]

theorem sub_mid_end (x y : Bytes) (i n : Nat) (hx : x.length = i) (hy : y.length = n) :
    sub (x ++ y) i n = y := by
  subst hx hy; simp [sub]

theorem drop_append_len (x y : Bytes) (i : Nat) (hx : x.length = i) : (x ++ y).drop i = y := by
  subst hx; simp

theorem u8_append_right (x y : Bytes) (i j : Nat) (hx : x.length = i) : u8 (x ++ y) (i + j) = u8 y j := by
  subst hx; simp [Spec.u8, List.getD_eq_getElem?_getD, List.getElem?_append_right]

theorem le16_append_right (x y : Bytes) (i j : Nat) (hx : x.length = i) :
    le16 (x ++ y) (i + j) = le16 y j := by
  unfold le16; rw [u8_append_right x y i j hx, Nat.add_assoc, u8_append_right x y i (j + 1) hx]

theorem le16_u16le (n : Nat) (t : Bytes) (h : n < 65536) : le16 (u16le n ++ t) 0 = n := by
  simp [le16, Spec.u8, u16le, byte_toNat]; omega

/-! ### NetBIOS wrapper -/

theorem nbtWrap_drop (r : Bytes) : (nbtWrap r).drop 4 = r := by
  simp [nbtWrap, u16be]

theorem nbtBody_nbtWrap (r : Bytes) (h : r.length < 131072) : Spec.nbtBody (nbtWrap r) = some r := by
  unfold Spec.nbtBody
  have hm : r.length % 131072 = r.length := Nat.mod_eq_of_lt h
  simp [nbtWrap, u16be, Spec.u8, Spec.be16, byte_toNat, hm]
  omega

theorem nbtBody_eq {p m : Bytes} (h : Spec.nbtBody p = some m) : p.drop 4 = m := by
  unfold Spec.nbtBody at h
  split at h
  · cases h
  · dsimp only at h; split at h
    · cases h; rfl
    · cases h

end Masscanned.C17
