/-
  Proofs/C17/Payload — when the payload dissectors reach End (reply) and when they do not.
-/
import Masscanned.Proofs.C17.Smb2
namespace Masscanned.C17
open Masscanned
open Masscanned.Spec (u8 le16 le32 sub be16)

/-! ### SMB1 -/

theorem smb1Payload_neg (env : Env) (q : Bytes) (ds : List Bytes) (h3 : q.length ≥ 3)
    (hbc : q.length - 3 = le16 q 1)
    (hd : Spec.smb1DialectList (le16 q 1 + 1) (q.drop 3) = some ds) (hne : ds ≠ []) :
    smb1Payload env 0x72 q = some (smb1NegotiateReply env ds) := by
  unfold smb1Payload
  rw [if_pos rfl, if_neg (by omega), rdLE_slice2 q 1 (by omega)]
  have hdne : q.drop 3 ≠ [] := by
    intro h0
    rw [h0] at hd
    simp [Spec.smb1DialectList] at hd
    exact hne hd
  have := smb1Dialects_of_spec (le16 q 1) (le16 q 1 + 1) (q.drop 3) 0 [] ds hdne (by simp; omega) hd
  rw [this]; rfl

theorem smb1Payload_neg_short (env : Env) (q : Bytes) (h : q.length < 3 + le16 q 1) :
    smb1Payload env 0x72 q = none := by
  unfold smb1Payload
  rw [if_pos rfl]
  split
  · rfl
  · rename_i h3
    rw [rdLE_slice2 q 1 (by omega)]
    split
    · rename_i ds hds
      have := smb1Dialects_some_len _ _ _ _ _ _ hds
      simp at this; omega
    · rfl

theorem smb1Payload_ss (env : Env) (q : Bytes) (h27 : q.length ≥ 27) (h1 : le16 q 15 ≥ 1)
    (h2 : 27 + le16 q 15 ≤ q.length) :
    smb1Payload env 0x73 q = some smb1SessionSetupReply := by
  unfold smb1Payload
  rw [if_neg (by decide), if_pos rfl, if_neg (by omega)]
  dsimp only
  rw [rdLE_slice2 q 15 (by omega), if_pos (by simp; omega)]

theorem smb1Payload_ss_short (env : Env) (q : Bytes) (h : q.length < 27 + le16 q 15) :
    smb1Payload env 0x73 q = none := by
  unfold smb1Payload
  rw [if_neg (by decide), if_pos rfl]
  split
  · rfl
  · dsimp only
    rw [rdLE_slice2 q 15 (by omega), if_neg (by simp; omega)]

theorem smb1Payload_other (env : Env) (c : Nat) (q : Bytes) (h : c ≠ 0x72) (h' : c ≠ 0x73) :
    smb1Payload env c q = none := by
  unfold smb1Payload
  rw [if_neg h, if_neg h']

theorem smb1Message_none_of_payload {env : Env} {m : Bytes}
    (h : smb1Payload env (u8 m 4) (m.drop 32) = none) : smb1Message env m = none := by
  unfold smb1Message
  split
  · rfl
  · dsimp only
    split
    · rfl
    · rw [at8_eq_u8, h]

theorem smb1Message_none_of_flag {env : Env} {m : Bytes} (h : u8 m 9 ≥ 128) : smb1Message env m = none := by
  unfold smb1Message
  split
  · rfl
  · dsimp only
    rw [at8_eq_u8 m 9, if_pos h]

theorem smb1Payload_length {env : Env} {c : Nat} {q body : Bytes} (hb : smb1Payload env c q = some body) :
    body.length = 373 ∨ body.length = 218 := by
  unfold smb1Payload at hb
  split at hb
  · split at hb
    · cases hb
    · split at hb
      · cases hb; rw [negBody_length]; omega
      · cases hb
  · split at hb
    · split at hb
      · cases hb
      · dsimp only at hb
        split at hb
        · cases hb; rw [ssBody_length]; omega
        · cases hb
    · cases hb

theorem smb1Message_length {env : Env} {m r : Bytes} (h : smb1Message env m = some r) :
    r.length = 405 ∨ r.length = 250 := by
  unfold smb1Message at h
  split at h
  · cases h
  · dsimp only at h
    split at h
    · cases h
    · split at h
      · cases h
      · rename_i hm _ body hb
        cases h
        have := smb1Payload_length hb
        simp [u32le, u16le, zeros, slice]
        omega

/-! ### SMB2 -/

theorem smb2Payload_neg (env : Env) (q : Bytes) (v : Nat) (h36 : q.length ≥ 36) (hn : le16 q 2 ≠ 0)
    (hl : 36 + 2 * le16 q 2 ≤ q.length)
    (hv : smb2Versions.find? (fun v => (Spec.le16List (le16 q 2) (q.drop 36)).contains v) = some v) :
    smb2Payload env 0 q = some (smb2NegotiateReply env v (slice q 12 16)) := by
  unfold smb2Payload
  rw [if_pos rfl, if_neg (by omega)]
  dsimp only
  rw [rdLE_slice2 q 2 (by omega), if_neg hn, smb2Dialects_eq _ _ (by simp; omega)]
  dsimp only
  rw [hv]

theorem smb2Payload_neg_none (env : Env) (q : Bytes)
    (hv : smb2Versions.find? (fun v => (Spec.le16List (le16 q 2) (q.drop 36)).contains v) = none) :
    smb2Payload env 0 q = none := by
  unfold smb2Payload
  rw [if_pos rfl]
  split
  · rfl
  · dsimp only
    rw [rdLE_slice2 q 2 (by omega)]
    split
    · rfl
    · split
      · rfl
      · rename_i ds hds
        have hl := smb2Dialects_some_len _ _ _ hds
        rw [smb2Dialects_eq _ _ hl] at hds
        cases hds
        rw [hv]

theorem smb2Payload_neg_short (env : Env) (q : Bytes) (h : q.length < 36 + 2 * le16 q 2) :
    smb2Payload env 0 q = none := by
  unfold smb2Payload
  rw [if_pos rfl]
  split
  · rfl
  · dsimp only
    rw [rdLE_slice2 q 2 (by omega)]
    split
    · rfl
    · split
      · rfl
      · rename_i ds hds
        have hl := smb2Dialects_some_len _ _ _ hds
        simp at hl; omega

theorem smb2Payload_ss (env : Env) (q : Bytes) (h24 : q.length ≥ 24) (h1 : le16 q 14 ≥ 1)
    (h2 : 24 + le16 q 14 ≤ q.length) :
    smb2Payload env 1 q = some smb2SessionSetupReply := by
  unfold smb2Payload
  rw [if_neg (by decide), if_pos rfl, if_neg (by omega)]
  dsimp only
  rw [rdLE_slice2 q 14 (by omega), if_pos (by simp; omega)]

theorem smb2Payload_ss_short (env : Env) (q : Bytes) (h : q.length < 24 + le16 q 14) :
    smb2Payload env 1 q = none := by
  unfold smb2Payload
  rw [if_neg (by decide), if_pos rfl]
  split
  · rfl
  · dsimp only
    rw [rdLE_slice2 q 14 (by omega), if_neg (by simp; omega)]

theorem smb2Payload_other (env : Env) (c : Nat) (q : Bytes) (h : c ≠ 0) (h' : c ≠ 1) :
    smb2Payload env c q = none := by
  unfold smb2Payload
  rw [if_neg h, if_neg h']

theorem smb2Message_none_of_payload {env : Env} {m : Bytes}
    (h : smb2Payload env (le16 m 12) (m.drop 64) = none) : smb2Message env m = none := by
  unfold smb2Message
  split
  · rfl
  · dsimp only
    split
    · rfl
    · rw [rdLE_slice2 m 12 (by omega), h]

theorem smb2Message_none_of_flag {env : Env} {m : Bytes} (h : le32 m 16 % 2 = 1) : smb2Message env m = none := by
  unfold smb2Message
  split
  · rfl
  · dsimp only
    rw [rdLE_slice4 m 16 (by omega), if_pos h]

theorem smb2Payload_length {env : Env} {c : Nat} {q body : Bytes} (hb : smb2Payload env c q = some body) :
    body.length = 384 ∨ body.length = 167 := by
  unfold smb2Payload at hb
  split at hb
  · split at hb
    · cases hb
    · dsimp only at hb
      split at hb
      · cases hb
      · split at hb
        · cases hb
        · split at hb
          · cases hb
          · cases hb
            rw [neg2Body_length _ _ _ (slice_length q 12 16 (by omega))]; omega
  · split at hb
    · split at hb
      · cases hb
      · dsimp only at hb
        split at hb
        · cases hb; rw [ss2Body_length]; omega
        · cases hb
    · cases hb

theorem smb2Message_length {env : Env} {m r : Bytes} (h : smb2Message env m = some r) :
    r.length = 448 ∨ r.length = 231 := by
  unfold smb2Message at h
  split at h
  · cases h
  · dsimp only at h
    split at h
    · cases h
    · split at h
      · cases h
      · rename_i hm _ body hb
        cases h
        have := smb2Payload_length hb
        simp [u32le, u16le, zeros, slice]
        omega

end Masscanned.C17
