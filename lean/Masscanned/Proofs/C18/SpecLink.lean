/-
  Proofs/C18/SpecLink — `Spec.sshAnswered` (independent vocabulary: `spanP`, `hasCRLF`, string-literal
  prefixes) expressed with the recogniser `sshLang` of `Proofs/C18/Ssh.lean`.
-/
import Masscanned.Proofs.C18.Ssh
namespace Masscanned.C18
open Masscanned

def pfx20 : Bytes := [83, 83, 72, 45, 50, 46, 48]
def pfx199 : Bytes := [83, 83, 72, 45, 49, 46, 57, 57]
def dispatcherPrefix (d : Bytes) : Bool := pfx20.isPrefixOf d || pfx199.isPrefixOf d

theorem pfx20_eq : "SSH-2.0".toUTF8.toList = pfx20 := by decide +kernel
theorem pfx199_eq : "SSH-1.99".toUTF8.toList = pfx199 := by decide +kernel

theorem spec_verCh (b : UInt8) : (Spec.digit b || decide (b = Spec.DOT)) = verCh b := by
  by_cases h : b = 46 <;> simp [Spec.digit, verCh, isDigit, Spec.DOT, h]

theorem span_verTail (t : Bytes) :
    (match (Spec.spanP (fun b => Spec.digit b || b = Spec.DOT) t).2 with
      | 45 :: rest => Spec.hasCRLF rest
      | _ => false) = verTail t := by
  induction t with
  | nil => simp [Spec.spanP, verTail]
  | cons b t ih =>
    unfold Spec.spanP verTail
    by_cases h45 : b = 45
    · subst h45
      have : (Spec.digit 45 || decide ((45 : UInt8) = Spec.DOT)) = false := by decide
      simp [this, crlfIn_eq_hasCRLF]
    · rw [spec_verCh]
      by_cases hv : verCh b = true
      · simp only [hv, ↓reduceIte, h45]
        exact ih
      · simp only [hv, h45]
        simp
        split
        · next h => simp at h; exact absurd h.1 h45
        · rfl

theorem sshAnswered_eq (d : Bytes) :
    Spec.sshAnswered d = (dispatcherPrefix d && sshLang d) := by
  unfold Spec.sshAnswered dispatcherPrefix
  rw [pfx20_eq, pfx199_eq]
  show (_ && (match Spec.spanP (fun b => Spec.digit b || b = Spec.DOT) (d.drop 4) with
    | (_, r) => match r with
      | 45 :: rest => Spec.hasCRLF rest
      | _ => false)) = _
  have key : (match Spec.spanP (fun b => Spec.digit b || b = Spec.DOT) (d.drop 4) with
    | (_, r) => match r with
      | 45 :: rest => Spec.hasCRLF rest
      | _ => false) = verTail (d.drop 4) := span_verTail _
  rw [key]
  unfold sshLang
  cases hp : (List.isPrefixOf pfx20 d || List.isPrefixOf pfx199 d)
  · simp
  · have : sshMagic.isPrefixOf d = true := by
      rw [Bool.or_eq_true, List.isPrefixOf_iff_prefix, List.isPrefixOf_iff_prefix] at hp
      rw [List.isPrefixOf_iff_prefix]
      rcases hp with hp | hp
      · exact List.IsPrefix.trans (by decide) hp
      · exact List.IsPrefix.trans (by decide) hp
    simp [this]
end Masscanned.C18
