/-
  Proofs/C18/Ssh — the language of the SSH banner FSM (`Model/Ssh.lean`).
  `sshLang` is a plain Bool recogniser, `sshLang_iff` its explicit description, `fold_pre_eob` the FSM
  theorem, `sshLoop_ok` the absence of the `i -= 1` underflow.
-/
import Masscanned.Model.Ssh
import Masscanned.Spec.Ssh
namespace Masscanned.C18
open Masscanned

/-- a protocol-version byte: ASCII digit or '.' -/
def verCh (b : UInt8) : Bool := isDigit b || b == 46

/-- CR LF occurs somewhere -/
def crlfIn : Bytes → Bool
  | [] => false
  | b :: t => (b == 13 && t.head? == some 10) || crlfIn t

/-- after "SSH-": version bytes, '-', then a rest containing CR LF -/
def verTail : Bytes → Bool
  | [] => false
  | b :: t => if b = 45 then crlfIn t else if verCh b then verTail t else false

/-- the language answered by the SSH responder -/
def sshLang (d : Bytes) : Bool := sshMagic.isPrefixOf d && verTail (d.drop 4)

/-! ### explicit description of the recognisers -/

theorem infix_cons_crlf (b : UInt8) (d : Bytes) :
    [13, 10] <:+: b :: d ↔ (b = 13 ∧ d.head? = some 10) ∨ [13, 10] <:+: d := by
  rw [List.infix_cons_iff]
  constructor
  · rintro (h | h)
    · left
      obtain ⟨t, ht⟩ := h
      cases d with
      | nil => simp at ht
      | cons c d' => simp at ht; simp [ht.1, ht.2.1]
    · exact .inr h
  · rintro (⟨h1, h2⟩ | h)
    · left
      cases d with
      | nil => simp at h2
      | cons c d' =>
        simp at h2; subst h1; subst h2
        exact ⟨d', rfl⟩
    · exact .inr h

theorem crlfIn_iff (d : Bytes) : crlfIn d = true ↔ [13, 10] <:+: d := by
  induction d with
  | nil => simp [crlfIn]
  | cons b t ih => rw [infix_cons_crlf, ← ih]; simp [crlfIn]

theorem crlfIn_eq_hasCRLF (d : Bytes) : Spec.hasCRLF d = crlfIn d := by
  fun_induction Spec.hasCRLF d with
  | case1 t => simp [crlfIn]
  | case2 b t hne ih =>
    rw [ih]
    cases t with
    | nil => simp [crlfIn]
    | cons c t' =>
      have : ¬ (b = 13 ∧ c = 10) := by
        rintro ⟨rfl, rfl⟩; exact hne _ rfl rfl
      simp only [crlfIn, List.head?_cons]
      cases h : ((b == 13 && (some c == some 10)) : Bool)
      · simp
      · simp at h; exact absurd h this
  | case3 => rfl

theorem verTail_iff (t : Bytes) :
    verTail t = true ↔ ∃ v rest, t = v ++ 45 :: rest ∧ (∀ b ∈ v, verCh b = true) ∧ [13, 10] <:+: rest := by
  induction t with
  | nil => simp [verTail]
  | cons b t ih =>
    unfold verTail
    by_cases h45 : b = 45
    · subst h45
      simp only [↓reduceIte, crlfIn_iff]
      constructor
      · intro h; exact ⟨[], t, rfl, by simp, h⟩
      · rintro ⟨v, rest, he, hv, hr⟩
        cases v with
        | nil => simp at he; rw [he]; exact hr
        | cons c v' =>
          simp at he
          have := hv c (by simp)
          rw [← he.1] at this
          exact absurd this (by decide)
    · simp only [h45, ↓reduceIte]
      by_cases hv : verCh b = true
      · simp only [hv, ↓reduceIte, ih]
        constructor
        · rintro ⟨v, rest, he, hvv, hr⟩
          refine ⟨b :: v, rest, by simp [he], ?_, hr⟩
          intro x hx
          rcases List.mem_cons.1 hx with rfl | hx
          · exact hv
          · exact hvv x hx
        · rintro ⟨v, rest, he, hvv, hr⟩
          cases v with
          | nil => simp at he; exact absurd he.1 h45
          | cons c v' =>
            simp at he
            exact ⟨v', rest, he.2, fun x hx => hvv x (List.mem_cons_of_mem _ hx), hr⟩
      · simp only [hv]
        constructor
        · intro h; simp at h
        · rintro ⟨v, rest, he, hvv, hr⟩
          cases v with
          | nil => simp at he; exact absurd he.1 h45
          | cons c v' =>
            simp at he
            have := hvv c (by simp)
            rw [← he.1] at this
            exact absurd this hv

/-- explicit description: `d = "SSH-" ++ v ++ "-" ++ rest`, every byte of `v` a digit or '.', and
    CR LF occurs in `rest` -/
theorem sshLang_iff (d : Bytes) :
    sshLang d = true ↔
      ∃ v rest, d = sshMagic ++ v ++ 45 :: rest ∧ (∀ b ∈ v, isDigit b = true ∨ b = 46) ∧
        [13, 10] <:+: rest := by
  unfold sshLang
  rw [Bool.and_eq_true, List.isPrefixOf_iff_prefix, verTail_iff]
  constructor
  · rintro ⟨⟨t, rfl⟩, v, rest, he, hv, hr⟩
    refine ⟨v, rest, ?_, ?_, hr⟩
    · have : (sshMagic ++ t).drop 4 = t := by simp [sshMagic]
      rw [this] at he
      rw [he, List.append_assoc]
    · intro b hb
      have := hv b hb
      simpa [verCh] using this
  · rintro ⟨v, rest, rfl, hv, hr⟩
    refine ⟨⟨v ++ 45 :: rest, by simp⟩, v, rest, by simp [sshMagic], ?_, hr⟩
    intro b hb
    have := hv b hb
    simpa [verCh] using this

/-- the version ends at the first '-': with no '-' in `v` the split is the one the recogniser uses -/
theorem verTail_split (v rest : Bytes) (h : (45 : UInt8) ∉ v) :
    verTail (v ++ 45 :: rest) = (v.all verCh && crlfIn rest) := by
  induction v with
  | nil => simp [verTail]
  | cons b v ih =>
    have hb : b ≠ 45 := fun e => h (by simp [e])
    have hv : (45 : UInt8) ∉ v := fun e => h (List.mem_cons_of_mem _ e)
    rw [List.cons_append, verTail, if_neg hb, ih hv, List.all_cons]
    cases verCh b <;> simp

theorem sshLang_split (v rest : Bytes) (h : (45 : UInt8) ∉ v) :
    sshLang (sshMagic ++ v ++ 45 :: rest) = (v.all verCh && crlfIn rest) := by
  unfold sshLang
  have h1 : sshMagic.isPrefixOf (sshMagic ++ v ++ 45 :: rest) = true := by
    rw [List.isPrefixOf_iff_prefix, List.append_assoc]; exact List.prefix_append _ _
  have h2 : (sshMagic ++ v ++ 45 :: rest).drop 4 = v ++ 45 :: rest := by simp [sshMagic]
  rw [h1, h2, verTail_split v rest h]; simp

/-! ### the FSM -/

theorem fold_eob (d : Bytes) : d.foldl sshByte .eob = .eob := by
  induction d with
  | nil => rfl
  | cons b t ih => simpa [List.foldl_cons, sshByte] using ih

theorem fold_fail (d : Bytes) : d.foldl sshByte .fail = .fail := by
  induction d with
  | nil => rfl
  | cons b t ih => simpa [List.foldl_cons, sshByte] using ih

/-- software / comment / the two look-behind states -/
def tailSt (s : SshSt) : Prop := s = .software ∨ s = .comment ∨ s = .lfSw ∨ s = .lfCm
def lfSt (s : SshSt) : Prop := s = .lfSw ∨ s = .lfCm

theorem swStep_tail (b : UInt8) : tailSt (sshSwStep b) ∧ (lfSt (sshSwStep b) ↔ b = 13) := by
  unfold sshSwStep tailSt lfSt
  by_cases h13 : b = 13
  · simp [h13]
  · by_cases h32 : b = 32 <;> simp [h13, h32]

theorem cmStep_tail (b : UInt8) : tailSt (sshCmStep b) ∧ (lfSt (sshCmStep b) ↔ b = 13) := by
  unfold sshCmStep tailSt lfSt
  by_cases h13 : b = 13 <;> simp [h13]

/-- from a tail state one byte either ends the banner (pending CR, byte LF) or leads to a tail state,
    which is a pending-CR state iff the byte is CR -/
theorem step_tail (s : SshSt) (b : UInt8) (hs : tailSt s) :
    (lfSt s ∧ b = 10 ∧ sshByte s b = .eob) ∨
    (¬ (lfSt s ∧ b = 10) ∧ tailSt (sshByte s b) ∧ (lfSt (sshByte s b) ↔ b = 13)) := by
  rcases hs with rfl | rfl | rfl | rfl
  · right; exact ⟨by simp [lfSt], swStep_tail b⟩
  · right; exact ⟨by simp [lfSt], cmStep_tail b⟩
  · by_cases h : b = 10
    · left; simp [lfSt, h, sshByte]
    · right; simp only [sshByte, h, ↓reduceIte]; exact ⟨by simp, swStep_tail b⟩
  · by_cases h : b = 10
    · left; simp [lfSt, h, sshByte]
    · right; simp only [sshByte, h, ↓reduceIte]; exact ⟨by simp, cmStep_tail b⟩

theorem tail_ne_eob {s : SshSt} (hs : tailSt s) : s ≠ .eob := by
  rcases hs with rfl | rfl | rfl | rfl <;> simp

/-- the tail part: from a tail state the banner is accepted iff (a CR is pending and the next byte is
    LF) or CR LF occurs in the remaining bytes -/
theorem fold_tail (d : Bytes) (s : SshSt) (hs : tailSt s) :
    d.foldl sshByte s = .eob ↔ (lfSt s ∧ d.head? = some 10) ∨ crlfIn d = true := by
  induction d generalizing s with
  | nil => simp [crlfIn, tail_ne_eob hs]
  | cons b t ih =>
    rw [List.foldl_cons]
    rcases step_tail s b hs with ⟨hl, hb, he⟩ | ⟨hn, ht, hlf⟩
    · rw [he, fold_eob]; simp [hl, hb]
    · rw [ih _ ht, hlf]
      have : ¬ (lfSt s ∧ (b :: t).head? = some 10) := by simpa using hn
      simp only [this, false_or, crlfIn, Bool.or_eq_true, Bool.and_eq_true, beq_iff_eq]

theorem fold_version (d : Bytes) : d.foldl sshByte .version = .eob ↔ verTail d = true := by
  induction d with
  | nil => simp [verTail]
  | cons b t ih =>
    rw [List.foldl_cons]
    unfold verTail
    by_cases h45 : b = 45
    · subst h45
      have : sshByte .version 45 = .software := by simp [sshByte]
      rw [this, fold_tail _ _ (.inl rfl)]
      simp [lfSt]
    · by_cases hv : verCh b = true
      · have : sshByte .version b = .version := by
          simp only [sshByte, h45, ↓reduceIte]
          simp only [verCh, Bool.or_eq_true, beq_iff_eq] at hv
          rcases hv with hv | hv <;> simp [hv]
        rw [this, ih]; simp [h45, hv]
      · have : sshByte .version b = .fail := by
          simp only [sshByte, h45, ↓reduceIte]
          simp only [verCh, Bool.or_eq_true, beq_iff_eq, not_or] at hv
          simp [hv.1, hv.2]
        rw [this, fold_fail]; simp [h45, hv]

theorem pre_step (n : Nat) (c a : UInt8) (h : sshMagic[n]? = some c) :
    sshByte (.pre n) a = if a = c then (if n = 3 then .version else .pre (n + 1)) else .fail := by
  simp only [sshByte, h, Option.some.injEq]
  by_cases hc : a = c
  · simp [hc]
  · simp [hc, Ne.symm hc]

theorem fold_pre3 (d : Bytes) :
    d.foldl sshByte (.pre 3) = .eob ↔ ([45].isPrefixOf d && verTail (d.drop 1)) = true := by
  cases d with
  | nil => simp
  | cons a t =>
    rw [List.foldl_cons, pre_step 3 45 a rfl]
    by_cases h : a = 45
    · simp [h, fold_version]
    · simp [h, Ne.symm h, fold_fail]

theorem fold_pre2 (d : Bytes) :
    d.foldl sshByte (.pre 2) = .eob ↔ ([72, 45].isPrefixOf d && verTail (d.drop 2)) = true := by
  cases d with
  | nil => simp
  | cons a t =>
    rw [List.foldl_cons, pre_step 2 72 a rfl]
    by_cases h : a = 72
    · simp [h, fold_pre3]
    · simp [h, Ne.symm h, fold_fail]

theorem fold_pre1 (d : Bytes) :
    d.foldl sshByte (.pre 1) = .eob ↔ ([83, 72, 45].isPrefixOf d && verTail (d.drop 3)) = true := by
  cases d with
  | nil => simp
  | cons a t =>
    rw [List.foldl_cons, pre_step 1 83 a rfl]
    by_cases h : a = 83
    · simp [h, fold_pre2]
    · simp [h, Ne.symm h, fold_fail]

theorem fold_pre_eob (d : Bytes) : d.foldl sshByte (.pre 0) = .eob ↔ sshLang d = true := by
  unfold sshLang sshMagic
  cases d with
  | nil => simp
  | cons a t =>
    rw [List.foldl_cons, pre_step 0 83 a rfl]
    by_cases h : a = 83
    · simp [h, fold_pre1]
    · simp [h, Ne.symm h, fold_fail]

/-! ### the checked `i -= 1` -/

/-- invariant "pending CR → at least one byte consumed": the loop never reaches the underflow -/
theorem sshLoop_ok (d : Bytes) (s : SshSt) (pos : Nat) (h : lfSt s → pos ≥ 1) :
    sshLoop s d pos = .ok (d.foldl sshByte s) := by
  induction d generalizing s pos with
  | nil => rfl
  | cons b t ih =>
    rw [sshLoop, List.foldl_cons]
    have hc : ¬ ((s = .lfSw ∨ s = .lfCm) ∧ b ≠ 10 ∧ pos = 0) := by
      rintro ⟨h1, _, h3⟩
      have := h h1
      omega
    rw [if_neg hc]
    exact ih _ _ (fun _ => by omega)

end Masscanned.C18
