/-
  Proofs/HttpFix/Requests — after the repair of `http::repl` (the stored parser state is reset once a
  request has been answered, `*pstate = ProtocolState::new()`): vocabulary and helper lemmas for "EVERY
  request of a TCP connection is answered, and what is not a request is not" (Thm/C13 §7): the reset
  (`httpRepl_reset`), the responder from the initial state with the state it stores (`httpRepl_fresh_*`),
  the absorbing FAIL state, control blocks of an identified HTTP flow whose stored parser state is the
  initial one (`FreshHttp`), and `proto::repl` on them.  Same pattern as Proofs/RpcFix/Calls.
-/
import Masscanned.Proofs.C13.Silent
import Masscanned.Proofs.C13.Verb
import Masscanned.Proofs.C13.Lang
import Masscanned.Proofs.C11.Feed
open Masscanned
namespace Masscanned.C13
open Spec Aux

/-! ### `http::repl`: the reset -/

/-- whenever `http::repl` answers, from whatever stored state, the reply is the fixed 401 response and
    the state it stores is the initial one -/
theorem httpRepl_reset {env : Env} {s s' : HttpSt} {d r : Bytes}
    (h : httpRepl env s d = .ok (s', some r)) : s' = {} ∧ r = httpReplyBytes env := by
  unfold httpRepl at h
  split at h
  · cases h
  · split at h
    · simp only [Except.ok.injEq, Prod.mk.injEq, Option.some.injEq] at h
      exact ⟨h.1.symm, h.2.symm⟩
    · simp only [Except.ok.injEq, Prod.mk.injEq] at h
      exact absurd h.2 (by simp)

/-- a stored state is never the final state CONTENT of the parser -/
theorem httpRepl_not_content {env : Env} {s s' : HttpSt} {d : Bytes} {o : Option Bytes}
    (h : httpRepl env s d = .ok (s', o)) : s'.state ≠ .content := by
  unfold httpRepl at h
  split at h
  · cases h
  · split at h
    · simp only [Except.ok.injEq, Prod.mk.injEq] at h
      rw [← h.1]; decide
    · rename_i hc
      simp only [Except.ok.injEq, Prod.mk.injEq] at h
      rw [← h.1]; exact hc

/-- `http::repl` in terms of `http_parse` -/
theorem httpRepl_of_parse {env : Env} {s ps' : HttpSt} {d : Bytes} (h : httpParse s d = .ok ps') :
    httpRepl env s d =
      .ok (if ps'.state = .content then ({}, some (httpReplyBytes env)) else (ps', none)) := by
  unfold httpRepl
  rw [h]
  by_cases hc : ps'.state = .content
  · simp only [hc, if_true]
  · simp only [hc, if_false]

/-! ### from the initial state -/

/-- a member of the answered language: the 401 response, and the state stored is the initial one again -/
theorem httpRepl_fresh_answered (env : Env) (p : Bytes) (h : Answered p) :
    httpRepl env {} p = .ok ({}, some (httpReplyBytes env)) := by
  obtain ⟨m, rest, rfl, hm, ht⟩ := h
  rw [httpRepl_of_parse (parse_method m rest hm)]
  have : httpFold .space rest = .content := (Aux.fsm_language rest).2 ht
  simp only [this, if_true]

/-- outside the answered language: no failure, no reply; the stored state is START (empty payload), VERB
    (the matcher is still inside a method name), FAIL, or — after a method — a state of the byte FSM
    other than CONTENT -/
theorem httpRepl_fresh_silent (env : Env) (p : Bytes) (h : ¬ Answered p) :
    ∃ s, httpRepl env {} p = .ok (s, none) ∧ s.state ≠ .content ∧
      ((∃ m rest, p = m ++ rest ∧ m.map lowerB ∈ httpMethods.map (·.map lowerB) ∧
          s.state = httpFold .space rest) ∨
        (p = [] ∧ s = {}) ∨ (p ≠ [] ∧ s.state = .verb) ∨ s.state = .fail) := by
  by_cases hp : p = []
  · subst hp
    exact ⟨{}, rfl, by decide, .inr (.inl ⟨rfl, rfl⟩)⟩
  · obtain ⟨ps', h1, h2⟩ := parse_start p hp
    have hnc : ps'.state ≠ .content := by
      rcases h2 with ⟨m, rest, hpm, hm, hs, _⟩ | hv | hf
      · intro hc
        exact h ⟨m, rest, hpm, hm, (Aux.fsm_language rest).1 (hs ▸ hc)⟩
      · rw [hv]; decide
      · rw [hf]; decide
    refine ⟨ps', ?_, hnc, ?_⟩
    · rw [httpRepl_of_parse h1]
      simp only [hnc, if_false]
    · rcases h2 with ⟨m, rest, hpm, hm, hs, _⟩ | hv | hf
      · exact .inl ⟨m, rest, hpm, hm, hs⟩
      · exact .inr (.inr (.inl ⟨hp, hv⟩))
      · exact .inr (.inr (.inr hf))

/-- a payload that does not even start with a method (any letter case): no reply, and the parser is in
    START (empty payload), still in VERB, or in FAIL — never past the verb -/
theorem httpRepl_fresh_junk (env : Env) (p : Bytes) (h : ¬ NocaseMethodPrefix p) :
    ∃ s, httpRepl env {} p = .ok (s, none) ∧
      ((p = [] ∧ s = {}) ∨ (p ≠ [] ∧ s.state = .verb) ∨ s.state = .fail) := by
  have hna : ¬ Answered p := by
    rintro ⟨m, rest, hp, hm, _⟩
    exact h ⟨m, rest, hp, hm⟩
  obtain ⟨s, h1, _, h2⟩ := httpRepl_fresh_silent env p hna
  refine ⟨s, h1, ?_⟩
  rcases h2 with ⟨m, rest, hp, hm, _⟩ | h2
  · exact absurd ⟨m, rest, hp, hm⟩ h
  · exact h2

/-- `Spec.nocaseMethodPrefix` is the executable form of `NocaseMethodPrefix` -/
theorem nocaseMethodPrefix_iff (p : Bytes) : Spec.nocaseMethodPrefix p = true ↔ NocaseMethodPrefix p :=
  (nocase_iff p).symm

/-! ### the FAIL state is absorbing -/

theorem httpParse_past (ps : HttpSt) (hs : ps.state ≠ .start ∧ ps.state ≠ .verb) (d : Bytes) :
    httpParse ps d = .ok { ps with state := httpFold ps.state d } := by
  unfold httpParse
  split
  · rename_i h; exact absurd h hs.1
  · rename_i h; exact absurd h hs.2
  · rfl

/-- once the parser has failed nothing is answered any more on that connection, whatever is sent, and
    the stored state does not change -/
theorem httpRepl_fail (env : Env) (s : HttpSt) (hs : s.state = .fail) (d : Bytes) :
    httpRepl env s d = .ok (s, none) := by
  rw [httpRepl_of_parse (httpParse_past s (by rw [hs]; exact ⟨by decide, by decide⟩) d), hs, fold_fail]
  simp only [show (HSt.fail = HSt.content) = False from by simp, if_false]
  obtain ⟨a, b, c⟩ := s
  simp only at hs
  subst hs
  rfl

/-! ### control blocks of an identified HTTP flow -/

/-- control block of a flow identified as HTTP whose stored parser state is the initial one
    (`protoState = none` only occurs inside `proto::repl`, between identification and the handler) -/
def FreshHttp (t : Tcb) : Prop :=
  t.protoId = PROTO_HTTP ∧ (t.protoState = none ∨ t.protoState = some (.http {}))

/-- the block stored after an answered request -/
def resetBlock (t : Tcb) : Tcb := { t with protoState := some (.http {}) }

theorem freshHttp_resetBlock {t : Tcb} (h : t.protoId = PROTO_HTTP) : FreshHttp (resetBlock t) := ⟨h, .inr rfl⟩

theorem resetBlock_idem (t : Tcb) : resetBlock (resetBlock t) = resetBlock t := rfl

/-- the SYN-cookie gate of `proto::repl` is open (the same proposition as `E2E.Gate`, `C11.HasCookie`,
    `C16.GateOpen`) -/
abbrev GateOpen (ci : ClientInfo) : Prop := ¬(ci.transport = some 6 ∧ ci.cookie = none)

theorem protoHandle_http_of_fresh (cfg : Cfg) (env : Env) (ci : ClientInfo) (t : Tcb)
    (ht : t.protoState = none ∨ t.protoState = some (.http {})) (d : Bytes) :
    protoHandle cfg env PROTO_HTTP ci (some t) d =
      match httpRepl env {} d with
      | .error e => .error e
      | .ok (s', r) => .ok (ci, some { t with protoState := some (.http s') }, r) := by
  unfold protoHandle
  rw [if_pos rfl]
  rcases ht with ht | ht <;> simp only [ht] <;>
    (cases httpRepl env {} d with
     | error e => rfl
     | ok q => obtain ⟨s', r⟩ := q; rfl)

theorem protoHandle_http_of_state (cfg : Cfg) (env : Env) (ci : ClientInfo) (t : Tcb) (ps : HttpSt)
    (ht : t.protoState = some (.http ps)) (d : Bytes) :
    protoHandle cfg env PROTO_HTTP ci (some t) d =
      match httpRepl env ps d with
      | .error e => .error e
      | .ok (s', r) => .ok (ci, some { t with protoState := some (.http s') }, r) := by
  unfold protoHandle
  rw [if_pos rfl]
  simp only [ht]
  cases httpRepl env ps d with
  | error e => rfl
  | ok p => obtain ⟨s', r⟩ := p; rfl

theorem protoRepl_of_identified (cfg : Cfg) (env : Env) (ci : ClientInfo) (hg : GateOpen ci) (t : Tcb)
    (hid : t.protoId ≠ PROTO_NONE) (d : Bytes) :
    protoRepl cfg env ci (some t) d = protoHandle cfg env t.protoId ci (some t) d := by
  unfold protoRepl
  rw [if_neg hg]
  simp only [if_neg hid]

/-- **the n-th request**: `proto::repl` on a flow identified as HTTP whose stored parser state is the
    initial one: a payload of the answered language gets the 401 response and the block stored
    afterwards has the initial parser state again (and is otherwise unchanged) -/
theorem protoRepl_fresh_request (cfg : Cfg) (env : Env) (ci : ClientInfo) (hg : GateOpen ci) (t : Tcb)
    (hf : FreshHttp t) (p : Bytes) (hp : Answered p) :
    protoRepl cfg env ci (some t) p = .ok (ci, some (resetBlock t), some (httpReplyBytes env)) := by
  rw [protoRepl_of_identified cfg env ci hg t (by rw [hf.1]; decide), hf.1,
    protoHandle_http_of_fresh cfg env ci t hf.2, httpRepl_fresh_answered env p hp]
  rfl

/-- … and a payload outside the answered language gets no reply (bare ACK); the block only records the
    parser state `s` reached -/
theorem protoRepl_fresh_silent (cfg : Cfg) (env : Env) (ci : ClientInfo) (hg : GateOpen ci) (t : Tcb)
    (hf : FreshHttp t) (p : Bytes) (hp : ¬ Answered p) :
    ∃ s, httpRepl env {} p = .ok (s, none) ∧
      protoRepl cfg env ci (some t) p = .ok (ci, some { t with protoState := some (.http s) }, none) := by
  obtain ⟨s, hs, _⟩ := httpRepl_fresh_silent env p hp
  refine ⟨s, hs, ?_⟩
  rw [protoRepl_of_identified cfg env ci hg t (by rw [hf.1]; decide), hf.1,
    protoHandle_http_of_fresh cfg env ci t hf.2, hs]
  simp only [hf.1]

/-- a block whose stored parser state is FAIL: nothing is answered, nothing changes -/
theorem protoRepl_failed (cfg : Cfg) (env : Env) (ci : ClientInfo) (hg : GateOpen ci) (t : Tcb)
    (hid : t.protoId = PROTO_HTTP) (s : HttpSt) (hs : t.protoState = some (.http s)) (hfail : s.state = .fail)
    (d : Bytes) : protoRepl cfg env ci (some t) d = .ok (ci, some t, none) := by
  rw [protoRepl_of_identified cfg env ci hg t (by rw [hid]; decide), hid,
    protoHandle_http_of_state cfg env ci t s hs, httpRepl_fail env s hfail]
  obtain ⟨a, b, c⟩ := t
  simp only at hs
  subst hs
  rfl

end Masscanned.C13
