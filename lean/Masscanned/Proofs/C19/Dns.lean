/-
  Proofs/C19/Dns — blanking RDLENGTH+RDATA of every answer of a `dnsRepl` reply leaves bytes that do not
  depend on the client info; whether `dnsRepl` answers does not depend on it either.
-/
import Masscanned.Proofs.C19.Defs
import Masscanned.Proofs.C14.Reparse
namespace Masscanned.C19
open Masscanned Masscanned.C14 Masscanned.DnsFix

/-- the mask delimits names exactly as the model's label-wise reader does -/
theorem nameEndL_eq : ∀ (p : Bytes) (left : Nat), nameEndL left p = rawSplit left p := by
  intro p
  induction p with
  | nil => intro left; simp [nameEndL, rawSplit]
  | cons b t ih =>
    intro left
    unfold nameEndL rawSplit
    split
    · rw [ih]
      cases rawSplit (left - 1) t with
      | none => rfl
      | some x => rfl
    · split
      · rfl
      · rw [ih]
        cases rawSplit b.toNat t with
        | none => rfl
        | some x => rfl

theorem nameEnd_raw (n : Bytes) (hn : IsRaw n) (rest : Bytes) : nameEnd (n ++ rest) = some (n, rest) := by
  unfold nameEnd
  rw [nameEndL_eq, rawSplit_raw hn]

/-- the part of a reply that survives the blanking of one answer -/
def answerKept (q : DnsQ) : Bytes := q.name ++ [0, 1, 0, 1, 0, 0, 168, 192]

theorem keepQs_echo : ∀ (qs : List DnsQ), (∀ q ∈ qs, IsRaw q.name) →
    ∀ rest, keepQs qs.length ((qs.map (fun q => q.name ++ [0, 1, 0, 1])).flatten ++ rest) =
      some ((qs.map (fun q => q.name ++ [0, 1, 0, 1])).flatten, rest) := by
  intro qs
  induction qs with
  | nil => intro _ rest; rfl
  | cons q t ih =>
    intro h rest
    have hn := h q (by simp)
    simp only [List.length_cons, List.map_cons, List.flatten_cons, List.append_assoc, keepQs]
    rw [nameEnd_raw q.name hn]
    simp only
    rw [if_neg (by simp)]
    have : List.drop 4 ([0, 1, 0, 1] ++ ((t.map (fun q => q.name ++ [0, 1, 0, 1])).flatten ++ rest)) =
        (t.map (fun q => q.name ++ [0, 1, 0, 1])).flatten ++ rest := by simp
    rw [this, ih (fun x hx => h x (by simp [hx]))]
    simp

theorem keepRRs_answers (ci : ClientInfo) (hrd : (rdataOf ci).length < 65536) : ∀ (qs : List DnsQ),
    (∀ q ∈ qs, IsRaw q.name) →
    ∀ rest, keepRRs qs.length ((qs.map (dnsAnswer ci.ipDst)).flatten ++ rest) =
      some ((qs.map answerKept).flatten ++ rest) := by
  intro qs
  induction qs with
  | nil => intro _ rest; rfl
  | cons q t ih =>
    intro h rest
    have hn := h q (by simp)
    simp only [List.length_cons, List.map_cons, List.flatten_cons, List.append_assoc, keepRRs]
    rw [dnsAnswer_eq]
    simp only [List.append_assoc]
    rw [nameEnd_raw q.name hn]
    have h32 : u32be 43200 = [0, 0, 168, 192] := by decide
    generalize hT : (t.map (dnsAnswer ci.ipDst)).flatten ++ rest = T at ih ⊢
    have he : [0, 1, 0, 1] ++ (u32be 43200 ++ (u16be (rdataOf ci).length ++ (rdataOf ci ++ T))) =
        [0, 1, 0, 1, 0, 0, 168, 192] ++ (u16be (rdataOf ci).length ++ (rdataOf ci ++ T)) := by
      rw [h32]; rfl
    simp only
    rw [he]
    have hlen : rdBE (slice ([0, 1, 0, 1, 0, 0, 168, 192] ++ (u16be (rdataOf ci).length ++ (rdataOf ci ++ T))) 8 2)
        = (rdataOf ci).length := by
      rw [rdBE_slice2 _ 8 (by simp [u16be])]
      exact u16be_be16 _ hrd _
    rw [hlen, if_neg (by simp [u16be]; omega)]
    have hdrop : List.drop (10 + (rdataOf ci).length)
        ([0, 1, 0, 1, 0, 0, 168, 192] ++ (u16be (rdataOf ci).length ++ (rdataOf ci ++ T))) = T := by
      have e : [0, 1, 0, 1, 0, 0, 168, 192] ++ (u16be (rdataOf ci).length ++ (rdataOf ci ++ T)) =
          ([0, 1, 0, 1, 0, 0, 168, 192] ++ u16be (rdataOf ci).length ++ rdataOf ci) ++ T := by simp
      rw [e, List.drop_left' (by simp [u16be]; omega)]
    rw [hdrop, ← hT, ih (fun x hx => h x (by simp [hx]))]
    simp [answerKept, u16be]

theorem masked_dns (r : Bytes) : masked .dns r =
    if r.length < 12 then none
    else match keepQs (rdBE (slice r 4 2)) (r.drop 12) with
      | none => none
      | some (qs, rest) =>
        match keepRRs (rdBE (slice r 6 2)) rest with
        | none => none
        | some k => some (r.take 12 ++ qs ++ k) := rfl

/-- blanking a reply of `dnsRepl` (to a message `dnsParse` produced): what is left does not mention the
    client info -/
theorem masked_dnsRepl {p r : Bytes} {m : DnsMsg} {ci : ClientInfo}
    (hm : dnsParse p = some m) (hr : dnsRepl ci m = some r) (hrd : (rdataOf ci).length < 65536) :
    masked .dns r = some (u16be m.id ++ [byte (128 + m.flags / 2048 % 16 * 8 + 4 + m.flags / 256 % 2), 0] ++
      u16be m.qdcount ++ u16be m.qdcount ++ [0, 0, 0, 0] ++
      (m.qd.map (fun q => q.name ++ [0, 1, 0, 1])).flatten ++ (m.qd.map answerKept).flatten) := by
  obtain ⟨_, _, _, hqd, hqc, _, _, rest0, hqs0, _⟩ := dnsParse_some hm
  have hq : m.qdcount < 65536 := by rw [hqd]; exact be16_lt p 4
  have hnames := dnsReadQs_names _ _ _ _ hqs0
  obtain ⟨_, _, rfl⟩ := dnsRepl_some hr
  generalize hQ : (m.qd.map (fun q => q.name ++ [0, 1, 0, 1])).flatten = Q
  generalize hA : (m.qd.map (dnsAnswer ci.ipDst)).flatten = A
  generalize byte (128 + m.flags / 2048 % 16 * 8 + 4 + m.flags / 256 % 2) = fb
  have h4 : rdBE (slice (u16be m.id ++ [fb, 0] ++ u16be m.qdcount ++ u16be m.qdcount ++ [0, 0, 0, 0] ++ Q ++ A) 4 2)
      = m.qd.length := by
    simp [u16be, slice, rdBE, byte_toNat]; omega
  have h6 : rdBE (slice (u16be m.id ++ [fb, 0] ++ u16be m.qdcount ++ u16be m.qdcount ++ [0, 0, 0, 0] ++ Q ++ A) 6 2)
      = m.qd.length := by
    simp [u16be, slice, rdBE, byte_toNat]; omega
  have hd : (u16be m.id ++ [fb, 0] ++ u16be m.qdcount ++ u16be m.qdcount ++ [0, 0, 0, 0] ++ Q ++ A).drop 12 = Q ++ A := by
    simp [u16be]
  have ht : (u16be m.id ++ [fb, 0] ++ u16be m.qdcount ++ u16be m.qdcount ++ [0, 0, 0, 0] ++ Q ++ A).take 12 =
      u16be m.id ++ [fb, 0] ++ u16be m.qdcount ++ u16be m.qdcount ++ [0, 0, 0, 0] := by
    simp [u16be]
  have hl : ¬ (u16be m.id ++ [fb, 0] ++ u16be m.qdcount ++ u16be m.qdcount ++ [0, 0, 0, 0] ++ Q ++ A).length < 12 := by
    simp [u16be]
  rw [masked_dns, if_neg hl, h4, h6, hd, ht, ← hQ, keepQs_echo m.qd hnames]
  simp only
  have := keepRRs_answers ci hrd m.qd hnames []
  rw [List.append_nil, List.append_nil] at this
  rw [← hA, this]

/-- whether `dnsRepl` answers is decided by the message alone -/
theorem dnsRepl_isSome (ci ci' : ClientInfo) (m : DnsMsg) : (dnsRepl ci m).isSome = (dnsRepl ci' m).isSome := by
  unfold dnsRepl
  split
  · rfl
  · split <;> rfl

theorem rdataOf_length {ci : ClientInfo} {a : Ip} (h : ci.ipDst = some a) (hw : wfIp a) :
    (rdataOf ci).length < 65536 := by
  unfold rdataOf
  rw [h]
  cases a with
  | v4 x => simp only [wfIp] at hw; simp only; omega
  | v6 x => simp

/-- the DNS fallback for two client infos: both silent, or both answer with replies equal up to
    RDLENGTH+RDATA -/
theorem dns_related {ci ci' : ClientInfo} {a a' : Ip} (h : ci.ipDst = some a) (hw : wfIp a)
    (h' : ci'.ipDst = some a') (hw' : wfIp a') (d : Bytes) :
    sameReply .dns ((dnsParse d).bind (dnsRepl ci)) ((dnsParse d).bind (dnsRepl ci')) = true := by
  cases hm : dnsParse d with
  | none => rfl
  | some m =>
    simp only [Option.bind_some]
    have hs := dnsRepl_isSome ci ci' m
    cases hr : dnsRepl ci m with
    | none =>
      rw [hr] at hs
      cases hr' : dnsRepl ci' m with
      | none => rfl
      | some r' => rw [hr'] at hs; cases hs
    | some r =>
      rw [hr] at hs
      cases hr' : dnsRepl ci' m with
      | none => rw [hr'] at hs; cases hs
      | some r' =>
        simp only [sameReply, sameAs]
        rw [masked_dnsRepl hm hr (rdataOf_length h hw), masked_dnsRepl hm hr' (rdataOf_length h' hw')]
        simp

end Masscanned.C19
