/-
  Proofs/C19/Defs — vocabulary of property C19 (part of the theorem statements):
  * `masked k r`: what is left of an application reply of kind `k` once the endpoint-carrying fields are
    blanked (`none`: the reply has no such field — it must then be byte-identical);
  * `sameReply k o o'`, `sameUpToEndpoint o o'`: two (optional) replies are equal up to those fields;
  * `protoId`, `respond`: the two halves of `proto::repl` (identification, which never looks at the client
    info, and the responder call);
  * `Endpoints ci`, `bump ci n`.
-/
import Masscanned.Model.Net
namespace Masscanned.C19
open Masscanned

/-- which endpoint-carrying fields a reply may contain -/
inductive Kind where
  /-- none: HTTP, SSH, SMB, ghost, silence -/
  | plain
  /-- STUN Binding Success Response: MAPPED-ADDRESS -/
  | stun
  /-- ONC-RPC reply in a datagram: results of a successful portmapper call -/
  | rpc
  /-- ONC-RPC reply behind a TCP record mark -/
  | rpcTcp
  /-- DNS response: RDLENGTH + RDATA of every answer record -/
  | dns
  deriving DecidableEq, Repr

/-- message type REPLY, reply_stat MSG_ACCEPTED, verifier AUTH_NONE of length 0, accept_stat SUCCESS
    (the 20 bytes that follow the xid) -/
def rpcSuccessHdr : Bytes := [0, 0, 0, 1,  0, 0, 0, 0,  0, 0, 0, 0,  0, 0, 0, 0,  0, 0, 0, 0]

/-- a domain name as the responder delimits it (after the repair of the DNS dissectors, and as RFC 1035
    does): label by label — a length octet, then that many octets of ANY value — up to and including the
    zero length octet.  `left` = octets of the current label still to come.
    (Before the repair this was "everything up to and including the first 0x00"; with a 0x00 inside a label
    that reading cuts the echoed names of a reply in the wrong place, so RDLENGTH+RDATA would not be what
    gets blanked.) -/
def nameEndL : Nat → Bytes → Option (Bytes × Bytes)
  | _, [] => none
  | left, b :: t =>
    if left > 0 then
      match nameEndL (left - 1) t with
      | none => none
      | some (n, r) => some (b :: n, r)
    else if b = 0 then some ([0], t)
    else match nameEndL b.toNat t with
      | none => none
      | some (n, r) => some (b :: n, r)

def nameEnd (d : Bytes) : Option (Bytes × Bytes) := nameEndL 0 d

/-- `n` questions (name, type, class) are kept entirely; returns them and what follows -/
def keepQs : Nat → Bytes → Option (Bytes × Bytes)
  | 0, d => some ([], d)
  | n + 1, d =>
    match nameEnd d with
    | none => none
    | some (nm, t) =>
      if t.length < 4 then none
      else match keepQs n (t.drop 4) with
        | none => none
        | some (k, r) => some (nm ++ t.take 4 ++ k, r)

/-- of each of `n` resource records keep name, type, class, TTL (name + 8 bytes) and DROP the 2-byte
    RDLENGTH and the RDATA it announces; whatever follows the last record is kept -/
def keepRRs : Nat → Bytes → Option Bytes
  | 0, d => some d
  | n + 1, d =>
    match nameEnd d with
    | none => none
    | some (nm, t) =>
      if t.length < 10 + rdBE (slice t 8 2) then none
      else match keepRRs n (t.drop (10 + rdBE (slice t 8 2))) with
        | none => none
        | some k => some (nm ++ t.take 8 ++ k)

/-- the bytes of a reply of kind `k` that must NOT depend on the endpoints; `none` when the reply has no
    endpoint-carrying field of that kind at all.
    * STUN success response (`01 01`, first attribute MAPPED-ADDRESS `00 01`, length field consistent):
      keep `01 01`, the 16-byte transaction id (magic cookie included) and the attribute type; blank the
      header's length field and everything after the attribute type.
    * ONC-RPC accepted reply, accept_stat SUCCESS, non-empty results: keep the 24 header bytes (xid …
      accept_stat), blank the results.  Behind a record mark: additionally blank the 31-bit length of the
      mark (its last-fragment bit is kept).
    * DNS message whose question and answer sections parse: keep the 12-byte header, the questions, and
      name/type/class/TTL of each answer; blank RDLENGTH+RDATA of each answer. -/
def masked : Kind → Bytes → Option Bytes
  | .plain, _ => none
  | .stun, r =>
    if r.take 2 = [1, 1] ∧ slice r 20 2 = [0, 1] ∧ 20 + rdBE (slice r 2 2) = r.length
    then some (r.take 2 ++ slice r 4 18) else none
  | .rpc, r =>
    if slice r 4 20 = rpcSuccessHdr ∧ 24 < r.length then some (r.take 24) else none
  | .rpcTcp, r =>
    if slice r 8 20 = rpcSuccessHdr ∧ 28 < r.length then some (byte (at8 r 0 / 128) :: slice r 4 24) else none
  | .dns, r =>
    if r.length < 12 then none
    else match keepQs (rdBE (slice r 4 2)) (r.drop 12) with
      | none => none
      | some (qs, rest) =>
        match keepRRs (rdBE (slice r 6 2)) rest with
        | none => none
        | some k => some (r.take 12 ++ qs ++ k)

/-- two replies of kind `k` agree outside the endpoint-carrying fields: both have such fields and what is
    left after blanking is the same, or they are byte-identical -/
def sameAs (k : Kind) (r r' : Bytes) : Bool :=
  match masked k r, masked k r' with
  | some a, some b => decide (a = b)
  | _, _ => decide (r = r')

/-- the same for the optional reply: answered or not is part of it -/
def sameReply (k : Kind) : Option Bytes → Option Bytes → Bool
  | none, none => true
  | some r, some r' => sameAs k r r'
  | _, _ => false

/-- **the relation of C19** on application replies, without knowing the responder -/
def sameUpToEndpoint (o o' : Option Bytes) : Bool :=
  sameReply .plain o o' || sameReply .stun o o' || sameReply .rpc o o' || sameReply .rpcTcp o o' ||
  sameReply .dns o o'

/-- which fields the responder selected by `id` may fill from the endpoints
    (`noMatch`: the DNS fallback, or nobody) -/
def kindOf (id : Nat) : Kind :=
  if id = PROTO_STUN then .stun
  else if id = PROTO_RPC_TCP then .rpcTcp
  else if id = PROTO_RPC_UDP then .rpc
  else if id = noMatch then .dns
  else .plain

/-! ### the two halves of `proto::repl` -/

/-- protocol identification: the id `proto::repl` settles on and the control block it hands to the
    responder.  No client info among the arguments. -/
def protoId (tcb : Option Tcb) (d : Bytes) : Except Site (Nat × Option Tcb) :=
  match tcb with
  | some t =>
    if t.protoId = PROTO_NONE then
      match protoTbl.searchNext t.smackState d with
      | .error e => .error e
      | .ok (id, st, _) => .ok (id, some { t with protoId := id, smackState := st })
    else .ok (t.protoId, some t)
  | none =>
    match protoTbl.searchNext baseState d with
    | .error e => .error e
    | .ok (id, st, _) =>
      if id = noMatch then
        match protoTbl.searchNextEnd st with
        | .error e => .error e
        | .ok (id', _) => .ok (id', none)
      else .ok (id, none)

/-- the responder call: the DNS fallback (datagrams only, when no signature matched), else the handler
    of `id` -/
def respond (cfg : Cfg) (env : Env) (id : Nat) (ci : ClientInfo) (tcb : Option Tcb) (d : Bytes) :
    Except Site (ClientInfo × Option Tcb × Option Bytes) :=
  if id = noMatch ∧ tcb = none then
    match (dnsParse d).bind (dnsRepl ci) with
    | some r => .ok (ci, none, some r)
    | none => protoHandle cfg env id ci none d
  else protoHandle cfg env id ci tcb d

/-- `proto::repl` refuses TCP data without a cookie before looking at anything else -/
abbrev cookieless (ci : ClientInfo) : Prop := ci.transport = some 6 ∧ ci.cookie = none

/-! ### client infos -/

def wfIp : Ip → Prop
  | .v4 a => a.length = 4
  | .v6 a => a.length = 16

instance (ip : Ip) : Decidable (wfIp ip) := by cases ip <;> (unfold wfIp; infer_instance)

/-- both addresses (IPv4 or IPv6, independently) and both ports are present and well-formed — what
    layers 3 and 4 always provide -/
structure Endpoints (ci : ClientInfo) : Prop where
  src : ∃ a, ci.ipSrc = some a ∧ wfIp a
  dst : ∃ a, ci.ipDst = some a ∧ wfIp a
  sport : ∃ p, ci.portSrc = some p ∧ p < 65536
  dport : ∃ p, ci.portDst = some p ∧ p < 65536

/-- the only change a responder makes to the client info: the local port moved up by `n` (mod 2^16) -/
def bump (ci : ClientInfo) (n : Nat) : ClientInfo :=
  { ci with portDst := ci.portDst.map (fun p => (p + n) % 65536) }

end Masscanned.C19
