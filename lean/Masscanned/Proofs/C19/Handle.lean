/-
  Proofs/C19/Handle — the responder call (`protoHandle`, `respond`) for two client infos.
-/
import Masscanned.Proofs.C19.Stun
import Masscanned.Proofs.C19.Rpc
import Masscanned.Proofs.C19.Dns
import Masscanned.Proofs.C19.Dispatch
import Masscanned.Proofs.Bytes
open Masscanned Masscanned.C19
namespace Masscanned.C19

abbrev Out := Except Site (ClientInfo × Option Tcb × Option Bytes)

/-- the outcomes of the application layer for two client infos: the same panic, or the same control
    block, the same port bump, and replies of kind `k` equal up to the endpoint fields -/
def Related (k : Kind) (ci ci' : ClientInfo) (o o' : Out) : Prop :=
  (∃ e, o = .error e ∧ o' = .error e) ∨
  (∃ t r r' n, o = .ok (bump ci n, t, r) ∧ o' = .ok (bump ci' n, t, r') ∧ sameReply k r r' = true)

theorem bump_zero {ci : ClientInfo} (h : Endpoints ci) : bump ci 0 = ci := by
  obtain ⟨p, hp, hlt⟩ := h.dport
  obtain ⟨_, _, _, _, _, _, _, _⟩ := ci
  simp only at hp
  subst hp
  simp only [bump, Option.map_some, Nat.add_zero, Nat.mod_eq_of_lt hlt]

theorem sameReply_refl (k : Kind) (o : Option Bytes) : sameReply k o o = true := by
  cases o with
  | none => rfl
  | some r => exact sameAs_refl k r

theorem Related.err {k : Kind} {ci ci' : ClientInfo} (e : Site) : Related k ci ci' (.error e) (.error e) :=
  .inl ⟨e, rfl, rfl⟩

theorem Related.same {k : Kind} {ci ci' : ClientInfo} (h : Endpoints ci) (h' : Endpoints ci')
    (t : Option Tcb) (r : Option Bytes) : Related k ci ci' (.ok (ci, t, r)) (.ok (ci', t, r)) :=
  .inr ⟨t, r, r, 0, by rw [bump_zero h], by rw [bump_zero h'], sameReply_refl k r⟩

theorem Related.same' {k : Kind} {ci ci' : ClientInfo} (h : Endpoints ci) (h' : Endpoints ci')
    (t : Option Tcb) {r r' : Option Bytes} (hs : sameReply k r r' = true) :
    Related k ci ci' (.ok (ci, t, r)) (.ok (ci', t, r')) :=
  .inr ⟨t, r, r', 0, by rw [bump_zero h], by rw [bump_zero h'], hs⟩

theorem handle_http (cfg : Cfg) (env : Env) {ci ci' : ClientInfo} (h : Endpoints ci) (h' : Endpoints ci')
    (tcb : Option Tcb) (d : Bytes) :
    Related .plain ci ci' (protoHandle cfg env PROTO_HTTP ci tcb d) (protoHandle cfg env PROTO_HTTP ci' tcb d) := by
  unfold protoHandle
  simp only [if_true]
  cases tcb with
  | none =>
    simp only
    cases httpRepl env {} d with
    | error e => exact .err e
    | ok v => exact .same h h' _ _
  | some t =>
    simp only
    rcases t.protoState with _ | (s | s)
    · simp only
      cases httpRepl env {} d with
      | error e => exact .err e
      | ok v => exact .same h h' _ _
    · simp only
      cases httpRepl env s d with
      | error e => exact .err e
      | ok v => exact .same h h' _ _
    · exact .err _


theorem handle_stun (cfg : Cfg) (env : Env) {ci ci' : ClientInfo} (h : Endpoints ci) (h' : Endpoints ci')
    (tcb : Option Tcb) (d : Bytes) :
    Related .stun ci ci' (protoHandle cfg env PROTO_STUN ci tcb d) (protoHandle cfg env PROTO_STUN ci' tcb d) := by
  obtain ⟨a, ha, hw⟩ := h.src
  obtain ⟨p, hp, _⟩ := h.sport
  obtain ⟨a', ha', hw'⟩ := h'.src
  obtain ⟨p', hp', _⟩ := h'.sport
  unfold protoHandle
  simp only [show ¬ (PROTO_STUN = PROTO_HTTP) by decide, if_false, if_true]
  rw [stunRepl_eq ha hp, stunRepl_eq ha' hp']
  cases hd : stunDecision d with
  | error e => exact .err e
  | ok o =>
    cases o with
    | none => exact .same h h' _ _
    | some v =>
      obtain ⟨id, n⟩ := v
      have hid := stunDecision_id_length hd
      refine .inr ⟨tcb, _, _, n, rfl, rfl, ?_⟩
      simp only [sameReply, sameAs, masked_stun id hid a hw p, masked_stun id hid a' hw' p']
      simp

theorem handle_ssh (cfg : Cfg) (env : Env) {ci ci' : ClientInfo} (h : Endpoints ci) (h' : Endpoints ci')
    (tcb : Option Tcb) (d : Bytes) :
    Related .plain ci ci' (protoHandle cfg env PROTO_SSH ci tcb d) (protoHandle cfg env PROTO_SSH ci' tcb d) := by
  unfold protoHandle
  simp only [show ¬ (PROTO_SSH = PROTO_HTTP) by decide, show ¬ (PROTO_SSH = PROTO_STUN) by decide, if_false, if_true]
  cases sshRepl d with
  | error e => exact .err e
  | ok v => exact .same h h' _ _

theorem handle_ghost (cfg : Cfg) (env : Env) {ci ci' : ClientInfo} (h : Endpoints ci) (h' : Endpoints ci')
    (tcb : Option Tcb) (d : Bytes) :
    Related .plain ci ci' (protoHandle cfg env PROTO_GHOST ci tcb d) (protoHandle cfg env PROTO_GHOST ci' tcb d) := by
  unfold protoHandle
  simp only [show ¬ (PROTO_GHOST = PROTO_HTTP) by decide, show ¬ (PROTO_GHOST = PROTO_STUN) by decide,
    show ¬ (PROTO_GHOST = PROTO_SSH) by decide, if_false, if_true]
  exact .same h h' _ _

theorem handle_rpcTcp (cfg : Cfg) (env : Env) {ci ci' : ClientInfo} (h : Endpoints ci) (h' : Endpoints ci')
    (tcb : Option Tcb) (d : Bytes) :
    Related .rpcTcp ci ci' (protoHandle cfg env PROTO_RPC_TCP ci tcb d)
      (protoHandle cfg env PROTO_RPC_TCP ci' tcb d) := by
  obtain ⟨a, ha, _⟩ := h.dst
  obtain ⟨p, hp, _⟩ := h.dport
  obtain ⟨a', ha', _⟩ := h'.dst
  obtain ⟨p', hp', _⟩ := h'.dport
  unfold protoHandle
  simp only [show ¬ (PROTO_RPC_TCP = PROTO_HTTP) by decide, show ¬ (PROTO_RPC_TCP = PROTO_STUN) by decide,
    show ¬ (PROTO_RPC_TCP = PROTO_SSH) by decide, show ¬ (PROTO_RPC_TCP = PROTO_GHOST) by decide, if_false, if_true]
  cases tcb with
  | none =>
    simp only
    rcases rpcReplTcp_related cfg.ovf {} ha hp ha' hp' d with ⟨e, h1, h2⟩ | ⟨s', o, o', h1, h2, hs⟩
    · rw [h1, h2]; exact .err e
    · rw [h1, h2]; exact .same' h h' _ hs
  | some t =>
    simp only
    rcases t.protoState with _ | (s | s)
    · simp only
      rcases rpcReplTcp_related cfg.ovf {} ha hp ha' hp' d with ⟨e, h1, h2⟩ | ⟨s', o, o', h1, h2, hs⟩
      · rw [h1, h2]; exact .err e
      · rw [h1, h2]; exact .same' h h' _ hs
    · exact .err _
    · simp only
      rcases rpcReplTcp_related cfg.ovf s ha hp ha' hp' d with ⟨e, h1, h2⟩ | ⟨s', o, o', h1, h2, hs⟩
      · rw [h1, h2]; exact .err e
      · rw [h1, h2]; exact .same' h h' _ hs

theorem handle_rpcUdp (cfg : Cfg) (env : Env) {ci ci' : ClientInfo} (h : Endpoints ci) (h' : Endpoints ci')
    (tcb : Option Tcb) (d : Bytes) :
    Related .rpc ci ci' (protoHandle cfg env PROTO_RPC_UDP ci tcb d)
      (protoHandle cfg env PROTO_RPC_UDP ci' tcb d) := by
  obtain ⟨a, ha, _⟩ := h.dst
  obtain ⟨p, hp, _⟩ := h.dport
  obtain ⟨a', ha', _⟩ := h'.dst
  obtain ⟨p', hp', _⟩ := h'.dport
  unfold protoHandle
  simp only [show ¬ (PROTO_RPC_UDP = PROTO_HTTP) by decide, show ¬ (PROTO_RPC_UDP = PROTO_STUN) by decide,
    show ¬ (PROTO_RPC_UDP = PROTO_SSH) by decide, show ¬ (PROTO_RPC_UDP = PROTO_GHOST) by decide,
    show ¬ (PROTO_RPC_UDP = PROTO_RPC_TCP) by decide, if_false, if_true]
  rcases rpcReplUdp_related cfg.ovf ha hp ha' hp' d with ⟨e, h1, h2⟩ | ⟨o, o', h1, h2, hs⟩
  · rw [h1, h2]; exact .err e
  · rw [h1, h2]; exact .same' h h' _ hs

theorem handle_smb1 (cfg : Cfg) (env : Env) {ci ci' : ClientInfo} (h : Endpoints ci) (h' : Endpoints ci')
    (tcb : Option Tcb) (d : Bytes) :
    Related .plain ci ci' (protoHandle cfg env PROTO_SMB1 ci tcb d) (protoHandle cfg env PROTO_SMB1 ci' tcb d) := by
  unfold protoHandle
  simp only [show ¬ (PROTO_SMB1 = PROTO_HTTP) by decide, show ¬ (PROTO_SMB1 = PROTO_STUN) by decide,
    show ¬ (PROTO_SMB1 = PROTO_SSH) by decide, show ¬ (PROTO_SMB1 = PROTO_GHOST) by decide,
    show ¬ (PROTO_SMB1 = PROTO_RPC_TCP) by decide, show ¬ (PROTO_SMB1 = PROTO_RPC_UDP) by decide, if_false, if_true]
  exact .same h h' _ _

theorem handle_smb2 (cfg : Cfg) (env : Env) {ci ci' : ClientInfo} (h : Endpoints ci) (h' : Endpoints ci')
    (tcb : Option Tcb) (d : Bytes) :
    Related .plain ci ci' (protoHandle cfg env PROTO_SMB2 ci tcb d) (protoHandle cfg env PROTO_SMB2 ci' tcb d) := by
  unfold protoHandle
  simp only [show ¬ (PROTO_SMB2 = PROTO_HTTP) by decide, show ¬ (PROTO_SMB2 = PROTO_STUN) by decide,
    show ¬ (PROTO_SMB2 = PROTO_SSH) by decide, show ¬ (PROTO_SMB2 = PROTO_GHOST) by decide,
    show ¬ (PROTO_SMB2 = PROTO_RPC_TCP) by decide, show ¬ (PROTO_SMB2 = PROTO_RPC_UDP) by decide,
    show ¬ (PROTO_SMB2 = PROTO_SMB1) by decide, if_false, if_true]
  exact .same h h' _ _

/-- an id that names no responder: silence, whatever the client info -/
theorem handle_other (cfg : Cfg) (env : Env) (id : Nat) (hid : id = 0 ∨ 8 < id) (ci : ClientInfo)
    (tcb : Option Tcb) (d : Bytes) :
    protoHandle cfg env id ci tcb d = .ok (ci, tcb.map (fun t => { t with protoId := PROTO_NONE }), none) := by
  have e1 : ¬ id = PROTO_HTTP := by unfold PROTO_HTTP; omega
  have e2 : ¬ id = PROTO_STUN := by unfold PROTO_STUN; omega
  have e3 : ¬ id = PROTO_SSH := by unfold PROTO_SSH; omega
  have e4 : ¬ id = PROTO_GHOST := by unfold PROTO_GHOST; omega
  have e5 : ¬ id = PROTO_RPC_TCP := by unfold PROTO_RPC_TCP; omega
  have e6 : ¬ id = PROTO_RPC_UDP := by unfold PROTO_RPC_UDP; omega
  have e7 : ¬ id = PROTO_SMB1 := by unfold PROTO_SMB1; omega
  have e8 : ¬ id = PROTO_SMB2 := by unfold PROTO_SMB2; omega
  unfold protoHandle
  rw [if_neg e1, if_neg e2, if_neg e3, if_neg e4, if_neg e5, if_neg e6, if_neg e7, if_neg e8]

/-- **the responder call for two client infos** -/
theorem protoHandle_related (cfg : Cfg) (env : Env) (id : Nat) {ci ci' : ClientInfo} (h : Endpoints ci)
    (h' : Endpoints ci') (tcb : Option Tcb) (d : Bytes) :
    Related (kindOf id) ci ci' (protoHandle cfg env id ci tcb d) (protoHandle cfg env id ci' tcb d) := by
  by_cases hid : id = 0 ∨ 8 < id
  · rw [handle_other cfg env id hid, handle_other cfg env id hid]
    exact .same h h' _ _
  · have : id = 1 ∨ id = 2 ∨ id = 3 ∨ id = 4 ∨ id = 5 ∨ id = 6 ∨ id = 7 ∨ id = 8 := by omega
    rcases this with rfl | rfl | rfl | rfl | rfl | rfl | rfl | rfl
    · exact handle_http cfg env h h' tcb d
    · exact handle_stun cfg env h h' tcb d
    · exact handle_ssh cfg env h h' tcb d
    · exact handle_ghost cfg env h h' tcb d
    · exact handle_rpcTcp cfg env h h' tcb d
    · exact handle_rpcUdp cfg env h h' tcb d
    · exact handle_smb1 cfg env h h' tcb d
    · exact handle_smb2 cfg env h h' tcb d

/-- the responder call including the DNS fallback -/
theorem respond_related (cfg : Cfg) (env : Env) (id : Nat) {ci ci' : ClientInfo} (h : Endpoints ci)
    (h' : Endpoints ci') (tcb : Option Tcb) (d : Bytes) :
    Related (kindOf id) ci ci' (respond cfg env id ci tcb d) (respond cfg env id ci' tcb d) := by
  unfold respond
  by_cases hc : id = noMatch ∧ tcb = none
  · rw [if_pos hc, if_pos hc]
    obtain ⟨rfl, rfl⟩ := hc
    obtain ⟨a, ha, hw⟩ := h.dst
    obtain ⟨a', ha', hw'⟩ := h'.dst
    have hs := dns_related ha hw ha' hw' d
    have ho := handle_other cfg env noMatch (.inr (by decide)) 
    cases h1 : (dnsParse d).bind (dnsRepl ci) with
    | none =>
      cases h2 : (dnsParse d).bind (dnsRepl ci') with
      | none => simp only; rw [ho, ho]; exact .same h h' _ _
      | some r' => rw [h1, h2] at hs; cases hs
    | some r =>
      cases h2 : (dnsParse d).bind (dnsRepl ci') with
      | none => rw [h1, h2] at hs; cases hs
      | some r' =>
        rw [h1, h2] at hs
        exact .same' h h' _ hs
  · rw [if_neg hc, if_neg hc]
    exact protoHandle_related cfg env id h h' tcb d

theorem cookieless_congr {ci ci' : ClientInfo} (ht : ci.transport = ci'.transport)
    (hc : ci.cookie.isSome = ci'.cookie.isSome) : cookieless ci ↔ cookieless ci' := by
  unfold cookieless
  rw [ht]
  cases h : ci.cookie <;> cases h' : ci'.cookie <;> simp_all

theorem endpoints_of_udp {ci : ClientInfo} (hs : ∃ a, ci.ipSrc = some a ∧ wfIp a)
    (hd : ∃ a, ci.ipDst = some a ∧ wfIp a) (p : Bytes) (hl : 8 ≤ p.length) :
    Endpoints { ci with portSrc := some (rdBE (slice p 0 2)), portDst := some (rdBE (slice p 2 2)) } :=
  { src := hs, dst := hd,
    sport := ⟨_, rfl, by rw [rdBE_slice2 p 0 (by omega)]; exact be16_lt p 0⟩,
    dport := ⟨_, rfl, by rw [rdBE_slice2 p 2 (by omega)]; exact be16_lt p 2⟩ }

end Masscanned.C19
