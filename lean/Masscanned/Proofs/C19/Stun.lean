/-
  Proofs/C19/Stun — `stun::repl` split into a payload-only decision and the MAPPED-ADDRESS it fills in.
-/
import Masscanned.Proofs.C19.Defs
import Masscanned.Proofs.Bytes
open Masscanned Masscanned.C19
namespace Masscanned.C19

/-- what `stun::repl` decides from the payload alone: the transaction id to echo and the number of
    change-port requests -/
def stunDecision (d : Bytes) : Except Site (Option (Bytes × Nat)) :=
  match stunParse d with
  | .error e => .error e
  | .ok none => .ok none
  | .ok (some req) =>
    if req.cls ≠ 0 then .ok none
    else if req.method ≠ 1 then .ok none
    else .ok (some (req.id, (req.attrs.filter (fun a => a = .changeRequest true)).length))

theorem stunRepl_eq {ci : ClientInfo} {ip : Ip} {port : Nat} (hs : ci.ipSrc = some ip)
    (hp : ci.portSrc = some port) (d : Bytes) :
    stunRepl ci d =
      match stunDecision d with
      | .error e => .error e
      | .ok none => .ok (ci, none)
      | .ok (some (id, n)) =>
        .ok (bump ci n, some ([1, 1] ++ u16be (stunMapped ip port).length ++ id ++ stunMapped ip port)) := by
  obtain ⟨_, _, _, _, _, _, _, _⟩ := ci
  simp only at hs hp
  subst hs hp
  unfold stunRepl stunDecision
  cases stunParse d with
  | error e => rfl
  | ok o =>
    cases o with
    | none => rfl
    | some req =>
      simp only
      split
      · rfl
      · split
        · rfl
        · rfl

theorem stunDecision_id_length {d id : Bytes} {n : Nat} (h : stunDecision d = .ok (some (id, n))) :
    id.length = 16 := by
  unfold stunDecision at h
  split at h
  · cases h
  · cases h
  · rename_i req hp
    split at h
    · cases h
    · split at h
      · cases h
      · simp only [Except.ok.injEq, Option.some.injEq, Prod.mk.injEq] at h
        rw [← h.1]
        unfold stunParse at hp
        split at hp
        · cases hp
        · dsimp only at hp
          split at hp
          · cases hp
          · split at hp
            · cases hp
            · split at hp
              · cases hp
              · simp only [Except.ok.injEq, Option.some.injEq] at hp
                rw [← hp]
                simp [slice]; omega

theorem masked_stun (id : Bytes) (hid : id.length = 16) (ip : Ip) (hw : wfIp ip) (port : Nat) :
    masked .stun ([1, 1] ++ u16be (stunMapped ip port).length ++ id ++ stunMapped ip port) =
      some ([1, 1] ++ id ++ [0, 1]) := by
  cases ip with
  | v4 a =>
    simp only [wfIp] at hw
    simp [masked, stunMapped, u16be, slice, hw, hid, List.take_append, List.drop_append, rdBE, byte_toNat,
      List.take_of_length_le (show id.length ≤ 18 by omega)]
  | v6 a =>
    simp only [wfIp] at hw
    simp [masked, stunMapped, u16be, slice, hw, hid, List.take_append, List.drop_append, rdBE, byte_toNat,
      List.take_of_length_le (show id.length ≤ 18 by omega)]

end Masscanned.C19
