/-
  Proofs/C19/Rpc — the ONC-RPC replies built for two client infos differ only in the results of a
  successful portmapper call (and then in the length of the record mark).
-/
import Masscanned.Proofs.C19.Defs
import Masscanned.Proofs.Bytes
open Masscanned Masscanned.C19
namespace Masscanned.C19

theorem sameAs_refl (k : Kind) (r : Bytes) : sameAs k r r = true := by
  unfold sameAs
  cases masked k r <;> simp

/-- two ONC-RPC replies (without record mark): identical, or both successful with non-empty results and the
    same 24 header bytes -/
def RpcSame (r r' : Bytes) : Prop :=
  r = r' ∨ (slice r 4 20 = rpcSuccessHdr ∧ 24 < r.length ∧ slice r' 4 20 = rpcSuccessHdr ∧ 24 < r'.length ∧
            r.take 24 = r'.take 24)

theorem sameAs_rpc {r r' : Bytes} (h : RpcSame r r') : sameAs .rpc r r' = true := by
  rcases h with rfl | ⟨h1, h2, h3, h4, h5⟩
  · exact sameAs_refl _ _
  · simp [sameAs, masked, h1, h2, h3, h4, h5]

def rpcMark (l : Nat) : Bytes :=
  [byte (l / 16777216 % 256 + (if l / 16777216 % 256 < 128 then 128 else 0)),
   byte (l / 65536), byte (l / 256), byte l]

theorem rpcMark_top (l : Nat) (t : Bytes) : at8 (rpcMark l ++ t) 0 / 128 = 1 := by
  simp only [rpcMark, at8, List.cons_append, List.getD_cons_zero, byte_toNat]
  split <;> omega

theorem sameAs_rpcTcp {r r' : Bytes} (h : RpcSame r r') :
    sameAs .rpcTcp (rpcMark r.length ++ r) (rpcMark r'.length ++ r') = true := by
  rcases h with rfl | ⟨h1, h2, h3, h4, h5⟩
  · exact sameAs_refl _ _
  · have e1 : ∀ (l : Nat) (x : Bytes), slice (rpcMark l ++ x) 8 20 = slice x 4 20 := by
      intro l x; simp [slice, rpcMark]
    have e2 : ∀ (l : Nat) (x : Bytes), slice (rpcMark l ++ x) 4 24 = x.take 24 := by
      intro l x; simp [slice, rpcMark]
    have e3 : ∀ (l : Nat) (x : Bytes), (rpcMark l ++ x).length = 4 + x.length := by
      intro l x; simp [rpcMark]; omega
    simp only [sameAs, masked, e1, e2, e3, rpcMark_top, h1, h3, h5]
    rw [if_pos ⟨trivial, by omega⟩, if_pos ⟨trivial, by omega⟩]
    simp

theorem xdrString_ne_nil (s : Bytes) : xdrString s ≠ [] := by simp [xdrString, u32be]

/-- a successful GETPORT/GETADDR/DUMP: accept_stat SUCCESS followed by non-empty results; anything else
    PROC_UNAVAIL — which of the two is decided by the call alone -/
theorem rpcPortmap_shape (s : RpcSt) (hv : ¬ (s.progVersion < 2 ∨ s.progVersion > 4)) (ip : Ip) (port : Nat) :
    if s.procedure = 3 ∨ s.procedure = 4 then
      ∃ rest, rest ≠ [] ∧ rpcPortmap s ip port = .ok ([0, 0, 0, 0] ++ rest)
    else rpcPortmap s ip port = .ok [0, 0, 0, 3] := by
  have hv' : s.progVersion = 2 ∨ s.progVersion = 3 ∨ s.progVersion = 4 := by omega
  unfold rpcPortmap
  by_cases h3 : s.procedure = 3
  · simp only [h3, true_or, if_true]
    rcases hv' with h | h | h
    · exact ⟨u32be port, by simp [u32be], by simp [h]⟩
    · exact ⟨_, xdrString_ne_nil (uaddr ip port), by simp [h]⟩
    · exact ⟨_, xdrString_ne_nil (uaddr ip port), by simp [h]⟩
  · by_cases h4 : s.procedure = 4
    · simp only [h4, or_true, if_true]
      rcases hv' with h | h | h
      · simp only [h]
        exact ⟨_, by simp, rfl⟩
      · simp only [h]
        refine ⟨?w, ?hne, ?heq⟩
        case heq => simp; try rfl
        case hne => simp
      · simp only [h]
        refine ⟨?w, ?hne, ?heq⟩
        case heq => simp; try rfl
        case hne => simp
    · simp [h3, h4]


theorem rpcSame_success (xid : Nat) (rest rest' : Bytes) (h : rest ≠ []) (h' : rest' ≠ []) :
    RpcSame (u32be xid ++ [0, 0, 0, 1, 0, 0, 0, 0, 0, 0, 0, 0, 0, 0, 0, 0] ++ ([0, 0, 0, 0] ++ rest))
            (u32be xid ++ [0, 0, 0, 1, 0, 0, 0, 0, 0, 0, 0, 0, 0, 0, 0, 0] ++ ([0, 0, 0, 0] ++ rest')) := by
  right
  have l1 : 0 < rest.length := List.length_pos_iff.mpr h
  have l2 : 0 < rest'.length := List.length_pos_iff.mpr h'
  refine ⟨?_, ?_, ?_, ?_, ?_⟩
  · simp [slice, u32be, rpcSuccessHdr]
  · simp [u32be]; omega
  · simp [slice, u32be, rpcSuccessHdr]
  · simp [u32be]; omega
  · simp [u32be]

/-- `build_repl` for two client infos that both carry a contacted address and port: the same panic, or
    two replies that are `RpcSame` -/
theorem rpcBuild_related (s : RpcSt) {ci ci' : ClientInfo} {ip ip' : Ip} {port port' : Nat}
    (h1 : ci.ipDst = some ip) (h2 : ci.portDst = some port)
    (h1' : ci'.ipDst = some ip') (h2' : ci'.portDst = some port') :
    (∃ r r', rpcBuild s ci = .ok r ∧ rpcBuild s ci' = .ok r' ∧ RpcSame r r') := by
  unfold rpcBuild
  simp only [h1, h2, h1', h2']
  by_cases hv : s.progVersion < 2 ∨ s.progVersion > 4
  · rw [if_pos hv, if_pos hv]; exact ⟨_, _, rfl, rfl, .inl rfl⟩
  · rw [if_neg hv, if_neg hv]
    by_cases h0 : s.procedure = 0
    · rw [if_pos h0, if_pos h0]; exact ⟨_, _, rfl, rfl, .inl rfl⟩
    · rw [if_neg h0, if_neg h0]
      by_cases hp : s.program = 100000
      · rw [if_pos hp, if_pos hp]
        have a := rpcPortmap_shape s hv ip port
        have b := rpcPortmap_shape s hv ip' port'
        by_cases hq : s.procedure = 3 ∨ s.procedure = 4
        · rw [if_pos hq] at a b
          obtain ⟨rest, hne, ha⟩ := a
          obtain ⟨rest', hne', hb⟩ := b
          rw [ha, hb]
          exact ⟨_, _, rfl, rfl, rpcSame_success s.xid rest rest' hne hne'⟩
        · rw [if_neg hq] at a b
          rw [a, b]
          exact ⟨_, _, rfl, rfl, .inl rfl⟩
      · rw [if_neg hp, if_neg hp]; exact ⟨_, _, rfl, rfl, .inl rfl⟩

theorem rpcReplTcp_eq (ovf : Bool) (s : RpcSt) (ci : ClientInfo) (d : Bytes) :
    rpcReplTcp ovf s ci d =
      match rpcParse ovf s d with
      | .error e => .error e
      | .ok s' =>
        if s'.state = .done then
          match rpcBuild s' ci with
          | .error e => .error e
          | .ok resp => .ok ({}, some (rpcMark resp.length ++ resp))
        else .ok (s', none) := rfl

/-- `repl_udp` for two client infos -/
theorem rpcReplUdp_related (ovf : Bool) {ci ci' : ClientInfo} {ip ip' : Ip} {port port' : Nat}
    (h1 : ci.ipDst = some ip) (h2 : ci.portDst = some port)
    (h1' : ci'.ipDst = some ip') (h2' : ci'.portDst = some port') (d : Bytes) :
    (∃ e, rpcReplUdp ovf ci d = .error e ∧ rpcReplUdp ovf ci' d = .error e) ∨
    (∃ o o', rpcReplUdp ovf ci d = .ok o ∧ rpcReplUdp ovf ci' d = .ok o' ∧ sameReply .rpc o o' = true) := by
  unfold rpcReplUdp
  cases rpcParse ovf { state := .xid, lastFrag := true, fragLen := d.length } d with
  | error e => exact .inl ⟨e, rfl, rfl⟩
  | ok s' =>
    right
    simp only
    by_cases hd : s'.state = .done
    · rw [if_pos hd, if_pos hd]
      obtain ⟨r, r', ha, hb, hs⟩ := rpcBuild_related s' h1 h2 h1' h2'
      rw [ha, hb]
      exact ⟨_, _, rfl, rfl, sameAs_rpc hs⟩
    · rw [if_neg hd, if_neg hd]
      exact ⟨_, _, rfl, rfl, rfl⟩

/-- `repl_tcp` for two client infos: same parser state afterwards -/
theorem rpcReplTcp_related (ovf : Bool) (s : RpcSt) {ci ci' : ClientInfo} {ip ip' : Ip} {port port' : Nat}
    (h1 : ci.ipDst = some ip) (h2 : ci.portDst = some port)
    (h1' : ci'.ipDst = some ip') (h2' : ci'.portDst = some port') (d : Bytes) :
    (∃ e, rpcReplTcp ovf s ci d = .error e ∧ rpcReplTcp ovf s ci' d = .error e) ∨
    (∃ s' o o', rpcReplTcp ovf s ci d = .ok (s', o) ∧ rpcReplTcp ovf s ci' d = .ok (s', o') ∧
       sameReply .rpcTcp o o' = true) := by
  rw [rpcReplTcp_eq, rpcReplTcp_eq]
  cases rpcParse ovf s d with
  | error e => exact .inl ⟨e, rfl, rfl⟩
  | ok s' =>
    right
    simp only
    by_cases hd : s'.state = .done
    · rw [if_pos hd, if_pos hd]
      obtain ⟨r, r', ha, hb, hs⟩ := rpcBuild_related s' h1 h2 h1' h2'
      rw [ha, hb]
      exact ⟨_, _, _, rfl, rfl, sameAs_rpcTcp hs⟩
    · rw [if_neg hd, if_neg hd]
      exact ⟨_, _, _, rfl, rfl, rfl⟩

end Masscanned.C19
