/-
  Proofs/C19/Dispatch — `proto::repl` = identification (`protoId`, no client info) then `respond`.
-/
import Masscanned.Proofs.C19.Defs
namespace Masscanned.C19
open Masscanned

theorem protoRepl_eq (cfg : Cfg) (env : Env) (ci : ClientInfo) (tcb : Option Tcb) (d : Bytes) :
    protoRepl cfg env ci tcb d =
      if cookieless ci then .ok (ci, tcb, none)
      else match protoId tcb d with
        | .error e => .error e
        | .ok (id, t) => respond cfg env id ci t d := by
  unfold protoRepl cookieless
  by_cases hc : ci.transport = some 6 ∧ ci.cookie = none
  · rw [if_pos hc, if_pos hc]
  · rw [if_neg hc, if_neg hc]
    unfold protoId respond
    cases tcb with
    | some t =>
      simp only
      by_cases hp : t.protoId = PROTO_NONE
      · simp only [hp, if_true]
        cases h : protoTbl.searchNext t.smackState d with
        | error e => rfl
        | ok v => obtain ⟨id, st, n⟩ := v; simp
      · simp [hp]
    | none =>
      simp only
      cases h : protoTbl.searchNext baseState d with
      | error e => rfl
      | ok v =>
        obtain ⟨id, st, n⟩ := v
        simp only
        by_cases hid : id = noMatch
        · simp only [hid, if_true]
          cases h' : protoTbl.searchNextEnd st with
          | error e => rfl
          | ok v' =>
            obtain ⟨id', st'⟩ := v'
            simp only [and_true]
            by_cases hid' : id' = noMatch
            · simp only [hid', if_true]
              cases dnsParse d with
              | none => simp
              | some m => rfl
            · simp only [hid', if_false]
        · simp only [hid, if_false, false_and]

/-- the control block handed to the responder is absent exactly for datagrams -/
theorem protoId_none {tcb t : Option Tcb} {d : Bytes} {id : Nat} (h : protoId tcb d = .ok (id, t)) :
    t = none ↔ tcb = none := by
  unfold protoId at h
  cases tcb with
  | some t0 =>
    simp only at h
    split at h
    · split at h
      · cases h
      · cases h; simp
    · cases h; simp
  | none =>
    simp only at h
    split at h
    · cases h
    · split at h
      · split at h
        · cases h
        · cases h; simp
      · cases h; simp

end Masscanned.C19
