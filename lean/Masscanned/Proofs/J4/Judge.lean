/-
  Proofs/J4/Judge — helper lemmas for the judge-soundness theorems Thm/C10Judge, C15Judge, C16Judge:
  the judges evaluated on an observation of the model (`obsOf`), the "[shadowed]" marker, where an aliased
  (STUN-shaped) reply can come from, the class of every responder's reply.
-/
import Masscanned.Proofs.J4.Ident
import Masscanned.Thm.C10E2E
namespace Masscanned.J4
open Masscanned Masscanned.Spec Masscanned.E2E Masscanned.C10

theorem failShadow_marked (o : AppObs) (c : String) (h : shadowed o.payload = true) :
    marked (failShadow o c) ∧ (failShadow o c).ok = false := by
  unfold failShadow
  rw [if_pos h]
  exact ⟨⟨c, rfl⟩, rfl⟩

theorem not_marked_of_head (v : Verdict) (h : v.clause.toList.head? ≠ some '[') : ¬ marked v := by
  rintro ⟨c, hc⟩
  apply h
  rw [hc, String.toList_append]
  rfl

/-- the model answers (no panic) and the answer is an alias -/
theorem run_exists (cfg : Cfg) (env : Env) (ci : ClientInfo) (tcb : Option Tcb) (p : Bytes)
    (h : (match protoRepl cfg env ci tcb p with
          | .ok (_, _, reply) => stunAlias p reply
          | .error _ => false) = true) :
    ∃ ci' tcb' reply, protoRepl cfg env ci tcb p = .ok (ci', tcb', reply) ∧ stunAlias p reply = true := by
  cases hr : protoRepl cfg env ci tcb p with
  | error e => rw [hr] at h; cases h
  | ok x =>
    obtain ⟨ci', tcb', reply⟩ := x
    rw [hr] at h
    exact ⟨ci', tcb', reply, rfl, h⟩

/-- a reply the Spec accepts as Binding Success Response has the STUN shape of `classify` -/
theorem stunSuccessOk_stunShape (m : StunMsg) (r : Bytes) (src : Ip) (sp : Nat)
    (h : stunSuccessOk m r src sp = true) : stunShape r := by
  unfold stunSuccessOk at h
  split at h
  · cases h
  · rename_i m' hm'
    simp only [Bool.and_eq_true, decide_eq_true_eq] at h
    obtain ⟨⟨⟨hc, hme⟩, _⟩, _⟩ := h
    obtain ⟨h20, h64, hlen, _, hcls, hmeth, _⟩ := Masscanned.parseStun_inv hm'
    have := E2E.u8_lt r 0; have := E2E.u8_lt r 1
    refine ⟨h20, by omega, by omega, .inl (by omega), by omega⟩

/-- first bytes of a payload the compiled matcher identifies as STUN -/
theorem stun_K2_first_bytes (p : Bytes) (h : refDatagramK2 p = some ID_STUN) : u8 p 0 = 0 ∧ u8 p 1 = 1 := by
  rcases stun_ident_inv p h with h | ⟨_, h⟩ | ⟨_, h⟩ <;> rw [pmX_eq] at h
  · simp only [patStunK2, pmFrom, sym_lit, Bool.and_eq_true, decide_eq_true_eq] at h
    exact ⟨h.2.1, h.2.2.1⟩
  · simp only [patStunA, List.cons_append, pmFrom, sym_lit, Bool.and_eq_true, decide_eq_true_eq] at h
    exact ⟨h.2.1, h.2.2.1⟩
  · simp only [patStunB, List.cons_append, pmFrom, sym_lit, Bool.and_eq_true, decide_eq_true_eq] at h
    exact ⟨h.2.1, h.2.2.1⟩

/-- the ONC-RPC/UDP responder's reply never carries bytes 4..19 of the call it answers: its second word is
    `00 00 00 01` (REPLY), the call's is `00 00 00 00` (CALL, demanded by the signature) -/
theorem rpcudp_tid_ne (ovf : Bool) (ci : ClientInfo) (p r : Bytes) (h7 : 24 ≤ p.length → u8 p 7 = 0)
    (hr : rpcReplUdp ovf ci p = .ok (some r)) : sub r 4 16 ≠ sub p 4 16 := by
  intro ht
  have hl := rpcReplUdp_min _ _ _ _ hr
  obtain ⟨_, body, hb, _⟩ := rpcReplUdp_shape _ _ _ _ hr
  have h := sub_eq_u8 r p ht (by omega) 3 (by omega)
  rw [h7 hl, hb] at h
  simp [u32be, rpcHdr16, u8] at h

/-- a reply of handler `i` that has the STUN shape and carries the payload's bytes 4..19 comes from the STUN
    responder -/
theorem handle_tid_stun (cfg : Cfg) (env : Env) (i : Nat) (ci ci' : ClientInfo) (tcb tcb' : Option Tcb)
    (p r : Bytes) (ht : ∀ t, tcb = some t → t.protoState = none)
    (h7 : i = ID_RPC_UDP → 24 ≤ p.length → u8 p 7 = 0)
    (h : protoHandle cfg env i ci tcb p = .ok (ci', tcb', some r)) (hs : stunShape r)
    (htid : sub r 4 16 = sub p 4 16) : i = ID_STUN := by
  rcases handle_stunShape cfg env i ci ci' tcb tcb' p r ht h hs with ⟨hi, _⟩ | ⟨hi, _⟩
  · exact hi
  · exfalso
    subst hi
    rcases handle_reply_cases cfg env _ ci ci' tcb tcb' p r ht h with
      ⟨hi, _⟩ | ⟨hi, _⟩ | ⟨hi, _⟩ | ⟨hi, _⟩ | ⟨hi, _⟩ | ⟨_, hr, _⟩ | ⟨hi, _⟩ | ⟨hi, _⟩
    all_goals first | (exact absurd hi (by decide)) | skip
    exact rpcudp_tid_ne _ _ _ _ (h7 rfl) hr htid

/-- the DNS fallback sets the QR bit: byte 2 of its reply has the top bit set, so `classifyFor` never takes it for
    a STUN response; its class is `dns` -/
theorem dns_reply_never_stun (ci : ClientInfo) (p r : Bytes) (m : DnsMsg) (hp : dnsParse p = some m)
    (h : dnsRepl ci m = some r) : 128 ≤ u8 r 2 ∧ classifyFor p r = .dns := by
  obtain ⟨f, q1, q2, t, hh, hf⟩ := dnsRepl_head ci p r m hp h
  have h2 : 128 ≤ u8 r 2 := by rw [hh]; exact hf
  exact ⟨h2, classifyFor_eq p r .dns (classify_dns ci p r m hp h) (classifyNoStun_dns ci p r m hp h)
    (fun hc => by omega)⟩

/-- **no alias, datagram**: on model behaviour a reply that `classifyFor` takes for a STUN response answers a
    payload starting `00 01` (it comes from the STUN responder) -/
theorem no_alias_udp (cfg : Cfg) (env : Env) (ci ci' : ClientInfo) (tcb' : Option Tcb)
    (p : Bytes) (reply : Option Bytes) (hudp : ci.transport ≠ some 6)
    (hrun : protoRepl cfg env ci none p = .ok (ci', tcb', reply)) : stunAlias p reply = false := by
  have hg : Gate ci := fun h => hudp h.1
  cases ha : stunAlias p reply with
  | false => rfl
  | true =>
    exfalso
    cases reply with
    | none => simp [stunAlias] at ha
    | some r =>
      simp only [stunAlias, Bool.and_eq_true, decide_eq_true_eq, Bool.not_eq_true', Bool.and_eq_false_iff,
        decide_eq_false_iff_not] at ha
      obtain ⟨hc, h128, htid⟩ := (classifyFor_stun_iff p r).1 ha.1
      have hs := classify_stun_imp r hc
      cases hk : refDatagramK2 p with
      | some i =>
        rw [repl_datagram_some cfg env ci p i hg hk] at hrun
        have hi := handle_tid_stun cfg env i ci ci' none tcb' p r (by intro t h; cases h)
          (fun hi hl => k2_rpcudp_byte7 p (by rw [hk, hi]) hl) hrun hs htid
        obtain ⟨h0, h1⟩ := stun_K2_first_bytes p (by rw [hk, hi])
        rcases ha.2 with h | h
        · exact h h0
        · exact h h1
      | none =>
        rw [repl_datagram_none cfg env ci p hg hk] at hrun
        cases hb : (dnsParse p).bind (dnsRepl ci) with
        | none => rw [hb] at hrun; simp only [Except.ok.injEq, Prod.mk.injEq, reduceCtorEq, and_false] at hrun
        | some r' =>
          rw [hb] at hrun
          simp only [Except.ok.injEq, Prod.mk.injEq, Option.some.injEq] at hrun
          obtain ⟨_, _, rfl⟩ := hrun
          obtain ⟨m, hm, hr⟩ := Option.bind_eq_some_iff.mp hb
          have := (dns_reply_never_stun ci p r' m hm hr).1
          omega

/-- **no alias, first segment of a TCP flow** -/
theorem no_alias_tcp (cfg : Cfg) (env : Env) (ci ci' : ClientInfo) (tcb' : Option Tcb)
    (p : Bytes) (reply : Option Bytes) (hg : Gate ci)
    (hrun : protoRepl cfg env ci (some {}) p = .ok (ci', tcb', reply)) : stunAlias p reply = false := by
  cases ha : stunAlias p reply with
  | false => rfl
  | true =>
    exfalso
    cases reply with
    | none => simp [stunAlias] at ha
    | some r =>
      simp only [stunAlias, Bool.and_eq_true, decide_eq_true_eq, Bool.not_eq_true', Bool.and_eq_false_iff,
        decide_eq_false_iff_not] at ha
      obtain ⟨hc, _, htid⟩ := (classifyFor_stun_iff p r).1 ha.1
      have hs := classify_stun_imp r hc
      cases hk : refStreamK2 p with
      | none =>
        obtain ⟨t, ht⟩ := repl_stream_none cfg env ci p hg hk
        rw [ht] at hrun
        simp only [Except.ok.injEq, Prod.mk.injEq, reduceCtorEq, and_false] at hrun
      | some i =>
        obtain ⟨st, hst⟩ := repl_stream_some cfg env ci p i hg hk
        rw [hst] at hrun
        have hkd := refDatagramK2_of_stream p i hk
        have hi := handle_tid_stun cfg env i ci ci' _ tcb' p r (by intro t h; cases h; rfl)
          (fun hi hl => k2_rpcudp_byte7 p (by rw [hkd, hi]) hl) hrun hs htid
        obtain ⟨h0, h1⟩ := stun_K2_first_bytes p (by rw [hkd, hi])
        rcases ha.2 with h | h
        · exact h h0
        · exact h h1

/-- the STUN responder's reply has a length field below 2^15 (it is 12 or 24) -/
theorem stunRepl_byte2 (ci ci' : ClientInfo) (d r : Bytes) (hw : ∀ ip, ci.ipSrc = some ip → IpWf ip)
    (h : stunRepl ci d = .ok (ci', some r)) : u8 r 2 < 128 := by
  have h16 : C01.ipLen16 ci.ipSrc := by
    intro ip hip
    have := hw ip hip
    cases ip <;> simp only [IpWf] at this <;> simp [Ip.bytes, this]
  have hl := C01.stunRepl_len ci ci' h16 d r h
  obtain ⟨h20, _, hbe, _⟩ := classify_stun_imp r (classify_stun ci ci' d r hw h)
  have := E2E.u8_lt r 3
  simp only [be16, Nat.reduceAdd] at hbe
  omega

theorem judgeC15_obs_datagram (ci ci' : ClientInfo) (p : Bytes) (reply : Option Bytes)
    (hudp : ci.transport ≠ some 6) :
    judgeC15 (obsOf ci p ci' reply) =
      match parseStun p with
      | none => pass false
      | some m =>
        if m.cls = 0 ∧ m.method = 1 ∧ u8 p 0 = 0 ∧ u8 p 1 = 1 then
          if refDatagram p = some ID_STUN then
            (match reply with
             | some r =>
               if !stunSuccessOk m r (ci.ipSrc.getD (.v4 [])) (ci.portSrc.getD 0) then
                 failShadow (obsOf ci p ci' reply) "STUN success response wrong (transaction id / length / MAPPED-ADDRESS)"
               else if ci'.portDst.getD 0 ≠ (ci.portDst.getD 0 + changePortCount m) % 65536 then
                 failv "STUN change-port rule violated"
               else pass true
             | none => failShadow (obsOf ci p ci' reply) "STUN binding request not answered")
          else pass false
        else
          (match reply with
           | some r => if classifyFor p r = .stun then failv "STUN response to a message of another class/method" else pass true
           | none => pass true) := by
  have ht : decide (ci.transport = some 6) = false := by simpa using hudp
  simp only [judgeC15, refOf, obsOf, ht, Bool.false_eq_true, false_and, if_false]
  cases parseStun p with
  | none => rfl
  | some m =>
    simp only
    cases reply <;> rfl

/-- `judgeC15` on the observation of a first TCP segment that the published stream reference does not identify
    as STUN: not a STUN exchange -/
theorem judgeC15_obs_tcp_other (ci ci' : ClientInfo) (p : Bytes) (reply : Option Bytes)
    (htcp : ci.transport = some 6) (hs : refStream p ≠ some ID_STUN) :
    judgeC15 (obsOf ci p ci' reply) = pass false := by
  have ht : decide (ci.transport = some 6) = true := by simpa using htcp
  simp only [judgeC15, obsOf, ht, Option.isNone_none, true_and]
  rw [if_pos hs]

/-- … and of a first TCP segment identified as STUN: judged like a datagram -/
theorem judgeC15_obs_tcp (ci ci' : ClientInfo) (p : Bytes) (reply : Option Bytes)
    (htcp : ci.transport = some 6) (hs : refStream p = some ID_STUN) :
    judgeC15 (obsOf ci p ci' reply) =
      match parseStun p with
      | none => pass false
      | some m =>
        if m.cls = 0 ∧ m.method = 1 ∧ u8 p 0 = 0 ∧ u8 p 1 = 1 then
          (match reply with
           | some r =>
             if !stunSuccessOk m r (ci.ipSrc.getD (.v4 [])) (ci.portSrc.getD 0) then
               failShadow (obsOf ci p ci' reply) "STUN success response wrong (transaction id / length / MAPPED-ADDRESS)"
             else if ci'.portDst.getD 0 ≠ (ci.portDst.getD 0 + changePortCount m) % 65536 then
               failv "STUN change-port rule violated"
             else pass true
           | none => failShadow (obsOf ci p ci' reply) "STUN binding request not answered")
        else
          (match reply with
           | some r => if classifyFor p r = .stun then failv "STUN response to a message of another class/method" else pass true
           | none => pass true) := by
  have ht : decide (ci.transport = some 6) = true := by simpa using htcp
  simp only [judgeC15, refOf, obsOf, ht, Option.isNone_none, true_and, hs, ne_eq, not_true_eq_false, if_false,
    if_true]
  cases parseStun p with
  | none => rfl
  | some m =>
    simp only
    cases reply <;> rfl

/-- every failure branch of `judgeC16` is a `failShadow` -/
theorem judgeC16_ok_or_failShadow (o : AppObs) : (judgeC16 o).ok = true ∨ ∃ c, judgeC16 o = failShadow o c := by
  unfold judgeC16
  simp only
  repeat' split
  all_goals first | exact .inl rfl | exact .inr ⟨_, rfl⟩

/-- hence: on a shadowed payload every verdict is "ok" or marked -/
theorem judgeC16_shadowed (o : AppObs) (h : shadowed o.payload = true) : okOrMarked (judgeC16 o) := by
  rcases judgeC16_ok_or_failShadow o with h1 | ⟨c, h1⟩
  · exact .inl h1
  · rw [h1]; exact .inr (failShadow_marked o c h).1

theorem judgeC16_obs_udp (ci ci' : ClientInfo) (p : Bytes) (reply : Option Bytes) (hudp : ci.transport ≠ some 6) :
    judgeC16 (obsOf ci p ci' reply) =
      match parseCall p with
      | none => pass false
      | some c =>
        if refDatagram p = some ID_RPC_UDP then
          (match reply with
           | none => failShadow (obsOf ci p ci' reply) "ONC-RPC call not answered"
           | some r =>
             if rpcReplyOk c r (ci.ipDst.getD (.v4 [])) (ci.portDst.getD 0) then pass true
             else failShadow (obsOf ci p ci' reply) "ONC-RPC reply differs from the prescribed one")
        else pass false := by
  have ht : decide (ci.transport = some 6) = false := by simpa using hudp
  simp only [judgeC16, refOf, obsOf, ht, Bool.false_eq_true, false_and, if_false]
  cases parseCall p with
  | none => rfl
  | some c =>
    simp only
    cases reply <;> rfl

theorem judgeC16_obs_tcp (ci ci' : ClientInfo) (p : Bytes) (reply : Option Bytes) (htcp : ci.transport = some 6) :
    judgeC16 (obsOf ci p ci' reply) =
      if p.length < 4 then pass false else
      match parseCall (p.drop 4) with
      | none => pass false
      | some c =>
        if refStream p = some ID_RPC_TCP then
          (match reply with
           | none => failShadow (obsOf ci p ci' reply) "ONC-RPC call not answered"
           | some r =>
             match recordMarkOk r with
             | none => failShadow (obsOf ci p ci' reply) "record mark wrong (last-fragment bit / length)"
             | some b =>
               if rpcReplyOk c b (ci.ipDst.getD (.v4 [])) (ci.portDst.getD 0) then pass true
               else failShadow (obsOf ci p ci' reply) "ONC-RPC reply differs from the prescribed one")
        else pass false := by
  have ht : decide (ci.transport = some 6) = true := by simpa using htcp
  simp only [judgeC16, refOf, obsOf, ht, true_and, if_true]
  split
  · rfl
  · cases parseCall (p.drop 4) with
    | none => rfl
    | some c =>
      simp only
      cases reply <;> rfl

/-- the id as the harness passes it to the judge (`M` line of `Main.judgeApp`): "none" for `usize::MAX` -/
def optId (i : Nat) : Option Nat := if i = noMatch then none else some i

theorem optId_idOf_datagram (s : Bytes) : optId (idOf (refDatagramK2 s)) = refDatagramK2 s := by
  cases h : refDatagramK2 s with
  | none => simp [idOf, optId]
  | some i => simp [idOf, optId, (refDatagramK2_id s i h).2.2]

theorem optId_idOf_stream (s : Bytes) : optId (idOf (refStreamK2 s)) = refStreamK2 s := by
  cases h : refStreamK2 s with
  | none => simp [idOf, optId]
  | some i => simp [idOf, optId, (refDatagramK2_id s i (refDatagramK2_of_stream s i h)).2.2]

theorem lit_split : "[shadowed] matcher says " = "[shadowed] " ++ "matcher says " := by decide

/-- on a shadowed input the matcher judge passes or fails WITH the marker -/
theorem judgeC10m_shadowed (dg : Bool) (s : Bytes) (id : Option Nat) (hsh : shadowed s = true) :
    okOrMarked (judgeC10m dg s id) := by
  unfold judgeC10m
  generalize (if dg = true then refDatagram s else refStream s) = e
  simp only [hsh, if_true]
  split
  · exact .inl rfl
  split
  · exact .inl rfl
  right
  refine ⟨"matcher says " ++ toString id ++ ", published signatures say " ++ toString e, ?_⟩
  simp only [failv, toString, lit_split, String.append_assoc]

/-- the verdict of `judgeC10m` on the model's matcher call -/
def matcherVerdict (datagram : Bool) (s : Bytes) : Option Verdict :=
  if datagram then
    match datagramIdent s with
    | .ok i => some (judgeC10m true s (optId i))
    | .error _ => none
  else
    match protoTbl.searchNext baseState s with
    | .ok (i, _, _) => some (judgeC10m false s (optId i))
    | .error _ => none

theorem judgeC10_none (o : AppObs) (h : o.reply = none) : (judgeC10 o).ok = true := by
  unfold judgeC10; rw [h]; rfl

theorem judgeC10_class (o : AppObs) (r : Bytes) (i : Nat) (h : o.reply = some r)
    (hc : classId (classifyFor o.payload r) = some i) (he : refOf o = some i) : (judgeC10 o).ok = true := by
  unfold judgeC10
  rw [h]
  simp only [hc, he, if_true]
  rfl

theorem judgeC10_dns (o : AppObs) (r : Bytes) (h : o.reply = some r) (hc : classifyFor o.payload r = .dns)
    (he : refOf o = none) (ht : o.tcp = false) : (judgeC10 o).ok = true := by
  unfold judgeC10
  rw [h]
  simp only [hc, he, ht, classId]
  rfl

/-- every failure branch of `judgeC10` is a `failShadow` -/
theorem judgeC10_ok_or_failShadow (o : AppObs) : (judgeC10 o).ok = true ∨ ∃ c, judgeC10 o = failShadow o c := by
  unfold judgeC10
  simp only
  repeat' split
  all_goals first | exact .inl rfl | exact .inr ⟨_, rfl⟩

theorem judgeC10_shadowed (o : AppObs) (h : shadowed o.payload = true) : okOrMarked (judgeC10 o) := by
  rcases judgeC10_ok_or_failShadow o with h1 | ⟨c, h1⟩
  · exact .inl h1
  · rw [h1]; exact .inr (failShadow_marked o c h).1

/-- handlers other than HTTP and ONC-RPC/TCP do not look at the control block -/
theorem handle_tcb_irrel (cfg : Cfg) (env : Env) (i : Nat) (ci : ClientInfo) (tcb : Option Tcb) (p : Bytes)
    (h1 : i ≠ ID_HTTP) (h5 : i ≠ ID_RPC_TCP) :
    (protoHandle cfg env i ci tcb p).map (fun x => (x.1, x.2.2)) =
      (protoHandle cfg env i ci none p).map (fun x => (x.1, x.2.2)) := by
  have h1' : ¬ i = 1 := h1
  have h5' : ¬ i = 5 := h5
  unfold protoHandle
  simp only [PROTO_HTTP, PROTO_STUN, PROTO_SSH, PROTO_GHOST, PROTO_RPC_TCP, PROTO_RPC_UDP, PROTO_SMB1, PROTO_SMB2,
    h1', h5', if_false]
  by_cases h2 : i = 2
  · simp only [h2, if_true]; cases stunRepl ci p <;> rfl
  by_cases h3 : i = 3
  · simp only [h3, Nat.reduceEqDiff, if_false, if_true]; cases sshRepl p <;> rfl
  by_cases h4 : i = 4
  · simp only [h4, Nat.reduceEqDiff, if_false, if_true]; rfl
  by_cases h6 : i = 6
  · simp only [h6, Nat.reduceEqDiff, if_false, if_true]; cases rpcReplUdp cfg.ovf ci p <;> rfl
  by_cases h7 : i = 7
  · simp only [h7, Nat.reduceEqDiff, if_false, if_true]; rfl
  by_cases h8 : i = 8
  · simp only [h8, Nat.reduceEqDiff, if_false, if_true]; rfl
  simp only [h2, h3, h4, h6, h7, h8, if_false]; rfl
/-- which responder produced a reply, for ANY control block (sticky flows: the stored parser state is used) -/
theorem handle_reply_cases_any (cfg : Cfg) (env : Env) (i : Nat) (ci ci' : ClientInfo) (tcb tcb' : Option Tcb)
    (p r : Bytes) (h : protoHandle cfg env i ci tcb p = .ok (ci', tcb', some r)) :
    (i = ID_HTTP ∧ r = httpReplyBytes env ∧ ci' = ci) ∨ (i = ID_STUN ∧ stunRepl ci p = .ok (ci', some r)) ∨
    (i = ID_SSH ∧ r = sshBanner ∧ ci' = ci) ∨ (i = ID_GHOST ∧ r = Gen.ghostReply ∧ ci' = ci) ∨
    (i = ID_RPC_TCP ∧ (∃ s s', rpcReplTcp cfg.ovf s ci p = .ok (s', some r)) ∧ ci' = ci) ∨
    (i = ID_RPC_UDP ∧ rpcReplUdp cfg.ovf ci p = .ok (some r) ∧ ci' = ci) ∨
    (i = ID_SMB1 ∧ smb1Repl env p = some r ∧ ci' = ci) ∨ (i = ID_SMB2 ∧ smb2Repl env p = some r ∧ ci' = ci) := by
  cases tcb with
  | none => 
    rcases handle_reply_cases cfg env i ci ci' none tcb' p r (by intro t h; cases h) h with
      h | h | h | h | ⟨hi, ⟨s', hr⟩, hc⟩ | h | h | h
    · exact .inl h
    · exact .inr (.inl h)
    · exact .inr (.inr (.inl h))
    · exact .inr (.inr (.inr (.inl h)))
    · exact .inr (.inr (.inr (.inr (.inl ⟨hi, ⟨_, s', hr⟩, hc⟩))))
    · exact .inr (.inr (.inr (.inr (.inr (.inl h)))))
    · exact .inr (.inr (.inr (.inr (.inr (.inr (.inl h))))))
    · exact .inr (.inr (.inr (.inr (.inr (.inr (.inr h))))))
  | some t =>
    by_cases h1 : i = ID_HTTP
    · left
      refine ⟨h1, ?_⟩
      subst h1
      simp only [protoHandle, ID_HTTP, PROTO_HTTP, if_true] at h
      split at h
      · cases h
      · split at h
        · cases h
        · rename_i s' r' hr
          simp only [Except.ok.injEq, Prod.mk.injEq] at h
          obtain ⟨hc, _, h3⟩ := h
          subst h3
          exact ⟨httpRepl_reply env _ _ p r hr, hc.symm⟩
    by_cases h5 : i = ID_RPC_TCP
    · right; right; right; right; left
      refine ⟨h5, ?_⟩
      subst h5
      simp only [protoHandle, ID_RPC_TCP, PROTO_HTTP, PROTO_STUN, PROTO_SSH, PROTO_GHOST, PROTO_RPC_TCP,
        Nat.reduceEqDiff, if_false, if_true] at h
      split at h
      · cases h
      · split at h
        · cases h
        · rename_i s' r' hr
          simp only [Except.ok.injEq, Prod.mk.injEq] at h
          obtain ⟨hc, _, h3⟩ := h
          subst h3
          exact ⟨⟨_, s', hr⟩, hc.symm⟩
    · -- the other handlers do not look at the control block
      have heq : ∃ tcb'', protoHandle cfg env i ci none p = .ok (ci', tcb'', some r) := by
        have e := handle_tcb_irrel cfg env i ci (some t) p h1 h5
        rw [h] at e
        cases hn : protoHandle cfg env i ci none p with
        | error x => rw [hn] at e; cases e
        | ok x =>
          obtain ⟨c, tc, rr⟩ := x
          rw [hn] at e
          simp only [Except.map, Except.ok.injEq, Prod.mk.injEq] at e
          obtain ⟨rfl, rfl⟩ := e
          exact ⟨tc, rfl⟩
      obtain ⟨tcb'', h'⟩ := heq
      rcases handle_reply_cases cfg env i ci ci' none tcb'' p r (by intro t h; cases h) h' with
        h | h | h | h | ⟨hi, _⟩ | h | h | h
      · exact .inl h
      · exact .inr (.inl h)
      · exact .inr (.inr (.inl h))
      · exact .inr (.inr (.inr (.inl h)))
      · exact absurd hi h5
      · exact .inr (.inr (.inr (.inr (.inr (.inl h)))))
      · exact .inr (.inr (.inr (.inr (.inr (.inr (.inl h))))))
      · exact .inr (.inr (.inr (.inr (.inr (.inr (.inr h))))))

/-- the ONC-RPC/UDP responder's reply has class `rpcUdp` when the first byte of the call is not 'S' (else the
    echoed xid could spell "SSH-") and its message-type word is 0 (else the reply could carry its bytes 4..19) -/
theorem rpcudp_class (ovf : Bool) (ci : ClientInfo) (p r : Bytes) (hS : p.getD 0 0 ≠ 83)
    (h7 : 24 ≤ p.length → u8 p 7 = 0) (hr : rpcReplUdp ovf ci p = .ok (some r)) :
    classifyFor p r = .rpcUdp := by
  obtain ⟨_, body, hbody, hbl⟩ := rpcReplUdp_shape _ _ _ _ hr
  have hb0 : byte (be32 p 0 / 16777216) = p.getD 0 0 := by
    apply UInt8.toNat_inj.mp
    have := (u32be_be32_head p []).1
    simp only [u32be, List.cons_append, List.nil_append, u8_cons0] at this
    rw [this]; rfl
  have hshape : r = byte (be32 p 0 / 16777216) :: byte (be32 p 0 / 65536) :: byte (be32 p 0 / 256) ::
      byte (be32 p 0) :: 0 :: 0 :: 0 :: 1 :: 0 :: 0 :: 0 :: 0 :: 0 :: 0 :: 0 :: 0 :: 0 :: 0 :: 0 :: 0 :: body := by
    rw [hbody]; rfl
  have h1 := classify_rpcUdp_shape _ (byte (be32 p 0 / 65536)) (byte (be32 p 0 / 256)) (byte (be32 p 0)) body hbl
    (hb0 ▸ hS)
  have h2 := classifyNoStun_rpcUdp_shape _ (byte (be32 p 0 / 65536)) (byte (be32 p 0 / 256)) (byte (be32 p 0))
    body hbl (hb0 ▸ hS)
  rw [← hshape] at h1 h2
  exact classifyFor_eq p r .rpcUdp h1 h2 (fun hc => rpcudp_tid_ne _ _ _ _ h7 hr hc.2)

/-- the class (`classifyFor`) of a reply produced by the handler of protocol `i`, from ANY control block: it is
    `i` — for ONC-RPC/UDP under the two conditions of `rpcudp_class` -/
theorem reply_class_any (cfg : Cfg) (env : Env) (i : Nat) (ci ci' : ClientInfo) (tcb tcb' : Option Tcb) (p r : Bytes)
    (hsrc : ∀ ip, ci.ipSrc = some ip → IpWf ip) (ip : Ip) (dp : Nat) (hip : ci.ipDst = some ip)
    (hdp : ci.portDst = some dp) (hlt : dp < 65536)
    (h6 : i = ID_RPC_UDP → p.getD 0 0 ≠ 83) (h7 : i = ID_RPC_UDP → 24 ≤ p.length → u8 p 7 = 0)
    (h : protoHandle cfg env i ci tcb p = .ok (ci', tcb', some r)) :
    classId (classifyFor p r) = some i := by
  have hne : ∀ c, classify r = c → c ≠ .stun → classifyFor p r = c := by
    intro c hc hn; rw [classifyFor_of_ne p r (by rw [hc]; exact hn), hc]
  rcases handle_reply_cases_any cfg env i ci ci' tcb tcb' p r h with
    ⟨hi, hr, _⟩ | ⟨hi, hr⟩ | ⟨hi, hr, _⟩ | ⟨hi, hr, _⟩ | ⟨hi, ⟨s, s', hr⟩, _⟩ | ⟨hi, hr, _⟩ | ⟨hi, hr, _⟩ | ⟨hi, hr, _⟩
  · rw [hne .http (by rw [hr, classify_http]) (by decide), hi]; rfl
  · rw [(classifyFor_stun_iff p r).2 ⟨classify_stun ci ci' p r hsrc hr, stunRepl_byte2 ci ci' p r hsrc hr,
      stunRepl_tid ci ci' p r hr⟩, hi]; rfl
  · rw [hne .ssh (by rw [hr, classify_ssh]) (by decide), hi]; rfl
  · rw [hne .ghost (by rw [hr, classify_ghost]) (by decide), hi]; rfl
  · rw [hne .rpcTcp (classify_rpcTcp _ _ _ _ _ _ (C01.rpcReplTcp_len _ _ _ _ ip dp _ _ hip hdp hlt hr) hr)
      (by decide), hi]; rfl
  · rw [rpcudp_class _ _ _ _ (h6 hi) (h7 hi) hr, hi]; rfl
  · obtain ⟨x, a, b, t, hb, _⟩ := smb1Repl_head env p r hr
    rw [hne .smb1 (by rw [hb, classify_smb1]) (by decide), hi]; rfl
  · obtain ⟨x, a, b, t, hb, _⟩ := smb2Repl_head env p r hr
    rw [hne .smb2 (by rw [hb, classify_smb2]) (by decide), hi]; rfl

/-- the class (`classifyFor`) of the reply of handler `i` is `i` (identification by the compiled matcher:
    the first byte is none of the nine shadowed values, the message-type word is 0) -/
theorem reply_class (cfg : Cfg) (env : Env) (i : Nat) (ci ci' : ClientInfo) (tcb tcb' : Option Tcb) (p r : Bytes)
    (hsrc : ∀ ip, ci.ipSrc = some ip → IpWf ip) (ip : Ip) (dp : Nat) (hip : ci.ipDst = some ip)
    (hdp : ci.portDst = some dp) (hlt : dp < 65536)
    (h6 : i = ID_RPC_UDP → ∃ b t, p = b :: t ∧ nineBytes.contains b = false)
    (h7 : i = ID_RPC_UDP → 24 ≤ p.length → u8 p 7 = 0)
    (h : protoHandle cfg env i ci tcb p = .ok (ci', tcb', some r)) :
    classId (classifyFor p r) = some i := by
  refine reply_class_any cfg env i ci ci' tcb tcb' p r hsrc ip dp hip hdp hlt ?_ h7 h
  intro hi
  obtain ⟨b, t, rfl, hb⟩ := h6 hi
  intro h
  simp only [List.getD_cons_zero] at h
  subst h
  exact absurd hb (by decide)

/-- outside the shadow set the matcher's datagram identification is the published one — except on the
    one-byte-short datagrams, which are never answered -/
theorem datagram_ident_or_silent (cfg : Cfg) (env : Env) (ci ci' : ClientInfo) (tcb' : Option Tcb) (p : Bytes)
    (reply : Option Bytes) (hg : Gate ci) (hrun : protoRepl cfg env ci none p = .ok (ci', tcb', reply))
    (hns : shadowed p = false) : refDatagramK2 p = refDatagram p ∨ reply = none := by
  cases hq : rpcOneShort p with
  | false => exact .inl (refDatagramK2_eq_of_not_shadowed p hns hq)
  | true =>
    cases hs : refStreamK2 p with
    | some j =>
      left
      rw [refDatagramK2_of_stream p j hs,
        refDatagram_of_stream p j (by rw [← refStreamK2_eq_of_not_shadowed p hns]; exact hs)]
    | none =>
      have hpub : refDatagram p = none :=
        oneShort_pub_none p hq (by rw [← refStreamK2_eq_of_not_shadowed p hns]; exact hs)
      cases hk : refDatagramK2 p with
      | none => exact .inl hpub.symm
      | some j =>
        right
        rw [repl_datagram_some cfg env ci p j hg hk] at hrun
        cases reply with
        | none => rfl
        | some r =>
          exfalso
          have hcases := handle_reply_cases cfg env j ci ci' none tcb' p r (by intro t h; cases h) hrun
          rcases oneShort_ids p j hs hq hk with ⟨rfl, hl⟩ | ⟨rfl, hl⟩
          · rcases hcases with ⟨hi, _⟩ | ⟨hi, _⟩ | ⟨hi, _⟩ | ⟨hi, _⟩ | ⟨hi, _⟩ | ⟨_, hr, _⟩ | ⟨hi, _⟩ | ⟨hi, _⟩
            all_goals first | (exact absurd hi (by decide)) | skip
            have := rpcReplUdp_min _ _ _ _ hr
            omega
          · rcases hcases with ⟨hi, _⟩ | ⟨hi, _⟩ | ⟨hi, _⟩ | ⟨hi, _⟩ | ⟨_, ⟨s', hr⟩, _⟩ | ⟨hi, _⟩ | ⟨hi, _⟩ | ⟨hi, _⟩
            all_goals first | (exact absurd hi (by decide)) | skip
            have := rpcReplTcp_min _ _ _ _ _ hr
            omega

/-- REGRESSION input (finding D-B of the first round, now accepted): an 11 288-byte DNS query (id `01 01`, flags `2c 04`: opcode 5, 2202 root-name IN/A questions, then 266
    ignored bytes) that is also a complete STUN message (type 0x0101, length 11 268, 45 attributes) -/
def dnsStunAlias : Bytes :=
  [1, 1, 0x2c, 0x04, 0x08, 0x9a, 0, 0, 0, 0, 0, 0] ++ (List.replicate 2202 [0, 0, 1, 0, 1]).flatten ++
  List.replicate 182 0 ++ [0, 0, 0, 80] ++ List.replicate 80 0

/-- REGRESSION input (false alarm of `judgeC10` and `judgeC15` in the second round, accepted since the QR-bit test): a 32 688-byte DNS message with id `01 01`, flags `7f 9c`
    (opcode 15, RD), QDCOUNT = ANCOUNT = 48, 48 IN/A questions with 665/653-byte names, 48 empty answer
    records; it is also a complete STUN message (type 0x0101, length 32 668, one attribute `01 01 7f 98`).
    The DNS fallback answers with 64 788 bytes `01 01 fd 00 00 30 00 30 …`: STUN shape (0xfd00 = 64 768 =
    length − 20) and the same bytes 4..19 as the payload. -/
def dnsTidAlias : Bytes :=
  [1, 1, 0x7f, 0x9c, 0, 48, 0, 48, 0, 0, 0, 0] ++
  (List.replicate 8 65 ++ [1, 1, 0x7f, 0x98] ++ List.replicate 653 65 ++ [0, 0, 1, 0, 1]) ++
  (List.replicate 46 (List.replicate 665 65 ++ [0, 0, 1, 0, 1])).flatten ++
  (List.replicate 653 65 ++ [0, 0, 1, 0, 1]) ++
  (List.replicate 48 [0, 0, 1, 0, 1, 0, 0, 0, 0, 0, 0]).flatten

/-- REGRESSION input (false alarm of `judgeC10` in the second round; not a STUN message): 27 052 bytes, id `01 01`, flags 0,
    QDCOUNT = ANCOUNT = 1690, 1690 root-name IN/A questions and 1690 empty root-name answer records; DNS reply
    of 33 812 bytes `01 01 84 00 06 9a 06 9a …` (0x8400 = 33 792 = length − 20) -/
def dnsTidAliasRoot : Bytes :=
  [1, 1, 0, 0, 0x06, 0x9a, 0x06, 0x9a, 0, 0, 0, 0] ++ (List.replicate 1690 [0, 0, 1, 0, 1]).flatten ++
  (List.replicate 1690 [0, 0, 1, 0, 1, 0, 0, 0, 0, 0, 0]).flatten

end Masscanned.J4
