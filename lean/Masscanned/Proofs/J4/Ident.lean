/-
  Proofs/J4/Ident — what an identification (by the compiled matcher, `Spec.refDatagramK2` /
  `Spec.refStreamK2`, or by the published reference) says about the first bytes and the length of a payload.
-/
import Masscanned.Proofs.J4.Class
namespace Masscanned.J4
open Masscanned Masscanned.Spec Masscanned.C10 Masscanned.E2E

/-- the one-byte-short quirk concerns datagrams of 23 or 27 bytes only -/
theorem oneShort_length (s : Bytes) (h : rpcOneShort s = true) : s.length = 23 ∨ s.length = 27 := by
  have hall : sigsK2.all (fun g => g.endAnchored || (g.pat.getLast? != some .any) ||
      decide (g.pat.length = 24) || decide (g.pat.length = 28)) = true := by decide +kernel
  unfold rpcOneShort at h
  obtain ⟨g, hg, ho⟩ := List.any_eq_true.mp h
  have hgl := List.all_eq_true.mp hall g hg
  simp only [oneShortOf, Bool.and_eq_true, Bool.not_eq_true', decide_eq_true_eq] at ho
  obtain ⟨⟨⟨ha, hl⟩, hlen⟩, _⟩ := ho
  simp only [ha, hl, Bool.false_or, bne_self_eq_false, Bool.or_eq_true, decide_eq_true_eq] at hgl
  omega

theorem pmX_cons (x : SymX) (P : List SymX) (p : Bytes) (h : prefixMatchX (x :: P) p = true) :
    ∃ b t, p = b :: t ∧ symMatchX x b = true ∧ prefixMatchX P t = true := by
  cases p with
  | nil => simp [prefixMatchX] at h
  | cons b t =>
    simp only [prefixMatchX, Bool.and_eq_true] at h
    exact ⟨b, t, rfl, h.1, h.2⟩

/-! ### ONC-RPC/UDP: the first byte is none of the nine shadowed values -/

theorem k2_rpcudp_sigs : ∀ g ∈ sigsK2, g.id = ID_RPC_UDP →
    g.endAnchored = false ∧ g.pat.head? = some (.anyExcept nineBytes) ∧
      g.pat.dropLast.head? = some (.anyExcept nineBytes) := by decide +kernel

theorem head_match (P : List SymX) (l : List UInt8) (p : Bytes) (hh : P.head? = some (.anyExcept l))
    (h : prefixMatchX P p = true) : ∃ b t, p = b :: t ∧ l.contains b = false := by
  cases P with
  | nil => cases hh
  | cons x Q =>
    simp only [List.head?_cons, Option.some.injEq] at hh
    subst hh
    obtain ⟨b, t, rfl, hb, _⟩ := pmX_cons _ _ _ h
    exact ⟨b, t, rfl, by simpa [symMatchX] using hb⟩

theorem k2_rpcudp_first (p : Bytes) (h : refDatagramK2 p = some ID_RPC_UDP) :
    ∃ b t, p = b :: t ∧ nineBytes.contains b = false := by
  unfold refDatagramK2 at h
  cases hs : refStreamK2 p with
  | some i =>
    rw [hs] at h
    simp only [Option.some.injEq] at h
    subst h
    rw [refStreamK2_eq] at hs
    obtain ⟨g, hg, hid, _, hm⟩ := refStreamL_inv _ _ _ hs
    exact head_match _ _ _ (k2_rpcudp_sigs g hg hid).2.1 hm
  | none =>
    rw [hs] at h
    simp only at h
    rw [refEndK2_eq] at h
    obtain ⟨g, hg, hid, hcase⟩ := refEndL_inv _ _ _ h
    obtain ⟨ha, _, hd⟩ := k2_rpcudp_sigs g hg hid
    rcases hcase with ⟨ha', _⟩ | ho
    · rw [ha] at ha'; cases ha'
    · simp only [oneShortOf, Bool.and_eq_true] at ho
      exact head_match _ _ _ hd ho.2

/-! ### ONC-RPC/UDP: the message-type word of an identified call is 0 -/

theorem k2_rpcudp_pat : ∀ g ∈ sigsK2, g.id = ID_RPC_UDP → g.pat = patRpc (.anyExcept nineBytes) := by
  decide +kernel

theorem k2_rpcudp_byte7 (p : Bytes) (h : refDatagramK2 p = some ID_RPC_UDP) (hl : 24 ≤ p.length) :
    u8 p 7 = 0 := by
  unfold refDatagramK2 at h
  cases hs : refStreamK2 p with
  | some i =>
    rw [hs] at h
    simp only [Option.some.injEq] at h
    subst h
    rw [refStreamK2_eq] at hs
    obtain ⟨g, hg, hid, _, hm⟩ := refStreamL_inv _ _ _ hs
    rw [k2_rpcudp_pat g hg hid, pmX_eq] at hm
    simp only [patRpc, pmFrom, sym_lit, Bool.and_eq_true, decide_eq_true_eq] at hm
    exact hm.2.2.2.2.2.2.2.2.1
  | none =>
    rw [hs] at h
    simp only at h
    rw [refEndK2_eq] at h
    obtain ⟨g, hg, hid, hcase⟩ := refEndL_inv _ _ _ h
    have hp := k2_rpcudp_pat g hg hid
    rcases hcase with ⟨ha, _⟩ | ho
    · rw [(k2_rpcudp_sigs g hg hid).1] at ha; cases ha
    · simp only [oneShortOf, Bool.and_eq_true, decide_eq_true_eq] at ho
      have := ho.1.2
      rw [hp] at this
      simp [patRpc] at this
      omega

/-! ### the one-byte-short quirk: which responder is called -/

theorem k2_oneShort_sigs : ∀ g ∈ sigsK2,
    (g.endAnchored = true → g.pat.length = 20 ∨ g.pat.length = 28) ∧
    (g.endAnchored = false → g.pat.getLast? = some .any →
      (g.id = ID_RPC_UDP ∧ g.pat.length = 24) ∨ (g.id = ID_RPC_TCP ∧ g.pat.length = 28)) := by
  decide +kernel

theorem oneShort_ids (p : Bytes) (j : Nat) (hs : refStreamK2 p = none) (hq : rpcOneShort p = true)
    (hk : refDatagramK2 p = some j) :
    (j = ID_RPC_UDP ∧ p.length = 23) ∨ (j = ID_RPC_TCP ∧ p.length = 27) := by
  have hlen := oneShort_length p hq
  unfold refDatagramK2 at hk
  rw [hs] at hk
  simp only at hk
  rw [refEndK2_eq] at hk
  obtain ⟨g, hg, hid, hcase⟩ := refEndL_inv _ _ _ hk
  obtain ⟨h1, h2⟩ := k2_oneShort_sigs g hg
  rcases hcase with ⟨ha, hl, _⟩ | ho
  · have := h1 ha; omega
  · simp only [oneShortOf, Bool.and_eq_true, Bool.not_eq_true', decide_eq_true_eq] at ho
    obtain ⟨⟨⟨ha, hl⟩, hlen'⟩, _⟩ := ho
    rcases h2 ha hl with ⟨e1, e2⟩ | ⟨e1, e2⟩
    · exact .inl ⟨by rw [← hid]; exact e1, by omega⟩
    · exact .inr ⟨by rw [← hid]; exact e1, by omega⟩

/-! ### published reference: a payload identified as STUN starts `00 01` -/

theorem pub_stun_sigs : ∀ g ∈ sigsPub, g.id = ID_STUN → g.pat.take 2 = [.lit 0, .lit 1] := by decide +kernel

theorem lit01_match (P : List SymX) (p : Bytes) (hh : P.take 2 = [.lit 0, .lit 1])
    (h : prefixMatchX P p = true) : u8 p 0 = 0 ∧ u8 p 1 = 1 := by
  match P, hh with
  | x :: y :: Q, hh =>
    simp only [List.take_succ_cons, List.take_zero, List.cons.injEq, and_true] at hh
    obtain ⟨rfl, rfl⟩ := hh
    obtain ⟨b, t, rfl, hb, h⟩ := pmX_cons _ _ _ h
    obtain ⟨c, t', rfl, hc, _⟩ := pmX_cons _ _ _ h
    simp only [symMatchX, decide_eq_true_eq] at hb hc
    subst hb hc
    exact ⟨rfl, rfl⟩

theorem pub_stun_first_stream (p : Bytes) (h : refStream p = some ID_STUN) : u8 p 0 = 0 ∧ u8 p 1 = 1 := by
  rw [refStream_eq_pub] at h
  obtain ⟨g, hg, hid, _, hm⟩ := refStreamL_inv _ _ _ h
  exact lit01_match _ _ (pub_stun_sigs g hg hid) hm

theorem pub_stun_first (p : Bytes) (h : refDatagram p = some ID_STUN) : u8 p 0 = 0 ∧ u8 p 1 = 1 := by
  unfold refDatagram at h
  cases hs : refStream p with
  | some i =>
    rw [hs] at h
    simp only [Option.some.injEq] at h
    subst h
    exact pub_stun_first_stream p hs
  | none =>
    rw [hs] at h
    simp only at h
    rw [refEnd_eq_pub] at h
    cases hf : sigsPub.find? (fun g => g.endAnchored && decide (g.pat.length = p.length) && prefixMatchX g.pat p) with
    | none => rw [hf] at h; cases h
    | some g =>
      rw [hf] at h
      simp only [Option.map_some, Option.some.injEq] at h
      have hp := List.find?_some hf
      simp only [Bool.and_eq_true, decide_eq_true_eq] at hp
      exact lit01_match _ _ (pub_stun_sigs g (List.mem_of_find?_eq_some hf) h) hp.2

/-! ### the one-byte-short quirk against `Spec.rpcOneShortId` (stated on the published patterns) -/

/-- every byte string matching `P` matches `Q` -/
def weaker : List SymX → List Sym → Bool
  | [], [] => true
  | x :: P, y :: Q =>
    (match x, y with
     | _, .any => true
     | .lit a, .lit b => a == b
     | _, _ => false) && weaker P Q
  | _, _ => false

theorem weaker_match (P : List SymX) (Q : List Sym) (s : Bytes) (hw : weaker P Q = true)
    (h : prefixMatchX P s = true) : prefixMatch Q s = true := by
  induction P generalizing Q s with
  | nil =>
    cases Q with
    | nil => cases s <;> rfl
    | cons y Q => simp [weaker] at hw
  | cons x P ih =>
    cases Q with
    | nil => simp [weaker] at hw
    | cons y Q =>
      obtain ⟨b, t, rfl, hb, ht⟩ := pmX_cons _ _ _ h
      simp only [weaker, Bool.and_eq_true] at hw
      simp only [prefixMatch, Bool.and_eq_true]
      refine ⟨?_, ih Q t hw.2 ht⟩
      cases y with
      | any => rfl
      | lit c =>
        cases x with
        | lit a =>
          have h1 := hw.1
          simp only [beq_iff_eq] at h1
          subst h1
          simpa [symMatchX, symMatch] using hb
        | any => simp at hw
        | anyExcept l => simp at hw

theorem k2_oneShort_weaker : ∀ g ∈ sigsK2, g.endAnchored = false → g.pat.getLast? = some .any →
    (g.id = ID_RPC_UDP ∧ g.pat.length = 24 ∧ weaker g.pat.dropLast (rpcCall.take 23) = true) ∨
    (g.id = ID_RPC_TCP ∧ g.pat.length = 28 ∧ weaker g.pat.dropLast ((anyN 4 ++ rpcCall).take 27) = true) := by
  decide +kernel

/-- a datagram identified through the quirk: the judge's `rpcOneShortId` (published patterns) names the
    same id -/
theorem oneShort_id_eq (p : Bytes) (j : Nat) (hs : refStreamK2 p = none) (hq : rpcOneShort p = true)
    (hk : refDatagramK2 p = some j) : rpcOneShortId p = some j := by
  have hlen := oneShort_length p hq
  unfold refDatagramK2 at hk
  rw [hs] at hk
  simp only at hk
  rw [refEndK2_eq] at hk
  obtain ⟨g, hg, hid, hcase⟩ := refEndL_inv _ _ _ hk
  obtain ⟨h1, _⟩ := k2_oneShort_sigs g hg
  rcases hcase with ⟨ha, hl, _⟩ | ho
  · have := h1 ha; omega
  · simp only [oneShortOf, Bool.and_eq_true, Bool.not_eq_true', decide_eq_true_eq] at ho
    obtain ⟨⟨⟨ha, hl⟩, hlen'⟩, hm⟩ := ho
    unfold rpcOneShortId
    rcases k2_oneShort_weaker g hg ha hl with ⟨e1, e2, e3⟩ | ⟨e1, e2, e3⟩
    · have h23 : p.length = 23 := by omega
      rw [if_pos ⟨h23, weaker_match _ _ _ e3 hm⟩, ← hid, e1]
    · have h27 : p.length = 27 := by omega
      rw [if_neg (by omega), if_pos ⟨h27, weaker_match _ _ _ e3 hm⟩, ← hid, e1]

theorem pub_end_lengths : ∀ g ∈ sigsPub, g.endAnchored = true → g.pat.length = 20 ∨ g.pat.length = 28 := by
  decide +kernel

/-- a 23- or 27-byte datagram completes no end-anchored published signature -/
theorem oneShort_pub_none (p : Bytes) (hq : rpcOneShort p = true) (hs : refStream p = none) :
    refDatagram p = none := by
  have hlen := oneShort_length p hq
  unfold refDatagram
  rw [hs]
  simp only
  rw [refEnd_eq_pub, Option.map_eq_none_iff, List.find?_eq_none]
  intro g hg
  simp only [Bool.and_eq_true, decide_eq_true_eq, not_and]
  intro ha _
  have := pub_end_lengths g hg ha.1
  omega

end Masscanned.J4
