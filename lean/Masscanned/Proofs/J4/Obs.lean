/-
  Proofs/J4/Obs — the observation (`Spec.AppObs`) that the harness would build from one call of the
  MODEL at the application interface (`protoRepl cfg env ci tcb p`), exactly as `Main.judgeApp` builds it
  from a call of the real program: transport flag, addresses and ports of the call, the payload, the
  reply bytes (if any) and the local port after the call; `forced = none` (datagram, or first segment of
  a fresh TCP flow).
-/
import Masscanned.Spec.JudgeApp
import Masscanned.Model.Dispatch
namespace Masscanned.J4
open Masscanned Masscanned.Spec

/-- the observation of a call with client info `ci` and payload `p` whose result was
    `.ok (ci', _, reply)` -/
def obsOf (ci : ClientInfo) (p : Bytes) (ci' : ClientInfo) (reply : Option Bytes) : AppObs :=
  { tcp := decide (ci.transport = some 6),
    src := ci.ipSrc.getD (.v4 []), dst := ci.ipDst.getD (.v4 []),
    sport := ci.portSrc.getD 0, dport := ci.portDst.getD 0,
    payload := p, reply := reply, portAfter := ci'.portDst.getD 0, forced := none }

/-- the observation of a later segment of a flow whose sticky protocol id is `id` -/
def obsOfForced (ci : ClientInfo) (p : Bytes) (ci' : ClientInfo) (reply : Option Bytes) (id : Nat) : AppObs :=
  { obsOf ci p ci' reply with forced := some id }

/-- a verdict is classified as known finding K2 by the harness (`fc.startswith('[shadowed]')`) -/
def marked (v : Verdict) : Prop := ∃ c, v.clause = "[shadowed] " ++ c

/-- what every soundness theorem concludes: accepted, or failed with the K2 marker -/
def okOrMarked (v : Verdict) : Prop := v.ok = true ∨ marked v

/-- the class the soundness proofs exclude: the reply is classified as a STUN response by `Spec.classifyFor`
    (STUN shape, top bit of byte 2 clear, bytes 4..19 equal to the payload's) although the payload does not
    start with the two bytes `00 01` of a Binding Request.  EMPTY on model behaviour: `J4.no_alias_udp`,
    `J4.no_alias_tcp`. -/
def stunAlias (p : Bytes) (reply : Option Bytes) : Bool :=
  match reply with
  | some r => decide (classifyFor p r = .stun) && !(decide (u8 p 0 = 0) && decide (u8 p 1 = 1))
  | none => false

/-- the class before the transaction-id test was added to the judges (`Spec.classify` alone): the reply has
    the STUN shape although the payload does not start `00 01` — ONC-RPC/UDP replies echoing an xid
    `01 01 …` and DNS replies with id `01 01` (findings D-A / D-B, now accepted: regression examples) -/
def stunShapeAlias (p : Bytes) (reply : Option Bytes) : Bool :=
  match reply with
  | some r => decide (classify r = .stun) && !(decide (u8 p 0 = 0) && decide (u8 p 1 = 1))
  | none => false

/-- verdict of a judge on the model's own answer to one call (`none` if the model panics) -/
def modelVerdict (judge : AppObs → Verdict) (cfg : Cfg) (env : Env) (ci : ClientInfo) (tcb : Option Tcb)
    (p : Bytes) : Option Verdict :=
  match protoRepl cfg env ci tcb p with
  | .ok (ci', _, reply) => some (judge (obsOf ci p ci' reply))
  | .error _ => none

theorem modelVerdict_eq {judge : AppObs → Verdict} {cfg : Cfg} {env : Env} {ci ci' : ClientInfo}
    {tcb tcb' : Option Tcb} {p : Bytes} {reply : Option Bytes}
    (h : protoRepl cfg env ci tcb p = .ok (ci', tcb', reply)) :
    modelVerdict judge cfg env ci tcb p = some (judge (obsOf ci p ci' reply)) := by
  unfold modelVerdict; rw [h]

end Masscanned.J4

