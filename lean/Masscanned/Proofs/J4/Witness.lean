/-
  Proofs/J4/Witness — kernel-checked facts about the regression inputs `J4.dnsTidAlias` and `J4.dnsTidAliasRoot`
  (DNS messages with QDCOUNT = ANCOUNT whose DNS reply has the STUN shape and the payload's bytes 4..19: false
  alarms of the second version of `Spec.classifyFor`, accepted since the QR-bit test), kept in their own module.
  The evaluation of the model on them (35 s / 90 s and more in the kernel) is not done here: their acceptance is
  stated through the general theorems (Thm/C10Judge, Thm/C15Judge).
-/
import Masscanned.Proofs.J4.Judge
namespace Masscanned.J4
open Masscanned Masscanned.Spec Masscanned.C10 Masscanned.E2E Masscanned.C10E2E

theorem dnsTid_length : dnsTidAlias.length = 32688 := by decide +kernel
theorem dnsTid_not_shadowed : shadowed dnsTidAlias = false := by decide +kernel
set_option maxRecDepth 1000000 in
theorem dnsTid_stunOther : stunOther dnsTidAlias = true := by decide +kernel
theorem dnsTid_counts : be16 dnsTidAlias 4 = be16 dnsTidAlias 6 := by decide +kernel
theorem dnsTid_le : dnsTidAlias.length ≤ 65535 := by rw [dnsTid_length]; decide

theorem dnsTidRoot_not_shadowed : shadowed dnsTidAliasRoot = false := by decide +kernel
theorem dnsTidRoot_counts : be16 dnsTidAliasRoot 4 = be16 dnsTidAliasRoot 6 := by decide +kernel

end Masscanned.J4
