/-
  Proofs/J4/Class — the class `Spec.classify` assigns to the reply of each responder of the model.
-/
import Masscanned.Proofs.J4.Shapes
namespace Masscanned.J4
open Masscanned Masscanned.Spec Masscanned.C10 Masscanned.E2E Masscanned.C16

theorem classify_ssh : classify sshBanner = .ssh := by decide +kernel
theorem classify_ghost : classify Gen.ghostReply = .ghost := by decide +kernel

theorem classify_http (env : Env) : classify (httpReplyBytes env) = .http := by
  obtain ⟨t, ht⟩ := httpReply_head env
  unfold classify
  rw [if_pos]
  rw [ht, lit_http]
  simp [List.isPrefixOf]

/-- the bytes of a prefix -/
theorem prefix_u8 (l r : Bytes) (h : l.isPrefixOf r = true) (i : Nat) (hi : i < l.length) :
    u8 r i = (l.getD i 0).toNat := by
  obtain ⟨t, rfl⟩ := List.isPrefixOf_iff_prefix.mp h
  simp [u8, List.getD_eq_getElem?_getD, List.getElem?_append_left hi]

theorem not_prefix (l r : Bytes) (i : Nat) (hi : i < l.length) (h : u8 r i ≠ (l.getD i 0).toNat) :
    l.isPrefixOf r = false := by
  cases hp : l.isPrefixOf r with
  | false => rfl
  | true => exact absurd (prefix_u8 l r hp i hi) h

theorem classify_smb1 (x a b : UInt8) (t : Bytes) : classify (0 :: x :: a :: b :: 255 :: 83 :: 77 :: 66 :: t) = .smb1 := by
  unfold classify
  rw [if_neg, if_neg, if_neg, if_pos]
  · simp [u8, sub]
  · rw [lit_ghost]; simp [List.isPrefixOf]
  · rw [lit_ssh]; simp [List.isPrefixOf]
  · rw [lit_http]; simp [List.isPrefixOf]

theorem classify_smb2 (x a b : UInt8) (t : Bytes) : classify (0 :: x :: a :: b :: 254 :: 83 :: 77 :: 66 :: t) = .smb2 := by
  unfold classify
  rw [if_neg, if_neg, if_neg, if_neg, if_pos]
  · simp [u8, sub]
  · simp [u8, sub]
  · rw [lit_ghost]; simp [List.isPrefixOf]
  · rw [lit_ssh]; simp [List.isPrefixOf]
  · rw [lit_http]; simp [List.isPrefixOf]

/-- DNS fallback reply: class `dns`, unless it is STUN-shaped -/
theorem classify_dns (ci : ClientInfo) (p r : Bytes) (m : DnsMsg) (hp : dnsParse p = some m)
    (h : dnsRepl ci m = some r) : classify r = .dns ∨ classify r = .stun := by
  obtain ⟨f, q1, q2, t, rfl, hf⟩ := dnsRepl_head ci p r m hp h
  have hq1 := q1.toNat_lt; have hq2 := q2.toNat_lt
  unfold classify
  rw [if_neg, if_neg, if_neg, if_neg, if_neg]
  · by_cases hs : (p.getD 0 0 :: p.getD 1 0 :: f :: 0 :: q1 :: q2 :: q1 :: q2 :: 0 :: 0 :: 0 :: 0 :: t).length ≥ 20 ∧
        u8 (p.getD 0 0 :: p.getD 1 0 :: f :: 0 :: q1 :: q2 :: q1 :: q2 :: 0 :: 0 :: 0 :: 0 :: t) 0 / 64 = 0 ∧
        be16 (p.getD 0 0 :: p.getD 1 0 :: f :: 0 :: q1 :: q2 :: q1 :: q2 :: 0 :: 0 :: 0 :: 0 :: t) 2 =
          (p.getD 0 0 :: p.getD 1 0 :: f :: 0 :: q1 :: q2 :: q1 :: q2 :: 0 :: 0 :: 0 :: 0 :: t).length - 20 ∧
        (u8 (p.getD 0 0 :: p.getD 1 0 :: f :: 0 :: q1 :: q2 :: q1 :: q2 :: 0 :: 0 :: 0 :: 0 :: t) 0 % 2 = 1 ∨
          u8 (p.getD 0 0 :: p.getD 1 0 :: f :: 0 :: q1 :: q2 :: q1 :: q2 :: 0 :: 0 :: 0 :: 0 :: t) 1 / 16 % 2 = 1) ∧
        u8 (p.getD 0 0 :: p.getD 1 0 :: f :: 0 :: q1 :: q2 :: q1 :: q2 :: 0 :: 0 :: 0 :: 0 :: t) 1 % 16 = 1
    · rw [if_pos hs]; exact .inr rfl
    · rw [if_neg hs, if_neg, if_neg, if_pos]
      · exact .inl rfl
      · simp [u8]; omega
      · simp [be32, be16, u8]; omega
      · simp [be32, be16, u8]
  · simp [u8, sub]
    intro _ h2 _ h4; exact absurd (h2.symm.trans h4) (by decide)
  · simp [u8, sub]
    intro _ h2 _ h4; exact absurd (h2.symm.trans h4) (by decide)
  · rw [Bool.not_eq_true]; apply not_prefix _ _ 2 (by rw [lit_ghost]; decide)
    rw [lit_ghost]; simp [u8]; omega
  · rw [Bool.not_eq_true]; apply not_prefix _ _ 2 (by rw [lit_ssh]; decide)
    rw [lit_ssh]; simp [u8]; omega
  · rw [Bool.not_eq_true]; apply not_prefix _ _ 2 (by rw [lit_http]; decide)
    rw [lit_http]; simp [u8]; omega

theorem classify_rpcUdp_shape (a b c e : UInt8) (body : Bytes) (hb : 4 ≤ body.length) (ha : a ≠ 83) :
    classify (a :: b :: c :: e :: 0 :: 0 :: 0 :: 1 :: 0 :: 0 :: 0 :: 0 :: 0 :: 0 :: 0 :: 0 :: 0 :: 0 :: 0 :: 0 :: body) = .rpcUdp ∨
    classify (a :: b :: c :: e :: 0 :: 0 :: 0 :: 1 :: 0 :: 0 :: 0 :: 0 :: 0 :: 0 :: 0 :: 0 :: 0 :: 0 :: 0 :: 0 :: body) = .stun := by
  generalize hr : (a :: b :: c :: e :: 0 :: 0 :: 0 :: 1 :: 0 :: 0 :: 0 :: 0 :: 0 :: 0 :: 0 :: 0 :: 0 :: 0 :: 0 :: 0 :: body) = r
  have hlen : r.length = 20 + body.length := by rw [← hr]; simp only [List.length_cons]; omega
  have u0 : u8 r 0 = a.toNat := by rw [← hr]; rfl
  have u4 : u8 r 4 = 0 := by rw [← hr]; rfl
  have u5 : u8 r 5 = 0 := by rw [← hr]; rfl
  have u6 : u8 r 6 = 0 := by rw [← hr]; rfl
  have u7 : u8 r 7 = 1 := by rw [← hr]; rfl
  have u8' : u8 r 8 = 0 := by rw [← hr]; rfl
  have u9 : u8 r 9 = 0 := by rw [← hr]; rfl
  have u10 : u8 r 10 = 0 := by rw [← hr]; rfl
  have u11 : u8 r 11 = 0 := by rw [← hr]; rfl
  have u12 : u8 r 12 = 0 := by rw [← hr]; rfl
  have u13 : u8 r 13 = 0 := by rw [← hr]; rfl
  have u14 : u8 r 14 = 0 := by rw [← hr]; rfl
  have u15 : u8 r 15 = 0 := by rw [← hr]; rfl
  have u16 : u8 r 16 = 0 := by rw [← hr]; rfl
  have u17 : u8 r 17 = 0 := by rw [← hr]; rfl
  have u18 : u8 r 18 = 0 := by rw [← hr]; rfl
  have u19 : u8 r 19 = 0 := by rw [← hr]; rfl
  unfold classify
  rw [if_neg, if_neg, if_neg, if_neg, if_neg]
  · by_cases hs : r.length ≥ 20 ∧ u8 r 0 / 64 = 0 ∧ be16 r 2 = r.length - 20 ∧
        (u8 r 0 % 2 = 1 ∨ u8 r 1 / 16 % 2 = 1) ∧ u8 r 1 % 16 = 1
    · rw [if_pos hs]; exact .inr rfl
    · have hT : ¬(r.length ≥ 28 ∧ u8 r 0 ≥ 128 ∧ be32 r 8 = 1 ∧ be32 r 12 = 0 ∧
          be32 r 0 - 2147483648 = r.length - 4) := by
        simp only [be32, be16, Nat.reduceAdd, u8', u9, u10, u11]
        omega
      have hU : r.length ≥ 24 ∧ be32 r 4 = 1 ∧ be32 r 8 = 0 ∧ be32 r 12 = 0 ∧ be32 r 16 = 0 := by
        simp only [be32, be16, Nat.reduceAdd, u4, u5, u6, u7, u8', u9, u10, u11, u12, u13, u14, u15, u16, u17,
          u18, u19, and_true]
        omega
      rw [if_neg hs, if_neg hT, if_pos hU]
      exact .inl rfl
  · rintro ⟨_, _, h⟩
    have := sub_u8 r 4 4 _ h 0 (by decide)
    simp [u4] at this
  · rintro ⟨_, _, h⟩
    have := sub_u8 r 4 4 _ h 0 (by decide)
    simp [u4] at this
  · rw [Bool.not_eq_true]; apply not_prefix _ _ 4 (by rw [lit_ghost]; decide)
    rw [lit_ghost, u4]; decide
  · rw [Bool.not_eq_true]; apply not_prefix _ _ 0 (by rw [lit_ssh]; decide)
    rw [lit_ssh, u0]
    intro h
    exact ha (UInt8.toNat_inj.mp h)
  · rw [Bool.not_eq_true]; apply not_prefix _ _ 4 (by rw [lit_http]; decide)
    rw [lit_http, u4]; decide

theorem stunRepl_head (ci ci' : ClientInfo) (d r : Bytes) (h : stunRepl ci d = .ok (ci', some r)) :
    ∃ t, r = 1 :: 1 :: t := by
  unfold stunRepl at h
  split at h
  · cases h
  · cases h
  · split at h
    · cases h
    · split at h
      · cases h
      · split at h
        · simp only [Except.ok.injEq, Prod.mk.injEq, Option.some.injEq] at h
          exact ⟨_, h.2.symm⟩
        · cases h

/-- the STUN responder's reply is classified as STUN -/
theorem classify_stun (ci ci' : ClientInfo) (d r : Bytes) (hw : ∀ ip, ci.ipSrc = some ip → IpWf ip)
    (h : stunRepl ci d = .ok (ci', some r)) : classify r = .stun := by
  have hl := C15.stun_reply_wellformed ci ci' d r hw h
  obtain ⟨t, ht⟩ := stunRepl_head ci ci' d r h
  unfold looksStunResponse at hl
  split at hl
  · rename_i m hm
    obtain ⟨h20, h64, hlen, _, hcls, _, _⟩ := Masscanned.parseStun_inv hm
    have u0 : u8 r 0 = 1 := by rw [ht]; rfl
    have u1 : u8 r 1 = 1 := by rw [ht]; rfl
    have hS : r.length ≥ 20 ∧ u8 r 0 / 64 = 0 ∧ be16 r 2 = r.length - 20 ∧
        (u8 r 0 % 2 = 1 ∨ u8 r 1 / 16 % 2 = 1) ∧ u8 r 1 % 16 = 1 := by
      rw [u0, u1]; exact ⟨h20, rfl, by omega, .inl rfl, rfl⟩
    unfold classify
    rw [if_neg, if_neg, if_neg, if_neg, if_neg, if_pos hS]
    · rintro ⟨_, h0, _⟩; rw [u0] at h0; cases h0
    · rintro ⟨_, h0, _⟩; rw [u0] at h0; cases h0
    · rw [Bool.not_eq_true]; apply not_prefix _ _ 0 (by rw [lit_ghost]; decide)
      rw [lit_ghost, u0]; decide
    · rw [Bool.not_eq_true]; apply not_prefix _ _ 0 (by rw [lit_ssh]; decide)
      rw [lit_ssh, u0]; decide
    · rw [Bool.not_eq_true]; apply not_prefix _ _ 0 (by rw [lit_http]; decide)
      rw [lit_http, u0]; decide
  · cases hl

/-- the ONC-RPC/TCP responder's reply: record mark, then the reply of the builder (in the final parser
    state `s1`; the state stored afterwards is the initial one) -/
theorem rpcReplTcp_shape (ovf : Bool) (s s' : RpcSt) (ci : ClientInfo) (d r : Bytes)
    (h : rpcReplTcp ovf s ci d = .ok (s', some r)) :
    ∃ s1 resp, rpcBuild s1 ci = .ok resp ∧
      r = [byte (resp.length / 16777216 % 256 + (if resp.length / 16777216 % 256 < 128 then 128 else 0)),
           byte (resp.length / 65536), byte (resp.length / 256), byte resp.length] ++ resp := by
  unfold rpcReplTcp at h
  split at h
  · cases h
  split at h
  · split at h
    · cases h
    · rename_i resp hb
      simp only [Except.ok.injEq, Prod.mk.injEq, Option.some.injEq] at h
      obtain ⟨_, h2⟩ := h
      exact ⟨_, resp, hb, h2.symm⟩
  · cases h

theorem classify_rpcTcp (ovf : Bool) (s s' : RpcSt) (ci : ClientInfo) (d r : Bytes)
    (hlen : r.length ≤ 1204) (h : rpcReplTcp ovf s ci d = .ok (s', some r)) : classify r = .rpcTcp := by
  obtain ⟨s1, resp, hb, hr⟩ := rpcReplTcp_shape ovf s s' ci d r h
  obtain ⟨body, hbody, hbl⟩ := rpcBuild_shape s1 ci resp hb
  have hrl : resp.length < 2147483648 := by
    have : r.length = 4 + resp.length := by rw [hr]; simp only [List.length_append, List.length_cons, List.length_nil] <;> omega
    omega
  have hmark := C16.record_mark resp hrl
  rw [← hr] at hmark
  unfold recordMarkOk at hmark
  split at hmark
  · cases hmark
  split at hmark
  · rename_i h4 hm
    have hresp : resp.length = 20 + body.length := by
      rw [hbody]; simp only [u32be, rpcHdr16, List.length_append, List.length_cons, List.length_nil] <;> omega
    have hrlen : r.length = 4 + resp.length := by
      rw [hr]; simp only [List.length_append, List.length_cons, List.length_nil] <;> omega
    have e8 : be32 r 8 = 1 ∧ be32 r 12 = 0 := by
      rw [hr, hbody]; simp [be32, be16, u8, u32be, rpcHdr16]
    have hT : r.length ≥ 28 ∧ u8 r 0 ≥ 128 ∧ be32 r 8 = 1 ∧ be32 r 12 = 0 ∧
        be32 r 0 - 2147483648 = r.length - 4 := ⟨by omega, hm.1, e8.1, e8.2, hm.2⟩
    have h0 := hm.1
    unfold classify
    rw [if_neg, if_neg, if_neg, if_neg, if_neg, if_neg, if_pos hT]
    · rintro ⟨_, h64, _⟩; omega
    · rintro ⟨_, h0', _⟩; omega
    · rintro ⟨_, h0', _⟩; omega
    · rw [Bool.not_eq_true]; apply not_prefix _ _ 0 (by rw [lit_ghost]; decide)
      rw [lit_ghost]; simp only [List.getD_cons_zero]; intro h; rw [h] at h0; simp at h0
    · rw [Bool.not_eq_true]; apply not_prefix _ _ 0 (by rw [lit_ssh]; decide)
      rw [lit_ssh]; simp only [List.getD_cons_zero]; intro h; rw [h] at h0; simp at h0
    · rw [Bool.not_eq_true]; apply not_prefix _ _ 0 (by rw [lit_http]; decide)
      rw [lit_http]; simp only [List.getD_cons_zero]; intro h; rw [h] at h0; simp at h0
  · cases hmark

/-! ### short payloads are not answered by the ONC-RPC responders -/

/-- bytes still needed before the procedure number is complete (a lower bound of what `done` needs) -/
def rpcNeed (s : RpcSt) : Nat :=
  match s.state with
  | .frag => (4 - s.curLen) + 24
  | .xid => (4 - s.curLen) + 20
  | .messageType => (4 - s.curLen) + 16
  | .rpcVersion => (4 - s.curLen) + 12
  | .program => (4 - s.curLen) + 8
  | .programVersion => (4 - s.curLen) + 4
  | .procedure => 4 - s.curLen
  | _ => 0

theorem rpcByte_need (ovf : Bool) (s s' : RpcSt) (b : UInt8) (h : rpcByte ovf s b = .ok s') :
    rpcNeed s ≤ rpcNeed s' + 1 := by
  obtain ⟨st, lf, fl, xid, mt, rv, prog, pv, proc, cf, vf, cur, dl⟩ := s
  cases st <;> simp only [rpcByte] at h <;> (try split at h) <;> cases h <;>
    first
    | (simp only [rpcNeed]; exact Nat.zero_le _)
    | (simp only [rpcAdvance]; by_cases hc : cur + 1 = 4 <;> simp [hc, rpcNeed] <;> omega)
    | (by_cases h0 : cur = 0 <;> by_cases hc : cur + 1 = 4 <;> simp [h0, hc, rpcNeed, rpcAdvance] <;> omega)

theorem rpcParse_need (ovf : Bool) (s s' : RpcSt) (d : Bytes) (h : rpcParse ovf s d = .ok s') :
    rpcNeed s ≤ rpcNeed s' + d.length := by
  induction d generalizing s with
  | nil => cases h; simp
  | cons b t ih =>
    rw [rpcParse] at h
    cases hb : rpcByte ovf s b with
    | error e => rw [hb] at h; cases h
    | ok s1 =>
      rw [hb] at h
      have h1 := rpcByte_need ovf s s1 b hb
      have h2 := ih s1 h
      simp only [List.length_cons]; omega

theorem rpcReplUdp_min (ovf : Bool) (ci : ClientInfo) (d r : Bytes) (h : rpcReplUdp ovf ci d = .ok (some r)) :
    24 ≤ d.length := by
  unfold rpcReplUdp at h
  split at h
  · cases h
  rename_i s' hp
  split at h
  · rename_i hd
    have := rpcParse_need ovf _ s' d hp
    simp only [rpcNeed, hd] at this
    omega
  · cases h

theorem rpcReplTcp_min (ovf : Bool) (ci : ClientInfo) (d r : Bytes) (s' : RpcSt)
    (h : rpcReplTcp ovf {} ci d = .ok (s', some r)) : 28 ≤ d.length := by
  unfold rpcReplTcp at h
  split at h
  · cases h
  rename_i s'' hp
  split at h
  · rename_i hd
    have := rpcParse_need ovf _ s'' d hp
    simp only [rpcNeed, hd] at this
    omega
  · cases h

/-! ### classification with the transaction-id test (`classifyFor`) -/

theorem classifyNoStun_dns (ci : ClientInfo) (p r : Bytes) (m : DnsMsg) (hp : dnsParse p = some m)
    (h : dnsRepl ci m = some r) : classifyNoStun r = .dns := by
  obtain ⟨f, q1, q2, t, rfl, hf⟩ := dnsRepl_head ci p r m hp h
  have hq1 := q1.toNat_lt; have hq2 := q2.toNat_lt
  unfold classifyNoStun
  rw [if_neg, if_neg, if_neg, if_neg, if_neg, if_neg, if_neg, if_pos]
  · simp [u8]; omega
  · simp [be32, be16, u8]; omega
  · simp [be32, be16, u8]
  · simp [u8, sub]
    intro _ h2 _ h4; exact absurd (h2.symm.trans h4) (by decide)
  · simp [u8, sub]
    intro _ h2 _ h4; exact absurd (h2.symm.trans h4) (by decide)
  · rw [Bool.not_eq_true]; apply not_prefix _ _ 2 (by rw [lit_ghost]; decide)
    rw [lit_ghost]; simp [u8]; omega
  · rw [Bool.not_eq_true]; apply not_prefix _ _ 2 (by rw [lit_ssh]; decide)
    rw [lit_ssh]; simp [u8]; omega
  · rw [Bool.not_eq_true]; apply not_prefix _ _ 2 (by rw [lit_http]; decide)
    rw [lit_http]; simp [u8]; omega

theorem classifyNoStun_rpcUdp_shape (a b c e : UInt8) (body : Bytes) (hb : 4 ≤ body.length) (ha : a ≠ 83) :
    classifyNoStun (a :: b :: c :: e :: 0 :: 0 :: 0 :: 1 :: 0 :: 0 :: 0 :: 0 :: 0 :: 0 :: 0 :: 0 :: 0 :: 0 :: 0 :: 0 :: body) = .rpcUdp := by
  generalize hr : (a :: b :: c :: e :: 0 :: 0 :: 0 :: 1 :: 0 :: 0 :: 0 :: 0 :: 0 :: 0 :: 0 :: 0 :: 0 :: 0 :: 0 :: 0 :: body) = r
  have hlen : r.length = 20 + body.length := by rw [← hr]; simp only [List.length_cons]; omega
  have u0 : u8 r 0 = a.toNat := by rw [← hr]; rfl
  have u4 : u8 r 4 = 0 := by rw [← hr]; rfl
  have u5 : u8 r 5 = 0 := by rw [← hr]; rfl
  have u6 : u8 r 6 = 0 := by rw [← hr]; rfl
  have u7 : u8 r 7 = 1 := by rw [← hr]; rfl
  have u8' : u8 r 8 = 0 := by rw [← hr]; rfl
  have u9 : u8 r 9 = 0 := by rw [← hr]; rfl
  have u10 : u8 r 10 = 0 := by rw [← hr]; rfl
  have u11 : u8 r 11 = 0 := by rw [← hr]; rfl
  have u12 : u8 r 12 = 0 := by rw [← hr]; rfl
  have u13 : u8 r 13 = 0 := by rw [← hr]; rfl
  have u14 : u8 r 14 = 0 := by rw [← hr]; rfl
  have u15 : u8 r 15 = 0 := by rw [← hr]; rfl
  have u16 : u8 r 16 = 0 := by rw [← hr]; rfl
  have u17 : u8 r 17 = 0 := by rw [← hr]; rfl
  have u18 : u8 r 18 = 0 := by rw [← hr]; rfl
  have u19 : u8 r 19 = 0 := by rw [← hr]; rfl
  have hT : ¬(r.length ≥ 28 ∧ u8 r 0 ≥ 128 ∧ be32 r 8 = 1 ∧ be32 r 12 = 0 ∧
      be32 r 0 - 2147483648 = r.length - 4) := by
    simp only [be32, be16, Nat.reduceAdd, u8', u9, u10, u11]
    omega
  have hU : r.length ≥ 24 ∧ be32 r 4 = 1 ∧ be32 r 8 = 0 ∧ be32 r 12 = 0 ∧ be32 r 16 = 0 := by
    simp only [be32, be16, Nat.reduceAdd, u4, u5, u6, u7, u8', u9, u10, u11, u12, u13, u14, u15, u16, u17,
      u18, u19, and_true]
    omega
  unfold classifyNoStun
  rw [if_neg, if_neg, if_neg, if_neg, if_neg, if_neg hT, if_pos hU]
  · rintro ⟨_, _, h⟩
    have := sub_u8 r 4 4 _ h 0 (by decide)
    simp [u4] at this
  · rintro ⟨_, _, h⟩
    have := sub_u8 r 4 4 _ h 0 (by decide)
    simp [u4] at this
  · rw [Bool.not_eq_true]; apply not_prefix _ _ 4 (by rw [lit_ghost]; decide)
    rw [lit_ghost, u4]; decide
  · rw [Bool.not_eq_true]; apply not_prefix _ _ 0 (by rw [lit_ssh]; decide)
    rw [lit_ssh, u0]
    intro h
    exact ha (UInt8.toNat_inj.mp h)
  · rw [Bool.not_eq_true]; apply not_prefix _ _ 4 (by rw [lit_http]; decide)
    rw [lit_http, u4]; decide

/-- the STUN responder's reply carries the transaction id of the request -/
theorem stunRepl_tid (ci ci' : ClientInfo) (d r : Bytes) (h : stunRepl ci d = .ok (ci', some r)) :
    sub r 4 16 = sub d 4 16 := by
  unfold stunRepl at h
  split at h
  · cases h
  · cases h
  · rename_i req hp
    obtain ⟨_, _, hid⟩ := C15.stun_parse_class_method d req hp
    have h20 : 20 ≤ d.length := by
      unfold stunParse at hp
      split at hp
      · cases hp
      · omega
    split at h
    · cases h
    · split at h
      · cases h
      · split at h
        · simp only [Except.ok.injEq, Prod.mk.injEq, Option.some.injEq] at h
          rw [← h.2, hid]
          have hl : (slice d 4 16).length = 16 := by simp [slice]; omega
          simp only [u16be, List.cons_append, List.nil_append, sub, List.drop_succ_cons,
            List.drop_zero]
          rw [List.take_append_of_le_length (by omega), List.take_of_length_le (by omega)]
          rfl
        · cases h

end Masscanned.J4
