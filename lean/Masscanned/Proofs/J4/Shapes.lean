/-
  Proofs/J4/Shapes — the leading bytes of the replies of the ONC-RPC, SMB and DNS responders
  (whatever the request): what the reply-shape heuristic `Spec.classify` sees of them.
-/
import Masscanned.Proofs.J4.Classify
namespace Masscanned.J4
open Masscanned Masscanned.Spec Masscanned.C10 Masscanned.E2E Masscanned.C16

/-! ### ONC-RPC -/

def rpcHdr16 : Bytes := [0, 0, 0, 1, 0, 0, 0, 0, 0, 0, 0, 0, 0, 0, 0, 0]

/-- every reply of the builder: xid, `REPLY`, `MSG_ACCEPTED`, null verifier, then at least the accept status -/
theorem rpcBuild_shape (s : RpcSt) (ci : ClientInfo) (resp : Bytes) (h : rpcBuild s ci = .ok resp) :
    ∃ body, resp = u32be s.xid ++ rpcHdr16 ++ body ∧ 4 ≤ body.length := by
  unfold rpcBuild at h
  simp only at h
  split at h
  · cases h; exact ⟨_, rfl, by simp⟩
  split at h
  · cases h; exact ⟨_, rfl, by simp⟩
  split at h
  · split at h
    · split at h
      · cases h
      · rename_i ip port _ _ body hb
        cases h
        refine ⟨body, rfl, ?_⟩
        unfold rpcPortmap at hb
        split at hb
        · split at hb
          · cases hb; simp [u32be]
          split at hb
          · cases hb; simp
          · cases hb
        split at hb
        · simp only at hb
          split at hb
          · rename_i a b c _ _ _
            cases hb; simp
          all_goals cases hb
        · cases hb; simp
    · cases h
  · cases h; exact ⟨_, rfl, by simp⟩

theorem rpcReplTcp_head (ovf : Bool) (s s' : RpcSt) (ci : ClientInfo) (d r : Bytes)
    (h : rpcReplTcp ovf s ci d = .ok (s', some r)) : 128 ≤ u8 r 0 := by
  unfold rpcReplTcp at h
  split at h
  · cases h
  split at h
  · split at h
    · cases h
    · simp only [Except.ok.injEq, Prod.mk.injEq, Option.some.injEq] at h
      rw [← h.2]
      simp only [u8, List.cons_append, List.getD_cons_zero, byte, UInt8.toNat_ofNat']
      split <;> omega
  · cases h

theorem rpcByte_xid (ovf : Bool) (s s' : RpcSt) (b : UInt8) (h : rpcByte ovf s b = .ok s')
    (hr : 2 ≤ rank s.state) : s'.xid = s.xid ∧ 2 ≤ rank s'.state := by
  obtain ⟨st, lf, fl, xid, mt, rv, prog, pv, proc, cf, vf, cur, dl⟩ := s
  cases st <;> simp only [rank] at hr <;> (try omega) <;> simp only [rpcByte] at h <;>
    (try split at h) <;> cases h <;> simp only [rpcAdvance] <;> (repeat' split) <;> simp_all [rank]

theorem rpcParse_xid (ovf : Bool) (s s' : RpcSt) (d : Bytes) (h : rpcParse ovf s d = .ok s')
    (hr : 2 ≤ rank s.state) : s'.xid = s.xid := by
  induction d generalizing s with
  | nil => cases h; rfl
  | cons b t ih =>
    rw [rpcParse] at h
    cases hb : rpcByte ovf s b with
    | error e => rw [hb] at h; cases h
    | ok s1 =>
      rw [hb] at h
      obtain ⟨h1, h2⟩ := rpcByte_xid ovf s s1 b hb hr
      rw [ih s1 h h2, h1]

/-- fewer than four bytes do not complete the xid -/
theorem rpcParse_short (ovf : Bool) (n : Nat) (d : Bytes) (s' : RpcSt) (hl : d.length < 4)
    (h : rpcParse ovf { state := .xid, lastFrag := true, fragLen := n } d = .ok s') : s'.state = .xid := by
  match d, hl with
  | [], _ => cases h; rfl
  | [a], _ =>
    have := a.toNat_lt
    simp (disch := omega) [rpcParse, rpcByte, rpcAdvance, rpcAcc_lt] at h
    rw [← h]
  | [a, b], _ =>
    have := a.toNat_lt; have := b.toNat_lt
    simp (disch := omega) [rpcParse, rpcByte, rpcAdvance, rpcAcc_lt] at h
    rw [← h]
  | [a, b, c], _ =>
    have := a.toNat_lt; have := b.toNat_lt; have := c.toNat_lt
    simp (disch := omega) [rpcParse, rpcByte, rpcAdvance, rpcAcc_lt] at h
    rw [← h]

/-- the reply of the UDP responder starts with the first four bytes of the datagram (the xid) -/
theorem rpcReplUdp_shape (ovf : Bool) (ci : ClientInfo) (d r : Bytes) (h : rpcReplUdp ovf ci d = .ok (some r)) :
    4 ≤ d.length ∧ ∃ body, r = u32be (be32 d 0) ++ rpcHdr16 ++ body ∧ 4 ≤ body.length := by
  unfold rpcReplUdp at h
  split at h
  · cases h
  rename_i s' hp
  split at h
  · rename_i hd
    split at h
    · cases h
    · rename_i resp hb
      simp only [Except.ok.injEq, Option.some.injEq] at h
      subst h
      have hl : 4 ≤ d.length := by
        rcases Nat.lt_or_ge d.length 4 with hlt | hge
        · have := rpcParse_short ovf _ d s' hlt hp
          rw [this] at hd; cases hd
        · exact hge
      obtain ⟨a, b, c, e, t, rfl⟩ := list_len4 d hl
      rw [read4_xid ovf _ a b c e t rfl rfl rfl] at hp
      have hx := rpcParse_xid ovf _ s' t hp (by simp [rank])
      simp only at hx
      obtain ⟨body, hbody, hbl⟩ := rpcBuild_shape s' ci resp hb
      refine ⟨hl, body, ?_, hbl⟩
      rw [hbody, hx, be32_cons4]
  · cases h

/-! ### SMB -/

theorem nbtWrap_head (m : Bytes) : ∃ x a b, nbtWrap m = 0 :: x :: a :: b :: m ∧ x.toNat ≤ 1 := by
  refine ⟨_, _, _, rfl, ?_⟩
  simp only [byte, UInt8.toNat_ofNat']
  omega

theorem smb1Repl_head (env : Env) (d r : Bytes) (h : smb1Repl env d = some r) :
    ∃ x a b t, r = 0 :: x :: a :: b :: 255 :: 83 :: 77 :: 66 :: t ∧ x.toNat ≤ 1 := by
  unfold smb1Repl at h
  split at h
  · rename_i m hm
    cases h
    obtain ⟨x, a, b, hw, hx⟩ := nbtWrap_head m
    unfold smb1Message at hm
    split at hm
    · cases hm
    simp only at hm
    split at hm
    · cases hm
    split at hm
    · cases hm
    · cases hm
      exact ⟨x, a, b, _, by rw [hw]; rfl, hx⟩
  · cases h

theorem smb2Repl_head (env : Env) (d r : Bytes) (h : smb2Repl env d = some r) :
    ∃ x a b t, r = 0 :: x :: a :: b :: 254 :: 83 :: 77 :: 66 :: t ∧ x.toNat ≤ 1 := by
  unfold smb2Repl at h
  split at h
  · rename_i m hm
    cases h
    obtain ⟨x, a, b, hw, hx⟩ := nbtWrap_head m
    unfold smb2Message at hm
    split at hm
    · cases hm
    simp only at hm
    split at hm
    · cases hm
    split at hm
    · cases hm
    · cases hm
      exact ⟨x, a, b, _, by rw [hw]; rfl, hx⟩
  · cases h

/-! ### DNS -/

theorem byte_toNat' (n : Nat) : (byte n).toNat = n % 256 := by simp [byte]
theorem byte_val (x : UInt8) : byte x.toNat = x := by
  apply UInt8.toNat_inj.mp; rw [byte_toNat']; have := x.toNat_lt; omega

theorem dnsRepl_head (ci : ClientInfo) (p r : Bytes) (m : DnsMsg) (hp : dnsParse p = some m)
    (h : dnsRepl ci m = some r) :
    ∃ f q1 q2 t, r = p.getD 0 0 :: p.getD 1 0 :: f :: 0 :: q1 :: q2 :: q1 :: q2 :: 0 :: 0 :: 0 :: 0 :: t ∧
      128 ≤ f.toNat := by
  have hid : m.id = be16 p 0 ∧ 12 ≤ p.length := by
    unfold dnsParse at hp
    split at hp
    · cases hp
    simp only at hp
    split at hp
    · cases hp
    split at hp
    · cases hp
    split at hp
    · cases hp
    · cases hp
      exact ⟨Masscanned.rdBE_slice2 p 0 (by omega), by omega⟩
  unfold dnsRepl at h
  split at h
  · cases h
  split at h
  · cases h
    refine ⟨byte (128 + m.flags / 2048 % 16 * 8 + 4 + m.flags / 256 % 2), byte (m.qdcount / 256), byte m.qdcount,
      (m.qd.map (fun q => q.name ++ [0, 1, 0, 1])).flatten ++ (m.qd.map (dnsAnswer ci.ipDst)).flatten, ?_, ?_⟩
    · have e0 : byte (m.id / 256) = p.getD 0 0 := by
        rw [hid.1]; unfold be16 u8
        have := (p.getD 1 0).toNat_lt
        rw [show ((p.getD 0 0).toNat * 256 + (p.getD (0 + 1) 0).toNat) / 256 = (p.getD 0 0).toNat from by
          simp only [Nat.zero_add]; omega]
        exact byte_val _
      have e1 : byte m.id = p.getD 1 0 := by
        rw [hid.1]; unfold be16 u8
        apply UInt8.toNat_inj.mp
        rw [byte_toNat']
        have := (p.getD 1 0).toNat_lt
        show ((p.getD 0 0).toNat * 256 + (p.getD 1 0).toNat) % 256 = _
        omega
      simp only [u16be, List.cons_append, List.nil_append, e0, e1]
    · rw [byte_toNat']
      omega
  · cases h

/-! ### the handler call -/

/-- which responder produced a reply, for a datagram (`tcb = none`) or a control block without parser state -/
theorem handle_reply_cases (cfg : Cfg) (env : Env) (i : Nat) (ci ci' : ClientInfo) (tcb tcb' : Option Tcb)
    (p r : Bytes) (ht : ∀ t, tcb = some t → t.protoState = none)
    (h : protoHandle cfg env i ci tcb p = .ok (ci', tcb', some r)) :
    (i = ID_HTTP ∧ r = httpReplyBytes env ∧ ci' = ci) ∨ (i = ID_STUN ∧ stunRepl ci p = .ok (ci', some r)) ∨
    (i = ID_SSH ∧ r = sshBanner ∧ ci' = ci) ∨ (i = ID_GHOST ∧ r = Gen.ghostReply ∧ ci' = ci) ∨
    (i = ID_RPC_TCP ∧ (∃ s', rpcReplTcp cfg.ovf {} ci p = .ok (s', some r)) ∧ ci' = ci) ∨
    (i = ID_RPC_UDP ∧ rpcReplUdp cfg.ovf ci p = .ok (some r) ∧ ci' = ci) ∨
    (i = ID_SMB1 ∧ smb1Repl env p = some r ∧ ci' = ci) ∨ (i = ID_SMB2 ∧ smb2Repl env p = some r ∧ ci' = ci) := by
  unfold protoHandle at h
  split at h
  · rename_i hi
    left
    refine ⟨hi, ?_⟩
    cases tcb with
    | none =>
      simp only at h
      split at h
      · cases h
      · rename_i s' r' hr
        simp only [Except.ok.injEq, Prod.mk.injEq] at h
        obtain ⟨h1, _, h3⟩ := h
        subst h3
        exact ⟨httpRepl_reply env _ _ p r hr, h1.symm⟩
    | some t =>
      have hps := ht t rfl
      simp only [hps] at h
      split at h
      · cases h
      · rename_i s' r' hr
        simp only [Except.ok.injEq, Prod.mk.injEq] at h
        obtain ⟨h1, _, h3⟩ := h
        subst h3
        exact ⟨httpRepl_reply env _ _ p r hr, h1.symm⟩
  split at h
  · rename_i hi
    right; left
    refine ⟨hi, ?_⟩
    split at h
    · cases h
    · rename_i ci'' r' hr
      simp only [Except.ok.injEq, Prod.mk.injEq] at h
      obtain ⟨h1, _, h3⟩ := h
      subst h1 h3
      exact hr
  split at h
  · rename_i hi
    right; right; left
    refine ⟨hi, ?_⟩
    split at h
    · cases h
    · rename_i r' hr
      simp only [Except.ok.injEq, Prod.mk.injEq] at h
      obtain ⟨h1, _, h3⟩ := h
      subst h3
      exact ⟨sshRepl_reply p r hr, h1.symm⟩
  split at h
  · rename_i hi
    right; right; right; left
    simp only [Except.ok.injEq, Prod.mk.injEq, Option.some.injEq] at h
    exact ⟨hi, h.2.2.symm, h.1.symm⟩
  split at h
  · rename_i hi
    right; right; right; right; left
    refine ⟨hi, ?_⟩
    cases tcb with
    | none =>
      simp only at h
      split at h
      · cases h
      · rename_i s' r' hr
        simp only [Except.ok.injEq, Prod.mk.injEq] at h
        obtain ⟨h1, _, h3⟩ := h
        subst h3
        exact ⟨⟨s', hr⟩, h1.symm⟩
    | some t =>
      have hps := ht t rfl
      simp only [hps] at h
      split at h
      · cases h
      · rename_i s' r' hr
        simp only [Except.ok.injEq, Prod.mk.injEq] at h
        obtain ⟨h1, _, h3⟩ := h
        subst h3
        exact ⟨⟨s', hr⟩, h1.symm⟩
  split at h
  · rename_i hi
    right; right; right; right; right; left
    refine ⟨hi, ?_⟩
    split at h
    · cases h
    · rename_i r' hr
      simp only [Except.ok.injEq, Prod.mk.injEq] at h
      obtain ⟨h1, _, h3⟩ := h
      subst h3
      exact ⟨hr, h1.symm⟩
  split at h
  · rename_i hi
    simp only [Except.ok.injEq, Prod.mk.injEq] at h
    right; right; right; right; right; right; left
    exact ⟨hi, h.2.2, h.1.symm⟩
  split at h
  · rename_i hi
    simp only [Except.ok.injEq, Prod.mk.injEq] at h
    right; right; right; right; right; right; right
    exact ⟨hi, h.2.2, h.1.symm⟩
  · simp only [Except.ok.injEq, Prod.mk.injEq, reduceCtorEq, and_false] at h

/-! ### where a STUN-shaped reply can come from -/

theorem u8_cons0 (a : UInt8) (t : Bytes) : u8 (a :: t) 0 = a.toNat := rfl
theorem u8_cons1 (a b : UInt8) (t : Bytes) : u8 (a :: b :: t) 1 = b.toNat := rfl

theorem u32be_be32_head (d t : Bytes) :
    u8 (u32be (be32 d 0) ++ t) 0 = u8 d 0 ∧ u8 (u32be (be32 d 0) ++ t) 1 = u8 d 1 := by
  have h0 := (d.getD 0 0).toNat_lt; have h1 := (d.getD 1 0).toNat_lt
  have h2 := (d.getD 2 0).toNat_lt; have h3 := (d.getD 3 0).toNat_lt
  simp only [u32be, List.cons_append, u8_cons0, u8_cons1, byte_toNat']
  simp only [be32, be16, u8, Nat.zero_add, Nat.reduceAdd]
  constructor <;> omega

/-- replies of the responders other than STUN, ONC-RPC/UDP and DNS are never STUN-shaped; those of
    ONC-RPC/UDP and DNS copy the first two bytes of the request -/
theorem handle_stunShape (cfg : Cfg) (env : Env) (i : Nat) (ci ci' : ClientInfo) (tcb tcb' : Option Tcb)
    (p r : Bytes) (ht : ∀ t, tcb = some t → t.protoState = none)
    (h : protoHandle cfg env i ci tcb p = .ok (ci', tcb', some r)) (hs : stunShape r) :
    (i = ID_STUN ∧ stunRepl ci p = .ok (ci', some r)) ∨
    (i = ID_RPC_UDP ∧ u8 r 0 = u8 p 0 ∧ u8 r 1 = u8 p 1 ∧ ci' = ci) := by
  obtain ⟨_, h64, _, hodd, _⟩ := hs
  rcases handle_reply_cases cfg env i ci ci' tcb tcb' p r ht h with
    ⟨_, hr, _⟩ | hstun | ⟨_, hr, _⟩ | ⟨_, hr, _⟩ | ⟨_, ⟨s', hr⟩, _⟩ | ⟨hi, hr, hc⟩ | ⟨_, hr, _⟩ | ⟨_, hr, _⟩
  · obtain ⟨t, ht⟩ := httpReply_head env
    rw [hr, ht, u8_cons0] at h64; simp at h64
  · exact .inl hstun
  · rw [hr, sshBanner_eq, u8_cons0] at h64; simp at h64
  · obtain ⟨t, ht⟩ := ghost_head
    rw [hr, ht, u8_cons0] at h64; simp at h64
  · have := rpcReplTcp_head _ _ _ _ _ _ hr
    omega
  · obtain ⟨_, body, hb, _⟩ := rpcReplUdp_shape _ _ _ _ hr
    rw [hb, List.append_assoc]
    exact .inr ⟨hi, (u32be_be32_head p _).1, (u32be_be32_head p _).2, hc⟩
  · obtain ⟨x, a, b, t, hb, hx⟩ := smb1Repl_head env p r hr
    rw [hb, u8_cons0, u8_cons1] at hodd
    exfalso
    have e0 : (0 : UInt8).toNat = 0 := rfl
    rw [e0] at hodd
    omega
  · obtain ⟨x, a, b, t, hb, hx⟩ := smb2Repl_head env p r hr
    rw [hb, u8_cons0, u8_cons1] at hodd
    exfalso
    have e0 : (0 : UInt8).toNat = 0 := rfl
    rw [e0] at hodd
    omega

/-- a STUN-shaped reply to a datagram: from the STUN responder, or from the ONC-RPC/UDP responder or
    the DNS fallback, which copy the first two bytes of the request -/
theorem stun_class_source_datagram (cfg : Cfg) (env : Env) (ci ci' : ClientInfo) (tcb' : Option Tcb) (p r : Bytes)
    (hg : Gate ci) (hrun : protoRepl cfg env ci none p = .ok (ci', tcb', some r)) (hs : stunShape r) :
    (refDatagramK2 p = some ID_STUN ∧ stunRepl ci p = .ok (ci', some r)) ∨
    ((refDatagramK2 p = some ID_RPC_UDP ∨ refDatagramK2 p = none) ∧ u8 r 0 = u8 p 0 ∧ u8 r 1 = u8 p 1 ∧
      ci' = ci) := by
  cases hk : refDatagramK2 p with
  | none =>
    rw [repl_datagram_none cfg env ci p hg hk] at hrun
    cases hb : (dnsParse p).bind (dnsRepl ci) with
    | none => rw [hb] at hrun; simp only [Except.ok.injEq, Prod.mk.injEq, reduceCtorEq, and_false] at hrun
    | some r' =>
      rw [hb] at hrun
      simp only [Except.ok.injEq, Prod.mk.injEq, Option.some.injEq] at hrun
      obtain ⟨hc, _, rfl⟩ := hrun
      obtain ⟨m, hm, hr⟩ := Option.bind_eq_some_iff.mp hb
      obtain ⟨f, q1, q2, t, hh, _⟩ := dnsRepl_head ci p r' m hm hr
      right
      refine ⟨.inr rfl, ?_, ?_, hc.symm⟩ <;> rw [hh] <;> rfl
  | some i =>
    rw [repl_datagram_some cfg env ci p i hg hk] at hrun
    rcases handle_stunShape cfg env i ci ci' none tcb' p r (by intro t h; cases h) hrun hs with ⟨hi, h⟩ | ⟨hi, h⟩
    · exact .inl ⟨by rw [hi], h⟩
    · exact .inr ⟨.inl (by rw [hi]), h⟩

/-- the same for the first segment of a fresh TCP flow (no DNS fallback there) -/
theorem stun_class_source_stream (cfg : Cfg) (env : Env) (ci ci' : ClientInfo) (tcb' : Option Tcb) (p r : Bytes)
    (hg : Gate ci) (hrun : protoRepl cfg env ci (some {}) p = .ok (ci', tcb', some r)) (hs : stunShape r) :
    (refStreamK2 p = some ID_STUN ∧ stunRepl ci p = .ok (ci', some r)) ∨
    (refStreamK2 p = some ID_RPC_UDP ∧ u8 r 0 = u8 p 0 ∧ u8 r 1 = u8 p 1 ∧ ci' = ci) := by
  cases hk : refStreamK2 p with
  | none =>
    obtain ⟨t, ht⟩ := repl_stream_none cfg env ci p hg hk
    rw [ht] at hrun
    simp only [Except.ok.injEq, Prod.mk.injEq, reduceCtorEq, and_false] at hrun
  | some i =>
    obtain ⟨st, hst⟩ := repl_stream_some cfg env ci p i hg hk
    rw [hst] at hrun
    rcases handle_stunShape cfg env i ci ci' _ tcb' p r (by intro t h; cases h; rfl) hrun hs with ⟨hi, h⟩ | ⟨hi, h⟩
    · exact .inl ⟨by rw [hi], h⟩
    · exact .inr ⟨by rw [hi], h⟩

end Masscanned.J4
