/-
  Proofs/J4/Classify — what `Spec.classify` (the reply-shape heuristic of the judges) says about the
  replies of the model's responders.  First part: which replies can be classified as STUN.
-/
import Masscanned.Proofs.J4.Dispatch
import Masscanned.Proofs.Texts.Reply
import Masscanned.Thm.C16
import Masscanned.Proofs.C01.App
namespace Masscanned.J4
open Masscanned Masscanned.Spec Masscanned.C10 Masscanned.E2E

theorem lit_http : "HTTP/1.".toUTF8.toList = [72, 84, 84, 80, 47, 49, 46] := by decide +kernel
theorem lit_ssh : "SSH-".toUTF8.toList = [83, 83, 72, 45] := by decide +kernel
theorem lit_ghost : "Gh0st".toUTF8.toList = [71, 104, 48, 115, 116] := by decide +kernel

/-- the STUN clause of `classify` -/
def stunShape (r : Bytes) : Prop :=
  r.length ≥ 20 ∧ u8 r 0 / 64 = 0 ∧ be16 r 2 = r.length - 20 ∧ (u8 r 0 % 2 = 1 ∨ u8 r 1 / 16 % 2 = 1) ∧
    u8 r 1 % 16 = 1

theorem classify_stun_imp (r : Bytes) (h : classify r = .stun) : stunShape r := by
  unfold classify at h
  split at h
  · cases h
  split at h
  · cases h
  split at h
  · cases h
  split at h
  · cases h
  split at h
  · cases h
  split at h
  · rename_i hc; exact hc
  split at h
  · cases h
  split at h
  · cases h
  split at h
  · cases h
  cases h

/-- a reply whose first two bytes are those of a payload starting `00 01` is not STUN-shaped -/
theorem not_stunShape_of_0001 (r : Bytes) (h0 : u8 r 0 = 0) (h1 : u8 r 1 = 1) : ¬ stunShape r := by
  rintro ⟨_, _, _, h, _⟩
  rw [h0, h1] at h
  omega

/-! ### first bytes of the responders' replies -/

theorem httpRepl_reply (env : Env) (s s' : HttpSt) (d r : Bytes) (h : httpRepl env s d = .ok (s', some r)) :
    r = httpReplyBytes env := by
  unfold httpRepl at h
  split at h
  · cases h
  · split at h
    · simp only [Except.ok.injEq, Prod.mk.injEq, Option.some.injEq] at h
      exact h.2.symm
    · simp only [Except.ok.injEq, Prod.mk.injEq] at h
      exact absurd h.2 (by simp)

theorem httpReply_head (env : Env) : ∃ t, httpReplyBytes env = 72 :: 84 :: 84 :: 80 :: 47 :: 49 :: 46 :: t := by
  obtain ⟨rest, h⟩ := Texts.httpReply_status env
  have e : Texts.status12 = 72 :: 84 :: 84 :: 80 :: 47 :: 49 :: 46 :: (Texts.status12.drop 7) := by decide +kernel
  rw [h, e]
  exact ⟨List.drop 7 Texts.status12 ++ rest, rfl⟩

theorem sshRepl_reply (d r : Bytes) (h : sshRepl d = .ok (some r)) : r = sshBanner := by
  unfold sshRepl at h
  split at h
  · cases h
  · simp only [Except.ok.injEq] at h
    split at h
    · exact (Option.some.inj h).symm
    · cases h

theorem sshBanner_eq : sshBanner = [83, 83, 72, 45, 50, 46, 48, 45, 49, 13, 10] := by decide +kernel

theorem ghost_head : ∃ t, Gen.ghostReply = 71 :: 104 :: 48 :: 115 :: 116 :: t :=
  ⟨Gen.ghostReply.drop 5, by decide +kernel⟩

/-! ### `classifyFor`: the STUN class needs the payload's transaction id -/

theorem classifyNoStun_ne_stun (r : Bytes) : classifyNoStun r ≠ .stun := by
  unfold classifyNoStun
  repeat' split
  all_goals (intro h; cases h)

theorem classifyFor_of_ne (p r : Bytes) (h : classify r ≠ .stun) : classifyFor p r = classify r := by
  unfold classifyFor
  split
  · rename_i hc; exact absurd hc h
  · rfl

theorem classifyFor_stun_iff (p r : Bytes) :
    classifyFor p r = .stun ↔ classify r = .stun ∧ u8 r 2 < 128 ∧ sub r 4 16 = sub p 4 16 := by
  unfold classifyFor
  split
  · rename_i hc
    by_cases ht : u8 r 2 < 128 ∧ sub r 4 16 = sub p 4 16
    · rw [if_pos ht]; exact ⟨fun _ => ⟨hc, ht⟩, fun _ => rfl⟩
    · rw [if_neg ht]
      exact ⟨fun h => absurd h (classifyNoStun_ne_stun r), fun h => absurd h.2 ht⟩
  · rename_i hc
    constructor
    · intro h; exact absurd h (by intro e; exact hc e)
    · intro h; exact absurd h.1 (by intro e; exact hc e)

/-- a reply of class `c` for `classify` — or of STUN shape, but then of class `c` without the STUN clause and
    either with the top bit of byte 2 set or with another transaction id than the payload — has class `c` for
    `classifyFor` -/
theorem classifyFor_eq (p r : Bytes) (c : RClass) (h1 : classify r = c ∨ classify r = .stun)
    (h2 : classifyNoStun r = c) (h3 : ¬(u8 r 2 < 128 ∧ sub r 4 16 = sub p 4 16)) : classifyFor p r = c := by
  unfold classifyFor
  split
  · rw [if_neg h3]; exact h2
  · rename_i hc
    rcases h1 with h | h
    · exact h
    · exact absurd h (by intro e; exact hc e)

/-- equal transaction ids: equal bytes at 4..19 -/
theorem sub_eq_u8 (r p : Bytes) (h : sub r 4 16 = sub p 4 16) (hl : 20 ≤ p.length) (j : Nat) (hj : j < 16) :
    u8 r (4 + j) = u8 p (4 + j) := by
  have hlen : (sub p 4 16).length = 16 := by simp [sub]; omega
  rw [sub_u8 r 4 16 _ h j (by omega), sub_u8 p 4 16 _ rfl j (by omega)]

end Masscanned.J4
