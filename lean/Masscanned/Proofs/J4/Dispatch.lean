/-
  Proofs/J4/Dispatch — `proto::repl` on a datagram / on the first segment of a fresh TCP flow, as a
  function of what the compiled matcher identifies (`Spec.refDatagramK2` / `Spec.refStreamK2`, which the
  matcher equals on ALL inputs): the handler of the identified protocol, or — nothing identified — the DNS
  fallback (datagram only) or silence.
-/
import Masscanned.Proofs.E2E.Handle
import Masscanned.Thm.C10
import Masscanned.Proofs.J4.Obs
namespace Masscanned.J4
open Masscanned Masscanned.Spec Masscanned.C10 Masscanned.E2E

theorem repl_datagram_some (cfg : Cfg) (env : Env) (ci : ClientInfo) (p : Bytes) (i : Nat) (hg : Gate ci)
    (h : refDatagramK2 p = some i) :
    protoRepl cfg env ci none p = protoHandle cfg env i ci none p :=
  dispatch_datagram_K2 cfg env ci p i hg h

theorem repl_datagram_none (cfg : Cfg) (env : Env) (ci : ClientInfo) (p : Bytes) (hg : Gate ci)
    (h : refDatagramK2 p = none) :
    protoRepl cfg env ci none p =
      match (dnsParse p).bind (dnsRepl ci) with
      | some r => .ok (ci, none, some r)
      | none => .ok (ci, none, none) := by
  have hid := proto_datagram p
  rw [h] at hid
  rw [protoRepl_factors, if_neg hg]
  simp only [identify, hid, idOf, true_and, if_true]
  cases (dnsParse p).bind (dnsRepl ci) with
  | none => simp only [protoHandle_noMatch, Option.map_none]
  | some r => rfl

theorem repl_stream_some (cfg : Cfg) (env : Env) (ci : ClientInfo) (p : Bytes) (i : Nat) (hg : Gate ci)
    (h : refStreamK2 p = some i) :
    ∃ st, protoRepl cfg env ci (some {}) p =
      protoHandle cfg env i ci (some { ({} : Tcb) with protoId := i, smackState := st }) p :=
  dispatch_stream_K2 cfg env ci {} p i hg rfl rfl h

theorem repl_stream_none (cfg : Cfg) (env : Env) (ci : ClientInfo) (p : Bytes) (hg : Gate ci)
    (h : refStreamK2 p = none) :
    ∃ t, protoRepl cfg env ci (some {}) p = .ok (ci, some t, none) := by
  obtain ⟨st, n, hsn, _, _⟩ := proto_stream p
  rw [h] at hsn
  rw [protoRepl_factors, if_neg hg]
  simp only [identify, if_true, hsn, idOf, reduceCtorEq, false_and, if_false, protoHandle_noMatch,
    Option.map_some]
  exact ⟨_, rfl⟩

/-- a later segment of a flow whose control block already carries a protocol id (sticky id): the handler
    of that protocol is called on this segment alone -/
theorem repl_sticky (cfg : Cfg) (env : Env) (ci : ClientInfo) (t : Tcb) (p : Bytes) (hg : Gate ci)
    (ht : t.protoId ≠ PROTO_NONE) :
    protoRepl cfg env ci (some t) p = protoHandle cfg env t.protoId ci (some t) p := by
  unfold protoRepl
  rw [if_neg hg]
  simp only [ht, if_false]

/-- the gate closed (TCP client info without cookie): never answered -/
theorem repl_gate_closed (cfg : Cfg) (env : Env) (ci : ClientInfo) (tcb : Option Tcb) (p : Bytes)
    (hg : ¬ Gate ci) : protoRepl cfg env ci tcb p = .ok (ci, tcb, none) := by
  unfold protoRepl
  rw [if_pos (by simpa [Gate] using hg)]

end Masscanned.J4
