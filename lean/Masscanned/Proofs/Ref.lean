/-
  Proofs/Ref — `tcpRepl` against the reference connection model `Spec.refTcp`, case by case.
-/
import Masscanned.Proofs.Tcp
namespace Masscanned
open Spec (meets refTcp segOf Expect)

theorem meets_fixed {fl sq ak : Nat} {t : Bytes} (hlen : t.length = 20) (hf : Spec.tcpFlagsOf t = fl)
    (h4 : Spec.be32 t 4 = sq) (h8 : Spec.be32 t 8 = ak) :
    meets (.reply fl false sq ak true) (some t) = true := by
  simp [meets, hlen, hf, h4, h8]

theorem meets_data {sq ak : Nat} {t : Bytes}
    (hf : (Spec.tcpFlagsOf t = 16 ∧ t.length = 20) ∨ (Spec.tcpFlagsOf t = 24 ∧ t.length > 20))
    (h4 : Spec.be32 t 4 = sq) (h8 : Spec.be32 t 8 = ak) :
    meets (.reply Spec.ACK true sq ak false) (some t) = true := by
  rcases hf with ⟨hf, hlen⟩ | ⟨hf, hlen⟩
  · simp [meets, hlen, hf, h4, h8, Spec.ACK, Spec.PSH]
  · simp [meets, hf, h4, h8, Spec.ACK, Spec.PSH]; omega

theorem refTcp_nodata {p : Bytes} (hd : ¬(tcpFlags p / 8 % 2 = 1 ∧ tcpFlags p / 16 % 2 = 1)) (v : Bool) (ck : Nat) :
    refTcp v ck (segOf p) =
      if tcpFlags p = 16 ∨ tcpFlags p = 4 then (.silent, v)
      else if tcpFlags p = 17 then (.reply 17 false (Spec.be32 p 8) ((Spec.be32 p 4 + 1) % 4294967296) true, v)
      else if Spec.linuxSynOk (tcpFlags p) = true then
        (.reply 18 false ck ((Spec.be32 p 4 + 1) % 4294967296) true, v)
      else (.silent, v) := by
  unfold refTcp
  split
  · rename_i hh
    exact absurd ((dataBits (tcpFlags_lt p)).mp hh) hd
  · rfl

/-- arms other than data -/
theorem ref_nodata (cfg : Cfg) (ci : ClientInfo) (p : Bytes) (hl : p.length ≥ 20)
    (hd : ¬(tcpFlags p / 8 % 2 = 1 ∧ tcpFlags p / 16 % 2 = 1)) (v : Bool) :
    meets (refTcp v (tcpCk cfg ci p) (segOf p)).1 (nodataRes cfg ci p).2 = true ∧
    (refTcp v (tcpCk cfg ci p) (segOf p)).2 = v := by
  rw [refTcp_nodata hd]
  unfold nodataRes
  by_cases h1 : tcpFlags p = 16
  · simp [h1, meets]
  · by_cases h2 : tcpFlags p = 4
    · simp [h2, meets]
    · rw [if_neg (by omega), if_neg h1, if_neg h2]
      by_cases h3 : tcpFlags p = 17
      · rw [if_pos h3, if_pos h3]
        refine ⟨meets_fixed ?_ ?_ ?_ ?_, rfl⟩
        · rw [tcpHdr_append_length]; rfl
        · exact tcpHdr_flags _ _ _ _ _ _ (by omega)
        · rw [tcpHdr_seq, rdBE_slice4 p 8 (by omega)]; exact Nat.mod_eq_of_lt (be32_lt p 8)
        · rw [tcpHdr_ack, rdBE_slice4 p 4 (by omega)]; omega
      · rw [if_neg h3, if_neg h3, synOk_eq_linux'']
        by_cases h4 : Spec.linuxSynOk (tcpFlags p) = true
        · rw [if_pos h4, if_pos h4]
          refine ⟨meets_fixed ?_ ?_ ?_ ?_, rfl⟩
          · rw [tcpHdr_append_length]; rfl
          · exact tcpHdr_flags _ _ _ _ _ _ (by omega)
          · rw [tcpHdr_seq]; exact Nat.mod_eq_of_lt (tcpCk_lt ..)
          · rw [tcpHdr_ack, rdBE_slice4 p 4 (by omega)]; omega
        · rw [if_neg h4, if_neg h4]; simp [meets]

/-- the data arm's answer meets the expectation of the reference model -/
theorem meets_dataOut {cfg : Cfg} {env : Env} {ci0 ci' : ClientInfo} {tcb tcb' : Option Tcb}
    {r : Option Bytes} {p : Bytes} (hl : p.length ≥ 20)
    (hp : protoRepl cfg env ci0 tcb (tcpPayload p) = .ok (ci', tcb', r)) :
    meets (.reply Spec.ACK true (segOf p).ack (((segOf p).seq + (segOf p).payloadLen) % 4294967296) false)
      (dataOut p ci' r) = true := by
  unfold dataOut
  cases r with
  | some r =>
    have hne := protoRepl_ne_nil hp
    have hpos : r.length > 0 := List.length_pos_iff.mpr hne
    refine meets_data (Or.inr ⟨tcpHdr_flags _ _ _ _ _ _ (by omega), ?_⟩) ?_ ?_
    · rw [tcpHdr_append_length]; omega
    · rw [tcpHdr_seq, rdBE_slice4 p 8 (by omega)]; exact Nat.mod_eq_of_lt (be32_lt p 8)
    · rw [tcpHdr_ack, rdBE_slice4 p 4 (by omega), tcpPayload_length]; simp [segOf]
  | none =>
    refine meets_data (Or.inl ⟨tcpHdr_flags _ _ _ _ _ _ (by omega), ?_⟩) ?_ ?_
    · rw [tcpHdr_append_length]; rfl
    · rw [tcpHdr_seq, rdBE_slice4 p 8 (by omega)]; exact Nat.mod_eq_of_lt (be32_lt p 8)
    · rw [tcpHdr_ack, rdBE_slice4 p 4 (by omega), tcpPayload_length]; simp [segOf]

/-- `refTcp` on the data arm -/
theorem refTcp_data {p : Bytes} (hd : tcpFlags p / 8 % 2 = 1 ∧ tcpFlags p / 16 % 2 = 1) (v : Bool) (ck : Nat) :
    refTcp v ck (segOf p) =
      if v = true ∨ Spec.be32 p 8 = (ck + 1) % 4294967296 then
        (.reply Spec.ACK true (segOf p).ack (((segOf p).seq + (segOf p).payloadLen) % 4294967296) false, true)
      else (.silent, v) := by
  have hd' : (segOf p).flags &&& (Spec.PSH + Spec.ACK) = Spec.PSH + Spec.ACK :=
    (dataBits (tcpFlags_lt p)).mpr hd
  unfold refTcp
  rw [if_pos hd']
  rfl

/-- the model's TCP layer refines the reference connection model, "validated" being
    "the table has an entry for the cookie the model computes for the segment" -/
theorem tcp_refines_ref' {cfg : Cfg} {env : Env} {st : Table} {ci : ClientInfo} {p : Bytes}
    (hl : p.length ≥ 20)
    {evs : List Ev} {ci' : ClientInfo} {st' : Table} {out : Option Bytes}
    (h : tcpRepl cfg env st ci p = .ok (evs, ci', st', out)) :
    meets (refTcp (st.get? (tcpCk cfg ci p)).isSome (tcpCk cfg ci p) (segOf p)).1 out = true ∧
    (st'.get? (tcpCk cfg ci p)).isSome = (refTcp (st.get? (tcpCk cfg ci p)).isSome (tcpCk cfg ci p) (segOf p)).2 := by
  cases tcpRepl_inv h with
  | nodata hd =>
    have := ref_nodata cfg ci p hl hd (st.get? (tcpCk cfg ci p)).isSome
    exact ⟨this.1, this.2.symm⟩
  | badAck hd hg hne =>
    have hne' : ¬ Spec.be32 p 8 = (tcpCk cfg ci p + 1) % 4294967296 :=
      fun hh => hne ((ackno_iff hl (tcpCk_lt ..)).mpr hh)
    rw [refTcp_data hd, hg]
    simp [hne', meets]
  | first hd hg he ci' tcb' r hp =>
    have he' := (ackno_iff hl (tcpCk_lt ..)).mp he
    rw [refTcp_data hd, if_pos (Or.inr he')]
    exact ⟨meets_dataOut hl hp, Table.append_get?_isSome ..⟩
  | known hd tcb hg ci' tcb' r hp =>
    have hv : (st.get? (tcpCk cfg ci p)).isSome = true := by rw [hg]; rfl
    rw [refTcp_data hd, if_pos (Or.inl hv)]
    exact ⟨meets_dataOut hl hp, Table.set_get?_isSome _ _ _ hv⟩

end Masscanned
