/-
  Proofs/C20Text/Console — well-formed events, the canonical form the reader recovers, the optional
  columns, and `parseConsole` on every console line of Model/Logger.
-/
import Masscanned.Proofs.C20Text.Lines
namespace Masscanned.C20Text
open Masscanned Spec.LogText Gen

/-! ### well-formed events and what the text determines -/

def macOk (o : Option Bytes) : Bool :=
  match o with
  | none => true
  | some m => m.length == 6

def ipOk (o : Option Ip) : Bool :=
  match o with
  | none => true
  | some (.v4 a) => a.length == 4
  | some (.v6 a) => a.length == 16

def isV4 (o : Option Ip) : Bool :=
  match o with
  | some (.v4 _) => true
  | _ => false

/-- the shape `arpCi` gives to the record of an ARP event -/
def arpOk (c : ClientInfo) : Bool :=
  c.macSrc.isSome && c.macDst.isSome && isV4 c.ipSrc && isV4 c.ipDst && c.transport.isSome &&
  c.portSrc.isNone && c.portDst.isNone

/-- what the round trip needs: addresses of the right length, ARP events of the `arpCi` shape -/
def wfTextP (e : Ev) : Bool :=
  macOk e.ci.macSrc && macOk e.ci.macDst && ipOk e.ci.ipSrc && ipOk e.ci.ipDst &&
  (e.layer != .arp || arpOk e.ci)

def canonP (e : Ev) : Ev :=
  { e with ci := { e.ci with
      cookie := none,
      transport := if e.layer = .arp then e.ci.transport else e.ci.transport.bind protoBack } }

/-! ### optional columns -/

theorem optField_mac (o : Option Bytes) (h : macOk o = true) :
    optField parseMac (optCol (o.map showMac)) = some o := by
  cases o with
  | none => rfl
  | some m =>
    simp only [macOk, beq_iff_eq] at h
    simp only [optField, Option.map_some, optCol, Option.getD_some,
      isEmpty_false_of_ne_nil (showMac_ne_nil m), Bool.false_eq_true, if_false, parseMac_showMac6 m h]

theorem showV6_ne_nil (a : Bytes) : showV6 a ≠ [] := by
  intro h; have := showV6_has_colon a; rw [h] at this; cases this

theorem parseIp_showIp (ip : Ip) (h : ipOk (some ip) = true) : parseIpText (showIp ip) = some ip := by
  cases ip with
  | v4 a =>
    simp only [ipOk, beq_iff_eq] at h
    simp only [parseIpText, showIp, contains_false_of_not_mem (showV4_no_colon a), Bool.false_eq_true, if_false,
      parseV4_showV4_4 a h, Option.map_some]
  | v6 a =>
    simp only [ipOk, beq_iff_eq] at h
    simp only [parseIpText, showIp, contains_true_of_mem (showV6_has_colon a), if_true,
      parseV6_showV6_16 a h, Option.map_some]

theorem showIp_ne_nil (ip : Ip) : showIp ip ≠ [] := by
  cases ip with
  | v4 a => exact showV4_ne_nil a
  | v6 a => exact showV6_ne_nil a

theorem optField_ip (o : Option Ip) (h : ipOk o = true) :
    optField parseIpText (optCol (o.map showIp)) = some o := by
  cases o with
  | none => rfl
  | some ip =>
    simp only [optField, Option.map_some, optCol, Option.getD_some,
      isEmpty_false_of_ne_nil (showIp_ne_nil ip), Bool.false_eq_true, if_false, parseIp_showIp ip h]

theorem optField_dec (o : Option Nat) : optField parseDec (optCol (o.map natDec)) = some o := by
  cases o with
  | none => rfl
  | some n =>
    simp only [optField, Option.map_some, optCol, Option.getD_some,
      isEmpty_false_of_ne_nil (natDec_ne_nil n), Bool.false_eq_true, if_false, parseDec_natDec_all]

theorem transport_col (o : Option Nat) :
    parseTransport (optCol (o.map showIpProto)) = some (o.bind protoBack) := by
  cases o with
  | none => rfl
  | some p => exact parseTransport_showIpProto p

theorem parseLayer_layerText (l : Layer) : parseLayerText (layerText l) = some l := by
  cases l <;> decide +kernel

theorem parseVerb_verbText (v : Verb) : parseVerbText (verbText v) = some v := by
  cases v <;> decide +kernel

/-! ### timestamps -/

theorem parseDec_isSome_all {b : Bytes} (h : (parseDec b).isSome = true) : b.all Spec.LogText.isDigit = true := by
  unfold parseDec at h
  split at h
  · cases h
  · rename_i hc
    simp only [Bool.or_eq_true, Bool.not_eq_true', not_or, Bool.not_eq_true, Bool.not_eq_false] at hc
    exact hc.2

/-- a timestamp consists of digits and dots only -/
theorem timestamp_bytes {ts : Bytes} (h : isTimestamp ts = true) :
    ∀ b ∈ ts, b = 46 ∨ Spec.LogText.isDigit b = true := by
  intro b hb
  unfold isTimestamp at h
  split at h
  · rename_i s m hs
    simp only [Bool.and_eq_true] at h
    rcases mem_splitAt (sep := 46) hb with h46 | ⟨p, hp, hbp⟩
    · exact .inl h46
    · rw [hs] at hp
      simp only [List.mem_cons, List.not_mem_nil, or_false] at hp
      rcases hp with rfl | rfl
      · exact .inr (List.all_eq_true.mp (parseDec_isSome_all h.1) b hbp)
      · exact .inr (List.all_eq_true.mp (parseDec_isSome_all h.2) b hbp)
  · cases h

theorem timestamp_tok {ts : Bytes} (h : isTimestamp ts = true) : Tok ts := by
  intro b hb
  rcases timestamp_bytes h b hb with rfl | hd
  · decide
  · simp only [Spec.LogText.isDigit, Bool.and_eq_true, decide_eq_true_eq] at hd
    simp only [vis, Bool.and_eq_true, decide_eq_true_eq]; omega

theorem timestamp_no_tab {ts : Bytes} (h : isTimestamp ts = true) : (9 : UInt8) ∉ ts :=
  (timestamp_tok h).not_mem (by decide)

theorem timestamp_no_space {ts : Bytes} (h : isTimestamp ts = true) : (32 : UInt8) ∉ ts :=
  (timestamp_tok h).not_mem (by decide)

/-! ### the reader on a line given column by column -/

theorem tab_not_tok {c : Bytes} (h : Tok c) : (9 : UInt8) ∉ c := h.not_mem (by decide)

theorem parseConsole_cols (ts L V c1 c2 c3 c4 c5 c6 c7 ex : Bytes) (l : Layer) (v : Verb)
    (ms md : Option Bytes) (is id : Option Ip) (tr ps pd : Option Nat)
    (hl : l ≠ .arp) (hts : isTimestamp ts = true)
    (hL : parseLayerText L = some l) (hV : parseVerbText V = some v)
    (tL : Tok L) (tV : Tok V) (t1 : Tok c1) (t2 : Tok c2) (t3 : Tok c3) (t4 : Tok c4) (t5 : Tok c5)
    (t6 : Tok c6) (t7 : Tok c7)
    (h1 : optField parseMac c1 = some ms) (h2 : optField parseMac c2 = some md)
    (h3 : optField parseIpText c3 = some is) (h4 : optField parseIpText c4 = some id)
    (h5 : parseTransport c5 = some tr) (h6 : optField parseDec c6 = some ps)
    (h7 : optField parseDec c7 = some pd) :
    parseConsole (sepCols 9 [ts, L, V, c1, c2, c3, c4, c5, c6, c7] ex) = some (mkEv l v ms md is id tr ps pd) := by
  unfold parseConsole
  rw [splitAt_sepCols 9 _ ex (by
    intro c hc
    simp only [List.mem_cons, List.not_mem_nil, or_false] at hc
    rcases hc with rfl | rfl | rfl | rfl | rfl | rfl | rfl | rfl | rfl | rfl
    · exact timestamp_no_tab hts
    all_goals exact tab_not_tok ‹_›)]
  obtain ⟨x, xs, hx⟩ := splitAt_cons_exists 9 ex
  rw [hx]
  simp only [List.cons_append, List.nil_append, hts, Bool.not_true, Bool.false_eq_true, if_false, hL, hV,
    h1, h2, h3, h4, h5, h6, h7]

theorem parseConsole_arp (ts L V c1 c2 c3 c4 op : Bytes) (v : Verb) (sha tha spa tpa : Bytes) (n : Nat)
    (hts : isTimestamp ts = true)
    (hL : parseLayerText L = some .arp) (hV : parseVerbText V = some v)
    (tL : Tok L) (tV : Tok V) (t1 : Tok c1) (t2 : Tok c2) (t3 : Tok c3) (t4 : Tok c4) (t5 : Tok op)
    (h1 : parseMac c1 = some sha) (h2 : parseMac c2 = some tha)
    (h3 : parseV4Text c3 = some spa) (h4 : parseV4Text c4 = some tpa)
    (h5 : parseWrapped "ArpOperation" op = some n) :
    parseConsole (sepCols 9 [ts, L, V, c1, c2, c3, c4] op) =
      some (mkEv .arp v (some sha) (some tha) (some (.v4 spa)) (some (.v4 tpa)) (some n) none none) := by
  unfold parseConsole
  rw [splitAt_sepCols 9 _ op (by
    intro c hc
    simp only [List.mem_cons, List.not_mem_nil, or_false] at hc
    rcases hc with rfl | rfl | rfl | rfl | rfl | rfl | rfl
    · exact timestamp_no_tab hts
    all_goals exact tab_not_tok ‹_›), splitAt_no_sep (tab_not_tok t5)]
  simp only [List.cons_append, List.nil_append, hts, Bool.not_true, Bool.false_eq_true, if_false, hL, hV,
    h1, h2, h3, h4, h5]


/-! ### every console line is read back -/

/-- an ARP-shaped record, spelled out -/
theorem arp_shape {e : Ev} (hwf : wfTextP e = true) (ha : e.layer = .arp) :
    ∃ sha tha spa tpa op ck, sha.length = 6 ∧ tha.length = 6 ∧ spa.length = 4 ∧ tpa.length = 4 ∧
      e = { layer := .arp, verb := e.verb,
            ci := { macSrc := some sha, macDst := some tha, ipSrc := some (.v4 spa), ipDst := some (.v4 tpa),
                    transport := some op, portSrc := none, portDst := none, cookie := ck } } := by
  obtain ⟨l, v, ⟨ms, md, is, id, tr, ps, pd, ck⟩⟩ := e
  simp only at ha
  subst ha
  simp only [wfTextP, arpOk, bne_self_eq_false, Bool.false_or, Bool.and_eq_true] at hwf
  obtain ⟨⟨⟨⟨m1, m2⟩, i1⟩, i2⟩, ⟨⟨⟨⟨⟨⟨a1, a2⟩, a3⟩, a4⟩, a5⟩, a6⟩, a7⟩⟩ := hwf
  cases ms <;> simp only [Option.isSome_none, Option.isSome_some, Bool.false_eq_true] at a1
  cases md <;> simp only [Option.isSome_none, Option.isSome_some, Bool.false_eq_true] at a2
  cases tr <;> simp only [Option.isSome_none, Option.isSome_some, Bool.false_eq_true] at a5
  cases ps <;> simp only [Option.isNone_none, Option.isNone_some, Bool.false_eq_true] at a6
  cases pd <;> simp only [Option.isNone_none, Option.isNone_some, Bool.false_eq_true] at a7
  rcases is with _ | (spa | spa) <;> simp only [isV4, Bool.false_eq_true] at a3
  rcases id with _ | (tpa | tpa) <;> simp only [isV4, Bool.false_eq_true] at a4
  simp only [macOk, ipOk, beq_iff_eq] at m1 m2 i1 i2
  exact ⟨_, _, _, _, _, _, m1, m2, i1, i2, rfl⟩

theorem console_roundtrip_P (ts f r : Bytes) (e : Ev) (hts : isTimestamp ts = true) (hwf : wfTextP e = true) :
    parseConsole (ts ++ [9] ++ consoleBody f r e) = some (canonP e) := by
  by_cases ha : e.layer = .arp
  · obtain ⟨sha, tha, spa, tpa, op, ck, h1, h2, h3, h4, he⟩ := arp_shape hwf ha
    generalize e.verb = v at he
    subst he
    have hline : ts ++ [9] ++ consoleBody f r
        { layer := .arp, verb := v,
          ci := { macSrc := some sha, macDst := some tha, ipSrc := some (.v4 spa), ipDst := some (.v4 tpa),
                  transport := some op, portSrc := none, portDst := none, cookie := ck } } =
        sepCols 9 [ts, layerText .arp, verbText v, showMac sha, showMac tha, showV4 spa, showV4 tpa]
          (showWrapped "ArpOperation" op) := by
      simp [consoleBody, sepCols, arpCols, joinWith, optCol, showIp]
    rw [hline, parseConsole_arp ts _ _ _ _ _ _ _ v sha tha spa tpa op hts (parseLayer_layerText _)
      (parseVerb_verbText _) (layerText_tok _) (verbText_tok _) (showMac_tok _) (showMac_tok _) (showV4_tok _)
      (showV4_tok _) (showWrapped_tok _ (tok_of_all (by decide +kernel)) _) (parseMac_showMac6 _ h1)
      (parseMac_showMac6 _ h2) (parseV4_showV4_4 _ h3) (parseV4_showV4_4 _ h4) (parseWrapped_showWrapped _ _)]
    rfl
  · simp only [wfTextP, Bool.and_eq_true] at hwf
    obtain ⟨⟨⟨⟨m1, m2⟩, i1⟩, i2⟩, _⟩ := hwf
    have hline : ts ++ [9] ++ consoleBody f r e =
        sepCols 9 [ts, layerText e.layer, verbText e.verb, optCol (e.ci.macSrc.map showMac),
          optCol (e.ci.macDst.map showMac), optCol (e.ci.ipSrc.map showIp), optCol (e.ci.ipDst.map showIp),
          optCol (e.ci.transport.map showIpProto), optCol (e.ci.portSrc.map natDec),
          optCol (e.ci.portDst.map natDec)]
          (joinWith [9] ((extraCols f r e).map (·.2))) := by
      simp [consoleBody, ha, sepCols, ciCols]
    have hci := ciCols_tok e.ci
    simp only [ciCols, List.mem_cons, List.not_mem_nil, or_false, forall_eq_or_imp, forall_eq] at hci
    obtain ⟨t1, t2, t3, t4, t5, t6, t7⟩ := hci
    rw [hline, parseConsole_cols ts _ _ _ _ _ _ _ _ _ _ e.layer e.verb e.ci.macSrc e.ci.macDst e.ci.ipSrc e.ci.ipDst
      (e.ci.transport.bind protoBack) e.ci.portSrc e.ci.portDst ha hts (parseLayer_layerText _)
      (parseVerb_verbText _) (layerText_tok _) (verbText_tok _) t1 t2 t3 t4 t5 t6 t7
      (optField_mac _ m1) (optField_mac _ m2) (optField_ip _ i1) (optField_ip _ i2) (transport_col _)
      (optField_dec _) (optField_dec _)]
    simp only [mkEv, canonP, ha, if_false]

end Masscanned.C20Text
