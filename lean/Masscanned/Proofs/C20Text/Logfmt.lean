/-
  Proofs/C20Text/Logfmt — `parseLogfmt` on a line given as a list of optional `key=value` items.
-/
import Masscanned.Proofs.C20Text.Console
namespace Masscanned.C20Text
open Masscanned Spec.LogText Gen

/-! ### space-separated items -/

/-- `first` followed by the items, each preceded by a space -/
def lineOf (first : Bytes) (its : List Bytes) : Bytes := first ++ (its.map (fun i => 32 :: i)).flatten

theorem lineOf_cons (first i : Bytes) (t : List Bytes) : lineOf first (i :: t) = first ++ 32 :: lineOf i t := by
  simp [lineOf]

theorem splitAt_lineOf (first : Bytes) (its : List Bytes) (h0 : (32 : UInt8) ∉ first)
    (h : ∀ i ∈ its, (32 : UInt8) ∉ i) : splitAt 32 (lineOf first its) = first :: its := by
  induction its generalizing first with
  | nil => simp [lineOf, splitAt_no_sep h0]
  | cons i t ih =>
    rw [lineOf_cons, splitAt_append_sep _ h0, ih i (h i (by simp)) (fun j hj => h j (by simp [hj]))]

/-! ### one item -/

theorem idxOf_sep (k v : Bytes) (h : (61 : UInt8) ∉ k) : (k ++ 61 :: v).idxOf? 61 = some k.length := by
  induction k with
  | nil => simp [List.idxOf?_cons]
  | cons a t ih =>
    have ha : a ≠ 61 := fun e => h (by simp [e])
    have ht : (61 : UInt8) ∉ t := fun e => h (by simp [e])
    rw [List.cons_append, List.idxOf?_cons, ih ht]
    simp [ha]

theorem keyOk_no_eq {k : Bytes} (h : keyOk k = true) : (61 : UInt8) ∉ k := by
  intro hm
  simp only [keyOk, Bool.and_eq_true, List.all_eq_true] at h
  have := h.2 61 hm
  revert this; decide

theorem keyOk_tok {k : Bytes} (h : keyOk k = true) : Tok k := by
  intro b hb
  simp only [keyOk, Bool.and_eq_true, List.all_eq_true] at h
  have := h.2 b hb
  simp only [Spec.LogText.isDigit, Bool.or_eq_true, Bool.and_eq_true, decide_eq_true_eq] at this
  simp only [vis, Bool.and_eq_true, decide_eq_true_eq]
  rcases this with (h | h) | h
  · omega
  · omega
  · subst h; decide

theorem parseKv_item (k v : Bytes) (h : keyOk k = true) : parseKv (k ++ 61 :: v) = some (k, v) := by
  unfold parseKv
  rw [idxOf_sep k v (keyOk_no_eq h)]
  simp only [List.take_left', show (k ++ 61 :: v).drop (k.length + 1) = v by
    rw [show k ++ 61 :: v = (k ++ [61]) ++ v by simp, show k.length + 1 = (k ++ [61]).length by simp,
      List.drop_left]]
  unfold keyOk at h
  rw [if_pos h]

/-! ### optional items -/

/-- the `(key, value)` pairs of the present fields -/
def present (K : List (Bytes × Option Bytes)) : List (Bytes × Bytes) :=
  K.filterMap (fun p => p.2.map (fun v => (p.1, v)))

def itemsOf (K : List (Bytes × Option Bytes)) : List Bytes := (present K).map (fun p => p.1 ++ 61 :: p.2)

def KOk (K : List (Bytes × Option Bytes)) : Prop := ∀ p ∈ K, keyOk p.1 = true ∧ ∀ v, p.2 = some v → Tok v

theorem present_append (K1 K2 : List (Bytes × Option Bytes)) : present (K1 ++ K2) = present K1 ++ present K2 := by
  simp [present]

theorem itemsOf_append (K1 K2 : List (Bytes × Option Bytes)) : itemsOf (K1 ++ K2) = itemsOf K1 ++ itemsOf K2 := by
  simp [itemsOf, present_append]

theorem present_cons_some (k v : Bytes) (K : List (Bytes × Option Bytes)) :
    present ((k, some v) :: K) = (k, v) :: present K := by simp [present]

theorem present_cons_none (k : Bytes) (K : List (Bytes × Option Bytes)) :
    present ((k, none) :: K) = present K := by simp [present]

theorem mem_present {K : List (Bytes × Option Bytes)} {q : Bytes × Bytes} (h : q ∈ present K) :
    (q.1, some q.2) ∈ K := by
  simp only [present, List.mem_filterMap, Option.map_eq_some_iff] at h
  obtain ⟨p, hp, v, hv, rfl⟩ := h
  obtain ⟨k, o⟩ := p
  simp only at hv; subst hv; exact hp

theorem items_facts (K : List (Bytes × Option Bytes)) (hK : KOk K) :
    (∀ i ∈ itemsOf K, (32 : UInt8) ∉ i) ∧ (itemsOf K).filter (fun i => !i.isEmpty) = itemsOf K ∧
    (itemsOf K).map parseKv = (present K).map some := by
  have hq : ∀ q ∈ present K, keyOk q.1 = true ∧ Tok q.2 := by
    intro q hq
    have := hK _ (mem_present hq)
    exact ⟨this.1, this.2 _ rfl⟩
  refine ⟨?_, ?_, ?_⟩
  · intro i hi
    simp only [itemsOf, List.mem_map] at hi
    obtain ⟨q, hqm, rfl⟩ := hi
    obtain ⟨h1, h2⟩ := hq q hqm
    exact ((keyOk_tok h1).append (Tok.cons (by decide) h2)).not_mem (by decide)
  · rw [List.filter_eq_self]
    intro i hi
    simp only [itemsOf, List.mem_map] at hi
    obtain ⟨q, hqm, rfl⟩ := hi
    cases hq1 : q.1 <;> simp
  · simp only [itemsOf, List.map_map]
    apply List.map_congr_left
    intro q hqm
    exact parseKv_item q.1 q.2 (hq q hqm).1

/-! ### looking a key up -/

def lookupB (kvs : List (Bytes × Bytes)) (k : Bytes) : Bytes :=
  match kvs.find? (·.1 = k) with
  | some (_, v) => v
  | none => []

theorem lookupKv_eq (kvs : List (Bytes × Bytes)) (k : String) : lookupKv kvs k = lookupB kvs (ascii k) := rfl

theorem lookup_absent (K : List (Bytes × Option Bytes)) (k : Bytes) (h : k ∉ K.map (·.1)) :
    lookupB (present K) k = [] := by
  unfold lookupB
  rw [List.find?_eq_none.mpr]
  intro q hq
  have := mem_present hq
  simp only [decide_eq_true_eq]
  intro e
  exact h (List.mem_map.mpr ⟨_, this, e⟩)

theorem lookup_present (K : List (Bytes × Option Bytes)) (hnd : (K.map (·.1)).Nodup) (k : Bytes) (o : Option Bytes)
    (h : (k, o) ∈ K) : lookupB (present K) k = o.getD [] := by
  induction K with
  | nil => cases h
  | cons p t ih =>
    obtain ⟨pk, po⟩ := p
    simp only [List.map_cons, List.nodup_cons] at hnd
    rcases List.mem_cons.mp h with he | ht
    · cases he
      cases o with
      | none =>
        rw [present_cons_none]
        exact lookup_absent t k hnd.1
      | some v =>
        rw [present_cons_some]
        simp [lookupB]
    · have hne : pk ≠ k := by
        intro e; subst e
        exact hnd.1 (List.mem_map.mpr ⟨_, ht, rfl⟩)
      cases po with
      | none => rw [present_cons_none]; exact ih hnd.2 ht
      | some v =>
        rw [present_cons_some]
        have := ih hnd.2 ht
        unfold lookupB at this ⊢
        rw [List.find?_cons_of_neg (by simpa using hne)]
        exact this

/-! ### duplicate keys -/

theorem eraseDups_nodup {α : Type} [BEq α] [LawfulBEq α] (l : List α) (h : l.Nodup) : l.eraseDups = l := by
  induction l with
  | nil => rfl
  | cons a t ih =>
    rw [List.nodup_cons] at h
    rw [List.eraseDups_cons]
    have : t.filter (fun b => !b == a) = t := by
      rw [List.filter_eq_self]
      intro b hb
      have : b ≠ a := fun e => h.1 (e ▸ hb)
      simp [this]
    rw [this, ih h.2]

theorem present_keys_nodup (K : List (Bytes × Option Bytes)) (h : (K.map (·.1)).Nodup) :
    ((present K).map (·.1)).Nodup := by
  have hs : List.Sublist ((present K).map (·.1)) (K.map (·.1)) := by
    induction K with
    | nil => exact List.Sublist.slnil
    | cons p t ih =>
      obtain ⟨k, o⟩ := p
      have ht := ih (List.nodup_cons.mp h).2
      cases o with
      | none => rw [present_cons_none]; exact List.Sublist.cons _ ht
      | some v => rw [present_cons_some]; exact List.Sublist.cons_cons _ ht
  exact List.Pairwise.sublist hs h

end Masscanned.C20Text
