/-
  Proofs/C20Text/Fields — the reader inverts the printer, field by field: decimal numbers, MAC
  addresses, dotted quads, protocol names (facts on the regenerated Display tables), `Name(n)`.
-/
import Masscanned.Proofs.C20Text.Ascii
import Masscanned.Proofs.C20Text.Split
namespace Masscanned.C20Text
open Masscanned Spec.LogText Gen

/-- visible ASCII: `!` .. `~` (no space, no control character) -/
def vis (b : UInt8) : Bool := 33 ≤ b.toNat && b.toNat ≤ 126

/-- a token: only visible ASCII -/
def Tok (v : Bytes) : Prop := ∀ b ∈ v, vis b = true

theorem Tok.not_mem {v : Bytes} (h : Tok v) {x : UInt8} (hx : vis x = false) : x ∉ v := by
  intro hm; have := h x hm; rw [hx] at this; cases this

theorem Tok.append {a b : Bytes} (ha : Tok a) (hb : Tok b) : Tok (a ++ b) := by
  intro x hx; rcases List.mem_append.mp hx with h | h
  · exact ha x h
  · exact hb x h

theorem Tok.cons {x : UInt8} {b : Bytes} (hx : vis x = true) (hb : Tok b) : Tok (x :: b) := by
  intro y hy; rcases List.mem_cons.mp hy with rfl | h
  · exact hx
  · exact hb y h

theorem Tok.nil : Tok [] := fun _ h => by cases h

theorem tok_of_all {v : Bytes} (h : v.all vis = true) : Tok v := fun b hb => List.all_eq_true.mp h b hb

/-! ### decimal -/

theorem dch_vis : ∀ d, d < 16 → vis (dch d) = true := by decide
theorem dch_isDigit : ∀ d, d < 10 → Spec.LogText.isDigit (dch d) = true := by decide
theorem dch_ne_colon : ∀ d, d < 16 → dch d ≠ 58 := by decide
theorem dch_ne_dot : ∀ d, d < 16 → dch d ≠ 46 := by decide

theorem digitsB_tok (b : Nat) (hb : 1 < b) (hb' : b ≤ 16) (n : Nat) : Tok (digitsB b n) :=
  digitsB_all b hb (fun x => vis x = true) (fun d hd => dch_vis d (by omega)) n

theorem natDec_tok (n : Nat) : Tok (natDec n) := by
  rw [natDec_eq]; exact digitsB_tok 10 (by omega) (by omega) n

theorem natDec_all_digit (n : Nat) : (natDec n).all Spec.LogText.isDigit = true := by
  rw [natDec_eq, List.all_eq_true]
  exact digitsB_all 10 (by omega) (fun x => Spec.LogText.isDigit x = true) dch_isDigit n

theorem natDec_ne_nil (n : Nat) : natDec n ≠ [] := by
  rw [natDec_eq]; exact digitsB_ne_nil 10 (by omega) n

def decFold (b : Bytes) : Nat := b.foldl (fun a d => a * 10 + (d.toNat - 48)) 0

theorem decFold_digits (n : Nat) : decFold (digitsB 10 n) = n := by
  induction n using Nat.strongRecOn with
  | _ n ih =>
    rw [digitsB_eq 10 (by omega)]
    split
    · rename_i h
      simp only [decFold, List.foldl_cons, List.foldl_nil, dch_dec n h]; omega
    · rename_i h
      have := ih (n / 10) (by omega)
      unfold decFold at this ⊢
      rw [List.foldl_append, this]
      simp only [List.foldl_cons, List.foldl_nil, dch_dec _ (Nat.mod_lt n (by omega : 0 < 10))]
      omega

/-- the decimal reader reads back every printed number -/
theorem parseDec_natDec_all (n : Nat) : parseDec (natDec n) = some n := by
  unfold parseDec
  have h1 := natDec_ne_nil n
  have h2 := natDec_all_digit n
  have h3 : (natDec n).isEmpty = false := by
    cases h : natDec n with
    | nil => exact absurd h h1
    | cons _ _ => rfl
  rw [h3, h2]
  simp only [Bool.not_true, Bool.or_self, Bool.false_eq_true, if_false]
  have := decFold_digits n
  rw [← natDec_eq] at this
  exact congrArg some this

theorem natDec_len3 (n : Nat) (h : n < 256) : (natDec n).length ≤ 3 := by
  rw [natDec_eq]; unfold digitsB; rw [List.length_map]
  exact (Nat.length_toDigits_le_iff (by omega) (by omega)).2 (by omega)

theorem natDec_no_dot (n : Nat) : (46 : UInt8) ∉ natDec n := by
  rw [natDec_eq]
  intro hm
  exact digitsB_all 10 (by omega) (fun x => x ≠ 46) (fun d hd => dch_ne_dot d (by omega)) n 46 hm rfl

theorem natDec_no_colon (n : Nat) : (58 : UInt8) ∉ natDec n := by
  rw [natDec_eq]
  intro hm
  exact digitsB_all 10 (by omega) (fun x => x ≠ 58) (fun d hd => dch_ne_colon d (by omega)) n 58 hm rfl

/-! ### MAC addresses -/

theorem hex2_facts : ∀ n, n < 256 →
    parseHex 2 (hex2 n) = some n ∧ (hex2 n).length = 2 ∧ (58 : UInt8) ∉ hex2 n ∧ (hex2 n).all vis = true := by
  decide +kernel

theorem at8_lt (a : Bytes) (i : Nat) : at8 a i < 256 := (a.getD i 0).toNat_lt

theorem splitAt_showMac (m : Bytes) :
    splitAt 58 (showMac m) =
      [hex2 (at8 m 0), hex2 (at8 m 1), hex2 (at8 m 2), hex2 (at8 m 3), hex2 (at8 m 4), hex2 (at8 m 5)] := by
  have h0 := (hex2_facts _ (at8_lt m 0)).2.2.1
  have h1 := (hex2_facts _ (at8_lt m 1)).2.2.1
  have h2 := (hex2_facts _ (at8_lt m 2)).2.2.1
  have h3 := (hex2_facts _ (at8_lt m 3)).2.2.1
  have h4 := (hex2_facts _ (at8_lt m 4)).2.2.1
  have h5 := (hex2_facts _ (at8_lt m 5)).2.2.1
  unfold showMac
  simp only [List.append_assoc, List.cons_append, List.nil_append]
  rw [splitAt_append_sep _ h0, splitAt_append_sep _ h1, splitAt_append_sep _ h2, splitAt_append_sep _ h3,
    splitAt_append_sep _ h4, splitAt_no_sep h5]

theorem parseMac_showMac_gen (m : Bytes) :
    parseMac (showMac m) = some [UInt8.ofNat (at8 m 0), UInt8.ofNat (at8 m 1), UInt8.ofNat (at8 m 2),
      UInt8.ofNat (at8 m 3), UInt8.ofNat (at8 m 4), UInt8.ofNat (at8 m 5)] := by
  unfold parseMac
  rw [splitAt_showMac]
  obtain ⟨a0, b0, _, _⟩ := hex2_facts _ (at8_lt m 0)
  obtain ⟨a1, b1, _, _⟩ := hex2_facts _ (at8_lt m 1)
  obtain ⟨a2, b2, _, _⟩ := hex2_facts _ (at8_lt m 2)
  obtain ⟨a3, b3, _, _⟩ := hex2_facts _ (at8_lt m 3)
  obtain ⟨a4, b4, _, _⟩ := hex2_facts _ (at8_lt m 4)
  obtain ⟨a5, b5, _, _⟩ := hex2_facts _ (at8_lt m 5)
  simp [a0, a1, a2, a3, a4, a5, b0, b1, b2, b3, b4, b5]

theorem ofNat_at8 (m : Bytes) (i : Nat) : UInt8.ofNat (at8 m i) = m.getD i 0 := by
  unfold at8; exact UInt8.ofNat_toNat

/-- a 6-byte MAC address printed by pnet's `Display` is read back -/
theorem parseMac_showMac6 (m : Bytes) (h : m.length = 6) : parseMac (showMac m) = some m := by
  rw [parseMac_showMac_gen]
  match m, h with
  | [a, b, c, d, e, f], _ => simp [ofNat_at8]

theorem showMac_tok (m : Bytes) : Tok (showMac m) := by
  have c : vis 58 = true := by decide
  have t := fun i => tok_of_all (hex2_facts _ (at8_lt m i)).2.2.2
  unfold showMac
  exact ((((((((((t 0).append (Tok.cons c .nil)).append (t 1)).append (Tok.cons c .nil)).append (t 2)).append
    (Tok.cons c .nil)).append (t 3)).append (Tok.cons c .nil)).append (t 4)).append (Tok.cons c .nil)).append (t 5)

theorem showMac_ne_nil (m : Bytes) : showMac m ≠ [] := by
  have := (hex2_facts _ (at8_lt m 0)).2.1
  unfold showMac
  intro h
  have := congrArg List.length h
  simp only [List.length_append, List.length_nil] at this
  omega

/-! ### dotted quads -/

theorem splitAt_showV4 (a : Bytes) :
    splitAt 46 (showV4 a) = [natDec (at8 a 0), natDec (at8 a 1), natDec (at8 a 2), natDec (at8 a 3)] := by
  unfold showV4
  simp only [List.append_assoc, List.cons_append, List.nil_append]
  rw [splitAt_append_sep _ (natDec_no_dot _), splitAt_append_sep _ (natDec_no_dot _),
    splitAt_append_sep _ (natDec_no_dot _), splitAt_no_sep (natDec_no_dot _)]

theorem parseV4_showV4_gen (a : Bytes) :
    parseV4Text (showV4 a) = some [UInt8.ofNat (at8 a 0), UInt8.ofNat (at8 a 1), UInt8.ofNat (at8 a 2),
      UInt8.ofNat (at8 a 3)] := by
  unfold parseV4Text
  rw [splitAt_showV4]
  have l0 := natDec_len3 _ (at8_lt a 0); have l1 := natDec_len3 _ (at8_lt a 1)
  have l2 := natDec_len3 _ (at8_lt a 2); have l3 := natDec_len3 _ (at8_lt a 3)
  have b0 := at8_lt a 0; have b1 := at8_lt a 1; have b2 := at8_lt a 2; have b3 := at8_lt a 3
  have c0 : at8 a 0 ≤ 255 := by omega
  have c1 : at8 a 1 ≤ 255 := by omega
  have c2 : at8 a 2 ≤ 255 := by omega
  have c3 : at8 a 3 ≤ 255 := by omega
  simp [parseDec_natDec_all, l0, l1, l2, l3, c0, c1, c2, c3]

/-- a 4-byte IPv4 address printed by `Display` of `Ipv4Addr` is read back -/
theorem parseV4_showV4_4 (a : Bytes) (h : a.length = 4) : parseV4Text (showV4 a) = some a := by
  rw [parseV4_showV4_gen]
  match a, h with
  | [a, b, c, d], _ => simp [ofNat_at8]

theorem showV4_tok (a : Bytes) : Tok (showV4 a) := by
  have c : vis 46 = true := by decide
  unfold showV4
  exact (((((((natDec_tok _).append (Tok.cons c .nil)).append (natDec_tok _)).append (Tok.cons c .nil)).append
    (natDec_tok _)).append (Tok.cons c .nil)).append (natDec_tok _))

theorem showV4_no_colon (a : Bytes) : (58 : UInt8) ∉ showV4 a := by
  unfold showV4
  simp only [List.mem_append, List.mem_singleton, not_or]
  have := natDec_no_colon
  refine ⟨⟨⟨⟨⟨⟨this _, by decide⟩, this _⟩, by decide⟩, this _⟩, by decide⟩, this _⟩

theorem showV4_has_dot (a : Bytes) : (46 : UInt8) ∈ showV4 a := by
  unfold showV4; simp

theorem showV4_ne_nil (a : Bytes) : showV4 a ≠ [] := by
  intro h; have := showV4_has_dot a; rw [h] at this; cases this

end Masscanned.C20Text
