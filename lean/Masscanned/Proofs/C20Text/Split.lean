/-
  Proofs/C20Text/Split — `Spec.LogText.splitAt`: a separator-free prefix is one field.
-/
import Masscanned.Spec.LogText
namespace Masscanned.C20Text
open Masscanned Spec.LogText

theorem splitAt_ne_nil (sep : UInt8) (b : Bytes) : splitAt sep b ≠ [] := by
  induction b with
  | nil => simp [splitAt]
  | cons x t ih =>
    unfold splitAt
    split
    · simp
    · split <;> simp

theorem splitAt_cons_exists (sep : UInt8) (b : Bytes) : ∃ h t, splitAt sep b = h :: t := by
  cases hs : splitAt sep b with
  | nil => exact absurd hs (splitAt_ne_nil sep b)
  | cons h t => exact ⟨h, t, rfl⟩

theorem splitAt_cons_sep (sep : UInt8) (t : Bytes) : splitAt sep (sep :: t) = [] :: splitAt sep t := by
  rw [splitAt, if_pos rfl]

theorem splitAt_cons_ne {sep x : UInt8} (t : Bytes) (hx : x ≠ sep) {h0 : Bytes} {t0 : List Bytes}
    (hs : splitAt sep t = h0 :: t0) : splitAt sep (x :: t) = (x :: h0) :: t0 := by
  rw [splitAt, if_neg hx, hs]

theorem splitAt_no_sep {sep : UInt8} {a : Bytes} (h : sep ∉ a) : splitAt sep a = [a] := by
  induction a with
  | nil => rfl
  | cons x t ih =>
    have hx : x ≠ sep := fun e => h (by simp [e])
    have ht : sep ∉ t := fun e => h (by simp [e])
    unfold splitAt
    rw [if_neg hx, ih ht]

theorem splitAt_append_sep {sep : UInt8} {a : Bytes} (b : Bytes) (h : sep ∉ a) :
    splitAt sep (a ++ sep :: b) = a :: splitAt sep b := by
  induction a with
  | nil => simp [splitAt]
  | cons x t ih =>
    have hx : x ≠ sep := fun e => h (by simp [e])
    have ht : sep ∉ t := fun e => h (by simp [e])
    rw [List.cons_append]
    exact splitAt_cons_ne _ hx (ih ht)

/-- every byte of a string is the separator or belongs to one of the fields -/
theorem mem_splitAt {sep : UInt8} {b : Bytes} {x : UInt8} (hx : x ∈ b) :
    x = sep ∨ ∃ p ∈ splitAt sep b, x ∈ p := by
  induction b with
  | nil => cases hx
  | cons y t ih =>
    by_cases hy : y = sep
    · subst hy
      rw [splitAt_cons_sep]
      rcases List.mem_cons.mp hx with rfl | hx
      · exact .inl rfl
      · rcases ih hx with h | ⟨p, hp, hxp⟩
        · exact .inl h
        · exact .inr ⟨p, by simp [hp], hxp⟩
    · obtain ⟨h0, t0, hs⟩ := splitAt_cons_exists sep t
      rw [splitAt_cons_ne _ hy hs]
      rcases List.mem_cons.mp hx with rfl | hx
      · exact .inr ⟨_, List.mem_cons_self, by simp⟩
      · rcases ih hx with h | ⟨p, hp, hxp⟩
        · exact .inl h
        · rw [hs] at hp
          rcases List.mem_cons.mp hp with rfl | hp
          · exact .inr ⟨_, List.mem_cons_self, by simp [hxp]⟩
          · exact .inr ⟨p, by simp [hp], hxp⟩

/-- `cols` each followed by the separator, then `last` -/
def sepCols (sep : UInt8) (cols : List Bytes) (last : Bytes) : Bytes :=
  cols.foldr (fun c acc => c ++ sep :: acc) last

theorem splitAt_sepCols (sep : UInt8) (cols : List Bytes) (last : Bytes) (h : ∀ c ∈ cols, sep ∉ c) :
    splitAt sep (sepCols sep cols last) = cols ++ splitAt sep last := by
  induction cols with
  | nil => rfl
  | cons c t ih =>
    simp only [sepCols, List.foldr_cons] at ih ⊢
    rw [splitAt_append_sep _ (h c (by simp)), ih (fun c hc => h c (by simp [hc]))]
    rfl

end Masscanned.C20Text
