/-
  Proofs/C20Text/V6b — `parseV6_showV6_16`: the three shapes of `showV6` put together.
-/
import Masscanned.Proofs.C20Text.V6
namespace Masscanned.C20Text
open Masscanned Spec.LogText

theorem take_zero_drop (S : List Nat) (st len : Nat) (hle : st + len ≤ S.length)
    (hz : ∀ i, st ≤ i → i < st + len → S.getD i 1 = 0) :
    S.take st ++ List.replicate len 0 ++ S.drop (st + len) = S := by
  apply List.ext_getElem?
  intro i
  by_cases h1 : i < st
  · rw [List.append_assoc, List.getElem?_append_left (by simp; omega), List.getElem?_take, if_pos h1]
  · by_cases h2 : i < st + len
    · rw [List.append_assoc, List.getElem?_append_right (by simp; omega),
        List.getElem?_append_left (by simp; omega), List.getElem?_replicate]
      have := hz i (by omega) h2
      rw [List.getD_eq_getElem?_getD] at this
      have hi : i < S.length := by omega
      rw [List.getElem?_eq_getElem hi] at this ⊢
      simp at this
      simp; constructor <;> omega
    · rw [List.getElem?_append_right (by simp; omega), List.getElem?_drop]
      congr 1; simp; omega

/-- the run reported by `longestZeroRun` lies inside the 8 segments and covers zero segments only -/
def runOk (S : List Nat) : Bool :=
  !(decide ((longestZeroRun S).2 > 1)) ||
  (decide ((longestZeroRun S).1 + (longestZeroRun S).2 ≤ 8) &&
   (List.range 8).all (fun i =>
     !(decide ((longestZeroRun S).1 ≤ i) && decide (i < (longestZeroRun S).1 + (longestZeroRun S).2)) ||
       S.getD i 1 == 0))

theorem runOk_bits : ∀ b0 b1 b2 b3 b4 b5 b6 b7 : Bool,
    runOk [C16.nz b0, C16.nz b1, C16.nz b2, C16.nz b3, C16.nz b4, C16.nz b5, C16.nz b6, C16.nz b7] = true := by
  decide +kernel

theorem runOk_norm (S : List Nat) : runOk S = runOk (S.map C16.norm) := by
  unfold runOk
  rw [← C16.lzr_norm]
  congr 2
  apply List.all_congr rfl
  intro i
  congr 1
  have := C16.getD_norm S i 1
  rw [show C16.norm 1 = 1 from rfl] at this
  rw [this]
  have := C16.norm_eq_zero (S.getD i 1)
  generalize S.getD i 1 = x at this
  rw [Bool.eq_iff_iff]; simp only [beq_iff_eq]; exact this.symm

theorem runOk_all (S : List Nat) (h : S.length = 8) : runOk S = true := by
  rw [runOk_norm]
  obtain ⟨a, b, c, d, e, f, g, i, rfl⟩ := C16.len8 S h
  exact runOk_bits _ _ _ _ _ _ _ _

theorem run_facts (S : List Nat) (h : S.length = 8) (hr : (longestZeroRun S).2 > 1) :
    (longestZeroRun S).1 + (longestZeroRun S).2 ≤ 8 ∧
    ∀ i, (longestZeroRun S).1 ≤ i → i < (longestZeroRun S).1 + (longestZeroRun S).2 → S.getD i 1 = 0 := by
  have := runOk_all S h
  unfold runOk at this
  simp only [hr, decide_true, Bool.not_true, Bool.false_or, Bool.and_eq_true, decide_eq_true_eq,
    List.all_eq_true, List.mem_range, Bool.or_eq_true, Bool.not_eq_eq_eq_not, Bool.not_true,
    Bool.and_eq_false_imp, decide_eq_false_iff_not, beq_iff_eq] at this
  refine ⟨this.1, fun i h1 h2 => ?_⟩
  have h3 := this.2 i (by omega)
  rcases h3 with h3 | h3
  · exact absurd h2 (h3 h1)
  · exact h3

theorem len16 (a : Bytes) (h : a.length = 16) : ∃ a0 a1 a2 a3 a4 a5 a6 a7 a8 a9 a10 a11 a12 a13 a14 a15,
    a = [a0, a1, a2, a3, a4, a5, a6, a7, a8, a9, a10, a11, a12, a13, a14, a15] := by
  match a, h with
  | [a0, a1, a2, a3, a4, a5, a6, a7, a8, a9, a10, a11, a12, a13, a14, a15], _ =>
    exact ⟨a0, a1, a2, a3, a4, a5, a6, a7, a8, a9, a10, a11, a12, a13, a14, a15, rfl⟩

theorem mapped_bytes (a : Bytes) (h : a.length = 16)
    (hm : (v6Segments a).take 5 = [0, 0, 0, 0, 0] ∧ (v6Segments a).getD 5 1 = 65535) :
    groupsToBytes (List.replicate 5 0 ++ [65535, at8 (a.drop 12) 0 * 256 + at8 (a.drop 12) 1,
      at8 (a.drop 12) 2 * 256 + at8 (a.drop 12) 3]) = a := by
  obtain ⟨a0, a1, a2, a3, a4, a5, a6, a7, a8, a9, a10, a11, a12, a13, a14, a15, rfl⟩ := len16 a h
  simp only [v6Segments, List.range, List.range.loop, List.map_cons, List.map_nil, at8, List.getD_cons_zero,
    List.getD_cons_succ, List.take_succ_cons, List.take_zero, List.cons.injEq, and_true, Nat.mul_zero,
    Nat.reduceMul] at hm
  obtain ⟨⟨z0, z1, z2, z3, z4⟩, z5⟩ := hm
  have b0 := a0.toNat_lt; have b1 := a1.toNat_lt; have b2 := a2.toNat_lt; have b3 := a3.toNat_lt
  have b4 := a4.toNat_lt; have b5 := a5.toNat_lt; have b6 := a6.toNat_lt; have b7 := a7.toNat_lt
  have b8 := a8.toNat_lt; have b9 := a9.toNat_lt; have b10 := a10.toNat_lt; have b11 := a11.toNat_lt
  have e : ∀ (x : UInt8) (n : Nat), x.toNat = n → x = UInt8.ofNat n := by
    intro x n hx; rw [← hx]; exact UInt8.ofNat_toNat.symm
  have c0 := e a0 0 (by omega); have c1 := e a1 0 (by omega); have c2 := e a2 0 (by omega)
  have c3 := e a3 0 (by omega); have c4 := e a4 0 (by omega); have c5 := e a5 0 (by omega)
  have c6 := e a6 0 (by omega); have c7 := e a7 0 (by omega); have c8 := e a8 0 (by omega)
  have c9 := e a9 0 (by omega); have c10 := e a10 255 (by omega); have c11 := e a11 255 (by omega)
  subst c0 c1 c2 c3 c4 c5 c6 c7 c8 c9 c10 c11
  simp [groupsToBytes, at8, byte_hi]

/-- a 16-byte IPv6 address printed by `Display` of `Ipv6Addr` (RFC 5952) is read back -/
theorem parseV6_showV6_16 (a : Bytes) (h : a.length = 16) : parseV6Text (showV6 a) = some a := by
  have h8 := C16.v6Segments_length a
  have hlt := C16.v6Segments_lt a
  rw [C16.showV6_unfold]
  split
  · -- ::ffff:a.b.c.d
    rename_i hm
    have hpre : "::ffff:".toUTF8.toList = 58 :: 58 :: [102, 102, 102, 102, 58] := by decide +kernel
    rw [hpre]
    unfold parseV6Text
    simp only [List.cons_append, findDouble_colon_colon, List.take_zero, Nat.zero_add, List.drop_succ_cons,
      List.drop_zero, List.nil_append]
    have hv := v6Groups_mapped (a.drop 12)
    simp only [List.cons_append, List.nil_append] at hv
    rw [hv, show v6Groups [] = some [] from rfl]
    simp only [List.length_nil, List.length_cons, Nat.zero_add, Nat.reduceAdd, Nat.reduceLeDiff, if_true,
      Nat.reduceSub, List.nil_append]
    exact congrArg some (mapped_bytes a h hm)
  · split
    · -- one `::`
      rename_i hr
      obtain ⟨hle, hz⟩ := run_facts _ h8 hr
      generalize hst : (longestZeroRun (v6Segments a)).1 = st at hle hz
      generalize hlen : (longestZeroRun (v6Segments a)).2 = len at hle hz hr
      unfold parseV6Text
      rw [List.append_assoc, List.cons_append, List.cons_append, List.nil_append, findDouble_joinColon_dbl]
      simp only [List.take_left, show ∀ (X Y : Bytes), (X ++ 58 :: 58 :: Y).drop (X.length + 2) = Y from
        fun X Y => by rw [show X ++ 58 :: 58 :: Y = (X ++ [58, 58]) ++ Y by simp,
                          show X.length + 2 = (X ++ [58, 58]).length by simp, List.drop_left]]
      rw [v6Groups_joinColon _ (fun x hx => hlt x (List.mem_of_mem_take hx)),
        v6Groups_joinColon _ (fun x hx => hlt x (List.mem_of_mem_drop hx))]
      simp only [List.length_take, List.length_drop, h8]
      have hc : min st 8 + (8 - (st + len)) ≤ 7 := by omega
      rw [if_pos hc]
      have hn : 8 - min st 8 - (8 - (st + len)) = len := by omega
      rw [hn, take_zero_drop _ st len (by omega) hz, groupsToBytes_segments a h]
    · -- eight plain groups
      unfold parseV6Text
      rw [findDouble_joinColon, v6Groups_joinColon _ hlt]
      simp only [h8, if_true]
      rw [groupsToBytes_segments a h]

theorem showV6_tok (a : Bytes) : Tok (showV6 a) := by
  rw [C16.showV6_unfold]
  split
  · exact (tok_of_all (by decide +kernel)).append (showV4_tok _)
  · split
    · exact ((joinColon_tok _).append (tok_of_all (by decide))).append (joinColon_tok _)
    · exact joinColon_tok _

theorem showV6_has_colon (a : Bytes) : (58 : UInt8) ∈ showV6 a := by
  rw [C16.showV6_unfold]
  split
  · have hpre : "::ffff:".toUTF8.toList = 58 :: 58 :: [102, 102, 102, 102, 58] := by decide +kernel
    rw [hpre]; simp
  · split
    · simp
    · obtain ⟨s0, s1, s2, s3, s4, s5, s6, s7, hs⟩ := C16.len8 _ (C16.v6Segments_length a)
      rw [hs, joinColon_cons_cons]; simp

end Masscanned.C20Text
