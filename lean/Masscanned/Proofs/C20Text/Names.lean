/-
  Proofs/C20Text/Names — obligations on the regenerated Display tables (`Gen.ipProtoNames`,
  `Gen.etherTypeNames`), checked by evaluation on the tables themselves, and what follows for
  `showIpProto` / `parseTransport`, `showEtherType`, `showWrapped` / `parseWrapped`.
-/
import Masscanned.Proofs.C20Text.Fields
namespace Masscanned.C20Text
open Masscanned Spec.LogText Gen

/-- a Display name usable as a column / logfmt value: non-empty, visible ASCII only (so no TAB, no LF,
    no space), and no `=` -/
def nameOk (n : Bytes) : Bool := !n.isEmpty && n.all (fun b => vis b && b != 61)

/-! ### table obligations (re-checked whenever Gen/LogNames.lean is regenerated) -/

theorem ipProtoNames_length : ipProtoNames.length = 256 := by decide +kernel

/-- no name is empty or contains TAB, LF, space, `=` or a non-ASCII byte -/
theorem ipProtoNames_ok : ipProtoNames.all nameOk = true := by decide +kernel

/-- names are pairwise distinct, except the placeholder `unknown` -/
theorem ipProtoNames_distinct : (ipProtoNames.filter (fun n => n != ascii "unknown")).Nodup := by
  decide +kernel

theorem nodup_filter_idx {α : Type} [DecidableEq α] (p : α → Bool) (l : List α) (h : (l.filter p).Nodup) :
    ∀ i j (hi : i < l.length) (hj : j < l.length), p l[i] = true → l[i] = l[j] → i = j := by
  induction l with
  | nil => intro i j hi; cases hi
  | cons a t ih =>
    intro i j hi hj hp he
    have hsub : (t.filter p).Nodup := by
      rw [List.filter_cons] at h
      split at h
      · exact (List.nodup_cons.mp h).2
      · exact h
    cases i with
    | zero =>
      cases j with
      | zero => rfl
      | succ j =>
        exfalso
        simp only [List.getElem_cons_zero, List.getElem_cons_succ] at hp he
        rw [List.filter_cons, if_pos hp] at h
        have hj' : j < t.length := by simpa using hj
        exact (List.nodup_cons.mp h).1 (List.mem_filter.mpr ⟨he ▸ List.getElem_mem hj', hp⟩)
    | succ i =>
      cases j with
      | zero =>
        exfalso
        simp only [List.getElem_cons_zero, List.getElem_cons_succ] at hp he
        have hi' : i < t.length := by simpa using hi
        have hpa : p a = true := he ▸ hp
        rw [List.filter_cons, if_pos hpa] at h
        exact (List.nodup_cons.mp h).1 (List.mem_filter.mpr ⟨he ▸ List.getElem_mem hi', hpa⟩)
      | succ j =>
        simp only [List.getElem_cons_succ] at hp he
        have := ih hsub i j (by simpa using hi) (by simpa using hj) hp he
        omega

theorem etherTypeNames_ok : etherTypeNames.all (fun p => nameOk p.2) = true := by decide +kernel

theorem unknown_ok : nameOk (ascii "unknown") = true := by decide +kernel

theorem nameOk_tok {n : Bytes} (h : nameOk n = true) : Tok n := by
  intro b hb
  simp only [nameOk, Bool.and_eq_true, List.all_eq_true] at h
  exact (h.2 b hb).1

theorem nameOk_ne_nil {n : Bytes} (h : nameOk n = true) : n ≠ [] := by
  intro e; subst e; simp [nameOk] at h

theorem nameOk_no_eq {n : Bytes} (h : nameOk n = true) : (61 : UInt8) ∉ n := by
  intro hm
  simp only [nameOk, Bool.and_eq_true, List.all_eq_true] at h
  have := (h.2 61 hm).2
  simp at this

theorem showIpProto_ok (p : Nat) : nameOk (showIpProto p) = true := by
  unfold showIpProto
  rw [List.getD_eq_getElem?_getD]
  cases h : ipProtoNames[p]? with
  | none => exact unknown_ok
  | some n =>
    exact List.all_eq_true.mp ipProtoNames_ok n (List.mem_of_getElem? h)

theorem showEtherType_ok (t : Nat) : nameOk (showEtherType t) = true := by
  unfold showEtherType
  split
  · rename_i n h
    exact List.all_eq_true.mp etherTypeNames_ok _ (List.mem_of_find?_eq_some h)
  · exact unknown_ok

/-- the number the reader recovers from the printed protocol name: the number itself if its name is a
    proper one, nothing if it is printed `unknown` -/
def protoBack (p : Nat) : Option Nat := if showIpProto p = ascii "unknown" then none else some p

theorem parseTransport_showIpProto (p : Nat) : parseTransport (showIpProto p) = some (protoBack p) := by
  unfold parseTransport protoBack
  have hne := nameOk_ne_nil (showIpProto_ok p)
  have he : (showIpProto p).isEmpty = false := by
    cases h : showIpProto p with
    | nil => exact absurd h hne
    | cons _ _ => rfl
  rw [he]
  simp only [Bool.false_eq_true, if_false]
  by_cases hu : showIpProto p = ascii "unknown"
  · rw [if_pos hu, if_pos (by rw [hu]; rfl)]
  · rw [if_neg hu, if_neg (by intro h; exact hu h)]
    have hp : p < 256 := by
      by_cases hp : p < 256
      · exact hp
      · exfalso; apply hu
        unfold showIpProto
        rw [List.getD_eq_getElem?_getD, List.getElem?_eq_none (by rw [ipProtoNames_length]; omega)]
        rfl
    have hlen := ipProtoNames_length
    have hsp : showIpProto p = ipProtoNames[p]'(by omega) := by
      unfold showIpProto; rw [List.getD_eq_getElem?_getD, List.getElem?_eq_getElem (by omega)]; rfl
    have hidx : ipProtoNames.idxOf? (showIpProto p) = some p := by
      rw [List.idxOf?_eq_some_iff]
      refine ⟨by omega, hsp.symm, ?_⟩
      intro j hj heq
      have := nodup_filter_idx _ _ ipProtoNames_distinct p j (by omega) (by omega)
        (by rw [← hsp]; simpa using hu) (by rw [heq, hsp])
      omega
    rw [hidx]

/-! ### `Name(n)` -/

theorem showWrapped_tok (name : String) (h : Tok (ascii name)) (v : Nat) : Tok (showWrapped name v) := by
  unfold showWrapped
  exact ((h.append (Tok.cons (by decide) .nil)).append (natDec_tok v)).append (Tok.cons (by decide) .nil)

theorem parseWrapped_showWrapped (name : String) (v : Nat) :
    parseWrapped name (showWrapped name v) = some v := by
  unfold parseWrapped showWrapped ascii
  generalize name.toUTF8.toList = nm
  have h1 : (nm ++ [40] ++ natDec v ++ [41]).take (nm ++ [40]).length = nm ++ [40] := by
    rw [List.append_assoc (nm ++ [40]), List.take_left]
  have h2 : (nm ++ [40] ++ natDec v ++ [41]).getLast? = some 41 := List.getLast?_concat
  have h3 : ((nm ++ [40] ++ natDec v ++ [41]).drop (nm ++ [40]).length).dropLast = natDec v := by
    rw [List.append_assoc (nm ++ [40]), List.drop_left]; simp
  simp only [h1, h2, h3, and_self, if_true]
  exact parseDec_natDec_all v

end Masscanned.C20Text
