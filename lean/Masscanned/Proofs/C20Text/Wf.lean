/-
  Proofs/C20Text/Wf — every event `step` logs is well-formed: MAC addresses of 6 bytes, IPv4 / IPv6
  addresses of 4 / 16 bytes, next-protocol < 256, ports < 65536, ARP events of the `arpCi` shape with
  an operation < 65536.
-/
import Masscanned.Proofs.C20Text.Console
import Masscanned.Proofs.C20.Grammar
namespace Masscanned.C20Text
open Masscanned Spec

def numOk (bound : Nat) (o : Option Nat) : Bool :=
  match o with
  | none => true
  | some n => decide (n < bound)

def wfCi (c : ClientInfo) : Bool :=
  macOk c.macSrc && macOk c.macDst && ipOk c.ipSrc && ipOk c.ipDst && numOk 256 c.transport &&
  numOk 65536 c.portSrc && numOk 65536 c.portDst

def wfEvP (e : Ev) : Bool :=
  wfTextP e && numOk (if e.layer = .arp then 65536 else 256) e.ci.transport &&
  numOk 65536 e.ci.portSrc && numOk 65536 e.ci.portDst

theorem wfEvP_of_ci {l : Layer} (hl : l ≠ .arp) (v : Verb) {c : ClientInfo} (h : wfCi c = true) :
    wfEvP (ev l v c) = true := by
  simp only [wfCi, Bool.and_eq_true] at h
  obtain ⟨⟨⟨⟨⟨⟨h1, h2⟩, h3⟩, h4⟩, h5⟩, h6⟩, h7⟩ := h
  simp [wfEvP, wfTextP, ev, hl, h1, h2, h3, h4, h5, h6, h7]

theorem rdBE_lt2 (b : Bytes) (h : b.length ≤ 2) : rdBE b < 65536 := by
  match b, h with
  | [], _ => simp [rdBE]
  | [x], _ => have := x.toNat_lt; simp [rdBE]; omega
  | [x, y], _ => have := x.toNat_lt; have := y.toNat_lt; simp [rdBE]; omega

theorem rdBE_slice_lt2 (p : Bytes) (i : Nat) : rdBE (slice p i 2) < 65536 :=
  rdBE_lt2 _ (by simp [slice]; omega)

theorem portsCi_wf {ci : ClientInfo} (p : Bytes) (h : wfCi ci = true) : wfCi (C20.portsCi ci p) = true := by
  simp only [wfCi, Bool.and_eq_true] at h ⊢
  obtain ⟨⟨⟨⟨⟨⟨h1, h2⟩, h3⟩, h4⟩, h5⟩, h6⟩, h7⟩ := h
  refine ⟨⟨⟨⟨⟨⟨h1, h2⟩, h3⟩, h4⟩, h5⟩, ?_⟩, ?_⟩ <;> simp [C20.portsCi, numOk, rdBE_slice_lt2]

theorem wfCi_cookie {ci : ClientInfo} (k : Option Nat) (h : wfCi ci = true) :
    wfCi { ci with cookie := k } = true := h

theorem protoRepl_wf {cfg : Cfg} {env : Env} {ci ci' : ClientInfo} {tcb tcb' : Option Tcb}
    {d : Bytes} {r : Option Bytes} (h : protoRepl cfg env ci tcb d = .ok (ci', tcb', r))
    (hc : wfCi ci = true) : wfCi ci' = true := by
  rcases protoRepl_shape h with rfl | ⟨rfl, _⟩
  · exact hc
  · simp only [wfCi, Bool.and_eq_true] at hc ⊢
    obtain ⟨⟨⟨⟨⟨⟨h1, h2⟩, h3⟩, h4⟩, h5⟩, h6⟩, h7⟩ := hc
    refine ⟨⟨⟨⟨⟨⟨h1, h2⟩, h3⟩, h4⟩, h5⟩, h6⟩, ?_⟩
    cases ci.portDst with
    | none => rfl
    | some q => simp [numOk]; omega

theorem icmp4Repl_wf {ci : ClientInfo} {p : Bytes} {evs : List Ev} {r : Option Bytes}
    (h : icmp4Repl ci p = (evs, r)) (hc : wfCi ci = true) : ∀ e ∈ evs, wfEvP e = true := by
  rw [C20.icmp4Repl_evs h]
  intro e he
  simp only [List.mem_cons, List.not_mem_nil, or_false] at he
  rcases he with rfl | rfl <;> exact wfEvP_of_ci (by decide) _ hc

theorem icmp6Repl_wf {cfg : Cfg} {ci : ClientInfo} {p : Bytes} {evs : List Ev}
    {r : Option (Bytes × Option Bytes)} (h : icmp6Repl cfg ci p = (evs, r)) (hc : wfCi ci = true) :
    ∀ e ∈ evs, wfEvP e = true := by
  rw [C20.icmp6Repl_evs h]
  intro e he
  simp only [List.mem_cons, List.not_mem_nil, or_false] at he
  rcases he with rfl | rfl <;> exact wfEvP_of_ci (by decide) _ hc

theorem udpRepl_wf {cfg : Cfg} {env : Env} {ci ci' : ClientInfo} {p : Bytes} {evs : List Ev}
    {r : Option Bytes} (h : udpRepl cfg env ci p = .ok (evs, ci', r)) (hc : wfCi ci = true) :
    (∀ e ∈ evs, wfEvP e = true) ∧ wfCi ci' = true := by
  have hp := portsCi_wf p hc
  have hev := (C20.udpRepl_evs h).1
  have hci : wfCi ci' = true := by
    unfold udpRepl at h
    split_all h
    · cases h
    · rename_i hpr; cases h; exact protoRepl_wf hpr hp
    · rename_i hpr; cases h; exact protoRepl_wf hpr hp
  refine ⟨?_, hci⟩
  rw [hev]
  intro e he
  simp only [List.mem_cons, List.not_mem_nil, or_false] at he
  rcases he with rfl | rfl
  · exact wfEvP_of_ci (by decide) _ hp
  · exact wfEvP_of_ci (by decide) _ hci

theorem tcpRepl_wf {cfg : Cfg} {env : Env} {st st' : Table} {ci ci' : ClientInfo} {p : Bytes}
    {evs : List Ev} {r : Option Bytes} (h : tcpRepl cfg env st ci p = .ok (evs, ci', st', r))
    (hc : wfCi ci = true) : (∀ e ∈ evs, wfEvP e = true) ∧ wfCi ci' = true := by
  have hp := portsCi_wf p hc
  have hev := (C20.tcpRepl_evs h).1
  have hci : wfCi ci' = true := by
    unfold tcpRepl at h
    extract_lets sport dport seq ack flags ci0 rcv ck finish ackno ci1 data at h
    have h0 : wfCi ci0 = true := hp
    have h1 : wfCi ci1 = true := wfCi_cookie _ h0
    clear_value ck
    split_all h
    all_goals try dsimp only [finish] at h
    all_goals simp only [Except.ok.injEq, Prod.mk.injEq, reduceCtorEq] at h
    all_goals obtain ⟨_, rfl, _, _⟩ := h
    all_goals first
      | exact h0
      | exact h1
      | exact protoRepl_wf ‹protoRepl _ _ _ _ _ = _› h1
  refine ⟨?_, hci⟩
  rw [hev]
  intro e he
  simp only [List.mem_cons, List.not_mem_nil, or_false] at he
  rcases he with rfl | rfl
  · exact wfEvP_of_ci (by decide) _ hp
  · exact wfEvP_of_ci (by decide) _ hci


theorem mem3 {a z : Ev} {evs : List Ev} (h1 : wfEvP a = true) (h2 : ∀ e ∈ evs, wfEvP e = true)
    (h3 : wfEvP z = true) : ∀ e ∈ [a] ++ evs ++ [z], wfEvP e = true := by
  intro e he
  simp only [List.mem_append, List.mem_cons, List.not_mem_nil, or_false] at he
  rcases he with (rfl | he) | rfl
  · exact h1
  · exact h2 e he
  · exact h3

theorem mem2 {a z : Ev} (h1 : wfEvP a = true) (h3 : wfEvP z = true) : ∀ e ∈ [a, z], wfEvP e = true := by
  intro e he
  simp only [List.mem_cons, List.not_mem_nil, or_false] at he
  rcases he with rfl | rfl
  · exact h1
  · exact h3

theorem nil_wf : ∀ e ∈ ([] : List Ev), wfEvP e = true := fun _ h => by cases h

theorem ipv4Repl_wf {cfg : Cfg} {env : Env} {st st' : Table} {ci ci' : ClientInfo} {p : Bytes}
    {evs : List Ev} {r : Option Bytes} (h : ipv4Repl cfg env st ci p = .ok (evs, ci', st', r))
    (hc : wfCi ci = true) (hl : 20 ≤ p.length) : (∀ e ∈ evs, wfEvP e = true) ∧ wfCi ci' = true := by
  unfold ipv4Repl at h
  extract_lets src dst proto ci0 rcv ci1 pl wrap drop at h
  have hsrc : src.length = 4 := slice_length_of_le (by omega)
  have hdst : dst.length = 4 := slice_length_of_le (by omega)
  have h0 : wfCi ci0 = true := by
    simp only [wfCi, Bool.and_eq_true] at hc ⊢
    obtain ⟨⟨⟨⟨⟨⟨h1, h2⟩, h3⟩, h4⟩, h5⟩, h6⟩, h7⟩ := hc
    refine ⟨⟨⟨⟨⟨⟨h1, h2⟩, ?_⟩, ?_⟩, h5⟩, h6⟩, h7⟩ <;> simp [ci0, ipOk, hsrc, hdst]
  have h1 : wfCi ci1 = true := by
    simp only [wfCi, Bool.and_eq_true] at h0 ⊢
    obtain ⟨⟨⟨⟨⟨⟨h1, h2⟩, h3⟩, h4⟩, h5⟩, h6⟩, h7⟩ := h0
    refine ⟨⟨⟨⟨⟨⟨h1, h2⟩, h3⟩, h4⟩, ?_⟩, h6⟩, h7⟩
    simp [ci1, numOk, proto, at8_lt]
  have hr : wfEvP rcv = true := wfEvP_of_ci (by decide) _ h0
  clear_value ci0 ci1
  split_all h
  all_goals try dsimp only [wrap, drop] at h
  all_goals try split at h
  all_goals simp only [Except.ok.injEq, Prod.mk.injEq, reduceCtorEq] at h
  all_goals obtain ⟨rfl, rfl, _, _⟩ := h
  all_goals first
    | exact ⟨mem2 hr (wfEvP_of_ci (by decide) _ h0), h0⟩
    | exact ⟨mem3 hr nil_wf (wfEvP_of_ci (by decide) _ h1), h1⟩
    | exact ⟨mem3 hr (icmp4Repl_wf ‹icmp4Repl _ _ = _› h1) (wfEvP_of_ci (by decide) _ h1), h1⟩
    | (have hx := tcpRepl_wf ‹tcpRepl _ _ _ _ _ = _› h1
       obtain ⟨ha, hb⟩ := hx
       exact ⟨mem3 hr ha (wfEvP_of_ci (by decide) _ hb), hb⟩)
    | (have hx := udpRepl_wf ‹udpRepl _ _ _ _ = _› h1
       obtain ⟨ha, hb⟩ := hx
       exact ⟨mem3 hr ha (wfEvP_of_ci (by decide) _ hb), hb⟩)

theorem ipv6Repl_wf {cfg : Cfg} {env : Env} {st st' : Table} {ci ci' : ClientInfo} {p : Bytes}
    {evs : List Ev} {r : Option Bytes} (h : ipv6Repl cfg env st ci p = .ok (evs, ci', st', r))
    (hc : wfCi ci = true) (hl : 40 ≤ p.length) : (∀ e ∈ evs, wfEvP e = true) ∧ wfCi ci' = true := by
  unfold ipv6Repl at h
  extract_lets src dst nh ci0 rcv ci1 pl wrap drop at h
  have hsrc : src.length = 16 := slice_length_of_le (by omega)
  have hdst : dst.length = 16 := slice_length_of_le (by omega)
  have h0 : wfCi ci0 = true := by
    simp only [wfCi, Bool.and_eq_true] at hc ⊢
    obtain ⟨⟨⟨⟨⟨⟨h1, h2⟩, h3⟩, h4⟩, h5⟩, h6⟩, h7⟩ := hc
    refine ⟨⟨⟨⟨⟨⟨h1, h2⟩, ?_⟩, ?_⟩, h5⟩, h6⟩, h7⟩ <;> simp [ci0, ipOk, hsrc, hdst]
  have h1 : wfCi ci1 = true := by
    simp only [wfCi, Bool.and_eq_true] at h0 ⊢
    obtain ⟨⟨⟨⟨⟨⟨h1, h2⟩, h3⟩, h4⟩, h5⟩, h6⟩, h7⟩ := h0
    refine ⟨⟨⟨⟨⟨⟨h1, h2⟩, h3⟩, h4⟩, ?_⟩, h6⟩, h7⟩
    simp [ci1, numOk, nh, at8_lt]
  have hr : wfEvP rcv = true := wfEvP_of_ci (by decide) _ h0
  clear_value ci0 ci1
  split_all h
  all_goals try dsimp only [wrap, drop] at h
  all_goals try split at h
  all_goals simp only [Except.ok.injEq, Prod.mk.injEq, reduceCtorEq] at h
  all_goals obtain ⟨rfl, rfl, _, _⟩ := h
  all_goals first
    | exact ⟨mem2 hr (wfEvP_of_ci (by decide) _ h0), h0⟩
    | exact ⟨mem3 hr nil_wf (wfEvP_of_ci (by decide) _ h1), h1⟩
    | exact ⟨mem3 hr (icmp6Repl_wf ‹icmp6Repl _ _ _ = _› h1) (wfEvP_of_ci (by decide) _ h1), h1⟩
    | (have hx := tcpRepl_wf ‹tcpRepl _ _ _ _ _ = _› h1
       obtain ⟨ha, hb⟩ := hx
       exact ⟨mem3 hr ha (wfEvP_of_ci (by decide) _ hb), hb⟩)
    | (have hx := udpRepl_wf ‹udpRepl _ _ _ _ = _› h1
       obtain ⟨ha, hb⟩ := hx
       exact ⟨mem3 hr ha (wfEvP_of_ci (by decide) _ hb), hb⟩)

/-! ### ARP, Ethernet, `step` -/

theorem arpCi_wf (sha tha spa tpa : Bytes) (op : Nat) (h1 : sha.length = 6) (h2 : tha.length = 6)
    (h3 : spa.length = 4) (h4 : tpa.length = 4) (h5 : op < 65536) (v : Verb) :
    wfEvP (ev .arp v (arpCi sha tha spa tpa op)) = true := by
  simp [wfEvP, wfTextP, arpOk, ev, arpCi, macOk, ipOk, isV4, numOk, h1, h2, h3, h4, h5]

theorem arpRepl_wf {cfg : Cfg} {p : Bytes} {evs : List Ev} {r : Option Bytes}
    (h : arpRepl cfg p = (evs, r)) (hm : cfg.mac.length = 6) (hl : 28 ≤ p.length) :
    ∀ e ∈ evs, wfEvP e = true := by
  unfold arpRepl at h
  extract_lets op sha spa tha tpa rcv at h
  have h1 : sha.length = 6 := slice_length_of_le (by omega)
  have h2 : tha.length = 6 := slice_length_of_le (by omega)
  have h3 : spa.length = 4 := slice_length_of_le (by omega)
  have h4 : tpa.length = 4 := slice_length_of_le (by omega)
  have h5 : op < 65536 := rdBE_slice_lt2 p 6
  have hr : wfEvP rcv = true := arpCi_wf _ _ _ _ _ h1 h2 h3 h4 h5 _
  split_all h
  all_goals (cases h; refine mem2 hr (arpCi_wf _ _ _ _ _ h1 (by assumption) h3 h4 (by first | exact h5 | decide) _))

theorem ethRepl_wf {cfg : Cfg} {env : Env} {st st' : Table} {f : Bytes} {evs : List Ev}
    {r : Option Bytes} (hf : 14 ≤ f.length) (hm : cfg.mac.length = 6)
    (h : ethRepl cfg env st f = .ok (evs, st', r)) : ∀ e ∈ evs, wfEvP e = true := by
  unfold ethRepl at h
  extract_lets dstM srcM ety ci rcv pl wrap drop at h
  have hd : dstM.length = 6 := slice_length_of_le (by omega)
  have hs : srcM.length = 6 := slice_length_of_le (by omega)
  have h0 : wfCi ci = true := by simp [ci, wfCi, macOk, ipOk, numOk, hd, hs]
  have hr : wfEvP rcv = true := wfEvP_of_ci (by decide) _ h0
  clear_value ci
  split_all h
  all_goals try dsimp only [wrap, drop] at h
  all_goals simp only [Except.ok.injEq, Prod.mk.injEq, reduceCtorEq] at h
  all_goals obtain ⟨rfl, _, _⟩ := h
  all_goals first
    | exact mem3 hr nil_wf (wfEvP_of_ci (by decide) _ h0)
    | exact mem3 hr (arpRepl_wf ‹arpRepl _ _ = _› hm (by show 28 ≤ pl.length; omega)) (wfEvP_of_ci (by decide) _ h0)
    | (have hx := ipv4Repl_wf ‹ipv4Repl _ _ _ _ _ = _› h0 (by show 20 ≤ pl.length; omega)
       obtain ⟨ha, hb⟩ := hx
       exact mem3 hr ha (wfEvP_of_ci (by decide) _ hb))
    | (have hx := ipv6Repl_wf ‹ipv6Repl _ _ _ _ _ = _› h0 (by show 40 ≤ pl.length; omega)
       obtain ⟨ha, hb⟩ := hx
       exact mem3 hr ha (wfEvP_of_ci (by decide) _ hb))

/-- every event of a processed frame is well-formed -/
theorem step_events_wf_P (cfg : Cfg) (env : Env) (st : Table) (f : Bytes) (o : Option Bytes)
    (hm : cfg.mac.length = 6) (h : (step cfg env st f).out = .ok o) :
    ∀ e ∈ (step cfg env st f).evs, wfEvP e = true := by
  unfold step at h ⊢
  by_cases hlt : f.length < 14
  · rw [if_pos hlt]; exact nil_wf
  · rw [if_neg hlt] at h ⊢
    cases heq : ethRepl cfg env st f with
    | error e => simp [heq] at h
    | ok x =>
      obtain ⟨evs, st', r⟩ := x
      simp only []
      exact ethRepl_wf (by omega) hm heq

end Masscanned.C20Text
