/-
  Proofs/C20Text/Logfmt2 — `parseLogfmt` on every logfmt line of Model/Logger.
-/
import Masscanned.Proofs.C20Text.Logfmt
namespace Masscanned.C20Text
open Masscanned Spec.LogText Gen

/-- the reader on a non-ARP line, given what its items are -/
theorem parseLogfmt_fields (line : Bytes) (kvs : List (Bytes × Bytes)) (l : Layer) (v : Verb)
    (ms md : Option Bytes) (is i4 : Option Ip) (tr ps pd : Option Nat)
    (h : (((splitAt 32 line).filter (fun i => !i.isEmpty)).map parseKv) = kvs.map some)
    (hnd : (kvs.map (·.1)).Nodup)
    (h3 : (kvs.map (·.1)).take 3 = [ascii "ts", ascii "proto", ascii "verb"])
    (hts : isTimestamp (lookupB kvs (ascii "ts")) = true)
    (hL : parseLayerText (lookupB kvs (ascii "proto")) = some l) (hl : l ≠ .arp)
    (hV : parseVerbText (lookupB kvs (ascii "verb")) = some v)
    (f1 : optField parseMac (lookupB kvs (ascii "mac_src")) = some ms)
    (f2 : optField parseMac (lookupB kvs (ascii "mac_dst")) = some md)
    (f3 : optField parseIpText (lookupB kvs (ascii "ip_src")) = some is)
    (f4 : optField parseIpText (lookupB kvs (ascii "ip_dst")) = some i4)
    (f5 : parseTransport (lookupB kvs (ascii "transport")) = some tr)
    (f6 : optField parseDec (lookupB kvs (ascii "port_src")) = some ps)
    (f7 : optField parseDec (lookupB kvs (ascii "port_dst")) = some pd) :
    parseLogfmt line = some (mkEv l v ms md is i4 tr ps pd) := by
  unfold parseLogfmt
  have h1 : (kvs.map some).all (·.isSome) = true := by simp
  have h2 : (kvs.map some).filterMap id = kvs := by simp
  have h4 : (kvs.map (·.1)).eraseDups.length = (kvs.map (·.1)).length := by rw [eraseDups_nodup _ hnd]
  simp only [ascii] at h3
  simp only [h, h1, h2, h3, h4, lookupKv_eq, hts, hL, hV, f1, f2, f3, f4, f5, f6, f7, Bool.not_true,
    Bool.false_eq_true, if_false, ne_eq, not_true_eq_false]

/-- the reader on an ARP line -/
theorem parseLogfmt_arp (line : Bytes) (kvs : List (Bytes × Bytes)) (v : Verb) (sha tha spa tpa : Bytes) (n : Nat)
    (h : (((splitAt 32 line).filter (fun i => !i.isEmpty)).map parseKv) = kvs.map some)
    (hnd : (kvs.map (·.1)).Nodup)
    (h3 : (kvs.map (·.1)).take 3 = [ascii "ts", ascii "proto", ascii "verb"])
    (hts : isTimestamp (lookupB kvs (ascii "ts")) = true)
    (hL : parseLayerText (lookupB kvs (ascii "proto")) = some .arp)
    (hV : parseVerbText (lookupB kvs (ascii "verb")) = some v)
    (f1 : parseMac (lookupB kvs (ascii (if v = .send then "mac_dst" else "mac_src"))) = some sha)
    (f2 : parseMac (lookupB kvs (ascii (if v = .send then "mac_src" else "mac_dst"))) = some tha)
    (f3 : parseV4Text (lookupB kvs (ascii (if v = .send then "ip_dst" else "ip_src"))) = some spa)
    (f4 : parseV4Text (lookupB kvs (ascii (if v = .send then "ip_src" else "ip_dst"))) = some tpa)
    (f5 : parseWrapped "ArpOperation" (lookupB kvs (ascii "op")) = some n) :
    parseLogfmt line =
      some (mkEv .arp v (some sha) (some tha) (some (.v4 spa)) (some (.v4 tpa)) (some n) none none) := by
  unfold parseLogfmt
  have h1 : (kvs.map some).all (·.isSome) = true := by simp
  have h2 : (kvs.map some).filterMap id = kvs := by simp
  have h4 : (kvs.map (·.1)).eraseDups.length = (kvs.map (·.1)).length := by rw [eraseDups_nodup _ hnd]
  simp only [ascii] at h3
  by_cases hv : v = .send
  · simp only [hv, if_true] at f1 f2 f3 f4
    simp only [h, h1, h2, h3, h4, lookupKv_eq, hts, hL, hV, hv, f1, f2, f3, f4, f5, Bool.not_true,
      Bool.false_eq_true, if_false, if_true, ne_eq, not_true_eq_false]
  · simp only [hv, if_false] at f1 f2 f3 f4
    simp only [h, h1, h2, h3, h4, lookupKv_eq, hts, hL, hV, hv, f1, f2, f3, f4, f5, Bool.not_true,
      Bool.false_eq_true, if_false, ne_eq, not_true_eq_false]


/-! ### the items of a logfmt line of the model -/

def headK (ts L V : Bytes) : List (Bytes × Option Bytes) :=
  [(ascii "ts", some ts), (ascii "proto", some L), (ascii "verb", some V)]

def ciK (c : ClientInfo) : List (Bytes × Option Bytes) := (ciCols c).map (fun p => (ascii p.1, p.2))

def exK (f r : Bytes) (e : Ev) : List (Bytes × Option Bytes) :=
  (extraCols f r e).map (fun p => (ascii p.1, some p.2))

theorem headK_ok (ts L V : Bytes) (tts : Tok ts) (tL : Tok L) (tV : Tok V) : KOk (headK ts L V) := by
  intro p hp
  simp only [headK, List.mem_cons, List.not_mem_nil, or_false] at hp
  rcases hp with rfl | rfl | rfl
  · exact ⟨by dsimp only; decide +kernel, fun v hv => by cases hv; exact tts⟩
  · exact ⟨by dsimp only; decide +kernel, fun v hv => by cases hv; exact tL⟩
  · exact ⟨by dsimp only; decide +kernel, fun v hv => by cases hv; exact tV⟩

theorem KOk.append {K1 K2 : List (Bytes × Option Bytes)} (h1 : KOk K1) (h2 : KOk K2) : KOk (K1 ++ K2) := by
  intro p hp
  rcases List.mem_append.mp hp with h | h
  · exact h1 p h
  · exact h2 p h

theorem ciK_ok (c : ClientInfo) : KOk (ciK c) := by
  intro p hp
  simp only [ciK, List.mem_map] at hp
  obtain ⟨q, hq, rfl⟩ := hp
  refine ⟨ciCols_keys c q hq, fun v hv => ?_⟩
  have := ciCols_tok c q hq
  simp only at hv
  rw [hv] at this
  exact this

theorem exK_ok (f r : Bytes) (e : Ev) : KOk (exK f r e) := by
  intro p hp
  simp only [exK, List.mem_map] at hp
  obtain ⟨q, hq, rfl⟩ := hp
  exact ⟨extraCols_keys f r e q hq, fun v hv => by cases hv; exact extraCols_tok f r e q hq⟩

theorem logfmt_items (ts L V : Bytes) (K : List (Bytes × Option Bytes)) (hK : KOk K)
    (tts : Tok ts) (tL : Tok L) (tV : Tok V) :
    ((splitAt 32 (lineOf (ascii "ts" ++ 61 :: ts)
        ([ascii "proto" ++ 61 :: L, ascii "verb" ++ 61 :: V, []] ++ itemsOf K))).filter
          (fun i => !i.isEmpty)).map parseKv = (present (headK ts L V ++ K)).map some := by
  have hh := headK_ok ts L V tts tL tV
  obtain ⟨a1, a2, a3⟩ := items_facts (headK ts L V ++ K) (hh.append hK)
  obtain ⟨b1, b2, _⟩ := items_facts K hK
  have hitems : itemsOf (headK ts L V ++ K) =
      (ascii "ts" ++ 61 :: ts) :: (ascii "proto" ++ 61 :: L) :: (ascii "verb" ++ 61 :: V) :: itemsOf K := by
    rw [itemsOf_append]; simp [headK, itemsOf, present]
  rw [hitems] at a1 a2 a3
  rw [splitAt_lineOf _ _ (a1 _ (by simp)) (by
    intro i hi
    simp only [List.cons_append, List.nil_append, List.mem_cons] at hi
    rcases hi with rfl | rfl | rfl | hi
    · exact a1 _ (by simp)
    · exact a1 _ (by simp)
    · simp
    · exact b1 i hi)]
  rw [← a3]
  have e1 : (ascii "ts" ++ 61 :: ts).isEmpty = false := by cases hts : ascii "ts" ++ 61 :: ts <;> simp_all
  have e2 : (ascii "proto" ++ 61 :: L).isEmpty = false := by cases hts : ascii "proto" ++ 61 :: L <;> simp_all
  have e3 : (ascii "verb" ++ 61 :: V).isEmpty = false := by cases hts : ascii "verb" ++ 61 :: V <;> simp_all
  simp only [List.cons_append, List.nil_append, List.filter_cons, e1, e2, e3, Bool.not_false, if_true,
    List.isEmpty_nil, Bool.not_true, Bool.false_eq_true, if_false, b2]

theorem foldr_optKv (l : List (String × Option Bytes)) :
    l.foldr (fun c acc => optKv c.1 c.2 ++ acc) [] =
      ((itemsOf (l.map (fun p => (ascii p.1, p.2)))).map (fun i => 32 :: i)).flatten := by
  induction l with
  | nil => rfl
  | cons c t ih =>
    obtain ⟨k, o⟩ := c
    rw [List.foldr_cons, ih]
    cases o with
    | none => simp [optKv, itemsOf, present]
    | some v => simp [optKv, kvB, itemsOf, present]

theorem foldr_kvB (l : List (String × Bytes)) :
    l.foldr (fun c acc => kvB c.1 c.2 ++ acc) [] =
      ((itemsOf (l.map (fun p => (ascii p.1, some p.2)))).map (fun i => 32 :: i)).flatten := by
  induction l with
  | nil => rfl
  | cons c t ih =>
    obtain ⟨k, v⟩ := c
    rw [List.foldr_cons, ih]
    simp [kvB, itemsOf, present]

theorem ascii_ts_eq : ascii "ts=" = ascii "ts" ++ [61] := by decide +kernel
theorem ascii_proto_eq : ascii "proto=" = ascii "proto" ++ [61] := by decide +kernel
theorem ascii_verb_eq : ascii " verb=" = 32 :: (ascii "verb" ++ [61]) := by decide +kernel

theorem logfmt_line_nonarp (ts f r : Bytes) (e : Ev) (ha : e.layer ≠ .arp) :
    ascii "ts=" ++ ts ++ [32] ++ logfmtBody f r e =
      lineOf (ascii "ts" ++ 61 :: ts)
        ([ascii "proto" ++ 61 :: layerText e.layer, ascii "verb" ++ 61 :: verbText e.verb, []] ++
          itemsOf (ciK e.ci ++ exK f r e)) := by
  unfold logfmtBody
  simp only [ha, if_false]
  rw [foldr_optKv, foldr_kvB, itemsOf_append, ascii_ts_eq, ascii_proto_eq, ascii_verb_eq]
  simp [lineOf, ciK, exK]

end Masscanned.C20Text
