/-
  Proofs/C20Text/V6 — `parseV6Text` reads back the RFC 5952 text produced by `showV6`
  (all three shapes: `::ffff:a.b.c.d`, one `::` for the longest zero run, eight plain groups).
-/
import Masscanned.Proofs.C20Text.Fields
import Masscanned.Proofs.C16.Ip
namespace Masscanned.C20Text
open Masscanned Spec.LogText

/-! ### hexadecimal groups -/

def hexStep (a : Option Nat) (d : UInt8) : Option Nat :=
  match a, hexVal d with
  | some a, some v => some (a * 16 + v)
  | _, _ => none

theorem hexVal_dch : ∀ d, d < 16 → hexVal (dch d) = some d := by decide

theorem hexFold_digits (n : Nat) : (digitsB 16 n).foldl hexStep (some 0) = some n := by
  induction n using Nat.strongRecOn with
  | _ n ih =>
    rw [digitsB_eq 16 (by omega)]
    split
    · rename_i h
      simp only [List.foldl_cons, List.foldl_nil, hexStep, hexVal_dch n h]; simp
    · rename_i h
      rw [List.foldl_append, ih (n / 16) (by omega)]
      simp only [List.foldl_cons, List.foldl_nil, hexStep, hexVal_dch _ (Nat.mod_lt n (by omega : 0 < 16))]
      congr 1; omega

theorem hexNoPad_ne_nil (x : Nat) : hexNoPad x ≠ [] := by
  rw [hexNoPad_eq]; exact digitsB_ne_nil 16 (by omega) x

theorem hexNoPad_len (x : Nat) (h : x < 65536) : (hexNoPad x).length ≤ 4 := by
  rw [hexNoPad_eq]; unfold digitsB; rw [List.length_map]
  exact (Nat.length_toDigits_le_iff (by omega) (by omega)).2 (by simpa using h)

theorem parseHex4_hexNoPad (x : Nat) (h : x < 65536) : parseHex 4 (hexNoPad x) = some x := by
  unfold parseHex
  have h1 := hexNoPad_ne_nil x
  have h3 : (hexNoPad x).isEmpty = false := by
    cases hh : hexNoPad x with
    | nil => exact absurd hh h1
    | cons _ _ => rfl
  have h4 : ¬ (hexNoPad x).length > 4 := by have := hexNoPad_len x h; omega
  rw [h3]
  simp only [Bool.false_or, decide_eq_true_eq, if_neg h4]
  have := hexFold_digits x
  rw [← hexNoPad_eq] at this
  exact this

theorem hexNoPad_tok (x : Nat) : Tok (hexNoPad x) := by
  rw [hexNoPad_eq]; exact digitsB_tok 16 (by omega) (by omega) x

theorem hexNoPad_no_colon (x : Nat) : (58 : UInt8) ∉ hexNoPad x := by
  rw [hexNoPad_eq]
  intro hm
  exact digitsB_all 16 (by omega) (fun x => x ≠ 58) (fun d hd => dch_ne_colon d hd) x 58 hm rfl

theorem hexNoPad_no_dot (x : Nat) : (46 : UInt8) ∉ hexNoPad x := by
  rw [hexNoPad_eq]
  intro hm
  exact digitsB_all 16 (by omega) (fun x => x ≠ 46) (fun d hd => dch_ne_dot d hd) x 46 hm rfl

/-! ### colon-joined groups -/

theorem joinColon_nil : joinColon [] = [] := rfl
theorem joinColon_single (x : Nat) : joinColon [x] = hexNoPad x := rfl

theorem joinColon_cons_cons (x y : Nat) (t : List Nat) :
    joinColon (x :: y :: t) = hexNoPad x ++ 58 :: joinColon (y :: t) := by
  rw [C16.joinColon_eq, C16.joinColon_eq, C16.specJoin_cons, C16.specJoin_cons]
  simp

theorem joinColon_head (y : Nat) (t : List Nat) : ∃ c r, joinColon (y :: t) = c :: r ∧ c ≠ 58 := by
  have hne := hexNoPad_ne_nil y
  have hnc := hexNoPad_no_colon y
  cases hh : hexNoPad y with
  | nil => exact absurd hh hne
  | cons c r =>
    have hc : c ≠ 58 := by intro e; apply hnc; rw [hh, e]; simp
    cases t with
    | nil => exact ⟨c, r, by rw [joinColon_single, hh], hc⟩
    | cons z t => exact ⟨c, r ++ 58 :: joinColon (z :: t), by rw [joinColon_cons_cons, hh]; rfl, hc⟩

theorem joinColon_ne_nil (y : Nat) (t : List Nat) : joinColon (y :: t) ≠ [] := by
  obtain ⟨c, r, h, _⟩ := joinColon_head y t
  rw [h]; simp

theorem joinColon_tok (l : List Nat) : Tok (joinColon l) := by
  induction l with
  | nil => exact .nil
  | cons x t ih =>
    cases t with
    | nil => exact hexNoPad_tok x
    | cons y t =>
      rw [joinColon_cons_cons]
      exact (hexNoPad_tok x).append (Tok.cons (by decide) ih)

theorem joinColon_no_dot (l : List Nat) : (46 : UInt8) ∉ joinColon l := by
  induction l with
  | nil => simp [joinColon_nil]
  | cons x t ih =>
    cases t with
    | nil => exact hexNoPad_no_dot x
    | cons y t =>
      rw [joinColon_cons_cons]
      simp only [List.mem_append, List.mem_cons, not_or]
      exact ⟨hexNoPad_no_dot x, by decide, ih⟩

theorem splitAt_joinColon (x : Nat) (t : List Nat) :
    splitAt 58 (joinColon (x :: t)) = (x :: t).map hexNoPad := by
  induction t generalizing x with
  | nil => rw [joinColon_single, splitAt_no_sep (hexNoPad_no_colon x)]; rfl
  | cons y t ih =>
    rw [joinColon_cons_cons, splitAt_append_sep _ (hexNoPad_no_colon x), ih y]; rfl

/-! ### locating `::` -/

theorem findDouble_cons_ne {a : UInt8} (X : Bytes) (h : a ≠ 58) :
    findDouble (a :: X) = (findDouble X).map (· + 1) := by
  exact findDouble.eq_2 a X (fun _ ha _ => h ha)

theorem findDouble_colon_ne {c : UInt8} (r : Bytes) (h : c ≠ 58) :
    findDouble (58 :: c :: r) = (findDouble (c :: r)).map (· + 1) := by
  refine findDouble.eq_2 58 (c :: r) (fun t _ he => ?_)
  simp only [List.cons.injEq] at he
  exact h he.1

theorem findDouble_colon_colon (X : Bytes) : findDouble (58 :: 58 :: X) = some 0 := by
  rw [findDouble]

theorem findDouble_skip {h : Bytes} (r : Bytes) (hh : (58 : UInt8) ∉ h) :
    findDouble (h ++ r) = (findDouble r).map (· + h.length) := by
  induction h with
  | nil =>
    simp only [List.nil_append, List.length_nil, Nat.add_zero]
    cases findDouble r <;> rfl
  | cons a t ih =>
    have ha : a ≠ 58 := fun e => hh (by simp [e])
    have ht : (58 : UInt8) ∉ t := fun e => hh (by simp [e])
    rw [List.cons_append, findDouble_cons_ne _ ha, ih ht]
    cases findDouble r <;> simp; omega


theorem findDouble_joinColon (l : List Nat) : findDouble (joinColon l) = none := by
  induction l with
  | nil => rfl
  | cons x t ih =>
    cases t with
    | nil =>
      have := findDouble_skip [] (hexNoPad_no_colon x)
      rw [List.append_nil] at this
      rw [joinColon_single, this]; rfl
    | cons y t =>
      obtain ⟨c, r, hcr, hc⟩ := joinColon_head y t
      rw [joinColon_cons_cons, findDouble_skip _ (hexNoPad_no_colon x), hcr, findDouble_colon_ne _ hc,
        ← hcr, ih]; rfl

/-- the first `::` of `L :: R` is right after the groups `L` -/
theorem findDouble_joinColon_dbl (l : List Nat) (X : Bytes) :
    findDouble (joinColon l ++ 58 :: 58 :: X) = some (joinColon l).length := by
  induction l with
  | nil => exact findDouble_colon_colon X
  | cons x t ih =>
    cases t with
    | nil =>
      rw [joinColon_single, findDouble_skip _ (hexNoPad_no_colon x), findDouble_colon_colon]; simp
    | cons y t =>
      obtain ⟨c, r, hcr, hc⟩ := joinColon_head y t
      rw [joinColon_cons_cons, List.append_assoc, findDouble_skip _ (hexNoPad_no_colon x), List.cons_append,
        hcr, List.cons_append, findDouble_colon_ne _ hc, ← List.cons_append, ← hcr, ih]
      simp; omega

/-! ### the groups of one side -/

theorem isEmpty_false_of_ne_nil {b : Bytes} (h : b ≠ []) : b.isEmpty = false := by
  cases b with
  | nil => exact absurd rfl h
  | cons _ _ => rfl

theorem contains_false_of_not_mem {b : Bytes} {x : UInt8} (h : x ∉ b) : b.contains x = false := by
  cases hc : b.contains x with
  | false => rfl
  | true => exact absurd (List.contains_iff_mem.mp hc) h

theorem contains_true_of_mem {b : Bytes} {x : UInt8} (h : x ∈ b) : b.contains x = true :=
  List.contains_iff_mem.mpr h

theorem v6Groups_joinColon (l : List Nat) (hl : ∀ x ∈ l, x < 65536) : v6Groups (joinColon l) = some l := by
  cases l with
  | nil => rfl
  | cons x t =>
    unfold v6Groups
    rw [isEmpty_false_of_ne_nil (joinColon_ne_nil x t)]
    simp only [Bool.false_eq_true, if_false]
    rw [splitAt_joinColon]
    obtain ⟨l', z, hz⟩ : ∃ l' z, x :: t = l' ++ [z] := by
      rcases List.eq_nil_or_concat (x :: t) with h | ⟨l', z, h⟩
      · cases h
      · exact ⟨l', z, by rw [h]; simp⟩
    rw [hz] at hl ⊢
    rw [List.map_append, List.map_cons, List.map_nil, List.dropLast_concat, List.getLast?_concat]
    simp only [Option.getD_some]
    rw [contains_false_of_not_mem (hexNoPad_no_dot z)]
    simp only [Bool.false_eq_true, if_false]
    rw [parseHex4_hexNoPad z (hl z (by simp))]
    have hfg : (l'.map hexNoPad).map (parseHex 4) = l'.map some := by
      rw [List.map_map]
      apply List.map_congr_left
      intro y hy
      exact parseHex4_hexNoPad y (hl y (by simp [hy]))
    rw [hfg]
    simp [Function.comp_def]

/-- the right-hand side of the IPv4-mapped form -/
theorem v6Groups_mapped (q : Bytes) :
    v6Groups ([102, 102, 102, 102, 58] ++ showV4 q) =
      some [65535, at8 q 0 * 256 + at8 q 1, at8 q 2 * 256 + at8 q 3] := by
  unfold v6Groups
  have hs : splitAt 58 ([102, 102, 102, 102, 58] ++ showV4 q) = [[102, 102, 102, 102], showV4 q] := by
    have := splitAt_append_sep (sep := 58) (a := [102, 102, 102, 102]) (showV4 q) (by decide)
    rw [splitAt_no_sep (showV4_no_colon q)] at this
    exact this
  rw [hs]
  simp only [List.cons_append, List.isEmpty_cons, Bool.false_eq_true, if_false, List.dropLast_cons_cons,
    List.dropLast_singleton, List.getLast?_cons_cons, List.getLast?_singleton, Option.getD_some]
  rw [contains_true_of_mem (showV4_has_dot q), if_pos rfl, parseV4_showV4_gen]
  have h4 : parseHex 4 [102, 102, 102, 102] = some 65535 := by decide
  have e : ∀ i, (UInt8.ofNat (at8 q i)).toNat = at8 q i := by
    intro i; rw [ofNat_at8]; rfl
  simp [h4, e]

/-! ### bytes of the groups -/

theorem byte_hi (x y : UInt8) : UInt8.ofNat ((x.toNat * 256 + y.toNat) / 256) = x := by
  have := y.toNat_lt
  rw [show (x.toNat * 256 + y.toNat) / 256 = x.toNat by omega]; exact UInt8.ofNat_toNat

theorem byte_lo (x y : UInt8) : UInt8.ofNat ((x.toNat * 256 + y.toNat) % 256) = y := by
  have := y.toNat_lt
  rw [show (x.toNat * 256 + y.toNat) % 256 = y.toNat by omega]; exact UInt8.ofNat_toNat

theorem groupsToBytes_segments (a : Bytes) (h : a.length = 16) : groupsToBytes (v6Segments a) = a := by
  match a, h with
  | [a0, a1, a2, a3, a4, a5, a6, a7, a8, a9, a10, a11, a12, a13, a14, a15], _ =>
    simp [groupsToBytes, v6Segments, List.range, List.range.loop, at8, byte_hi]

end Masscanned.C20Text
