/-
  Proofs/C20Text/Logfmt3 — every logfmt line of Model/Logger is read back.
-/
import Masscanned.Proofs.C20Text.Logfmt2
namespace Masscanned.C20Text
open Masscanned Spec.LogText Gen

def baseKeys : List Bytes :=
  [ascii "ts", ascii "proto", ascii "verb", ascii "mac_src", ascii "mac_dst", ascii "ip_src", ascii "ip_dst",
   ascii "transport", ascii "port_src", ascii "port_dst"]

def extraKeys : Layer → List Bytes
  | .eth => [ascii "eth_type"]
  | .ipv4 => [ascii "next_proto"]
  | .ipv6 => [ascii "next_proto"]
  | .icmpv4 => [ascii "icmp_type", ascii "icmp_code"]
  | .icmpv6 => [ascii "icmpv6_type", ascii "icmpv6_code"]
  | .tcp => [ascii "flags", ascii "seq", ascii "ack"]
  | .udp => []
  | .arp => []

theorem extra_keys (f r : Bytes) (e : Ev) : (exK f r e).map (·.1) = extraKeys e.layer := by
  unfold exK extraCols
  cases e.layer <;> rfl

theorem keys_nodup (l : Layer) : (baseKeys ++ extraKeys l).Nodup := by
  cases l <;> decide +kernel

theorem all_keys (ts L V f r : Bytes) (e : Ev) :
    (headK ts L V ++ (ciK e.ci ++ exK f r e)).map (·.1) = baseKeys ++ extraKeys e.layer := by
  rw [List.map_append, List.map_append, extra_keys]
  rfl

theorem logfmt_roundtrip_nonarp (ts f r : Bytes) (e : Ev) (hts : isTimestamp ts = true)
    (hwf : wfTextP e = true) (ha : e.layer ≠ .arp) :
    parseLogfmt (ascii "ts=" ++ ts ++ [32] ++ logfmtBody f r e) = some (canonP e) := by
  simp only [wfTextP, Bool.and_eq_true] at hwf
  obtain ⟨⟨⟨⟨m1, m2⟩, i1⟩, i2⟩, _⟩ := hwf
  rw [logfmt_line_nonarp ts f r e ha]
  have hitems := logfmt_items ts (layerText e.layer) (verbText e.verb) (ciK e.ci ++ exK f r e)
    ((ciK_ok _).append (exK_ok f r e)) (timestamp_tok hts) (layerText_tok _) (verbText_tok _)
  generalize hK : headK ts (layerText e.layer) (verbText e.verb) ++ (ciK e.ci ++ exK f r e) = K at hitems
  have hkeys : K.map (·.1) = baseKeys ++ extraKeys e.layer := by rw [← hK]; exact all_keys _ _ _ f r e
  have hnd : (K.map (·.1)).Nodup := by rw [hkeys]; exact keys_nodup _
  have look : ∀ k o, (k, o) ∈ K → lookupB (present K) k = o.getD [] := fun k o h => lookup_present K hnd k o h
  have mem : ∀ p, p ∈ headK ts (layerText e.layer) (verbText e.verb) ++ ciK e.ci → p ∈ K := by
    intro p hp; rw [← hK, ← List.append_assoc]; exact List.mem_append_left _ hp
  have l0 := look (ascii "ts") (some ts) (mem _ (by simp [headK]))
  have l1 := look (ascii "proto") (some (layerText e.layer)) (mem _ (by simp [headK]))
  have l2 := look (ascii "verb") (some (verbText e.verb)) (mem _ (by simp [headK]))
  have l3 := look (ascii "mac_src") (e.ci.macSrc.map showMac) (mem _ (by simp [ciK, ciCols]))
  have l4 := look (ascii "mac_dst") (e.ci.macDst.map showMac) (mem _ (by simp [ciK, ciCols]))
  have l5 := look (ascii "ip_src") (e.ci.ipSrc.map showIp) (mem _ (by simp [ciK, ciCols]))
  have l6 := look (ascii "ip_dst") (e.ci.ipDst.map showIp) (mem _ (by simp [ciK, ciCols]))
  have l7 := look (ascii "transport") (e.ci.transport.map showIpProto) (mem _ (by simp [ciK, ciCols]))
  have l8 := look (ascii "port_src") (e.ci.portSrc.map natDec) (mem _ (by simp [ciK, ciCols]))
  have l9 := look (ascii "port_dst") (e.ci.portDst.map natDec) (mem _ (by simp [ciK, ciCols]))
  have h3 : ((present K).map (·.1)).take 3 = [ascii "ts", ascii "proto", ascii "verb"] := by
    rw [← hK]; simp [headK, present]
  rw [parseLogfmt_fields _ (present K) e.layer e.verb e.ci.macSrc e.ci.macDst e.ci.ipSrc e.ci.ipDst
    (e.ci.transport.bind protoBack) e.ci.portSrc e.ci.portDst hitems (present_keys_nodup K hnd) h3
    (by rw [l0]; exact hts) (by rw [l1]; exact parseLayer_layerText _) ha
    (by rw [l2]; exact parseVerb_verbText _)
    (by rw [l3]; exact optField_mac _ m1) (by rw [l4]; exact optField_mac _ m2)
    (by rw [l5]; exact optField_ip _ i1) (by rw [l6]; exact optField_ip _ i2)
    (by rw [l7]; exact transport_col _) (by rw [l8]; exact optField_dec _) (by rw [l9]; exact optField_dec _)]
  simp only [mkEv, canonP, ha, if_false]


/-! ### ARP lines -/

def arpKeyNames (v : Verb) : List String :=
  if v = .send then ["mac_dst", "mac_src", "ip_dst", "ip_src", "op"] else ["mac_src", "mac_dst", "ip_src", "ip_dst", "op"]

def arpK (v : Verb) (cols : List Bytes) : List (Bytes × Option Bytes) :=
  ((arpKeyNames v).zip cols).map (fun p => (ascii p.1, some p.2))

theorem logfmt_line_arp (ts f r : Bytes) (e : Ev) (ha : e.layer = .arp) :
    ascii "ts=" ++ ts ++ [32] ++ logfmtBody f r e =
      lineOf (ascii "ts" ++ 61 :: ts)
        ([ascii "proto" ++ 61 :: layerText .arp, ascii "verb" ++ 61 :: verbText e.verb, []] ++
          itemsOf (arpK e.verb (arpCols e))) := by
  unfold logfmtBody
  simp only [ha, if_true]
  rw [foldr_kvB, ascii_ts_eq, ascii_proto_eq, ascii_verb_eq]
  simp [lineOf, arpK, arpKeyNames]

theorem arp_keys_nodup (v : Verb) :
    ([ascii "ts", ascii "proto", ascii "verb"] ++ (arpKeyNames v).map ascii).Nodup := by
  cases v <;> decide +kernel

theorem logfmt_roundtrip_arp (ts f r : Bytes) (e : Ev) (hts : isTimestamp ts = true)
    (hwf : wfTextP e = true) (ha : e.layer = .arp) :
    parseLogfmt (ascii "ts=" ++ ts ++ [32] ++ logfmtBody f r e) = some (canonP e) := by
  rw [logfmt_line_arp ts f r e ha]
  obtain ⟨sha, tha, spa, tpa, op, ck, h1, h2, h3, h4, he⟩ := arp_shape hwf ha
  generalize e.verb = v at he ⊢
  subst he
  generalize hc0 : showMac sha = c0
  generalize hc1 : showMac tha = c1
  generalize hc2 : showV4 spa = c2
  generalize hc3 : showV4 tpa = c3
  generalize hc4 : showWrapped "ArpOperation" op = c4
  have hcols : arpCols ⟨.arp, v, ⟨some sha, some tha, some (.v4 spa), some (.v4 tpa), some op, none, none, ck⟩⟩ =
      [c0, c1, c2, c3, c4] := by
    simp [arpCols, optCol, showIp, hc0, hc1, hc2, hc3, hc4]
  rw [hcols]
  have t0 : Tok c0 := hc0 ▸ showMac_tok _
  have t1 : Tok c1 := hc1 ▸ showMac_tok _
  have t2 : Tok c2 := hc2 ▸ showV4_tok _
  have t3 : Tok c3 := hc3 ▸ showV4_tok _
  have t4 : Tok c4 := hc4 ▸ showWrapped_tok _ (tok_of_all (by decide +kernel)) _
  have p0 : parseMac c0 = some sha := hc0 ▸ parseMac_showMac6 _ h1
  have p1 : parseMac c1 = some tha := hc1 ▸ parseMac_showMac6 _ h2
  have p2 : parseV4Text c2 = some spa := hc2 ▸ parseV4_showV4_4 _ h3
  have p3 : parseV4Text c3 = some tpa := hc3 ▸ parseV4_showV4_4 _ h4
  have p4 : parseWrapped "ArpOperation" c4 = some op := hc4 ▸ parseWrapped_showWrapped _ _
  have hok : KOk (arpK v [c0, c1, c2, c3, c4]) := by
    intro p hp
    by_cases hv : v = .send
    all_goals
      simp only [arpK, arpKeyNames, hv, if_true, if_false, List.zip_cons_cons, List.zip_nil_right, List.map_cons,
        List.map_nil, List.mem_cons, List.not_mem_nil, or_false] at hp
      rcases hp with rfl | rfl | rfl | rfl | rfl
    all_goals refine ⟨by dsimp only; decide +kernel, fun x hx => ?_⟩
    all_goals (cases hx; assumption)
  have hitems := logfmt_items ts (layerText .arp) (verbText v) _ hok (timestamp_tok hts) (layerText_tok _)
    (verbText_tok _)
  generalize hK : headK ts (layerText .arp) (verbText v) ++ arpK v [c0, c1, c2, c3, c4] = K at hitems
  have hkeys : K.map (·.1) = [ascii "ts", ascii "proto", ascii "verb"] ++ (arpKeyNames v).map ascii := by
    rw [← hK]
    by_cases hv : v = .send <;> simp [headK, arpK, arpKeyNames, hv]
  have hnd : (K.map (·.1)).Nodup := by rw [hkeys]; exact arp_keys_nodup v
  have look : ∀ k o, (k, o) ∈ K → lookupB (present K) k = o.getD [] := fun k o h => lookup_present K hnd k o h
  have l0 := look (ascii "ts") (some ts) (by rw [← hK]; simp [headK])
  have l1 := look (ascii "proto") (some (layerText .arp)) (by rw [← hK]; simp [headK])
  have l2 := look (ascii "verb") (some (verbText v)) (by rw [← hK]; simp [headK])
  have l3 := look (ascii (if v = .send then "mac_dst" else "mac_src")) (some c0) (by
    rw [← hK]; by_cases hv : v = .send <;> simp [arpK, arpKeyNames, hv])
  have l4 := look (ascii (if v = .send then "mac_src" else "mac_dst")) (some c1) (by
    rw [← hK]; by_cases hv : v = .send <;> simp [arpK, arpKeyNames, hv])
  have l5 := look (ascii (if v = .send then "ip_dst" else "ip_src")) (some c2) (by
    rw [← hK]; by_cases hv : v = .send <;> simp [arpK, arpKeyNames, hv])
  have l6 := look (ascii (if v = .send then "ip_src" else "ip_dst")) (some c3) (by
    rw [← hK]; by_cases hv : v = .send <;> simp [arpK, arpKeyNames, hv])
  have l7 := look (ascii "op") (some c4) (by
    rw [← hK]; by_cases hv : v = .send <;> simp [arpK, arpKeyNames, hv])
  have h3' : ((present K).map (·.1)).take 3 = [ascii "ts", ascii "proto", ascii "verb"] := by
    rw [← hK]; simp [headK, present]
  rw [parseLogfmt_arp _ (present K) v sha tha spa tpa op hitems (present_keys_nodup K hnd) h3'
    (by rw [l0]; exact hts) (by rw [l1]; exact parseLayer_layerText .arp) (by rw [l2]; exact parseVerb_verbText v)
    (by rw [l3]; exact p0) (by rw [l4]; exact p1) (by rw [l5]; exact p2) (by rw [l6]; exact p3)
    (by rw [l7]; exact p4)]
  rfl

theorem logfmt_roundtrip_P (ts f r : Bytes) (e : Ev) (hts : isTimestamp ts = true) (hwf : wfTextP e = true) :
    parseLogfmt (ascii "ts=" ++ ts ++ [32] ++ logfmtBody f r e) = some (canonP e) := by
  by_cases ha : e.layer = .arp
  · exact logfmt_roundtrip_arp ts f r e hts hwf ha
  · exact logfmt_roundtrip_nonarp ts f r e hts hwf ha

end Masscanned.C20Text
