/-
  Proofs/C20Text/Ascii — from `String`/`ByteArray` to byte lists: the UTF-8 bytes of an ASCII string
  are its characters; `natDec` / `hexNoPad` are positional digit strings (`digitsB`).
-/
import Masscanned.Model.Logger
import Masscanned.Model.Rpc
namespace Masscanned.C20Text
open Masscanned

theorem loop_eq (bs : ByteArray) (i : Nat) (r : List UInt8) :
    ByteArray.toList.loop bs i r = r.reverse ++ bs.data.toList.drop i := by
  fun_induction ByteArray.toList.loop bs i r with
  | case1 i r h ih =>
    rw [ih]
    have hi : i < bs.data.toList.length := by simpa using h
    rw [List.drop_eq_getElem_cons hi]
    simp [ByteArray.get!, getElem!_pos, h]
  | case2 i r h =>
    have : bs.data.toList.length ≤ i := by simpa using h
    rw [List.drop_of_length_le this]; simp

theorem ba_toList (bs : ByteArray) : bs.toList = bs.data.toList := by
  simp [ByteArray.toList, loop_eq]

/-- the byte of an ASCII character -/
def c2b (c : Char) : UInt8 := c.val.toUInt8

theorem utf8Size_ascii (c : Char) (h : c.toNat < 128) : c.utf8Size = 1 := by
  unfold Char.utf8Size
  have : c.val.toNat < 128 := h
  have h2 : c.val ≤ 127 := by
    rw [UInt32.le_iff_toNat_le]; simp; omega
  simp [h2]

theorem utf8_ascii (l : List Char) (h : ∀ c ∈ l, c.toNat < 128) :
    (String.ofList l).toUTF8.toList = l.map c2b := by
  rw [ba_toList, String.toUTF8_eq_toByteArray, String.toByteArray_ofList]
  induction l with
  | nil => simp
  | cons c t ih =>
    have hc : c.utf8Size = 1 := utf8Size_ascii c (h c (by simp))
    rw [List.utf8Encode_cons, List.utf8Encode_singleton, String.utf8EncodeChar_eq_singleton hc]
    have := ih (fun c hc => h c (by simp [hc]))
    simp [this, c2b]

/-! ### digit strings -/

/-- the byte printed for digit value `d` (`0-9a-f`) -/
def dch (d : Nat) : UInt8 := c2b (Nat.digitChar d)

/-- positional numeral of `n` in base `b`, as bytes -/
def digitsB (b n : Nat) : Bytes := (Nat.toDigits b n).map c2b

theorem digitChar_ascii : ∀ d, d < 16 → (Nat.digitChar d).toNat < 128 := by decide

theorem toDigits_ascii (b : Nat) (hb : 1 < b) (hb' : b ≤ 16) (n : Nat) :
    ∀ c ∈ Nat.toDigits b n, c.toNat < 128 := by
  induction n using Nat.strongRecOn with
  | _ n ih =>
    rw [Nat.toDigits_eq_if hb]
    split
    · intro c hc
      simp only [List.mem_singleton] at hc
      subst hc
      exact digitChar_ascii _ (by omega)
    · intro c hc
      simp only [List.mem_append, List.mem_singleton] at hc
      rcases hc with hc | rfl
      · exact ih (n / b) (Nat.div_lt_self (by omega) hb) c hc
      · exact digitChar_ascii _ (by have := Nat.mod_lt n (show 0 < b by omega); omega)

theorem digitsB_eq (b : Nat) (hb : 1 < b) (n : Nat) :
    digitsB b n = if n < b then [dch n] else digitsB b (n / b) ++ [dch (n % b)] := by
  unfold digitsB
  rw [Nat.toDigits_eq_if hb]
  split <;> simp [dch]

theorem natDec_eq (n : Nat) : natDec n = digitsB 10 n := by
  unfold natDec digitsB
  rw [Nat.toString_eq_ofList_toDigits]
  exact utf8_ascii _ (toDigits_ascii 10 (by omega) (by omega) n)

theorem hexNoPad_eq (n : Nat) : hexNoPad n = digitsB 16 n := by
  unfold hexNoPad digitsB
  exact utf8_ascii _ (toDigits_ascii 16 (by omega) (by omega) n)

/-- a property of every byte of a digit string follows from the property of the digit bytes -/
theorem digitsB_all (b : Nat) (hb : 1 < b) (P : UInt8 → Prop) (hP : ∀ d, d < b → P (dch d)) (n : Nat) :
    ∀ x ∈ digitsB b n, P x := by
  induction n using Nat.strongRecOn with
  | _ n ih =>
    rw [digitsB_eq b hb]
    split
    · intro x hx
      simp only [List.mem_singleton] at hx
      subst hx; exact hP _ (by omega)
    · intro x hx
      simp only [List.mem_append, List.mem_singleton] at hx
      rcases hx with hx | rfl
      · exact ih (n / b) (Nat.div_lt_self (by omega) hb) x hx
      · exact hP _ (Nat.mod_lt n (by omega))

theorem digitsB_ne_nil (b : Nat) (hb : 1 < b) (n : Nat) : digitsB b n ≠ [] := by
  rw [digitsB_eq b hb]; split <;> simp

theorem dch_dec : ∀ d, d < 10 → (dch d).toNat = 48 + d := by decide
theorem dch_hex_range : ∀ d, d < 16 →
    (48 ≤ (dch d).toNat ∧ (dch d).toNat ≤ 57) ∨ (97 ≤ (dch d).toNat ∧ (dch d).toNat ≤ 102) := by decide

end Masscanned.C20Text
