/-
  Proofs/C20Text/Lines — every column the loggers print is a token (visible ASCII); hence each line is
  one syntactically complete line: only printable bytes (and TAB for the console), one final LF.
-/
import Masscanned.Proofs.C20Text.Names
import Masscanned.Proofs.C20Text.V6b
namespace Masscanned.C20Text
open Masscanned Spec.LogText Gen

/-- bytes allowed in a console line: visible ASCII and TAB -/
def conOk (b : UInt8) : Bool := vis b || b == 9
/-- bytes allowed in a logfmt line: printable ASCII, space .. `~` -/
def pr (b : UInt8) : Bool := 32 ≤ b.toNat && b.toNat ≤ 126

def AllP (p : UInt8 → Bool) (v : Bytes) : Prop := ∀ b ∈ v, p b = true

theorem AllP.nil {p} : AllP p [] := fun _ h => by cases h
theorem AllP.append {p} {a b : Bytes} (ha : AllP p a) (hb : AllP p b) : AllP p (a ++ b) := by
  intro x hx; rcases List.mem_append.mp hx with h | h
  · exact ha x h
  · exact hb x h
theorem AllP.cons {p} {x : UInt8} {b : Bytes} (hx : p x = true) (hb : AllP p b) : AllP p (x :: b) := by
  intro y hy; rcases List.mem_cons.mp hy with rfl | h
  · exact hx
  · exact hb y h
theorem AllP.single {p} {x : UInt8} (hx : p x = true) : AllP p [x] := AllP.cons hx .nil
theorem AllP.mono {p q : UInt8 → Bool} {v : Bytes} (h : AllP p v) (hpq : ∀ b, p b = true → q b = true) : AllP q v :=
  fun b hb => hpq b (h b hb)

theorem vis_conOk (b : UInt8) (h : vis b = true) : conOk b = true := by simp [conOk, h]
theorem vis_pr (b : UInt8) (h : vis b = true) : pr b = true := by
  simp only [vis, pr, Bool.and_eq_true, decide_eq_true_eq] at *; omega

theorem Tok.con {v : Bytes} (h : Tok v) : AllP conOk v := fun b hb => vis_conOk b (h b hb)
theorem Tok.pr {v : Bytes} (h : Tok v) : AllP pr v := fun b hb => vis_pr b (h b hb)

/-! ### every column is a token -/

theorem layerText_tok (l : Layer) : Tok (layerText l) := by
  cases l <;> exact tok_of_all (by decide +kernel)
theorem verbText_tok (v : Verb) : Tok (verbText v) := by
  cases v <;> exact tok_of_all (by decide +kernel)

theorem showIp_tok (ip : Ip) : Tok (showIp ip) := by
  cases ip with
  | v4 a => exact showV4_tok a
  | v6 a => exact showV6_tok a

theorem optCol_tok {α : Type} (sh : α → Bytes) (hs : ∀ x, Tok (sh x)) (o : Option α) : Tok (optCol (o.map sh)) := by
  cases o with
  | none => exact .nil
  | some x => exact hs x

theorem showIpProto_tok (p : Nat) : Tok (showIpProto p) := nameOk_tok (showIpProto_ok p)
theorem showEtherType_tok (t : Nat) : Tok (showEtherType t) := nameOk_tok (showEtherType_ok t)

theorem extraCols_tok (f r : Bytes) (e : Ev) : ∀ c ∈ extraCols f r e, Tok c.2 := by
  intro c hc
  unfold extraCols at hc
  cases hl : e.layer <;> simp only [hl, List.mem_cons, List.not_mem_nil, or_false] at hc
  · subst hc; exact showEtherType_tok _
  · subst hc; exact showIpProto_tok _
  · subst hc; exact showIpProto_tok _
  · rcases hc with rfl | rfl <;> exact showWrapped_tok _ (tok_of_all (by decide +kernel)) _
  · rcases hc with rfl | rfl <;> exact showWrapped_tok _ (tok_of_all (by decide +kernel)) _
  · rcases hc with rfl | rfl | rfl <;> exact natDec_tok _

/-- logfmt keys: non-empty words of `[a-z0-9_]` -/
def keyOk (k : Bytes) : Bool :=
  !k.isEmpty && k.all (fun c => Spec.LogText.isDigit c || (97 ≤ c.toNat && c.toNat ≤ 122) || c = 95)

theorem extraCols_keys (f r : Bytes) (e : Ev) : ∀ c ∈ extraCols f r e, keyOk (ascii c.1) = true := by
  intro c hc
  unfold extraCols at hc
  cases hl : e.layer <;> simp only [hl, List.mem_cons, List.not_mem_nil, or_false] at hc
  · subst hc; dsimp only; decide +kernel
  · subst hc; dsimp only; decide +kernel
  · subst hc; dsimp only; decide +kernel
  · rcases hc with rfl | rfl <;> dsimp only <;> decide +kernel
  · rcases hc with rfl | rfl <;> dsimp only <;> decide +kernel
  · rcases hc with rfl | rfl | rfl <;> dsimp only <;> decide +kernel

theorem ciCols_tok (c : ClientInfo) : ∀ p ∈ ciCols c, Tok (optCol p.2) := by
  intro p hp
  simp only [ciCols, List.mem_cons, List.not_mem_nil, or_false] at hp
  rcases hp with rfl | rfl | rfl | rfl | rfl | rfl | rfl
  · exact optCol_tok _ showMac_tok _
  · exact optCol_tok _ showMac_tok _
  · exact optCol_tok _ showIp_tok _
  · exact optCol_tok _ showIp_tok _
  · exact optCol_tok _ showIpProto_tok _
  · exact optCol_tok _ natDec_tok _
  · exact optCol_tok _ natDec_tok _

theorem arpCols_tok (e : Ev) : ∀ c ∈ arpCols e, Tok c := by
  intro c hc
  simp only [arpCols, List.mem_cons, List.not_mem_nil, or_false] at hc
  rcases hc with rfl | rfl | rfl | rfl | rfl
  · exact optCol_tok _ showMac_tok _
  · exact optCol_tok _ showMac_tok _
  · exact optCol_tok _ showIp_tok _
  · exact optCol_tok _ showIp_tok _
  · exact showWrapped_tok _ (tok_of_all (by decide +kernel)) _

/-! ### the console line -/

theorem joinWith_con (cols : List Bytes) (h : ∀ c ∈ cols, Tok c) : AllP conOk (joinWith [9] cols) := by
  induction cols with
  | nil => exact .nil
  | cons x t ih =>
    cases t with
    | nil => exact (h x (by simp)).con
    | cons y t =>
      show AllP conOk (x ++ [9] ++ joinWith [9] (y :: t))
      exact ((h x (by simp)).con.append (.single (by decide))).append (ih (fun c hc => h c (by simp [hc])))

/-- the console line without its final LF -/
def consoleBody (f r : Bytes) (e : Ev) : Bytes :=
  let head := layerText e.layer ++ [9] ++ verbText e.verb ++ [9]
  if e.layer = .arp then head ++ joinWith [9] (arpCols e)
  else head ++ (ciCols e.ci).foldr (fun c acc => optCol c.2 ++ [9] ++ acc) [] ++
    joinWith [9] ((extraCols f r e).map (·.2))

theorem consoleLine_eq (f r : Bytes) (e : Ev) : consoleLine f r e = consoleBody f r e ++ [10] := by
  unfold consoleLine consoleBody
  by_cases h : e.layer = .arp <;> simp [h]

theorem consoleBody_con (f r : Bytes) (e : Ev) : AllP conOk (consoleBody f r e) := by
  have hhead : AllP conOk (layerText e.layer ++ [9] ++ verbText e.verb ++ [9]) :=
    (((layerText_tok _).con.append (.single (by decide))).append (verbText_tok _).con).append (.single (by decide))
  unfold consoleBody
  split
  · exact hhead.append (joinWith_con _ (arpCols_tok e))
  · refine (hhead.append ?_).append (joinWith_con _ ?_)
    · have := ciCols_tok e.ci
      generalize ciCols e.ci = l at this
      induction l with
      | nil => exact .nil
      | cons x t ih =>
        rw [List.foldr_cons]
        exact ((this x (by simp)).con.append (.single (by decide))).append (ih (fun p hp => this p (by simp [hp])))
    · intro c hc
      obtain ⟨p, hp, rfl⟩ := List.mem_map.mp hc
      exact extraCols_tok f r e p hp

/-! ### the logfmt line -/

/-- ` key=value` -/
def kvB (k : String) (v : Bytes) : Bytes := [32] ++ ascii k ++ [61] ++ v

/-- ` key=value` if the field is present, nothing otherwise -/
def optKv (k : String) (o : Option Bytes) : Bytes := (o.map (kvB k)).getD []

theorem foldr_congr' {α β : Type} (F1 F2 : α → β → β) (h : ∀ a b, F1 a b = F2 a b) (l : List α) (i : β) :
    l.foldr F1 i = l.foldr F2 i := by
  induction l with
  | nil => rfl
  | cons x t ih => simp only [List.foldr_cons, ih, h]

def logfmtBody (f r : Bytes) (e : Ev) : Bytes :=
  let head := ascii "proto=" ++ layerText e.layer ++ ascii " verb=" ++ verbText e.verb ++ [32]
  if e.layer = .arp then
    let keys := if e.verb = .send then ["mac_dst", "mac_src", "ip_dst", "ip_src", "op"]
                else ["mac_src", "mac_dst", "ip_src", "ip_dst", "op"]
    head ++ (keys.zip (arpCols e)).foldr (fun p acc => kvB p.1 p.2 ++ acc) []
  else
    head ++ (ciCols e.ci).foldr (fun c acc => optKv c.1 c.2 ++ acc) [] ++
      (extraCols f r e).foldr (fun c acc => kvB c.1 c.2 ++ acc) []

theorem logfmtLine_eq (f r : Bytes) (e : Ev) : logfmtLine f r e = logfmtBody f r e ++ [10] := by
  unfold logfmtLine logfmtBody
  by_cases h : e.layer = .arp
  · simp [h, kvB]
  · simp only [h, if_false]
    congr 3
    apply foldr_congr'
    intro c acc
    cases hc : c.2 <;> simp [optKv, kvB]

theorem kvB_pr (k : String) (v : Bytes) (hk : keyOk (ascii k) = true) (hv : Tok v) : AllP pr (kvB k v) := by
  unfold kvB
  refine (((AllP.single (by decide)).append ?_).append (.single (by decide))).append hv.pr
  intro b hb
  simp only [keyOk, Bool.and_eq_true, List.all_eq_true] at hk
  have := hk.2 b hb
  simp only [Spec.LogText.isDigit, Bool.or_eq_true, Bool.and_eq_true, decide_eq_true_eq] at this
  simp only [pr, Bool.and_eq_true, decide_eq_true_eq]
  rcases this with (h | h) | h
  · omega
  · omega
  · subst h; decide

theorem ciCols_keys (c : ClientInfo) : ∀ p ∈ ciCols c, keyOk (ascii p.1) = true := by
  intro p hp
  simp only [ciCols, List.mem_cons, List.not_mem_nil, or_false] at hp
  rcases hp with rfl | rfl | rfl | rfl | rfl | rfl | rfl <;> dsimp only <;> decide +kernel

theorem logfmtBody_pr (f r : Bytes) (e : Ev) : AllP pr (logfmtBody f r e) := by
  have hhead : AllP pr (ascii "proto=" ++ layerText e.layer ++ ascii " verb=" ++ verbText e.verb ++ [32]) := by
    refine ((((?_ : AllP pr (ascii "proto=")).append (layerText_tok _).pr).append ?_).append
      (verbText_tok _).pr).append (.single (by decide))
    · intro b hb; revert b; decide +kernel
    · intro b hb; revert b; decide +kernel
  unfold logfmtBody
  split
  · refine hhead.append ?_
    have ht := arpCols_tok e
    have hlen : (arpCols e).length = 5 := rfl
    obtain ⟨c0, c1, c2, c3, c4, hc⟩ : ∃ c0 c1 c2 c3 c4, arpCols e = [c0, c1, c2, c3, c4] := ⟨_, _, _, _, _, rfl⟩
    rw [hc] at ht ⊢
    have t0 := ht c0 (by simp); have t1 := ht c1 (by simp); have t2 := ht c2 (by simp)
    have t3 := ht c3 (by simp); have t4 := ht c4 (by simp)
    split <;> simp only [List.zip_cons_cons, List.zip_nil_right, List.foldr_cons, List.foldr_nil]
    all_goals
      exact (kvB_pr _ _ (by decide +kernel) t0).append ((kvB_pr _ _ (by decide +kernel) t1).append
        ((kvB_pr _ _ (by decide +kernel) t2).append ((kvB_pr _ _ (by decide +kernel) t3).append
        ((kvB_pr _ _ (by decide +kernel) t4).append .nil))))
  · refine (hhead.append ?_).append ?_
    · have h1 := ciCols_tok e.ci
      have h2 := ciCols_keys e.ci
      generalize ciCols e.ci = l at h1 h2
      induction l with
      | nil => exact .nil
      | cons x t ih =>
        rw [List.foldr_cons]
        refine AllP.append ?_ (ih (fun p hp => h1 p (by simp [hp])) (fun p hp => h2 p (by simp [hp])))
        have hx := h1 x (by simp)
        have hk := h2 x (by simp)
        cases hv : x.2 with
        | none => exact .nil
        | some v =>
          rw [hv] at hx
          exact kvB_pr _ _ hk hx
    · have h1 := extraCols_tok f r e
      have h2 := extraCols_keys f r e
      generalize extraCols f r e = l at h1 h2
      induction l with
      | nil => exact .nil
      | cons x t ih =>
        rw [List.foldr_cons]
        exact (kvB_pr _ _ (h2 x (by simp)) (h1 x (by simp))).append
          (ih (fun p hp => h1 p (by simp [hp])) (fun p hp => h2 p (by simp [hp])))

end Masscanned.C20Text
