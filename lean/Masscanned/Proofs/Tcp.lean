/-
  Proofs/Tcp — case analysis of `tcpRepl` (one TCP segment), table lemmas, flag-bit lemmas.
-/
import Masscanned.Proofs.Bytes
import Masscanned.Proofs.Proto
namespace Masscanned

/-! ### finite checks over the 9 flag bits -/

theorem forall_lt_of_all (n : Nat) (P : Nat → Bool) (h : (List.range n).all P = true) :
    ∀ f, f < n → P f = true := by
  intro f hf
  rw [List.all_eq_true] at h
  exact h f (List.mem_range.mpr hf)

theorem synOk_eq_linux' : ∀ f, f < 512 → (synOk f == Spec.linuxSynOk f) = true :=
  forall_lt_of_all 512 _ (by decide +kernel)

theorem dataBits_iff : ∀ f, f < 512 →
    (decide (f &&& (Spec.PSH + Spec.ACK) = Spec.PSH + Spec.ACK) == decide (f / 8 % 2 = 1 ∧ f / 16 % 2 = 1)) = true :=
  forall_lt_of_all 512 _ (by decide +kernel)

theorem dataBits {f : Nat} (hf : f < 512) :
    f &&& (Spec.PSH + Spec.ACK) = Spec.PSH + Spec.ACK ↔ (f / 8 % 2 = 1 ∧ f / 16 % 2 = 1) := by
  have := dataBits_iff f hf
  rw [beq_iff_eq, decide_eq_decide] at this
  exact this

/-- the Linux rule excludes ACK, so it excludes the data arm and the three exact-match arms -/
theorem linux_excl : ∀ f, f < 512 →
    (!Spec.linuxSynOk f || (decide (¬(f / 8 % 2 = 1 ∧ f / 16 % 2 = 1)) && decide (f ≠ 16) && decide (f ≠ 4)
        && decide (f ≠ 17) && decide (f / 2 % 2 = 1))) = true :=
  forall_lt_of_all 512 _ (by decide +kernel)

/-! ### the connection table -/

theorem Table.get?_isSome_iff (t : Table) (k : Nat) : (t.get? k).isSome ↔ k ∈ t.map Prod.fst := by
  unfold Table.get?
  induction t with
  | nil => simp
  | cons e t ih =>
    simp only [List.find?_cons, List.map_cons, List.mem_cons]
    by_cases h : e.1 = k
    · simp [h]
    · have h' : ¬ k = e.1 := fun hh => h hh.symm
      simp [h, h']

theorem Table.get?_none_iff (t : Table) (k : Nat) : t.get? k = none ↔ k ∉ t.map Prod.fst := by
  rw [← Table.get?_isSome_iff]; cases t.get? k <;> simp

theorem Table.set_keys (t : Table) (k : Nat) (v : Tcb) (h : (t.get? k).isSome) :
    (t.set k v).map Prod.fst = t.map Prod.fst := by
  have hm := (Table.get?_isSome_iff t k).mp h
  have hany : t.any (·.1 = k) = true := by
    simp only [List.mem_map] at hm
    obtain ⟨e, he, hk⟩ := hm
    simp only [List.any_eq_true, decide_eq_true_eq]
    exact ⟨e, he, hk⟩
  unfold Table.set
  rw [if_pos hany, List.map_map]
  apply List.map_congr_left
  intro e _
  simp only [Function.comp]
  split <;> simp_all

theorem Table.set_length (t : Table) (k : Nat) (v : Tcb) (h : (t.get? k).isSome) :
    (t.set k v).length = t.length := by
  have := congrArg List.length (Table.set_keys t k v h)
  simpa using this

theorem Table.set_get?_isSome (t : Table) (k : Nat) (v : Tcb) (h : (t.get? k).isSome) :
    ((t.set k v).get? k).isSome := by
  rw [Table.get?_isSome_iff, Table.set_keys t k v h, ← Table.get?_isSome_iff]; exact h

theorem Table.append_get?_isSome (t : Table) (k : Nat) (v : Tcb) :
    ((t ++ [(k, v)]).get? k).isSome := by
  rw [Table.get?_isSome_iff]; simp

/-! ### names for the pieces of `tcpRepl` -/

def tcpCi (ci : ClientInfo) (p : Bytes) : ClientInfo :=
  { ci with portSrc := some (rdBE (slice p 0 2)), portDst := some (rdBE (slice p 2 2)) }

/-- the cookie `tcpRepl` computes for the segment's flow -/
def tcpCk (cfg : Cfg) (ci : ClientInfo) (p : Bytes) : Nat :=
  match ci.ipSrc, ci.ipDst with
  | some s, some d => cookie cfg.k0 cfg.k1 s d (rdBE (slice p 0 2)) (rdBE (slice p 2 2))
  | _, _ => 0

def tcpAckno (p : Bytes) : Nat := if rdBE (slice p 8 4) > 0 then rdBE (slice p 8 4) - 1 else 4294967295

def tcpCi2 (cfg : Cfg) (ci : ClientInfo) (p : Bytes) : ClientInfo :=
  { tcpCi ci p with cookie := some (tcpCk cfg ci p) }

/-- the reply of the data arm once the application layer answered -/
def dataOut (p : Bytes) (ci' : ClientInfo) (r : Option Bytes) : Option Bytes :=
  match r with
  | some r => some (tcpHdr (ci'.portDst.getD 0) (ci'.portSrc.getD 0) (rdBE (slice p 8 4))
                ((rdBE (slice p 4 4) + (tcpPayload p).length) % 4294967296) 0x18 ++ r)
  | none => some (tcpHdr (ci'.portDst.getD 0) (ci'.portSrc.getD 0) (rdBE (slice p 8 4))
                ((rdBE (slice p 4 4) + (tcpPayload p).length) % 4294967296) 0x10 ++ [])

/-- events and reply of the arms other than data; they do not mention the table -/
def nodataRes (cfg : Cfg) (ci : ClientInfo) (p : Bytes) : List Ev × Option Bytes :=
  if tcpFlags p = 0x10 then ([ev .tcp .recv (tcpCi ci p), ev .tcp .drop (tcpCi ci p)], none)
  else if tcpFlags p = 0x04 then ([ev .tcp .recv (tcpCi ci p), ev .tcp .drop (tcpCi ci p)], none)
  else if tcpFlags p = 0x11 then
    ([ev .tcp .recv (tcpCi ci p), ev .tcp .send (tcpCi ci p)],
      some (tcpHdr (rdBE (slice p 2 2)) (rdBE (slice p 0 2)) (rdBE (slice p 8 4))
              ((rdBE (slice p 4 4) + 1) % 4294967296) 0x11 ++ []))
  else if synOk (tcpFlags p) then
    ([ev .tcp .recv (tcpCi ci p), ev .tcp .send (tcpCi ci p)],
      some (tcpHdr (rdBE (slice p 2 2)) (rdBE (slice p 0 2)) (tcpCk cfg ci p)
              ((rdBE (slice p 4 4) + 1) % 4294967296) 0x12 ++ []))
  else ([ev .tcp .recv (tcpCi ci p), ev .tcp .drop (tcpCi ci p)], none)

theorem tcpRepl_nodata (cfg : Cfg) (env : Env) (st : Table) (ci : ClientInfo) (p : Bytes)
    (h : ¬(tcpFlags p / 8 % 2 = 1 ∧ tcpFlags p / 16 % 2 = 1)) :
    tcpRepl cfg env st ci p = .ok ((nodataRes cfg ci p).1, tcpCi ci p, st, (nodataRes cfg ci p).2) := by
  unfold tcpRepl nodataRes
  simp only [if_neg h]
  by_cases h1 : tcpFlags p = 0x10
  · simp only [if_pos h1]; rfl
  · simp only [if_neg h1]
    by_cases h2 : tcpFlags p = 0x04
    · simp only [if_pos h2]; rfl
    · simp only [if_neg h2]
      by_cases h3 : tcpFlags p = 0x11
      · simp only [if_pos h3]; rfl
      · simp only [if_neg h3]
        by_cases h4 : synOk (tcpFlags p) = true
        · simp only [if_pos h4]; rfl
        · simp only [if_neg h4]; rfl

theorem tcpRepl_data (cfg : Cfg) (env : Env) (st : Table) (ci : ClientInfo) (p : Bytes)
    (h : tcpFlags p / 8 % 2 = 1 ∧ tcpFlags p / 16 % 2 = 1) :
    tcpRepl cfg env st ci p =
      match st.get? (tcpCk cfg ci p) with
      | none =>
        if tcpCk cfg ci p ≠ tcpAckno p then
          .ok ([ev .tcp .recv (tcpCi ci p), ev .tcp .drop (tcpCi2 cfg ci p)], tcpCi2 cfg ci p, st, none)
        else
          match protoRepl cfg env (tcpCi2 cfg ci p) (some {}) (tcpPayload p) with
          | .error e => .error e
          | .ok (ci', tcb', r) =>
            match r with
            | some r => .ok ([ev .tcp .recv (tcpCi ci p), ev .tcp .send ci'], ci',
                 st ++ [(tcpCk cfg ci p, tcb'.getD {})], dataOut p ci' (some r))
            | none => .ok ([ev .tcp .recv (tcpCi ci p), ev .tcp .send ci'], ci',
                 st ++ [(tcpCk cfg ci p, tcb'.getD {})], dataOut p ci' none)
      | some tcb =>
        match protoRepl cfg env (tcpCi2 cfg ci p) (some tcb) (tcpPayload p) with
        | .error e => .error e
        | .ok (ci', tcb', r) =>
          match r with
          | some r => .ok ([ev .tcp .recv (tcpCi ci p), ev .tcp .send ci'], ci',
               st.set (tcpCk cfg ci p) (tcb'.getD tcb), dataOut p ci' (some r))
          | none => .ok ([ev .tcp .recv (tcpCi ci p), ev .tcp .send ci'], ci',
               st.set (tcpCk cfg ci p) (tcb'.getD tcb), dataOut p ci' none) := by
  unfold tcpRepl
  simp only [if_pos h]
  rfl

/-- every successful run of `tcpRepl` is one of four cases -/
inductive TcpCase (cfg : Cfg) (env : Env) (st : Table) (ci : ClientInfo) (p : Bytes) :
    List Ev → ClientInfo → Table → Option Bytes → Prop where
  /-- ACK, RST, FIN|ACK, SYN…, anything else without PSH+ACK: table untouched -/
  | nodata (h : ¬(tcpFlags p / 8 % 2 = 1 ∧ tcpFlags p / 16 % 2 = 1)) :
      TcpCase cfg env st ci p (nodataRes cfg ci p).1 (tcpCi ci p) st (nodataRes cfg ci p).2
  /-- PSH|ACK of an unknown flow with a wrong acknowledgement number: dropped, table untouched -/
  | badAck (h : tcpFlags p / 8 % 2 = 1 ∧ tcpFlags p / 16 % 2 = 1)
      (hg : st.get? (tcpCk cfg ci p) = none) (hne : tcpCk cfg ci p ≠ tcpAckno p) :
      TcpCase cfg env st ci p [ev .tcp .recv (tcpCi ci p), ev .tcp .drop (tcpCi2 cfg ci p)]
        (tcpCi2 cfg ci p) st none
  /-- PSH|ACK of an unknown flow acknowledging cookie+1: one entry appended -/
  | first (h : tcpFlags p / 8 % 2 = 1 ∧ tcpFlags p / 16 % 2 = 1)
      (hg : st.get? (tcpCk cfg ci p) = none) (he : tcpCk cfg ci p = tcpAckno p)
      (ci' : ClientInfo) (tcb' : Option Tcb) (r : Option Bytes)
      (hp : protoRepl cfg env (tcpCi2 cfg ci p) (some {}) (tcpPayload p) = .ok (ci', tcb', r)) :
      TcpCase cfg env st ci p [ev .tcp .recv (tcpCi ci p), ev .tcp .send ci'] ci'
        (st ++ [(tcpCk cfg ci p, tcb'.getD {})]) (dataOut p ci' r)
  /-- PSH|ACK of a flow present in the table: its entry is updated -/
  | known (h : tcpFlags p / 8 % 2 = 1 ∧ tcpFlags p / 16 % 2 = 1)
      (tcb : Tcb) (hg : st.get? (tcpCk cfg ci p) = some tcb)
      (ci' : ClientInfo) (tcb' : Option Tcb) (r : Option Bytes)
      (hp : protoRepl cfg env (tcpCi2 cfg ci p) (some tcb) (tcpPayload p) = .ok (ci', tcb', r)) :
      TcpCase cfg env st ci p [ev .tcp .recv (tcpCi ci p), ev .tcp .send ci'] ci'
        (st.set (tcpCk cfg ci p) (tcb'.getD tcb)) (dataOut p ci' r)

theorem tcpRepl_inv {cfg : Cfg} {env : Env} {st : Table} {ci : ClientInfo} {p : Bytes}
    {evs : List Ev} {ci' : ClientInfo} {st' : Table} {out : Option Bytes}
    (h : tcpRepl cfg env st ci p = .ok (evs, ci', st', out)) : TcpCase cfg env st ci p evs ci' st' out := by
  by_cases hd : tcpFlags p / 8 % 2 = 1 ∧ tcpFlags p / 16 % 2 = 1
  · rw [tcpRepl_data cfg env st ci p hd] at h
    split at h
    · rename_i hg
      split at h
      · rename_i hne
        cases h; exact .badAck hd hg hne
      · rename_i he
        have he : tcpCk cfg ci p = tcpAckno p := Classical.not_not.mp he
        split at h
        · cases h
        · rename_i hp
          split at h <;> (cases h; exact .first hd hg he _ _ _ hp)
    · rename_i tcb hg
      split at h
      · cases h
      · rename_i hp
        split at h <;> (cases h; exact .known hd tcb hg _ _ _ hp)
  · rw [tcpRepl_nodata cfg env st ci p hd] at h
    cases h; exact .nodata hd

/-! ### the same pieces through the spec's readers -/

theorem tcpCk_eq {cfg : Cfg} {ci : ClientInfo} {p : Bytes} {s d : Ip} (hl : p.length ≥ 20)
    (hs : ci.ipSrc = some s) (hd : ci.ipDst = some d) :
    tcpCk cfg ci p = cookie cfg.k0 cfg.k1 s d (Spec.be16 p 0) (Spec.be16 p 2) := by
  unfold tcpCk
  rw [hs, hd, rdBE_slice2 p 0 (by omega), rdBE_slice2 p 2 (by omega)]

theorem cookie_lt (k0 k1 : UInt64) (s d : Ip) (a b : Nat) : cookie k0 k1 s d a b < 4294967296 := by
  unfold cookie; omega

theorem tcpCk_lt (cfg : Cfg) (ci : ClientInfo) (p : Bytes) : tcpCk cfg ci p < 4294967296 := by
  unfold tcpCk
  split
  · exact cookie_lt ..
  · omega

/-- the model's `cookie = ack - 1` test (with its underflow hack) is `ack = cookie + 1 mod 2^32` -/
theorem ackno_iff {p : Bytes} (hl : p.length ≥ 20) {ck : Nat} (hck : ck < 4294967296) :
    ck = tcpAckno p ↔ Spec.be32 p 8 = (ck + 1) % 4294967296 := by
  unfold tcpAckno
  rw [rdBE_slice4 p 8 (by omega)]
  have := be32_lt p 8
  split <;> omega

/-! ### the SYN arm -/

theorem synOk_eq_linux'' (p : Bytes) : synOk (tcpFlags p) = Spec.linuxSynOk (tcpFlags p) := by
  have := synOk_eq_linux' _ (tcpFlags_lt p)
  exact beq_iff_eq.mp this

theorem linux_not_data {p : Bytes} (h : Spec.linuxSynOk (tcpFlags p) = true) :
    ¬(tcpFlags p / 8 % 2 = 1 ∧ tcpFlags p / 16 % 2 = 1) := by
  have := linux_excl _ (tcpFlags_lt p)
  simp only [h, Bool.not_true, Bool.false_or, Bool.and_eq_true, decide_eq_true_eq] at this
  exact this.1.1.1.1

theorem nodataRes_syn {cfg : Cfg} {ci : ClientInfo} {p : Bytes} (h : Spec.linuxSynOk (tcpFlags p) = true) :
    nodataRes cfg ci p =
      ([ev .tcp .recv (tcpCi ci p), ev .tcp .send (tcpCi ci p)],
        some (tcpHdr (rdBE (slice p 2 2)) (rdBE (slice p 0 2)) (tcpCk cfg ci p)
              ((rdBE (slice p 4 4) + 1) % 4294967296) 0x12 ++ [])) := by
  have := linux_excl _ (tcpFlags_lt p)
  simp only [h, Bool.not_true, Bool.false_or, Bool.and_eq_true, decide_eq_true_eq] at this
  obtain ⟨⟨⟨⟨_, h1⟩, h2⟩, h3⟩, _⟩ := this
  have h4 : synOk (tcpFlags p) = true := by rw [synOk_eq_linux'']; exact h
  unfold nodataRes
  rw [if_neg h1, if_neg h2, if_neg h3, if_pos h4]

theorem nodataRes_synack {cfg : Cfg} {ci : ClientInfo} {p r : Bytes}
    (h : (nodataRes cfg ci p).2 = some r) (hf : Spec.tcpFlagsOf r = 18) :
    Spec.linuxSynOk (tcpFlags p) = true := by
  unfold nodataRes at h
  split at h
  · cases h
  · split at h
    · cases h
    · split at h
      · simp only [Option.some.injEq] at h
        rw [← h, tcpHdr_flags _ _ _ _ _ _ (by omega)] at hf
        omega
      · split at h
        · rename_i h4
          rw [← synOk_eq_linux'']; exact h4
        · cases h

theorem dataOut_flags {p : Bytes} {ci' : ClientInfo} {r : Option Bytes} {x : Bytes}
    (h : dataOut p ci' r = some x) : Spec.tcpFlagsOf x = 16 ∨ Spec.tcpFlagsOf x = 24 := by
  unfold dataOut at h
  split at h <;> simp only [Option.some.injEq] at h <;> rw [← h, tcpHdr_flags _ _ _ _ _ _ (by omega)] <;> simp

end Masscanned
