/-
  Proofs/C20/Fields — the client-info snapshots of the model's events, read back from the frame
  with the Spec readers (`Spec.fieldsOfFrame`), and the STUN flag read back from the reply frame
  (`Spec.appPayload`).
-/
import Masscanned.Proofs.C20.Layers
namespace Masscanned.C20
open Masscanned Spec

/-- the flag `Spec.judgeC20` computes from the observed reply: its application payload starts
    with `01 01` (STUN Binding Success Response) -/
def stunFlag (o : Option Bytes) : Bool :=
  match o with
  | some r => let a := appPayload r; u8 a 0 = 1 && u8 a 1 = 1
  | none => false

/-! ### introduction rule for `fieldsOfFrame` on a non-ARP event -/

theorem fields_intro {f : Bytes} {e : Ev} {s : Bool}
    (hl : e.layer ≠ .arp)
    (hm1 : e.ci.macSrc = some (sub f 6 6)) (hm2 : e.ci.macDst = some (sub f 0 6))
    (hs : (e.ci.ipSrc = none ∧ e.layer = .eth) ∨ (e.ci.ipSrc.isSome = true ∧ e.ci.ipSrc = srcIp f))
    (hd : (e.ci.ipDst = none ∧ e.layer = .eth) ∨ (e.ci.ipDst.isSome = true ∧ e.ci.ipDst = dstIp f))
    (ht : e.ci.transport = none ∨ (e.ci.transport.isSome = true ∧ e.ci.transport = ipProto f))
    (hp : (e.ci.portSrc = none ∧ e.ci.portDst = none ∧ e.layer ≠ .tcp ∧ e.layer ≠ .udp) ∨
          (e.ci.portSrc = some (be16 f (l4Off f)) ∧ (e.layer = .tcp ∨ e.layer = .udp ∨ e.verb ≠ .recv) ∧
           ∃ x, e.ci.portDst = some x ∧ (x = be16 f (l4Off f + 2) ∨ (s = true ∧ e.verb = .send)))) :
    fieldsOfFrame f e s = true := by
  unfold fieldsOfFrame
  rw [if_neg hl]
  simp only [Bool.and_eq_true]
  refine ⟨⟨⟨⟨⟨⟨?_, ?_⟩, ?_⟩, ?_⟩, ?_⟩, ?_⟩, ?_⟩
  · rw [hm1]; simp
  · rw [hm2]; simp
  · rcases hs with ⟨h1, h2⟩ | ⟨h1, h2⟩
    · rw [h1]; simp [h2]
    · cases h : e.ci.ipSrc with
      | none => simp [h] at h1
      | some a => simp [← h2, h]
  · rcases hd with ⟨h1, h2⟩ | ⟨h1, h2⟩
    · rw [h1]; simp [h2]
    · cases h : e.ci.ipDst with
      | none => simp [h] at h1
      | some a => simp [← h2, h]
  · rcases ht with h1 | ⟨h1, h2⟩
    · rw [h1]
    · cases h : e.ci.transport with
      | none => simp [h] at h1
      | some a => simp [← h2, h]
  · rcases hp with ⟨h1, _, h3, h4⟩ | ⟨h1, h2, _⟩
    · rw [h1]; simp [h3, h4]
    · rw [h1]
      rcases h2 with h2 | h2 | h2 <;> simp [h2]
  · rcases hp with ⟨_, h2, h3, h4⟩ | ⟨_, _, x, h2, h3⟩
    · rw [h2]; simp [h3, h4]
    · rw [h2]
      rcases h3 with h3 | ⟨h3, h4⟩
      · simp [h3]
      · simp [h3, h4]


/-! ### the snapshots of each layer -/

theorem term_ne_recv (b : Bool) : term b ≠ .recv := by cases b <;> simp [term]

theorem fields_c0 (f : Bytes) (v : Verb) (s : Bool) : fieldsOfFrame f (ev .eth v (c0 f)) s = true :=
  fields_intro (by simp [ev]) rfl rfl (.inl ⟨rfl, rfl⟩) (.inl ⟨rfl, rfl⟩) (.inl rfl)
    (.inl ⟨rfl, rfl, by simp [ev], by simp [ev]⟩)

theorem fields_arp {f : Bytes} {a : ClientInfo} (v : Verb) (s : Bool) (h : ArpCi (f.drop 14) a) :
    fieldsOfFrame f (ev .arp v a) s = true := by
  obtain ⟨h1, h2, h3⟩ := h
  simp [fieldsOfFrame, ev, h1, h2, h3, slice_eq_sub, sub_drop]

/-- `c` carries the frame's MAC and IP addresses, possibly its next-protocol number, no ports -/
def L3Ci (f : Bytes) (c : ClientInfo) : Prop :=
  c.macSrc = some (sub f 6 6) ∧ c.macDst = some (sub f 0 6) ∧
  (c.ipSrc.isSome = true ∧ c.ipSrc = srcIp f) ∧ (c.ipDst.isSome = true ∧ c.ipDst = dstIp f) ∧
  (c.transport = none ∨ (c.transport.isSome = true ∧ c.transport = ipProto f)) ∧
  c.portSrc = none ∧ c.portDst = none

theorem fields_l3ci {f : Bytes} {c : ClientInfo} (h : L3Ci f c) (l : Layer) (v : Verb) (s : Bool)
    (h1 : l ≠ .arp) (h2 : l ≠ .tcp) (h3 : l ≠ .udp) : fieldsOfFrame f (ev l v c) s = true := by
  obtain ⟨a, b, c', d, e, g, i⟩ := h
  exact fields_intro h1 a b (.inr c') (.inr d) e (.inl ⟨g, i, h2, h3⟩)

/-- the two port fields of the L4 header `pl4` are those the Spec reads at `l4Off f` -/
def PortsAt (f pl4 : Bytes) : Prop :=
  rdBE (slice pl4 0 2) = be16 f (l4Off f) ∧ rdBE (slice pl4 2 2) = be16 f (l4Off f + 2)

theorem fields_ports {f pl4 : Bytes} {c2 ci' : ClientInfo} {s : Bool} (h : L3Ci f c2) (hp : PortsAt f pl4)
    (l : Layer) (v : Verb) (hsb : SameBut (portsCi c2 pl4) ci')
    (hpd : ci'.portDst = (portsCi c2 pl4).portDst ∨ (s = true ∧ v = .send))
    (h1 : l ≠ .arp) (hv : l = .tcp ∨ l = .udp ∨ v ≠ .recv) : fieldsOfFrame f (ev l v ci') s = true := by
  obtain ⟨a, b, c', d, e, _, _⟩ := h
  obtain ⟨s1, s2, s3, s4, s5, s6, s7⟩ := hsb
  refine fields_intro h1 (s1.trans a) (s2.trans b) (.inr ?_) (.inr ?_) ?_ (.inr ⟨?_, hv, ?_⟩)
  · show ci'.ipSrc.isSome = true ∧ ci'.ipSrc = srcIp f
    rw [s3]; exact c'
  · show ci'.ipDst.isSome = true ∧ ci'.ipDst = dstIp f
    rw [s4]; exact d
  · show ci'.transport = none ∨ (ci'.transport.isSome = true ∧ ci'.transport = ipProto f)
    rw [s5]; exact e
  · show ci'.portSrc = some _
    rw [s6]; show some (rdBE (slice pl4 0 2)) = _
    rw [hp.1]
  · show ∃ x, ci'.portDst = some x ∧ _
    rcases hpd with hpd | hpd
    · exact ⟨_, hpd, .inl hp.2⟩
    · cases hx : ci'.portDst with
      | none => rw [hx] at s7; cases s7
      | some x => exact ⟨x, rfl, .inr hpd⟩

/-- every event of an IP frame's list carries the frame's fields -/
theorem fields_l3 {f pl4 : Bytes} {l3 : Layer} {c1 c2 ci' : ClientInfo} {inner : List Ev} {rs s : Bool}
    {stun : Nat → Prop} (hl3 : l3 = .ipv4 ∨ l3 = .ipv6) (h1 : L3Ci f c1) (h2 : L3Ci f c2)
    (hports : 4 ≤ pl4.length → PortsAt f pl4)
    (hsh : L3Shape l3 c1 c2 pl4 inner ci' rs stun)
    (hstun : ∀ hl, stun hl → s = true ∧ rs = true) :
    ∀ e ∈ [ev .eth .recv (c0 f)] ++ inner ++ [ev .eth (term rs) ci'], fieldsOfFrame f e s = true := by
  have hl3a : l3 ≠ .arp := by rcases hl3 with rfl | rfl <;> simp
  have hl3t : l3 ≠ .tcp := by rcases hl3 with rfl | rfl <;> simp
  have hl3u : l3 ≠ .udp := by rcases hl3 with rfl | rfl <;> simp
  rcases hsh with ⟨rfl, rfl, rfl⟩ | ⟨rfl, rfl, rfl⟩ | ⟨l4, _, hl4, rfl, rfl⟩ |
    ⟨l4, hl, hl4, hlen, rfl, hsb, hpd⟩
  · intro e he
    simp only [List.cons_append, List.nil_append, List.mem_cons, List.not_mem_nil, or_false] at he
    rcases he with rfl | rfl | rfl | rfl
    · exact fields_c0 _ _ _
    · exact fields_l3ci h1 _ _ _ hl3a hl3t hl3u
    · exact fields_l3ci h1 _ _ _ hl3a hl3t hl3u
    · exact fields_l3ci h1 _ _ _ (by simp) (by simp) (by simp)
  · intro e he
    simp only [List.cons_append, List.nil_append, List.mem_cons, List.not_mem_nil, or_false] at he
    rcases he with rfl | rfl | rfl | rfl
    · exact fields_c0 _ _ _
    · exact fields_l3ci h1 _ _ _ hl3a hl3t hl3u
    · exact fields_l3ci h2 _ _ _ hl3a hl3t hl3u
    · exact fields_l3ci h2 _ _ _ (by simp) (by simp) (by simp)
  · have a1 : l4 ≠ .arp := by rcases hl4 with rfl | rfl <;> simp
    have a2 : l4 ≠ .tcp := by rcases hl4 with rfl | rfl <;> simp
    have a3 : l4 ≠ .udp := by rcases hl4 with rfl | rfl <;> simp
    intro e he
    simp only [List.cons_append, List.nil_append, List.mem_cons, List.not_mem_nil, or_false] at he
    rcases he with rfl | rfl | rfl | rfl | rfl | rfl
    · exact fields_c0 _ _ _
    · exact fields_l3ci h1 _ _ _ hl3a hl3t hl3u
    · exact fields_l3ci h2 _ _ _ a1 a2 a3
    · exact fields_l3ci h2 _ _ _ a1 a2 a3
    · exact fields_l3ci h2 _ _ _ hl3a hl3t hl3u
    · exact fields_l3ci h2 _ _ _ (by simp) (by simp) (by simp)
  · have a1 : l4 ≠ .arp := by rcases hl4 with ⟨rfl, _⟩ | ⟨rfl, _⟩ <;> simp
    have a2 : l4 = .tcp ∨ l4 = .udp := by rcases hl4 with ⟨rfl, _⟩ | ⟨rfl, _⟩ <;> simp
    have hp : PortsAt f pl4 := hports (by rcases hl4 with ⟨_, rfl⟩ | ⟨_, rfl⟩ <;> omega)
    have hpd' : ci'.portDst = (portsCi c2 pl4).portDst ∨ (s = true ∧ term rs = .send) := by
      rcases hpd with h | h
      · exact .inl h
      · obtain ⟨hs, hr⟩ := hstun hl h
        exact .inr ⟨hs, by rw [hr]; rfl⟩
    intro e he
    simp only [List.cons_append, List.nil_append, List.mem_cons, List.not_mem_nil, or_false] at he
    rcases he with rfl | rfl | rfl | rfl | rfl | rfl
    · exact fields_c0 _ _ _
    · exact fields_l3ci h1 _ _ _ hl3a hl3t hl3u
    · exact fields_ports h2 hp _ _ (SameBut.refl _) (.inl rfl) a1 (a2.imp id .inl)
    · exact fields_ports h2 hp _ _ hsb hpd' a1 (a2.imp id .inl)
    · exact fields_ports h2 hp _ _ hsb hpd' hl3a (.inr (.inr (term_ne_recv _)))
    · exact fields_ports h2 hp _ _ hsb hpd' (by simp) (.inr (.inr (term_ne_recv _)))

/-! ### IPv4 / IPv6 frames: the model's readers against the Spec's -/

theorem l3ci_v4 {f : Bytes} (he : be16 f 12 = 0x0800) (hl : 20 ≤ (f.drop 14).length) :
    L3Ci f (ip4Ci (c0 f) (f.drop 14)) ∧ L3Ci f (trCi (ip4Ci (c0 f) (f.drop 14)) (at8 (f.drop 14) 9)) := by
  obtain ⟨q1, q2, q3, _, _⟩ := req_v4 he hl
  exact ⟨⟨rfl, rfl, ⟨rfl, q1.symm⟩, ⟨rfl, q2.symm⟩, .inl rfl, rfl, rfl⟩,
    ⟨rfl, rfl, ⟨rfl, q1.symm⟩, ⟨rfl, q2.symm⟩, .inr ⟨rfl, q3.symm⟩, rfl, rfl⟩⟩

theorem l3ci_v6 {f : Bytes} (he : be16 f 12 = 0x86dd) (hl : 40 ≤ (f.drop 14).length) :
    L3Ci f (ip6Ci (c0 f) (f.drop 14)) ∧ L3Ci f (trCi (ip6Ci (c0 f) (f.drop 14)) (at8 (f.drop 14) 6)) := by
  obtain ⟨q1, q2, q3, _⟩ := req_v6 he hl
  exact ⟨⟨rfl, rfl, ⟨rfl, q1.symm⟩, ⟨rfl, q2.symm⟩, .inl rfl, rfl, rfl⟩,
    ⟨rfl, rfl, ⟨rfl, q1.symm⟩, ⟨rfl, q2.symm⟩, .inr ⟨rfl, q3.symm⟩, rfl, rfl⟩⟩

theorem ports_v4 {f : Bytes} (he : be16 f 12 = 0x0800) (hl : 20 ≤ (f.drop 14).length)
    (h : 4 ≤ (ipv4Payload (f.drop 14)).length) : PortsAt f (ipv4Payload (f.drop 14)) := by
  obtain ⟨_, _, _, _, q5⟩ := req_v4 he hl
  unfold PortsAt
  rw [rdBE_slice2 (by omega), rdBE_slice2 (by omega), ipv4Payload_be16 (by omega),
    ipv4Payload_be16 (by omega), be16_drop, be16_drop, q5]
  exact ⟨by simp, by simp [Nat.add_assoc]⟩

theorem ports_v6 {f : Bytes} (he : be16 f 12 = 0x86dd) (hl : 40 ≤ (f.drop 14).length)
    (h : 4 ≤ (ipv6Payload (f.drop 14)).length) : PortsAt f (ipv6Payload (f.drop 14)) := by
  obtain ⟨_, _, _, q5⟩ := req_v6 he hl
  unfold PortsAt
  rw [rdBE_slice2 (by omega), rdBE_slice2 (by omega), ipv6Payload_be16 (by omega),
    ipv6Payload_be16 (by omega), be16_drop, be16_drop, q5]
  exact ⟨rfl, rfl⟩

/-! ### the STUN flag, read back from the reply frame -/

theorem u8_of_sub2 {b : Bytes} {i : Nat} {x y : UInt8} (h : sub b i 2 = [x, y]) :
    u8 b i = x.toNat ∧ u8 b (i + 1) = y.toNat := by
  have h0 : u8 (sub b i 2) 0 = u8 b i := by
    unfold sub; rw [u8_take (by omega), u8_drop]; rfl
  have h1 : u8 (sub b i 2) 1 = u8 b (i + 1) := by
    unfold sub; rw [u8_take (by omega), u8_drop]
  rw [h] at h0 h1
  exact ⟨h0.symm, h1.symm⟩

theorem ipv4Hdr_be16_2 (s d : Bytes) (proto tl : Nat) (l4 : Bytes) :
    be16 (ipv4Hdr s d proto tl ++ l4) 2 = tl % 65536 := by
  simp [ipv4Hdr, setU16, u16be, u8, be16, byte_toNat]
  omega

theorem eth_drop14 {sm mac l3 : Bytes} {e : Nat} (h1 : sm.length = 6) (h2 : mac.length = 6) :
    (sm ++ mac ++ u16be e ++ l3).drop 14 = l3 := by
  have := List.drop_left (l₁ := sm ++ mac ++ u16be e) (l₂ := l3)
  rwa [ethHdr_length h1 h2] at this

theorem l4Bytes_reply_v4 {sm mac s d l4 : Bytes} {proto : Nat} (h1 : sm.length = 6) (h2 : mac.length = 6)
    (hs : s.length = 4) (hd : d.length = 4) (hlen : 20 + l4.length ≤ 65535) :
    l4Bytes (sm ++ mac ++ u16be 0x0800 ++ (ipv4Hdr s d proto (20 + l4.length) ++ l4)) = l4 := by
  have hty : be16 (sm ++ mac ++ u16be 0x0800 ++ (ipv4Hdr s d proto (20 + l4.length) ++ l4)) 12 = 0x0800 :=
    eth_type h1 h2 (by omega)
  have h0 : u8 (ipv4Hdr s d proto (20 + l4.length) ++ l4) 0 = 0x45 := by
    rw [ipv4Hdr_u8_lt _ _ _ (by omega)]; rfl
  have h2' : be16 (ipv4Hdr s d proto (20 + l4.length) ++ l4) 2 = 20 + l4.length := by
    rw [ipv4Hdr_be16_2]; omega
  have hH := ipv4Hdr_length (s := s) (d := d) proto (20 + l4.length) hs hd
  unfold l4Bytes
  simp only [hty, if_true, eth_drop14 h1 h2, h0, h2']
  rw [List.take_of_length_le (by simp [hH])]
  have := List.drop_left (l₁ := ipv4Hdr s d proto (20 + l4.length)) (l₂ := l4)
  rwa [hH] at this

theorem ipv6Hdr_be16_4 (s d : Bytes) (nh n hl : Nat) (l4 : Bytes) :
    be16 (ipv6Hdr s d nh n hl ++ l4) 4 = n % 65536 := by
  simp [ipv6Hdr, u16be, u8, be16, byte_toNat]
  omega

theorem l4Bytes_reply_v6 {sm mac s d l4 : Bytes} {nh hlim : Nat} (h1 : sm.length = 6) (h2 : mac.length = 6)
    (hs : s.length = 16) (hd : d.length = 16) (hlen : l4.length ≤ 65535) :
    l4Bytes (sm ++ mac ++ u16be 0x86dd ++ (ipv6Hdr s d nh l4.length hlim ++ l4)) = l4 := by
  have hty : be16 (sm ++ mac ++ u16be 0x86dd ++ (ipv6Hdr s d nh l4.length hlim ++ l4)) 12 = 0x86dd :=
    eth_type h1 h2 (by omega)
  have h4 : be16 (ipv6Hdr s d nh l4.length hlim ++ l4) 4 = l4.length := by
    rw [ipv6Hdr_be16_4]; omega
  have hH := ipv6Hdr_length (s := s) (d := d) nh l4.length hlim hs hd
  unfold l4Bytes
  simp only [hty, eth_drop14 h1 h2, h4]
  rw [if_neg (by omega), List.take_of_length_le (by simp [hH])]
  have := List.drop_left (l₁ := ipv6Hdr s d nh l4.length hlim) (l₂ := l4)
  rwa [hH] at this

theorem stunFlag_of_l4 {r l4 : Bytes} {proto hl : Nat} (hp : ipProto r = some proto) (hb : l4Bytes r = l4)
    (hc : (hl = 20 ∧ proto = 6) ∨ (hl = 8 ∧ proto = 17)) (hs : StunL4 hl l4) : stunFlag (some r) = true := by
  obtain ⟨_, h2, h3⟩ := hs
  obtain ⟨b0, b1⟩ := u8_of_sub2 h2
  rcases hc with ⟨rfl, rfl⟩ | ⟨rfl, rfl⟩
  · have : appPayload r = l4.drop 20 := by
      unfold appPayload
      simp only [hp, hb, h3 rfl]
      rfl
    simp [stunFlag, this, u8_drop, b0, b1]
  · have : appPayload r = l4.drop 8 := by
      unfold appPayload
      simp only [hp, hb]
    simp [stunFlag, this, u8_drop, b0, b1]

theorem stunFlag_v4 {cfg : Cfg} {f : Bytes} {r : Option Bytes} {hl : Nat} (hm : cfg.mac.length = 6)
    (hf : 14 ≤ f.length) (hl3 : 20 ≤ (f.drop 14).length)
    (h : StunFrame cfg f 0x0800 (Stun4 (f.drop 14)) r hl) : stunFlag r = true ∧ r.isSome = true := by
  obtain ⟨l3, rfl, l4, h1, hlen, hc, hs⟩ := h
  cases h1
  have hsm : (slice f 6 6).length = 6 := slice_length_of_le (by omega)
  have hlen4 : ∀ i, i + 4 ≤ 20 → (slice (f.drop 14) i 4).length = 4 :=
    fun i hi => slice_length_of_le (by omega)
  obtain ⟨_, _, _, r3, _⟩ := reply_v4 (l4 := l4) (proto := at8 (f.drop 14) 9)
    (tl := 20 + l4.length) hsm hm (hlen4 16 (by omega)) (hlen4 12 (by omega)) (u8_lt _ _)
  exact ⟨stunFlag_of_l4 r3 (l4Bytes_reply_v4 hsm hm (hlen4 16 (by omega)) (hlen4 12 (by omega)) hlen) hc hs, rfl⟩

theorem stunFlag_v6 {cfg : Cfg} {f : Bytes} {r : Option Bytes} {hl : Nat} (hm : cfg.mac.length = 6)
    (hf : 14 ≤ f.length) (hl3 : 40 ≤ (f.drop 14).length)
    (h : StunFrame cfg f 0x86dd (Stun6 (f.drop 14)) r hl) : stunFlag r = true ∧ r.isSome = true := by
  obtain ⟨l3, rfl, l4, h1, hlen, hc, hs⟩ := h
  cases h1
  have hsm : (slice f 6 6).length = 6 := slice_length_of_le (by omega)
  have h16 : ∀ i, i + 16 ≤ 40 → (slice (f.drop 14) i 16).length = 16 :=
    fun i hi => slice_length_of_le (by omega)
  obtain ⟨_, _, _, r3, _⟩ := reply_v6 (l4 := l4) (nh := at8 (f.drop 14) 6)
    (pl := l4.length) (hlim := 64) hsm hm (h16 24 (by omega)) (h16 8 (by omega)) (u8_lt _ _)
  exact ⟨stunFlag_of_l4 r3 (l4Bytes_reply_v6 hsm hm (h16 24 (by omega)) (h16 8 (by omega)) hlen) hc hs, rfl⟩

end Masscanned.C20
