/-
  Proofs/C20/Grammar — from the explicit event lists (Proofs/C20/Layers) to the three clauses of
  C20 as `Spec/LogGrammar` states them: balanced/nested, Ethernet terminal ⇔ reply, fields.
-/
import Masscanned.Proofs.C20.Fields
namespace Masscanned.C20
open Masscanned Spec

/-- what `Spec.judgeC20` looks at for the grammar: (layer, verb) of each event -/
def lv (evs : List Ev) : List (Layer × Verb) := evs.map (fun e => (e.layer, e.verb))

/-- the events of one frame, as `step` returns them -/
theorem step_evs {cfg : Cfg} {env : Env} {st : Table} {f : Bytes} {o : Option Bytes}
    (h : (step cfg env st f).out = .ok o) :
    (f.length < 14 ∧ (step cfg env st f).evs = [] ∧ o = none) ∨
    (14 ≤ f.length ∧ EthShape cfg f (step cfg env st f).evs o) := by
  unfold step at h ⊢
  by_cases hlt : f.length < 14
  · rw [if_pos hlt] at h ⊢
    simp only [Except.ok.injEq] at h
    exact .inl ⟨hlt, rfl, h.symm⟩
  · rw [if_neg hlt] at h ⊢
    cases heq : ethRepl cfg env st f with
    | error e => simp [heq] at h
    | ok x =>
      obtain ⟨evs, st', r⟩ := x
      simp only [heq, Except.ok.injEq] at h ⊢
      subst h
      exact .inr ⟨by omega, ethRepl_evs (by omega) heq⟩

theorem wellNested_of_shape {cfg : Cfg} {f : Bytes} {evs : List Ev} {r : Option Bytes}
    (h : EthShape cfg f evs r) : wellNested (lv evs) = true := by
  unfold EthShape at h
  generalize r.isSome = b at h
  rcases h with ⟨rfl, _⟩ | ⟨a, a', _, _, rfl⟩ | ⟨_, _, inner, ci', rfl, hs⟩ | ⟨_, _, inner, ci', rfl, hs⟩
  · rfl
  · cases b <;> rfl
  · rcases hs with ⟨rfl, _, rfl⟩ | ⟨rfl, _, rfl⟩ | ⟨l4, hl4, hi, rfl, _⟩ | ⟨l4, hl, hl4, _, rfl, _⟩
    · rfl
    · rfl
    · rcases hi with rfl | rfl
      · cases b <;> rfl
      · cases hl4
    · rcases hl4 with ⟨rfl, _⟩ | ⟨rfl, _⟩ <;> cases b <;> rfl
  · rcases hs with ⟨rfl, _, rfl⟩ | ⟨rfl, _, rfl⟩ | ⟨l4, hl4, hi, rfl, _⟩ | ⟨l4, hl, hl4, _, rfl, _⟩
    · rfl
    · rfl
    · rcases hi with rfl | rfl
      · cases hl4
      · cases b <;> rfl
    · rcases hl4 with ⟨rfl, _⟩ | ⟨rfl, _⟩ <;> cases b <;> rfl

theorem terminal_of_shape {cfg : Cfg} {f : Bytes} {evs : List Ev} {r : Option Bytes}
    (h : EthShape cfg f evs r) : ethTerminal (lv evs) = some (term r.isSome) := by
  rcases h with ⟨rfl, rfl⟩ | ⟨a, a', _, _, rfl⟩ | ⟨_, _, inner, ci', rfl, _⟩ | ⟨_, _, inner, ci', rfl, _⟩
  · rfl
  · rfl
  · simp only [lv, ethTerminal, ev, List.map_append, List.map_cons, List.map_nil, List.getLast?_concat]
  · simp only [lv, ethTerminal, ev, List.map_append, List.map_cons, List.map_nil, List.getLast?_concat]

theorem terminalMatches_of_shape {cfg : Cfg} {f : Bytes} {evs : List Ev} {r : Option Bytes}
    (hf : 14 ≤ f.length) (h : EthShape cfg f evs r) : terminalMatchesReply f (lv evs) r.isSome = true := by
  unfold terminalMatchesReply
  rw [if_neg (by omega), terminal_of_shape h]
  cases r.isSome <;> rfl

theorem fields_of_shape {cfg : Cfg} {f : Bytes} {evs : List Ev} {r : Option Bytes}
    (hm : cfg.mac.length = 6) (hf : 14 ≤ f.length) (h : EthShape cfg f evs r) :
    ∀ e ∈ evs, fieldsOfFrame f e (stunFlag r) = true := by
  rcases h with ⟨rfl, _⟩ | ⟨a, a', h1, h2, rfl⟩ | ⟨he, hl, inner, ci', rfl, hs⟩ | ⟨he, hl, inner, ci', rfl, hs⟩
  · intro e h
    simp only [List.mem_cons, List.not_mem_nil, or_false] at h
    rcases h with rfl | rfl <;> exact fields_c0 _ _ _
  · intro e h
    simp only [List.mem_cons, List.not_mem_nil, or_false] at h
    rcases h with rfl | rfl | rfl | rfl
    · exact fields_c0 _ _ _
    · exact fields_arp _ _ h1
    · exact fields_arp _ _ h2
    · exact fields_c0 _ _ _
  · obtain ⟨c1, c2⟩ := l3ci_v4 he hl
    exact fields_l3 (.inl rfl) c1 c2 (ports_v4 he hl) hs (fun _ h => stunFlag_v4 hm hf hl h)
  · obtain ⟨c1, c2⟩ := l3ci_v6 he hl
    exact fields_l3 (.inr rfl) c1 c2 (ports_v6 he hl) hs (fun _ h => stunFlag_v6 hm hf hl h)

end Masscanned.C20
