/-
  Proofs/C20/Examples — concrete frames and an executable "run the judge on the model's own
  observation" helper for the non-vacuity `example`s of Thm/C20 (on top of Proofs/C0203/Examples).
-/
import Masscanned.Proofs.C20.Grammar
import Masscanned.Proofs.C0203.Examples
namespace Masscanned.Ex20
open Masscanned

def selfV6 : Bytes := [0xfe, 0x80, 0, 0, 0, 0, 0, 0, 0, 0, 0, 0, 0, 0, 0, 1]
def peerV6 : Bytes := [0xfe, 0x80, 0, 0, 0, 0, 0, 0, 0, 0, 0, 0, 0, 0, 0, 2]

/-- ICMPv6 echo request fe80::2 → fe80::1, to our MAC -/
def echo6Req : Bytes :=
  Ex.cfg.mac ++ Ex.peerMac ++ [0x86, 0xdd] ++
  [0x60, 0, 0, 0, 0, 9, 58, 64] ++ peerV6 ++ selfV6 ++ [128, 0, 0, 0, 0, 1, 0, 1, 0x61]

/-- a 5-byte runt -/
def runt : Bytes := [1, 2, 3, 4, 5]

/-- the (layer, verb) sequence the model logs for a frame, from the empty table -/
def trace (f : Bytes) : List (Layer × Verb) := C20.lv (step Ex.cfg Ex.env [] f).evs

/-- run `Spec.judgeC20` on the model's own (reply, events); `none` if the model reports a panic -/
def judged (f : Bytes) : Option (Bool × Bool) :=
  match (step Ex.cfg Ex.env [] f).out with
  | .ok o => let v := Spec.judgeC20 f o (step Ex.cfg Ex.env [] f).evs; some (v.ok, v.nontrivial)
  | .error _ => none

/-- does the frame get a reply -/
def replied (f : Bytes) : Bool :=
  match (step Ex.cfg Ex.env [] f).out with
  | .ok (some _) => true
  | _ => false

/-- the destination ports printed by the events of a frame -/
def dstPorts (f : Bytes) : List (Layer × Verb × Option Nat) :=
  (step Ex.cfg Ex.env [] f).evs.map (fun e => (e.layer, e.verb, e.ci.portDst))

end Masscanned.Ex20
