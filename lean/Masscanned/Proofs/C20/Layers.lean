/-
  Proofs/C20/Layers — the event list of every layer function of Model/Net, in explicit form:
  each L4 function logs exactly `[recv, terminal]` of its own layer (terminal = `send` iff it
  returns a reply), each L3 function `[recv] ++ inner ++ [terminal]`, and so does Ethernet.
  The client-info snapshots carried by the events are pinned down as well (for C20, clause 3).
-/
import Masscanned.Proofs.C0203.Mirror
import Masscanned.Spec.LogGrammar
namespace Masscanned.C20
open Masscanned Spec

/-- the terminal verb of a layer that did (`true`) / did not (`false`) produce a reply -/
def term (b : Bool) : Verb := if b then .send else .drop

@[simp] theorem term_true : term true = .send := rfl
@[simp] theorem term_false : term false = .drop := rfl

/-- client info once the transport layer has read the two port fields of its header `p` -/
def portsCi (ci : ClientInfo) (p : Bytes) : ClientInfo :=
  { ci with portSrc := some (rdBE (slice p 0 2)), portDst := some (rdBE (slice p 2 2)) }

/-- `c'` differs from `c` at most in the cookie and the value of the destination port -/
def SameBut (c c' : ClientInfo) : Prop :=
  c'.macSrc = c.macSrc ∧ c'.macDst = c.macDst ∧ c'.ipSrc = c.ipSrc ∧ c'.ipDst = c.ipDst ∧
  c'.transport = c.transport ∧ c'.portSrc = c.portSrc ∧ c'.portDst.isSome = c.portDst.isSome

theorem SameBut.refl (c : ClientInfo) : SameBut c c := ⟨rfl, rfl, rfl, rfl, rfl, rfl, rfl⟩

/-- what the application layer may do to the client info: keep everything but the destination
    port, and touch that one only when it answers with a STUN success response (`01 01 …`) -/
theorem protoRepl_ci {cfg : Cfg} {env : Env} {ci ci' : ClientInfo} {tcb tcb' : Option Tcb}
    {d : Bytes} {r : Option Bytes} (h : protoRepl cfg env ci tcb d = .ok (ci', tcb', r)) :
    SameBut ci ci' ∧ (ci'.portDst = ci.portDst ∨ ∃ t, r = some (1 :: 1 :: t)) := by
  rcases protoRepl_shape h with rfl | ⟨rfl, t, rfl⟩
  · exact ⟨SameBut.refl _, .inl rfl⟩
  · exact ⟨⟨rfl, rfl, rfl, rfl, rfl, rfl, by simp⟩, .inr ⟨t, rfl⟩⟩

/-- a transport segment `l4` (header length `hl`, for TCP: data offset 5) whose application
    payload starts with `01 01` -/
def StunL4 (hl : Nat) (l4 : Bytes) : Prop :=
  hl + 2 ≤ l4.length ∧ sub l4 hl 2 = [1, 1] ∧ (hl = 20 → u8 l4 12 = 0x50)

def L4Stun (hl : Nat) (r : Option Bytes) : Prop := ∃ l4, r = some l4 ∧ StunL4 hl l4

theorem StunL4.setU16 {hl : Nat} {l4 : Bytes} (h : StunL4 hl l4) (off v : Nat)
    (hoff : off + 2 ≤ hl) (h12 : hl = 20 → 12 < off) : StunL4 hl (setU16 l4 off v) := by
  obtain ⟨h1, h2, h3⟩ := h
  refine ⟨by rw [setU16_length v (by omega)]; exact h1, ?_, fun h => ?_⟩
  · have := sub_setU16_ge (r := l4) (off := off) v (hl - (off + 2)) 2 (by omega)
    rw [show off + 2 + (hl - (off + 2)) = hl by omega] at this
    rw [this]; exact h2
  · rw [u8_setU16_lt v (h12 h) (by omega)]; exact h3 h

/-! ### ICMP -/

theorem icmp4Repl_evs {ci : ClientInfo} {p : Bytes} {evs : List Ev} {r : Option Bytes}
    (h : icmp4Repl ci p = (evs, r)) :
    evs = [ev .icmpv4 .recv ci, ev .icmpv4 (term r.isSome) ci] := by
  unfold icmp4Repl at h
  split_all h
  all_goals (cases h; rfl)

theorem icmp6Repl_evs {cfg : Cfg} {ci : ClientInfo} {p : Bytes} {evs : List Ev}
    {r : Option (Bytes × Option Bytes)} (h : icmp6Repl cfg ci p = (evs, r)) :
    evs = [ev .icmpv6 .recv ci, ev .icmpv6 (term r.isSome) ci] := by
  unfold icmp6Repl at h
  split_all h
  all_goals (cases h; rfl)

/-! ### UDP -/

theorem udpRepl_evs {cfg : Cfg} {env : Env} {ci ci' : ClientInfo} {p : Bytes} {evs : List Ev}
    {r : Option Bytes} (h : udpRepl cfg env ci p = .ok (evs, ci', r)) :
    evs = [ev .udp .recv (portsCi ci p), ev .udp (term r.isSome) ci'] ∧
    SameBut (portsCi ci p) ci' ∧ (ci'.portDst = (portsCi ci p).portDst ∨ L4Stun 8 r) := by
  unfold udpRepl at h
  split_all h
  · cases h
  · rename_i hpr
    cases h
    obtain ⟨h1, h2⟩ := protoRepl_ci hpr
    refine ⟨rfl, h1, ?_⟩
    rcases h2 with h2 | ⟨t, ht⟩
    · exact .inl h2
    · cases ht
  · rename_i _ r0 hpr
    cases h
    obtain ⟨h1, h2⟩ := protoRepl_ci hpr
    refine ⟨rfl, h1, ?_⟩
    rcases h2 with h2 | ⟨t, ht⟩
    · exact .inl h2
    · cases ht
      refine .inr ⟨_, rfl, by simp [u16be_length]; omega, ?_, by omega⟩
      have hl : (u16be (ci'.portDst.getD 0) ++ u16be (ci'.portSrc.getD 0) ++
          u16be ((8 + (1 :: 1 :: t).length) % 65536) ++ [0, 0]).length = 8 := by simp [u16be_length]
      have := sub_append_right (1 :: 1 :: t) hl 0 2
      simp only [Nat.add_zero] at this
      rw [this]; rfl

/-! ### TCP -/

theorem tcpHdr_length (a b s k fl : Nat) : (tcpHdr a b s k fl).length = 20 := by
  simp [tcpHdr, u16be, u32be]

theorem tcp_stun (a b s k : Nat) (t : Bytes) : L4Stun 20 (some (tcpHdr a b s k 0x18 ++ 1 :: 1 :: t)) := by
  refine ⟨_, rfl, by simp [tcpHdr_length]; omega, ?_, fun _ => ?_⟩
  · have := sub_append_right (1 :: 1 :: t) (tcpHdr_length a b s k 0x18) 0 2
    simp only [Nat.add_zero] at this
    rw [this]; rfl
  · rw [u8_append_left _ (by rw [tcpHdr_length]; omega)]
    simp [tcpHdr, u16be, u32be, u8]
    rfl

theorem tcpRepl_evs {cfg : Cfg} {env : Env} {st st' : Table} {ci ci' : ClientInfo} {p : Bytes}
    {evs : List Ev} {r : Option Bytes} (h : tcpRepl cfg env st ci p = .ok (evs, ci', st', r)) :
    evs = [ev .tcp .recv (portsCi ci p), ev .tcp (term r.isSome) ci'] ∧
    SameBut (portsCi ci p) ci' ∧ (ci'.portDst = (portsCi ci p).portDst ∨ L4Stun 20 r) := by
  unfold tcpRepl at h
  extract_lets sport dport seq ack flags ci0 rcv ck finish ackno ci1 data at h
  clear_value ck
  split_all h
  all_goals try dsimp only [finish] at h
  all_goals simp only [Except.ok.injEq, Prod.mk.injEq, reduceCtorEq] at h
  all_goals obtain ⟨rfl, rfl, rfl, rfl⟩ := h
  all_goals first
    | exact ⟨rfl, ⟨rfl, rfl, rfl, rfl, rfl, rfl, rfl⟩, .inl rfl⟩
    | (rename_i hpr
       obtain ⟨h1, h2⟩ := protoRepl_ci hpr
       refine ⟨rfl, h1, ?_⟩
       rcases h2 with h2 | ⟨t, ht⟩
       · exact .inl h2
       · first
           | (cases ht; exact .inr (tcp_stun _ _ _ _ _))
           | cases ht)

/-! ### IPv4, IPv6 -/

def ip4Ci (ci : ClientInfo) (p : Bytes) : ClientInfo :=
  { ci with ipSrc := some (.v4 (slice p 12 4)), ipDst := some (.v4 (slice p 16 4)) }

def ip6Ci (ci : ClientInfo) (p : Bytes) : ClientInfo :=
  { ci with ipSrc := some (.v6 (slice p 8 16)), ipDst := some (.v6 (slice p 24 16)) }

def trCi (ci : ClientInfo) (n : Nat) : ClientInfo := { ci with transport := some n }

/-- the event list of an L3 function.  `c1` = snapshot at receive time (addresses set), `c2` = `c1`
    plus the next-protocol number, `pl` = the L4 bytes handed down, `rs` = "a reply is returned",
    `stun hl` = what is known of the reply when the destination port was rewritten. -/
def L3Shape (l3 : Layer) (c1 c2 : ClientInfo) (pl : Bytes) (evs : List Ev) (ci' : ClientInfo)
    (rs : Bool) (stun : Nat → Prop) : Prop :=
  (evs = [ev l3 .recv c1, ev l3 .drop c1] ∧ ci' = c1 ∧ rs = false) ∨
  (evs = [ev l3 .recv c1, ev l3 .drop c2] ∧ ci' = c2 ∧ rs = false) ∨
  (∃ l4, l4Of l3 l4 = true ∧ (l4 = .icmpv4 ∨ l4 = .icmpv6) ∧
     evs = [ev l3 .recv c1, ev l4 .recv c2, ev l4 (term rs) c2, ev l3 (term rs) c2] ∧ ci' = c2) ∨
  (∃ l4 hl, ((l4 = .tcp ∧ hl = 20) ∨ (l4 = .udp ∧ hl = 8)) ∧ hl ≤ pl.length ∧
     evs = [ev l3 .recv c1, ev l4 .recv (portsCi c2 pl), ev l4 (term rs) ci', ev l3 (term rs) ci'] ∧
     SameBut (portsCi c2 pl) ci' ∧ (ci'.portDst = (portsCi c2 pl).portDst ∨ stun hl))

/-- an IPv4 reply packet carrying a TCP (`hl = 20`) / UDP (`hl = 8`) STUN success response -/
def Stun4 (p : Bytes) (r : Option Bytes) (hl : Nat) : Prop :=
  ∃ l4, r = some (ipv4Hdr (slice p 16 4) (slice p 12 4) (at8 p 9) (20 + l4.length) ++ l4) ∧
    20 + l4.length ≤ 65535 ∧ ((hl = 20 ∧ at8 p 9 = 6) ∨ (hl = 8 ∧ at8 p 9 = 17)) ∧ StunL4 hl l4

def Stun6 (p : Bytes) (r : Option Bytes) (hl : Nat) : Prop :=
  ∃ l4, r = some (ipv6Hdr (slice p 24 16) (slice p 8 16) (at8 p 6) l4.length 64 ++ l4) ∧
    l4.length ≤ 65535 ∧ ((hl = 20 ∧ at8 p 6 = 6) ∨ (hl = 8 ∧ at8 p 6 = 17)) ∧ StunL4 hl l4

theorem ipv4Repl_evs {cfg : Cfg} {env : Env} {st st' : Table} {ci ci' : ClientInfo} {p : Bytes}
    {evs : List Ev} {r : Option Bytes} (h : ipv4Repl cfg env st ci p = .ok (evs, ci', st', r)) :
    L3Shape .ipv4 (ip4Ci ci p) (trCi (ip4Ci ci p) (at8 p 9)) (ipv4Payload p) evs ci' r.isSome
      (Stun4 p r) := by
  unfold ipv4Repl at h
  extract_lets src dst proto ci0 rcv ci1 pl wrap drop at h
  split_all h
  all_goals try dsimp only [wrap, drop] at h
  all_goals try split at h
  all_goals simp only [Except.ok.injEq, Prod.mk.injEq, reduceCtorEq] at h
  all_goals obtain ⟨rfl, rfl, rfl, rfl⟩ := h
  all_goals first
    | exact .inl ⟨rfl, rfl, rfl⟩
    | exact .inr (.inl ⟨rfl, rfl, rfl⟩)
    | (have he := icmp4Repl_evs ‹icmp4Repl _ _ = _›
       subst he
       exact .inr (.inr (.inl ⟨.icmpv4, rfl, .inl rfl, rfl, rfl⟩)))
    | (obtain ⟨he, hs, hp⟩ := tcpRepl_evs ‹tcpRepl _ _ _ _ _ = _›
       subst he
       refine .inr (.inr (.inr ⟨.tcp, 20, .inl ⟨rfl, rfl⟩, (by show 20 ≤ pl.length; omega), rfl, hs, ?_⟩))
       rcases hp with hp | ⟨l4, h1, h2⟩
       · exact .inl hp
       · cases h1 <;>
         exact .inr ⟨_, rfl, by omega, .inl ⟨rfl, ‹proto = 6›⟩, h2.setU16 16 _ (by omega) (by omega)⟩)
    | (obtain ⟨he, hs, hp⟩ := udpRepl_evs ‹udpRepl _ _ _ _ = _›
       subst he
       refine .inr (.inr (.inr ⟨.udp, 8, .inr ⟨rfl, rfl⟩, (by show 8 ≤ pl.length; omega), rfl, hs, ?_⟩))
       rcases hp with hp | ⟨l4, h1, h2⟩
       · exact .inl hp
       · cases h1 <;>
         exact .inr ⟨_, rfl, by omega, .inr ⟨rfl, ‹proto = 17›⟩, h2.setU16 6 _ (by omega) (by omega)⟩)

theorem ipv6Repl_evs {cfg : Cfg} {env : Env} {st st' : Table} {ci ci' : ClientInfo} {p : Bytes}
    {evs : List Ev} {r : Option Bytes} (h : ipv6Repl cfg env st ci p = .ok (evs, ci', st', r)) :
    L3Shape .ipv6 (ip6Ci ci p) (trCi (ip6Ci ci p) (at8 p 6)) (ipv6Payload p) evs ci' r.isSome
      (Stun6 p r) := by
  unfold ipv6Repl at h
  extract_lets src dst nh ci0 rcv ci1 pl wrap drop at h
  split_all h
  all_goals try dsimp only [wrap, drop] at h
  all_goals try split at h
  all_goals simp only [Except.ok.injEq, Prod.mk.injEq, reduceCtorEq] at h
  all_goals obtain ⟨rfl, rfl, rfl, rfl⟩ := h
  all_goals first
    | exact .inl ⟨rfl, rfl, rfl⟩
    | exact .inr (.inl ⟨rfl, rfl, rfl⟩)
    | (have he := icmp6Repl_evs ‹icmp6Repl _ _ _ = _›
       subst he
       exact .inr (.inr (.inl ⟨.icmpv6, rfl, .inr rfl, rfl, rfl⟩)))
    | (obtain ⟨he, hs, hp⟩ := tcpRepl_evs ‹tcpRepl _ _ _ _ _ = _›
       subst he
       refine .inr (.inr (.inr ⟨.tcp, 20, .inl ⟨rfl, rfl⟩, (by show 20 ≤ pl.length; omega), rfl, hs, ?_⟩))
       rcases hp with hp | ⟨l4, h1, h2⟩
       · exact .inl hp
       · cases h1 <;>
         exact .inr ⟨_, rfl, by omega, .inl ⟨rfl, ‹nh = 6›⟩, h2.setU16 16 _ (by omega) (by omega)⟩)
    | (obtain ⟨he, hs, hp⟩ := udpRepl_evs ‹udpRepl _ _ _ _ = _›
       subst he
       refine .inr (.inr (.inr ⟨.udp, 8, .inr ⟨rfl, rfl⟩, (by show 8 ≤ pl.length; omega), rfl, hs, ?_⟩))
       rcases hp with hp | ⟨l4, h1, h2⟩
       · exact .inl hp
       · cases h1 <;>
         exact .inr ⟨_, rfl, by omega, .inr ⟨rfl, ‹nh = 17›⟩, h2.setU16 6 _ (by omega) (by omega)⟩)

theorem L3Shape.mono {l3 : Layer} {c1 c2 : ClientInfo} {pl : Bytes} {evs : List Ev} {ci' : ClientInfo}
    {rs : Bool} {stun stun' : Nat → Prop} (h : L3Shape l3 c1 c2 pl evs ci' rs stun)
    (hm : ∀ hl, stun hl → stun' hl) : L3Shape l3 c1 c2 pl evs ci' rs stun' := by
  rcases h with h | h | h | ⟨l4, hl, h1, h2, h3, h4, h5⟩
  · exact .inl h
  · exact .inr (.inl h)
  · exact .inr (.inr (.inl h))
  · exact .inr (.inr (.inr ⟨l4, hl, h1, h2, h3, h4, h5.imp id (hm hl)⟩))

/-! ### ARP -/

/-- the addresses an ARP event prints are those of the ARP body `p` -/
def ArpCi (p : Bytes) (c : ClientInfo) : Prop :=
  c.macSrc = some (slice p 8 6) ∧ c.ipSrc = some (.v4 (slice p 14 4)) ∧ c.ipDst = some (.v4 (slice p 24 4))

theorem arpRepl_evs {cfg : Cfg} {p : Bytes} {evs : List Ev} {r : Option Bytes}
    (h : arpRepl cfg p = (evs, r)) :
    ∃ a a', ArpCi p a ∧ ArpCi p a' ∧ evs = [ev .arp .recv a, ev .arp (term r.isSome) a'] := by
  unfold arpRepl at h
  split_all h
  all_goals (cases h; exact ⟨_, _, ⟨rfl, rfl, rfl⟩, ⟨rfl, rfl, rfl⟩, rfl⟩)

/-! ### Ethernet -/

/-- client info at Ethernet receive time -/
def c0 (f : Bytes) : ClientInfo := { macSrc := some (slice f 6 6), macDst := some (slice f 0 6) }

/-- the reply frame is the Ethernet header (to the asker, from us, same EtherType) followed by an
    L3 packet for which `S hl` holds -/
def StunFrame (cfg : Cfg) (f : Bytes) (ety : Nat) (S : Option Bytes → Nat → Prop) (r : Option Bytes)
    (hl : Nat) : Prop :=
  ∃ l3, r = some (slice f 6 6 ++ cfg.mac ++ u16be ety ++ l3) ∧ S (some l3) hl

/-- the event list of a frame of at least 14 bytes -/
def EthShape (cfg : Cfg) (f : Bytes) (evs : List Ev) (r : Option Bytes) : Prop :=
  (evs = [ev .eth .recv (c0 f), ev .eth .drop (c0 f)] ∧ r = none) ∨
  (∃ a a', ArpCi (f.drop 14) a ∧ ArpCi (f.drop 14) a' ∧
     evs = [ev .eth .recv (c0 f), ev .arp .recv a, ev .arp (term r.isSome) a',
            ev .eth (term r.isSome) (c0 f)]) ∨
  (be16 f 12 = 0x0800 ∧ 20 ≤ (f.drop 14).length ∧ ∃ inner ci',
     evs = [ev .eth .recv (c0 f)] ++ inner ++ [ev .eth (term r.isSome) ci'] ∧
     L3Shape .ipv4 (ip4Ci (c0 f) (f.drop 14)) (trCi (ip4Ci (c0 f) (f.drop 14)) (at8 (f.drop 14) 9))
       (ipv4Payload (f.drop 14)) inner ci' r.isSome (StunFrame cfg f 0x0800 (Stun4 (f.drop 14)) r)) ∨
  (be16 f 12 = 0x86dd ∧ 40 ≤ (f.drop 14).length ∧ ∃ inner ci',
     evs = [ev .eth .recv (c0 f)] ++ inner ++ [ev .eth (term r.isSome) ci'] ∧
     L3Shape .ipv6 (ip6Ci (c0 f) (f.drop 14)) (trCi (ip6Ci (c0 f) (f.drop 14)) (at8 (f.drop 14) 6))
       (ipv6Payload (f.drop 14)) inner ci' r.isSome (StunFrame cfg f 0x86dd (Stun6 (f.drop 14)) r))

theorem ethRepl_evs {cfg : Cfg} {env : Env} {st st' : Table} {f : Bytes} {evs : List Ev}
    {r : Option Bytes} (hf : 14 ≤ f.length) (h : ethRepl cfg env st f = .ok (evs, st', r)) :
    EthShape cfg f evs r := by
  unfold ethRepl at h
  extract_lets dstM srcM ety ci rcv pl wrap drop at h
  have hety : ety = be16 f 12 := rdBE_slice2 (by omega)
  split_all h
  all_goals try dsimp only [wrap, drop] at h
  all_goals simp only [Except.ok.injEq, Prod.mk.injEq, reduceCtorEq] at h
  all_goals obtain ⟨rfl, rfl, rfl⟩ := h
  all_goals first
    | exact .inl ⟨rfl, rfl⟩
    | (obtain ⟨a, a', h1, h2, he⟩ := arpRepl_evs ‹arpRepl _ _ = _›
       subst he
       exact .inr (.inl ⟨a, a', h1, h2, rfl⟩))
    | (have h3 := ipv4Repl_evs ‹ipv4Repl _ _ _ _ _ = _›
       have he : ety = 0x0800 := by assumption
       refine .inr (.inr (.inl ⟨by rw [← hety]; exact he, (by show 20 ≤ pl.length; omega), _, _, rfl, ?_⟩))
       refine h3.mono (fun hl hs => ?_)
       first
         | (obtain ⟨l4, h4, _⟩ := hs; cases h4; done)
         | exact ⟨_, by rw [he], hs⟩)
    | (have h3 := ipv6Repl_evs ‹ipv6Repl _ _ _ _ _ = _›
       have he : ety = 0x86dd := by assumption
       refine .inr (.inr (.inr ⟨by rw [← hety]; exact he, (by show 40 ≤ pl.length; omega), _, _, rfl, ?_⟩))
       refine h3.mono (fun hl hs => ?_)
       first
         | (obtain ⟨l4, h4, _⟩ := hs; cases h4; done)
         | exact ⟨_, by rw [he], hs⟩)

end Masscanned.C20
