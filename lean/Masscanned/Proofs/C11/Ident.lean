/-
  Proofs/C11/Ident — the compiled matcher run incrementally (`search_next` called once per TCP
  segment with the row kept in the control block).

  * `innerMatch_append`, `searchNext_append` : generic, for every table satisfying `TblOk`
    (rows stay inside the table, rows below `match_limit` carry no match, rows above carry one).
  * `protoTbl_ok` : the generated table of `proto_init()` satisfies `TblOk` (from the generic kernel
    check `C10.proto_wfCheck` over all rows × symbols of the generated table; table-independent).
-/
import Masscanned.Model.Dispatch
import Masscanned.Proofs.C10.ProtoClosure
namespace Masscanned.C11.Aux
open Masscanned SmackTbl

/-! ### `inner_match` over a concatenation -/

theorem innerMatch_nil (T : SmackTbl) (row idx : Nat) : T.innerMatch row [] idx = .ok (idx, row) := by
  rw [innerMatch]

/-- running over `a ++ b`: run over `a`; if a match row was entered, stop there, otherwise go on
    over `b` from the row and offset reached -/
theorem innerMatch_append (T : SmackTbl) (a b : Bytes) (row idx : Nat) (h : row < T.matchLimit) :
    T.innerMatch row (a ++ b) idx =
      match T.innerMatch row a idx with
      | .error e => .error e
      | .ok (i, r) => if r ≥ T.matchLimit then .ok (i, r) else T.innerMatch r b i := by
  induction a generalizing row idx with
  | nil =>
    rw [innerMatch_nil]
    have : ¬ row ≥ T.matchLimit := by omega
    simp only [List.nil_append, if_neg this]
  | cons x t ih =>
    rw [List.cons_append, innerMatch, innerMatch]
    dsimp only
    by_cases hk : row * 2 ^ T.rowShift + T.c2s x.toNat < T.transLen
    · simp only [if_pos hk]
      by_cases hr : T.trans (row * 2 ^ T.rowShift + T.c2s x.toNat) ≥ T.matchLimit
      · simp only [if_pos hr]
      · simp only [if_neg hr]
        exact ih _ _ (by omega)
    · simp only [if_neg hk]

/-- the start offset is only added to the count -/
theorem innerMatch_shift (T : SmackTbl) (d : Bytes) (row idx : Nat) :
    T.innerMatch row d idx =
      match T.innerMatch row d 0 with
      | .error e => .error e
      | .ok (i, r) => .ok (idx + i, r) := by
  induction d generalizing row idx with
  | nil => simp only [innerMatch_nil, Nat.add_zero]
  | cons x t ih =>
    rw [innerMatch, innerMatch]
    dsimp only
    by_cases hk : row * 2 ^ T.rowShift + T.c2s x.toNat < T.transLen
    · simp only [if_pos hk]
      by_cases hr : T.trans (row * 2 ^ T.rowShift + T.c2s x.toNat) ≥ T.matchLimit
      · simp only [if_pos hr, Nat.add_zero]
      · simp only [if_neg hr]
        rw [ih _ (idx + 1), ih _ (0 + 1)]
        cases T.innerMatch (T.trans (row * 2 ^ T.rowShift + T.c2s x.toNat)) t 0 with
        | error e => rfl
        | ok p => obtain ⟨i, r⟩ := p; simp only [Except.ok.injEq, Prod.mk.injEq, and_true]; omega
    · simp only [if_neg hk]

/-! ### well-formed tables -/

/-- what the search half of `smack.rs` relies on; `N` = number of rows of the transition table -/
structure TblOk (T : SmackTbl) (N : Nat) : Prop where
  lim_le : T.matchLimit ≤ N
  n_le : N ≤ T.matchLen
  n_small : N ≤ 16777216
  transLen_eq : T.transLen = N * 2 ^ T.rowShift
  c2s_lt : ∀ b : UInt8, T.c2s b.toNat < 2 ^ T.rowShift
  trans_lt : ∀ k, k < T.transLen → T.trans k < N
  cnt_low : ∀ r, r < T.matchLimit → T.cnt r = 0
  cnt_high : ∀ r, T.matchLimit ≤ r → r < N →
    T.cnt r ≠ 0 ∧ ∃ id, (T.ids r)[T.cnt r - 1]? = some id ∧ id ≠ noMatch

/-- `inner_match` from a row below the match limit never leaves the table; it either stops on a
    match row strictly inside the input, or consumes the whole input without entering one -/
theorem innerMatch_total {T : SmackTbl} {N : Nat} (ok : TblOk T N) (d : Bytes) (row idx : Nat)
    (h : row < T.matchLimit) :
    ∃ i r, T.innerMatch row d idx = .ok (i, r) ∧ r < N ∧
      ((T.matchLimit ≤ r ∧ idx ≤ i ∧ i < idx + d.length) ∨ (r < T.matchLimit ∧ i = idx + d.length)) := by
  induction d generalizing row idx with
  | nil =>
    exact ⟨idx, row, innerMatch_nil T row idx, by have := ok.lim_le; omega, .inr ⟨h, by simp⟩⟩
  | cons x t ih =>
    have hk : row * 2 ^ T.rowShift + T.c2s x.toNat < T.transLen := by
      rw [ok.transLen_eq]
      have h1 := ok.c2s_lt x
      have h2 : row + 1 ≤ N := by have := ok.lim_le; omega
      calc row * 2 ^ T.rowShift + T.c2s x.toNat < row * 2 ^ T.rowShift + 2 ^ T.rowShift := by omega
        _ = (row + 1) * 2 ^ T.rowShift := by rw [Nat.add_mul, Nat.one_mul]
        _ ≤ N * 2 ^ T.rowShift := Nat.mul_le_mul_right _ h2
    have hlt := ok.trans_lt _ hk
    rw [innerMatch]
    dsimp only
    simp only [if_pos hk]
    by_cases hr : T.trans (row * 2 ^ T.rowShift + T.c2s x.toNat) ≥ T.matchLimit
    · simp only [if_pos hr]
      exact ⟨_, _, rfl, hlt, .inl ⟨hr, Nat.le_refl _, by simp⟩⟩
    · simp only [if_neg hr]
      obtain ⟨i, r, h1, h2, h3⟩ := ih (T.trans (row * 2 ^ T.rowShift + T.c2s x.toNat)) (idx + 1) (by omega)
      refine ⟨i, r, h1, h2, ?_⟩
      simp only [List.length_cons]
      rcases h3 with ⟨a, b, c⟩ | ⟨a, b⟩
      · exact .inl ⟨a, by omega, by omega⟩
      · exact .inr ⟨a, by omega⟩

/-! ### `search_next` from a stored row -/

/-- `search_next` from a stored plain row (no pending match count), in terms of `inner_match` -/
theorem searchNext_of_inner {T : SmackTbl} {N : Nat} (ok : TblOk T N) (st : Nat) (hst : st < T.matchLimit)
    (d : Bytes) (ii row : Nat) (hin : T.innerMatch st d 0 = .ok (ii, row)) (hrow : row < N) :
    T.searchNext st d =
      if row < T.matchLimit then .ok (noMatch, row, ii)
      else
        match (T.ids row)[T.cnt row - 1]? with
        | some id => .ok (id, row + (T.cnt row - 1) * 16777216, ii + 1)
        | none => .error .smackIds := by
  have hN := ok.lim_le
  have hN2 := ok.n_small
  have h1 : st % 16777216 = st := Nat.mod_eq_of_lt (by omega)
  have h2 : st / 16777216 = 0 := Nat.div_eq_of_lt (by omega)
  have hml : row < T.matchLen := by have := ok.n_le; omega
  unfold searchNext
  simp only [h1, h2, if_true, hin, hml]
  by_cases hlow : row < T.matchLimit
  · simp only [if_pos hlow, ok.cnt_low row hlow, ne_eq, not_true_eq_false, if_false]
  · simp only [if_neg hlow]
    obtain ⟨hc, -⟩ := ok.cnt_high row (by omega) hrow
    simp only [ne_eq, hc, not_false_eq_true, if_true, if_pos hml]
    cases (T.ids row)[T.cnt row - 1]? <;> rfl

/-- `search_next` from a stored row never fails; it reports `NO_MATCH` having consumed everything and
    stores a plain row again, or reports an id having consumed at least one byte -/
theorem searchNext_total {T : SmackTbl} {N : Nat} (ok : TblOk T N) (st : Nat) (hst : st < T.matchLimit)
    (d : Bytes) :
    ∃ id st' n, T.searchNext st d = .ok (id, st', n) ∧
      ((id = noMatch ∧ st' < T.matchLimit ∧ n = d.length) ∨ (id ≠ noMatch ∧ 0 < n ∧ n ≤ d.length)) := by
  obtain ⟨i, r, h1, h2, h3⟩ := innerMatch_total ok d st 0 hst
  rw [searchNext_of_inner ok st hst d i r h1 h2]
  rcases h3 with ⟨a, _, c⟩ | ⟨a, b⟩
  · have : ¬ r < T.matchLimit := by omega
    simp only [if_neg this]
    obtain ⟨_, id, hid, hne⟩ := ok.cnt_high r a h2
    rw [hid]
    exact ⟨_, _, _, rfl, .inr ⟨hne, by omega, by omega⟩⟩
  · simp only [if_pos a]
    exact ⟨_, _, _, rfl, .inl ⟨rfl, a, by omega⟩⟩

/-- **incremental identification**: `search_next` over `a ++ b` from a stored row = `search_next`
    over `a`, and, if that reported `NO_MATCH`, `search_next` over `b` from the row it stored
    (byte counts add up).  Once an id is reported the rest of the input is not looked at. -/
theorem searchNext_append {T : SmackTbl} {N : Nat} (ok : TblOk T N) (st : Nat) (hst : st < T.matchLimit)
    (a b : Bytes) :
    T.searchNext st (a ++ b) =
      match T.searchNext st a with
      | .error e => .error e
      | .ok (id, st', n) =>
        if id = noMatch then
          match T.searchNext st' b with
          | .error e => .error e
          | .ok (id', st'', n') => .ok (id', st'', n + n')
        else .ok (id, st', n) := by
  obtain ⟨i, r, h1, h2, h3⟩ := innerMatch_total ok a st 0 hst
  have happ := innerMatch_append T a b st 0 (by omega)
  rw [h1] at happ
  rw [searchNext_of_inner ok st hst a i r h1 h2]
  rcases h3 with ⟨hge, _, _⟩ | ⟨hlow, hi⟩
  · simp only [if_pos hge] at happ
    rw [searchNext_of_inner ok st hst (a ++ b) i r happ h2]
    have : ¬ r < T.matchLimit := by omega
    simp only [if_neg this]
    obtain ⟨_, id, hid, hne⟩ := ok.cnt_high r hge h2
    rw [hid]
    simp only [if_neg hne]
  · have hn : ¬ r ≥ T.matchLimit := by omega
    simp only [if_neg hn] at happ
    simp only [if_pos hlow, if_true]
    obtain ⟨j, r', g1, g2, g3⟩ := innerMatch_total ok b r 0 hlow
    rw [innerMatch_shift T b r i, g1] at happ
    rw [searchNext_of_inner ok st hst (a ++ b) (i + j) r' happ g2,
      searchNext_of_inner ok r hlow b j r' g1 g2]
    by_cases hl : r' < T.matchLimit
    · simp only [if_pos hl]
    · simp only [if_neg hl]
      cases (T.ids r')[T.cnt r' - 1]? with
      | none => rfl
      | some id => simp only [Except.ok.injEq, Prod.mk.injEq, true_and]; omega

/-! ### the generated table of `proto_init()` -/

/-- `TblOk` follows from the generic range facts `C10.WF` (kernel check `C10.wfCheck`, quantified over the
    generated definitions: no row count or match limit of the compiled table is written down) -/
theorem tblOk_of_wf {T : SmackTbl} {N : Nat} (w : C10.WF T N) (hl : T.matchLimit ≤ N) : TblOk T N where
  lim_le := hl
  n_le := w.N_le
  n_small := Nat.le_of_lt w.N_lt
  transLen_eq := w.transLen_eq
  c2s_lt := fun b => w.c2s_lt _ (C10.u8_lt_258 b)
  trans_lt := w.trans_lt
  cnt_low := by
    intro r hr
    have := w.match_iff r (by omega)
    omega
  cnt_high := by
    intro r h1 h2
    have hc : T.cnt r ≠ 0 := (w.match_iff r h2).mpr h1
    have hlen := w.ids_len r h2
    have hlt : T.cnt r - 1 < (T.ids r).length := by omega
    exact ⟨hc, _, List.getElem?_eq_getElem hlt, w.ids_ne r h2 _ (List.getElem_mem hlt)⟩

theorem protoTbl_ok : TblOk protoTbl Gen.ProtoSmack.nrows :=
  tblOk_of_wf C10.proto_wf (by decide)

end Masscanned.C11.Aux
