/-
  Proofs/C11/Feed — vocabulary of property C11 (`feed`, `unseg`, `trig`, segment offsets, `SegIndep`)
  and the protocol-independent part of the argument: if the control block after a stream prefix and
  the reply to the segment ending there are functions of the prefix alone, and replies are monotone
  along prefixes, then the replies to the segments are determined by the stream.
-/
import Masscanned.Proofs.C11.Ident
open Masscanned
namespace Masscanned.C11

/-! ### vocabulary -/

/-- the data segments `segs` of one TCP flow handed one after the other to `proto::repl` with the
    flow's control block (initially `t`), as `tcp::repl` does (`tcb'.getD t`: the block is updated in
    place).  Result: the final block and, per segment, the application reply (`none` = bare ACK). -/
def feed (cfg : Cfg) (env : Env) (ci : ClientInfo) : Tcb → List Bytes → Except Site (Tcb × List (Option Bytes))
  | t, [] => .ok (t, [])
  | t, d :: ds =>
    match protoRepl cfg env ci (some t) d with
    | .error e => .error e
    | .ok (_, t', r) =>
      match feed cfg env ci (t'.getD t) ds with
      | .error e => .error e
      | .ok (t'', rs) => .ok (t'', r :: rs)

/-- the unsegmented reference: the whole byte string `p` as the first and only segment of a flow -/
def unseg (cfg : Cfg) (env : Env) (ci : ClientInfo) (p : Bytes) : Except Site (Option Bytes) :=
  match protoRepl cfg env ci (some {}) p with
  | .error e => .error e
  | .ok (_, _, r) => .ok r

def answers (cfg : Cfg) (env : Env) (ci : ClientInfo) (p : Bytes) : Bool :=
  match unseg cfg env ci p with
  | .ok (some _) => true
  | _ => false

/-- least `n` in `i, i+1, …, i+fuel-1` with `p n` -/
def leastFrom (p : Nat → Bool) : Nat → Nat → Option Nat
  | 0, _ => none
  | f + 1, i => if p i then some i else leastFrom p f (i + 1)

/-- the trigger position of a stream: the least prefix length `n ≤ |s|` such that the unsegmented
    `proto::repl` answers the prefix `s.take n` -/
def trig (cfg : Cfg) (env : Env) (ci : ClientInfo) (s : Bytes) : Option Nat :=
  leastFrom (fun n => answers cfg env ci (s.take n)) (s.length + 1) 0

/-- stream offset at which segment `k` begins / ends -/
def begOff (segs : List Bytes) (k : Nat) : Nat := (segs.take k).flatten.length
def endOff (segs : List Bytes) (k : Nat) : Nat := (segs.take (k + 1)).flatten.length

/-- **the conclusion of C11** for a list of segments `all` (stream `s = all.flatten`): feeding never
    panics; with `R` the reply of the unsegmented stream and `n` its trigger position (if any):
    segments ending before `n` get a bare ACK, the segments ending at or after `n` — in particular the
    one containing stream byte `n` — get `R`; without a trigger position no segment is answered. -/
def SegIndep (cfg : Cfg) (env : Env) (ci : ClientInfo) (all : List Bytes) : Prop :=
  ∃ t rs R, feed cfg env ci {} all = .ok (t, rs) ∧ rs.length = all.length ∧
    unseg cfg env ci all.flatten = .ok R ∧
    match trig cfg env ci all.flatten with
    | none => R = none ∧ ∀ k, k < all.length → rs[k]? = some none
    | some n => R ≠ none ∧ 0 < n ∧ n ≤ all.flatten.length ∧
        ∀ k, k < all.length →
          (endOff all k < n → rs[k]? = some none) ∧ (n ≤ endOff all k → rs[k]? = some R)

/-! ### `leastFrom` -/

theorem leastFrom_some (p : Nat → Bool) (f i n : Nat) (h : leastFrom p f i = some n) :
    i ≤ n ∧ n < i + f ∧ p n = true ∧ ∀ j, i ≤ j → j < n → p j = false := by
  induction f generalizing i with
  | zero => simp [leastFrom] at h
  | succ f ih =>
    rw [leastFrom] at h
    by_cases hp : p i = true
    · rw [if_pos hp] at h
      cases h
      exact ⟨Nat.le_refl _, by omega, hp, fun j h1 h2 => by omega⟩
    · rw [if_neg hp] at h
      obtain ⟨h1, h2, h3, h4⟩ := ih (i + 1) h
      refine ⟨by omega, by omega, h3, ?_⟩
      intro j hj hjn
      by_cases e : j = i
      · subst e; simpa using hp
      · exact h4 j (by omega) hjn

theorem leastFrom_none (p : Nat → Bool) (f i : Nat) (h : leastFrom p f i = none) :
    ∀ j, i ≤ j → j < i + f → p j = false := by
  induction f generalizing i with
  | zero => intro j h1 h2; omega
  | succ f ih =>
    rw [leastFrom] at h
    by_cases hp : p i = true
    · rw [if_pos hp] at h; cases h
    · rw [if_neg hp] at h
      intro j hj hjn
      by_cases e : j = i
      · subst e; simpa using hp
      · exact ih (i + 1) h j (by omega) (by omega)

theorem leastFrom_eq_some (p : Nat → Bool) (f i n : Nat) (h1 : i ≤ n) (h2 : n < i + f) (hp : p n = true)
    (hmin : ∀ j, i ≤ j → j < n → p j = false) : leastFrom p f i = some n := by
  induction f generalizing i with
  | zero => omega
  | succ f ih =>
    rw [leastFrom]
    by_cases e : i = n
    · subst e; rw [if_pos hp]
    · have : p i = false := hmin i (Nat.le_refl _) (by omega)
      rw [if_neg (by rw [this]; exact Bool.false_ne_true)]
      exact ih (i + 1) (by omega) (by omega) (fun j hj hjn => hmin j (by omega) hjn)

/-! ### segment offsets -/

theorem flatten_take_le (segs : List Bytes) (k : Nat) :
    (segs.take k).flatten.length ≤ segs.flatten.length := by
  conv => rhs; rw [← List.take_append_drop k segs]
  rw [List.flatten_append, List.length_append]
  omega

theorem endOff_le (segs : List Bytes) (k : Nat) : endOff segs k ≤ segs.flatten.length :=
  flatten_take_le segs (k + 1)

theorem begOff_zero (segs : List Bytes) : begOff segs 0 = 0 := by simp [begOff]

theorem begOff_succ (segs : List Bytes) (k : Nat) : begOff segs (k + 1) = endOff segs k := rfl

theorem begOff_cons_succ (d : Bytes) (ds : List Bytes) (k : Nat) :
    begOff (d :: ds) (k + 1) = d.length + begOff ds k := by
  simp [begOff]

theorem endOff_cons_zero (d : Bytes) (ds : List Bytes) : endOff (d :: ds) 0 = d.length := by
  simp [endOff]

theorem endOff_cons_succ (d : Bytes) (ds : List Bytes) (k : Nat) :
    endOff (d :: ds) (k + 1) = d.length + endOff ds k := by
  simp [endOff]

/-- every stream position `1 ≤ n ≤ |s|` lies in exactly one segment; this finds it -/
theorem exists_segment (segs : List Bytes) (n : Nat) (h0 : 0 < n) (hn : n ≤ segs.flatten.length) :
    ∃ k, k < segs.length ∧ begOff segs k < n ∧ n ≤ endOff segs k := by
  induction segs generalizing n with
  | nil => simp at hn; omega
  | cons d ds ih =>
    by_cases hd : n ≤ d.length
    · exact ⟨0, by simp, by rw [begOff_zero]; exact h0, by rw [endOff_cons_zero]; exact hd⟩
    · have hlen : (d :: ds).flatten.length = d.length + ds.flatten.length := by simp
      obtain ⟨k, hk, h1, h2⟩ := ih (n - d.length) (by omega) (by omega)
      refine ⟨k + 1, by simp; omega, ?_, ?_⟩
      · rw [begOff_cons_succ]; omega
      · rw [endOff_cons_succ]; omega

theorem begOff_le_endOff (segs : List Bytes) (k : Nat) : begOff segs k ≤ endOff segs k := by
  unfold begOff endOff
  have : segs.take k = (segs.take (k + 1)).take k := by
    rw [List.take_take]; congr 1; omega
  rw [this]
  exact flatten_take_le _ _

theorem endOff_mono (segs : List Bytes) (j k : Nat) (h : j ≤ k) : endOff segs j ≤ endOff segs k := by
  unfold endOff
  have : segs.take (j + 1) = (segs.take (k + 1)).take (j + 1) := by
    rw [List.take_take]; congr 1; omega
  rw [this]
  exact flatten_take_le _ _

/-! ### feeding when block and reply are functions of the stream so far -/

theorem feed_nil (cfg : Cfg) (env : Env) (ci : ClientInfo) (t : Tcb) : feed cfg env ci t [] = .ok (t, []) := by
  rw [feed]

theorem feed_cons_ok (cfg : Cfg) (env : Env) (ci ci' : ClientInfo) (t t' : Tcb) (d : Bytes) (ds : List Bytes)
    (r : Option Bytes) (h : protoRepl cfg env ci (some t) d = .ok (ci', some t', r)) :
    feed cfg env ci t (d :: ds) =
      match feed cfg env ci t' ds with
      | .error e => .error e
      | .ok (t'', rs) => .ok (t'', r :: rs) := by
  rw [feed, h]
  rfl

theorem feed_steps (cfg : Cfg) (env : Env) (ci : ClientInfo) (T : Bytes → Tcb) (G : Bytes → Option Bytes)
    (step : ∀ x d, ∃ ci', protoRepl cfg env ci (some (T x)) d = .ok (ci', some (T (x ++ d)), G (x ++ d)))
    (x : Bytes) (segs : List Bytes) :
    ∃ rs, feed cfg env ci (T x) segs = .ok (T (x ++ segs.flatten), rs) ∧ rs.length = segs.length ∧
      ∀ k, k < segs.length → rs[k]? = some (G (x ++ (segs.take (k + 1)).flatten)) := by
  induction segs generalizing x with
  | nil => exact ⟨[], by rw [feed_nil]; simp, rfl, fun k hk => by simp at hk⟩
  | cons d ds ih =>
    obtain ⟨ci', hs⟩ := step x d
    obtain ⟨rs, h1, h2, h3⟩ := ih (x ++ d)
    refine ⟨G (x ++ d) :: rs, ?_, by simp [h2], ?_⟩
    · rw [feed_cons_ok cfg env ci ci' _ _ d ds _ hs, h1]
      simp only [List.flatten_cons, List.append_assoc]
    · intro k hk
      cases k with
      | zero => simp
      | succ k =>
        simp only [List.length_cons] at hk
        have := h3 k (by omega)
        simp only [List.getElem?_cons_succ, List.take_succ_cons, List.flatten_cons]
        rw [this, List.append_assoc]

/-! ### from prefix-determined replies to `SegIndep` -/

/-- the protocol-independent step: `g n` = reply of the unsegmented parser to the first `n` stream
    bytes; segment `k` gets `g (endOff k)`; `g` is monotone once it answers -/
theorem segIndep_of_prefix (cfg : Cfg) (env : Env) (ci : ClientInfo) (all : List Bytes) (g : Nat → Option Bytes)
    (t : Tcb) (rs : List (Option Bytes))
    (hfeed : feed cfg env ci {} all = .ok (t, rs)) (hlen : rs.length = all.length)
    (hrs : ∀ k, k < all.length → rs[k]? = some (g (endOff all k)))
    (hun : ∀ n, n ≤ all.flatten.length → unseg cfg env ci (all.flatten.take n) = .ok (g n))
    (hmono : ∀ n n', n ≤ n' → n' ≤ all.flatten.length → g n ≠ none → g n' = g n)
    (h0 : g 0 = none) : SegIndep cfg env ci all := by
  have hans : ∀ n, n ≤ all.flatten.length →
      answers cfg env ci (all.flatten.take n) = (g n).isSome := by
    intro n hn
    unfold answers
    rw [hun n hn]
    cases g n <;> rfl
  have hR : unseg cfg env ci all.flatten = .ok (g all.flatten.length) := by
    have := hun all.flatten.length (Nat.le_refl _)
    rwa [List.take_length] at this
  refine ⟨t, rs, g all.flatten.length, hfeed, hlen, hR, ?_⟩
  cases htr : trig cfg env ci all.flatten with
  | none =>
    have hall := leastFrom_none _ _ _ htr
    have hnone : ∀ n, n ≤ all.flatten.length → g n = none := by
      intro n hn
      have := hall n (Nat.zero_le _) (by omega)
      rw [hans n hn] at this
      cases hg : g n with
      | none => rfl
      | some r => rw [hg] at this; cases this
    exact ⟨hnone _ (Nat.le_refl _), fun k hk => by rw [hrs k hk, hnone _ (endOff_le all k)]⟩
  | some n =>
    obtain ⟨-, hn, hp, hmin⟩ := leastFrom_some _ _ _ _ htr
    have hn' : n ≤ all.flatten.length := by omega
    rw [hans n hn'] at hp
    have hgn : g n ≠ none := by
      intro e; rw [e] at hp; cases hp
    have hpos : 0 < n := by
      rcases Nat.eq_zero_or_pos n with e | e
      · subst e; exact absurd h0 hgn
      · exact e
    have hRn : g all.flatten.length = g n := hmono n _ hn' (Nat.le_refl _) hgn
    refine ⟨by rw [hRn]; exact hgn, hpos, hn', ?_⟩
    intro k hk
    constructor
    · intro hlt
      have := hmin _ (Nat.zero_le _) hlt
      rw [hans _ (endOff_le all k)] at this
      rw [hrs k hk]
      cases hg : g (endOff all k) with
      | none => rfl
      | some r => rw [hg] at this; cases this
    · intro hle
      rw [hrs k hk, hRn, hmono n _ hle (endOff_le all k) hgn]

/-- instantiation: stream = signature `sg` followed by `x`; after the signature the block `T x` and
    the reply `G x` are functions of `x` -/
theorem segIndep_of_sig (cfg : Cfg) (env : Env) (ci : ClientInfo) (sg : Bytes)
    (T : Bytes → Tcb) (G : Bytes → Option Bytes)
    (fresh : ∀ x, ∃ ci', protoRepl cfg env ci (some {}) (sg ++ x) = .ok (ci', some (T x), G x))
    (step : ∀ x d, ∃ ci', protoRepl cfg env ci (some (T x)) d = .ok (ci', some (T (x ++ d)), G (x ++ d)))
    (short : ∀ n, n < sg.length → ∃ ci' t', protoRepl cfg env ci (some {}) (sg.take n) = .ok (ci', t', none))
    (hsg : sg ≠ [])
    (mono : ∀ x y, G x ≠ none → G (x ++ y) = G x)
    (a' : Bytes) (segs : List Bytes) : SegIndep cfg env ci ((sg ++ a') :: segs) := by
  obtain ⟨ci0, hfresh⟩ := fresh a'
  obtain ⟨rs, h1, h2, h3⟩ := feed_steps cfg env ci T G step a' segs
  have hsgpos : 0 < sg.length := List.length_pos_iff.2 hsg
  have hflat : ((sg ++ a') :: segs).flatten = sg ++ (a' ++ segs.flatten) := by
    simp only [List.flatten_cons, List.append_assoc]
  -- the part of the stream after the signature, up to the end of segment k
  have hend : ∀ k, endOff ((sg ++ a') :: segs) k = sg.length + (a' ++ (segs.take k).flatten).length := by
    intro k
    unfold endOff
    simp only [List.take_succ_cons, List.flatten_cons, List.length_append]
    omega
  have htk : ∀ k, (a' ++ segs.flatten).take (a' ++ (segs.take k).flatten).length = a' ++ (segs.take k).flatten := by
    intro k
    have : a' ++ segs.flatten = (a' ++ (segs.take k).flatten) ++ (segs.drop k).flatten := by
      rw [List.append_assoc, ← List.flatten_append, List.take_append_drop]
    rw [this, List.take_left']
    rfl
  refine segIndep_of_prefix cfg env ci _
    (fun n => if n < sg.length then none else G ((a' ++ segs.flatten).take (n - sg.length)))
    (T (a' ++ segs.flatten)) (G a' :: rs) ?_ (by simp [h2]) ?_ ?_ ?_ ?_
  · rw [feed_cons_ok cfg env ci ci0 _ _ _ segs _ hfresh, h1]
  · intro k hk
    rw [hend k]
    have hn : ¬ sg.length + (a' ++ (segs.take k).flatten).length < sg.length := by omega
    simp only [if_neg hn, Nat.add_sub_cancel_left]
    rw [htk k]
    cases k with
    | zero => simp
    | succ k =>
      simp only [List.length_cons] at hk
      rw [List.getElem?_cons_succ, h3 k (by omega)]
  · intro n hn
    rw [hflat] at hn ⊢
    by_cases hlt : n < sg.length
    · simp only [if_pos hlt]
      have e : (sg ++ (a' ++ segs.flatten)).take n = sg.take n := by
        rw [List.take_append_of_le_length (by omega)]
      obtain ⟨ci', t', hs⟩ := short n hlt
      unfold unseg
      rw [e, hs]
    · simp only [if_neg hlt]
      have e : (sg ++ (a' ++ segs.flatten)).take n = sg ++ (a' ++ segs.flatten).take (n - sg.length) := by
        rw [List.take_append, List.take_of_length_le (by omega)]
      obtain ⟨ci', hs⟩ := fresh ((a' ++ segs.flatten).take (n - sg.length))
      unfold unseg
      rw [e, hs]
  · intro n n' hnn hn' hg
    by_cases hlt : n < sg.length
    · simp only [if_pos hlt] at hg; exact absurd rfl hg
    · have hlt' : ¬ n' < sg.length := by omega
      simp only [if_neg hlt] at hg
      simp only [if_neg hlt, if_neg hlt']
      have e : n' - sg.length = (n - sg.length) + (n' - n) := by omega
      rw [e, List.take_add]
      exact mono _ _ hg
  · simp only [if_pos hsgpos]

end Masscanned.C11
