/-
  Proofs/C11/Proto — `proto::repl` on a TCP control block: identification (signature completed in
  the first segment, or not yet), then the HTTP and the ONC-RPC handler as functions of the stream
  consumed so far.
-/
import Masscanned.Proofs.C11.Feed
import Masscanned.Proofs.RpcFix.SegFirst
import Masscanned.Thm.C13
import Masscanned.Thm.C16
import Masscanned.Proofs.C01.Http
open Masscanned
namespace Masscanned.C11
open Aux

/-! ### signatures -/

/-- the matcher, started on a fresh flow, completes a signature of protocol `id` exactly at the last
    byte of `sg` (`st` = the matcher state it stores) -/
def Sig (sg : Bytes) (id st : Nat) : Prop :=
  protoTbl.searchNext baseState sg = .ok (id, st, sg.length) ∧ id ≠ noMatch

theorem base_lt : baseState < protoTbl.matchLimit := by decide

/-- bytes after a completed signature are not looked at -/
theorem sig_append {sg : Bytes} {id st : Nat} (h : Sig sg id st) (x : Bytes) :
    protoTbl.searchNext baseState (sg ++ x) = .ok (id, st, sg.length) := by
  rw [searchNext_append protoTbl_ok baseState base_lt sg x, h.1]
  simp only [if_neg h.2]

/-- a proper prefix of a signature is not identified: `NO_MATCH`, and a plain row is stored -/
theorem sig_take {sg : Bytes} {id st : Nat} (h : Sig sg id st) (n : Nat) (hn : n < sg.length) :
    ∃ st', protoTbl.searchNext baseState (sg.take n) = .ok (noMatch, st', (sg.take n).length) ∧
      st' < protoTbl.matchLimit := by
  obtain ⟨id', st', c, h1, h2⟩ := searchNext_total protoTbl_ok baseState base_lt (sg.take n)
  rcases h2 with ⟨e1, e2, e3⟩ | ⟨e1, e2, e3⟩
  · subst e1 e3; exact ⟨st', h1, e2⟩
  · exfalso
    have := searchNext_append protoTbl_ok baseState base_lt (sg.take n) (sg.drop n)
    rw [List.take_append_drop, h.1, h1] at this
    simp only [if_neg e1, Except.ok.injEq, Prod.mk.injEq] at this
    have hl : (sg.take n).length ≤ n := by simp [List.length_take]; omega
    omega

theorem sig_ne_nil {sg : Bytes} {id st : Nat} (h : Sig sg id st) : sg ≠ [] := by
  intro e
  subst e
  obtain ⟨id', st', c, h1, h2⟩ := searchNext_total protoTbl_ok baseState base_lt []
  rw [h.1] at h1
  simp only [Except.ok.injEq, Prod.mk.injEq] at h1
  rcases h2 with ⟨e1, _, _⟩ | ⟨_, e2, e3⟩
  · exact h.2 (h1.1.trans e1)
  · simp at e3; omega

/-- if the matcher reports an id somewhere inside `a`, the bytes up to there form a signature -/
theorem sig_of_found {a : Bytes} {id st n : Nat}
    (h : protoTbl.searchNext baseState a = .ok (id, st, n)) (hid : id ≠ noMatch) :
    Sig (a.take n) id st ∧ n ≤ a.length := by
  obtain ⟨id0, st0, c0, g1, g2⟩ := searchNext_total protoTbl_ok baseState base_lt a
  rw [h] at g1
  simp only [Except.ok.injEq, Prod.mk.injEq] at g1
  obtain ⟨e1, e2, e3⟩ := g1
  subst e1 e2 e3
  have hle : n ≤ a.length := by
    rcases g2 with ⟨e, _, _⟩ | ⟨_, _, e⟩
    · exact absurd e hid
    · exact e
  have hlen : (a.take n).length = n := by simp [List.length_take]; omega
  refine ⟨⟨?_, hid⟩, hle⟩
  obtain ⟨id', st', c, h1, h2⟩ := searchNext_total protoTbl_ok baseState base_lt (a.take n)
  have happ := searchNext_append protoTbl_ok baseState base_lt (a.take n) (a.drop n)
  rw [List.take_append_drop, h, h1] at happ
  rcases h2 with ⟨e1, e2, e3⟩ | ⟨e1, e2, e3⟩
  · exfalso
    subst e1
    simp only [if_true] at happ
    obtain ⟨id2, st2, c2, k1, k2⟩ := searchNext_total protoTbl_ok st' e2 (a.drop n)
    rw [k1] at happ
    simp only [Except.ok.injEq, Prod.mk.injEq] at happ
    obtain ⟨f1, f2, f3⟩ := happ
    rcases k2 with ⟨e, _, _⟩ | ⟨_, e, _⟩
    · exact hid (f1.trans e)
    · omega
  · simp only [if_neg e1, Except.ok.injEq, Prod.mk.injEq] at happ
    obtain ⟨f1, f2, f3⟩ := happ
    rw [h1, ← f1, ← f2, ← f3, hlen, f3]

/-! ### identification over the segments of a flow -/

/-- the identification part of `proto::repl` over the segments of a flow: one `search_next` per
    segment from the stored state, until an id is reported -/
def identSegs : Nat → List Bytes → Except Site (Nat × Nat)
  | st, [] => .ok (noMatch, st)
  | st, d :: ds =>
    match protoTbl.searchNext st d with
    | .error e => .error e
    | .ok (id, st', _) => if id = noMatch then identSegs st' ds else .ok (id, st')

theorem identSegs_flatten (st : Nat) (hst : st < protoTbl.matchLimit) (segs : List Bytes) :
    identSegs st segs =
      match protoTbl.searchNext st segs.flatten with
      | .error e => .error e
      | .ok (id, st', _) => .ok (id, st') := by
  induction segs generalizing st with
  | nil =>
    obtain ⟨id, st', c, h1, h2⟩ := searchNext_total protoTbl_ok st hst []
    have hin := searchNext_of_inner protoTbl_ok st hst [] 0 st (innerMatch_nil _ _ _)
      (by have := protoTbl_ok.lim_le; omega)
    rw [if_pos hst] at hin
    rw [identSegs, List.flatten_nil, hin]
  | cons d ds ih =>
    rw [identSegs, List.flatten_cons, searchNext_append protoTbl_ok st hst]
    obtain ⟨id, st', c, h1, h2⟩ := searchNext_total protoTbl_ok st hst d
    rw [h1]
    rcases h2 with ⟨e1, e2, _⟩ | ⟨e1, _, _⟩
    · subst e1
      simp only [if_true]
      rw [ih st' e2]
      cases protoTbl.searchNext st' ds.flatten with
      | error e => rfl
      | ok p => obtain ⟨a, b, c⟩ := p; rfl
    · simp only [if_neg e1]

/-! ### `proto::repl` on a control block -/

/-- TCP data always comes with the flow's cookie (`tcp::repl` sets it before handing data up) -/
def HasCookie (ci : ClientInfo) : Prop := ¬(ci.transport = some 6 ∧ ci.cookie = none)

theorem protoRepl_unidentified (cfg : Cfg) (env : Env) (ci : ClientInfo) (hc : HasCookie ci) (t : Tcb)
    (ht : t.protoId = PROTO_NONE) (d : Bytes) (id st n : Nat)
    (hs : protoTbl.searchNext t.smackState d = .ok (id, st, n)) :
    protoRepl cfg env ci (some t) d =
      protoHandle cfg env id ci (some { t with protoId := id, smackState := st }) d := by
  unfold protoRepl
  rw [if_neg hc]
  simp only [if_pos ht, hs]

theorem protoRepl_identified (cfg : Cfg) (env : Env) (ci : ClientInfo) (hc : HasCookie ci) (t : Tcb)
    (ht : t.protoId ≠ PROTO_NONE) (d : Bytes) :
    protoRepl cfg env ci (some t) d = protoHandle cfg env t.protoId ci (some t) d := by
  unfold protoRepl
  rw [if_neg hc]
  simp only [if_neg ht]

theorem protoHandle_noMatch (cfg : Cfg) (env : Env) (ci : ClientInfo) (t : Tcb) (d : Bytes) :
    protoHandle cfg env noMatch ci (some t) d = .ok (ci, some { t with protoId := PROTO_NONE }, none) := by
  unfold protoHandle
  simp [noMatch, PROTO_HTTP, PROTO_STUN, PROTO_SSH, PROTO_GHOST, PROTO_RPC_TCP, PROTO_RPC_UDP, PROTO_SMB1,
    PROTO_SMB2]

/-- **while no signature is completed** the segment gets a bare ACK and the block only records the
    matcher row -/
theorem protoRepl_noMatch (cfg : Cfg) (env : Env) (ci : ClientInfo) (hc : HasCookie ci) (t : Tcb)
    (ht : t.protoId = PROTO_NONE) (d : Bytes) (st n : Nat)
    (hs : protoTbl.searchNext t.smackState d = .ok (noMatch, st, n)) :
    protoRepl cfg env ci (some t) d = .ok (ci, some { t with smackState := st }, none) := by
  rw [protoRepl_unidentified cfg env ci hc t ht d _ _ _ hs, protoHandle_noMatch]
  obtain ⟨a, b, c⟩ := t
  simp only at ht
  subst ht
  rfl

theorem protoRepl_short (cfg : Cfg) (env : Env) (ci : ClientInfo) (hc : HasCookie ci)
    {sg : Bytes} {id st : Nat} (h : Sig sg id st) (n : Nat) (hn : n < sg.length) :
    ∃ ci' t', protoRepl cfg env ci (some {}) (sg.take n) = .ok (ci', t', none) := by
  obtain ⟨st', h1, _⟩ := sig_take h n hn
  exact ⟨_, _, protoRepl_noMatch cfg env ci hc {} rfl _ _ _ h1⟩

/-- segments that do not complete a signature get bare ACKs; the block ends up holding only the row -/
theorem feed_unidentified (cfg : Cfg) (env : Env) (ci : ClientInfo) (hc : HasCookie ci) (t : Tcb)
    (ht : t.protoId = PROTO_NONE) (hst : t.smackState < protoTbl.matchLimit) (segs : List Bytes) (st : Nat)
    (h : identSegs t.smackState segs = .ok (noMatch, st)) :
    feed cfg env ci t segs = .ok ({ t with smackState := st }, segs.map (fun _ => none)) := by
  induction segs generalizing t with
  | nil =>
    rw [identSegs] at h
    simp only [Except.ok.injEq, Prod.mk.injEq, true_and] at h
    subst h
    rw [feed_nil]; rfl
  | cons d ds ih =>
    rw [identSegs] at h
    obtain ⟨id, st', c, h1, h2⟩ := searchNext_total protoTbl_ok t.smackState hst d
    rw [h1] at h
    rcases h2 with ⟨e1, e2, _⟩ | ⟨e1, _, _⟩
    · subst e1
      simp only [if_true] at h
      rw [feed_cons_ok cfg env ci ci t { t with smackState := st' } d ds none
        (protoRepl_noMatch cfg env ci hc t ht d st' c h1), ih { t with smackState := st' } ht e2 h]
      rfl
    · simp only [if_neg e1, Except.ok.injEq, Prod.mk.injEq] at h
      exact absurd h.1 e1

/-- without a cookie nothing is ever looked at (unreachable from `tcp::repl`) -/
theorem protoRepl_nocookie (cfg : Cfg) (env : Env) (ci : ClientInfo) (hc : ¬ HasCookie ci) (t : Tcb) (d : Bytes) :
    protoRepl cfg env ci (some t) d = .ok (ci, some t, none) := by
  unfold protoRepl
  rw [if_pos (Classical.not_not.1 hc)]

theorem segIndep_nocookie (cfg : Cfg) (env : Env) (ci : ClientInfo) (hc : ¬ HasCookie ci) (all : List Bytes) :
    SegIndep cfg env ci all := by
  have hfeed : ∀ (t : Tcb) (segs : List Bytes), ∃ rs, feed cfg env ci t segs = .ok (t, rs) ∧ rs.length = segs.length ∧
      ∀ k, k < segs.length → rs[k]? = some none := by
    intro t segs
    induction segs with
    | nil => exact ⟨[], feed_nil _ _ _ _, rfl, fun k hk => by simp at hk⟩
    | cons d ds ih =>
      obtain ⟨rs, h1, h2, h3⟩ := ih
      refine ⟨none :: rs, ?_, by simp [h2], ?_⟩
      · rw [feed_cons_ok cfg env ci ci t t d ds none (protoRepl_nocookie cfg env ci hc t d), h1]
      · intro k hk
        cases k with
        | zero => rfl
        | succ k => simp only [List.length_cons] at hk; simpa using h3 k (by omega)
  obtain ⟨rs, h1, h2, h3⟩ := hfeed {} all
  refine segIndep_of_prefix cfg env ci all (fun _ => none) {} rs h1 h2 h3 ?_ (fun _ _ _ _ h => absurd rfl h) rfl
  intro n _
  unfold unseg
  rw [protoRepl_nocookie cfg env ci hc]

/-- an empty data segment on a fresh block changes nothing -/
theorem protoRepl_fresh_nil (cfg : Cfg) (env : Env) (ci : ClientInfo) :
    protoRepl cfg env ci (some {}) [] = .ok (ci, some {}, none) := by
  by_cases hc : HasCookie ci
  · have hin := searchNext_of_inner protoTbl_ok baseState base_lt [] 0 baseState (innerMatch_nil _ _ _) (by decide)
    rw [if_pos base_lt] at hin
    exact protoRepl_noMatch cfg env ci hc {} rfl [] baseState 0 hin
  · exact protoRepl_nocookie cfg env ci hc {} []

/-- leading empty segments do not matter -/
theorem segIndep_cons_nil (cfg : Cfg) (env : Env) (ci : ClientInfo) (all : List Bytes)
    (h : SegIndep cfg env ci all) : SegIndep cfg env ci ([] :: all) := by
  obtain ⟨t, rs, R, h1, h2, h3, h4⟩ := h
  have hf : ([] :: all).flatten = all.flatten := by simp
  refine ⟨t, none :: rs, R, ?_, by simp [h2], by rw [hf]; exact h3, ?_⟩
  · rw [feed_cons_ok cfg env ci ci {} {} [] all none (protoRepl_fresh_nil cfg env ci), h1]
  · rw [hf]
    cases htr : trig cfg env ci all.flatten with
    | none =>
      rw [htr] at h4
      refine ⟨h4.1, ?_⟩
      intro k hk
      cases k with
      | zero => rfl
      | succ k =>
        simp only [List.length_cons] at hk
        simpa using h4.2 k (by omega)
    | some n =>
      rw [htr] at h4
      obtain ⟨a, b, c, d⟩ := h4
      refine ⟨a, b, c, ?_⟩
      intro k hk
      cases k with
      | zero =>
        have e : endOff ([] :: all) 0 = 0 := by simp [endOff]
        rw [e]
        exact ⟨fun _ => rfl, fun hle => by omega⟩
      | succ k =>
        simp only [List.length_cons] at hk
        rw [endOff_cons_succ]
        simpa using d k (by omega)

/-! ### HTTP -/

theorem protoHandle_http_fresh (cfg : Cfg) (env : Env) (ci : ClientInfo) (t : Tcb) (ht : t.protoState = none)
    (d : Bytes) :
    protoHandle cfg env PROTO_HTTP ci (some t) d =
      match httpRepl env {} d with
      | .error e => .error e
      | .ok (s', r) => .ok (ci, some { t with protoState := some (.http s') }, r) := by
  unfold protoHandle
  rw [if_pos rfl]
  simp only [ht]
  cases httpRepl env {} d with
  | error e => rfl
  | ok p => obtain ⟨s', r⟩ := p; rfl

theorem protoHandle_http_cont (cfg : Cfg) (env : Env) (ci : ClientInfo) (t : Tcb) (ps : HttpSt)
    (ht : t.protoState = some (.http ps)) (d : Bytes) :
    protoHandle cfg env PROTO_HTTP ci (some t) d =
      match httpRepl env ps d with
      | .error e => .error e
      | .ok (s', r) => .ok (ci, some { t with protoState := some (.http s') }, r) := by
  unfold protoHandle
  rw [if_pos rfl]
  simp only [ht]
  cases httpRepl env ps d with
  | error e => rfl
  | ok p => obtain ⟨s', r⟩ := p; rfl

/-- matcher state stored once `sg` has been identified -/
def sigState (sg : Bytes) : Nat :=
  match protoTbl.searchNext baseState sg with
  | .ok (_, st, _) => st
  | .error _ => 0

/-- the nine HTTP signatures `METHOD SP /` are completed exactly at their last byte, id `PROTO_HTTP` -/
theorem http_sigs_run :
    (Spec.httpMethods.all fun m =>
      match protoTbl.searchNext baseState (m ++ [32, 47]) with
      | .ok (id, _, n) => decide (id = PROTO_HTTP) && decide (n = (m ++ [32, 47]).length)
      | .error _ => false) = true := by
  decide +kernel

theorem http_sig (m : Bytes) (hm : m ∈ Spec.httpMethods) :
    Sig (m ++ [32, 47]) PROTO_HTTP (sigState (m ++ [32, 47])) := by
  have h := List.all_eq_true.1 http_sigs_run m hm
  unfold Sig sigState
  cases hs : protoTbl.searchNext baseState (m ++ [32, 47]) with
  | error e => rw [hs] at h; cases h
  | ok p =>
    obtain ⟨id, st, n⟩ := p
    rw [hs] at h
    simp only [Bool.and_eq_true, decide_eq_true_eq] at h
    obtain ⟨h1, h2⟩ := h
    subst h1 h2
    exact ⟨rfl, by decide⟩

/-- the parser state STORED after the stream `m ++ " /" ++ x`: the initial one once the request has been
    answered (`*pstate = ProtocolState::new()` in `http::repl`) -/
def httpStored (m x : Bytes) : HttpSt :=
  if httpFold .space (32 :: 47 :: x) = .content then {}
  else { state := httpFold .space (32 :: 47 :: x), smackState := C13.Aux.methodRow (m.map Spec.lowerB), smackId := 0 }

/-- control block of an HTTP flow after the stream `m ++ " /" ++ x` -/
def httpBlock (m x : Bytes) : Tcb :=
  { smackState := sigState (m ++ [32, 47]), protoId := PROTO_HTTP,
    protoState := some (.http (httpStored m x)) }

/-- reply to the segment that ends the stream `m ++ " /" ++ x` (as long as nothing has been answered) -/
def httpOut (env : Env) (x : Bytes) : Option Bytes :=
  if httpFold .space (32 :: 47 :: x) = .content then some (httpReplyBytes env) else none

theorem http_fresh (cfg : Cfg) (env : Env) (ci : ClientInfo) (hc : HasCookie ci) (m : Bytes)
    (hm : m ∈ Spec.httpMethods) (x : Bytes) :
    protoRepl cfg env ci (some {}) ((m ++ [32, 47]) ++ x) = .ok (ci, some (httpBlock m x), httpOut env x) := by
  rw [protoRepl_unidentified cfg env ci hc {} rfl _ _ _ _ (sig_append (http_sig m hm) x),
    protoHandle_http_fresh cfg env ci _ rfl]
  have e : (m ++ [32, 47]) ++ x = m ++ (32 :: 47 :: x) := by simp
  rw [e, C13.httpRepl_of_parse (C13.verb_phase m hm _)]
  unfold httpBlock httpStored httpOut
  by_cases hcnt : httpFold .space (32 :: 47 :: x) = .content
  · simp only [hcnt, if_true]
  · simp only [hcnt, if_false]

/-- a further segment while nothing has been answered yet -/
theorem http_step (cfg : Cfg) (env : Env) (ci : ClientInfo) (hc : HasCookie ci) (m x d : Bytes)
    (hx : httpOut env x = none) :
    protoRepl cfg env ci (some (httpBlock m x)) d =
      .ok (ci, some (httpBlock m (x ++ d)), httpOut env (x ++ d)) := by
  have hnc : httpFold .space (32 :: 47 :: x) ≠ .content := by
    intro h; unfold httpOut at hx; rw [if_pos h] at hx; cases hx
  rw [protoRepl_identified cfg env ci hc _ (Nat.succ_ne_zero 0)]
  show protoHandle cfg env PROTO_HTTP ci (some (httpBlock m x)) d = _
  rw [protoHandle_http_cont cfg env ci _ _ rfl]
  have hst : httpStored m x = (⟨httpFold .space (32 :: 47 :: x),
      C13.Aux.methodRow (m.map Spec.lowerB), 0⟩ : HttpSt) := by
    unfold httpStored; rw [if_neg hnc]
  rw [hst, C13.httpRepl_of_parse
    (C13.http_parse_past_verb _ (C13.http_fold_past_verb .space _ ⟨by decide, by decide⟩) d)]
  have e : httpFold (httpFold .space (32 :: 47 :: x)) d = httpFold .space (32 :: 47 :: (x ++ d)) := by
    rw [← C13.http_fold_append]; rfl
  unfold httpBlock httpStored httpOut
  simp only [e]
  by_cases hcnt : httpFold .space (32 :: 47 :: (x ++ d)) = .content
  · simp only [hcnt, if_true]
  · simp only [hcnt, if_false]

theorem http_mono (env : Env) (x y : Bytes) (h : httpOut env x ≠ none) : httpOut env (x ++ y) = httpOut env x := by
  unfold httpOut at h ⊢
  by_cases hcnt : httpFold .space (32 :: 47 :: x) = .content
  · have : httpFold .space (32 :: 47 :: (x ++ y)) = .content := by
      have e : 32 :: 47 :: (x ++ y) = (32 :: 47 :: x) ++ y := rfl
      rw [e, C13.http_fold_append, hcnt, C13.Aux.fold_content]
    rw [if_pos hcnt, if_pos this]
  · rw [if_neg hcnt] at h; exact absurd rfl h

/-- invariant of the control block of a flow identified as HTTP: the stored parser state is one the
    parser can have stored (`C01.HttpInv`) -/
def HttpBlockInv (t : Tcb) : Prop :=
  t.protoId = PROTO_HTTP ∧ ∃ s, t.protoState = some (.http s) ∧ C01.HttpInv s

theorem httpBlock_inv (m x : Bytes) : HttpBlockInv (httpBlock m x) := by
  refine ⟨rfl, _, rfl, ?_⟩
  unfold httpStored
  split
  · exact C01.httpInv_init
  · intro hsv
    have := C13.http_fold_past_verb .space (32 :: 47 :: x) ⟨by decide, by decide⟩
    rcases hsv with e | e
    · exact absurd e this.1
    · exact absurd e this.2

/-- whatever has been stored, `proto::repl` does not panic on a further segment (the flow stays HTTP,
    the stored state stays within the invariant of the parser) -/
theorem http_total (cfg : Cfg) (env : Env) (ci : ClientInfo) (hc : HasCookie ci) (t : Tcb) (d : Bytes)
    (ht : HttpBlockInv t) :
    ∃ ci' t' r, protoRepl cfg env ci (some t) d = .ok (ci', some t', r) ∧ HttpBlockInv t' := by
  obtain ⟨hid, s, hs, hinv⟩ := ht
  obtain ⟨s', r, hr, hinv', _⟩ := C01.httpRepl_ok env s d hinv
  refine ⟨ci, { t with protoState := some (.http s') }, r, ?_, hid, s', rfl, hinv'⟩
  rw [protoRepl_identified cfg env ci hc t (by rw [hid]; decide), hid,
    protoHandle_http_cont cfg env ci t s hs, hr]
  simp only [hid]

/-! ### ONC-RPC over TCP -/

theorem protoHandle_rpc_fresh (cfg : Cfg) (env : Env) (ci : ClientInfo) (t : Tcb) (ht : t.protoState = none)
    (d : Bytes) :
    protoHandle cfg env PROTO_RPC_TCP ci (some t) d =
      match rpcReplTcp cfg.ovf {} ci d with
      | .error e => .error e
      | .ok (s', r) => .ok (ci, some { t with protoState := some (.rpc s') }, r) := by
  unfold protoHandle
  simp only [PROTO_RPC_TCP, PROTO_HTTP, PROTO_STUN, PROTO_SSH, PROTO_GHOST, ht]
  simp
  cases rpcReplTcp cfg.ovf {} ci d with
  | error e => rfl
  | ok p => obtain ⟨s', r⟩ := p; rfl

theorem protoHandle_rpc_cont (cfg : Cfg) (env : Env) (ci : ClientInfo) (t : Tcb) (s : RpcSt)
    (ht : t.protoState = some (.rpc s)) (d : Bytes) :
    protoHandle cfg env PROTO_RPC_TCP ci (some t) d =
      match rpcReplTcp cfg.ovf s ci d with
      | .error e => .error e
      | .ok (s', r) => .ok (ci, some { t with protoState := some (.rpc s') }, r) := by
  unfold protoHandle
  simp only [PROTO_RPC_TCP, PROTO_HTTP, PROTO_STUN, PROTO_SSH, PROTO_GHOST, ht]
  simp
  cases rpcReplTcp cfg.ovf s ci d with
  | error e => rfl
  | ok p => obtain ⟨s', r⟩ := p; rfl

/-- parser state after the stream `p` on a fresh flow -/
def rpcSt (ovf : Bool) (p : Bytes) : RpcSt :=
  match rpcParse ovf {} p with
  | .ok s => s
  | .error _ => {}

/-- reply of `repl_tcp` in parser state `s` (no more input) -/
def rpcOut (ovf : Bool) (ci : ClientInfo) (s : RpcSt) : Option Bytes :=
  match rpcReplTcp ovf s ci [] with
  | .ok (_, r) => r
  | .error _ => none

theorem rpcSt_spec (ovf : Bool) (p : Bytes) : rpcParse ovf {} p = .ok (rpcSt ovf p) ∧ C16.RpcInv (rpcSt ovf p) := by
  obtain ⟨s, h1, h2⟩ := C16.rpcParse_inv ovf {} p C16.rpcInv_init
  unfold rpcSt
  rw [h1]
  exact ⟨rfl, h2⟩

theorem rpcSt_append (ovf : Bool) (p d : Bytes) : rpcParse ovf (rpcSt ovf p) d = .ok (rpcSt ovf (p ++ d)) := by
  have h := C16.rpc_parse_append ovf {} p d
  rw [(rpcSt_spec ovf p).1, (rpcSt_spec ovf (p ++ d)).1] at h
  exact h.symm

/-- the parser state STORED after the stream `p`: the initial one once the call has been answered
    (`*pstate = ProtocolState::new()` in `repl_tcp`) -/
def rpcStored (ovf : Bool) (p : Bytes) : RpcSt :=
  if (rpcSt ovf p).state = .done then {} else rpcSt ovf p

theorem rpcRepl_spec (ovf : Bool) (ci : ClientInfo) (ip : Ip) (port : Nat)
    (hip : ci.ipDst = some ip) (hport : ci.portDst = some port) (p d : Bytes) :
    rpcReplTcp ovf (rpcSt ovf p) ci d = .ok (rpcStored ovf (p ++ d), rpcOut ovf ci (rpcSt ovf (p ++ d))) := by
  obtain ⟨resp, hresp⟩ := C16.rpcBuild_total (rpcSt ovf (p ++ d)) ci ip port hip hport
  unfold rpcOut rpcReplTcp rpcStored
  rw [rpcSt_append, C16.rpcParse_nil]
  simp only [hresp]
  by_cases hd : (rpcSt ovf (p ++ d)).state = .done
  · simp only [if_pos hd]
  · simp only [if_neg hd]

/-- as long as nothing has been answered the stored state is the parser state on the stream so far -/
theorem rpcStored_of_silent (ovf : Bool) (ci : ClientInfo) (ip : Ip) (port : Nat)
    (hip : ci.ipDst = some ip) (hport : ci.portDst = some port) (p : Bytes)
    (h : rpcOut ovf ci (rpcSt ovf p) = none) : rpcStored ovf p = rpcSt ovf p := by
  unfold rpcStored
  by_cases hd : (rpcSt ovf p).state = .done
  · exfalso
    obtain ⟨resp, hresp⟩ := C16.rpcBuild_total (rpcSt ovf p) ci ip port hip hport
    unfold rpcOut rpcReplTcp at h
    rw [C16.rpcParse_nil] at h
    simp only [hd, if_true, hresp] at h
    cases h
  · rw [if_neg hd]

theorem rpcStored_inv (ovf : Bool) (p : Bytes) : C16.RpcInv (rpcStored ovf p) := by
  unfold rpcStored
  split
  · exact C16.rpcInv_init
  · exact (rpcSt_spec ovf p).2

def rpcBlock (ovf : Bool) (sg : Bytes) (st : Nat) (x : Bytes) : Tcb :=
  { smackState := st, protoId := PROTO_RPC_TCP, protoState := some (.rpc (rpcStored ovf (sg ++ x))) }

theorem rpc_fresh (cfg : Cfg) (env : Env) (ci : ClientInfo) (hc : HasCookie ci) (ip : Ip) (port : Nat)
    (hip : ci.ipDst = some ip) (hport : ci.portDst = some port) (sg : Bytes) (st : Nat)
    (h : Sig sg PROTO_RPC_TCP st) (x : Bytes) :
    protoRepl cfg env ci (some {}) (sg ++ x) =
      .ok (ci, some (rpcBlock cfg.ovf sg st x), rpcOut cfg.ovf ci (rpcSt cfg.ovf (sg ++ x))) := by
  rw [protoRepl_unidentified cfg env ci hc {} rfl _ _ _ _ (sig_append h x),
    protoHandle_rpc_fresh cfg env ci _ rfl]
  have := rpcRepl_spec cfg.ovf ci ip port hip hport [] (sg ++ x)
  have e : rpcSt cfg.ovf [] = {} := rfl
  rw [e, List.nil_append] at this
  rw [this]
  rfl

/-- a further segment while nothing has been answered yet -/
theorem rpc_step (cfg : Cfg) (env : Env) (ci : ClientInfo) (hc : HasCookie ci) (ip : Ip) (port : Nat)
    (hip : ci.ipDst = some ip) (hport : ci.portDst = some port) (sg : Bytes) (st : Nat) (x d : Bytes)
    (hx : rpcOut cfg.ovf ci (rpcSt cfg.ovf (sg ++ x)) = none) :
    protoRepl cfg env ci (some (rpcBlock cfg.ovf sg st x)) d =
      .ok (ci, some (rpcBlock cfg.ovf sg st (x ++ d)), rpcOut cfg.ovf ci (rpcSt cfg.ovf (sg ++ (x ++ d)))) := by
  rw [protoRepl_identified cfg env ci hc _ (Nat.succ_ne_zero 4)]
  show protoHandle cfg env PROTO_RPC_TCP ci (some (rpcBlock cfg.ovf sg st x)) d = _
  rw [protoHandle_rpc_cont cfg env ci _ _ rfl, rpcStored_of_silent cfg.ovf ci ip port hip hport _ hx,
    rpcRepl_spec cfg.ovf ci ip port hip hport]
  simp only [rpcBlock, List.append_assoc]

/-- invariant of the control block of a flow identified as ONC-RPC over TCP -/
def RpcBlockInv (t : Tcb) : Prop :=
  t.protoId = PROTO_RPC_TCP ∧ ∃ s, t.protoState = some (.rpc s) ∧ C16.RpcInv s

theorem rpcBlock_inv (ovf : Bool) (sg : Bytes) (st : Nat) (x : Bytes) : RpcBlockInv (rpcBlock ovf sg st x) :=
  ⟨rfl, _, rfl, rpcStored_inv ovf _⟩

/-- whatever has been stored, `proto::repl` does not panic on a further segment (the flow stays
    ONC-RPC, the stored state stays within the invariant of the parser) -/
theorem rpc_total (cfg : Cfg) (env : Env) (ci : ClientInfo) (hc : HasCookie ci) (ip : Ip) (port : Nat)
    (hip : ci.ipDst = some ip) (hport : ci.portDst = some port) (t : Tcb) (d : Bytes) (ht : RpcBlockInv t) :
    ∃ ci' t' r, protoRepl cfg env ci (some t) d = .ok (ci', some t', r) ∧ RpcBlockInv t' := by
  obtain ⟨hid, s, hs, hinv⟩ := ht
  obtain ⟨s', r, hr, hinv'⟩ := (C16.rpc_no_panic cfg.ovf ci ip port hip hport).2.2.2.2 s d hinv
  refine ⟨ci, { t with protoState := some (.rpc s') }, r, ?_, hid, s', rfl, hinv'⟩
  rw [protoRepl_identified cfg env ci hc t (by rw [hid]; decide), hid,
    protoHandle_rpc_cont cfg env ci t s hs, hr]
  simp only [hid]

theorem rpcOut_done (ovf : Bool) (ci : ClientInfo) (s : RpcSt) (h : rpcOut ovf ci s ≠ none) : s.state = .done := by
  unfold rpcOut rpcReplTcp at h
  rw [C16.rpcParse_nil] at h
  simp only at h
  by_cases hd : s.state = .done
  · exact hd
  · simp only [if_neg hd] at h; exact absurd rfl h

theorem rpc_mono (ovf : Bool) (ci : ClientInfo) (sg x y : Bytes)
    (h : rpcOut ovf ci (rpcSt ovf (sg ++ x)) ≠ none) :
    rpcOut ovf ci (rpcSt ovf (sg ++ (x ++ y))) = rpcOut ovf ci (rpcSt ovf (sg ++ x)) := by
  have hd := rpcOut_done ovf ci _ h
  have := rpcSt_append ovf (sg ++ x) y
  rw [C16.rpcParse_done ovf _ y hd] at this
  simp only [Except.ok.injEq] at this
  rw [← List.append_assoc, ← this]

end Masscanned.C11
