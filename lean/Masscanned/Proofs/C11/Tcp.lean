/-
  Proofs/C11/Tcp — the TCP layer around `feed`: the data segments of one flow run through
  `tcp::repl` (`tcpRepl`) with the connection table are answered one for one, by a bare ACK where
  the application said nothing and by PSH|ACK + payload where it replied; ack = seq + len.
-/
import Masscanned.Proofs.Tcp
import Masscanned.Proofs.C11.Feed
open Masscanned
namespace Masscanned.C11

/-! ### table lemmas -/

theorem get?_set_self (t : Table) (k : Nat) (v : Tcb) (h : (t.get? k).isSome) : (t.set k v).get? k = some v := by
  have hany : t.any (·.1 = k) = true := by
    unfold Table.get? at h
    cases hf : t.find? (·.1 = k) with
    | none => rw [hf] at h; cases h
    | some e =>
      have := List.find?_some hf
      have hm := List.mem_of_find?_eq_some hf
      exact List.any_eq_true.2 ⟨e, hm, this⟩
  unfold Table.set
  rw [if_pos hany]
  unfold Table.get?
  clear h
  induction t with
  | nil => simp at hany
  | cons e es ih =>
    by_cases he : e.1 = k
    · simp [he]
    · have : es.any (·.1 = k) = true := by
        simp only [List.any_cons, Bool.or_eq_true] at hany
        rcases hany with h | h
        · exact absurd (by simpa using h) he
        · exact h
      simp only [List.map_cons, if_neg he]
      rw [List.find?_cons_of_neg (by simpa using he)]
      exact ih this

theorem get?_append_self (t : Table) (k : Nat) (v : Tcb) (h : t.get? k = none) : (t ++ [(k, v)]).get? k = some v := by
  unfold Table.get? at h ⊢
  have : t.find? (·.1 = k) = none := by
    cases hf : t.find? (·.1 = k) with
    | none => rfl
    | some e => rw [hf] at h; cases h
  rw [List.find?_append, this]
  simp

/-! ### what is sent back for one data segment -/

/-- `x` is the TCP segment sent in answer to data segment `p` when the application said `r`:
    ack = seq + payload length; bare ACK (20 bytes, flags = ACK) for `none`; PSH|ACK followed by the
    payload for `some` -/
def ReplyFor (p : Bytes) (r : Option Bytes) (x : Bytes) : Prop :=
  Spec.be32 x 8 = (rdBE (slice p 4 4) + (tcpPayload p).length) % 4294967296 ∧
  match r with
  | none => x.length = 20 ∧ Spec.tcpFlagsOf x = 16
  | some r => x.length = 20 + r.length ∧ Spec.tcpFlagsOf x = 24 ∧ x.drop 20 = r

theorem dataOut_spec (p : Bytes) (ci' : ClientInfo) (r : Option Bytes) : ∃ x, dataOut p ci' r = some x ∧ ReplyFor p r x := by
  cases r with
  | none =>
    refine ⟨_, rfl, ?_, ?_, ?_⟩
    · rw [tcpHdr_ack, Nat.mod_mod]
    · rw [tcpHdr_append_length]; rfl
    · exact tcpHdr_flags _ _ _ _ _ _ (by omega)
  | some r =>
    refine ⟨_, rfl, ?_, ?_, ?_, ?_⟩
    · rw [tcpHdr_ack, Nat.mod_mod]
    · rw [tcpHdr_append_length]
    · exact tcpHdr_flags _ _ _ _ _ _ (by omega)
    · rw [List.drop_left' (tcpHdr_length _ _ _ _ _)]

/-! ### the segments of one flow -/

/-- `tcp::repl` over a list of segments, threading the connection table; per segment the reply -/
def tcpFeed (cfg : Cfg) (env : Env) (ci : ClientInfo) : Table → List Bytes → Except Site (Table × List (Option Bytes))
  | st, [] => .ok (st, [])
  | st, p :: ps =>
    match tcpRepl cfg env st ci p with
    | .error e => .error e
    | .ok (_, _, st', out) =>
      match tcpFeed cfg env ci st' ps with
      | .error e => .error e
      | .ok (st'', outs) => .ok (st'', out :: outs)

/-- a data segment (PSH and ACK set) with the given ports -/
def DataSeg (sp dp : Nat) (p : Bytes) : Prop :=
  (tcpFlags p / 8 % 2 = 1 ∧ tcpFlags p / 16 % 2 = 1) ∧ rdBE (slice p 0 2) = sp ∧ rdBE (slice p 2 2) = dp

/-- the flow's cookie (key of the connection table) -/
def flowCk (cfg : Cfg) (ci : ClientInfo) (sp dp : Nat) : Nat :=
  match ci.ipSrc, ci.ipDst with
  | some s, some d => cookie cfg.k0 cfg.k1 s d sp dp
  | _, _ => 0

/-- the client info `tcp::repl` hands to `proto::repl` for the flow's segments -/
def flowCi (cfg : Cfg) (ci : ClientInfo) (sp dp : Nat) : ClientInfo :=
  { ci with portSrc := some sp, portDst := some dp, cookie := some (flowCk cfg ci sp dp) }

theorem tcpCk_flow {cfg : Cfg} {ci : ClientInfo} {sp dp : Nat} {p : Bytes} (h : DataSeg sp dp p) :
    tcpCk cfg ci p = flowCk cfg ci sp dp := by
  unfold tcpCk flowCk
  rw [h.2.1, h.2.2]
  cases ci.ipSrc <;> cases ci.ipDst <;> rfl

theorem tcpCi2_flow {cfg : Cfg} {ci : ClientInfo} {sp dp : Nat} {p : Bytes} (h : DataSeg sp dp p) :
    tcpCi2 cfg ci p = flowCi cfg ci sp dp := by
  unfold tcpCi2 flowCi tcpCi
  rw [tcpCk_flow h, h.2.1, h.2.2]

/-- segment by segment: what is sent back matches the application replies -/
def Replies : List Bytes → List (Option Bytes) → List (Option Bytes) → Prop
  | [], [], [] => True
  | p :: ps, r :: rs, o :: os => (∃ x, o = some x ∧ ReplyFor p r x) ∧ Replies ps rs os
  | _, _, _ => False

theorem feed_cons_inv {cfg : Cfg} {env : Env} {ci : ClientInfo} {t t' : Tcb} {d : Bytes} {ds : List Bytes}
    {rs : List (Option Bytes)} (h : feed cfg env ci t (d :: ds) = .ok (t', rs)) :
    ∃ c1 t1 r rs', protoRepl cfg env ci (some t) d = .ok (c1, t1, r) ∧
      feed cfg env ci (t1.getD t) ds = .ok (t', rs') ∧ rs = r :: rs' := by
  rw [feed] at h
  split at h
  · cases h
  · rename_i c1 t1 r hp
    split at h
    · cases h
    · rename_i t'' rs' hf
      simp only [Except.ok.injEq, Prod.mk.injEq] at h
      obtain ⟨h1, h2⟩ := h
      subst h1 h2
      exact ⟨c1, t1, r, rs', hp, hf, rfl⟩

/-- data segments of a flow that is in the table -/
theorem tcp_flow_known (cfg : Cfg) (env : Env) (ci : ClientInfo) (sp dp : Nat) (ps : List Bytes)
    (hps : ∀ p, p ∈ ps → DataSeg sp dp p) (st : Table) (tcb : Tcb)
    (hg : st.get? (flowCk cfg ci sp dp) = some tcb) (t' : Tcb) (rs : List (Option Bytes))
    (hfeed : feed cfg env (flowCi cfg ci sp dp) tcb (ps.map tcpPayload) = .ok (t', rs)) :
    ∃ st' outs, tcpFeed cfg env ci st ps = .ok (st', outs) ∧ st'.get? (flowCk cfg ci sp dp) = some t' ∧
      Replies ps rs outs := by
  induction ps generalizing st tcb rs with
  | nil =>
    rw [List.map_nil, feed_nil] at hfeed
    simp only [Except.ok.injEq, Prod.mk.injEq] at hfeed
    obtain ⟨h1, h2⟩ := hfeed
    subst h1 h2
    exact ⟨st, [], by rw [tcpFeed], hg, trivial⟩
  | cons p ps ih =>
    have hp := hps p (by simp)
    rw [List.map_cons] at hfeed
    obtain ⟨c1, t1, r, rs', hpr, hrest, hrs⟩ := feed_cons_inv hfeed
    subst hrs
    have hstep : tcpRepl cfg env st ci p =
        .ok ([ev .tcp .recv (tcpCi ci p), ev .tcp .send c1], c1,
          st.set (flowCk cfg ci sp dp) (t1.getD tcb), dataOut p c1 r) := by
      rw [tcpRepl_data cfg env st ci p hp.1, tcpCk_flow hp, tcpCi2_flow hp, hg]
      simp only [hpr]
      cases r <;> rfl
    have hg' : (st.set (flowCk cfg ci sp dp) (t1.getD tcb)).get? (flowCk cfg ci sp dp) = some (t1.getD tcb) :=
      get?_set_self st _ _ (by rw [hg]; rfl)
    obtain ⟨st', outs, h1, h2, h3⟩ := ih (fun q hq => hps q (by simp [hq])) _ _ hg' rs' hrest
    obtain ⟨x, hx, hrf⟩ := dataOut_spec p c1 r
    refine ⟨st', dataOut p c1 r :: outs, ?_, h2, ⟨x, hx, hrf⟩, h3⟩
    rw [tcpFeed, hstep]
    simp only [h1]

/-- the whole flow: first data segment acknowledging the SYN cookie (flow not yet in the table), then
    further data segments -/
theorem tcp_flow_new (cfg : Cfg) (env : Env) (ci : ClientInfo) (sp dp : Nat) (p0 : Bytes) (ps : List Bytes)
    (hps : ∀ p, p ∈ p0 :: ps → DataSeg sp dp p) (st : Table)
    (hg : st.get? (flowCk cfg ci sp dp) = none) (hack : flowCk cfg ci sp dp = tcpAckno p0)
    (t' : Tcb) (rs : List (Option Bytes))
    (hfeed : feed cfg env (flowCi cfg ci sp dp) {} ((p0 :: ps).map tcpPayload) = .ok (t', rs)) :
    ∃ st' outs, tcpFeed cfg env ci st (p0 :: ps) = .ok (st', outs) ∧ st'.get? (flowCk cfg ci sp dp) = some t' ∧
      Replies (p0 :: ps) rs outs := by
  have hp := hps p0 (by simp)
  rw [List.map_cons] at hfeed
  obtain ⟨c1, t1, r, rs', hpr, hrest, hrs⟩ := feed_cons_inv hfeed
  subst hrs
  have hstep : tcpRepl cfg env st ci p0 =
      .ok ([ev .tcp .recv (tcpCi ci p0), ev .tcp .send c1], c1,
        st ++ [(flowCk cfg ci sp dp, t1.getD {})], dataOut p0 c1 r) := by
    rw [tcpRepl_data cfg env st ci p0 hp.1, tcpCk_flow hp, tcpCi2_flow hp, hg]
    simp only [ne_eq, hack, not_true_eq_false, if_false]
    rw [← hack]
    simp only [hpr]
    cases r <;> rfl
  have hg' := get?_append_self st (flowCk cfg ci sp dp) (t1.getD {}) hg
  obtain ⟨st', outs, h1, h2, h3⟩ := tcp_flow_known cfg env ci sp dp ps (fun q hq => hps q (by simp [hq])) _ _ hg' t' rs' hrest
  obtain ⟨x, hx, hrf⟩ := dataOut_spec p0 c1 r
  refine ⟨st', dataOut p0 c1 r :: outs, ?_, h2, ⟨x, hx, hrf⟩, h3⟩
  rw [tcpFeed, hstep]
  simp only [h1]

end Masscanned.C11
