/-
  Proofs/C15/Repl — the STUN responder (`stunParse`, `stunRepl`) against the Spec's message
  parser: a message the Spec accepts is parsed by the model with the same class / id and the
  Rust "method" (byte 1 with bit 4 cleared); the reply the model builds parses, for the Spec, as
  a complete Binding Success Response with one MAPPED-ADDRESS.
-/
import Masscanned.Proofs.C15.Bridge
namespace Masscanned
open Spec

/-- an address as the IP layers produce it: 4 bytes (IPv4) or 16 bytes (IPv6) -/
def IpWf : Ip → Prop
  | .v4 a => a.length = 4
  | .v6 a => a.length = 16

instance : DecidablePred IpWf := fun ip => by cases ip <;> unfold IpWf <;> infer_instance

/-- the value the Rust code calls `method` (after fix D15):
    `(((data[0] & 0b00111110) as u16) << 7) | ((data[1] & 0b11101111) as u16)` — raw bit positions,
    byte-0 method bits at 8..12, byte 1 with bit 4 cleared at 0..7; compared with 1 -/
def rustMethod (d : Bytes) : Nat := (at8 d 0 / 2 % 32) * 256 + (at8 d 1 / 32 % 8) * 32 + at8 d 1 % 16
def rustClass (d : Bytes) : Nat := (at8 d 0 % 2) * 2 + (at8 d 1 / 16 % 2)

theorem parseStun_inv {p : Bytes} {m : StunMsg} (h : parseStun p = some m) :
    20 ≤ p.length ∧ u8 p 0 < 64 ∧ p.length = 20 + be16 p 2 ∧
    stunTlvs (be16 p 2 + 1) (p.drop 20) = some m.attrs ∧
    m.cls = (u8 p 0 % 2) * 2 + (u8 p 1 / 16 % 2) ∧
    m.method = (u8 p 0 / 2 % 32) * 128 + (u8 p 1 / 32 % 8) * 16 + u8 p 1 % 16 ∧
    m.tid = sub p 4 16 := by
  unfold parseStun at h
  split at h
  · cases h
  · rename_i h1
    dsimp only at h
    split at h
    · cases h
    · rename_i h2
      split at h
      · cases h
      · rename_i attrs ht
        cases h
        have := u8_lt p 0; have := u8_lt p 1
        refine ⟨by omega, by omega, by omega, ht, ?_, ?_, rfl⟩
        · simp only [be16, Nat.zero_add]; omega
        · simp only [be16, Nat.zero_add]; omega

/-- class 0 / method 1 for the Spec pins the first two bytes to `00 01` -/
theorem binding_bytes {p : Bytes} {m : StunMsg} (h : parseStun p = some m) (hc : m.cls = 0)
    (hm : m.method = 1) : at8 p 0 = 0 ∧ at8 p 1 = 1 := by
  obtain ⟨_, h64, _, _, ec, em, _⟩ := parseStun_inv h
  rw [at8_eq_u8, at8_eq_u8]
  have := u8_lt p 0; have := u8_lt p 1
  omega

/-- the Rust "method" is 1 exactly when the 12 method bits, decoded as in RFC 5389, are Binding -/
theorem rustMethod_eq_one_iff {p : Bytes} {m : StunMsg} (h : parseStun p = some m) :
    rustMethod p = 1 ↔ m.method = 1 := by
  obtain ⟨_, _, _, _, _, em, _⟩ := parseStun_inv h
  unfold rustMethod
  rw [at8_eq_u8, at8_eq_u8]
  have := u8_lt p 0; have := u8_lt p 1
  omega

theorem stunParse_of_parseStun {p : Bytes} {m : StunMsg} (h : parseStun p = some m)
    (hl : p.length ≤ 65535) :
    ∃ attrs, stunParse p = .ok (some { cls := m.cls, method := rustMethod p, id := m.tid, attrs := attrs }) ∧
      bumps attrs = changePortCount m := by
  obtain ⟨h20, h64, hlen, htl, hc, hm, ht⟩ := parseStun_inv h
  have e2 : rdBE (slice p 2 2) = be16 p 2 := rdBE_slice2 (by omega)
  have hs : slice p 20 (be16 p 2) = p.drop 20 := by
    unfold slice; apply List.take_of_length_le; simp; omega
  obtain ⟨l', hl', hb⟩ := stunAttrs_of_tlvs _ _ _ htl (be16 p 2 + 1) (by simp; omega)
  refine ⟨l', ?_, by rw [hb, changePortCount_eq]⟩
  unfold stunParse
  rw [if_neg (by omega)]
  simp only [e2]
  rw [if_neg (by omega), if_neg (by omega), hs, hl']
  rw [hc, ht]; rfl

/-- beyond 65535 bytes the `u16` addition `20 + length` is the panic site -/
theorem stunParse_overflow {p : Bytes} {m : StunMsg} (h : parseStun p = some m)
    (hl : 65535 < p.length) : stunParse p = .error .stunOverflow := by
  obtain ⟨h20, h64, hlen, htl, hc, hm, ht⟩ := parseStun_inv h
  have e2 : rdBE (slice p 2 2) = be16 p 2 := rdBE_slice2 (by omega)
  unfold stunParse
  rw [if_neg (by omega)]
  simp only [e2]
  rw [if_neg (by omega), if_pos (by omega)]

/-! ### the reply -/

theorem parseStun_reply (id at_ : Bytes) (l : List (Nat × Bytes)) (hid : id.length = 16)
    (hat : at_.length < 65536) (ht : stunTlvs (at_.length + 1) at_ = some l) :
    parseStun ([1, 1] ++ u16be at_.length ++ id ++ at_) =
      some { cls := 2, method := 1, tid := id, attrs := l } := by
  have hlen : ([1, 1] ++ u16be at_.length ++ id ++ at_).length = 20 + at_.length := by
    simp [u16be, hid]; omega
  have h0 : u8 ([1, 1] ++ u16be at_.length ++ id ++ at_) 0 = 1 := by simp [u8]
  have h1 : u8 ([1, 1] ++ u16be at_.length ++ id ++ at_) 1 = 1 := by simp [u8]
  have h2 : be16 ([1, 1] ++ u16be at_.length ++ id ++ at_) 2 = at_.length := by
    simp [be16, u8, u16be, byte_toNat]; omega
  have hd : ([1, 1] ++ u16be at_.length ++ id ++ at_).drop 20 = at_ := by
    have : ([1, 1] ++ u16be at_.length ++ id).length = 20 := by simp [u16be, hid]
    rw [← this, List.drop_left]
  have hsub : sub ([1, 1] ++ u16be at_.length ++ id ++ at_) 4 16 = id :=
    sub_append_exact id at_ (by simp [u16be]) hid
  unfold parseStun
  rw [if_neg (by rw [hlen, h0]; omega)]
  simp only [h2]
  rw [if_neg (by rw [hlen]; simp), hd, ht]
  simp only [be16, h0, h1, hsub]

theorem stunMapped_length {ip : Ip} (hw : IpWf ip) (port : Nat) :
    (stunMapped ip port).length < 65536 := by
  cases ip <;> simp [IpWf] at hw <;> simp [stunMapped, u16be, hw]

theorem stunTlvs_mapped {ip : Ip} (hw : IpWf ip) (port : Nat) :
    stunTlvs ((stunMapped ip port).length + 1) (stunMapped ip port) =
      some [(1, (stunMapped ip port).drop 4)] := by
  cases ip with
  | v4 a =>
    simp only [IpWf] at hw
    match a, hw with
    | [a0, a1, a2, a3], _ => simp [stunMapped, stunTlvs, u16be, be16, u8]
  | v6 a =>
    simp only [IpWf] at hw
    match a, hw with
    | [a0, a1, a2, a3, a4, a5, a6, a7, a8, a9, a10, a11, a12, a13, a14, a15], _ =>
      simp [stunMapped, stunTlvs, u16be, be16, u8]

theorem stunSuccessOk_reply (req : StunMsg) (id : Bytes) (ip : Ip) (port : Nat)
    (hid : id.length = 16) (hreq : req.tid = id) (hw : IpWf ip) (hp : port < 65536) :
    stunSuccessOk req ([1, 1] ++ u16be (stunMapped ip port).length ++ id ++ stunMapped ip port) ip port
      = true := by
  unfold stunSuccessOk
  rw [parseStun_reply id _ _ hid (stunMapped_length hw port) (stunTlvs_mapped hw port)]
  cases ip with
  | v4 a =>
    simp only [IpWf] at hw
    simp [hreq, stunMapped, u16be, be16, u8, byte_toNat, hw]
    omega
  | v6 a =>
    simp only [IpWf] at hw
    simp [hreq, stunMapped, u16be, be16, u8, byte_toNat, hw]
    omega

theorem looksStunResponse_reply (id : Bytes) (ip : Ip) (port : Nat)
    (hid : id.length = 16) (hw : IpWf ip) :
    looksStunResponse ([1, 1] ++ u16be (stunMapped ip port).length ++ id ++ stunMapped ip port)
      = true := by
  unfold looksStunResponse
  rw [parseStun_reply id _ _ hid (stunMapped_length hw port) (stunTlvs_mapped hw port)]
  rfl

/-- the model's answer to a Binding Request, in closed form -/
theorem stunRepl_binding {ci : ClientInfo} {p : Bytes} {m : StunMsg} {src : Ip} {sp : Nat}
    (hp : parseStun p = some m) (hc : m.cls = 0) (hm : m.method = 1) (hl : p.length ≤ 65535)
    (hs : ci.ipSrc = some src) (hps : ci.portSrc = some sp) :
    stunRepl ci p = .ok ({ ci with portDst := ci.portDst.map (fun d => (d + changePortCount m) % 65536) },
      some ([1, 1] ++ u16be (stunMapped src sp).length ++ m.tid ++ stunMapped src sp)) := by
  obtain ⟨attrs, hparse, hb⟩ := stunParse_of_parseStun hp hl
  have hmeth : rustMethod p = 1 := (rustMethod_eq_one_iff hp).2 hm
  unfold stunRepl
  rw [hparse]
  simp only [hc, hmeth, hs, hps, ne_eq, not_true_eq_false, if_false]
  rw [← hb]; rfl

theorem stunMapped_length_le {ip : Ip} (hw : IpWf ip) (port : Nat) :
    (stunMapped ip port).length ≤ 24 := by
  cases ip <;> simp [IpWf] at hw <;> simp [stunMapped, u16be, hw]

theorem tid_length {p : Bytes} {m : StunMsg} (hp : parseStun p = some m) : m.tid.length = 16 := by
  obtain ⟨h20, _, _, _, _, _, htid⟩ := parseStun_inv hp
  rw [htid]; exact sub_length_of_le (by omega)

end Masscanned
