/-
  Proofs/C15/Bridge — the model's STUN attribute loop (`stunAttrs`, Rust `while i + 4 < len`)
  against the Spec's whole-buffer TLV parser (`Spec.stunTlvs`): on a well-formed attribute area
  the model's loop succeeds and finds as many change-port CHANGE-REQUESTs as the Spec counts.
-/
import Masscanned.Model.Net
import Masscanned.Spec.Stun
import Masscanned.Proofs.C0203.Bytes
namespace Masscanned
open Spec

/-- the Spec's "CHANGE-REQUEST with the change-port flag" test on one TLV -/
def cpPred (a : Nat × Bytes) : Bool := a.1 = 3 && a.2.length ≥ 4 && be32 a.2 0 / 2 % 2 = 1

theorem changePortCount_eq (m : StunMsg) : changePortCount m = (m.attrs.filter cpPred).length := rfl

/-- number of port bumps the model performs -/
def bumps (l : List StunAttr) : Nat := (l.filter (fun a => a = .changeRequest true)).length

theorem be32_lt' (b : Bytes) (i : Nat) : be32 b i < 4294967296 := by
  have := be16_lt b i; have := be16_lt b (i + 2); unfold be32; omega

theorem rdBE_slice4' {b : Bytes} {i : Nat} (h : i + 4 ≤ b.length) : rdBE (slice b i 4) = be32 b i := by
  have e : slice b i 4 = [b.getD i 0, b.getD (i + 1) 0, b.getD (i + 2) 0, b.getD (i + 3) 0] := by
    apply List.ext_getElem
    · simp [slice]; omega
    · intro j h1 h2
      simp [slice] at h1
      have hj : j = 0 ∨ j = 1 ∨ j = 2 ∨ j = 3 := by omega
      rcases hj with rfl | rfl | rfl | rfl <;> simp [slice, List.getD_eq_getElem?_getD, *] <;>
        (try rw [List.getElem?_eq_getElem (by omega)]) <;> simp
  rw [e]; simp [rdBE, be32, be16, u8, Nat.add_assoc]
  omega

theorem be32_take {b : Bytes} {n i : Nat} (h : i + 3 < n) : be32 (b.take n) i = be32 b i := by
  simp [be32, be16_take (show i + 1 < n by omega), be16_take (show i + 2 + 1 < n by omega)]

theorem be32_drop (b : Bytes) (n i : Nat) : be32 (b.drop n) i = be32 b (n + i) := by
  simp [be32, be16_drop, Nat.add_assoc]

/-- one attribute: when the padded TLV fits, the model's `try_from` succeeds with the declared
    length, and classifies it as a change-port CHANGE-REQUEST exactly when the Spec does -/
theorem stunAttr_of_fits (a : Bytes) (h4 : 4 ≤ a.length)
    (hfit : 4 + (be16 a 2 + 3) / 4 * 4 ≤ a.length) :
    ∃ x, stunAttr a = some (x, be16 a 2) ∧
      decide (x = StunAttr.changeRequest true) = cpPred (be16 a 0, (a.drop 4).take (be16 a 2)) := by
  have hlen : 4 + be16 a 2 ≤ a.length := by omega
  have e0 : rdBE (slice a 0 2) = be16 a 0 := rdBE_slice2 (by omega)
  have e2 : rdBE (slice a 2 2) = be16 a 2 := rdBE_slice2 (by omega)
  have hvl : ((a.drop 4).take (be16 a 2)).length = be16 a 2 := by simp; omega
  unfold stunAttr
  rw [if_neg (by omega)]
  simp only [e0, e2]
  rw [if_neg (by omega)]
  unfold cpPred
  simp only [hvl]
  split
  · rename_i h; refine ⟨_, rfl, ?_⟩
    have : be16 a 0 ≠ 3 := by omega
    simp [this]
  · split
    · rename_i h; refine ⟨_, rfl, ?_⟩
      have : be16 a 0 ≠ 3 := by omega
      simp [this]
    · split
      · rename_i h
        refine ⟨_, rfl, ?_⟩
        have e4 : rdBE (slice a 4 4) = be32 a 4 := rdBE_slice4' (by omega)
        have e5 : be32 ((a.drop 4).take (be16 a 2)) 0 = be32 a 4 := by
          rw [be32_take (by omega), be32_drop]
        rw [e4, e5]
        simp [h.1, h.2]
      · rename_i h
        refine ⟨_, rfl, ?_⟩
        have : ¬ (be16 a 0 = 3 ∧ be16 a 2 ≥ 4) := h
        by_cases h3 : be16 a 0 = 3
        · have : ¬ be16 a 2 ≥ 4 := fun hc => this ⟨h3, hc⟩
          simp [h3, this]
        · simp [h3]

/-- Bridge: a well-formed (padded, whole-buffer) attribute area is accepted by the model's loop,
    for every fuel larger than its length; the loop's change-port count is the Spec's. -/
theorem stunAttrs_of_tlvs : ∀ (f : Nat) (a : Bytes) (l : List (Nat × Bytes)),
    stunTlvs f a = some l → ∀ fuel, a.length < fuel →
    ∃ l', stunAttrs fuel a = some l' ∧ bumps l' = (l.filter cpPred).length := by
  intro f
  induction f with
  | zero => intro a l h; simp [stunTlvs] at h
  | succ f ih =>
    intro a l h fuel hfuel
    unfold stunTlvs at h
    split at h
    · -- empty buffer
      rename_i he
      have : a = [] := by simpa using he
      subst this
      cases h
      refine ⟨[], ?_, rfl⟩
      cases fuel with
      | zero => rfl
      | succ n => simp [stunAttrs]
    · split at h
      · cases h
      · rename_i hne h4
        dsimp only at h
        split at h
        · cases h
        · rename_i hfit
          have h4' : 4 ≤ a.length := by omega
          have hfit' : 4 + (be16 a 2 + 3) / 4 * 4 ≤ a.length := by omega
          split at h
          · cases h
          · rename_i l0 hrec
            cases h
            cases fuel with
            | zero => omega
            | succ n =>
              by_cases hgt : 4 < a.length
              · obtain ⟨x, hx, hxp⟩ := stunAttr_of_fits a h4' hfit'
                have hdl : (a.drop (4 + (be16 a 2 + 3) / 4 * 4)).length < n := by
                  simp; omega
                obtain ⟨l1, hl1, hb⟩ := ih _ _ hrec n hdl
                refine ⟨x :: l1, ?_, ?_⟩
                · simp only [stunAttrs, if_pos hgt, hx, hl1]
                · unfold bumps at hb ⊢
                  simp only [List.filter_cons, hxp]
                  split <;> simp [hb]
              · -- a trailing 4-byte attribute of length 0: not visited, and not a change-port
                have hl4 : a.length = 4 := by omega
                have hz : be16 a 2 = 0 := by omega
                have hd : a.drop (4 + (be16 a 2 + 3) / 4 * 4) = [] := by
                  apply List.drop_eq_nil_of_le; omega
                rw [hd] at hrec
                have hl0 : l0 = [] := by
                  cases f with
                  | zero => simp [stunTlvs] at hrec
                  | succ k => simpa [stunTlvs] using hrec.symm
                subst hl0
                refine ⟨[], ?_, ?_⟩
                · simp only [stunAttrs, if_neg hgt]
                · simp [bumps, cpPred, hz]

end Masscanned
