/-
  Proofs/C15/Examples — concrete witnesses for the non-vacuity examples and the
  counterexamples of Thm/C15.
-/
import Masscanned.Proofs.C15.Repl
import Masscanned.Proofs.C07Ex
namespace Masscanned.C15ex
open Masscanned

deriving instance DecidableEq for Except

/-- RFC 3489 Binding Request (no cookie) with CHANGE-REQUEST / change-port (the request of the
    Rust unit test `test_change_request_port`) -/
def reqA : Bytes :=
  [0, 1, 0, 8, 0x03, 0xa3, 0xb9, 0x46, 0x4d, 0xd8, 0xeb, 0x75, 0xe1, 0x94, 0x81, 0x47, 0x42, 0x93, 0x84, 0x5c,
   0, 3, 0, 4, 0, 0, 0, 2]

/-- RFC 5389 Binding Request (magic cookie) with a SOFTWARE attribute of length 253 (3 bytes of
    padding) followed by CHANGE-REQUEST / change-port; 268 attribute bytes -/
def reqB : Bytes :=
  [0, 1, 1, 12, 0x21, 0x12, 0xa4, 0x42, 1, 2, 3, 4, 5, 6, 7, 8, 9, 10, 11, 12] ++
  [0x80, 0x22, 0, 253] ++ List.replicate 253 0x41 ++ [0, 0, 0] ++ [0, 3, 0, 4, 0, 0, 0, 2]

/-- a Binding Request whose last attribute is a 4-byte TLV of length 0 (not visited by the Rust
    loop `while i + 4 < len`), after a change-port CHANGE-REQUEST -/
def reqC : Bytes :=
  [0, 1, 0, 12, 0x21, 0x12, 0xa4, 0x42, 1, 2, 3, 4, 5, 6, 7, 8, 9, 10, 11, 12] ++
  [0, 3, 0, 4, 0, 0, 0, 2] ++ [0, 3, 0, 0]

/-- a *request* of method 0x081 (byte 0 = 0x02, byte 1 = 0x01): not a Binding Request -/
def reqM81 : Bytes := [2, 1, 0, 0] ++ List.replicate 16 7

/-- a Binding Indication / Success / Error response, and an Allocate (method 3) request -/
def indB : Bytes := [0, 0x11, 0, 0] ++ List.replicate 16 7
def sucB : Bytes := [1, 0x01, 0, 0] ++ List.replicate 16 7
def errB : Bytes := [1, 0x11, 0, 0] ++ List.replicate 16 7
def reqAlloc : Bytes := [0, 3, 0, 0] ++ List.replicate 16 7

/-- malformed: the attribute claims 8 value bytes, 4 are there -/
def badTlv : Bytes := [0, 1, 0, 8] ++ List.replicate 16 7 ++ [0, 3, 0, 8, 0, 0, 0, 2]

def src4 : Ip := .v4 [1, 2, 3, 4]
def src6 : Ip := .v6 [0x20, 1, 0xd, 0xb8, 0, 0, 0, 0, 0, 0, 0, 0, 0, 0, 0, 1]
def ci4 : ClientInfo :=
  { ipSrc := some src4, ipDst := some (.v4 [10, 0, 0, 1]), transport := some 17,
    portSrc := some 65535, portDst := some 65535 }
def ci6 : ClientInfo :=
  { ipSrc := some src6, ipDst := some (.v6 (List.replicate 16 9)), transport := some 17,
    portSrc := some 55000, portDst := some 3478 }
/-- client info as the IP layer hands it to UDP (ports not yet filled in) -/
def ciU : ClientInfo :=
  { ipSrc := some src4, ipDst := some (.v4 [10, 0, 0, 1]), transport := some 17 }

/-- UDP datagrams 55000 → 65535 carrying `reqA` / `reqB` -/
def udpA : Bytes := [0xd6, 0xd8, 0xff, 0xff, 0, 36, 0, 0] ++ reqA
def udpB : Bytes := [0xd6, 0xd8, 0xff, 0xff, 1, 20, 0, 0] ++ reqB

/-- a 65536-byte Binding Request (one 65512-byte attribute): accepted by the Spec parser -/
def big : Bytes :=
  [0, 1, 0xff, 0xec] ++ List.replicate 16 7 ++ [0x80, 0x22, 0xff, 0xe8] ++ List.replicate 65512 0

end Masscanned.C15ex
