/-
  Proofs/C08/History — from one frame to histories: frames that are not delivered TCP data segments are
  invisible; the table entry of a cookie depends only on the data segments with that cookie; under
  cookie injectivity, only on the (accepted) data segments of the same flow.
-/
import Masscanned.Proofs.C08.Frame
namespace Masscanned.C08
open Masscanned

/-- every frame of a history with the reply and the events it got -/
def trace (cfg : Cfg) (env : Env) : Table → List Bytes → List (Bytes × Except Site (Option Bytes) × List Ev)
  | _, [] => []
  | st, f :: fs =>
    (f, (step cfg env st f).out, (step cfg env st f).evs) :: trace cfg env (step cfg env st f).st fs

theorem run_append (cfg : Cfg) (env : Env) (st : Table) (a b : List Bytes) :
    run cfg env st (a ++ b) = run cfg env (run cfg env st a) b := by
  induction a generalizing st with
  | nil => rfl
  | cons f a ih => exact ih _

theorem trace_append (cfg : Cfg) (env : Env) (st : Table) (a b : List Bytes) :
    trace cfg env st (a ++ b) = trace cfg env st a ++ trace cfg env (run cfg env st a) b := by
  induction a generalizing st with
  | nil => rfl
  | cons f a ih => simp only [List.cons_append, trace, run]; rw [ih]

theorem trace_length (cfg : Cfg) (env : Env) (st : Table) (a : List Bytes) :
    (trace cfg env st a).length = a.length := by
  induction a generalizing st with
  | nil => rfl
  | cons f a ih => simp only [trace, List.length_cons]; rw [ih]

/-! ### invisible frames -/

theorem run_filter_data (cfg : Cfg) (env : Env) (st : Table) (fs : List Bytes) :
    run cfg env st (fs.filter (dataFrame cfg)) = run cfg env st fs := by
  induction fs generalizing st with
  | nil => rfl
  | cons f fs ih =>
    rw [List.filter_cons]
    cases hd : dataFrame cfg f with
    | true => simp only [if_true, run]; exact ih _
    | false =>
      simp only [Bool.false_eq_true, if_false, run]
      rw [(step_other env st st hd).2.2]; exact ih _

theorem trace_filter_data (cfg : Cfg) (env : Env) (st : Table) (fs : List Bytes) :
    (trace cfg env st fs).filter (fun x => dataFrame cfg x.1) = trace cfg env st (fs.filter (dataFrame cfg)) := by
  induction fs generalizing st with
  | nil => rfl
  | cons f fs ih =>
    cases hd : dataFrame cfg f with
    | true => simp only [if_true, trace, List.filter_cons, hd]; rw [ih]
    | false =>
      simp only [Bool.false_eq_true, if_false, trace, List.filter_cons, hd]
      rw [(step_other env st st hd).2.2]; exact ih _

/-! ### the entry of one cookie -/

/-- the delivered data segments whose flow cookie is `k` -/
def keep (cfg : Cfg) (k : Nat) (g : Bytes) : Bool := dataFrame cfg g && (frameCookie cfg g == some k)

theorem step_get?_other {cfg : Cfg} (env : Env) (st : Table) {g : Bytes} {k : Nat} (h : keep cfg k g = false) :
    (step cfg env st g).st.get? k = st.get? k := by
  cases hd : dataFrame cfg g with
  | false => rw [(step_other env st st hd).2.2]
  | true =>
    obtain ⟨k2, hk2⟩ := dataFrame_cookie hd
    have hne : k ≠ k2 := by
      intro e; subst e
      unfold keep at h; rw [hd, hk2] at h; simp at h
    exact ((step_key env hk2 (rfl : st.get? k2 = st.get? k2)).2.2.2 k hne).1

theorem keep_cookie {cfg : Cfg} {g : Bytes} {k : Nat} (h : keep cfg k g = true) : frameCookie cfg g = some k := by
  unfold keep at h
  simp only [Bool.and_eq_true, beq_iff_eq] at h
  exact h.2

/-- the entry of cookie `k` after a history is the entry after the sub-history of the delivered data
    segments with cookie `k` (from any two tables that agree at `k`) -/
theorem run_key (cfg : Cfg) (env : Env) (k : Nat) (st st2 : Table) (h : List Bytes)
    (hk : st.get? k = st2.get? k) :
    (run cfg env st h).get? k = (run cfg env st2 (h.filter (keep cfg k))).get? k := by
  induction h generalizing st st2 with
  | nil => exact hk
  | cons g h ih =>
    rw [List.filter_cons]
    cases hkp : keep cfg k g with
    | true =>
      simp only [if_true, run]
      exact ih _ _ (step_key env (keep_cookie hkp) hk).2.2.1
    | false =>
      simp only [Bool.false_eq_true, if_false, run]
      exact ih _ _ (by rw [step_get?_other env st hkp]; exact hk)

/-! ### flows -/

/-- the cookie is a function of the flow -/
theorem frameCookie_of_flow {cfg : Cfg} {f g : Bytes} (h : flowOf g = flowOf f) :
    frameCookie cfg g = frameCookie cfg f := by
  unfold flowOf at h
  simp only [Prod.mk.injEq] at h
  unfold frameCookie
  rw [h.1, h.2.1, h.2.2.1, h.2.2.2]

/-- no two delivered TCP data segments of different flows in `fs` share a cookie -/
def CookieInj (cfg : Cfg) (fs : List Bytes) : Prop :=
  ∀ g1 ∈ fs, ∀ g2 ∈ fs, dataFrame cfg g1 = true → dataFrame cfg g2 = true →
    frameCookie cfg g1 = frameCookie cfg g2 → flowOf g1 = flowOf g2

instance (cfg : Cfg) (fs : List Bytes) : Decidable (CookieInj cfg fs) := by
  unfold CookieInj; infer_instance

/-- delivered data segment of the flow of `f` -/
def own (cfg : Cfg) (f g : Bytes) : Bool := dataFrame cfg g && (flowOf g == flowOf f)

theorem keep_eq_own {cfg : Cfg} {h : List Bytes} {f : Bytes} {k : Nat} (hinj : CookieInj cfg (h ++ [f]))
    (hd : dataFrame cfg f = true) (hc : frameCookie cfg f = some k) :
    ∀ g ∈ h, keep cfg k g = own cfg f g := by
  intro g hg
  unfold keep own
  cases hdg : dataFrame cfg g with
  | false => rfl
  | true =>
    simp only [Bool.true_and]
    rw [Bool.eq_iff_iff, beq_iff_eq, beq_iff_eq]
    constructor
    · intro hgk
      exact hinj g (List.mem_append_left _ hg) f (List.mem_append_right _ List.mem_cons_self) hdg hd
        (by rw [hgk, hc])
    · intro hfl
      rw [frameCookie_of_flow hfl, hc]

/-- the frame was answered -/
def accepted (o : Except Site (Option Bytes)) : Bool :=
  match o with
  | .ok (some _) => true
  | _ => false

theorem step_silent (cfg : Cfg) (env : Env) (st : Table) (f : Bytes)
    (h : ∀ r, (step cfg env st f).out ≠ .ok (some r)) : (step cfg env st f).st = st := by
  rcases step_table' cfg env st f with h' | ⟨_, _, _, _, _, ⟨r, hr⟩, _⟩ | ⟨_, _, _, _, _, ⟨r, hr⟩, _⟩
  · exact h'
  · exact absurd hr (h r)
  · exact absurd hr (h r)

theorem not_accepted {o : Except Site (Option Bytes)} (h : accepted o = false) : ∀ r, o ≠ .ok (some r) := by
  intro r e; subst e; cases h

/-- the history restricted to the ACCEPTED data segments of the flow of `f`: delivered TCP data
    segments with the addresses and ports of `f` that were answered when they were processed
    (`st` = the table at that point of the full history) -/
def ownAccepted (cfg : Cfg) (env : Env) (f : Bytes) : Table → List Bytes → List Bytes
  | _, [] => []
  | st, g :: gs =>
    (if own cfg f g && accepted (step cfg env st g).out then [g] else []) ++
      ownAccepted cfg env f (step cfg env st g).st gs

theorem run_ownAccepted (cfg : Cfg) (env : Env) (f : Bytes) (k : Nat) (st st2 : Table) (h : List Bytes)
    (hown : ∀ g ∈ h, keep cfg k g = own cfg f g) (hk : st.get? k = st2.get? k) :
    (run cfg env st h).get? k = (run cfg env st2 (ownAccepted cfg env f st h)).get? k := by
  induction h generalizing st st2 with
  | nil => exact hk
  | cons g h ih =>
    have ih' := fun a b => ih a b (fun g' hg' => hown g' (List.mem_cons_of_mem _ hg'))
    have hg := hown g List.mem_cons_self
    unfold ownAccepted
    cases hkp : keep cfg k g with
    | false =>
      rw [← hg, hkp]
      simp only [Bool.false_and, Bool.false_eq_true, if_false, List.nil_append, run]
      exact ih' _ _ (by rw [step_get?_other env st hkp]; exact hk)
    | true =>
      rw [← hg, hkp]
      cases hacc : accepted (step cfg env st g).out with
      | true =>
        simp only [Bool.true_and, if_true, List.cons_append, List.nil_append, run]
        exact ih' _ _ (step_key env (keep_cookie hkp) hk).2.2.1
      | false =>
        simp only [Bool.true_and, Bool.false_eq_true, if_false, List.nil_append, run]
        rw [step_silent cfg env st g (not_accepted hacc)]
        exact ih' _ _ hk

end Masscanned.C08
