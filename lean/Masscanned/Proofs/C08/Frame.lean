/-
  Proofs/C08/Frame — one frame against two tables, in the Spec vocabulary:
  `dataFrame cfg f` = the frame is delivered to the TCP handler (`Spec.deliverable … 6 20`, IPv4 or IPv6)
  and carries PSH and ACK (`isTcpData`).  Such a frame reads and writes the table only at
  `frameCookie cfg f`; every other frame neither reads nor writes it.
-/
import Masscanned.Proofs.C08.Rel
namespace Masscanned.C08
open Masscanned

/-! ### filters (as in Proofs/Delivery, which cannot be imported together with Proofs/Bytes) -/

theorem byte_toNat8 (x : UInt8) : byte x.toNat = x := by
  have := x.toNat_lt
  simp [byte, Nat.mod_eq_of_lt this]

theorem byte_mod128 (n : Nat) : byte (n % 128) = UInt8.ofNat (n % 128) := by
  have : n % 128 % 256 = n % 128 := by omega
  simp [byte, this]

theorem authMacs_contains (cfg : Cfg) (m : Bytes) : (authMacs cfg).contains m = Spec.authMac cfg m := by
  rw [Bool.eq_iff_iff]
  unfold authMacs Spec.authMac
  cases cfg.selfIps with
  | none => simp; grind
  | some l =>
    simp only [List.contains_iff_mem, List.mem_append, List.mem_cons, List.mem_map, Bool.or_eq_true,
      decide_eq_true_eq, List.any_eq_true, List.not_mem_nil, or_false]
    constructor
    · rintro (h | h)
      · left; grind
      · obtain ⟨ip, hip, rfl⟩ := h
        right; refine ⟨ip, hip, ?_⟩
        cases ip <;> simp [at8, byte_toNat8, byte_mod128, Spec.u8]
    · rintro (h | h)
      · left; grind
      · obtain ⟨ip, hip, h⟩ := h
        right; refine ⟨ip, hip, ?_⟩
        cases ip <;> simp [at8, byte_toNat8, byte_mod128, Spec.u8] at h ⊢ <;> exact h.symm

/-- the frame passes the L2/L3 filters and carries at least a full TCP header (IPv4 or IPv6) -/
def delivered (cfg : Cfg) (f : Bytes) : Bool :=
  Spec.deliverable cfg f false 6 20 || Spec.deliverable cfg f true 6 20

/-- a delivered TCP data segment (PSH and ACK set): the only kind of frame that touches the table -/
def dataFrame (cfg : Cfg) (f : Bytes) : Bool := delivered cfg f && isTcpData f

/-- the flow of an IP frame: source address, destination address, source port, destination port -/
def flowOf (f : Bytes) : Option Ip × Option Ip × Nat × Nat :=
  (Spec.srcIp f, Spec.dstIp f, Spec.be16 (Spec.l4Bytes f) 0, Spec.be16 (Spec.l4Bytes f) 2)

theorem reach4_deliverable {cfg : Cfg} {f : Bytes} (h : Reach4 cfg f) :
    Spec.deliverable cfg f false 6 20 = true := by
  obtain ⟨hl, hm, he, hL, hs, hd, hp, hpl⟩ := h
  have F := v4Frame he hL
  have hlen : f.length ≥ 34 := by rw [List.length_drop] at hL; omega
  have hE' : Spec.be16 f 12 = 0x0800 := by rw [← rdBE_slice2 f 12 (by omega)]; exact he
  rw [authMacs_contains] at hm
  unfold Spec.deliverable
  rw [F.src, F.dst, F.proto, F.l4, hp]
  simp only [Bool.and_eq_true, decide_eq_true_eq, Bool.false_eq_true, if_false, Bool.false_and, Bool.or_false,
    Bool.not_eq_true']
  exact ⟨⟨⟨⟨⟨⟨⟨hl, hm⟩, hE'⟩, hlen⟩, hd⟩, hs⟩, trivial⟩, hpl⟩

theorem reach6_deliverable {cfg : Cfg} {f : Bytes} (h : Reach6 cfg f) :
    Spec.deliverable cfg f true 6 20 = true := by
  obtain ⟨hl, hm, he, hL, hs, hd, hp, hpl⟩ := h
  have F := v6Frame he hL
  have hlen : f.length ≥ 54 := by rw [List.length_drop] at hL; omega
  have hE' : Spec.be16 f 12 = 0x86dd := by rw [← rdBE_slice2 f 12 (by omega)]; exact he
  rw [authMacs_contains] at hm
  unfold Spec.deliverable
  rw [F.src, F.dst, F.proto, F.l4, hp]
  simp only [Bool.and_eq_true, decide_eq_true_eq, if_true, Bool.true_and, Bool.or_eq_true,
    Bool.not_eq_true']
  exact ⟨⟨⟨⟨⟨⟨⟨hl, hm⟩, hE'⟩, hlen⟩, hd⟩, Or.inl hs⟩, trivial⟩, hpl⟩

/-! ### the TCP handler against two tables -/

/-- what a data segment of cookie `k` may do to two tables `st`, `st2` that agree at `k`: the entries at
    `k` still agree, every other entry is untouched -/
def Qk (k : Nat) (st st2 : Table) (a b : Table) : Prop :=
  a.get? k = b.get? k ∧ ∀ k', k' ≠ k → a.get? k' = st.get? k' ∧ b.get? k' = st2.get? k'

theorem Qk_refl {k : Nat} {st st2 : Table} (h : st.get? k = st2.get? k) : Qk k st st2 st st2 :=
  ⟨h, fun _ _ => ⟨rfl, rfl⟩⟩

theorem tcpRepl_rel_nodata {Q : Table → Table → Prop} {cfg : Cfg} {env : Env} {st st2 : Table} {ci : ClientInfo}
    {p : Bytes} (hd : ¬(tcpFlags p / 8 % 2 = 1 ∧ tcpFlags p / 16 % 2 = 1)) (hQ : Q st st2) :
    Rel4 Q (tcpRepl cfg env st ci p) (tcpRepl cfg env st2 ci p) := by
  rw [tcpRepl_nodata _ _ _ _ _ hd, tcpRepl_nodata _ _ _ _ _ hd]
  exact ⟨rfl, rfl, rfl, hQ⟩

theorem tcpRepl_rel_data {cfg : Cfg} {env : Env} {st st2 : Table} {ci : ClientInfo}
    {p : Bytes} (hd : tcpFlags p / 8 % 2 = 1 ∧ tcpFlags p / 16 % 2 = 1)
    (hk : st.get? (tcpCk cfg ci p) = st2.get? (tcpCk cfg ci p)) :
    Rel4 (Qk (tcpCk cfg ci p) st st2) (tcpRepl cfg env st ci p) (tcpRepl cfg env st2 ci p) := by
  rw [tcpRepl_data _ _ _ _ _ hd, tcpRepl_data _ _ _ _ _ hd, ← hk]
  cases hg : st.get? (tcpCk cfg ci p) with
  | none =>
    have hg2 : st2.get? (tcpCk cfg ci p) = none := by rw [← hk]; exact hg
    dsimp only
    split
    · exact ⟨rfl, rfl, rfl, Qk_refl hk⟩
    · generalize protoRepl cfg env _ _ _ = P
      have hq : ∀ v, Qk (tcpCk cfg ci p) st st2 (st ++ [(tcpCk cfg ci p, v)]) (st2 ++ [(tcpCk cfg ci p, v)]) := by
        intro v
        refine ⟨by rw [get?_append_self _ _ _ hg, get?_append_self _ _ _ hg2], fun k' hk' => ?_⟩
        exact ⟨get?_append_other _ _ _ _ hk', get?_append_other _ _ _ _ hk'⟩
      rcases P with e | ⟨ci', tcb', _ | r⟩
      · exact rfl
      · exact ⟨rfl, rfl, rfl, hq _⟩
      · exact ⟨rfl, rfl, rfl, hq _⟩
  | some tcb =>
    have hs : (st.get? (tcpCk cfg ci p)).isSome = true := by rw [hg]; rfl
    have hs2 : (st2.get? (tcpCk cfg ci p)).isSome = true := by rw [← hk]; exact hs
    dsimp only
    generalize protoRepl cfg env _ _ _ = P
    have hq : ∀ v, Qk (tcpCk cfg ci p) st st2 (st.set (tcpCk cfg ci p) v) (st2.set (tcpCk cfg ci p) v) := by
      intro v
      refine ⟨by rw [get?_set_self _ _ _ hs, get?_set_self _ _ _ hs2], fun k' hk' => ?_⟩
      exact ⟨get?_set_other _ _ _ _ hk', get?_set_other _ _ _ _ hk'⟩
    rcases P with e | ⟨ci', tcb', _ | r⟩
    · exact rfl
    · exact ⟨rfl, rfl, rfl, hq _⟩
    · exact ⟨rfl, rfl, rfl, hq _⟩

/-! ### what the spec's readers say about the segment a frame delivers -/

theorem isTcpData_iff {f : Bytes} (hp : Spec.ipProto f = some 6) (hl : (Spec.l4Bytes f).length ≥ 20) :
    isTcpData f = true ↔
      (tcpFlags (Spec.l4Bytes f) / 8 % 2 = 1 ∧ tcpFlags (Spec.l4Bytes f) / 16 % 2 = 1) := by
  unfold isTcpData
  rw [hp]
  simp only [decide_true, Bool.true_and, Bool.and_eq_true, decide_eq_true_eq]
  rw [← tcpFlags_eq_spec, dataBits (tcpFlags_lt _)]
  exact ⟨fun h => h.2, fun h => ⟨hl, h⟩⟩

structure Seg4 (cfg : Cfg) (f : Bytes) : Prop where
  dlv : delivered cfg f = true
  proto : Spec.ipProto f = some 6
  len : (Spec.l4Bytes f).length ≥ 20
  l4 : ipv4Payload (f.drop 14) = Spec.l4Bytes f
  ck : frameCookie cfg f = some (tcpCk cfg (ip4Ci (ethCi f) (f.drop 14)) (Spec.l4Bytes f))

theorem seg4 {cfg : Cfg} {f : Bytes} (h : Reach4 cfg f) : Seg4 cfg f := by
  have hd := reach4_deliverable h
  obtain ⟨hl, hm, he, hL, hs, hdn, hp, hpl⟩ := h
  have F := v4Frame he hL
  refine ⟨by unfold delivered; rw [hd]; rfl, by rw [F.proto, hp], by rw [F.l4]; exact hpl, F.l4.symm, ?_⟩
  unfold frameCookie
  rw [F.src, F.dst]
  dsimp only
  rw [tcpCk_eq (s := .v4 (slice (f.drop 14) 12 4)) (d := .v4 (slice (f.drop 14) 16 4)) (by rw [F.l4]; exact hpl) rfl rfl]

structure Seg6 (cfg : Cfg) (f : Bytes) : Prop where
  dlv : delivered cfg f = true
  proto : Spec.ipProto f = some 6
  len : (Spec.l4Bytes f).length ≥ 20
  l4 : ipv6Payload (f.drop 14) = Spec.l4Bytes f
  ck : frameCookie cfg f = some (tcpCk cfg (ip6Ci (ethCi f) (f.drop 14)) (Spec.l4Bytes f))

theorem seg6 {cfg : Cfg} {f : Bytes} (h : Reach6 cfg f) : Seg6 cfg f := by
  have hd := reach6_deliverable h
  obtain ⟨hl, hm, he, hL, hs, hdn, hp, hpl⟩ := h
  have F := v6Frame he hL
  refine ⟨by unfold delivered; rw [hd]; simp, by rw [F.proto, hp], by rw [F.l4]; exact hpl, F.l4.symm, ?_⟩
  unfold frameCookie
  rw [F.src, F.dst]
  dsimp only
  rw [tcpCk_eq (s := .v6 (slice (f.drop 14) 8 16)) (d := .v6 (slice (f.drop 14) 24 16)) (by rw [F.l4]; exact hpl) rfl rfl]

/-! ### one frame, two tables -/

/-- a frame that is not a delivered TCP data segment (ARP, ICMP, ICMPv6, UDP, SYN, FIN, RST, bare ACK,
    anything dropped by the MAC / IP filters, runt frames, panics): reply and events do not depend on
    the table, and the table is returned unchanged -/
theorem step_other {cfg : Cfg} (env : Env) (st st2 : Table) {f : Bytes} (h : dataFrame cfg f = false) :
    (step cfg env st f).out = (step cfg env st2 f).out ∧ (step cfg env st f).evs = (step cfg env st2 f).evs ∧
      (step cfg env st f).st = st := by
  have key := step_rel_tcp (Q := fun a b => a = st ∧ b = st2) (cfg := cfg) (env := env) (st := st) (st2 := st2)
    (f := f) ⟨rfl, rfl⟩ ?_ ?_
  · exact ⟨key.1, key.2.1, key.2.2.1⟩
  · intro hr
    have S := seg4 hr
    have hnd : isTcpData f = false := by
      unfold dataFrame at h; rw [S.dlv] at h; simpa using h
    rw [S.l4]
    apply tcpRepl_rel_nodata _ ⟨rfl, rfl⟩
    rw [← isTcpData_iff S.proto S.len, hnd]; simp
  · intro hr
    have S := seg6 hr
    have hnd : isTcpData f = false := by
      unfold dataFrame at h; rw [S.dlv] at h; simpa using h
    rw [S.l4]
    apply tcpRepl_rel_nodata _ ⟨rfl, rfl⟩
    rw [← isTcpData_iff S.proto S.len, hnd]; simp

/-- any frame whose flow cookie is `k`, against two tables that agree at `k`: same reply, same events,
    the new tables agree at `k`, and every other entry of either table is untouched -/
theorem step_key {cfg : Cfg} (env : Env) {st st2 : Table} {f : Bytes} {k : Nat}
    (hc : frameCookie cfg f = some k) (hk : st.get? k = st2.get? k) :
    (step cfg env st f).out = (step cfg env st2 f).out ∧ (step cfg env st f).evs = (step cfg env st2 f).evs ∧
      Qk k st st2 (step cfg env st f).st (step cfg env st2 f).st := by
  apply step_rel_tcp (Qk_refl hk)
  · intro hr
    have S := seg4 hr
    have hkk : tcpCk cfg (ip4Ci (ethCi f) (f.drop 14)) (Spec.l4Bytes f) = k := by
      have := S.ck; rw [hc] at this; exact (Option.some.inj this).symm
    rw [S.l4]
    by_cases hd : tcpFlags (Spec.l4Bytes f) / 8 % 2 = 1 ∧ tcpFlags (Spec.l4Bytes f) / 16 % 2 = 1
    · have := tcpRepl_rel_data (cfg := cfg) (env := env) (st := st) (st2 := st2)
        (ci := ip4Ci (ethCi f) (f.drop 14)) hd (by rw [hkk]; exact hk)
      rw [hkk] at this; exact this
    · exact tcpRepl_rel_nodata hd (Qk_refl hk)
  · intro hr
    have S := seg6 hr
    have hkk : tcpCk cfg (ip6Ci (ethCi f) (f.drop 14)) (Spec.l4Bytes f) = k := by
      have := S.ck; rw [hc] at this; exact (Option.some.inj this).symm
    rw [S.l4]
    by_cases hd : tcpFlags (Spec.l4Bytes f) / 8 % 2 = 1 ∧ tcpFlags (Spec.l4Bytes f) / 16 % 2 = 1
    · have := tcpRepl_rel_data (cfg := cfg) (env := env) (st := st) (st2 := st2)
        (ci := ip6Ci (ethCi f) (f.drop 14)) hd (by rw [hkk]; exact hk)
      rw [hkk] at this; exact this
    · exact tcpRepl_rel_nodata hd (Qk_refl hk)

/-- a delivered TCP data segment has a flow cookie -/
theorem dataFrame_cookie {cfg : Cfg} {f : Bytes} (h : dataFrame cfg f = true) :
    ∃ k, frameCookie cfg f = some k := by
  unfold dataFrame isTcpData at h
  simp only [Bool.and_eq_true, decide_eq_true_eq] at h
  have hp := h.2.1.1
  unfold frameCookie
  unfold Spec.ipProto at hp
  unfold Spec.srcIp Spec.dstIp
  dsimp only at hp ⊢
  split at hp
  · rename_i h4; rw [if_pos h4, if_pos h4]; exact ⟨_, rfl⟩
  · rename_i h4
    split at hp
    · rename_i h6; rw [if_neg h4, if_neg h4, if_pos h6, if_pos h6]; exact ⟨_, rfl⟩
    · cases hp

end Masscanned.C08
