/-
  Proofs/C08/Examples — concrete frames for the non-vacuity examples and the counterexample of C08
  (configuration `cfg0` with key (0,0) and the colliding flows A, B of Proofs/C07Ex).
-/
import Masscanned.Proofs.C08.History
import Masscanned.Proofs.C07Ex
namespace Masscanned.C08ex
open Masscanned Masscanned.C08 Masscanned.C07ex

/-- flow C (1.2.3.6:1000 → 10.0.0.1:80), PSH|ACK, ack = cookie + 1 = 686878780: valid first data -/
def segC : Bytes := [3, 232, 0, 80, 0, 0, 0, 1, 40, 240, 240, 60, 80, 24, 255, 255, 0, 0, 0, 0]
def frameC : Bytes :=
  [2, 0, 0, 0, 0, 1, 2, 0, 0, 0, 0, 9, 8, 0, 69, 0, 0, 40, 0, 0, 64, 0, 64, 6, 44, 200, 1, 2, 3, 6, 10, 0, 0, 1] ++ segC

/-- a second data segment of flow A carrying `GET / HTTP/1.0\r\n\r\n` -/
def frameA2 : Bytes :=
  [2, 0, 0, 0, 0, 1, 2, 0, 0, 0, 0, 9, 8, 0, 69, 0, 0, 58, 0, 0, 64, 0, 64, 6, 44, 184, 1, 2, 3, 4, 10, 0, 0, 1] ++
  [135, 64, 0, 80, 0, 0, 0, 1, 118, 51, 241, 156, 80, 24, 255, 255, 0, 0, 0, 0] ++
  [71, 69, 84, 32, 47, 32, 72, 84, 84, 80, 47, 49, 46, 48, 13, 10, 13, 10]

/-- ARP who-has 10.0.0.1 tell 10.0.0.9 (broadcast) -/
def frameArp : Bytes :=
  [255, 255, 255, 255, 255, 255, 2, 0, 0, 0, 0, 9, 8, 6] ++
  [0, 1, 8, 0, 6, 4, 0, 1, 2, 0, 0, 0, 0, 9, 10, 0, 0, 9, 0, 0, 0, 0, 0, 0, 10, 0, 0, 1]

/-- ICMP echo request 1.2.3.4 → 10.0.0.1 -/
def frameIcmp : Bytes :=
  [2, 0, 0, 0, 0, 1, 2, 0, 0, 0, 0, 9, 8, 0, 69, 0, 0, 28, 0, 0, 64, 0, 64, 1, 44, 219, 1, 2, 3, 4, 10, 0, 0, 1] ++
  [8, 0, 247, 255, 0, 0, 0, 0]

/-- UDP 1.2.3.4:1234 → 10.0.0.1:53 with 4 bytes of garbage -/
def frameUdp : Bytes :=
  [2, 0, 0, 0, 0, 1, 2, 0, 0, 0, 0, 9, 8, 0, 69, 0, 0, 32, 0, 0, 64, 0, 64, 17, 44, 199, 1, 2, 3, 4, 10, 0, 0, 1] ++
  [4, 210, 0, 53, 0, 12, 0, 0, 1, 2, 3, 4]

/-- flow A's data frame addressed to a foreign MAC: a TCP data segment that is NOT delivered -/
def frameAForeign : Bytes := [2, 0, 0, 0, 0, 7] ++ frameA.drop 6

/-- a mixed history: ARP, SYN of A, first data of A, ICMP echo, first data of C, UDP, second data of A -/
def hist : List Bytes := [frameArp, frameSyn, frameA, frameIcmp, frameC, frameUdp, frameAForeign, frameA2]

end Masscanned.C08ex
