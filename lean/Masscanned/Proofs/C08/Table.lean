/-
  Proofs/C08/Table — lookups in the connection table after `Table.set` / append.
-/
import Masscanned.Proofs.Run
namespace Masscanned.C08
open Masscanned

theorem get?_append_self (t : Table) (k : Nat) (v : Tcb) (h : t.get? k = none) :
    (t ++ [(k, v)]).get? k = some v := by
  unfold Table.get? at *
  rw [List.find?_append]
  cases hf : t.find? (·.1 = k) with
  | some e => rw [hf] at h; cases h
  | none => simp

theorem get?_append_other (t : Table) (k k' : Nat) (v : Tcb) (h : k' ≠ k) :
    (t ++ [(k, v)]).get? k' = t.get? k' := by
  unfold Table.get?
  rw [List.find?_append]
  have : ¬ k = k' := fun e => h e.symm
  cases hf : t.find? (·.1 = k') <;> simp [this]

theorem get?_map (t : Table) (k k' : Nat) (v : Tcb) :
    Table.get? (t.map (fun e => if e.1 = k then (k, v) else e)) k' =
      if k' = k then (t.get? k).map (fun _ => v) else t.get? k' := by
  unfold Table.get?
  induction t with
  | nil => simp
  | cons e t ih =>
    simp only [List.map_cons, List.find?_cons]
    by_cases hk : k' = k
    · subst hk
      simp only [if_true] at ih ⊢
      by_cases he : e.1 = k'
      · simp [he]
      · simp only [he, if_false, decide_false]
        exact ih
    · simp only [hk, if_false] at ih ⊢
      by_cases he : e.1 = k
      · have : ¬ k = k' := fun e => hk e.symm
        have h2 : ¬ e.1 = k' := by rw [he]; exact this
        simp only [he, if_true, this, decide_false]
        exact ih
      · simp only [he, if_false]
        by_cases h2 : e.1 = k'
        · simp [h2]
        · simp only [h2, decide_false]
          exact ih

theorem any_of_isSome (t : Table) (k : Nat) (h : (t.get? k).isSome = true) : t.any (·.1 = k) = true := by
  have hm := (Table.get?_isSome_iff t k).mp h
  simp only [List.mem_map] at hm
  obtain ⟨e, he, hk⟩ := hm
  simp only [List.any_eq_true, decide_eq_true_eq]
  exact ⟨e, he, hk⟩

theorem get?_set_self (t : Table) (k : Nat) (v : Tcb) (h : (t.get? k).isSome = true) :
    (t.set k v).get? k = some v := by
  unfold Table.set
  rw [if_pos (any_of_isSome t k h), get?_map, if_pos rfl]
  cases hg : t.get? k with
  | none => rw [hg] at h; cases h
  | some x => rfl

theorem get?_set_other (t : Table) (k k' : Nat) (v : Tcb) (h : k' ≠ k) :
    (t.set k v).get? k' = t.get? k' := by
  unfold Table.set
  split
  · rw [get?_map, if_neg h]
  · exact get?_append_other t k k' v h

end Masscanned.C08
