/-
  Proofs/C08/Rel — the layers above TCP are parametric in the connection table: whatever relation `Q`
  holds between two tables and is preserved by the TCP handler (on the segment the frame delivers)
  is preserved by `ipv4Repl`, `ipv6Repl`, `ethRepl`, `step`, and events / replies coincide.
-/
import Masscanned.Proofs.C08.Table
namespace Masscanned.C08
open Masscanned

abbrev R4 := Except Site (List Ev × ClientInfo × Table × Option Bytes)
abbrev R3 := Except Site (List Ev × Table × Option Bytes)

/-- same panic, or same events / client info / reply and `Q`-related tables -/
def Rel4 (Q : Table → Table → Prop) : R4 → R4 → Prop
  | .error e, .error e' => e = e'
  | .ok (evs, ci, st, o), .ok (evs', ci', st', o') => evs = evs' ∧ ci = ci' ∧ o = o' ∧ Q st st'
  | _, _ => False

def Rel3 (Q : Table → Table → Prop) : R3 → R3 → Prop
  | .error e, .error e' => e = e'
  | .ok (evs, st, o), .ok (evs', st', o') => evs = evs' ∧ o = o' ∧ Q st st'
  | _, _ => False

theorem ipv4Repl_rel {Q : Table → Table → Prop} {cfg : Cfg} {env : Env} {st st2 : Table} {ci : ClientInfo}
    {p : Bytes} (hQ : Q st st2)
    (hT : cfg.isSelf (.v4 (slice p 16 4)) = true → cfg.isDenied (.v4 (slice p 12 4)) = false → at8 p 9 = 6 →
      (ipv4Payload p).length ≥ 20 →
      Rel4 Q (tcpRepl cfg env st (ip4Ci ci p) (ipv4Payload p)) (tcpRepl cfg env st2 (ip4Ci ci p) (ipv4Payload p))) :
    Rel4 Q (ipv4Repl cfg env st ci p) (ipv4Repl cfg env st2 ci p) := by
  revert hT
  unfold ipv4Repl ip4Ci
  dsimp only
  generalize tcpRepl cfg env st _ _ = T
  generalize tcpRepl cfg env st2 _ _ = T2
  intro hT
  repeat' split
  all_goals first
    | exact ⟨rfl, rfl, rfl, hQ⟩
    | exact rfl
    | (have hh := hT (by simpa using ‹¬(!cfg.isSelf _) = true›) (by simpa using ‹¬cfg.isDenied _ = true›)
        (by assumption) (by omega)
       (simp only [Rel4] at hh) <;> first
        | (cases hh; exact rfl)
        | (obtain ⟨h1, h2, h3, h4⟩ := hh
           subst h1 h2
           cases h3 <;> first | exact ⟨rfl, rfl, rfl, h4⟩ | exact rfl | contradiction))

theorem ipv6Repl_rel {Q : Table → Table → Prop} {cfg : Cfg} {env : Env} {st st2 : Table} {ci : ClientInfo}
    {p : Bytes} (hQ : Q st st2)
    (hT : cfg.isSelf (.v6 (slice p 24 16)) = true → cfg.isDenied (.v6 (slice p 8 16)) = false → at8 p 6 = 6 →
      (ipv6Payload p).length ≥ 20 →
      Rel4 Q (tcpRepl cfg env st (ip6Ci ci p) (ipv6Payload p)) (tcpRepl cfg env st2 (ip6Ci ci p) (ipv6Payload p))) :
    Rel4 Q (ipv6Repl cfg env st ci p) (ipv6Repl cfg env st2 ci p) := by
  revert hT
  unfold ipv6Repl ip6Ci
  dsimp only
  generalize tcpRepl cfg env st _ _ = T
  generalize tcpRepl cfg env st2 _ _ = T2
  intro hT
  repeat' split
  all_goals first
    | exact ⟨rfl, rfl, rfl, hQ⟩
    | exact rfl
    | (have h6 : at8 p 6 = 6 := by assumption
       have hs : cfg.isSelf (.v6 (slice p 24 16)) = true := by
         have := ‹¬((!cfg.isSelf _) = true ∧ _)›
         rw [h6] at this
         simpa using this
       have hh := hT hs (by simpa using ‹¬cfg.isDenied _ = true›) h6 (by omega)
       (simp only [Rel4] at hh) <;> first
        | (cases hh; exact rfl)
        | (obtain ⟨h1, h2, h3, h4⟩ := hh
           subst h1 h2
           cases h3 <;> first | exact ⟨rfl, rfl, rfl, h4⟩ | exact rfl | contradiction))

theorem ethRepl_rel {Q : Table → Table → Prop} {cfg : Cfg} {env : Env} {st st2 : Table} {f : Bytes}
    (hQ : Q st st2)
    (h4 : (authMacs cfg).contains (slice f 0 6) = true → rdBE (slice f 12 2) = 0x0800 → (f.drop 14).length ≥ 20 →
      Rel4 Q (ipv4Repl cfg env st (ethCi f) (f.drop 14)) (ipv4Repl cfg env st2 (ethCi f) (f.drop 14)))
    (h6 : (authMacs cfg).contains (slice f 0 6) = true → rdBE (slice f 12 2) = 0x86dd → (f.drop 14).length ≥ 40 →
      Rel4 Q (ipv6Repl cfg env st (ethCi f) (f.drop 14)) (ipv6Repl cfg env st2 (ethCi f) (f.drop 14))) :
    Rel3 Q (ethRepl cfg env st f) (ethRepl cfg env st2 f) := by
  revert h4 h6
  unfold ethRepl ethCi
  dsimp only
  generalize ipv4Repl cfg env st _ _ = T
  generalize ipv4Repl cfg env st2 _ _ = T2
  generalize ipv6Repl cfg env st _ _ = U
  generalize ipv6Repl cfg env st2 _ _ = U2
  intro h4 h6
  repeat' split
  all_goals first
    | exact ⟨rfl, rfl, hQ⟩
    | exact rfl
    | (have hm : (authMacs cfg).contains (slice f 0 6) = true := by simpa using ‹¬(!(authMacs cfg).contains _) = true›
       have hh := h4 hm (by assumption) (by omega)
       (simp only [Rel4] at hh) <;> first
        | (cases hh; exact rfl)
        | (obtain ⟨h1, h2, h3, hq⟩ := hh
           subst h1 h2
           cases h3 <;> first | exact ⟨rfl, rfl, hq⟩ | exact rfl | contradiction))
    | (have hm : (authMacs cfg).contains (slice f 0 6) = true := by simpa using ‹¬(!(authMacs cfg).contains _) = true›
       have hh := h6 hm (by assumption) (by omega)
       (simp only [Rel4] at hh) <;> first
        | (cases hh; exact rfl)
        | (obtain ⟨h1, h2, h3, hq⟩ := hh
           subst h1 h2
           cases h3 <;> first | exact ⟨rfl, rfl, hq⟩ | exact rfl | contradiction))

theorem step_rel {Q : Table → Table → Prop} {cfg : Cfg} {env : Env} {st st2 : Table} {f : Bytes}
    (hQ : Q st st2) (hE : f.length ≥ 14 → Rel3 Q (ethRepl cfg env st f) (ethRepl cfg env st2 f)) :
    (step cfg env st f).out = (step cfg env st2 f).out ∧ (step cfg env st f).evs = (step cfg env st2 f).evs ∧
      Q (step cfg env st f).st (step cfg env st2 f).st := by
  unfold step
  split
  · exact ⟨rfl, rfl, hQ⟩
  · have h := hE (by omega)
    revert h
    generalize ethRepl cfg env st f = E
    generalize ethRepl cfg env st2 f = E2
    intro h
    rcases E with e | ⟨evs, st', o⟩ <;> rcases E2 with e2 | ⟨evs2, st2', o2⟩ <;> simp only [Rel3] at h
    · subst h; exact ⟨rfl, rfl, hQ⟩
    · obtain ⟨h1, h2, h3⟩ := h
      subst h1 h2
      exact ⟨rfl, rfl, h3⟩

/-- the frame passes every test of layers 2 and 3 in front of the IPv4 TCP handler -/
def Reach4 (cfg : Cfg) (f : Bytes) : Prop :=
  f.length ≥ 14 ∧ (authMacs cfg).contains (slice f 0 6) = true ∧ rdBE (slice f 12 2) = 0x0800 ∧
  (f.drop 14).length ≥ 20 ∧ cfg.isSelf (.v4 (slice (f.drop 14) 16 4)) = true ∧
  cfg.isDenied (.v4 (slice (f.drop 14) 12 4)) = false ∧ at8 (f.drop 14) 9 = 6 ∧
  (ipv4Payload (f.drop 14)).length ≥ 20

def Reach6 (cfg : Cfg) (f : Bytes) : Prop :=
  f.length ≥ 14 ∧ (authMacs cfg).contains (slice f 0 6) = true ∧ rdBE (slice f 12 2) = 0x86dd ∧
  (f.drop 14).length ≥ 40 ∧ cfg.isSelf (.v6 (slice (f.drop 14) 24 16)) = true ∧
  cfg.isDenied (.v6 (slice (f.drop 14) 8 16)) = false ∧ at8 (f.drop 14) 6 = 6 ∧
  (ipv6Payload (f.drop 14)).length ≥ 20

/-- one frame, two tables: if the TCP handler (on the segment this frame delivers, if any) returns the
    same events and reply and `Q`-related tables, so does `step` -/
theorem step_rel_tcp {Q : Table → Table → Prop} {cfg : Cfg} {env : Env} {st st2 : Table} {f : Bytes}
    (hQ : Q st st2)
    (h4 : Reach4 cfg f →
      Rel4 Q (tcpRepl cfg env st (ip4Ci (ethCi f) (f.drop 14)) (ipv4Payload (f.drop 14)))
        (tcpRepl cfg env st2 (ip4Ci (ethCi f) (f.drop 14)) (ipv4Payload (f.drop 14))))
    (h6 : Reach6 cfg f →
      Rel4 Q (tcpRepl cfg env st (ip6Ci (ethCi f) (f.drop 14)) (ipv6Payload (f.drop 14)))
        (tcpRepl cfg env st2 (ip6Ci (ethCi f) (f.drop 14)) (ipv6Payload (f.drop 14)))) :
    (step cfg env st f).out = (step cfg env st2 f).out ∧ (step cfg env st f).evs = (step cfg env st2 f).evs ∧
      Q (step cfg env st f).st (step cfg env st2 f).st := by
  apply step_rel hQ
  intro hl
  apply ethRepl_rel hQ
  · intro hm he hL
    apply ipv4Repl_rel hQ
    intro a b c d
    exact h4 ⟨hl, hm, he, hL, a, b, c, d⟩
  · intro hm he hL
    apply ipv6Repl_rel hQ
    intro a b c d
    exact h6 ⟨hl, hm, he, hL, a, b, c, d⟩

end Masscanned.C08
