/-
  Proofs/Delivery — bridge between the Spec vocabulary (Spec/Wire, Spec/L4) and the model's
  layers 2 and 3 (Model/Net):
  * readers: `at8`/`slice`/`rdBE` of the model vs `u8`/`sub`/`be16` of the Spec,
  * filters: `authMacs`.contains = `Spec.authMac`, `Cfg.isSelf` = `Spec.handled`,
    `Cfg.isDenied` = `Spec.inList cfg.deny`,
  * delivery: a `Spec.deliverable` frame passes the Ethernet and IP filters, and the payload the
    model hands to layer 4 is `Spec.l4Bytes f`  (IPv4 / IPv6 × any protocol),
  * reply side: how a receiver (`Spec.l4Bytes`) delimits the frames the model emits.
-/
import Masscanned.Model.Net
import Masscanned.Spec.L4
namespace Masscanned
open Masscanned

/-! ### readers -/

theorem at8_eq_u8 (b : Bytes) (i : Nat) : at8 b i = Spec.u8 b i := rfl
theorem slice_eq_sub (b : Bytes) (i n : Nat) : slice b i n = Spec.sub b i n := rfl

theorem u8_drop (b : Bytes) (k i : Nat) : Spec.u8 (b.drop k) i = Spec.u8 b (k + i) := by
  simp [Spec.u8, List.getD_eq_getElem?_getD, List.getElem?_drop]

theorem be16_drop (b : Bytes) (k i : Nat) : Spec.be16 (b.drop k) i = Spec.be16 b (k + i) := by
  simp [Spec.be16, u8_drop, Nat.add_assoc]

theorem sub_drop (b : Bytes) (k i n : Nat) : Spec.sub (b.drop k) i n = Spec.sub b (k + i) n := by
  simp [Spec.sub, List.drop_drop]

theorem rdBE_slice2 (b : Bytes) (i : Nat) (h : i + 2 ≤ b.length) : rdBE (slice b i 2) = Spec.be16 b i := by
  obtain ⟨x, y, t, ht⟩ : ∃ x y t, b.drop i = x :: y :: t := by
    match hb : b.drop i with
    | [] => have := congrArg List.length hb; simp at this; omega
    | [_] => have := congrArg List.length hb; simp at this; omega
    | x :: y :: t => exact ⟨x, y, t, rfl⟩
  have h0 : Spec.u8 b i = x.toNat := by
    have := u8_drop b i 0; simp [ht, Spec.u8] at this; simpa [Spec.u8] using this.symm
  have h1 : Spec.u8 b (i+1) = y.toNat := by
    have := u8_drop b i 1; simp [ht, Spec.u8] at this; simpa [Spec.u8] using this.symm
  simp [slice, ht, rdBE, Spec.be16, h0, h1]

theorem ipv4Payload_eq (f : Bytes) (h : 34 ≤ f.length) (he : Spec.be16 f 12 = 0x0800) :
    ipv4Payload (f.drop 14) = Spec.l4Bytes f := by
  have hr : rdBE (slice (f.drop 14) 2 2) = Spec.be16 (f.drop 14) 2 := rdBE_slice2 _ _ (by simp; omega)
  simp only [ipv4Payload, Spec.l4Bytes, he, if_true, hr, at8]
  split
  · rename_i hle
    symm
    apply List.drop_eq_nil_of_le
    simp only [List.length_take, Spec.u8]
    omega
  · rfl

theorem ipv6Payload_eq (f : Bytes) (h : 54 ≤ f.length) (he : Spec.be16 f 12 = 0x86dd) :
    ipv6Payload (f.drop 14) = Spec.l4Bytes f := by
  have hr : rdBE (slice (f.drop 14) 4 2) = Spec.be16 (f.drop 14) 4 := rdBE_slice2 _ _ (by simp; omega)
  simp only [ipv6Payload, Spec.l4Bytes, he, hr]
  split
  · rename_i hle
    simp at hle; 
    symm
    apply List.drop_eq_nil_of_le
    simp only [List.length_take]
    simp; omega
  · simp

/-! ### filters -/

theorem isSelf_eq_handled (cfg : Cfg) (ip : Ip) : cfg.isSelf ip = Spec.handled cfg ip := rfl
theorem isDenied_eq_inList (cfg : Cfg) (ip : Ip) : cfg.isDenied ip = Spec.inList cfg.deny ip := rfl

theorem byte_toNat (x : UInt8) : byte x.toNat = x := by
  have := x.toNat_lt
  simp [byte, Nat.mod_eq_of_lt this]

theorem byte_mod128 (n : Nat) : byte (n % 128) = UInt8.ofNat (n % 128) := by
  have : n % 128 % 256 = n % 128 := by omega
  simp [byte, this]

theorem authMacs_contains (cfg : Cfg) (m : Bytes) : (authMacs cfg).contains m = Spec.authMac cfg m := by
  rw [Bool.eq_iff_iff]
  unfold authMacs Spec.authMac
  cases cfg.selfIps with
  | none => simp; grind
  | some l =>
    simp only [List.contains_iff_mem, List.mem_append, List.mem_cons, List.mem_map, Bool.or_eq_true,
      decide_eq_true_eq, List.any_eq_true, List.not_mem_nil, or_false]
    constructor
    · rintro (h | h)
      · left; grind
      · obtain ⟨ip, hip, rfl⟩ := h
        right; refine ⟨ip, hip, ?_⟩
        cases ip <;> simp [at8, byte_toNat, byte_mod128, Spec.u8]
    · rintro (h | h)
      · left; grind
      · obtain ⟨ip, hip, h⟩ := h
        right; refine ⟨ip, hip, ?_⟩
        cases ip <;> simp [at8, byte_toNat, byte_mod128, Spec.u8] at h ⊢ <;> exact h.symm

/-! ### what `Spec.deliverable` says, field by field -/

theorem deliverable4_elim {cfg : Cfg} {f : Bytes} {proto minLen : Nat}
    (h : Spec.deliverable cfg f false proto minLen = true) :
    34 ≤ f.length ∧ Spec.authMac cfg (Spec.sub f 0 6) = true ∧ Spec.be16 f 12 = 0x0800 ∧
    Spec.inList cfg.deny (.v4 (Spec.sub f 26 4)) = false ∧ Spec.handled cfg (.v4 (Spec.sub f 30 4)) = true ∧
    Spec.u8 f 23 = proto ∧ minLen ≤ (Spec.l4Bytes f).length := by
  simp only [Spec.deliverable, Bool.and_eq_true, decide_eq_true_eq, Bool.false_eq_true, if_false,
    Bool.false_and, Bool.or_false] at h
  obtain ⟨⟨⟨⟨⟨⟨⟨h1, h2⟩, h3⟩, h4⟩, h5⟩, h6⟩, h7⟩, h8⟩ := h
  have h4' : f.length ≥ 34 := h4
  simp only [Spec.srcIp, Spec.dstIp, Spec.ipProto, h3, h4', and_self, if_true] at h5 h6 h7
  simp at h5 h7
  exact ⟨h4, h2, h3, h5, h6, h7, h8⟩

theorem deliverable6_elim {cfg : Cfg} {f : Bytes} {proto minLen : Nat}
    (h : Spec.deliverable cfg f true proto minLen = true) :
    54 ≤ f.length ∧ Spec.authMac cfg (Spec.sub f 0 6) = true ∧ Spec.be16 f 12 = 0x86dd ∧
    Spec.inList cfg.deny (.v6 (Spec.sub f 22 16)) = false ∧
    (Spec.handled cfg (.v6 (Spec.sub f 38 16)) = true ∨ proto = 58) ∧
    Spec.u8 f 20 = proto ∧ minLen ≤ (Spec.l4Bytes f).length := by
  simp only [Spec.deliverable, Bool.and_eq_true, decide_eq_true_eq, if_true,
    Bool.true_and] at h
  obtain ⟨⟨⟨⟨⟨⟨⟨h1, h2⟩, h3⟩, h4⟩, h5⟩, h6⟩, h7⟩, h8⟩ := h
  have h4' : f.length ≥ 54 := h4
  have h4'' : f.length ≥ 34 := by omega
  simp only [Spec.srcIp, Spec.dstIp, Spec.ipProto, h3, h4', h4'', and_self, if_true] at h5 h6 h7
  simp at h5 h6 h7
  exact ⟨h4, h2, h3, h5, h6, h7, h8⟩

/-! ### delivery through layer 2 -/

/-- client info as filled by layer 2 -/
def ci0 (f : Bytes) : ClientInfo := { macSrc := some (slice f 6 6), macDst := some (slice f 0 6) }

/-- Ethernet framing of the reply to `f` -/
def ethWrap (cfg : Cfg) (f l3 : Bytes) : Bytes := slice f 6 6 ++ cfg.mac ++ u16be (rdBE (slice f 12 2)) ++ l3

/-- the part of a layer-3 result that `step` returns as `out`, framed by `w` -/
def l3Out (r : Except Site (List Ev × ClientInfo × Table × Option Bytes)) (w : Bytes → Bytes) :
    Except Site (Option Bytes) :=
  match r with
  | .error e => .error e
  | .ok (_, _, _, o) => .ok (o.map w)

theorem step_out_v4 {cfg : Cfg} {env : Env} {st : Table} {f : Bytes} {proto minLen : Nat}
    (h : Spec.deliverable cfg f false proto minLen = true) :
    (step cfg env st f).out = l3Out (ipv4Repl cfg env st (ci0 f) (f.drop 14)) (ethWrap cfg f) := by
  obtain ⟨hl, ha, he, -⟩ := deliverable4_elim h
  have hety : rdBE (slice f 12 2) = 0x0800 := by rw [rdBE_slice2 _ _ (by omega)]; exact he
  have h14 : ¬ f.length < 14 := by omega
  have hpl : ¬ (f.drop 14).length < 20 := by simp; omega
  rw [← slice_eq_sub, ← authMacs_contains] at ha
  simp only [step, h14, if_false, ethRepl, ha, Bool.not_true, Bool.false_eq_true, hety, hpl]
  simp only [show ¬ (2048 = 2054) by decide, if_false, if_true, ci0, l3Out]
  generalize ipv4Repl cfg env st _ _ = R
  rcases R with e | ⟨evs, ci', st', _ | r⟩ <;> simp [ethWrap, hety]

theorem step_out_v6 {cfg : Cfg} {env : Env} {st : Table} {f : Bytes} {proto minLen : Nat}
    (h : Spec.deliverable cfg f true proto minLen = true) :
    (step cfg env st f).out = l3Out (ipv6Repl cfg env st (ci0 f) (f.drop 14)) (ethWrap cfg f) := by
  obtain ⟨hl, ha, he, -⟩ := deliverable6_elim h
  have hety : rdBE (slice f 12 2) = 0x86dd := by rw [rdBE_slice2 _ _ (by omega)]; exact he
  have h14 : ¬ f.length < 14 := by omega
  have hpl : ¬ (f.drop 14).length < 40 := by simp; omega
  rw [← slice_eq_sub, ← authMacs_contains] at ha
  simp only [step, h14, if_false, ethRepl, ha, Bool.not_true, Bool.false_eq_true, hety, hpl]
  simp only [show ¬ (34525 = 2054) by decide, show ¬ (34525 = 2048) by decide, if_false, if_true, ci0, l3Out]
  generalize ipv6Repl cfg env st _ _ = R
  rcases R with e | ⟨evs, ci', st', _ | r⟩ <;> simp [ethWrap, hety]

/-! ### delivery through layer 3 -/

/-- the model-side facts a deliverable IPv4 frame satisfies (all that `ipv4Repl` tests before layer 4) -/
theorem ipv4_facts {cfg : Cfg} {f : Bytes} {proto minLen : Nat}
    (h : Spec.deliverable cfg f false proto minLen = true) :
    cfg.isSelf (.v4 (slice (f.drop 14) 16 4)) = true ∧ cfg.isDenied (.v4 (slice (f.drop 14) 12 4)) = false ∧
    at8 (f.drop 14) 9 = proto ∧ ipv4Payload (f.drop 14) = Spec.l4Bytes f ∧
    minLen ≤ (Spec.l4Bytes f).length ∧
    slice (f.drop 14) 12 4 = Spec.sub f 26 4 ∧ slice (f.drop 14) 16 4 = Spec.sub f 30 4 := by
  obtain ⟨hl, -, he, hd, hs, hp, hm⟩ := deliverable4_elim h
  refine ⟨?_, ?_, ?_, ipv4Payload_eq f hl he, hm, sub_drop f 14 12 4, sub_drop f 14 16 4⟩
  · rw [isSelf_eq_handled, slice_eq_sub, sub_drop]; exact hs
  · rw [isDenied_eq_inList, slice_eq_sub, sub_drop]; exact hd
  · rw [at8_eq_u8, u8_drop]; exact hp

/-- the model-side facts a deliverable IPv6 frame satisfies -/
theorem ipv6_facts {cfg : Cfg} {f : Bytes} {proto minLen : Nat}
    (h : Spec.deliverable cfg f true proto minLen = true) :
    (cfg.isSelf (.v6 (slice (f.drop 14) 24 16)) = true ∨ proto = 58) ∧
    cfg.isDenied (.v6 (slice (f.drop 14) 8 16)) = false ∧
    at8 (f.drop 14) 6 = proto ∧ ipv6Payload (f.drop 14) = Spec.l4Bytes f ∧
    minLen ≤ (Spec.l4Bytes f).length ∧
    slice (f.drop 14) 8 16 = Spec.sub f 22 16 ∧ slice (f.drop 14) 24 16 = Spec.sub f 38 16 := by
  obtain ⟨hl, -, he, hd, hs, hp, hm⟩ := deliverable6_elim h
  refine ⟨?_, ?_, ?_, ipv6Payload_eq f hl he, hm, sub_drop f 14 8 16, sub_drop f 14 24 16⟩
  · rw [isSelf_eq_handled, slice_eq_sub, sub_drop]; exact hs
  · rw [isDenied_eq_inList, slice_eq_sub, sub_drop]; exact hd
  · rw [at8_eq_u8, u8_drop]; exact hp

/-- what `ipv4Repl` does once its two filters have passed: dispatch of the payload `pl` of protocol
    `proto`; `ci` already carries the addresses `src`, `dst` of the request -/
def ipv4Deliver (cfg : Cfg) (env : Env) (st : Table) (ci : ClientInfo) (src dst : Bytes) (proto : Nat)
    (pl : Bytes) : Except Site (List Ev × ClientInfo × Table × Option Bytes) :=
  let rcv := ev .ipv4 .recv ci
  let ci := { ci with transport := some proto }
  let wrap (evs : List Ev) (ci : ClientInfo) (st : Table) (l4 : Bytes) :
      Except Site (List Ev × ClientInfo × Table × Option Bytes) :=
    if 20 + l4.length > 65535 then .error .setPayload
    else .ok ([rcv] ++ evs ++ [ev .ipv4 .send ci], ci, st, some (ipv4Hdr dst src proto (20 + l4.length) ++ l4))
  let drop (evs : List Ev) (ci : ClientInfo) (st : Table) :
      Except Site (List Ev × ClientInfo × Table × Option Bytes) :=
    .ok ([rcv] ++ evs ++ [ev .ipv4 .drop ci], ci, st, none)
  if proto = 1 then
    if pl.length < 4 then drop [] ci st
    else
      match icmp4Repl ci pl with
      | (evs, none) => drop evs ci st
      | (evs, some r) => wrap evs ci st (setU16 r 2 (csumPlain r))
  else if proto = 6 then
    if pl.length < 20 then drop [] ci st
    else
      match tcpRepl cfg env st ci pl with
      | .error e => .error e
      | .ok (evs, ci', st', none) => drop evs ci' st'
      | .ok (evs, ci', st', some r) => wrap evs ci' st' (setU16 r 16 (csumPseudo dst src 6 r))
  else if proto = 17 then
    if pl.length < 8 then drop [] ci st
    else
      match udpRepl cfg env ci pl with
      | .error e => .error e
      | .ok (evs, ci', none) => drop evs ci' st
      | .ok (evs, ci', some r) =>
        if r.length > 65535 then .error .udpLen
        else wrap evs ci' st (setU16 r 6 (csumPseudo dst src 17 r))
  else drop [] ci st

/-- a deliverable IPv4 frame reaches the layer-4 dispatch with payload `Spec.l4Bytes f` -/
theorem ipv4Repl_deliverable {cfg : Cfg} {f : Bytes} {proto minLen : Nat} (env : Env) (st : Table)
    (ci : ClientInfo) (h : Spec.deliverable cfg f false proto minLen = true) :
    ipv4Repl cfg env st ci (f.drop 14) =
      ipv4Deliver cfg env st { ci with ipSrc := some (.v4 (Spec.sub f 26 4)), ipDst := some (.v4 (Spec.sub f 30 4)) }
        (Spec.sub f 26 4) (Spec.sub f 30 4) proto (Spec.l4Bytes f) := by
  obtain ⟨h1, h2, h3, h4, -, h6, h7⟩ := ipv4_facts h
  simp only [ipv4Repl, h1, h2, h3, h4, Bool.not_true, Bool.false_eq_true, if_false, ipv4Deliver]
  simp only [h6, h7]
  rfl

/-- what `ipv6Repl` does once its two filters have passed -/
def ipv6Deliver (cfg : Cfg) (env : Env) (st : Table) (ci : ClientInfo) (src dst : Bytes) (nh : Nat)
    (pl : Bytes) : Except Site (List Ev × ClientInfo × Table × Option Bytes) :=
  let rcv := ev .ipv6 .recv ci
  let ci := { ci with transport := some nh }
  let wrap (evs : List Ev) (ci : ClientInfo) (st : Table) (from_ : Bytes) (hlim : Nat) (l4 : Bytes) :
      Except Site (List Ev × ClientInfo × Table × Option Bytes) :=
    if l4.length > 65535 then .error .setPayload
    else .ok ([rcv] ++ evs ++ [ev .ipv6 .send ci], ci, st, some (ipv6Hdr from_ src nh l4.length hlim ++ l4))
  let drop (evs : List Ev) (ci : ClientInfo) (st : Table) :
      Except Site (List Ev × ClientInfo × Table × Option Bytes) :=
    .ok ([rcv] ++ evs ++ [ev .ipv6 .drop ci], ci, st, none)
  if nh = 58 then
    if pl.length < 4 then drop [] ci st
    else
      match icmp6Repl cfg ci pl with
      | (evs, none) => drop evs ci st
      | (evs, some (r, tgt)) =>
        let from_ := tgt.getD dst
        let r' := setU16 r 2 (csumPseudo src from_ 58 r)
        wrap evs ci st from_ (if at8 r 0 = 136 then 255 else 64) r'
  else if nh = 6 then
    if pl.length < 20 then drop [] ci st
    else
      match tcpRepl cfg env st ci pl with
      | .error e => .error e
      | .ok (evs, ci', st', none) => drop evs ci' st'
      | .ok (evs, ci', st', some r) => wrap evs ci' st' dst 64 (setU16 r 16 (csumPseudo dst src 6 r))
  else if nh = 17 then
    if pl.length < 8 then drop [] ci st
    else
      match udpRepl cfg env ci pl with
      | .error e => .error e
      | .ok (evs, ci', none) => drop evs ci' st
      | .ok (evs, ci', some r) =>
        let c := csumPseudo dst src 17 r
        wrap evs ci' st dst 64 (setU16 r 6 (if c = 0 then 65535 else c))
  else drop [] ci st

/-- a deliverable IPv6 frame reaches the layer-4 dispatch with payload `Spec.l4Bytes f` -/
theorem ipv6Repl_deliverable {cfg : Cfg} {f : Bytes} {proto minLen : Nat} (env : Env) (st : Table)
    (ci : ClientInfo) (h : Spec.deliverable cfg f true proto minLen = true) :
    ipv6Repl cfg env st ci (f.drop 14) =
      ipv6Deliver cfg env st { ci with ipSrc := some (.v6 (Spec.sub f 22 16)), ipDst := some (.v6 (Spec.sub f 38 16)) }
        (Spec.sub f 22 16) (Spec.sub f 38 16) proto (Spec.l4Bytes f) := by
  obtain ⟨h1, h2, h3, h4, -, h6, h7⟩ := ipv6_facts h
  have h1' : ¬ (cfg.isSelf (.v6 (slice (f.drop 14) 24 16)) = false ∧ proto ≠ 58) := by
    rcases h1 with h1 | h1
    · simp [h1]
    · simp [h1]
  simp only [ipv6Repl, h2, h3, h4, Bool.not_eq_true', h1', Bool.false_eq_true, if_false, ipv6Deliver]
  simp only [h6, h7]
  rfl

/-! ### reply side: reading the frames the model emits -/

theorem u8_append_left {A B : Bytes} {i : Nat} (h : i < A.length) : Spec.u8 (A ++ B) i = Spec.u8 A i := by
  simp [Spec.u8, List.getD_eq_getElem?_getD, List.getElem?_append_left h]

theorem u8_append_right {A B : Bytes} {i : Nat} (h : A.length ≤ i) :
    Spec.u8 (A ++ B) i = Spec.u8 B (i - A.length) := by
  simp [Spec.u8, List.getD_eq_getElem?_getD, List.getElem?_append_right h]

theorem be16_append_left {A B : Bytes} {i : Nat} (h : i + 1 < A.length) :
    Spec.be16 (A ++ B) i = Spec.be16 A i := by
  simp [Spec.be16, u8_append_left (show i < A.length by omega), u8_append_left h]

theorem be16_append_right {A B : Bytes} {i : Nat} (h : A.length ≤ i) :
    Spec.be16 (A ++ B) i = Spec.be16 B (i - A.length) := by
  simp only [Spec.be16, u8_append_right h, u8_append_right (show A.length ≤ i + 1 by omega)]
  congr 2; omega

theorem byte_toNat' (n : Nat) : (byte n).toNat = n % 256 := by
  simp [byte]

theorem be16_u16be (n : Nat) (t : Bytes) : Spec.be16 (u16be n ++ t) 0 = n % 65536 := by
  simp [Spec.be16, Spec.u8, u16be, byte_toNat']
  omega

theorem l4Bytes_reply_v4 (E H L : Bytes) (hE : E.length = 14) (he : Spec.be16 E 12 = 0x0800)
    (hH : H.length = 20) (h0 : Spec.u8 H 0 % 16 = 5) (ht : Spec.be16 H 2 = 20 + L.length) :
    Spec.l4Bytes (E ++ (H ++ L)) = L := by
  have h12 : Spec.be16 (E ++ (H ++ L)) 12 = 0x0800 := by rw [be16_append_left (by omega)]; exact he
  have hd : (E ++ (H ++ L)).drop 14 = H ++ L := by
    rw [List.drop_append_of_le_length (by omega), ← hE]; simp
  have h0' : Spec.u8 (H ++ L) 0 % 16 = 5 := by rw [u8_append_left (by omega)]; exact h0
  have ht' : Spec.be16 (H ++ L) 2 = 20 + L.length := by rw [be16_append_left (by omega)]; exact ht
  simp only [Spec.l4Bytes, h12, if_true, hd, h0', ht']
  simp [hH]
  rw [List.take_of_length_le (by simp [hH]), List.drop_append_of_le_length (by omega), ← hH]; simp

theorem l4Bytes_reply_v6 (E H L : Bytes) (hE : E.length = 14) (he : Spec.be16 E 12 = 0x86dd)
    (hH : H.length = 40) (ht : Spec.be16 H 4 = L.length) :
    Spec.l4Bytes (E ++ (H ++ L)) = L := by
  have h12 : Spec.be16 (E ++ (H ++ L)) 12 = 0x86dd := by rw [be16_append_left (by omega)]; exact he
  have hd : (E ++ (H ++ L)).drop 14 = H ++ L := by
    rw [List.drop_append_of_le_length (by omega), ← hE]; simp
  have ht' : Spec.be16 (H ++ L) 4 = L.length := by rw [be16_append_left (by omega)]; exact ht
  simp only [Spec.l4Bytes, h12, hd, ht']
  simp [hH]
  rw [List.take_of_length_le (by simp [hH]), List.drop_append_of_le_length (by omega), ← hH]; simp


/-! headers written by the model -/

theorem ipv4Hdr_length (src dst : Bytes) (proto t : Nat) (hs : src.length = 4) (hd : dst.length = 4) :
    (ipv4Hdr src dst proto t).length = 20 := by
  simp [ipv4Hdr, setU16, u16be, hs, hd]

theorem ipv4Hdr_u8_0 (src dst : Bytes) (proto t : Nat) : Spec.u8 (ipv4Hdr src dst proto t) 0 = 0x45 := by
  simp [ipv4Hdr, setU16, u16be, Spec.u8]

theorem ipv4Hdr_u8_9 (src dst : Bytes) (proto t : Nat) : Spec.u8 (ipv4Hdr src dst proto t) 9 = proto % 256 := by
  simp [ipv4Hdr, setU16, u16be, Spec.u8, byte_toNat']

theorem ipv4Hdr_be16_2 (src dst : Bytes) (proto t : Nat) : Spec.be16 (ipv4Hdr src dst proto t) 2 = t % 65536 := by
  simp [ipv4Hdr, setU16, u16be, Spec.u8, Spec.be16, byte_toNat']
  omega

theorem ipv6Hdr_length (src dst : Bytes) (nh n hl : Nat) (hs : src.length = 16) (hd : dst.length = 16) :
    (ipv6Hdr src dst nh n hl).length = 40 := by
  simp [ipv6Hdr, u16be, hs, hd]

theorem ipv6Hdr_u8_0 (src dst : Bytes) (nh n hl : Nat) : Spec.u8 (ipv6Hdr src dst nh n hl) 0 = 0x60 := by
  simp [ipv6Hdr, u16be, Spec.u8]

theorem ipv6Hdr_u8_6 (src dst : Bytes) (nh n hl : Nat) : Spec.u8 (ipv6Hdr src dst nh n hl) 6 = nh % 256 := by
  simp [ipv6Hdr, u16be, Spec.u8, byte_toNat']

theorem ipv6Hdr_be16_4 (src dst : Bytes) (nh n hl : Nat) : Spec.be16 (ipv6Hdr src dst nh n hl) 4 = n % 65536 := by
  simp [ipv6Hdr, u16be, Spec.u8, Spec.be16, byte_toNat']
  omega

theorem ipv6Hdr_src (src dst : Bytes) (nh n hl : Nat) (hs : src.length = 16) :
    Spec.sub (ipv6Hdr src dst nh n hl) 8 16 = src := by
  simp [ipv6Hdr, u16be, Spec.sub, ← hs]


/-! Ethernet header of a reply -/

def ethHdr (cfg : Cfg) (f : Bytes) : Bytes := slice f 6 6 ++ cfg.mac ++ u16be (rdBE (slice f 12 2))

theorem ethWrap_eq (cfg : Cfg) (f l3 : Bytes) : ethWrap cfg f l3 = ethHdr cfg f ++ l3 := rfl

theorem slice_length (b : Bytes) (i n : Nat) (h : i + n ≤ b.length) : (slice b i n).length = n := by
  simp [slice]; omega

theorem be16_lt (b : Bytes) (i : Nat) : Spec.be16 b i < 65536 := by
  have h1 := (b.getD i 0).toNat_lt
  have h2 := (b.getD (i+1) 0).toNat_lt
  simp only [Spec.be16, Spec.u8]; omega

theorem ethHdr_length (cfg : Cfg) (f : Bytes) (hm : cfg.mac.length = 6) (hl : 12 ≤ f.length) :
    (ethHdr cfg f).length = 14 := by
  simp [ethHdr, slice_length f 6 6 (by omega), hm, u16be]

theorem ethHdr_be16 (cfg : Cfg) (f : Bytes) (hm : cfg.mac.length = 6) (hl : 14 ≤ f.length) :
    Spec.be16 (ethHdr cfg f) 12 = Spec.be16 f 12 := by
  unfold ethHdr
  rw [be16_append_right (by simp [slice_length f 6 6 (by omega), hm])]
  simp only [List.length_append, slice_length f 6 6 (by omega), hm, Nat.sub_self]
  have := be16_u16be (rdBE (slice f 12 2)) []
  simp only [List.append_nil] at this
  rw [this, rdBE_slice2 _ _ (by omega), Nat.mod_eq_of_lt (be16_lt f 12)]


/-! the whole reply frame, as a receiver reads it -/

theorem reply_v4_frame (cfg : Cfg) (f src dst L : Bytes) (proto : Nat) (hm : cfg.mac.length = 6)
    (hl : 14 ≤ f.length) (he : Spec.be16 f 12 = 0x0800) (hs : src.length = 4) (hd : dst.length = 4)
    (hL : 20 + L.length ≤ 65535) :
    (ethWrap cfg f (ipv4Hdr src dst proto (20 + L.length) ++ L)).length = 34 + L.length ∧
    Spec.be16 (ethWrap cfg f (ipv4Hdr src dst proto (20 + L.length) ++ L)) 12 = 0x0800 ∧
    Spec.u8 (ethWrap cfg f (ipv4Hdr src dst proto (20 + L.length) ++ L)) 14 = 0x45 ∧
    Spec.u8 (ethWrap cfg f (ipv4Hdr src dst proto (20 + L.length) ++ L)) 23 = proto % 256 ∧
    Spec.l4Bytes (ethWrap cfg f (ipv4Hdr src dst proto (20 + L.length) ++ L)) = L := by
  have hE := ethHdr_length cfg f hm (by omega)
  have hE2 := ethHdr_be16 cfg f hm hl
  have hH := ipv4Hdr_length src dst proto (20 + L.length) hs hd
  rw [ethWrap_eq]
  refine ⟨?_, ?_, ?_, ?_, ?_⟩
  · simp [hE, hH]; omega
  · rw [be16_append_left (by omega), hE2, he]
  · rw [u8_append_right (by omega), hE, u8_append_left (by omega)]; exact ipv4Hdr_u8_0 ..
  · rw [u8_append_right (by omega), hE, u8_append_left (by omega)]; exact ipv4Hdr_u8_9 ..
  · apply l4Bytes_reply_v4 _ _ _ hE (by rw [hE2, he]) hH
    · rw [ipv4Hdr_u8_0]
    · rw [ipv4Hdr_be16_2]; omega

theorem reply_v6_frame (cfg : Cfg) (f src dst L : Bytes) (nh hlim : Nat) (hm : cfg.mac.length = 6)
    (hl : 14 ≤ f.length) (he : Spec.be16 f 12 = 0x86dd) (hs : src.length = 16) (hd : dst.length = 16)
    (hL : L.length ≤ 65535) :
    (ethWrap cfg f (ipv6Hdr src dst nh L.length hlim ++ L)).length = 54 + L.length ∧
    Spec.be16 (ethWrap cfg f (ipv6Hdr src dst nh L.length hlim ++ L)) 12 = 0x86dd ∧
    Spec.u8 (ethWrap cfg f (ipv6Hdr src dst nh L.length hlim ++ L)) 14 = 0x60 ∧
    Spec.u8 (ethWrap cfg f (ipv6Hdr src dst nh L.length hlim ++ L)) 20 = nh % 256 ∧
    Spec.l4Bytes (ethWrap cfg f (ipv6Hdr src dst nh L.length hlim ++ L)) = L ∧
    Spec.sub (ethWrap cfg f (ipv6Hdr src dst nh L.length hlim ++ L)) 22 16 = src := by
  have hE := ethHdr_length cfg f hm (by omega)
  have hE2 := ethHdr_be16 cfg f hm hl
  have hH := ipv6Hdr_length src dst nh L.length hlim hs hd
  rw [ethWrap_eq]
  refine ⟨?_, ?_, ?_, ?_, ?_, ?_⟩
  · simp [hE, hH]; omega
  · rw [be16_append_left (by omega), hE2, he]
  · rw [u8_append_right (by omega), hE, u8_append_left (by omega)]; exact ipv6Hdr_u8_0 ..
  · rw [u8_append_right (by omega), hE, u8_append_left (by omega)]; exact ipv6Hdr_u8_6 ..
  · apply l4Bytes_reply_v6 _ _ _ hE (by rw [hE2, he]) hH
    rw [ipv6Hdr_be16_4]; omega
  · have : Spec.sub (ethHdr cfg f ++ (ipv6Hdr src dst nh L.length hlim ++ L)) 22 16 =
        Spec.sub (ipv6Hdr src dst nh L.length hlim) 8 16 := by
      simp only [Spec.sub]
      rw [List.drop_append, hE, List.drop_of_length_le (by omega), List.nil_append]
      simp only [show 22 - 14 = 8 by rfl]
      rw [List.drop_append, List.take_append]
      simp [hH]
    rw [this, ipv6Hdr_src _ _ _ _ _ hs]

end Masscanned
