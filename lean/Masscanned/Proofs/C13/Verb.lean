/-
  Proofs/C13/Verb — the verb phase of `http_parse` (`search_next` over `Gen.HttpSmack`):
  simulation lemmas for `innerMatch` / `searchNext` / `httpVerbLoop` from the kernel checks of
  `Proofs/C13/Table`.
-/
import Masscanned.Proofs.C13.Table
namespace Masscanned.C13.Aux
open Masscanned Spec

/-! ### extraction of the kernel-checked facts -/

theorem chk_all (r : Nat) (hr : r < 61) (b : UInt8) : chk r b = true := by
  have h := closureOk_true
  unfold closureOk at h
  have h1 := List.all_eq_true.1 h r (List.mem_range.2 hr)
  have h2 := List.all_eq_true.1 h1 b.toNat (List.mem_range.2 b.toNat_lt)
  simpa using h2

theorem chkRow_all (r : Nat) (hr : r < 61) : chkRow r = true :=
  List.all_eq_true.1 rowsOk_true r (List.mem_range.2 hr)

def live (r : Nat) : Prop := r = 0 ∨ (2 ≤ r ∧ r < 48)
def dead (r : Nat) : Prop := r = 1 ∨ (48 ≤ r ∧ r < 61)

theorem c2s_lt (b : UInt8) : Gen.HttpSmack.c2s b.toNat < 32 := by
  have := chk_all 0 (by omega) b
  simp only [chk, Bool.and_eq_true, decide_eq_true_eq] at this
  exact this.1.1

theorem step_lower (r : Nat) (hr : r < 61) (b : UInt8) : step r (lowerB b) = step r b := by
  have := chk_all r hr b
  simp only [chk, Bool.and_eq_true, decide_eq_true_eq] at this
  exact this.2

theorem step_dead (r : Nat) (hr : dead r) (b : UInt8) :
    step r b = 1 ∨ step r b = 59 ∨ step r b = 60 := by
  have hr' : r < 61 := by rcases hr with h | h <;> omega
  have hc : r = 1 ∨ r ≥ 48 := by rcases hr with h | h <;> omega
  have := chk_all r hr' b
  simp only [chk, Bool.and_eq_true, decide_eq_true_eq, if_pos hc] at this
  exact this.1.2

theorem step_live (r : Nat) (hr : live r) (b : UInt8) :
    step r b = 1 ∨ step r b = 59 ∨ step r b = 60 ∨
      (step r b < 59 ∧ word (step r b) = word r ++ [lowerB b]) := by
  have hr' : r < 61 := by rcases hr with h | h <;> omega
  have hc : ¬ (r = 1 ∨ r ≥ 48) := by rcases hr with h | h <;> omega
  have := chk_all r hr' b
  simp only [chk, Bool.and_eq_true, decide_eq_true_eq, if_neg hc] at this
  exact this.1.2

theorem cnt_low (r : Nat) (hr : r < 48) : Gen.HttpSmack.cnt r = 0 := by
  have := chkRow_all r (by omega)
  simpa [chkRow, hr] using this

theorem row_high (r : Nat) (h48 : 48 ≤ r) (hr : r < 61) :
    Gen.HttpSmack.cnt r = 1 ∧ Gen.HttpSmack.ids r = [idOf r] ∧ idOf r < 5 ∧
      (idOf r = 0 → r ≠ 59 ∧ r ≠ 60 ∧ word r ∈ lowerM) := by
  have := chkRow_all r hr
  have hn : ¬ r < 48 := by omega
  simp only [chkRow, hn, if_false, Bool.and_eq_true, decide_eq_true_eq] at this
  refine ⟨this.1.1.1, this.1.1.2, this.1.2, ?_⟩
  intro h0
  have h2 := this.2
  simp only [h0, if_true, Bool.and_eq_true, decide_eq_true_eq] at h2
  exact ⟨h2.1.1, h2.1.2, h2.2⟩

/-! ### `innerMatch` -/

theorem innerMatch_nil (r idx : Nat) : httpTbl.innerMatch r [] idx = .ok (idx, r) := by
  rw [SmackTbl.innerMatch]

theorem innerMatch_cons (r : Nat) (hr : r < 61) (b : UInt8) (t : Bytes) (idx : Nat) :
    httpTbl.innerMatch r (b :: t) idx =
      if 48 ≤ step r b then .ok (idx, step r b) else httpTbl.innerMatch (step r b) t (idx + 1) := by
  rw [SmackTbl.innerMatch]
  have hk : r * 2 ^ httpTbl.rowShift + httpTbl.c2s b.toNat < httpTbl.transLen := by
    show r * 2 ^ 5 + Gen.HttpSmack.c2s b.toNat < 61 * 2 ^ 5
    have := c2s_lt b
    omega
  simp only [hk, if_true]
  rfl

/-- outcome of `innerMatch` started in the unanchored row 1 -/
def DeadRes (d : Bytes) (idx ii row : Nat) : Prop :=
  (row = 1 ∧ ii = idx + d.length) ∨ ((row = 59 ∨ row = 60) ∧ idx ≤ ii ∧ ii < idx + d.length)

theorem innerMatch_one (d : Bytes) (idx : Nat) :
    ∃ ii row, httpTbl.innerMatch 1 d idx = .ok (ii, row) ∧ DeadRes d idx ii row := by
  induction d generalizing idx with
  | nil => exact ⟨idx, 1, innerMatch_nil 1 idx, Or.inl ⟨rfl, by simp⟩⟩
  | cons b t ih =>
    rw [innerMatch_cons 1 (by omega)]
    rcases step_dead 1 (Or.inl rfl) b with h | h | h
    · rw [h]
      obtain ⟨ii, row, h1, h2⟩ := ih (idx + 1)
      refine ⟨ii, row, by simpa using h1, ?_⟩
      rcases h2 with ⟨h3, h4⟩ | ⟨h3, h4, h5⟩
      · exact Or.inl ⟨h3, by simp only [List.length_cons]; omega⟩
      · exact Or.inr ⟨h3, by omega, by simp only [List.length_cons]; omega⟩
    · rw [h]; exact ⟨idx, 59, by simp, Or.inr ⟨Or.inl rfl, by omega, by simp⟩⟩
    · rw [h]; exact ⟨idx, 60, by simp, Or.inr ⟨Or.inr rfl, by omega, by simp⟩⟩

theorem innerMatch_dead (r : Nat) (hr : dead r) (b : UInt8) (t : Bytes) (idx : Nat) :
    ∃ ii row, httpTbl.innerMatch r (b :: t) idx = .ok (ii, row) ∧ DeadRes (b :: t) idx ii row := by
  have hr' : r < 61 := by rcases hr with h | h <;> omega
  rw [innerMatch_cons r hr']
  rcases step_dead r hr b with h | h | h
  · rw [h]
    obtain ⟨ii, row, h1, h2⟩ := innerMatch_one t (idx + 1)
    refine ⟨ii, row, by simpa using h1, ?_⟩
    rcases h2 with ⟨h3, h4⟩ | ⟨h3, h4, h5⟩
    · exact Or.inl ⟨h3, by simp only [List.length_cons]; omega⟩
    · exact Or.inr ⟨h3, by omega, by simp only [List.length_cons]; omega⟩
  · rw [h]; exact ⟨idx, 59, by simp, Or.inr ⟨Or.inl rfl, by omega, by simp⟩⟩
  · rw [h]; exact ⟨idx, 60, by simp, Or.inr ⟨Or.inr rfl, by omega, by simp⟩⟩

/-- outcome of `innerMatch` started in a live (trie) row `r` -/
def LiveRes (r : Nat) (d : Bytes) (idx ii row : Nat) : Prop :=
  (row < 48 ∧ ii = idx + d.length) ∨
  (48 ≤ row ∧ row < 61 ∧ idx ≤ ii ∧ ii < idx + d.length ∧
    (row = 59 ∨ row = 60 ∨ word row = word r ++ (d.take (ii + 1 - idx)).map lowerB))

theorem innerMatch_live (d : Bytes) (r : Nat) (hr : live r) (idx : Nat) :
    ∃ ii row, httpTbl.innerMatch r d idx = .ok (ii, row) ∧ LiveRes r d idx ii row := by
  induction d generalizing r idx with
  | nil =>
    refine ⟨idx, r, innerMatch_nil r idx, Or.inl ⟨?_, by simp⟩⟩
    rcases hr with h | h <;> omega
  | cons b t ih =>
    have hr' : r < 61 := by rcases hr with h | h <;> omega
    rw [innerMatch_cons r hr']
    rcases step_live r hr b with h | h | h | ⟨h, hw⟩
    · rw [h]
      obtain ⟨ii, row, h1, h2⟩ := innerMatch_one t (idx + 1)
      refine ⟨ii, row, by simpa using h1, ?_⟩
      rcases h2 with ⟨h3, h4⟩ | ⟨h3, h4, h5⟩
      · exact Or.inl ⟨by omega, by simp only [List.length_cons]; omega⟩
      · refine Or.inr ⟨by omega, by omega, by omega, by simp only [List.length_cons]; omega, ?_⟩
        rcases h3 with h3 | h3
        · exact Or.inl h3
        · exact Or.inr (Or.inl h3)
    · rw [h]
      exact ⟨idx, 59, by simp, Or.inr ⟨by omega, by omega, by omega, by simp, Or.inl rfl⟩⟩
    · rw [h]
      exact ⟨idx, 60, by simp, Or.inr ⟨by omega, by omega, by omega, by simp, Or.inr (Or.inl rfl)⟩⟩
    · by_cases h48 : 48 ≤ step r b
      · refine ⟨idx, step r b, by simp [h48], Or.inr ⟨h48, by omega, by omega, by simp, ?_⟩⟩
        right; right
        have : idx + 1 - idx = 1 := by omega
        rw [hw, this]; simp
      · rw [if_neg h48]
        by_cases h1 : step r b = 1
        · rw [h1]
          obtain ⟨ii, row, h1, h2⟩ := innerMatch_one t (idx + 1)
          refine ⟨ii, row, h1, ?_⟩
          rcases h2 with ⟨h3, h4⟩ | ⟨h3, h4, h5⟩
          · exact Or.inl ⟨by omega, by simp only [List.length_cons]; omega⟩
          · refine Or.inr ⟨by omega, by omega, by omega, by simp only [List.length_cons]; omega, ?_⟩
            rcases h3 with h3 | h3
            · exact Or.inl h3
            · exact Or.inr (Or.inl h3)
        · have hl : live (step r b) := by
            unfold live; omega
          obtain ⟨ii, row, h1, h2⟩ := ih (step r b) hl (idx + 1)
          refine ⟨ii, row, h1, ?_⟩
          rcases h2 with ⟨h3, h4⟩ | ⟨h3, h3', h4, h5, h6⟩
          · exact Or.inl ⟨h3, by simp only [List.length_cons]; omega⟩
          · refine Or.inr ⟨h3, h3', by omega, by simp only [List.length_cons]; omega, ?_⟩
            rcases h6 with h6 | h6 | h6
            · exact Or.inl h6
            · exact Or.inr (Or.inl h6)
            · right; right
              have e : ii + 1 - idx = (ii + 1 - (idx + 1)) + 1 := by omega
              rw [h6, hw, e]
              simp

/-! ### `searchNext` -/

theorem searchNext_of_inner (st : Nat) (hst : st < 61) (d : Bytes) (ii row : Nat)
    (h : httpTbl.innerMatch st d 0 = .ok (ii, row)) (hrow : row < 61) :
    httpTbl.searchNext st d =
      if row < 48 then .ok (noMatch, row, ii) else .ok (idOf row, row, ii + 1) := by
  have hm : st % 16777216 = st := Nat.mod_eq_of_lt (by omega)
  have hd : st / 16777216 = 0 := Nat.div_eq_of_lt (by omega)
  have hlen : row < httpTbl.matchLen := by show row < 84; omega
  unfold SmackTbl.searchNext
  simp only [hm, hd, h, if_true, hlen]
  by_cases h48 : row < 48
  · have hc : httpTbl.cnt row = 0 := cnt_low row h48
    simp [hc, h48]
  · obtain ⟨hc, hids, _, _⟩ := row_high row (by omega) hrow
    have hc' : httpTbl.cnt row = 1 := hc
    have hids' : httpTbl.ids row = [idOf row] := hids
    simp [hc', hids', h48, hlen]

theorem idOf_ne_noMatch (r : Nat) (h : idOf r < 5) : idOf r ≠ noMatch := by
  unfold noMatch; omega

/-- `search_next` from a dead state on a non-empty input: either no match (all consumed, state 1) or a
    match with an id other than Verb and a dead new state -/
theorem searchNext_dead (st : Nat) (hst : dead st) (b : UInt8) (t : Bytes) :
    ∃ id st' n, httpTbl.searchNext st (b :: t) = .ok (id, st', n) ∧ 1 ≤ n ∧ n ≤ (b :: t).length ∧
      ((id = noMatch ∧ st' = 1 ∧ n = (b :: t).length) ∨ (id ≠ 0 ∧ id ≠ noMatch ∧ dead st')) := by
  have hst' : st < 61 := by rcases hst with h | h <;> omega
  obtain ⟨ii, row, h1, h2⟩ := innerMatch_dead st hst b t 0
  rcases h2 with ⟨h3, h4⟩ | ⟨h3, h4, h5⟩
  · subst h3
    rw [searchNext_of_inner st hst' _ ii 1 h1 (by omega)]
    refine ⟨noMatch, 1, ii, by simp, ?_, by omega, Or.inl ⟨rfl, rfl, by omega⟩⟩
    simp only [List.length_cons] at h4; omega
  · have hrow : 48 ≤ row ∧ row < 61 := by rcases h3 with h | h <;> omega
    rw [searchNext_of_inner st hst' _ ii row h1 hrow.2]
    obtain ⟨_, _, hid, h0⟩ := row_high row hrow.1 hrow.2
    refine ⟨idOf row, row, ii + 1, by simp; omega, by omega, by omega, Or.inr ⟨?_, idOf_ne_noMatch _ hid, Or.inr hrow⟩⟩
    intro e
    have := h0 e
    rcases h3 with h | h <;> omega

/-- `search_next` from the start state on a non-empty input -/
theorem searchNext_start (d : Bytes) (hd : d ≠ []) :
    ∃ id st' n, httpTbl.searchNext 0 d = .ok (id, st', n) ∧ 1 ≤ n ∧ n ≤ d.length ∧
      ((id = noMatch ∧ n = d.length ∧ st' < 48) ∨ (id ≠ 0 ∧ id ≠ noMatch ∧ dead st') ∨
       (id = 0 ∧ (d.take n).map lowerB ∈ lowerM)) := by
  obtain ⟨ii, row, h1, h2⟩ := innerMatch_live d 0 (Or.inl rfl) 0
  have hpos : 0 < d.length := List.length_pos_iff.2 hd
  rcases h2 with ⟨h3, h4⟩ | ⟨h3, h3', h4, h5, h6⟩
  · rw [searchNext_of_inner 0 (by omega) _ ii row h1 (by omega)]
    refine ⟨noMatch, row, ii, by simp [h3], by omega, by omega, Or.inl ⟨rfl, by omega, h3⟩⟩
  · rw [searchNext_of_inner 0 (by omega) _ ii row h1 h3']
    obtain ⟨_, _, hid, h0⟩ := row_high row h3 h3'
    refine ⟨idOf row, row, ii + 1, by simp; omega, by omega, by omega, ?_⟩
    by_cases e : idOf row = 0
    · right; right
      obtain ⟨n59, n60, hw⟩ := h0 e
      refine ⟨e, ?_⟩
      rcases h6 with h6 | h6 | h6
      · exact absurd h6 n59
      · exact absurd h6 n60
      · have hw0 : word 0 = [] := rfl
        rw [h6, hw0] at hw
        simpa using hw
    · right; left
      exact ⟨e, idOf_ne_noMatch _ hid, Or.inr ⟨h3, h3'⟩⟩

/-! ### the verb loop -/

theorem verbLoop_nil (fuel : Nat) (ps : HttpSt) (pos : Nat) :
    httpVerbLoop (fuel + 1) ps [] pos = .ok ps := by
  simp [httpVerbLoop]

/-- from a dead matcher state the loop never finds a verb: it ends in the same state or FAIL -/
theorem verbLoop_dead (fuel : Nat) (ps : HttpSt) (d : Bytes) (pos : Nat)
    (hdead : dead ps.smackState) (hf : d.length < fuel) :
    ∃ ps', httpVerbLoop fuel ps d pos = .ok ps' ∧ (ps'.state = ps.state ∨ ps'.state = .fail) := by
  induction fuel generalizing ps d pos with
  | zero => omega
  | succ fuel ih =>
    cases d with
    | nil => exact ⟨ps, verbLoop_nil fuel ps pos, Or.inl rfl⟩
    | cons b t =>
      obtain ⟨id, st', n, hs, hn1, hn2, hcase⟩ := searchNext_dead ps.smackState hdead b t
      rw [httpVerbLoop]
      have hne : (b :: t) ≠ [] := by simp
      simp only [hne, if_false, hs]
      have h1 : ¬ n > (b :: t).length := by omega
      have h2 : ¬ pos + n = 0 := by omega
      simp only [h1, h2, if_false]
      rcases hcase with ⟨e1, e2, _⟩ | ⟨e1, e2, e3⟩
      · subst e1; subst e2
        have : noMatch ≠ 0 := by unfold noMatch; omega
        simp [this, unanchoredState]
      · simp only [e1, e2, if_false]
        have hl : ((b :: t).drop n).length < fuel := by
          rw [List.length_drop]; simp only [List.length_cons] at hf hn2 ⊢; omega
        obtain ⟨ps', hp, hst⟩ := ih { ps with smackState := st', smackId := id } ((b :: t).drop n) (pos + n) e3 hl
        exact ⟨ps', hp, hst⟩

/-- **Soundness of the verb phase**: from the initial state, `http_parse` on a non-empty input never
    fails, and either the input starts (case-insensitively) with one of the nine methods — then the
    FSM is run on the rest from the SPACE state — or the parser stays in VERB / goes to FAIL. -/
theorem parse_start (p : Bytes) (hp : p ≠ []) :
    ∃ ps', httpParse {} p = .ok ps' ∧
      ((∃ m rest, p = m ++ rest ∧ m.map lowerB ∈ lowerM ∧ ps'.state = httpFold .space rest ∧
          ps'.smackId = 0) ∨
        ps'.state = .verb ∨ ps'.state = .fail) := by
  obtain ⟨id, st', n, hs, hn1, hn2, hcase⟩ := searchNext_start p hp
  have hfuel : 2 * p.length + 300 = (2 * p.length + 299) + 1 := by omega
  have hst0 : ({} : HttpSt).state = .start := rfl
  unfold httpParse
  simp only [hp, if_false]
  rw [hfuel, httpVerbLoop]
  have hs' : httpTbl.searchNext baseState p = .ok (id, st', n) := hs
  simp only [hp, if_false, hs']
  have h1 : ¬ n > p.length := by omega
  have h2 : ¬ 0 + n = 0 := by omega
  simp only [h1, h2, if_false]
  rcases hcase with ⟨e1, e2, e3⟩ | ⟨e1, e2, e3⟩ | ⟨e1, e2⟩
  · subst e1
    have : noMatch ≠ 0 := by unfold noMatch; omega
    simp only [this, if_false, if_true]
    by_cases hu : st' = unanchoredState
    · simp only [hu, if_true]
      exact ⟨_, rfl, Or.inr (Or.inr rfl)⟩
    · simp only [hu, if_false]
      have hd : p.drop n = [] := by rw [e2]; simp
      rw [hd, verbLoop_nil]
      exact ⟨_, rfl, Or.inr (Or.inl rfl)⟩
  · simp only [e1, e2, if_false]
    have hl : (p.drop n).length < 2 * p.length + 299 := by
      rw [List.length_drop]; omega
    obtain ⟨ps', hpar, hst⟩ := verbLoop_dead (2 * p.length + 299)
      { state := .verb, smackState := st', smackId := id } (p.drop n) (0 + n) e3 hl
    refine ⟨ps', hpar, Or.inr ?_⟩
    rcases hst with h | h
    · exact Or.inl h
    · exact Or.inr h
  · subst e1
    simp only [if_true]
    refine ⟨_, rfl, Or.inl ⟨p.take n, p.drop n, (List.take_append_drop n p).symm, e2, rfl, rfl⟩⟩

/-! ### completeness: the table evaluated along each method -/

/-- walking `m` from row `r` enters a match row exactly at the last byte of `m`, namely `row` -/
def runsTo : Nat → Bytes → Nat → Bool
  | _, [], _ => false
  | r, [b], row => decide (r < 61) && decide (step r b = row) && decide (48 ≤ row)
  | r, b :: c :: t, row => decide (r < 61) && decide (step r b < 48) && runsTo (step r b) (c :: t) row

def walk (r : Nat) (m : Bytes) : Nat := m.foldl step r

theorem innerMatch_runsTo (m : Bytes) (r row : Nat) (rest : Bytes) (idx : Nat)
    (h : runsTo r m row = true) :
    httpTbl.innerMatch r (m ++ rest) idx = .ok (idx + m.length - 1, row) := by
  induction m generalizing r idx with
  | nil => simp [runsTo] at h
  | cons b t ih =>
    cases t with
    | nil =>
      simp only [runsTo, Bool.and_eq_true, decide_eq_true_eq] at h
      obtain ⟨⟨h1, h2⟩, h3⟩ := h
      show httpTbl.innerMatch r (b :: rest) idx = _
      rw [innerMatch_cons r h1, h2]
      simp [h3]
    | cons c t =>
      simp only [runsTo, Bool.and_eq_true, decide_eq_true_eq] at h
      obtain ⟨⟨h1, h2⟩, h3⟩ := h
      show httpTbl.innerMatch r (b :: ((c :: t) ++ rest)) idx = _
      rw [innerMatch_cons r h1]
      have : ¬ 48 ≤ step r b := by omega
      rw [if_neg this, ih (step r b) (idx + 1) h3]
      simp only [List.length_cons]
      congr 2
      omega

theorem runsTo_lower (m : Bytes) (r row : Nat) :
    runsTo r (m.map lowerB) row = runsTo r m row := by
  induction m generalizing r with
  | nil => rfl
  | cons b t ih =>
    cases t with
    | nil =>
      simp only [List.map, runsTo]
      by_cases hr : r < 61
      · rw [step_lower r hr]
      · simp [hr]
    | cons c t =>
      simp only [List.map, runsTo]
      by_cases hr : r < 61
      · rw [step_lower r hr]
        have := ih (step r b)
        simp only [List.map] at this
        rw [this]
      · simp [hr]

theorem walk_lower (m : Bytes) (r row : Nat) (h : runsTo r m row = true) : walk r m = row := by
  induction m generalizing r with
  | nil => simp [runsTo] at h
  | cons b t ih =>
    cases t with
    | nil =>
      simp only [runsTo, Bool.and_eq_true, decide_eq_true_eq] at h
      simp [walk, h.1.2]
    | cons c t =>
      simp only [runsTo, Bool.and_eq_true, decide_eq_true_eq] at h
      have := ih (step r b) h.2
      simpa [walk] using this

theorem runsTo_ge (m : Bytes) (r row : Nat) (h : runsTo r m row = true) : 48 ≤ row := by
  induction m generalizing r with
  | nil => simp [runsTo] at h
  | cons b t ih =>
    cases t with
    | nil =>
      simp only [runsTo, Bool.and_eq_true, decide_eq_true_eq] at h
      exact h.2
    | cons c t =>
      simp only [runsTo, Bool.and_eq_true, decide_eq_true_eq] at h
      exact ih (step r b) h.2

/-- the match row of each (lower-case) method -/
def methodRow (w : Bytes) : Nat := walk 0 w

theorem methods_run :
    (lowerM.all fun w => runsTo 0 w (methodRow w) && decide (methodRow w < 61) &&
      decide (idOf (methodRow w) = 0)) = true := by
  decide +kernel

/-- **Completeness of the verb phase**: a request that begins with one of the nine methods (in any
    letter case) makes the matcher report the verb after exactly the method's bytes; the rest is run
    through the FSM from the SPACE state. The matcher never looks at `rest`. -/
theorem parse_method (m rest : Bytes) (hm : m.map lowerB ∈ lowerM) :
    httpParse {} (m ++ rest) =
      .ok { state := httpFold .space rest, smackState := methodRow (m.map lowerB), smackId := 0 } := by
  have h := List.all_eq_true.1 methods_run _ hm
  simp only [Bool.and_eq_true, decide_eq_true_eq] at h
  obtain ⟨⟨hrun, hlt⟩, hid⟩ := h
  rw [runsTo_lower] at hrun
  generalize methodRow (m.map lowerB) = row at *
  have hmne : m ≠ [] := by
    intro e; subst e; simp [runsTo] at hrun
  have hp : m ++ rest ≠ [] := by simp [hmne]
  have hmpos : 0 < m.length := List.length_pos_iff.2 hmne
  have hin := innerMatch_runsTo m 0 row rest 0 hrun
  have h48 : 48 ≤ row := runsTo_ge m 0 row hrun
  have hs : httpTbl.searchNext baseState (m ++ rest) = .ok (0, row, m.length) := by
    show httpTbl.searchNext 0 (m ++ rest) = _
    rw [searchNext_of_inner 0 (by omega) _ _ row hin hlt]
    have : ¬ row < 48 := by omega
    rw [if_neg this, hid]
    congr 3
    omega
  have hfuel : 2 * (m ++ rest).length + 300 = (2 * (m ++ rest).length + 299) + 1 := by omega
  have hst0 : ({} : HttpSt).state = .start := rfl
  unfold httpParse
  simp only [hp, if_false]
  rw [hfuel, httpVerbLoop]
  simp only [hp, if_false, hs]
  have h1 : ¬ m.length > (m ++ rest).length := by simp
  have h2 : ¬ 0 + m.length = 0 := by omega
  simp only [h1, h2, if_false, if_true]
  simp

end Masscanned.C13.Aux
