/-
  Proofs/C13/Verb — the verb phase of `http_parse` (`search_next` over `Gen.HttpSmack`):
  simulation lemmas for `innerMatch` / `searchNext` / `httpVerbLoop`.

  ROBUSTNESS: table-independent.  Everything is derived from the generic results of `Proofs/C10`
  (`C10.http_wf` range facts, `C10.http_vclosed` closure of the regenerated annotation,
  `C10.http_verb_language'`) and the two kernel checks of `Proofs/C13/Table`; no row number, row count
  or match limit of the compiled table is written down.
-/
import Masscanned.Proofs.C13.Table
namespace Masscanned.C13.Aux
open Masscanned Spec

/-! ### extraction of the kernel-checked facts -/

theorem wf : C10.WF httpTbl N := C10.http_wf

theorem cnt_le_one (r : Nat) (hr : r < N) : httpTbl.cnt r ≤ 1 := by
  have := (C10.allBelow_iff _ _).mp C10.http_cnt_le_one_check r hr
  simpa using this

theorem step_lt (r : Nat) (hr : r < N) (b : UInt8) : step r b < N :=
  wf.mstep_lt hr (C10.u8_lt_258 b)

theorem step_lower (r : Nat) (b : UInt8) : step r (lowerB b) = step r b := by
  have h := (C10.allBelow_iff _ _).mp foldOk_true b.toNat b.toNat_lt
  simp only [UInt8.ofNat_toNat, beq_iff_eq] at h
  unfold step C10.mstep
  rw [h]

/-- walking bytes from row `r` -/
def walk (r : Nat) (m : Bytes) : Nat := m.foldl step r

theorem walk_lower (m : Bytes) (r : Nat) : walk r (m.map lowerB) = walk r m := by
  induction m generalizing r with
  | nil => rfl
  | cons b t ih =>
    simp only [List.map_cons, walk, List.foldl_cons, step_lower]
    exact ih (step r b)

theorem walk_snoc (r : Nat) (m : Bytes) (b : UInt8) : walk r (m ++ [b]) = step (walk r m) b := by
  simp [walk]

/-- no method name can be completed any more: a row whose annotation is empty, or a match row that
    does not carry the Verb id -/
def dead (r : Nat) : Prop :=
  r < N ∧ ((r < httpTbl.matchLimit ∧ AR r = []) ∨ (httpTbl.matchLimit ≤ r ∧ ∀ id ∈ httpTbl.ids r, id ≠ 0))

theorem dead_of_B (r : Nat) (hr : r < N) (h : deadRowB r = true) : dead r := by
  refine ⟨hr, ?_⟩
  unfold deadRowB at h
  by_cases hl : r < httpTbl.matchLimit
  · rw [if_pos hl] at h
    simp only [beq_iff_eq] at h
    refine .inl ⟨hl, ?_⟩
    have : (C10.annOf C10.annH r).2 = [] := by
      simp only [C10.annOf, h]; rfl
    simp only [AR, C10.decodeR, this, List.filterMap_nil]
  · rw [if_neg hl] at h
    refine .inr ⟨by omega, ?_⟩
    intro id hid
    have := List.all_eq_true.1 h id hid
    simpa using this

theorem dead_step (r : Nat) (hd : dead r) (b : UInt8) : dead (step r b) := by
  obtain ⟨hr, hc⟩ := hd
  have hlt := step_lt r hr b
  rcases hc with ⟨hl, ha⟩ | ⟨hge, hids⟩
  · obtain ⟨_, _, hnone⟩ := C10.http_vclosed.step r hl b
    have ha' : C10.decodeR C10.verbsL (C10.annOf C10.annH r) = [] := ha
    simp only [ha'] at hnone
    have h0 : C10.rout (C10.rstep [] (C10.lowerB b)) = none := rfl
    obtain ⟨h1, h2⟩ := hnone h0
    refine ⟨hlt, ?_⟩
    by_cases hm : step r b < httpTbl.matchLimit
    · exact .inl ⟨hm, h1 hm⟩
    · exact .inr ⟨by omega, (h2 (by unfold step at hm; omega)).2⟩
  · have hj : r - httpTbl.matchLimit < N - httpTbl.matchLimit := by omega
    have h := (C10.allBelow_iff _ _).mp deadOk_true _ hj
    rw [show httpTbl.matchLimit + (r - httpTbl.matchLimit) = r by omega] at h
    unfold deadStepB at h
    have hall : (httpTbl.ids r).all (· != 0) = true := by
      rw [List.all_eq_true]
      intro id hid
      simpa using hids id hid
    simp only [hall, Bool.not_true, Bool.false_or] at h
    exact dead_of_B _ hlt ((C10.allBelow_iff _ _).mp h b.toNat b.toNat_lt)

theorem dead_walk (m : Bytes) (r : Nat) (hd : dead r) : dead (walk r m) := by
  induction m generalizing r with
  | nil => exact hd
  | cons b t ih => exact ih _ (dead_step r hd b)

/-! ### `innerMatch` -/

theorem innerMatch_nil (r idx : Nat) : httpTbl.innerMatch r [] idx = .ok (idx, r) := by
  rw [SmackTbl.innerMatch]

theorem innerMatch_cons (r : Nat) (hr : r < N) (b : UInt8) (t : Bytes) (idx : Nat) :
    httpTbl.innerMatch r (b :: t) idx =
      if httpTbl.matchLimit ≤ step r b then .ok (idx, step r b)
      else httpTbl.innerMatch (step r b) t (idx + 1) :=
  C10.innerMatch_cons httpTbl r b t idx (wf.idx_lt hr (C10.u8_lt_258 b))

/-- `innerMatch` from any row of the table: it stops in the first match row entered (reached along the
    consumed bytes), or consumes everything and ends in the row reached along the input -/
theorem innerMatch_char (d : Bytes) : ∀ (r idx : Nat), r < N →
    ∃ i r', httpTbl.innerMatch r d idx = .ok (i, r') ∧ r' < N ∧
      ((httpTbl.matchLimit ≤ r' ∧ idx ≤ i ∧ i < idx + d.length ∧ r' = walk r (d.take (i + 1 - idx))) ∨
       (i = idx + d.length ∧ r' = walk r d ∧ (d ≠ [] → r' < httpTbl.matchLimit))) := by
  induction d with
  | nil =>
    intro r idx hr
    exact ⟨idx, r, innerMatch_nil r idx, hr, .inr ⟨by simp, rfl, fun h => absurd rfl h⟩⟩
  | cons b t ih =>
    intro r idx hr
    rw [innerMatch_cons r hr]
    have hlt := step_lt r hr b
    by_cases hm : httpTbl.matchLimit ≤ step r b
    · rw [if_pos hm]
      refine ⟨idx, step r b, rfl, hlt, .inl ⟨hm, Nat.le_refl _, by simp, ?_⟩⟩
      have : idx + 1 - idx = 1 := by omega
      rw [this]; simp [walk]
    · rw [if_neg hm]
      obtain ⟨i, r', h1, h2, h3⟩ := ih (step r b) (idx + 1) hlt
      refine ⟨i, r', h1, h2, ?_⟩
      rcases h3 with ⟨a1, a2, a3, a4⟩ | ⟨a1, a2, a3⟩
      · refine .inl ⟨a1, by omega, by simp only [List.length_cons]; omega, ?_⟩
        have e : i + 1 - idx = (i + 1 - (idx + 1)) + 1 := by omega
        rw [a4, e, List.take_succ_cons]
        rfl
      · refine .inr ⟨by simp only [List.length_cons]; omega, by rw [a2]; rfl, ?_⟩
        intro _
        cases t with
        | nil => rw [a2]; simp only [walk, List.foldl_nil]; omega
        | cons c t' => exact a3 (by simp)

/-! ### `searchNext` -/

/-- `search_next` from a stored plain row, in terms of `inner_match` -/
theorem searchNext_of_inner (st : Nat) (hst : st < N) (d : Bytes) (ii row : Nat)
    (h : httpTbl.innerMatch st d 0 = .ok (ii, row)) (hrow : row < N) :
    (row < httpTbl.matchLimit ∧ httpTbl.searchNext st d = .ok (noMatch, row, ii)) ∨
    (httpTbl.matchLimit ≤ row ∧ ∃ id, httpTbl.ids row = [id] ∧ id ≠ noMatch ∧
      httpTbl.searchNext st d = .ok (id, row, ii + 1)) := by
  have hN := wf.N_lt
  have hm : st % 16777216 = st := Nat.mod_eq_of_lt (by omega)
  have hd : st / 16777216 = 0 := Nat.div_eq_of_lt (by omega)
  have hlen : row < httpTbl.matchLen := Nat.lt_of_lt_of_le hrow wf.N_le
  have hiff := wf.match_iff row hrow
  unfold SmackTbl.searchNext
  simp only [hm, hd, h, if_true, hlen]
  by_cases hc : httpTbl.cnt row = 0
  · left
    refine ⟨by omega, ?_⟩
    simp [hc]
  · right
    have h1 : httpTbl.cnt row = 1 := by have := cnt_le_one row hrow; omega
    have hl : (httpTbl.ids row).length = 1 := by rw [wf.ids_len row hrow, h1]
    obtain ⟨id, hid⟩ : ∃ id, httpTbl.ids row = [id] := by
      match hx : httpTbl.ids row, hl with
      | [id], _ => exact ⟨id, rfl⟩
    refine ⟨by omega, id, hid, wf.ids_ne row hrow id (by rw [hid]; simp), ?_⟩
    simp [h1, hid, hlen]

/-- `search_next` from a dead state on a non-empty input: either no match (all consumed) or a
    match with an id other than Verb; the new state is dead again -/
theorem searchNext_dead (st : Nat) (hst : dead st) (b : UInt8) (t : Bytes) :
    ∃ id st' n, httpTbl.searchNext st (b :: t) = .ok (id, st', n) ∧ 1 ≤ n ∧ n ≤ (b :: t).length ∧
      id ≠ 0 ∧ dead st' ∧ (id = noMatch → n = (b :: t).length) := by
  have hst' : st < N := hst.1
  obtain ⟨i, r', h1, h2, h3⟩ := innerMatch_char (b :: t) st 0 hst'
  have hdead : dead r' := by
    rcases h3 with ⟨_, _, _, a4⟩ | ⟨_, a2, _⟩
    · rw [a4]; exact dead_walk _ _ hst
    · rw [a2]; exact dead_walk _ _ hst
  rcases searchNext_of_inner st hst' _ i r' h1 h2 with ⟨hl, hs⟩ | ⟨hge, id, hid, hne, hs⟩
  · rcases h3 with ⟨a1, _⟩ | ⟨a1, _, _⟩
    · omega
    · refine ⟨noMatch, r', i, hs, ?_, by omega, by unfold noMatch; omega, hdead, fun _ => by omega⟩
      simp only [List.length_cons] at a1; omega
  · rcases h3 with ⟨_, _, a3, _⟩ | ⟨_, _, a3⟩
    · refine ⟨id, r', i + 1, hs, by omega, by omega, ?_, hdead, fun e => absurd e hne⟩
      rcases hdead.2 with ⟨hl, _⟩ | ⟨_, hids⟩
      · omega
      · exact hids id (by rw [hid]; simp)
    · have := a3 (by simp); omega

/-- `search_next` from the start state on a non-empty input -/
theorem searchNext_start (d : Bytes) (hd : d ≠ []) :
    ∃ id st' n, httpTbl.searchNext 0 d = .ok (id, st', n) ∧ 1 ≤ n ∧ n ≤ d.length ∧
      ((id = noMatch ∧ n = d.length ∧ st' < httpTbl.matchLimit) ∨ (id ≠ 0 ∧ id ≠ noMatch ∧ dead st') ∨
       (id = 0 ∧ (d.take n).map lowerB ∈ lowerM)) := by
  have h0 : (0 : Nat) < N := C10.http_base_lt.2.1
  have hpos : 0 < d.length := List.length_pos_iff.2 hd
  obtain ⟨i, r', h1, h2, h3⟩ := innerMatch_char d 0 0 h0
  rcases searchNext_of_inner 0 h0 _ i r' h1 h2 with ⟨hl, hs⟩ | ⟨hge, id, hid, hne, hs⟩
  · rcases h3 with ⟨a1, _⟩ | ⟨a1, _, _⟩
    · omega
    · exact ⟨noMatch, r', i, hs, by omega, by omega, .inl ⟨rfl, by omega, hl⟩⟩
  · rcases h3 with ⟨_, _, a3, _⟩ | ⟨_, _, a3⟩
    · refine ⟨id, r', i + 1, hs, by omega, by omega, ?_⟩
      by_cases e : id = 0
      · right; right
        subst e
        have := (C10.http_verb_language' d (i + 1)).mp ⟨r', hs⟩
        rw [lowerM_eq, lowerB_eq]
        exact ⟨rfl, this.2⟩
      · right; left
        refine ⟨e, hne, h2, .inr ⟨hge, ?_⟩⟩
        intro id' hid'
        rw [hid] at hid'
        simp only [List.mem_cons, List.not_mem_nil, or_false] at hid'
        rw [hid']; exact e
    · have := a3 hd; omega

/-! ### the verb loop -/

theorem verbLoop_nil (fuel : Nat) (ps : HttpSt) (pos : Nat) :
    httpVerbLoop (fuel + 1) ps [] pos = .ok ps := by
  simp [httpVerbLoop]

/-- from a dead matcher state the loop never finds a verb: it ends in the same state or FAIL -/
theorem verbLoop_dead (fuel : Nat) (ps : HttpSt) (d : Bytes) (pos : Nat)
    (hdead : dead ps.smackState) (hf : d.length < fuel) :
    ∃ ps', httpVerbLoop fuel ps d pos = .ok ps' ∧ (ps'.state = ps.state ∨ ps'.state = .fail) := by
  induction fuel generalizing ps d pos with
  | zero => omega
  | succ fuel ih =>
    cases d with
    | nil => exact ⟨ps, verbLoop_nil fuel ps pos, Or.inl rfl⟩
    | cons b t =>
      obtain ⟨id, st', n, hs, hn1, hn2, hid0, hdead', hnm⟩ := searchNext_dead ps.smackState hdead b t
      rw [httpVerbLoop]
      have hne : (b :: t) ≠ [] := by simp
      simp only [hne, if_false, hs]
      have h1 : ¬ n > (b :: t).length := by omega
      have h2 : ¬ pos + n = 0 := by omega
      simp only [h1, h2, if_false, hid0]
      have hl : ((b :: t).drop n).length < fuel := by
        rw [List.length_drop]; simp only [List.length_cons] at hf hn2 ⊢; omega
      obtain ⟨ps', hp, hst⟩ := ih { ps with smackState := st', smackId := id } ((b :: t).drop n) (pos + n)
        hdead' hl
      by_cases e1 : id = noMatch
      · simp only [e1, if_true]
        by_cases e2 : st' = unanchoredState
        · simp only [e2, if_true]
          exact ⟨_, rfl, Or.inr rfl⟩
        · simp only [e2, if_false]
          rw [e1] at hp
          exact ⟨ps', hp, hst⟩
      · simp only [e1, if_false]
        exact ⟨ps', hp, hst⟩

/-- **Soundness of the verb phase**: from the initial state, `http_parse` on a non-empty input never
    fails, and either the input starts (case-insensitively) with one of the nine methods — then the
    FSM is run on the rest from the SPACE state — or the parser stays in VERB / goes to FAIL. -/
theorem parse_start (p : Bytes) (hp : p ≠ []) :
    ∃ ps', httpParse {} p = .ok ps' ∧
      ((∃ m rest, p = m ++ rest ∧ m.map lowerB ∈ lowerM ∧ ps'.state = httpFold .space rest ∧
          ps'.smackId = 0) ∨
        ps'.state = .verb ∨ ps'.state = .fail) := by
  obtain ⟨id, st', n, hs, hn1, hn2, hcase⟩ := searchNext_start p hp
  have hfuel : 2 * p.length + 300 = (2 * p.length + 299) + 1 := by omega
  have hst0 : ({} : HttpSt).state = .start := rfl
  unfold httpParse
  simp only [hp, if_false]
  rw [hfuel, httpVerbLoop]
  have hs' : httpTbl.searchNext baseState p = .ok (id, st', n) := hs
  simp only [hp, if_false, hs']
  have h1 : ¬ n > p.length := by omega
  have h2 : ¬ 0 + n = 0 := by omega
  simp only [h1, h2, if_false]
  rcases hcase with ⟨e1, e2, e3⟩ | ⟨e1, e2, e3⟩ | ⟨e1, e2⟩
  · subst e1
    have : noMatch ≠ 0 := by unfold noMatch; omega
    simp only [this, if_false, if_true]
    by_cases hu : st' = unanchoredState
    · simp only [hu, if_true]
      exact ⟨_, rfl, Or.inr (Or.inr rfl)⟩
    · simp only [hu, if_false]
      have hd : p.drop n = [] := by rw [e2]; simp
      rw [hd, verbLoop_nil]
      exact ⟨_, rfl, Or.inr (Or.inl rfl)⟩
  · simp only [e1, e2, if_false]
    have hl : (p.drop n).length < 2 * p.length + 299 := by
      rw [List.length_drop]; omega
    obtain ⟨ps', hpar, hst⟩ := verbLoop_dead (2 * p.length + 299)
      { state := .verb, smackState := st', smackId := id } (p.drop n) (0 + n) e3 hl
    refine ⟨ps', hpar, Or.inr ?_⟩
    rcases hst with h | h
    · exact Or.inl h
    · exact Or.inr h
  · subst e1
    simp only [if_true]
    refine ⟨_, rfl, Or.inl ⟨p.take n, p.drop n, (List.take_append_drop n p).symm, e2, rfl, rfl⟩⟩

/-! ### completeness -/

/-- the match row of each (lower-case) method: the row reached from the start row along its bytes -/
def methodRow (w : Bytes) : Nat := walk 0 w

/-- a method name (in any letter case) at the start of the input is consumed exactly, the Verb id is
    reported, and the matcher is left in the method's match row -/
theorem searchNext_method (m rest : Bytes) (hm : m.map lowerB ∈ lowerM) :
    httpTbl.searchNext baseState (m ++ rest) = .ok (0, methodRow (m.map lowerB), m.length) := by
  have h0 : (0 : Nat) < N := C10.http_base_lt.2.1
  have hv : ∃ st, httpTbl.searchNext baseState (m ++ rest) = .ok (0, st, m.length) := by
    rw [C10.http_verb_language' (m ++ rest) m.length]
    refine ⟨by simp, ?_⟩
    rw [List.take_left', ← lowerB_eq, ← lowerM_eq]
    · exact hm
    · rfl
  obtain ⟨st, hst⟩ := hv
  obtain ⟨i, r', h1, h2, h3⟩ := innerMatch_char (m ++ rest) 0 0 h0
  have hst' : httpTbl.searchNext 0 (m ++ rest) = .ok (0, st, m.length) := hst
  rcases searchNext_of_inner 0 h0 _ i r' h1 h2 with ⟨hl, hs⟩ | ⟨hge, id, hid, hne, hs⟩
  · rw [hs] at hst'
    simp only [Except.ok.injEq, Prod.mk.injEq] at hst'
    exact absurd hst'.1 (by unfold noMatch; omega)
  · rw [hs] at hst'
    simp only [Except.ok.injEq, Prod.mk.injEq] at hst'
    obtain ⟨rfl, rfl, hi⟩ := hst'
    rw [hst]
    rcases h3 with ⟨_, _, _, a4⟩ | ⟨a1, _, a3⟩
    · have e : i + 1 - 0 = m.length := by omega
      rw [e, List.take_left' rfl] at a4
      rw [a4, methodRow, walk_lower]
    · have : m ++ rest ≠ [] := by
        intro e
        have hl : (m ++ rest).length = 0 := by rw [e]; rfl
        rw [List.length_append] at hl
        omega
      have hlt := a3 this
      exact absurd hge (Nat.not_le_of_lt hlt)

/-- **Completeness of the verb phase**: a request that begins with one of the nine methods (in any
    letter case) makes the matcher report the verb after exactly the method's bytes; the rest is run
    through the FSM from the SPACE state. The matcher never looks at `rest`. -/
theorem parse_method (m rest : Bytes) (hm : m.map lowerB ∈ lowerM) :
    httpParse {} (m ++ rest) =
      .ok { state := httpFold .space rest, smackState := methodRow (m.map lowerB), smackId := 0 } := by
  have hs := searchNext_method m rest hm
  generalize methodRow (m.map lowerB) = row at *
  have hmne : m ≠ [] := by
    intro e; subst e
    have : ([] : Bytes) ∈ lowerM := hm
    revert this; decide +kernel
  have hp : m ++ rest ≠ [] := by simp [hmne]
  have hmpos : 0 < m.length := List.length_pos_iff.2 hmne
  have hfuel : 2 * (m ++ rest).length + 300 = (2 * (m ++ rest).length + 299) + 1 := by omega
  have hst0 : ({} : HttpSt).state = .start := rfl
  unfold httpParse
  simp only [hp, if_false]
  rw [hfuel, httpVerbLoop]
  simp only [hp, if_false, hs]
  have h1 : ¬ m.length > (m ++ rest).length := by simp
  have h2 : ¬ 0 + m.length = 0 := by omega
  simp only [h1, h2, if_false, if_true]
  simp

end Masscanned.C13.Aux
