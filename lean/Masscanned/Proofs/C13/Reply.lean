/-
  Proofs/C13/Reply — the 401 response is well-formed (`Spec.reply401Ok`) for every date text
  without CR/LF.  The free text of the response (Gen/Texts.lean) enters only through the facts of
  Proofs/Texts/Facts; the body is arbitrary.
-/
import Masscanned.Model.Http
import Masscanned.Spec.Http
import Masscanned.Proofs.Texts.Reply
import Masscanned.Proofs.Texts.Dec
namespace Masscanned.C13.Aux
open Masscanned Spec

/-! ### `splitOnce` -/

theorem splitOnce_succ (sep : Bytes) (fuel : Nat) (p : Bytes) :
    splitOnce sep (fuel + 1) p =
      if sep.isPrefixOf p then some ([], p.drop sep.length) else
      match p with
      | [] => none
      | b :: t => match splitOnce sep fuel t with
        | some (a, r) => some (b :: a, r)
        | none => none := by
  rw [splitOnce.eq_def]; rfl

theorem pre_ne (b : UInt8) (t : Bytes) (sep : Bytes) (s0 : UInt8) (h : b ≠ s0) :
    (s0 :: sep).isPrefixOf (b :: t) = false := by
  have : (s0 == b) = false := by simp; exact fun e => h e.symm
  simp [List.isPrefixOf, this]

theorem pre_ne2 (c : UInt8) (x : Bytes) (h : c ≠ 10) :
    ([10, 10] : Bytes).isPrefixOf (10 :: c :: x) = false := by
  have : ((10 : UInt8) == c) = false := by simp; exact fun e => h e.symm
  simp [List.isPrefixOf, this]

theorem pre_hit (x : Bytes) : ([10, 10] : Bytes).isPrefixOf (10 :: 10 :: x) = true := by
  simp [List.isPrefixOf]

theorem splitOnce_none (s0 : UInt8) (sep : Bytes) (fuel : Nat) (r : Bytes) (h : s0 ∉ r) :
    splitOnce (s0 :: sep) fuel r = none := by
  induction fuel generalizing r with
  | zero => rfl
  | succ fuel ih =>
    rw [splitOnce_succ]
    cases r with
    | nil => simp [List.isPrefixOf]
    | cons b t =>
      have hb : b ≠ s0 := by intro e; subst e; simp at h
      have ht : s0 ∉ t := by intro e; apply h; simp [e]
      rw [pre_ne b t sep s0 hb]
      simp [ih t ht]

theorem splitOnce_skip (l : Bytes) (hl : ∀ b ∈ l, b ≠ 10) (fuel : Nat) (x : Bytes) :
    splitOnce [10, 10] (fuel + l.length) (l ++ x) =
      (splitOnce [10, 10] fuel x).map (fun ar => (l ++ ar.1, ar.2)) := by
  induction l with
  | nil => cases h : splitOnce [10, 10] fuel x <;> simp [h]
  | cons b t ih =>
    have hb : b ≠ 10 := hl b (by simp)
    have := ih (fun c hc => hl c (by simp [hc]))
    have e : fuel + (b :: t).length = (fuel + t.length) + 1 := by simp only [List.length_cons]; omega
    rw [e, List.cons_append, splitOnce_succ, pre_ne b _ _ 10 hb]
    simp only [Bool.false_eq_true, if_false, this]
    cases splitOnce [10, 10] fuel x <;> simp

/-- a CR-free prefix is skipped by the search for a separator starting with CR -/
theorem splitOnce_skip_cr (sep : Bytes) (l : Bytes) (hl : (13 : UInt8) ∉ l) (fuel : Nat) (x : Bytes) :
    splitOnce (13 :: sep) (fuel + l.length) (l ++ x) =
      (splitOnce (13 :: sep) fuel x).map (fun ar => (l ++ ar.1, ar.2)) := by
  induction l with
  | nil => cases h : splitOnce (13 :: sep) fuel x <;> simp [h]
  | cons b t ih =>
    have hb : b ≠ 13 := by intro e; subst e; simp at hl
    have := ih (by intro e; apply hl; simp [e])
    have e : fuel + (b :: t).length = (fuel + t.length) + 1 := by simp only [List.length_cons]; omega
    rw [e, List.cons_append, splitOnce_succ, pre_ne b _ _ 13 hb]
    simp only [Bool.false_eq_true, if_false, this]
    cases splitOnce (13 :: sep) fuel x <;> simp

theorem splitOnce_lf_ne (c : UInt8) (hc : c ≠ 10) (fuel : Nat) (x : Bytes) :
    splitOnce [10, 10] (fuel + 1) (10 :: c :: x) =
      (splitOnce [10, 10] fuel (c :: x)).map (fun ar => (10 :: ar.1, ar.2)) := by
  rw [splitOnce_succ, pre_ne2 c x hc]
  simp only [Bool.false_eq_true, if_false]
  cases splitOnce [10, 10] fuel (c :: x) <;> simp

theorem splitOnce_hit (fuel : Nat) (body : Bytes) :
    splitOnce [10, 10] (fuel + 1) (10 :: 10 :: body) = some ([], body) := by
  rw [splitOnce_succ, pre_hit]; simp

/-- the header block is a list of non-empty LF-free lines joined by LF -/
theorem splitOnce_lines (L : List Bytes) (hL : L ≠ []) (hclean : ∀ l ∈ L, l ≠ [] ∧ (10 : UInt8) ∉ l)
    (body : Bytes) (fuel : Nat) (hf : ([10].intercalate L).length < fuel) :
    splitOnce [10, 10] fuel ([10].intercalate L ++ 10 :: 10 :: body) =
      some ([10].intercalate L, body) := by
  induction L generalizing fuel with
  | nil => exact absurd rfl hL
  | cons l ls ih =>
    have hl := hclean l (by simp)
    have hl10 : ∀ b ∈ l, b ≠ 10 := by
      intro b hb e; subst e; exact hl.2 hb
    cases ls with
    | nil =>
      simp only [List.intercalate_singleton] at hf ⊢
      obtain ⟨f', rfl⟩ : ∃ f', fuel = (f' + 1) + l.length := ⟨fuel - l.length - 1, by omega⟩
      rw [splitOnce_skip l hl10, splitOnce_hit]
      simp
    | cons l' ls' =>
      have hl' := hclean l' (by simp)
      rw [List.intercalate_cons_cons] at hf ⊢
      simp only [List.length_append, List.length_cons, List.length_nil] at hf
      obtain ⟨c, t, hc⟩ : ∃ c t, l' = c :: t := by
        cases l' with
        | nil => exact absurd rfl hl'.1
        | cons c t => exact ⟨c, t, rfl⟩
      have hc10 : c ≠ 10 := by
        intro e; subst e; apply hl'.2; rw [hc]; simp
      have hrec := ih (by simp) (fun x hx => hclean x (by simp [hx]))
      -- shape of the rest: starts with c
      obtain ⟨y, hy⟩ : ∃ y, [10].intercalate (l' :: ls') = c :: y := by
        cases ls' with
        | nil => exact ⟨t, by simp [hc]⟩
        | cons l'' ls'' => exact ⟨t ++ [10] ++ [10].intercalate (l'' :: ls''), by
            rw [List.intercalate_cons_cons, hc]; simp⟩
      obtain ⟨f', rfl⟩ : ∃ f', fuel = ((f' + 1) + l.length) := ⟨fuel - l.length - 1, by omega⟩
      have e1 : l ++ [10] ++ [10].intercalate (l' :: ls') ++ 10 :: 10 :: body =
          l ++ (10 :: c :: (y ++ 10 :: 10 :: body)) := by
        rw [hy]; simp
      rw [e1, splitOnce_skip l hl10, splitOnce_lf_ne c hc10]
      have e2 : c :: (y ++ 10 :: 10 :: body) = [10].intercalate (l' :: ls') ++ 10 :: 10 :: body := by
        rw [hy]; simp
      rw [e2, hrec f' (by omega)]
      simp

/-! ### `splitLines` -/

theorem splitLines_lines (L : List Bytes) (hL : L ≠ [])
    (hclean : ∀ l ∈ L, (10 : UInt8) ∉ l ∧ l.getLast? ≠ some 13) :
    splitLines ([10].intercalate L) = L := by
  unfold splitLines
  have : List.splitOn LF ([10].intercalate L) = L :=
    List.splitOn_intercalate (10 : UInt8) (fun l hl => (hclean l hl).1) hL
  rw [this]
  have hmap : ∀ l ∈ L, (if l.getLast? = some CR then l.dropLast else l) = l := by
    intro l hl
    have h := (hclean l hl).2
    have : ¬ l.getLast? = some CR := h
    simp [this]
  calc L.map _ = L.map id := List.map_congr_left hmap
    _ = L := by simp

/-! ### header lookup -/

/-- the line-selection predicate of `headerValue` is `Texts.isHdr` -/
theorem headerValue_eq (lines : List Bytes) (name : String) :
    headerValue lines name =
      (lines.find? (Texts.isHdr (name ++ ":").toUTF8.toList)).map
        (fun l => trimSp (l.drop (name ++ ":").toUTF8.toList.length)) := rfl

theorem isHdr_head_ne (c : UInt8) (n : Bytes) (d0 : UInt8) (l : Bytes)
    (h : lowerB d0 ≠ lowerB c) : Texts.isHdr (c :: n) (d0 :: l) = false := by
  simp [Texts.isHdr, h]

/-! ### the generic statement -/

theorem mem_intercalate (x : UInt8) (L : List Bytes) (h : x ∈ [10].intercalate L) :
    x = 10 ∨ ∃ l ∈ L, x ∈ l := by
  induction L with
  | nil => simp at h
  | cons l ls ih =>
    cases ls with
    | nil => simp only [List.intercalate_singleton] at h; exact Or.inr ⟨l, by simp, h⟩
    | cons l' ls' =>
      rw [List.intercalate_cons_cons] at h
      simp only [List.mem_append, List.mem_singleton] at h
      rcases h with (h | h) | h
      · exact Or.inr ⟨l, by simp, h⟩
      · exact Or.inl h
      · rcases ih h with h | ⟨l2, hl2, hx⟩
        · exact Or.inl h
        · exact Or.inr ⟨l2, by simp [hl2], hx⟩

/-- a header block of non-empty lines without CR/LF, the empty line, ANY body: well-formed if the first
    line is the status line, a WWW-Authenticate header exists and the first Content-Length header carries
    the number of body bytes.  (A CR LF CR LF inside the body comes later than the LF LF ending the header
    block, and the earlier separator is the one `reply401Ok` takes.) -/
theorem reply401Ok_of_lines (l0 : Bytes) (rest : List Bytes) (body : Bytes)
    (hclean : ∀ l ∈ l0 :: rest, l ≠ [] ∧ (10 : UInt8) ∉ l ∧ (13 : UInt8) ∉ l)
    (h0 : "HTTP/1.1 401".toUTF8.toList.isPrefixOf l0 = true)
    (hw : (headerValue rest "WWW-Authenticate").isSome = true)
    (hc : (headerValue rest "Content-Length").bind parseDec = some body.length) :
    reply401Ok ([10].intercalate (l0 :: rest) ++ 10 :: 10 :: body) = true := by
  generalize hH : [10].intercalate (l0 :: rest) = H
  have h13 : (13 : UInt8) ∉ H ++ [10, 10] := by
    intro hmem
    rw [List.mem_append] at hmem
    rcases hmem with hmem | hmem
    · rw [← hH] at hmem
      rcases mem_intercalate 13 _ hmem with e | ⟨l, hl, hx⟩
      · exact absurd e (by decide)
      · exact (hclean l hl).2.2 hx
    · simp at hmem
  have hcr : splitOnce [13, 10, 13, 10] ((H ++ 10 :: 10 :: body).length + 1) (H ++ 10 :: 10 :: body) =
      (splitOnce [13, 10, 13, 10] (body.length + 1) body).map (fun ar => ((H ++ [10, 10]) ++ ar.1, ar.2)) := by
    have e : H ++ 10 :: 10 :: body = (H ++ [10, 10]) ++ body := by simp
    have e2 : ((H ++ [10, 10]) ++ body).length + 1 = (body.length + 1) + (H ++ [10, 10]).length := by
      simp only [List.length_append]; omega
    rw [e, e2, splitOnce_skip_cr _ _ h13]
  have hlf : splitOnce [10, 10] ((H ++ 10 :: 10 :: body).length + 1) (H ++ 10 :: 10 :: body) =
      some (H, body) := by
    rw [← hH]
    exact splitOnce_lines (l0 :: rest) (by simp) (fun l hl => ⟨(hclean l hl).1, (hclean l hl).2.1⟩) body _
      (by simp only [List.length_append, List.length_cons]; omega)
  have hlines : splitLines H = l0 :: rest := by
    rw [← hH]
    exact splitLines_lines (l0 :: rest) (by simp) (fun l hl => ⟨(hclean l hl).2.1, by
      intro hlast
      exact (hclean l hl).2.2 (List.mem_of_getLast? hlast)⟩)
  unfold reply401Ok
  simp only [CR, LF]
  rw [hcr, hlf]
  cases splitOnce [13, 10, 13, 10] (body.length + 1) body with
  | none =>
    simp only [Option.map_none]
    rw [hlines]
    simp only [List.head?_cons, List.tail_cons, h0, hw, hc, Bool.and_true, Bool.true_and]
    simp
  | some ar =>
    have hlen : ¬ (H ++ [10, 10] ++ ar.1).length ≤ H.length := by
      simp only [List.length_append, List.length_cons, List.length_nil]; omega
    simp only [Option.map_some, hlen, if_false]
    rw [hlines]
    simp only [List.head?_cons, List.tail_cons, h0, hw, hc, Bool.and_true, Bool.true_and]
    simp

/-! ### the response of the model -/

theorem intercalate_eq_glue (l0 : Bytes) (rest : List Bytes) :
    [10].intercalate (l0 :: rest) = l0 ++ Texts.glue rest := by
  induction rest generalizing l0 with
  | nil => simp [Texts.glue]
  | cons l ls ih =>
    rw [List.intercalate_cons_cons, ih l, Texts.glue_cons]
    simp only [List.append_assoc, List.cons_append, List.nil_append]

theorem clean_of_all {L : List Bytes}
    (h : L.all (fun l => !l.isEmpty && !l.contains 10 && !l.contains 13) = true) :
    ∀ l ∈ L, l ≠ [] ∧ (10 : UInt8) ∉ l ∧ (13 : UInt8) ∉ l := by
  intro l hl
  have := List.all_eq_true.1 h l hl
  simp only [Bool.and_eq_true, Bool.not_eq_true', List.isEmpty_eq_false_iff, List.contains_eq_mem,
    decide_eq_false_iff_not] at this
  exact ⟨this.1.1, this.1.2, this.2⟩

theorem append_clean {a b : Bytes} (ha : a ≠ [] ∧ (10 : UInt8) ∉ a ∧ (13 : UInt8) ∉ a)
    (hb : ∀ x ∈ b, x ≠ 10 ∧ x ≠ 13) : a ++ b ≠ [] ∧ (10 : UInt8) ∉ a ++ b ∧ (13 : UInt8) ∉ a ++ b := by
  refine ⟨?_, ?_, ?_⟩
  · intro e; exact ha.1 (List.append_eq_nil_iff.1 e).1
  · intro hm
    rcases List.mem_append.1 hm with h | h
    · exact ha.2.1 h
    · exact (hb _ h).1 rfl
  · intro hm
    rcases List.mem_append.1 hm with h | h
    · exact ha.2.2 h
    · exact (hb _ h).2 rfl

theorem find?_skip {p : Bytes → Bool} (L : List Bytes) (h : L.any p = false) (M : List Bytes) :
    (L ++ M).find? p = M.find? p := by
  induction L with
  | nil => rfl
  | cons l ls ih =>
    simp only [List.any_cons, Bool.or_eq_false_iff] at h
    rw [List.cons_append, List.find?_cons, h.1]
    exact ih h.2

theorem dropWhile_id (p : UInt8 → Bool) (l : Bytes) (h : ∀ b ∈ l, p b = false) : l.dropWhile p = l := by
  cases l with
  | nil => rfl
  | cons a t => rw [List.dropWhile_cons, h a (by simp)]; rfl

/-- the value of a header line `name ":" SP digits` -/
theorem trimSp_sp_digits (d : Bytes) (h : ∀ b ∈ d, b ≠ 32) : trimSp (32 :: d) = d := by
  have hp : ∀ b ∈ d, (decide (b = SP)) = false := by
    intro b hb; simp only [SP]; exact decide_eq_false (h b hb)
  have hp' : ∀ b ∈ d.reverse, (decide (b = SP)) = false := by
    intro b hb; exact hp b (List.mem_reverse.1 hb)
  unfold trimSp
  have e : List.dropWhile (fun x => decide (x = SP)) (32 :: d) = d := by
    rw [List.dropWhile_cons]
    simp only [SP, decide_true, if_true]
    exact dropWhile_id _ d hp
  rw [e, dropWhile_id _ _ hp', List.reverse_reverse]

/-- the Date line is neither a WWW-Authenticate nor a Content-Length header, whatever the date -/
theorem predC_date (date : Bytes) : Texts.isHdr Texts.clName (Texts.datePre ++ date) = false := by
  rw [Texts.datePre_head, List.cons_append, Texts.clName_head]
  exact isHdr_head_ne _ _ _ _ (by decide)

/-- the computed line "Content-Length: " digits is selected as Content-Length header -/
theorem predC_cl (d : Bytes) : Texts.isHdr Texts.clName (Texts.clPre ++ d) = true := by
  rw [Texts.clPre_eq]
  simp [Texts.isHdr]

theorem any_rest (env : Env) (h : (Texts.hdrs1 ++ Texts.hdrs2 ++ Texts.hdrs3).any (Texts.isHdr Texts.wwwName) = true) :
    (Texts.restLines env).any (Texts.isHdr Texts.wwwName) = true := by
  unfold Texts.restLines
  simp only [List.any_append, Bool.or_eq_true] at h ⊢
  rcases h with (h | h) | h
  · exact Or.inl (Or.inl (Or.inl (Or.inl h)))
  · exact Or.inl (Or.inl (Or.inr h))
  · exact Or.inr h

/-- **The 401 response is well-formed** for every date text without CR/LF: status line
    `HTTP/1.1 401`, a WWW-Authenticate header, Content-Length = number of body bytes.
    Of the generated text only the facts of Proofs/Texts/Facts are used. -/
theorem reply_wf (env : Env) (hd : ∀ b ∈ env.httpDate, b ≠ 10 ∧ b ≠ 13) :
    reply401Ok (httpReplyBytes env) = true := by
  rw [Texts.httpReply_eq, ← intercalate_eq_glue]
  have hfix := clean_of_all Texts.lines_clean
  have hdig : ∀ b ∈ natDec Gen.httpContent.length, b ≠ 10 ∧ b ≠ 13 := fun b hb =>
    ⟨(Texts.digit_ne (Texts.natDec_digits _ b hb)).1, (Texts.digit_ne (Texts.natDec_digits _ b hb)).2.1⟩
  have hearly := Texts.no_early_cl
  simp only [List.any_append, Bool.or_eq_false_iff] at hearly
  apply reply401Ok_of_lines
  · intro l hl
    simp only [Texts.restLines, List.mem_cons, List.mem_append, List.not_mem_nil, or_false] at hl
    rcases hl with rfl | (((hl | rfl) | hl) | rfl) | hl
    · exact hfix _ (by simp [Texts.fixedLines])
    · exact hfix _ (by simp [Texts.fixedLines, hl])
    · exact append_clean Texts.datePre_clean hd
    · exact hfix _ (by simp [Texts.fixedLines, hl])
    · exact append_clean Texts.clPre_clean hdig
    · exact hfix _ (by simp [Texts.fixedLines, hl])
  · rw [← Texts.status12_eq]; exact Texts.status_ok
  · rw [headerValue_eq, Option.isSome_map, List.find?_isSome]
    have := any_rest env Texts.challenge
    rw [List.any_eq_true] at this
    obtain ⟨l, hl, hp⟩ := this
    exact ⟨l, hl, hp⟩
  · rw [headerValue_eq]
    have hfind : (Texts.restLines env).find? (Texts.isHdr Texts.clName) =
        some (Texts.clPre ++ natDec Gen.httpContent.length) := by
      unfold Texts.restLines
      simp only [List.append_assoc]
      rw [find?_skip _ hearly.1, List.cons_append, List.find?_cons, predC_date, List.nil_append,
        find?_skip _ hearly.2, List.cons_append, List.find?_cons, predC_cl]
    show (Option.map _ ((Texts.restLines env).find? (Texts.isHdr Texts.clName))).bind parseDec = _
    rw [hfind, Option.map_some, Option.bind_some]
    show parseDec (trimSp ((Texts.clPre ++ natDec Gen.httpContent.length).drop Texts.clName.length)) = _
    rw [Texts.clPre_eq, List.append_assoc, List.drop_left, List.singleton_append,
      trimSp_sp_digits _ (fun b hb => (Texts.digit_ne (Texts.natDec_digits _ b hb)).2.2),
      Texts.parseDec_natDec]

end Masscanned.C13.Aux
