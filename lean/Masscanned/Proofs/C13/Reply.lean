/-
  Proofs/C13/Reply — the 401 response is well-formed (`Spec.reply401Ok`) for every date text
  without CR/LF.
-/
import Masscanned.Model.Http
import Masscanned.Spec.Http
namespace Masscanned.C13.Aux
open Masscanned Spec

/-! ### `splitOnce` -/

theorem splitOnce_succ (sep : Bytes) (fuel : Nat) (p : Bytes) :
    splitOnce sep (fuel + 1) p =
      if sep.isPrefixOf p then some ([], p.drop sep.length) else
      match p with
      | [] => none
      | b :: t => match splitOnce sep fuel t with
        | some (a, r) => some (b :: a, r)
        | none => none := by
  rw [splitOnce.eq_def]; rfl

theorem pre_ne (b : UInt8) (t : Bytes) (sep : Bytes) (s0 : UInt8) (h : b ≠ s0) :
    (s0 :: sep).isPrefixOf (b :: t) = false := by
  have : (s0 == b) = false := by simp; exact fun e => h e.symm
  simp [List.isPrefixOf, this]

theorem pre_ne2 (c : UInt8) (x : Bytes) (h : c ≠ 10) :
    ([10, 10] : Bytes).isPrefixOf (10 :: c :: x) = false := by
  have : ((10 : UInt8) == c) = false := by simp; exact fun e => h e.symm
  simp [List.isPrefixOf, this]

theorem pre_hit (x : Bytes) : ([10, 10] : Bytes).isPrefixOf (10 :: 10 :: x) = true := by
  simp [List.isPrefixOf]

theorem splitOnce_none (s0 : UInt8) (sep : Bytes) (fuel : Nat) (r : Bytes) (h : s0 ∉ r) :
    splitOnce (s0 :: sep) fuel r = none := by
  induction fuel generalizing r with
  | zero => rfl
  | succ fuel ih =>
    rw [splitOnce_succ]
    cases r with
    | nil => simp [List.isPrefixOf]
    | cons b t =>
      have hb : b ≠ s0 := by intro e; subst e; simp at h
      have ht : s0 ∉ t := by intro e; apply h; simp [e]
      rw [pre_ne b t sep s0 hb]
      simp [ih t ht]

theorem splitOnce_skip (l : Bytes) (hl : ∀ b ∈ l, b ≠ 10) (fuel : Nat) (x : Bytes) :
    splitOnce [10, 10] (fuel + l.length) (l ++ x) =
      (splitOnce [10, 10] fuel x).map (fun ar => (l ++ ar.1, ar.2)) := by
  induction l with
  | nil => cases h : splitOnce [10, 10] fuel x <;> simp [h]
  | cons b t ih =>
    have hb : b ≠ 10 := hl b (by simp)
    have := ih (fun c hc => hl c (by simp [hc]))
    have e : fuel + (b :: t).length = (fuel + t.length) + 1 := by simp only [List.length_cons]; omega
    rw [e, List.cons_append, splitOnce_succ, pre_ne b _ _ 10 hb]
    simp only [Bool.false_eq_true, if_false, this]
    cases splitOnce [10, 10] fuel x <;> simp

theorem splitOnce_lf_ne (c : UInt8) (hc : c ≠ 10) (fuel : Nat) (x : Bytes) :
    splitOnce [10, 10] (fuel + 1) (10 :: c :: x) =
      (splitOnce [10, 10] fuel (c :: x)).map (fun ar => (10 :: ar.1, ar.2)) := by
  rw [splitOnce_succ, pre_ne2 c x hc]
  simp only [Bool.false_eq_true, if_false]
  cases splitOnce [10, 10] fuel (c :: x) <;> simp

theorem splitOnce_hit (fuel : Nat) (body : Bytes) :
    splitOnce [10, 10] (fuel + 1) (10 :: 10 :: body) = some ([], body) := by
  rw [splitOnce_succ, pre_hit]; simp

/-- the header block is a list of non-empty LF-free lines joined by LF -/
theorem splitOnce_lines (L : List Bytes) (hL : L ≠ []) (hclean : ∀ l ∈ L, l ≠ [] ∧ (10 : UInt8) ∉ l)
    (body : Bytes) (fuel : Nat) (hf : ([10].intercalate L).length < fuel) :
    splitOnce [10, 10] fuel ([10].intercalate L ++ 10 :: 10 :: body) =
      some ([10].intercalate L, body) := by
  induction L generalizing fuel with
  | nil => exact absurd rfl hL
  | cons l ls ih =>
    have hl := hclean l (by simp)
    have hl10 : ∀ b ∈ l, b ≠ 10 := by
      intro b hb e; subst e; exact hl.2 hb
    cases ls with
    | nil =>
      simp only [List.intercalate_singleton] at hf ⊢
      obtain ⟨f', rfl⟩ : ∃ f', fuel = (f' + 1) + l.length := ⟨fuel - l.length - 1, by omega⟩
      rw [splitOnce_skip l hl10, splitOnce_hit]
      simp
    | cons l' ls' =>
      have hl' := hclean l' (by simp)
      rw [List.intercalate_cons_cons] at hf ⊢
      simp only [List.length_append, List.length_cons, List.length_nil] at hf
      obtain ⟨c, t, hc⟩ : ∃ c t, l' = c :: t := by
        cases l' with
        | nil => exact absurd rfl hl'.1
        | cons c t => exact ⟨c, t, rfl⟩
      have hc10 : c ≠ 10 := by
        intro e; subst e; apply hl'.2; rw [hc]; simp
      have hrec := ih (by simp) (fun x hx => hclean x (by simp [hx]))
      -- shape of the rest: starts with c
      obtain ⟨y, hy⟩ : ∃ y, [10].intercalate (l' :: ls') = c :: y := by
        cases ls' with
        | nil => exact ⟨t, by simp [hc]⟩
        | cons l'' ls'' => exact ⟨t ++ [10] ++ [10].intercalate (l'' :: ls''), by
            rw [List.intercalate_cons_cons, hc]; simp⟩
      obtain ⟨f', rfl⟩ : ∃ f', fuel = ((f' + 1) + l.length) := ⟨fuel - l.length - 1, by omega⟩
      have e1 : l ++ [10] ++ [10].intercalate (l' :: ls') ++ 10 :: 10 :: body =
          l ++ (10 :: c :: (y ++ 10 :: 10 :: body)) := by
        rw [hy]; simp
      rw [e1, splitOnce_skip l hl10, splitOnce_lf_ne c hc10]
      have e2 : c :: (y ++ 10 :: 10 :: body) = [10].intercalate (l' :: ls') ++ 10 :: 10 :: body := by
        rw [hy]; simp
      rw [e2, hrec f' (by omega)]
      simp

/-! ### `splitLines` -/

theorem splitLines_lines (L : List Bytes) (hL : L ≠ [])
    (hclean : ∀ l ∈ L, (10 : UInt8) ∉ l ∧ l.getLast? ≠ some 13) :
    splitLines ([10].intercalate L) = L := by
  unfold splitLines
  have : List.splitOn LF ([10].intercalate L) = L :=
    List.splitOn_intercalate (10 : UInt8) (fun l hl => (hclean l hl).1) hL
  rw [this]
  have hmap : ∀ l ∈ L, (if l.getLast? = some CR then l.dropLast else l) = l := by
    intro l hl
    have h := (hclean l hl).2
    have : ¬ l.getLast? = some CR := h
    simp [this]
  calc L.map _ = L.map id := List.map_congr_left hmap
    _ = L := by simp

/-! ### header lookup -/

/-- the line-selection predicate of `headerValue` -/
def hdrPred (n l : Bytes) : Bool := decide ((l.take n.length).map lowerB = n.map lowerB)

theorem headerValue_eq (lines : List Bytes) (name : String) :
    headerValue lines name =
      (lines.find? (hdrPred (name ++ ":").toUTF8.toList)).map
        (fun l => trimSp (l.drop (name ++ ":").toUTF8.toList.length)) := rfl

theorem hdrPred_head_ne (c : UInt8) (n : Bytes) (d0 : UInt8) (l : Bytes)
    (h : lowerB d0 ≠ lowerB c) : hdrPred (c :: n) (d0 :: l) = false := by
  simp [hdrPred, h]

/-! ### the generic statement -/

theorem mem_intercalate (x : UInt8) (L : List Bytes) (h : x ∈ [10].intercalate L) :
    x = 10 ∨ ∃ l ∈ L, x ∈ l := by
  induction L with
  | nil => simp at h
  | cons l ls ih =>
    cases ls with
    | nil => simp only [List.intercalate_singleton] at h; exact Or.inr ⟨l, by simp, h⟩
    | cons l' ls' =>
      rw [List.intercalate_cons_cons] at h
      simp only [List.mem_append, List.mem_singleton] at h
      rcases h with (h | h) | h
      · exact Or.inr ⟨l, by simp, h⟩
      · exact Or.inl h
      · rcases ih h with h | ⟨l2, hl2, hx⟩
        · exact Or.inl h
        · exact Or.inr ⟨l2, by simp [hl2], hx⟩

theorem reply401Ok_of_lines (l0 : Bytes) (rest : List Bytes) (body : Bytes)
    (hclean : ∀ l ∈ l0 :: rest, l ≠ [] ∧ (10 : UInt8) ∉ l ∧ (13 : UInt8) ∉ l)
    (hbody : (13 : UInt8) ∉ body)
    (h0 : "HTTP/1.1 401".toUTF8.toList.isPrefixOf l0 = true)
    (hw : (headerValue rest "WWW-Authenticate").isSome = true)
    (hc : (headerValue rest "Content-Length").bind parseDec = some body.length) :
    reply401Ok ([10].intercalate (l0 :: rest) ++ 10 :: 10 :: body) = true := by
  have h13 : (13 : UInt8) ∉ [10].intercalate (l0 :: rest) ++ 10 :: 10 :: body := by
    intro hmem
    rw [List.mem_append] at hmem
    rcases hmem with hmem | hmem
    · rcases mem_intercalate 13 _ hmem with e | ⟨l, hl, hx⟩
      · exact absurd e (by decide)
      · exact (hclean l hl).2.2 hx
    · simp at hmem
      exact hbody hmem
  unfold reply401Ok
  simp only [CR, LF]
  rw [splitOnce_none 13 _ _ _ h13,
    splitOnce_lines (l0 :: rest) (by simp) (fun l hl => ⟨(hclean l hl).1, (hclean l hl).2.1⟩) body _
      (by simp only [List.length_append, List.length_cons]; omega)]
  simp only []
  rw [splitLines_lines (l0 :: rest) (by simp) (fun l hl => ⟨(hclean l hl).2.1, by
    intro hlast
    exact (hclean l hl).2.2 (List.mem_of_getLast? hlast)⟩)]
  simp only [List.head?_cons, List.tail_cons, h0, hw, hc, Bool.and_true, Bool.true_and]
  simp

/-! ### the concrete response -/

def rl0 : Bytes := "HTTP/1.1 401 Unauthorized".toUTF8.toList
def rl1 : Bytes := "Server: nginx/1.14.2".toUTF8.toList
def rlDate : Bytes := "Date: ".toUTF8.toList
def rl3 : Bytes := "Content-Type: text/html".toUTF8.toList
def rl4 : Bytes := "Content-Length: 188".toUTF8.toList
def rl5 : Bytes := "Connection: keep-alive".toUTF8.toList
def rl6 : Bytes := "WWW-Authenticate: Basic realm=\"Access to admin page\"".toUTF8.toList

theorem content_length : httpContent.length = 188 := by decide +kernel

theorem reply_head_a :
    "HTTP/1.1 401 Unauthorized\nServer: nginx/1.14.2\nDate: ".toUTF8.toList =
      rl0 ++ 10 :: (rl1 ++ 10 :: rlDate) := by decide +kernel

theorem reply_head_b :
    "\nContent-Type: text/html\nContent-Length: ".toUTF8.toList ++ natDec httpContent.length =
      10 :: (rl3 ++ 10 :: rl4) := by decide +kernel

theorem reply_head_c :
    "\nConnection: keep-alive\nWWW-Authenticate: Basic realm=\"Access to admin page\"\n\n".toUTF8.toList =
      10 :: (rl5 ++ 10 :: (rl6 ++ [10, 10])) := by decide +kernel

/-- the response is seven header lines joined by LF, an empty line, and the 188-byte body -/
theorem reply_shape (env : Env) :
    httpReplyBytes env =
      [10].intercalate (rl0 :: [rl1, rlDate ++ env.httpDate, rl3, rl4, rl5, rl6]) ++
        10 :: 10 :: httpContent := by
  unfold httpReplyBytes
  rw [reply_head_a, reply_head_c]
  have hb := reply_head_b
  generalize "\nContent-Type: text/html\nContent-Length: ".toUTF8.toList = B at hb ⊢
  generalize natDec httpContent.length = N at hb ⊢
  generalize httpContent = body
  have : rl0 ++ 10 :: (rl1 ++ 10 :: rlDate) ++ env.httpDate ++ B ++ N ++
      10 :: (rl5 ++ 10 :: (rl6 ++ [10, 10])) ++ body =
      rl0 ++ 10 :: (rl1 ++ 10 :: (rlDate ++ env.httpDate)) ++ (B ++ N) ++
      10 :: (rl5 ++ 10 :: (rl6 ++ [10, 10])) ++ body := by
    simp only [List.append_assoc, List.cons_append]
  rw [this, hb]
  simp only [List.intercalate_cons_cons, List.intercalate_singleton, List.append_assoc,
    List.cons_append, List.nil_append]

theorem concrete_clean :
    ∀ l ∈ [rl0, rl1, rlDate, rl3, rl4, rl5, rl6], l ≠ [] ∧ (10 : UInt8) ∉ l ∧ (13 : UInt8) ∉ l := by
  decide +kernel

theorem content_no_cr : (13 : UInt8) ∉ httpContent := by decide +kernel

theorem status_prefix : "HTTP/1.1 401".toUTF8.toList.isPrefixOf rl0 = true := by decide +kernel

theorem nW_head : ("WWW-Authenticate" ++ ":").toUTF8.toList =
    119 :: ("WWW-Authenticate" ++ ":").toUTF8.toList.tail ∨
    ("WWW-Authenticate" ++ ":").toUTF8.toList = 87 :: ("WWW-Authenticate" ++ ":").toUTF8.toList.tail := by
  decide +kernel

theorem nC_head : ("Content-Length" ++ ":").toUTF8.toList =
    67 :: ("Content-Length" ++ ":").toUTF8.toList.tail := by
  decide +kernel

theorem rlDate_head : rlDate = 68 :: rlDate.tail := by decide +kernel

theorem predW_date (date : Bytes) :
    hdrPred ("WWW-Authenticate" ++ ":").toUTF8.toList (rlDate ++ date) = false := by
  rw [rlDate_head, List.cons_append]
  rcases nW_head with h | h <;> rw [h] <;> exact hdrPred_head_ne _ _ _ _ (by decide)

theorem predC_date (date : Bytes) :
    hdrPred ("Content-Length" ++ ":").toUTF8.toList (rlDate ++ date) = false := by
  rw [rlDate_head, List.cons_append, nC_head]
  exact hdrPred_head_ne _ _ _ _ (by decide)

theorem predW_concrete :
    hdrPred ("WWW-Authenticate" ++ ":").toUTF8.toList rl1 = false ∧
    hdrPred ("WWW-Authenticate" ++ ":").toUTF8.toList rl3 = false ∧
    hdrPred ("WWW-Authenticate" ++ ":").toUTF8.toList rl4 = false ∧
    hdrPred ("WWW-Authenticate" ++ ":").toUTF8.toList rl5 = false ∧
    hdrPred ("WWW-Authenticate" ++ ":").toUTF8.toList rl6 = true := by decide +kernel

theorem predC_concrete :
    hdrPred ("Content-Length" ++ ":").toUTF8.toList rl1 = false ∧
    hdrPred ("Content-Length" ++ ":").toUTF8.toList rl3 = false ∧
    hdrPred ("Content-Length" ++ ":").toUTF8.toList rl4 = true ∧
    parseDec (trimSp (rl4.drop ("Content-Length" ++ ":").toUTF8.toList.length)) = some 188 := by
  decide +kernel

/-- **The 401 response is well-formed** for every date text without CR/LF: status line
    `HTTP/1.1 401`, a WWW-Authenticate header, Content-Length = number of body bytes. -/
theorem reply_wf (env : Env) (hd : ∀ b ∈ env.httpDate, b ≠ 10 ∧ b ≠ 13) :
    reply401Ok (httpReplyBytes env) = true := by
  rw [reply_shape]
  have hcc := concrete_clean
  apply reply401Ok_of_lines
  · intro l hl
    simp only [List.mem_cons, List.not_mem_nil, or_false] at hl
    rcases hl with rfl | rfl | rfl | rfl | rfl | rfl | rfl
    · exact hcc _ (by simp)
    · exact hcc _ (by simp)
    · have hD := hcc rlDate (by simp)
      refine ⟨?_, ?_, ?_⟩
      · intro e
        have := List.append_eq_nil_iff.1 e
        exact hD.1 this.1
      · intro hm
        rcases List.mem_append.1 hm with h | h
        · exact hD.2.1 h
        · exact (hd _ h).1 rfl
      · intro hm
        rcases List.mem_append.1 hm with h | h
        · exact hD.2.2 h
        · exact (hd _ h).2 rfl
    · exact hcc _ (by simp)
    · exact hcc _ (by simp)
    · exact hcc _ (by simp)
    · exact hcc _ (by simp)
  · exact content_no_cr
  · exact status_prefix
  · rw [headerValue_eq]
    obtain ⟨h1, h3, h4, h5, h6⟩ := predW_concrete
    simp only [List.find?_cons, h1, h3, h4, h5, h6, predW_date, Option.map_some, Option.isSome_some]
  · rw [headerValue_eq, content_length]
    obtain ⟨h1, h3, h4, hp⟩ := predC_concrete
    simp only [List.find?_cons, h1, h3, h4, predC_date, Option.map_some, Option.bind_some, hp]

end Masscanned.C13.Aux
