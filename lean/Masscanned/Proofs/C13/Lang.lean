/-
  Proofs/C13/Lang — the exact language answered by the HTTP responder, as a proposition and as an
  executable recogniser (usable as a judge on the real implementation).
-/
import Masscanned.Proofs.C13.Fsm
namespace Masscanned.C13.Aux
open Masscanned Spec

/-- "begins with one of the nine methods, in any letter case" -/
def NocaseMethodPrefix (p : Bytes) : Prop :=
  ∃ m rest, p = m ++ rest ∧ m.map lowerB ∈ httpMethods.map (·.map lowerB)

/-- executable form of `NocaseMethodPrefix` -/
def nocasePrefixB (p : Bytes) : Bool :=
  httpMethods.any fun m => decide ((p.take m.length).map lowerB = m.map lowerB)

/-- the language answered by the responder: one of the nine methods in any letter case, followed by a
    member of the FSM tail language -/
def Answered (p : Bytes) : Prop :=
  ∃ m rest, p = m ++ rest ∧ m.map lowerB ∈ httpMethods.map (·.map lowerB) ∧ fsmTail rest = true

/-- executable form of `Answered` -/
def answeredB (p : Bytes) : Bool :=
  httpMethods.any fun m =>
    decide ((p.take m.length).map lowerB = m.map lowerB) && fsmTail (p.drop m.length)

theorem split_of_method (p m rest : Bytes) (hp : p = m ++ rest)
    (hm : m.map lowerB ∈ httpMethods.map (·.map lowerB)) :
    ∃ m0 ∈ httpMethods, (p.take m0.length).map lowerB = m0.map lowerB ∧ p.drop m0.length = rest := by
  obtain ⟨m0, hm0, he⟩ := List.mem_map.1 hm
  have hlen : m0.length = m.length := by
    have := congrArg List.length he
    simpa using this
  refine ⟨m0, hm0, ?_, ?_⟩
  · rw [hp, hlen, List.take_left', he]; rfl
  · rw [hp, hlen, List.drop_left']; rfl

theorem nocase_iff (p : Bytes) : NocaseMethodPrefix p ↔ nocasePrefixB p = true := by
  unfold NocaseMethodPrefix nocasePrefixB
  rw [List.any_eq_true]
  constructor
  · rintro ⟨m, rest, hp, hm⟩
    obtain ⟨m0, hm0, h1, _⟩ := split_of_method p m rest hp hm
    exact ⟨m0, hm0, decide_eq_true h1⟩
  · rintro ⟨m0, hm0, h⟩
    have h := of_decide_eq_true h
    exact ⟨p.take m0.length, p.drop m0.length, (List.take_append_drop _ _).symm,
      List.mem_map.2 ⟨m0, hm0, h.symm⟩⟩

theorem answered_iff_B (p : Bytes) : Answered p ↔ answeredB p = true := by
  unfold Answered answeredB
  rw [List.any_eq_true]
  constructor
  · rintro ⟨m, rest, hp, hm, ht⟩
    obtain ⟨m0, hm0, h1, h2⟩ := split_of_method p m rest hp hm
    refine ⟨m0, hm0, ?_⟩
    rw [Bool.and_eq_true]
    exact ⟨decide_eq_true h1, by rw [h2]; exact ht⟩
  · rintro ⟨m0, hm0, h⟩
    rw [Bool.and_eq_true] at h
    have h1 := of_decide_eq_true h.1
    exact ⟨p.take m0.length, p.drop m0.length, (List.take_append_drop _ _).symm,
      List.mem_map.2 ⟨m0, hm0, h1.symm⟩, h.2⟩

end Masscanned.C13.Aux
