/-
  Proofs/C13/Fsm — the language of the byte FSM of `http_parse` after the verb
  (`httpFold .space rest = .content`), no matcher tables involved.
-/
import Masscanned.Model.Http
import Masscanned.Spec.Http
namespace Masscanned.C13.Aux
open Masscanned Spec

/-- The tail language of the FSM, in the style of `Spec.relaxedRequest`:
    `SP T SP "HTTP/" d* "." (d|CR)* LF headers`, T ∈ [^SP]*. -/
def fsmTail (rest : Bytes) : Bool :=
  match rest with
  | 32 :: r =>
    let (_, r) := spanP (· ≠ SP) r
    match r with
    | 32 :: r =>
      (match stripPrefix "HTTP/".toUTF8.toList r with
       | none => false
       | some r =>
         let (_, r) := spanP digit r
         match r with
         | 46 :: r =>
           let (_, r) := spanP (fun b => digit b || b = CR) r
           (match r with
            | 10 :: r => relaxedHeaders (r.length + 1) r
            | _ => false)
         | _ => false)
    | _ => false
  | _ => false

/-- `Spec.relaxedRequest` is: strip a method and SP, the target starts with "/", and the rest
    (with the SP put back) is in the FSM tail language. -/
theorem relaxedRequest_eq (p : Bytes) :
    relaxedRequest p =
      (match stripMethod p with
       | none => false
       | some r => (r.head? = some 47) && fsmTail (32 :: r)) := by
  unfold relaxedRequest fsmTail
  cases stripMethod p with
  | none => rfl
  | some r =>
    by_cases h : r.head? = some 47
    · simp only [h, decide_true, Bool.not_true, Bool.false_eq_true, if_false, Bool.true_and]
      rfl
    · simp [h]

/-! ### generic facts -/

theorem fold_nil (s : HSt) : httpFold s [] = s := rfl
theorem fold_cons (s : HSt) (b : UInt8) (t : Bytes) :
    httpFold s (b :: t) = httpFold (httpByte s b) t := rfl

theorem fold_append (s : HSt) (a b : Bytes) :
    httpFold s (a ++ b) = httpFold (httpFold s a) b := by
  simp [httpFold, List.foldl_append]

theorem fold_content (d : Bytes) : httpFold .content d = .content := by
  induction d with
  | nil => rfl
  | cons b t ih => simpa [fold_cons, httpByte] using ih

theorem fold_fail (d : Bytes) : httpFold .fail d = .fail := by
  induction d with
  | nil => rfl
  | cons b t ih => simpa [fold_cons, httpByte] using ih

/-- skipping a run of bytes on which the state loops -/
theorem fold_span (s : HSt) (f : UInt8 → Bool) (hstay : ∀ b, f b = true → httpByte s b = s)
    (d : Bytes) : httpFold s d = httpFold s (spanP f d).2 := by
  induction d with
  | nil => rfl
  | cons b t ih =>
    unfold spanP
    by_cases hb : f b = true
    · simp only [hb, if_true]
      rw [fold_cons, hstay b hb]; exact ih
    · simp [hb]

theorem spanP_snd_length (f : UInt8 → Bool) (d : Bytes) : (spanP f d).2.length ≤ d.length := by
  induction d with
  | nil => simp [spanP]
  | cons b t ih =>
    unfold spanP
    by_cases hb : f b = true
    · simp only [hb, if_true]; simp only [List.length_cons]; omega
    · simp [hb]

theorem spanP_snd_head (f : UInt8 → Bool) (d : Bytes) (b : UInt8) (t : Bytes)
    (h : (spanP f d).2 = b :: t) : f b = false := by
  induction d with
  | nil => simp [spanP] at h
  | cons c u ih =>
    unfold spanP at h
    by_cases hc : f c = true
    · simp only [hc, if_true] at h; exact ih h
    · simp only [hc] at h
      simp at h
      rw [← h.1]; simpa using hc

theorem spanP_append (f : UInt8 → Bool) (a r : Bytes) (ha : ∀ b ∈ a, f b = true)
    (hr : r = [] ∨ ∃ b t, r = b :: t ∧ f b = false) : spanP f (a ++ r) = (a, r) := by
  induction a with
  | nil =>
    rcases hr with rfl | ⟨b, t, rfl, hb⟩
    · simp [spanP]
    · simp [spanP, hb]
  | cons c u ih =>
    have hc : f c = true := ha c (by simp)
    have := ih (fun b hb => ha b (by simp [hb]))
    simp [spanP, hc, this]

theorem spanP_fst_all (f : UInt8 → Bool) (d : Bytes) : ∀ b ∈ (spanP f d).1, f b = true := by
  induction d with
  | nil => simp [spanP]
  | cons c u ih =>
    unfold spanP
    by_cases hc : f c = true
    · simp only [hc, if_true]
      intro b hb
      simp at hb
      rcases hb with rfl | hb
      · exact hc
      · exact ih b hb
    · simp [hc]

theorem spanP_eq_append (f : UInt8 → Bool) (d : Bytes) : (spanP f d).1 ++ (spanP f d).2 = d := by
  induction d with
  | nil => simp [spanP]
  | cons c u ih =>
    unfold spanP
    by_cases hc : f c = true
    · simp only [hc, if_true]; simpa using ih
    · simp [hc]

/-! ### the header section -/

theorem pLF (b : UInt8) : decide (b ≠ LF) = true ↔ b ≠ 10 := decide_eq_true_iff
theorem pLF' (b : UInt8) : decide (b ≠ LF) = false ↔ b = 10 := by
  rw [decide_eq_false_iff_not]; exact Decidable.not_not
theorem pCR (b : UInt8) : decide (b = CR) = true ↔ b = 13 := decide_eq_true_iff
theorem pCR' (b : UInt8) : decide (b = CR) = false ↔ b ≠ 13 := by
  rw [decide_eq_false_iff_not]; exact Iff.rfl
theorem pSP (b : UInt8) : decide (b ≠ SP) = true ↔ b ≠ 32 := decide_eq_true_iff
theorem pSP' (b : UInt8) : decide (b ≠ SP) = false ↔ b = 32 := by
  rw [decide_eq_false_iff_not]; exact Decidable.not_not

/-- the header-name bytes -/
abbrev nameP : UInt8 → Bool := fun b => b ≠ CR && b ≠ LF && b ≠ COLON

theorem pName (b : UInt8) : nameP b = true ↔ b ≠ 13 ∧ b ≠ 10 ∧ b ≠ 58 := by
  show (decide (b ≠ CR) && decide (b ≠ LF) && decide (b ≠ COLON)) = true ↔ _
  rw [Bool.and_eq_true, Bool.and_eq_true, decide_eq_true_iff, decide_eq_true_iff, decide_eq_true_iff]
  exact and_assoc
theorem pName' (b : UInt8) : nameP b = false ↔ b = 13 ∨ b = 10 ∨ b = 58 := by
  have := pName b
  cases h : nameP b
  · simp only [true_iff]
    rw [h] at this
    by_cases h1 : b = 13
    · exact Or.inl h1
    by_cases h2 : b = 10
    · exact Or.inr (Or.inl h2)
    by_cases h3 : b = 58
    · exact Or.inr (Or.inr h3)
    exact absurd (this.2 ⟨h1, h2, h3⟩) (by simp)
  · rw [h] at this
    have := this.1 rfl
    simp only [Bool.true_eq_false, false_iff]
    simp [this.1, this.2.1, this.2.2]

theorem fvalue_iff (d : Bytes) :
    httpFold .fvalue d = .content ↔
      ∃ rest, (spanP (· ≠ LF) d).2 = 10 :: rest ∧ httpFold .fstart rest = .content := by
  rw [fold_span .fvalue (· ≠ LF) (by
    intro b hb
    have : b ≠ 10 := (pLF b).1 hb
    simp only [httpByte]; split <;> simp_all) d]
  have hh := spanP_snd_head (· ≠ LF) d
  cases h : (spanP (· ≠ LF) d).2 with
  | nil => simp [fold_nil]
  | cons b t =>
    have hb : b = 10 := (pLF' b).1 (hh b t h)
    subst hb
    simp [fold_cons, httpByte]

theorem fname_iff (d : Bytes) :
    httpFold .fname d = .content ↔
      ∃ rest, (spanP nameP d).2 = 58 :: rest ∧ httpFold .fvalue rest = .content := by
  rw [fold_span .fname nameP (by
    intro b hb
    have := (pName b).1 hb
    simp [httpByte, this]) d]
  have hh := spanP_snd_head nameP d
  cases h : (spanP nameP d).2 with
  | nil => simp [fold_nil]
  | cons b t =>
    have hb := (pName' b).1 (hh b t h)
    by_cases h58 : b = 58
    · subst h58; simp [fold_cons, httpByte]
    · have : b = 13 ∨ b = 10 := by
        rcases hb with h | h | h
        · exact Or.inl h
        · exact Or.inr h
        · exact absurd h h58
      simp [fold_cons, httpByte, this, h58, fold_fail]

theorem relaxedHeaders_succ (fuel : Nat) (p : Bytes) :
    relaxedHeaders (fuel + 1) p =
      (match (spanP (· = CR) p).2 with
       | [] => false
       | c0 :: r =>
         if c0 = 10 then true else if c0 = 13 then false else
         match (spanP nameP r).2 with
         | 58 :: r =>
           (match (spanP (· ≠ LF) r).2 with
            | 10 :: rest => relaxedHeaders fuel rest
            | _ => false)
         | _ => false) := by
  rw [relaxedHeaders]
  simp only []
  cases (spanP (· = CR) p).2 with
  | nil => rfl
  | cons c0 r =>
    by_cases h10 : c0 = 10
    · subst h10; rfl
    · by_cases h13 : c0 = 13
      · subst h13; rfl
      · have hne : ¬ (c0 = CR ∨ c0 = LF) := by
          intro h
          rcases h with h | h
          · exact h13 h
          · exact h10 h
        simp only [h10, h13, if_false]
        split
        · rename_i h; exact absurd h hne
        · rfl

theorem fstart_iff (fuel : Nat) (d : Bytes) (hf : d.length < fuel) :
    httpFold .fstart d = .content ↔ relaxedHeaders fuel d = true := by
  induction fuel generalizing d with
  | zero => omega
  | succ fuel ih =>
    rw [relaxedHeaders_succ, fold_span .fstart (· = CR) (by
      intro b hb; have : b = 13 := (pCR b).1 hb; simp [httpByte, this]) d]
    have hlen := spanP_snd_length (· = CR) d
    have hh := spanP_snd_head (· = CR) d
    cases h : (spanP (· = CR) d).2 with
    | nil => simp [fold_nil]
    | cons c0 r =>
      have hc : c0 ≠ 13 := (pCR' c0).1 (hh c0 r h)
      rw [h] at hlen; simp only [List.length_cons] at hlen
      by_cases h10 : c0 = 10
      · subst h10; simp [fold_cons, httpByte, fold_content]
      · have hstep : httpFold .fstart (c0 :: r) = httpFold .fname r := by
          simp [fold_cons, httpByte, hc, h10]
        rw [hstep, fname_iff]
        simp only [h10, hc, if_false]
        have hl2 := spanP_snd_length nameP r
        cases h2 : (spanP nameP r).2 with
        | nil => simp
        | cons x r2 =>
          rw [h2] at hl2; simp only [List.length_cons] at hl2
          by_cases hx : x = 58
          · subst hx
            simp only [List.cons.injEq, true_and, exists_eq_left']
            rw [fvalue_iff]
            have hl3 := spanP_snd_length (· ≠ LF) r2
            cases h3 : (spanP (· ≠ LF) r2).2 with
            | nil => simp
            | cons y r3 =>
              rw [h3] at hl3; simp only [List.length_cons] at hl3
              by_cases hy : y = 10
              · subst hy
                simp only [List.cons.injEq, true_and, exists_eq_left']
                exact ih r3 (by omega)
              · constructor
                · rintro ⟨rest, he, _⟩; simp at he; exact absurd he.1 hy
                · intro hm
                  split at hm
                  · rename_i heq; simp at heq; exact absurd heq.1 hy
                  · simp at hm
          · constructor
            · rintro ⟨rest, he, _⟩; simp at he; exact absurd he.1 hx
            · intro hm
              split at hm
              · rename_i heq; simp at heq; exact absurd heq.1 hx
              · simp at hm

/-! ### the request line -/

abbrev verP : UInt8 → Bool := fun b => digit b || b = CR

theorem digit_eq (b : UInt8) : digit b = isDigit b := rfl

theorem pVer (b : UInt8) : verP b = true ↔ isDigit b = true ∨ b = 13 := by
  show (digit b || decide (b = CR)) = true ↔ _
  rw [Bool.or_eq_true, decide_eq_true_iff]; exact Iff.rfl

theorem vmin_iff (d : Bytes) :
    httpFold .vmin d = .content ↔
      ∃ rest, (spanP verP d).2 = 10 :: rest ∧ httpFold .fstart rest = .content := by
  rw [fold_span .vmin verP (by
    intro b hb
    rcases (pVer b).1 hb with h | h
    · have h13 : b ≠ 13 := by intro e; subst e; simp [isDigit] at h
      have h10 : b ≠ 10 := by intro e; subst e; simp [isDigit] at h
      simp [httpByte, h, h13, h10]
    · simp [httpByte, h]) d]
  have hh := spanP_snd_head verP d
  cases h : (spanP verP d).2 with
  | nil => simp [fold_nil]
  | cons b t =>
    have hb := hh b t h
    have hnd : isDigit b = false := by
      cases hd : isDigit b
      · rfl
      · rw [(pVer b).2 (Or.inl hd)] at hb; exact absurd hb (by simp)
    have h13 : b ≠ 13 := by
      intro e; rw [(pVer b).2 (Or.inr e)] at hb; exact absurd hb (by simp)
    by_cases h10 : b = 10
    · subst h10; simp [fold_cons, httpByte]
    · simp [fold_cons, httpByte, h13, h10, hnd, fold_fail]

theorem vmaj_iff (d : Bytes) :
    httpFold .vmaj d = .content ↔
      ∃ rest, (spanP digit d).2 = 46 :: rest ∧ httpFold .vmin rest = .content := by
  rw [fold_span .vmaj digit (by
    intro b hb
    have hb' : isDigit b = true := hb
    have h46 : b ≠ 46 := by intro e; subst e; simp [isDigit] at hb'
    simp [httpByte, hb', h46]) d]
  have hh := spanP_snd_head digit d
  cases h : (spanP digit d).2 with
  | nil => simp [fold_nil]
  | cons b t =>
    have hb : isDigit b = false := hh b t h
    by_cases h46 : b = 46
    · subst h46; simp [fold_cons, httpByte]
    · simp [fold_cons, httpByte, h46, hb, fold_fail]

theorem lit_iff (k : Nat) (c : UInt8) (nxt : HSt)
    (hk : ∀ b, httpByte (.lit k) b = if b = c then nxt else .fail) (d : Bytes) :
    httpFold (.lit k) d = .content ↔ ∃ t, d = c :: t ∧ httpFold nxt t = .content := by
  cases d with
  | nil => simp [fold_nil]
  | cons b t =>
    rw [fold_cons, hk]
    by_cases hb : b = c
    · subst hb; simp
    · simp [hb, fold_fail]

theorem httpLit_bytes : "HTTP/".toUTF8.toList = [72, 84, 84, 80, 47] := by decide +kernel

theorem stripPrefix_eq_some (pre p rest : Bytes) :
    stripPrefix pre p = some rest ↔ p = pre ++ rest := by
  unfold stripPrefix
  constructor
  · intro h
    split at h
    · rename_i hp
      obtain ⟨t, rfl⟩ := List.isPrefixOf_iff_prefix.1 hp
      simp at h; rw [h]
    · simp at h
  · rintro rfl
    have : pre.isPrefixOf (pre ++ rest) = true := List.isPrefixOf_iff_prefix.2 (List.prefix_append _ _)
    simp [this]

theorem lit0_iff (d : Bytes) :
    httpFold (.lit 0) d = .content ↔
      ∃ rest, stripPrefix "HTTP/".toUTF8.toList d = some rest ∧ httpFold .vmaj rest = .content := by
  rw [lit_iff 0 72 (.lit 1) (by intro b; simp [httpByte, httpLit, eq_comm])]
  simp only [stripPrefix_eq_some, httpLit_bytes]
  constructor
  · rintro ⟨t, rfl, h⟩
    rw [lit_iff 1 84 (.lit 2) (by intro b; simp [httpByte, httpLit, eq_comm])] at h
    obtain ⟨t, rfl, h⟩ := h
    rw [lit_iff 2 84 (.lit 3) (by intro b; simp [httpByte, httpLit, eq_comm])] at h
    obtain ⟨t, rfl, h⟩ := h
    rw [lit_iff 3 80 (.lit 4) (by intro b; simp [httpByte, httpLit, eq_comm])] at h
    obtain ⟨t, rfl, h⟩ := h
    rw [lit_iff 4 47 .vmaj (by intro b; simp [httpByte, httpLit, eq_comm])] at h
    obtain ⟨t, rfl, h⟩ := h
    exact ⟨t, rfl, h⟩
  · rintro ⟨rest, rfl, h⟩
    refine ⟨_, rfl, ?_⟩
    rw [lit_iff 1 84 (.lit 2) (by intro b; simp [httpByte, httpLit, eq_comm])]
    refine ⟨_, rfl, ?_⟩
    rw [lit_iff 2 84 (.lit 3) (by intro b; simp [httpByte, httpLit, eq_comm])]
    refine ⟨_, rfl, ?_⟩
    rw [lit_iff 3 80 (.lit 4) (by intro b; simp [httpByte, httpLit, eq_comm])]
    refine ⟨_, rfl, ?_⟩
    rw [lit_iff 4 47 .vmaj (by intro b; simp [httpByte, httpLit, eq_comm])]
    exact ⟨_, rfl, h⟩

theorem uri_iff (d : Bytes) :
    httpFold .uri d = .content ↔
      ∃ rest, (spanP (· ≠ SP) d).2 = 32 :: rest ∧ httpFold (.lit 0) rest = .content := by
  rw [fold_span .uri (· ≠ SP) (by
    intro b hb
    have : b ≠ 32 := (pSP b).1 hb
    simp [httpByte, this]) d]
  have hh := spanP_snd_head (· ≠ SP) d
  cases h : (spanP (· ≠ SP) d).2 with
  | nil => simp [fold_nil]
  | cons b t =>
    have hb : b = 32 := (pSP' b).1 (hh b t h)
    subst hb
    simp [fold_cons, httpByte]

theorem space_iff (d : Bytes) :
    httpFold .space d = .content ↔ ∃ t, d = 32 :: t ∧ httpFold .uri t = .content := by
  cases d with
  | nil => simp [fold_nil]
  | cons b t =>
    rw [fold_cons]
    by_cases hb : b = 32
    · subst hb; simp [httpByte]
    · simp [httpByte, hb, fold_fail]

/-- existential normal form of the recogniser `fsmTail` -/
theorem fsmTail_iff (rest : Bytes) :
    fsmTail rest = true ↔
      ∃ r1, rest = 32 :: r1 ∧ ∃ r2, (spanP (· ≠ SP) r1).2 = 32 :: r2 ∧
      ∃ r3, stripPrefix "HTTP/".toUTF8.toList r2 = some r3 ∧
      ∃ r4, (spanP digit r3).2 = 46 :: r4 ∧
      ∃ r5, (spanP verP r4).2 = 10 :: r5 ∧ relaxedHeaders (r5.length + 1) r5 = true := by
  unfold fsmTail
  split
  · rename_i r1
    simp only [List.cons.injEq, true_and, exists_eq_left']
    split
    · rename_i r2 h2
      simp only [h2, List.cons.injEq, true_and, exists_eq_left']
      split
      · rename_i h3
        simp only [h3, Bool.false_eq_true, false_iff]
        rintro ⟨r3, h, _⟩
        exact absurd h (by simp)
      · rename_i r3 h3
        simp only [h3, Option.some.injEq, exists_eq_left']
        split
        · rename_i r4 h4
          simp only [h4, List.cons.injEq, true_and, exists_eq_left']
          split
          · rename_i r5 h5
            simp only [h5, List.cons.injEq, true_and, exists_eq_left']
          · rename_i h5
            simp only [Bool.false_eq_true, false_iff]
            rintro ⟨r5, h, _⟩
            exact h5 r5 h
        · rename_i h4
          simp only [Bool.false_eq_true, false_iff]
          rintro ⟨r4, h, _⟩
          exact h4 r4 h
    · rename_i h2
      simp only [Bool.false_eq_true, false_iff]
      rintro ⟨r2, h, _⟩
      exact h2 r2 h
  · rename_i h1
    simp only [Bool.false_eq_true, false_iff]
    rintro ⟨r1, h, _⟩
    exact h1 r1 h

/-- **The exact language of the byte FSM after the verb**: from the SPACE state the FSM reaches
    CONTENT iff the bytes are `SP T SP "HTTP/" d* "." (d|CR)* LF headers`, T ∈ [^SP]*. -/
theorem fsm_language (rest : Bytes) : httpFold .space rest = .content ↔ fsmTail rest = true := by
  rw [fsmTail_iff, space_iff]
  apply exists_congr; intro r1; apply and_congr_right; intro _
  rw [uri_iff]
  apply exists_congr; intro r2; apply and_congr_right; intro _
  rw [lit0_iff]
  apply exists_congr; intro r3; apply and_congr_right; intro _
  rw [vmaj_iff]
  apply exists_congr; intro r4; apply and_congr_right; intro _
  rw [vmin_iff]
  apply exists_congr; intro r5; apply and_congr_right; intro _
  exact fstart_iff (r5.length + 1) r5 (by omega)

end Masscanned.C13.Aux
