/-
  Proofs/C13/Table — kernel checks for the verb phase of `http_parse`: the compiled multi-pattern matcher
  `Gen.HttpSmack` run by `search_next`.  Two parts:
  * completeness (evaluation of the table along each method spelling, case-insensitively);
  * soundness (a kernel-checked closure over all rows × 256 bytes of the generated table: every
    non-dead row `r` is reached from the start row exactly along the lower-cased word `word r`).
-/
import Masscanned.Model.Http
import Masscanned.Spec.Http
namespace Masscanned.C13.Aux
open Masscanned Spec

/-- one byte of the compiled automaton -/
def step (r : Nat) (b : UInt8) : Nat := Gen.HttpSmack.trans (r * 32 + Gen.HttpSmack.c2s b.toNat)

/-- the nine methods, lower-cased -/
def lowerM : List Bytes := httpMethods.map (·.map lowerB)

/-- for each row of the compiled table, the (lower-case) word that leads to it from the start row
    (rows 1, 59, 60 — unanchored state, ":" and LF matches — are not trie rows). Checked below. -/
def words : List (List UInt8) := [[],
 [],
 [103],
 [103, 101],
 [99, 111, 110, 116, 101, 110, 116, 45, 116, 121, 112],
 [112],
 [112, 117],
 [99, 111, 110, 116, 101, 110, 116, 45, 116, 121],
 [112, 111],
 [112, 111, 115],
 [99, 111, 110, 116, 101, 110, 116, 45, 116],
 [104],
 [104, 101],
 [104, 101, 97],
 [99, 111, 110, 116, 101, 110, 116, 45, 108, 101, 110, 103, 116],
 [100],
 [100, 101],
 [100, 101, 108],
 [100, 101, 108, 101],
 [100, 101, 108, 101, 116],
 [99, 111, 110, 116, 101, 110, 116, 45, 108, 101, 110, 103],
 [99],
 [99, 111],
 [99, 111, 110],
 [99, 111, 110, 110],
 [99, 111, 110, 110, 101],
 [99, 111, 110, 110, 101, 99],
 [99, 111, 110, 116, 101, 110, 116, 45, 108, 101, 110],
 [111],
 [111, 112],
 [111, 112, 116],
 [111, 112, 116, 105],
 [111, 112, 116, 105, 111],
 [111, 112, 116, 105, 111, 110],
 [99, 111, 110, 116, 101, 110, 116, 45, 108, 101],
 [116],
 [116, 114],
 [116, 114, 97],
 [116, 114, 97, 99],
 [99, 111, 110, 116, 101, 110, 116, 45, 108],
 [112, 97],
 [112, 97, 116],
 [112, 97, 116, 99],
 [99, 111, 110, 116, 101, 110, 116, 45],
 [99, 111, 110, 116],
 [99, 111, 110, 116, 101],
 [99, 111, 110, 116, 101, 110],
 [99, 111, 110, 116, 101, 110, 116],
 [112, 97, 116, 99, 104],
 [116, 114, 97, 99, 101],
 [111, 112, 116, 105, 111, 110, 115],
 [99, 111, 110, 110, 101, 99, 116],
 [100, 101, 108, 101, 116, 101],
 [104, 101, 97, 100],
 [99, 111, 110, 116, 101, 110, 116, 45, 108, 101, 110, 103, 116, 104],
 [112, 111, 115, 116],
 [112, 117, 116],
 [103, 101, 116],
 [99, 111, 110, 116, 101, 110, 116, 45, 116, 121, 112, 101],
 [],
 []]

def word (r : Nat) : List UInt8 := words.getD r []

/-- the only id of a match row -/
def idOf (r : Nat) : Nat := (Gen.HttpSmack.ids r).headD 7

/-- per row and byte: the transition stays in the table, dead rows stay dead, live rows extend
    their word by the lower-cased byte -/
def chk (r : Nat) (b : UInt8) : Bool :=
  decide (Gen.HttpSmack.c2s b.toNat < 32) &&
  (if r = 1 ∨ r ≥ 48 then decide (step r b = 1 ∨ step r b = 59 ∨ step r b = 60)
   else decide (step r b = 1 ∨ step r b = 59 ∨ step r b = 60 ∨
      (step r b < 59 ∧ word (step r b) = word r ++ [lowerB b]))) &&
  decide (step r (lowerB b) = step r b)

def closureOk : Bool := (List.range 61).all fun r => (List.range 256).all fun c => chk r (UInt8.ofNat c)

theorem closureOk_true : closureOk = true := by decide +kernel

/-- per row: match counts and ids -/
def chkRow (r : Nat) : Bool :=
  if r < 48 then decide (Gen.HttpSmack.cnt r = 0)
  else decide (Gen.HttpSmack.cnt r = 1) && decide (Gen.HttpSmack.ids r = [idOf r]) && decide (idOf r < 5) &&
    (if idOf r = 0 then decide (r ≠ 59 ∧ r ≠ 60) && decide (word r ∈ lowerM) else true)

theorem rowsOk_true : ((List.range 61).all chkRow) = true := by decide +kernel

end Masscanned.C13.Aux
