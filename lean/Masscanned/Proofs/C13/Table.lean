/-
  Proofs/C13/Table — kernel checks for the verb phase of `http_parse`: the compiled multi-pattern matcher
  `Gen.HttpSmack` run by `search_next`.

  ROBUSTNESS: nothing in this file mentions a concrete row number, row count or match limit of the
  compiled table.  The language of the Verb id (soundness and completeness) comes from the generic,
  annotation-driven closure proof of `Proofs/C10/HttpVerb` (`C10.http_verb_language'`, witness `Gen/HttpAnn`
  regenerated with the table); this file adds two small kernel checks, both quantified over the
  generated definitions only:
  * `foldOk_true`  — the table is case-insensitive: a byte and its ASCII lower-case form are in the same
    byte class;
  * `deadOk_true`  — a match row that does not carry the Verb id only leads to rows in which no method
    name is alive (annotation empty) or to match rows that do not carry the Verb id either: once a
    non-Verb pattern has matched, the Verb id is never reported.
-/
import Masscanned.Proofs.C10.HttpVerb
import Masscanned.Spec.Http
namespace Masscanned.C13.Aux
open Masscanned Spec

set_option maxRecDepth 100000

/-- number of rows of the compiled table -/
abbrev N : Nat := Gen.HttpSmack.nrows

/-- one byte of the compiled automaton -/
def step (r : Nat) (b : UInt8) : Nat := C10.mstep httpTbl r b.toNat

/-- the nine methods, lower-cased -/
def lowerM : List Bytes := httpMethods.map (·.map lowerB)

theorem lowerB_eq : (lowerB : UInt8 → UInt8) = C10.lowerB := rfl

theorem lowerM_eq : lowerM = C10.httpMethodNames := by decide +kernel

/-- the annotation of the HTTP matcher (which method names are still alive in a non-match row) -/
def AR (row : Nat) : C10.RState := C10.decodeR C10.verbsL (C10.annOf C10.annH row)

/-! ### case-insensitivity -/

def foldOkB : Bool :=
  C10.allBelow (fun c => httpTbl.c2s (lowerB (UInt8.ofNat c)).toNat == httpTbl.c2s c) 256

theorem foldOk_true : foldOkB = true := by decide +kernel

/-! ### after a non-Verb match -/

/-- executable form of "no method name alive / not a Verb match row" -/
def deadRowB (r : Nat) : Bool :=
  if r < httpTbl.matchLimit then C10.field C10.annH r / 256 == 0 else (httpTbl.ids r).all (· != 0)

def deadStepB (r : Nat) : Bool :=
  !(httpTbl.ids r).all (· != 0) || C10.allBelow (fun c => deadRowB (C10.mstep httpTbl r c)) 256

/-- all match rows (`matchLimit ≤ r < nrows`) -/
theorem deadOk_true :
    C10.allBelow (fun j => deadStepB (httpTbl.matchLimit + j)) (N - httpTbl.matchLimit) = true := by
  decide +kernel

end Masscanned.C13.Aux
