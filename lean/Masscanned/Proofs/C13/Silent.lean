/-
  Proofs/C13/Silent — consequences of the FSM language used for the "not answered" half of C13:
  `stripMethod` characterised, blank-line necessity, request-line necessity, header lines
  without a colon.
-/
import Masscanned.Proofs.C13.Strict
namespace Masscanned.C13.Aux
open Masscanned Spec

/-! ### `stripMethod` -/

theorem methods_no_sp : ∀ m ∈ httpMethods, (32 : UInt8) ∉ m := by decide +kernel

theorem split_unique (m m' r r' : Bytes) (hm : (32 : UInt8) ∉ m) (hm' : (32 : UInt8) ∉ m')
    (h : m ++ 32 :: r = m' ++ 32 :: r') : m = m' ∧ r = r' := by
  induction m generalizing m' with
  | nil =>
    cases m' with
    | nil => simpa using h
    | cons c t => simp at h; exact absurd h.1 (by intro e; apply hm'; simp [e])
  | cons b t ih =>
    cases m' with
    | nil => simp at h; exact absurd h.1 (by intro e; apply hm; simp [e])
    | cons c t' =>
      simp only [List.cons_append, List.cons.injEq] at h
      obtain ⟨rfl, h2⟩ := h
      have := ih t' (fun e => hm (by simp [e])) (fun e => hm' (by simp [e])) h2
      exact ⟨by rw [this.1], this.2⟩

theorem stripMethod_some_imp (p r : Bytes) (h : stripMethod p = some r) :
    ∃ m ∈ httpMethods, p = m ++ 32 :: r := by
  unfold stripMethod at h
  obtain ⟨m, hm, hf⟩ := List.exists_of_findSome?_eq_some h
  refine ⟨m, hm, ?_⟩
  split at hf
  · rename_i hp
    obtain ⟨t, rfl⟩ := List.isPrefixOf_iff_prefix.1 hp
    simp only [Option.some.injEq] at hf
    subst hf
    simp [SP]
  · simp at hf

theorem stripMethod_eq_some (p r : Bytes) :
    stripMethod p = some r ↔ ∃ m ∈ httpMethods, p = m ++ 32 :: r := by
  constructor
  · exact stripMethod_some_imp p r
  · rintro ⟨m, hm, rfl⟩
    cases h : stripMethod (m ++ 32 :: r) with
    | none =>
      unfold stripMethod at h
      rw [List.findSome?_eq_none_iff] at h
      have := h m hm
      have hp : (m ++ [SP]).isPrefixOf (m ++ 32 :: r) = true := by
        apply List.isPrefixOf_iff_prefix.2
        exact ⟨r, by simp [SP]⟩
      simp [hp] at this
    | some r' =>
      obtain ⟨m', hm', he⟩ := stripMethod_some_imp _ _ h
      have := split_unique m m' r r' (methods_no_sp m hm) (methods_no_sp m' hm') he
      rw [this.2]

/-- `Spec.relaxedRequest` unfolded: one of the nine methods, SP, a target starting with "/", and the
    rest (including that SP) in the FSM tail language -/
theorem relaxedRequest_iff (p : Bytes) :
    relaxedRequest p = true ↔
      ∃ m ∈ httpMethods, ∃ r, p = m ++ 32 :: r ∧ r.head? = some 47 ∧ fsmTail (32 :: r) = true := by
  rw [relaxedRequest_eq]
  constructor
  · intro h
    split at h
    · simp at h
    · rename_i r hr
      obtain ⟨m, hm, hp⟩ := (stripMethod_eq_some p r).1 hr
      simp only [Bool.and_eq_true, decide_eq_true_eq] at h
      exact ⟨m, hm, r, hp, h.1, h.2⟩
  · rintro ⟨m, hm, r, hp, h47, ht⟩
    have := (stripMethod_eq_some p r).2 ⟨m, hm, hp⟩
    rw [this]
    simp [h47, ht]

/-! ### no blank line, no answer -/

/-- `LF CR* LF` occurs in the input (`pend`: the previous bytes were `LF CR*`) -/
def hasBlank : Bool → Bytes → Bool
  | _, [] => false
  | pend, b :: t =>
    if b = 10 then (pend || hasBlank true t)
    else if b = 13 then hasBlank pend t
    else hasBlank false t

/-- the request contains an empty line (`LF LF`, `LF CR LF`, …) -/
def hasBlankLine (p : Bytes) : Bool := hasBlank false p

theorem hasBlank_mono (d : Bytes) (pend : Bool) (h : hasBlank false d = true) :
    hasBlank pend d = true := by
  induction d generalizing pend with
  | nil => simp [hasBlank] at h
  | cons b t ih =>
    unfold hasBlank at h ⊢
    by_cases h10 : b = 10
    · simp only [h10, if_true, Bool.false_or] at h ⊢
      simp [h]
    · by_cases h13 : b = 13
      · simp only [h13, if_true] at h ⊢
        exact ih pend h
      · simp only [h10, h13, if_false] at h ⊢
        exact h

theorem hasBlank_mono' (d : Bytes) (pend : Bool) (h : hasBlank pend d = true) :
    hasBlank true d = true := by
  cases pend with
  | true => exact h
  | false => exact hasBlank_mono d true h

theorem hasBlank_append (a d : Bytes) (pend : Bool) (h : hasBlank false d = true) :
    hasBlank pend (a ++ d) = true := by
  induction a generalizing pend with
  | nil => exact hasBlank_mono d pend h
  | cons b t ih =>
    rw [List.cons_append]
    unfold hasBlank
    by_cases h10 : b = 10
    · simp [h10, ih true]
    · by_cases h13 : b = 13
      · simp only [h13, if_true]; exact ih pend
      · simp only [h10, h13, if_false]; exact ih false

theorem byte_content (s : HSt) (b : UInt8) (hs : s ≠ .content) (h : httpByte s b = .content) :
    s = .fstart ∧ b = 10 := by
  cases s <;> simp only [httpByte] at h <;> (try (exact absurd rfl hs)) <;>
    (try (exact absurd h (by decide)))
  all_goals (repeat' split at h) <;> simp_all

theorem byte_fstart (s : HSt) (b : UInt8) (h : httpByte s b = .fstart) :
    (b = 13 ∧ s = .fstart) ∨ b = 10 := by
  cases s <;> simp only [httpByte] at h <;> (try (exact absurd h (by decide)))
  all_goals (repeat' split at h) <;> simp_all

theorem fold_content_blank (d : Bytes) (s : HSt) (hs : s ≠ .content)
    (h : httpFold s d = .content) : hasBlank (decide (s = .fstart)) d = true := by
  induction d generalizing s with
  | nil => exact absurd h hs
  | cons b t ih =>
    rw [fold_cons] at h
    unfold hasBlank
    by_cases hc : httpByte s b = .content
    · have := byte_content s b hs hc
      simp [this.1, this.2]
    · have ih' := ih (httpByte s b) hc h
      by_cases h10 : b = 10
      · simp only [h10, if_true, Bool.or_eq_true]
        right
        rw [h10] at ih'
        exact hasBlank_mono' t _ ih'
      · by_cases h13 : b = 13
        · simp only [h13, if_true]
          cases hd : decide (httpByte s b = .fstart)
          · rw [hd] at ih'; exact hasBlank_mono t _ ih'
          · rw [hd] at ih'
            have hs' : s = .fstart := by
              rcases byte_fstart s b (of_decide_eq_true hd) with h' | h'
              · exact h'.2
              · exact absurd h' h10
            simp [hs', ih']
        · simp only [h10, h13, if_false]
          have hd : decide (httpByte s b = .fstart) = false := by
            apply decide_eq_false
            intro hd'
            rcases byte_fstart s b hd' with h' | h'
            · exact h13 h'.1
            · exact h10 h'
          rw [hd] at ih'; exact ih'

/-- the FSM tail language requires an empty line -/
theorem fsmTail_blank (rest : Bytes) (h : fsmTail rest = true) : hasBlankLine rest = true := by
  have := fold_content_blank rest .space (by decide) ((fsm_language rest).2 h)
  simpa [hasBlankLine] using this

/-! ### the request line -/

/-- a request line as the FSM accepts it, without its LF: `SP T SP "HTTP/" d* "." (d|CR)*` -/
def reqLineOk (l : Bytes) : Bool :=
  match l with
  | 32 :: r =>
    let (_, r) := spanP (· ≠ SP) r
    match r with
    | 32 :: r =>
      (match stripPrefix "HTTP/".toUTF8.toList r with
       | none => false
       | some r =>
         let (_, r) := spanP digit r
         match r with
         | 46 :: r => r.all (fun b => digit b || b = CR)
         | _ => false)
    | _ => false
  | _ => false

theorem reqLineOk_iff (l : Bytes) :
    reqLineOk l = true ↔
      ∃ r1, l = 32 :: r1 ∧ ∃ r2, (spanP (· ≠ SP) r1).2 = 32 :: r2 ∧
      ∃ r3, stripPrefix "HTTP/".toUTF8.toList r2 = some r3 ∧
      ∃ r4, (spanP digit r3).2 = 46 :: r4 ∧ r4.all verP = true := by
  unfold reqLineOk
  split
  · rename_i r1
    simp only [List.cons.injEq, true_and, exists_eq_left']
    split
    · rename_i r2 h2
      simp only [h2, List.cons.injEq, true_and, exists_eq_left']
      split
      · rename_i h3
        simp only [h3, Bool.false_eq_true, false_iff]
        rintro ⟨r3, h, _⟩
        exact absurd h (by simp)
      · rename_i r3 h3
        simp only [h3, Option.some.injEq, exists_eq_left']
        split
        · rename_i r4 h4
          simp only [h4, List.cons.injEq, true_and, exists_eq_left']
        · rename_i h4
          simp only [Bool.false_eq_true, false_iff]
          rintro ⟨r4, h, _⟩
          exact h4 r4 h
    · rename_i h2
      simp only [Bool.false_eq_true, false_iff]
      rintro ⟨r2, h, _⟩
      exact h2 r2 h
  · rename_i h1
    simp only [Bool.false_eq_true, false_iff]
    rintro ⟨r1, h, _⟩
    exact h1 r1 h

/-- a member of the FSM tail language is a well-formed request line, LF, and a header section -/
theorem fsmTail_reqLine (rest : Bytes) (h : fsmTail rest = true) :
    ∃ l r, rest = l ++ 10 :: r ∧ reqLineOk l = true ∧ relaxedHeaders (r.length + 1) r = true := by
  obtain ⟨r1, rfl, r2, h2, r3, h3, r4, h4, r5, h5, hH⟩ := (fsmTail_iff rest).1 h
  have e1 := spanP_eq_append (· ≠ SP) r1
  have a1 := spanP_fst_all (· ≠ SP) r1
  have e3 := spanP_eq_append digit r3
  have a3 := spanP_fst_all digit r3
  have e4 := spanP_eq_append verP r4
  have a4 := spanP_fst_all verP r4
  have e2 := (stripPrefix_eq_some _ _ _).1 h3
  rw [h2] at e1; rw [h4] at e3; rw [h5] at e4
  generalize (spanP (· ≠ SP) r1).1 = T at e1 a1
  generalize (spanP digit r3).1 = D at e3 a3
  generalize (spanP verP r4).1 = V at e4 a4
  refine ⟨32 :: (T ++ 32 :: ("HTTP/".toUTF8.toList ++ (D ++ 46 :: V))), r5, ?_, ?_, hH⟩
  · rw [← e1, e2, ← e3, ← e4]; simp
  · rw [reqLineOk_iff]
    refine ⟨_, rfl, "HTTP/".toUTF8.toList ++ (D ++ 46 :: V), ?_, D ++ 46 :: V, ?_, V, ?_, ?_⟩
    · exact spanP_snd_append _ T _ a1 (Or.inr ⟨32, _, rfl, by decide⟩)
    · exact (stripPrefix_eq_some _ _ _).2 rfl
    · exact spanP_snd_append _ D _ a3 (Or.inr ⟨46, _, rfl, by decide⟩)
    · exact List.all_eq_true.2 a4

/-! ### a header line without a colon -/

theorem fold_fname_nocolon (h : Bytes) (hh : ∀ b ∈ h, b ≠ 58) (s : HSt)
    (hs : s = .fname ∨ s = .fail) : httpFold s h = .fname ∨ httpFold s h = .fail := by
  induction h generalizing s with
  | nil => exact hs
  | cons b t ih =>
    rw [fold_cons]
    apply ih (fun c hc => hh c (by simp [hc]))
    have hb : b ≠ 58 := hh b (by simp)
    rcases hs with rfl | rfl
    · simp only [httpByte]
      split
      · exact Or.inr rfl
      · simp
    · exact Or.inr rfl

theorem fold_fstart_nocolon (h : Bytes) (hh : ∀ b ∈ h, b ≠ 58 ∧ b ≠ 10) :
    (httpFold .fstart h = .fstart ∧ ∀ b ∈ h, b = 13) ∨ httpFold .fstart h = .fname ∨
      httpFold .fstart h = .fail := by
  induction h with
  | nil => exact Or.inl ⟨rfl, by simp⟩
  | cons b t ih =>
    have hb := hh b (by simp)
    have ht : ∀ c ∈ t, c ≠ 58 ∧ c ≠ 10 := fun c hc => hh c (by simp [hc])
    rw [fold_cons]
    by_cases h13 : b = 13
    · have : httpByte .fstart b = .fstart := by simp [httpByte, h13]
      rw [this]
      rcases ih ht with ⟨h1, h2⟩ | h1
      · exact Or.inl ⟨h1, by intro c hc; simp at hc; rcases hc with rfl | hc; exact h13; exact h2 c hc⟩
      · exact Or.inr h1
    · have : httpByte .fstart b = .fname := by simp [httpByte, h13, hb.2]
      rw [this]
      exact Or.inr (fold_fname_nocolon t (fun c hc => (ht c hc).1) .fname (Or.inl rfl))

/-- after the request line (and any number of complete header lines), a line that has a byte other
    than CR but no colon kills the request -/
theorem header_nocolon_fail (h x : Bytes) (hh : ∀ b ∈ h, b ≠ 58 ∧ b ≠ 10) (hne : ∃ b ∈ h, b ≠ 13) :
    httpFold .fstart (h ++ 10 :: x) = .fail := by
  rw [fold_append, fold_cons]
  rcases fold_fstart_nocolon h hh with ⟨_, h2⟩ | h1 | h1
  · obtain ⟨b, hb, hb13⟩ := hne
    exact absurd (h2 b hb) hb13
  · rw [h1]; simp [httpByte, fold_fail]
  · rw [h1]; simp [httpByte, fold_fail]

/-- `pre` is a request line plus complete header lines, still waiting for the empty line -/
theorem fold_pre_fstart (pre : Bytes) (hpre : fsmTail (pre ++ [10]) = true)
    (hnb : hasBlankLine pre = false) : httpFold .space pre = .fstart := by
  have h := (fsm_language _).2 hpre
  rw [fold_append, fold_cons, fold_nil] at h
  have hc : httpFold .space pre ≠ .content := by
    intro hc
    have := fold_content_blank pre .space (by decide) hc
    simp [hasBlankLine] at hnb
    simp [hnb] at this
  exact (byte_content _ _ hc h).1

end Masscanned.C13.Aux
