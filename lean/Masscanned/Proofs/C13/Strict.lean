/-
  Proofs/C13/Strict — the property's grammar is contained in the relaxed language:
  `Spec.strictRequest p → Spec.relaxedRequest p`.
-/
import Masscanned.Proofs.C13.Fsm
namespace Masscanned.C13.Aux
open Masscanned Spec

theorem spanP_snd_append (f : UInt8 → Bool) (a r : Bytes) (ha : ∀ b ∈ a, f b = true)
    (hr : r = [] ∨ ∃ b t, r = b :: t ∧ f b = false) : (spanP f (a ++ r)).2 = r := by
  rw [spanP_append f a r ha hr]

theorem stripEol_some (p t : Bytes) (h : stripEol p = some t) : p = 13 :: 10 :: t ∨ p = 10 :: t := by
  unfold stripEol at h
  split at h
  · simp at h; subst h; exact Or.inl rfl
  · simp at h; subst h; exact Or.inr rfl
  · simp at h

abbrev valP : UInt8 → Bool := fun b => b ≠ CR && b ≠ LF

theorem pVal (b : UInt8) : valP b = true ↔ b ≠ 13 ∧ b ≠ 10 := by
  show (decide (b ≠ CR) && decide (b ≠ LF)) = true ↔ _
  rw [Bool.and_eq_true, decide_eq_true_iff, decide_eq_true_iff]
  exact Iff.rfl

abbrev tgtP : UInt8 → Bool := fun b => b ≠ SP && b ≠ CR && b ≠ LF

theorem pTgt (b : UInt8) : tgtP b = true ↔ b ≠ 32 ∧ b ≠ 13 ∧ b ≠ 10 := by
  show (decide (b ≠ SP) && decide (b ≠ CR) && decide (b ≠ LF)) = true ↔ _
  rw [Bool.and_eq_true, Bool.and_eq_true, decide_eq_true_iff, decide_eq_true_iff, decide_eq_true_iff]
  exact and_assoc

/-- one unfolding of `strictHeaders`, in existential form (only the direction we need) -/
theorem strictHeaders_succ (fuel : Nat) (p : Bytes) (h : strictHeaders (fuel + 1) p = true) :
    (∃ t, stripEol p = some t) ∨
    ((spanP nameP p).1 ≠ [] ∧ ∃ r', (spanP nameP p).2 = 58 :: r' ∧
      ∃ rest, stripEol (spanP valP r').2 = some rest ∧ strictHeaders fuel rest = true) := by
  rw [strictHeaders] at h
  split at h
  · rename_i t ht; exact Or.inl ⟨t, ht⟩
  · right
    try simp only [] at h
    split at h
    · simp at h
    · rename_i hne
      have hne' : (spanP nameP p).1 ≠ [] := by
        intro e; apply hne
        show List.isEmpty (spanP nameP p).1 = true
        rw [e]; rfl
      split at h
      · rename_i r' hr'
        try simp only [] at h
        split at h
        · rename_i rest hrest
          exact ⟨hne', r', hr', rest, hrest, h⟩
        · simp at h
      · simp at h

theorem strictHeaders_relaxed (fuel : Nat) (p : Bytes) (h : strictHeaders fuel p = true) :
    relaxedHeaders fuel p = true := by
  induction fuel generalizing p with
  | zero => simp [strictHeaders] at h
  | succ fuel ih =>
    rw [relaxedHeaders_succ]
    rcases strictHeaders_succ fuel p h with ⟨t, ht⟩ | ⟨hne, r', hr', rest, hrest, hrec⟩
    · rcases stripEol_some p t ht with rfl | rfl
      · have : (spanP (· = CR) (13 :: 10 :: t)).2 = 10 :: t := by
          simp [spanP, CR]
        rw [this]; rfl
      · have : (spanP (· = CR) (10 :: t)).2 = 10 :: t := by
          simp [spanP, CR]
        rw [this]; rfl
    · -- a header line
      have hp := spanP_eq_append nameP p
      have hall := spanP_fst_all nameP p
      rw [hr'] at hp
      cases hn : (spanP nameP p).1 with
      | nil => exact absurd hn hne
      | cons c0 name' =>
        rw [hn] at hp hall
        have hc0 := (pName c0).1 (hall c0 (by simp))
        have hsp1 : (spanP (· = CR) p).2 = p := by
          rw [← hp]
          simp [spanP, CR, hc0.1]
        rw [hsp1, ← hp]
        simp only [List.cons_append, hc0.1, hc0.2.1, if_false]
        have hsp2 : (spanP nameP (name' ++ 58 :: r')).2 = 58 :: r' :=
          spanP_snd_append nameP name' (58 :: r') (fun b hb => hall b (by simp [hb]))
            (Or.inr ⟨58, r', rfl, by decide⟩)
        rw [hsp2]
        simp only []
        -- the value
        have hv := spanP_eq_append valP r'
        have hvall := spanP_fst_all valP r'
        rcases stripEol_some _ rest hrest with he | he
        · rw [he] at hv
          have hsp3 : (spanP (· ≠ LF) r').2 = 10 :: rest := by
            rw [← hv]
            have : (spanP valP r').1 ++ 13 :: 10 :: rest = ((spanP valP r').1 ++ [13]) ++ 10 :: rest := by
              simp
            rw [this]
            apply spanP_snd_append
            · intro b hb
              simp only [List.mem_append, List.mem_singleton] at hb
              rcases hb with hb | rfl
              · exact (pLF b).2 ((pVal b).1 (hvall b hb)).2
              · decide
            · exact Or.inr ⟨10, rest, rfl, by decide⟩
          rw [hsp3]
          exact ih rest hrec
        · rw [he] at hv
          have hsp3 : (spanP (· ≠ LF) r').2 = 10 :: rest := by
            rw [← hv]
            apply spanP_snd_append
            · intro b hb
              exact (pLF b).2 ((pVal b).1 (hvall b hb)).2
            · exact Or.inr ⟨10, rest, rfl, by decide⟩
          rw [hsp3]
          exact ih rest hrec

/-- existential normal form of `strictRequest` (the direction we need) -/
theorem strictRequest_elim (p : Bytes) (h : strictRequest p = true) :
    ∃ r, stripMethod p = some r ∧ (spanP tgtP r).1.head? = some 47 ∧
    ∃ r2, (spanP tgtP r).2 = 32 :: r2 ∧
    ∃ r3, stripPrefix "HTTP/".toUTF8.toList r2 = some r3 ∧
    ∃ r4, (spanP digit r3).2 = 46 :: r4 ∧
    ∃ r6, stripEol (spanP digit r4).2 = some r6 ∧ strictHeaders (r6.length + 1) r6 = true := by
  unfold strictRequest at h
  split at h
  · simp at h
  · rename_i r hr
    refine ⟨r, hr, ?_⟩
    try simp only [] at h
    split at h
    · simp at h
    · rename_i hhead
      have hh47 : (spanP tgtP r).1.head? = some 47 := by
        by_cases e : (spanP tgtP r).1.head? = some 47
        · exact e
        · exfalso; apply hhead
          show (!decide ((spanP tgtP r).1.head? = some 47)) = true
          simp [e]
      refine ⟨hh47, ?_⟩
      split at h
      · rename_i r2 hr2
        refine ⟨r2, hr2, ?_⟩
        split at h
        · simp at h
        · rename_i r3 hr3
          refine ⟨r3, hr3, ?_⟩
          try simp only [] at h
          split at h
          · simp at h
          · split at h
            · rename_i r4 hr4
              refine ⟨r4, hr4, ?_⟩
              try simp only [] at h
              split at h
              · simp at h
              · split at h
                · rename_i r6 hr6
                  exact ⟨r6, hr6, h⟩
                · simp at h
            · simp at h
      · simp at h

/-- **strict ⊆ relaxed** -/
theorem strict_relaxed (p : Bytes) (h : strictRequest p = true) : relaxedRequest p = true := by
  obtain ⟨r, hr, hhead, r2, hr2, r3, hr3, r4, hr4, r6, hr6, hH⟩ := strictRequest_elim p h
  rw [relaxedRequest_eq, hr]
  simp only [Bool.and_eq_true, decide_eq_true_eq]
  have hr_app := spanP_eq_append tgtP r
  have htall := spanP_fst_all tgtP r
  rw [hr2] at hr_app
  constructor
  · rw [← hr_app]
    cases ht : (spanP tgtP r).1 with
    | nil => rw [ht] at hhead; simp at hhead
    | cons c t => rw [ht] at hhead; simpa using hhead
  · rw [fsmTail_iff]
    refine ⟨r, rfl, r2, ?_, r3, hr3, r4, hr4, r6, ?_, strictHeaders_relaxed _ _ hH⟩
    · rw [← hr_app]
      apply spanP_snd_append
      · intro b hb; exact (pSP b).2 ((pTgt b).1 (htall b hb)).1
      · exact Or.inr ⟨32, r2, rfl, by decide⟩
    · have hm := spanP_eq_append digit r4
      have hmall := spanP_fst_all digit r4
      rcases stripEol_some _ r6 hr6 with he | he
      · rw [he] at hm
        rw [← hm]
        have : (spanP digit r4).1 ++ 13 :: 10 :: r6 = ((spanP digit r4).1 ++ [13]) ++ 10 :: r6 := by
          simp
        rw [this]
        apply spanP_snd_append
        · intro b hb
          simp only [List.mem_append, List.mem_singleton] at hb
          rcases hb with hb | rfl
          · exact (pVer b).2 (Or.inl (hmall b hb))
          · decide
        · exact Or.inr ⟨10, r6, rfl, by decide⟩
      · rw [he] at hm
        rw [← hm]
        apply spanP_snd_append
        · intro b hb
          exact (pVer b).2 (Or.inl (hmall b hb))
        · exact Or.inr ⟨10, r6, rfl, by decide⟩

end Masscanned.C13.Aux
