/-
  Proofs/Run — vocabulary and lemmas for C09 at frame and history level.
-/
import Masscanned.Proofs.Frame
namespace Masscanned

/-- the SYN cookie of the flow of an IP/TCP frame, through the spec's readers only -/
def frameCookie (cfg : Cfg) (f : Bytes) : Option Nat :=
  match Spec.srcIp f, Spec.dstIp f with
  | some s, some d =>
    some (cookie cfg.k0 cfg.k1 s d (Spec.be16 (Spec.l4Bytes f) 0) (Spec.be16 (Spec.l4Bytes f) 2))
  | _, _ => none

/-- the frame carries a TCP segment (at least a full header) with PSH and ACK set -/
def isTcpData (f : Bytes) : Bool :=
  Spec.ipProto f = some 6 && decide ((Spec.l4Bytes f).length ≥ 20) &&
  decide (Spec.tcpFlagsOf (Spec.l4Bytes f) &&& (Spec.PSH + Spec.ACK) = Spec.PSH + Spec.ACK)

/-- "valid first data": a TCP data segment whose acknowledgement number is the flow's cookie + 1
    (mod 2^32).  A function of the frame and the key only. -/
def validData (cfg : Cfg) (f : Bytes) : Bool :=
  isTcpData f &&
  match frameCookie cfg f with
  | some ck => decide (Spec.be32 (Spec.l4Bytes f) 8 = (ck + 1) % 4294967296)
  | none => false

/-- the keys of the table are pairwise distinct -/
def KeysDistinct (st : Table) : Prop := (st.map Prod.fst).Nodup

theorem step_table' (cfg : Cfg) (env : Env) (st : Table) (f : Bytes) :
    (step cfg env st f).st = st ∨
    (∃ ck v, frameCookie cfg f = some ck ∧ isTcpData f = true ∧ (st.get? ck).isSome = true ∧
        (∃ r, (step cfg env st f).out = .ok (some r)) ∧ (step cfg env st f).st = st.set ck v) ∨
    (∃ ck v, frameCookie cfg f = some ck ∧ validData cfg f = true ∧ st.get? ck = none ∧
        (∃ r, (step cfg env st f).out = .ok (some r)) ∧ (step cfg env st f).st = st ++ [(ck, v)]) := by
  rcases step_inv cfg env st f with h | ⟨s, d, ci0, ci', evs, r, o, hs, hd, hp, hl, hcs, hcd, ht, ho, hor⟩
  · exact .inl h
  · have hck := tcpCk_eq (cfg := cfg) hl hcs hcd
    have hfc : frameCookie cfg f = some (tcpCk cfg ci0 (Spec.l4Bytes f)) := by
      unfold frameCookie; rw [hs, hd, hck]
    have hdata : ∀ (_ : tcpFlags (Spec.l4Bytes f) / 8 % 2 = 1 ∧ tcpFlags (Spec.l4Bytes f) / 16 % 2 = 1),
        isTcpData f = true := by
      intro hb
      unfold isTcpData
      rw [hp]
      simp only [decide_true, Bool.true_and, Bool.and_eq_true, decide_eq_true_eq]
      exact ⟨hl, (dataBits (tcpFlags_lt _)).mpr hb⟩
    have hout : r.isSome = true → ∃ x, (step cfg env st f).out = .ok (some x) := by
      intro hr
      rw [← hor] at hr
      cases o with
      | none => cases hr
      | some x => exact ⟨x, ho⟩
    rcases tcp_table_step' hl ht with h | ⟨hg, hb, hr, v, hv⟩ | ⟨hg, hb, hack, hr, v, hv⟩
    · exact .inl h
    · exact .inr (.inl ⟨_, v, hfc, hdata hb, hg, hout hr, hv⟩)
    · refine .inr (.inr ⟨_, v, hfc, ?_, hg, hout hr, hv⟩)
      unfold validData
      rw [hdata hb, hfc]
      simp only [Bool.true_and, decide_eq_true_eq]
      exact hack

theorem step_length_le (cfg : Cfg) (env : Env) (st : Table) (f : Bytes) :
    (step cfg env st f).st.length ≤ st.length + (if validData cfg f = true then 1 else 0) := by
  rcases step_table' cfg env st f with h | ⟨ck, v, _, _, hg, _, h⟩ | ⟨ck, v, _, hv, _, _, h⟩
  · rw [h]; omega
  · rw [h, Table.set_length _ _ _ hg]; omega
  · rw [h, if_pos hv]; simp

theorem step_keysDistinct (cfg : Cfg) (env : Env) (st : Table) (f : Bytes) (hk : KeysDistinct st) :
    KeysDistinct (step cfg env st f).st := by
  rcases step_table' cfg env st f with h | ⟨ck, v, _, _, hg, _, h⟩ | ⟨ck, v, _, _, hg, _, h⟩
  · rw [h]; exact hk
  · unfold KeysDistinct; rw [h, Table.set_keys _ _ _ hg]; exact hk
  · unfold KeysDistinct at *
    rw [h, List.map_append, List.nodup_append]
    refine ⟨hk, by simp, ?_⟩
    intro a ha b hb
    simp only [List.map_cons, List.map_nil, List.mem_singleton] at hb
    subst hb
    intro hab; subst hab
    exact (Table.get?_none_iff st a).mp hg ha

/-- keys after a frame: the old ones, plus possibly the cookie of this frame if it is valid first data -/
theorem step_keys_sub (cfg : Cfg) (env : Env) (st : Table) (f : Bytes) (k : Nat)
    (hk : k ∈ (step cfg env st f).st.map Prod.fst) :
    k ∈ st.map Prod.fst ∨ (validData cfg f = true ∧ frameCookie cfg f = some k) := by
  rcases step_table' cfg env st f with h | ⟨ck, v, _, _, hg, _, h⟩ | ⟨ck, v, hfc, hv, _, _, h⟩
  · rw [h] at hk; exact .inl hk
  · rw [h, Table.set_keys _ _ _ hg] at hk; exact .inl hk
  · rw [h, List.map_append, List.mem_append] at hk
    rcases hk with hk | hk
    · exact .inl hk
    · simp only [List.map_cons, List.map_nil, List.mem_singleton] at hk
      subst hk; exact .inr ⟨hv, hfc⟩

/-- the steps of a history at which the table grew: (table before, frame) -/
def appendSteps (cfg : Cfg) (env : Env) : Table → List Bytes → List (Table × Bytes)
  | _, [] => []
  | st, f :: fs =>
    (if (step cfg env st f).st.length = st.length + 1 then [(st, f)] else []) ++
      appendSteps cfg env (step cfg env st f).st fs

theorem step_length_cases (cfg : Cfg) (env : Env) (st : Table) (f : Bytes) :
    ((step cfg env st f).st.length = st.length) ∨
    ((step cfg env st f).st.length = st.length + 1 ∧ validData cfg f = true ∧
      ∃ ck, frameCookie cfg f = some ck ∧ st.get? ck = none ∧
        (∃ v, (step cfg env st f).st = st ++ [(ck, v)]) ∧ ∃ r, (step cfg env st f).out = .ok (some r)) := by
  rcases step_table' cfg env st f with h | ⟨ck, v, _, _, hg, _, h⟩ | ⟨ck, v, hfc, hv, hg, ho, h⟩
  · left; rw [h]
  · left; rw [h, Table.set_length _ _ _ hg]
  · right; exact ⟨by rw [h]; simp, hv, ck, hfc, hg, ⟨v, h⟩, ho⟩

end Masscanned
