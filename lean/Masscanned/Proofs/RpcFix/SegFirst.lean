/-
  Proofs/RpcFix/SegFirst — C11 for a responder whose parser state is RESET after a reply (ONC-RPC over
  TCP since the repair of `repl_tcp`, HTTP since the repair of `http::repl`): the conclusion of C11
  restricted to what the property speaks
  of, the FIRST request of a flow (`SegIndepFirst`): bare ACKs before the trigger position, and exactly
  the segment containing the trigger byte carries the reply of the unsegmented stream.  Nothing is said
  about later segments (they belong to the next request).  `SegIndep` (Proofs/C11/Feed) implies it.

  Protocol-independent part of the argument, as in Proofs/C11/Feed: the block after a stream prefix and
  the reply to the segment ending there are functions of the prefix AS LONG AS NOTHING HAS BEEN ANSWERED.
-/
import Masscanned.Proofs.C11.Feed
open Masscanned
namespace Masscanned.C11

/-- **the conclusion of C11 for the first request** of the stream `all.flatten`: feeding never panics;
    with `R` the reply of the unsegmented stream and `n` its trigger position (if any): segments ending
    before `n` get a bare ACK, the segment containing stream byte `n` gets `R`; without a trigger
    position no segment is answered.  (`SegIndep` says in addition that every LATER segment gets `R`
    again — true of no responder any more since ONC-RPC/TCP and HTTP reset their parser after a reply.) -/
def SegIndepFirst (cfg : Cfg) (env : Env) (ci : ClientInfo) (all : List Bytes) : Prop :=
  ∃ t rs R, feed cfg env ci {} all = .ok (t, rs) ∧ rs.length = all.length ∧
    unseg cfg env ci all.flatten = .ok R ∧
    match trig cfg env ci all.flatten with
    | none => R = none ∧ ∀ k, k < all.length → rs[k]? = some none
    | some n => R ≠ none ∧ 0 < n ∧ n ≤ all.flatten.length ∧
        ∀ k, k < all.length →
          (endOff all k < n → rs[k]? = some none) ∧
          (begOff all k < n → n ≤ endOff all k → rs[k]? = some R)

theorem SegIndep.first {cfg : Cfg} {env : Env} {ci : ClientInfo} {all : List Bytes}
    (h : SegIndep cfg env ci all) : SegIndepFirst cfg env ci all := by
  obtain ⟨t, rs, R, h1, h2, h3, h4⟩ := h
  refine ⟨t, rs, R, h1, h2, h3, ?_⟩
  cases htr : trig cfg env ci all.flatten with
  | none => rw [htr] at h4; exact h4
  | some n =>
    rw [htr] at h4
    obtain ⟨a, b, c, d⟩ := h4
    exact ⟨a, b, c, fun k hk => ⟨(d k hk).1, fun _ hle => (d k hk).2 hle⟩⟩

/-! ### feeding never panics when an invariant of the block is preserved -/

theorem feed_total (cfg : Cfg) (env : Env) (ci : ClientInfo) (I : Tcb → Prop)
    (total : ∀ t d, I t → ∃ ci' t' r, protoRepl cfg env ci (some t) d = .ok (ci', some t', r) ∧ I t')
    (t : Tcb) (ht : I t) (segs : List Bytes) :
    ∃ t' rs, feed cfg env ci t segs = .ok (t', rs) ∧ rs.length = segs.length ∧ I t' := by
  induction segs generalizing t with
  | nil => exact ⟨t, [], feed_nil _ _ _ _, rfl, ht⟩
  | cons d ds ih =>
    obtain ⟨ci', t1, r, h1, hi1⟩ := total t d ht
    obtain ⟨t', rs, h2, h3, h4⟩ := ih t1 hi1
    exact ⟨t', r :: rs, by rw [feed_cons_ok cfg env ci ci' t t1 d ds r h1, h2], by simp [h3], h4⟩

/-! ### feeding when block and reply are functions of the stream so far, until the first reply -/

theorem feed_steps_first (cfg : Cfg) (env : Env) (ci : ClientInfo) (T : Bytes → Tcb) (G : Bytes → Option Bytes)
    (I : Tcb → Prop)
    (step : ∀ x d, G x = none →
      ∃ ci', protoRepl cfg env ci (some (T x)) d = .ok (ci', some (T (x ++ d)), G (x ++ d)))
    (hI : ∀ x, I (T x))
    (total : ∀ t d, I t → ∃ ci' t' r, protoRepl cfg env ci (some t) d = .ok (ci', some t', r) ∧ I t')
    (x : Bytes) (segs : List Bytes) :
    ∃ t rs, feed cfg env ci (T x) segs = .ok (t, rs) ∧ rs.length = segs.length ∧
      ∀ k, k < segs.length → G x = none → (∀ j, j < k → G (x ++ (segs.take (j + 1)).flatten) = none) →
        rs[k]? = some (G (x ++ (segs.take (k + 1)).flatten)) := by
  induction segs generalizing x with
  | nil => exact ⟨T x, [], feed_nil _ _ _ _, rfl, fun k hk => by simp at hk⟩
  | cons d ds ih =>
    by_cases hx : G x = none
    · obtain ⟨ci', hs⟩ := step x d hx
      obtain ⟨t, rs, h1, h2, h3⟩ := ih (x ++ d)
      refine ⟨t, G (x ++ d) :: rs, ?_, by simp [h2], ?_⟩
      · rw [feed_cons_ok cfg env ci ci' _ _ d ds _ hs, h1]
      · intro k hk _ hbefore
        cases k with
        | zero => simp
        | succ k =>
          simp only [List.length_cons] at hk
          have h0 : G (x ++ d) = none := by
            have := hbefore 0 (by omega)
            simpa using this
          have := h3 k (by omega) h0 (fun j hj => by
            have := hbefore (j + 1) (by omega)
            simpa only [List.take_succ_cons, List.flatten_cons, List.append_assoc] using this)
          simp only [List.getElem?_cons_succ, List.take_succ_cons, List.flatten_cons]
          rw [this, List.append_assoc]
    · obtain ⟨t, rs, h1, h2, _⟩ := feed_total cfg env ci I total (T x) (hI x) (d :: ds)
      exact ⟨t, rs, h1, h2, fun k _ h => absurd h hx⟩

/-! ### from prefix-determined replies to `SegIndepFirst` -/

/-- `g n` = reply of the unsegmented parser to the first `n` stream bytes; segment `k` gets
    `g (endOff k)` provided no earlier segment was answered; `g` is monotone once it answers -/
theorem segIndepFirst_of_prefix (cfg : Cfg) (env : Env) (ci : ClientInfo) (all : List Bytes) (g : Nat → Option Bytes)
    (t : Tcb) (rs : List (Option Bytes))
    (hfeed : feed cfg env ci {} all = .ok (t, rs)) (hlen : rs.length = all.length)
    (hrs : ∀ k, k < all.length → (∀ j, j < k → g (endOff all j) = none) → rs[k]? = some (g (endOff all k)))
    (hun : ∀ n, n ≤ all.flatten.length → unseg cfg env ci (all.flatten.take n) = .ok (g n))
    (hmono : ∀ n n', n ≤ n' → n' ≤ all.flatten.length → g n ≠ none → g n' = g n)
    (h0 : g 0 = none) : SegIndepFirst cfg env ci all := by
  have hans : ∀ n, n ≤ all.flatten.length →
      answers cfg env ci (all.flatten.take n) = (g n).isSome := by
    intro n hn
    unfold answers
    rw [hun n hn]
    cases g n <;> rfl
  have hR : unseg cfg env ci all.flatten = .ok (g all.flatten.length) := by
    have := hun all.flatten.length (Nat.le_refl _)
    rwa [List.take_length] at this
  refine ⟨t, rs, g all.flatten.length, hfeed, hlen, hR, ?_⟩
  cases htr : trig cfg env ci all.flatten with
  | none =>
    have hall := leastFrom_none _ _ _ htr
    have hnone : ∀ n, n ≤ all.flatten.length → g n = none := by
      intro n hn
      have := hall n (Nat.zero_le _) (by omega)
      rw [hans n hn] at this
      cases hg : g n with
      | none => rfl
      | some r => rw [hg] at this; cases this
    exact ⟨hnone _ (Nat.le_refl _), fun k hk => by
      rw [hrs k hk (fun j _ => hnone _ (endOff_le all j)), hnone _ (endOff_le all k)]⟩
  | some n =>
    obtain ⟨-, hn, hp, hmin⟩ := leastFrom_some _ _ _ _ htr
    have hn' : n ≤ all.flatten.length := by omega
    rw [hans n hn'] at hp
    have hgn : g n ≠ none := by
      intro e; rw [e] at hp; cases hp
    have hpos : 0 < n := by
      rcases Nat.eq_zero_or_pos n with e | e
      · subst e; exact absurd h0 hgn
      · exact e
    have hRn : g all.flatten.length = g n := hmono n _ hn' (Nat.le_refl _) hgn
    -- before the trigger position the unsegmented parser is silent
    have hbelow : ∀ m, m < n → g m = none := by
      intro m hm
      have := hmin m (Nat.zero_le _) hm
      rw [hans m (by omega)] at this
      cases hg : g m with
      | none => rfl
      | some r => rw [hg] at this; cases this
    refine ⟨by rw [hRn]; exact hgn, hpos, hn', ?_⟩
    intro k hk
    constructor
    · intro hlt
      rw [hrs k hk (fun j hj => hbelow _ (Nat.lt_of_le_of_lt (endOff_mono all j k (by omega)) hlt)),
        hbelow _ hlt]
    · intro hbeg hle
      have hprev : ∀ j, j < k → g (endOff all j) = none := by
        intro j hj
        apply hbelow
        have : endOff all j ≤ begOff all k := by
          cases k with
          | zero => omega
          | succ k => rw [begOff_succ]; exact endOff_mono all j k (by omega)
        omega
      rw [hrs k hk hprev, hRn, hmono n _ hle (endOff_le all k) hgn]

/-- instantiation: stream = signature `sg` followed by `x`; after the signature, and until the first
    reply, the block `T x` and the reply `G x` are functions of `x`; afterwards the invariant `I` of the
    block keeps `proto::repl` from panicking -/
theorem segIndepFirst_of_sig (cfg : Cfg) (env : Env) (ci : ClientInfo) (sg : Bytes)
    (T : Bytes → Tcb) (G : Bytes → Option Bytes) (I : Tcb → Prop)
    (fresh : ∀ x, ∃ ci', protoRepl cfg env ci (some {}) (sg ++ x) = .ok (ci', some (T x), G x))
    (step : ∀ x d, G x = none →
      ∃ ci', protoRepl cfg env ci (some (T x)) d = .ok (ci', some (T (x ++ d)), G (x ++ d)))
    (hI : ∀ x, I (T x))
    (total : ∀ t d, I t → ∃ ci' t' r, protoRepl cfg env ci (some t) d = .ok (ci', some t', r) ∧ I t')
    (short : ∀ n, n < sg.length → ∃ ci' t', protoRepl cfg env ci (some {}) (sg.take n) = .ok (ci', t', none))
    (hsg : sg ≠ [])
    (mono : ∀ x y, G x ≠ none → G (x ++ y) = G x)
    (a' : Bytes) (segs : List Bytes) : SegIndepFirst cfg env ci ((sg ++ a') :: segs) := by
  obtain ⟨ci0, hfresh⟩ := fresh a'
  obtain ⟨tf, rs, h1, h2, h3⟩ := feed_steps_first cfg env ci T G I step hI total a' segs
  have hsgpos : 0 < sg.length := List.length_pos_iff.2 hsg
  have hflat : ((sg ++ a') :: segs).flatten = sg ++ (a' ++ segs.flatten) := by
    simp only [List.flatten_cons, List.append_assoc]
  have hend : ∀ k, endOff ((sg ++ a') :: segs) k = sg.length + (a' ++ (segs.take k).flatten).length := by
    intro k
    unfold endOff
    simp only [List.take_succ_cons, List.flatten_cons, List.length_append]
    omega
  have htk : ∀ k, (a' ++ segs.flatten).take (a' ++ (segs.take k).flatten).length = a' ++ (segs.take k).flatten := by
    intro k
    have : a' ++ segs.flatten = (a' ++ (segs.take k).flatten) ++ (segs.drop k).flatten := by
      rw [List.append_assoc, ← List.flatten_append, List.take_append_drop]
    rw [this, List.take_left']
    rfl
  -- the prefix function at the end of segment k
  have hg : ∀ k, (if endOff ((sg ++ a') :: segs) k < sg.length then none
      else G ((a' ++ segs.flatten).take (endOff ((sg ++ a') :: segs) k - sg.length))) =
      G (a' ++ (segs.take k).flatten) := by
    intro k
    rw [hend k]
    have hn : ¬ sg.length + (a' ++ (segs.take k).flatten).length < sg.length := by omega
    simp only [if_neg hn, Nat.add_sub_cancel_left]
    rw [htk k]
  refine segIndepFirst_of_prefix cfg env ci _
    (fun n => if n < sg.length then none else G ((a' ++ segs.flatten).take (n - sg.length)))
    tf (G a' :: rs) ?_ (by simp [h2]) ?_ ?_ ?_ ?_
  · rw [feed_cons_ok cfg env ci ci0 _ _ _ segs _ hfresh, h1]
  · intro k hk hprev
    simp only [hg] at hprev ⊢
    cases k with
    | zero => simp
    | succ k =>
      simp only [List.length_cons] at hk
      have ha : G a' = none := by simpa using hprev 0 (by omega)
      rw [List.getElem?_cons_succ, h3 k (by omega) ha (fun j hj => hprev (j + 1) (by omega))]
  · intro n hn
    rw [hflat] at hn ⊢
    by_cases hlt : n < sg.length
    · simp only [if_pos hlt]
      have e : (sg ++ (a' ++ segs.flatten)).take n = sg.take n := by
        rw [List.take_append_of_le_length (by omega)]
      obtain ⟨ci', t', hs⟩ := short n hlt
      unfold unseg
      rw [e, hs]
    · simp only [if_neg hlt]
      have e : (sg ++ (a' ++ segs.flatten)).take n = sg ++ (a' ++ segs.flatten).take (n - sg.length) := by
        rw [List.take_append, List.take_of_length_le (by omega)]
      obtain ⟨ci', hs⟩ := fresh ((a' ++ segs.flatten).take (n - sg.length))
      unfold unseg
      rw [e, hs]
  · intro n n' hnn hn' hg
    by_cases hlt : n < sg.length
    · simp only [if_pos hlt] at hg; exact absurd rfl hg
    · have hlt' : ¬ n' < sg.length := by omega
      simp only [if_neg hlt] at hg
      simp only [if_neg hlt, if_neg hlt']
      have e : n' - sg.length = (n - sg.length) + (n' - n) := by omega
      rw [e, List.take_add]
      exact mono _ _ hg
  · simp only [if_pos hsgpos]

/-- leading empty segments do not matter -/
theorem segIndepFirst_cons_nil (cfg : Cfg) (env : Env) (ci : ClientInfo) (all : List Bytes)
    (hnil : protoRepl cfg env ci (some {}) [] = .ok (ci, some {}, none))
    (h : SegIndepFirst cfg env ci all) : SegIndepFirst cfg env ci ([] :: all) := by
  obtain ⟨t, rs, R, h1, h2, h3, h4⟩ := h
  have hf : ([] :: all).flatten = all.flatten := by simp
  refine ⟨t, none :: rs, R, ?_, by simp [h2], by rw [hf]; exact h3, ?_⟩
  · rw [feed_cons_ok cfg env ci ci {} {} [] all none hnil, h1]
  · rw [hf]
    cases htr : trig cfg env ci all.flatten with
    | none =>
      rw [htr] at h4
      refine ⟨h4.1, ?_⟩
      intro k hk
      cases k with
      | zero => rfl
      | succ k =>
        simp only [List.length_cons] at hk
        simpa using h4.2 k (by omega)
    | some n =>
      rw [htr] at h4
      obtain ⟨a, b, c, d⟩ := h4
      refine ⟨a, b, c, ?_⟩
      intro k hk
      cases k with
      | zero =>
        have e : endOff ([] :: all) 0 = 0 := by simp [endOff]
        rw [e]
        exact ⟨fun _ => rfl, fun _ hle => by omega⟩
      | succ k =>
        simp only [List.length_cons] at hk
        rw [endOff_cons_succ, begOff_cons_succ]
        simpa using d k (by omega)

end Masscanned.C11
