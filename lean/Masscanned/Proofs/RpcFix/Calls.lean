/-
  Proofs/RpcFix/Calls — after the repair of `repl_tcp` (the stored parser state is reset once a call
  has been answered): vocabulary and helper lemmas for "EVERY call of a TCP connection is answered with
  its own XID" (Thm/C16 §3): complete calls behind a record mark (`TcpCall`), accepted replies
  (`TcpReplyOk`), control blocks of an identified ONC-RPC flow whose stored parser state is the initial
  one (`FreshRpc`), and `repl_tcp` / `proto::repl` on them.
-/
import Masscanned.Proofs.C16.Glue
import Masscanned.Proofs.C11.Feed
open Masscanned
namespace Masscanned.C16

/-- `p` = a 4-byte record mark followed by the complete ONC-RPC call `c` (spec reader) -/
def TcpCall (p : Bytes) (c : Spec.RpcCall) : Prop := 4 ≤ p.length ∧ Spec.parseCall (p.drop 4) = some c

/-- `r` is a reply: a record mark (last fragment, length = rest) followed by the prescribed reply to `c` -/
def TcpReplyOk (c : Spec.RpcCall) (ip : Ip) (port : Nat) (r : Option Bytes) : Prop :=
  ∃ x body, r = some x ∧ Spec.recordMarkOk x = some body ∧ Spec.rpcReplyOk c body ip port = true

/-- control block of a flow identified as ONC-RPC over TCP whose stored parser state is the initial one
    (`protoState = none` only occurs inside `proto::repl`, between identification and the handler) -/
def FreshRpc (t : Tcb) : Prop :=
  t.protoId = PROTO_RPC_TCP ∧ (t.protoState = none ∨ t.protoState = some (.rpc {}))

/-- the block stored after an answered call -/
def resetBlock (t : Tcb) : Tcb := { t with protoState := some (.rpc {}) }

theorem freshRpc_resetBlock {t : Tcb} (h : t.protoId = PROTO_RPC_TCP) : FreshRpc (resetBlock t) := ⟨h, .inr rfl⟩

theorem resetBlock_idem (t : Tcb) : resetBlock (resetBlock t) = resetBlock t := rfl

/-- the SYN-cookie gate of `proto::repl` is open -/
def GateOpen (ci : ClientInfo) : Prop := ¬(ci.transport = some 6 ∧ ci.cookie = none)

/-! ### the xid of an accepted reply -/

theorem parseReply_xid (r : Bytes) (rep : Spec.RpcReply) (h : Spec.parseReply r = some rep) :
    rep.xid = Spec.be32 r 0 := by
  unfold Spec.parseReply at h
  simp only [] at h
  split at h; · cases h
  split at h; · cases h
  split at h; · cases h
  split at h
  · cases h; rfl
  · split at h
    · split at h
      · cases h; rfl
      · cases h
    · split at h
      · cases h; rfl
      · cases h

/-- a reply accepted by the spec for the call `c` starts with the xid of `c` -/
theorem rpcReplyOk_xid (c : Spec.RpcCall) (r : Bytes) (ip : Ip) (port : Nat)
    (h : Spec.rpcReplyOk c r ip port = true) : Spec.be32 r 0 = c.xid := by
  unfold Spec.rpcReplyOk at h
  cases hp : Spec.parseReply r with
  | none => rw [hp] at h; cases h
  | some rep =>
    rw [hp] at h
    simp only [Bool.and_eq_true, decide_eq_true_eq] at h
    rw [← parseReply_xid r rep hp]; exact h.1

/-! ### `repl_tcp` -/

theorem rpcReplTcp_reset {ovf : Bool} {s s' : RpcSt} {ci : ClientInfo} {d r : Bytes}
    (h : rpcReplTcp ovf s ci d = .ok (s', some r)) : s' = {} := by
  unfold rpcReplTcp at h
  split at h
  · cases h
  · split at h
    · split at h
      · cases h
      · simp only [Except.ok.injEq, Prod.mk.injEq] at h
        exact h.1.symm
    · simp only [Except.ok.injEq, Prod.mk.injEq] at h
      exact absurd h.2 (by simp)

theorem rpcReplTcp_not_done {ovf : Bool} {s s' : RpcSt} {ci : ClientInfo} {d : Bytes} {o : Option Bytes}
    (h : rpcReplTcp ovf s ci d = .ok (s', o)) : s'.state ≠ .done := by
  unfold rpcReplTcp at h
  split at h
  · cases h
  · split at h
    · split at h
      · cases h
      · simp only [Except.ok.injEq, Prod.mk.injEq] at h
        rw [← h.1]; decide
    · rename_i hd
      simp only [Except.ok.injEq, Prod.mk.injEq] at h
      rw [← h.1]; exact hd

/-- a complete call from the initial parser state: answered with its own xid, and the state stored
    afterwards is the initial one again -/
theorem rpcReplTcp_fresh_call (ovf : Bool) (ci : ClientInfo) (p : Bytes) (c : Spec.RpcCall) (ip : Ip) (port : Nat)
    (hlen : 4 ≤ p.length) (hc : Spec.parseCall (p.drop 4) = some c)
    (hip : ci.ipDst = some ip) (hport : ci.portDst = some port) (hp : port < 65536) :
    ∃ r body, rpcReplTcp ovf {} ci p = .ok ({}, some r) ∧ Spec.recordMarkOk r = some body ∧
      Spec.rpcReplyOk c body ip port = true := by
  obtain ⟨a, b, c', d, q, rfl⟩ := list_len4 p hlen
  have hq : (a :: b :: c' :: d :: q).drop 4 = q := rfl
  rw [hq] at hc
  obtain ⟨hcomp, hx, hpr, hv, hqq⟩ := parseCall_facts q c hc
  obtain ⟨h40, _, hcl⟩ := complete_facts q hcomp
  have hparse := parse_header_from ovf (decide (a.toNat ≥ 128)) d.toNat q h40 hcl
  obtain ⟨r, hb, hok, hl⟩ := build_spec (hdrState (decide (a.toNat ≥ 128)) d.toNat q) ci ip port c hip hport hp
    (be32_lt q 0) hx hpr hv hqq
  refine ⟨_, r, ?_, record_mark r hl, hok⟩
  unfold rpcReplTcp
  rw [read_frag, hparse]
  simp only [hdrState, if_true] at hb ⊢
  rw [hb]

/-! ### the handler and `proto::repl` on a block with fresh parser state -/

theorem protoHandle_rpc_of_fresh (cfg : Cfg) (env : Env) (ci : ClientInfo) (t : Tcb)
    (ht : t.protoState = none ∨ t.protoState = some (.rpc {})) (d : Bytes) :
    protoHandle cfg env PROTO_RPC_TCP ci (some t) d =
      match rpcReplTcp cfg.ovf {} ci d with
      | .error e => .error e
      | .ok (s', r) => .ok (ci, some { t with protoState := some (.rpc s') }, r) := by
  unfold protoHandle
  simp only [PROTO_RPC_TCP, PROTO_HTTP, PROTO_STUN, PROTO_SSH, PROTO_GHOST]
  rcases ht with ht | ht <;> rw [ht] <;> simp <;>
    (cases rpcReplTcp cfg.ovf {} ci d with
     | error e => rfl
     | ok q => obtain ⟨s', r⟩ := q; rfl)

theorem protoRepl_of_identified (cfg : Cfg) (env : Env) (ci : ClientInfo) (hg : GateOpen ci) (t : Tcb)
    (hid : t.protoId ≠ PROTO_NONE) (d : Bytes) :
    protoRepl cfg env ci (some t) d = protoHandle cfg env t.protoId ci (some t) d := by
  unfold protoRepl
  rw [if_neg hg]
  simp only [if_neg hid]

/-- **the n-th call**: `proto::repl` on a flow identified as ONC-RPC/TCP whose stored parser state is the
    initial one: the complete call `c` is answered with its own reply, the block stored afterwards has
    the initial parser state again (and is otherwise unchanged) -/
theorem protoRepl_fresh_call (cfg : Cfg) (env : Env) (ci : ClientInfo) (hg : GateOpen ci) (t : Tcb) (hf : FreshRpc t)
    (p : Bytes) (c : Spec.RpcCall) (ip : Ip) (port : Nat) (hcall : TcpCall p c)
    (hip : ci.ipDst = some ip) (hport : ci.portDst = some port) (hp : port < 65536) :
    ∃ r, protoRepl cfg env ci (some t) p = .ok (ci, some (resetBlock t), r) ∧ TcpReplyOk c ip port r := by
  obtain ⟨r, body, hr, hm, hok⟩ := rpcReplTcp_fresh_call cfg.ovf ci p c ip port hcall.1 hcall.2 hip hport hp
  refine ⟨some r, ?_, r, body, rfl, hm, hok⟩
  rw [protoRepl_of_identified cfg env ci hg t (by rw [hf.1]; decide), hf.1,
    protoHandle_rpc_of_fresh cfg env ci t hf.2, hr]
  rfl

/-- the calls `cs` (segment, call read by the spec) and the replies `rs`, position by position -/
def AllAnswered (ip : Ip) (port : Nat) : List (Bytes × Spec.RpcCall) → List (Option Bytes) → Prop
  | [], [] => True
  | (_, c) :: cs, r :: rs => TcpReplyOk c ip port r ∧ AllAnswered ip port cs rs
  | _, _ => False

theorem allAnswered_length {ip : Ip} {port : Nat} {cs : List (Bytes × Spec.RpcCall)} {rs : List (Option Bytes)}
    (h : AllAnswered ip port cs rs) : rs.length = cs.length := by
  induction cs generalizing rs with
  | nil => cases rs with
    | nil => rfl
    | cons r rs => exact absurd h (by simp [AllAnswered])
  | cons pc cs ih =>
    obtain ⟨p, c⟩ := pc
    cases rs with
    | nil => exact absurd h (by simp [AllAnswered])
    | cons r rs => simp only [AllAnswered] at h; simp [ih h.2]

theorem allAnswered_get {ip : Ip} {port : Nat} {cs : List (Bytes × Spec.RpcCall)} {rs : List (Option Bytes)}
    (h : AllAnswered ip port cs rs) (k : Nat) (p : Bytes) (c : Spec.RpcCall) (hk : cs[k]? = some (p, c)) :
    ∃ r, rs[k]? = some r ∧ TcpReplyOk c ip port r := by
  induction cs generalizing rs k with
  | nil => simp at hk
  | cons pc cs ih =>
    obtain ⟨p0, c0⟩ := pc
    cases rs with
    | nil => exact absurd h (by simp [AllAnswered])
    | cons r rs =>
      simp only [AllAnswered] at h
      cases k with
      | zero =>
        simp only [List.getElem?_cons_zero, Option.some.injEq, Prod.mk.injEq] at hk
        obtain ⟨_, rfl⟩ := hk
        exact ⟨r, rfl, h.1⟩
      | succ k =>
        simp only [List.getElem?_cons_succ] at hk ⊢
        exact ih h.2 k hk

end Masscanned.C16
