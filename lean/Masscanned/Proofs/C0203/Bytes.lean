/-
  Proofs/Bytes — list / slice / big-endian reader lemmas shared by the C02 and C03 proofs.
  The model's readers (`at8`, `slice`, `rdBE`) are related to the Spec's (`u8`, `sub`, `be16`),
  and the Spec readers are moved across `++`, `drop`, `take` and `setU16`.
-/
import Masscanned.Model.Checksum
import Masscanned.Spec.Wire
namespace Masscanned
open Spec

/-! ### model readers = spec readers -/

theorem at8_eq_u8 (b : Bytes) (i : Nat) : at8 b i = u8 b i := rfl
theorem slice_eq_sub (b : Bytes) (i n : Nat) : slice b i n = sub b i n := rfl

theorem u8_lt (b : Bytes) (i : Nat) : u8 b i < 256 := (b.getD i 0).toNat_lt
theorem be16_lt (b : Bytes) (i : Nat) : be16 b i < 65536 := by
  have h1 := u8_lt b i; have h2 := u8_lt b (i + 1); unfold be16; omega

theorem byte_u8 (b : Bytes) (i : Nat) : byte (u8 b i) = b.getD i 0 := by
  unfold byte u8
  have h := (b.getD i 0).toNat_lt
  rw [Nat.mod_eq_of_lt (by omega)]; exact UInt8.ofNat_toNat

theorem byte_toNat (n : Nat) : (byte n).toNat = n % 256 := by
  unfold byte; simp

theorem sub_length (b : Bytes) (i n : Nat) : (sub b i n).length = min n (b.length - i) := by
  simp [sub]

theorem sub_length_of_le {b : Bytes} {i n : Nat} (h : i + n ≤ b.length) : (sub b i n).length = n := by
  rw [sub_length]; omega

theorem slice_length_of_le {b : Bytes} {i n : Nat} (h : i + n ≤ b.length) : (slice b i n).length = n :=
  sub_length_of_le h

theorem getD_eq_getElem {b : Bytes} {i : Nat} (h : i < b.length) : b.getD i 0 = b[i] := by
  simp [List.getD_eq_getElem?_getD, h]

/-- a 2-byte window read by the model's fold = the spec's positional read -/
theorem rdBE_slice2 {b : Bytes} {i : Nat} (h : i + 2 ≤ b.length) : rdBE (slice b i 2) = be16 b i := by
  have e : slice b i 2 = [b.getD i 0, b.getD (i + 1) 0] := by
    apply List.ext_getElem
    · simp [slice]; omega
    · intro j h1 h2
      simp [slice] at h1
      have hj : j = 0 ∨ j = 1 := by omega
      rcases hj with rfl | rfl <;> simp [slice, List.getD_eq_getElem?_getD, *] <;>
        (try rw [List.getElem?_eq_getElem (by omega)]) <;> simp
  rw [e]; simp [rdBE, be16, u8]

/-! ### spec readers across `drop`, `take`, `++` -/

theorem u8_drop (b : Bytes) (n i : Nat) : u8 (b.drop n) i = u8 b (n + i) := by
  simp [u8, List.getD_eq_getElem?_getD]

theorem be16_drop (b : Bytes) (n i : Nat) : be16 (b.drop n) i = be16 b (n + i) := by
  simp [be16, u8_drop, Nat.add_assoc]

theorem sub_drop (b : Bytes) (n i m : Nat) : sub (b.drop n) i m = sub b (n + i) m := by
  simp [sub]

theorem u8_take {b : Bytes} {n i : Nat} (h : i < n) : u8 (b.take n) i = u8 b i := by
  simp [u8, List.getD_eq_getElem?_getD, h]

theorem be16_take {b : Bytes} {n i : Nat} (h : i + 1 < n) : be16 (b.take n) i = be16 b i := by
  simp [be16, u8_take (show i < n by omega), u8_take h]

theorem sub_take {b : Bytes} {n i m : Nat} (h : i + m ≤ n) : sub (b.take n) i m = sub b i m := by
  unfold sub
  rw [List.drop_take, List.take_take]
  congr 1; omega

theorem u8_append_left {a : Bytes} (b : Bytes) {i : Nat} (h : i < a.length) : u8 (a ++ b) i = u8 a i := by
  simp [u8, List.getD_eq_getElem?_getD, List.getElem?_append_left h]

theorem u8_append_right {a : Bytes} (b : Bytes) {n : Nat} (h : a.length = n) (i : Nat) :
    u8 (a ++ b) (n + i) = u8 b i := by
  subst h
  simp [u8, List.getD_eq_getElem?_getD, List.getElem?_append_right]

theorem be16_append_left {a : Bytes} (b : Bytes) {i : Nat} (h : i + 1 < a.length) :
    be16 (a ++ b) i = be16 a i := by
  simp [be16, u8_append_left b (show i < a.length by omega), u8_append_left b h]

theorem be16_append_right {a : Bytes} (b : Bytes) {n : Nat} (h : a.length = n) (i : Nat) :
    be16 (a ++ b) (n + i) = be16 b i := by
  simp [be16, Nat.add_assoc, u8_append_right b h]

theorem sub_append_left {a : Bytes} (b : Bytes) {i m : Nat} (h : i + m ≤ a.length) :
    sub (a ++ b) i m = sub a i m := by
  unfold sub
  rw [List.drop_append, List.take_append]
  have e : m - (a.drop i).length = 0 := by simp; omega
  rw [e]; simp

theorem sub_append_right {a : Bytes} (b : Bytes) {n : Nat} (h : a.length = n) (i m : Nat) :
    sub (a ++ b) (n + i) m = sub b i m := by
  subst h
  unfold sub
  rw [List.drop_append]
  have e : List.drop (a.length + i) a = [] := by simp
  rw [e]; simp

/-- the window that is exactly the middle part -/
theorem sub_append_exact {a : Bytes} (b c : Bytes) {n m : Nat} (h : a.length = n) (hb : b.length = m) :
    sub (a ++ b ++ c) n m = b := by
  subst h hb
  unfold sub
  simp [List.append_assoc]

/-! ### `u16be` and `setU16` -/

theorem u16be_length (n : Nat) : (u16be n).length = 2 := rfl

theorem be16_u16be (n : Nat) (t : Bytes) : be16 (u16be n ++ t) 0 = n % 65536 := by
  simp [be16, u8, u16be, byte_toNat]; omega

theorem u16be_mod (n : Nat) : u16be (n % 65536) = u16be n := by
  have h1 : n % 65536 / 256 % 256 = n / 256 % 256 := by omega
  have h2 : n % 65536 % 256 = n % 256 := by omega
  simp [u16be, byte, h1, h2]

theorem setU16_length {r : Bytes} {off : Nat} (v : Nat) (h : off + 2 ≤ r.length) :
    (setU16 r off v).length = r.length := by
  simp [setU16, u16be]; omega

theorem setU16_append {h : Bytes} (t : Bytes) {off : Nat} (v : Nat) (hl : off + 2 ≤ h.length) :
    setU16 (h ++ t) off v = setU16 h off v ++ t := by
  unfold setU16
  rw [List.take_append, List.drop_append]
  have e1 : off - h.length = 0 := by omega
  have e2 : off + 2 - h.length = 0 := by omega
  simp [e1, e2]

theorem u8_setU16_lt {r : Bytes} {off i : Nat} (v : Nat) (h : i < off) (hl : off ≤ r.length) :
    u8 (setU16 r off v) i = u8 r i := by
  unfold setU16
  rw [List.append_assoc, u8_append_left _ (by simp; omega), u8_take h]

theorem be16_setU16_lt {r : Bytes} {off i : Nat} (v : Nat) (h : i + 1 < off) (hl : off ≤ r.length) :
    be16 (setU16 r off v) i = be16 r i := by
  simp [be16, u8_setU16_lt v (show i < off by omega) hl, u8_setU16_lt v h hl]

theorem sub_setU16_ge {r : Bytes} {off : Nat} (v : Nat) (i m : Nat) (hl : off + 2 ≤ r.length) :
    sub (setU16 r off v) (off + 2 + i) m = sub r (off + 2 + i) m := by
  unfold setU16
  rw [sub_append_right _ (by simp [u16be]; omega) i m, sub_drop]

theorem sub_setU16_lt {r : Bytes} {off i m : Nat} (v : Nat) (h : i + m ≤ off) (hl : off ≤ r.length) :
    sub (setU16 r off v) i m = sub r i m := by
  unfold setU16
  rw [List.append_assoc, sub_append_left _ (by simp; omega), sub_take h]

end Masscanned
