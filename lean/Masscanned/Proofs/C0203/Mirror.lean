/-
  Proofs/Mirror — the mirror relation of C03 derived from the shape of a reply.
-/
import Masscanned.Proofs.C0203.Frame
import Masscanned.Spec.L4
namespace Masscanned
open Spec

theorem ipv4Payload_eq_window (p : Bytes) :
    ipv4Payload p =
      (p.take (min (20 + (u8 p 0 % 16 * 4 - 20) + (be16 p 2 - u8 p 0 % 16 * 4)) p.length)).drop
        (20 + (u8 p 0 % 16 * 4 - 20)) := by
  unfold ipv4Payload
  dsimp only
  by_cases h : p.length ≤ 20 + (at8 p 0 % 16 * 4 - 20)
  · rw [if_pos h]; symm
    apply List.eq_nil_of_length_eq_zero
    rw [window_length]; simp only [at8_eq_u8] at h; omega
  · rw [if_neg h]
    by_cases h2 : 4 ≤ p.length
    · rw [rdBE_slice2 (by omega)]; rfl
    · exfalso; omega

theorem ipv6Payload_eq_window (p : Bytes) :
    ipv6Payload p = (p.take (min (40 + be16 p 4) p.length)).drop 40 := by
  unfold ipv6Payload
  dsimp only
  by_cases h : p.length ≤ 40
  · rw [if_pos h]; symm
    apply List.eq_nil_of_length_eq_zero
    rw [window_length]; omega
  · rw [if_neg h, rdBE_slice2 (by omega)]

/-- the Spec's delimitation of the L3 payload (Spec/L4) is the model's -/
theorem l4Bytes_v4 {f : Bytes} (he : be16 f 12 = 0x0800) : l4Bytes f = ipv4Payload (f.drop 14) := by
  rw [ipv4Payload_eq_window]; simp [l4Bytes, he]

theorem l4Bytes_v6 {f : Bytes} (he : be16 f 12 = 0x86dd) : l4Bytes f = ipv6Payload (f.drop 14) := by
  rw [ipv6Payload_eq_window]; simp [l4Bytes, he]

/-- the application data of a TCP/UDP request frame -/
def reqAppData (f : Bytes) : Bytes :=
  if ipProto f = some 6 then tcpPayload (l4Bytes f) else (l4Bytes f).drop 8


theorem mirrors_intro {cfg : Cfg} {f r : Bytes} {k : Nat}
    (h1 : r.length ≥ 14) (h2 : sub r 6 6 = cfg.mac) (h3 : sub r 0 6 = sub f 6 6)
    (h4 : be16 r 12 = be16 f 12)
    (h5 : be16 f 12 ≠ 0x0806 →
      dstIp r = srcIp f ∧
      (match nsTarget f with
       | some t => srcIp r = some t
       | none => srcIp r = dstIp f) ∧
      ipProto r = ipProto f ∧
      (isTcpUdp f = true →
        be16 r (l4Off r + 2) = be16 f (l4Off f) ∧
        be16 r (l4Off r) = (be16 f (l4Off f + 2) + k) % 65536)) :
    mirrors cfg f r k = true := by
  unfold mirrors
  simp only [h1, h2, h3, h4, decide_true, Bool.true_and, Bool.and_true]
  by_cases he : be16 f 12 = 0x0806
  · simp [he]
  · obtain ⟨a, b, c, d⟩ := h5 he
    rw [if_neg he]
    simp only [Bool.and_eq_true, decide_eq_true_eq]
    refine ⟨⟨⟨a, ?_⟩, c⟩, ?_⟩
    · cases hn : nsTarget f with
      | none => rw [hn] at b; simpa using b
      | some t => rw [hn] at b; simpa using b
    · by_cases ht : isTcpUdp f = true
      · rw [if_pos ht]; simpa using d ht
      · rw [if_neg ht]

theorem mirrors_of_shape {cfg : Cfg} {f r : Bytes} (hm : cfg.mac.length = 6) (h : FrameShape cfg f r) :
    ∃ k, mirrors cfg f r k = true ∧
      (k = 0 ∨ (k = stunBumps (reqAppData f) ∧ isTcpUdp f = true ∧
        sub r (l4Off r + (if ipProto f = some 6 then 20 else 8)) 2 = [1, 1])) := by
  obtain ⟨hf, _, l3, rfl, hcase⟩ := h
  have hsm : (slice f 6 6).length = 6 := slice_length_of_le (by omega)
  have hety := be16_lt f 12
  have c1 : (slice f 6 6 ++ cfg.mac ++ u16be (be16 f 12) ++ l3).length ≥ 14 := by
    rw [eth_length hsm hm]; omega
  have c2 : sub (slice f 6 6 ++ cfg.mac ++ u16be (be16 f 12) ++ l3) 6 6 = cfg.mac := eth_src hsm hm
  have c3 : sub (slice f 6 6 ++ cfg.mac ++ u16be (be16 f 12) ++ l3) 0 6 = sub f 6 6 := eth_dst hsm
  have c4 : be16 (slice f 6 6 ++ cfg.mac ++ u16be (be16 f 12) ++ l3) 12 = be16 f 12 :=
    eth_type hsm hm hety
  rcases hcase with ⟨he, hl, hs, _⟩ | ⟨he, hl, hs, hd, l4, rfl, hp⟩ |
    ⟨he, hl, hd, from_, hlim, l4, rfl, hs, hp⟩
  · exact ⟨0, mirrors_intro c1 c2 c3 c4 (fun hne => absurd he hne), .inl rfl⟩
  · -- IPv4
    have hlen4 : ∀ i, i + 4 ≤ 20 → (slice (f.drop 14) i 4).length = 4 :=
      fun i hi => slice_length_of_le (by omega)
    obtain ⟨q1, q2, q3, q4, q5⟩ := req_v4 he hl
    obtain ⟨hty, r1, r2, r3, r4, r5, r6⟩ := reply_v4 (l4 := l4) (proto := at8 (f.drop 14) 9)
      (tl := 20 + l4.length) hsm hm (hlen4 16 (by omega)) (hlen4 12 (by omega)) (u8_lt _ _)
    have r50 := r5 0
    have r52 := r5 2
    have r620 := r6 20 2
    have r68 := r6 8 2
    rw [he] at c1 c2 c3 c4 ⊢
    generalize slice f 6 6 ++ cfg.mac ++ u16be 0x0800 ++ _ = r at *
    have c4' : be16 r 12 = be16 f 12 := c4.trans he.symm
    have base : ∀ k, (isTcpUdp f = true →
        be16 r (l4Off r + 2) = be16 f (l4Off f) ∧
        be16 r (l4Off r) = (be16 f (l4Off f + 2) + k) % 65536) → mirrors cfg f r k = true := by
      intro k hk
      refine mirrors_intro c1 c2 c3 c4' (fun _ => ⟨r2.trans q1.symm, ?_, r3.trans q3.symm, hk⟩)
      rw [q4]; exact r1.trans q2.symm
    have ports : ∀ {k : Nat}, 4 ≤ (ipv4Payload (f.drop 14)).length →
        be16 l4 2 = be16 (ipv4Payload (f.drop 14)) 0 →
        be16 l4 0 = (be16 (ipv4Payload (f.drop 14)) 2 + k) % 65536 →
        be16 r (l4Off r + 2) = be16 f (l4Off f) ∧
        be16 r (l4Off r) = (be16 f (l4Off f + 2) + k) % 65536 := by
      intro k hlen h1 h2
      rw [r4, q5, r52, h1, ipv4Payload_be16 (by omega), be16_drop]
      rw [Nat.add_zero] at r50
      rw [r50, h2, ipv4Payload_be16 (by omega), be16_drop]
      exact ⟨by simp, by simp [Nat.add_assoc]⟩
    rcases hp with hp | ⟨hp, hlen, k, h1, h2, h3⟩ | ⟨hp, hlen, k, h1, h2, h3⟩
    · refine ⟨0, base 0 (fun ht => ?_), .inl rfl⟩
      simp [isTcpUdp, q3, hp] at ht
    · refine ⟨k, base k (fun _ => ports (by omega) h1 h2), ?_⟩
      rcases h3 with h3 | ⟨h3, h4⟩
      · exact .inl h3
      · refine .inr ⟨?_, by simp [isTcpUdp, q3, hp], ?_⟩
        · rw [h3, reqAppData, q3, hp, if_pos rfl, l4Bytes_v4 he]
        · rw [r4, q3, hp, if_pos rfl, r620]; exact h4
    · refine ⟨k, base k (fun _ => ports (by omega) h1 h2), ?_⟩
      rcases h3 with h3 | ⟨h3, h4⟩
      · exact .inl h3
      · refine .inr ⟨?_, by simp [isTcpUdp, q3, hp], ?_⟩
        · rw [h3, reqAppData, q3, hp, if_neg (by simp), l4Bytes_v4 he]
        · rw [r4, q3, hp, if_neg (by simp), r68]; exact h4
  · -- IPv6
    have hsrc : (slice (f.drop 14) 8 16).length = 16 := slice_length_of_le (by omega)
    have hfrom : from_.length = 16 := by
      rcases hp with ⟨_, _, (⟨_, h24, rfl, _⟩ | ⟨_, rfl, _⟩)⟩ | ⟨_, rfl, _⟩ | ⟨_, rfl, _⟩
      all_goals exact slice_length_of_le (by omega)
    obtain ⟨q1, q2, q3, q5⟩ := req_v6 he hl
    obtain ⟨hty, r1, r2, r3, r4, _, _, r5, r6⟩ := reply_v6 (l4 := l4) (nh := at8 (f.drop 14) 6)
      (pl := l4.length) (hlim := hlim) hsm hm hfrom hsrc (u8_lt _ _)
    have r50 := r5 0
    have r52 := r5 2
    have r620 := r6 20 2
    have r68 := r6 8 2
    rw [he] at c1 c2 c3 c4 ⊢
    generalize slice f 6 6 ++ cfg.mac ++ u16be 0x86dd ++ _ = r at *
    have c4' : be16 r 12 = be16 f 12 := c4.trans he.symm
    have hflen : f.length = 14 + (f.drop 14).length := by simp; omega
    have hf20 : u8 f 20 = at8 (f.drop 14) 6 := by rw [at8_eq_u8, u8_drop]
    have base : ∀ k, (match nsTarget f with
          | some t => srcIp r = some t
          | none => srcIp r = dstIp f) →
        (isTcpUdp f = true →
          be16 r (l4Off r + 2) = be16 f (l4Off f) ∧
          be16 r (l4Off r) = (be16 f (l4Off f + 2) + k) % 65536) → mirrors cfg f r k = true :=
      fun k hn hk => mirrors_intro c1 c2 c3 c4' (fun _ => ⟨r2.trans q1.symm, hn, r3.trans q3.symm, hk⟩)
    have noNs : from_ = slice (f.drop 14) 24 16 → (u8 f 20 ≠ 58 ∨ u8 f 54 ≠ 135) →
        (match nsTarget f with
          | some t => srcIp r = some t
          | none => srcIp r = dstIp f) := by
      intro hfr hne
      have : nsTarget f = none := by
        unfold nsTarget; rw [if_neg]; rintro ⟨_, _, h1, h2⟩; omega
      rw [this, r1, q2, hfr]
    have ports : ∀ {k : Nat}, 4 ≤ (ipv6Payload (f.drop 14)).length →
        be16 l4 2 = be16 (ipv6Payload (f.drop 14)) 0 →
        be16 l4 0 = (be16 (ipv6Payload (f.drop 14)) 2 + k) % 65536 →
        be16 r (l4Off r + 2) = be16 f (l4Off f) ∧
        be16 r (l4Off r) = (be16 f (l4Off f + 2) + k) % 65536 := by
      intro k hlen h1 h2
      rw [r4, q5, r52, h1, ipv6Payload_be16 (by omega), be16_drop]
      rw [Nat.add_zero] at r50
      rw [r50, h2, ipv6Payload_be16 (by omega), be16_drop]
      exact ⟨rfl, rfl⟩
    rcases hp with ⟨hp, hlen, (⟨h135, h24, hfr, _⟩ | ⟨h128, hfr, _⟩)⟩ | ⟨hp, hfr, hlen, k, h1, h2, h3⟩ |
      ⟨hp, hfr, hlen, k, h1, h2, h3⟩
    · -- Neighbour Solicitation: sourced from the solicited target
      refine ⟨0, base 0 ?_ (fun ht => ?_), .inl rfl⟩
      · have hl78 : f.length ≥ 78 := by
          rcases ipv6Payload_length_le (f.drop 14) with h | h <;> omega
        have h54 : u8 f 54 = 135 := by
          rw [← h135, ipv6Payload_u8 (by omega), u8_drop]
        have h62 : sub f 62 16 = from_ := by
          rw [hfr, slice_eq_sub, ipv6Payload_sub (by omega) (by omega), sub_drop]
        have : nsTarget f = some (.v6 from_) := by
          unfold nsTarget; rw [if_pos ⟨he, hl78, by omega, h54⟩, h62]
        rw [this]; exact r1
      · simp [isTcpUdp, q3, hp] at ht
    · refine ⟨0, base 0 (noNs hfr (.inr ?_)) (fun ht => ?_), .inl rfl⟩
      · have : u8 f 54 = 128 := by rw [← h128, ipv6Payload_u8 (by omega), u8_drop]
        omega
      · simp [isTcpUdp, q3, hp] at ht
    · refine ⟨k, base k (noNs hfr (.inl (by omega))) (fun _ => ports (by omega) h1 h2), ?_⟩
      rcases h3 with h3 | ⟨h3, h4⟩
      · exact .inl h3
      · refine .inr ⟨?_, by simp [isTcpUdp, q3, hp], ?_⟩
        · rw [h3, reqAppData, q3, hp, if_pos rfl, l4Bytes_v6 he]
        · rw [r4, q3, hp, if_pos rfl, r620]; exact h4
    · refine ⟨k, base k (noNs hfr (.inl (by omega))) (fun _ => ports (by omega) h1 h2), ?_⟩
      rcases h3 with h3 | ⟨h3, h4⟩
      · exact .inl h3
      · refine .inr ⟨?_, by simp [isTcpUdp, q3, hp], ?_⟩
        · rw [h3, reqAppData, q3, hp, if_neg (by simp), l4Bytes_v6 he]
        · rw [r4, q3, hp, if_neg (by simp), r68]; exact h4
end Masscanned
