/-
  Proofs/Net — "shape of each layer's output" lemmas for Model/Net and Model/Dispatch:
  what a reply produced by a layer looks like and which guards were passed to get it.
  Used by Thm/C02 (silence outside scope, replies in scope) and Thm/C03 (replies mirror).
-/
import Masscanned.Proofs.C0203.Bytes
import Masscanned.Model.Net
namespace Masscanned
open Spec

/-- split every `match`/`if` of hypothesis `h`, zeta-reducing `have`/`let` binders on the way -/
macro "split_all " h:ident : tactic =>
  `(tactic| repeat' first | split at $h:ident | (dsimp only at $h:ident))

/-! ### application layer: who may touch the ports (Model/Dispatch, Model/Stun) -/

/-- number of CHANGE-REQUEST attributes with the change-port flag in an application payload
    (`bumps` of `stunRepl`); 0 if the payload is not a parsable STUN message -/
def stunBumps (d : Bytes) : Nat :=
  match stunParse d with
  | .ok (some req) => (req.attrs.filter (fun a => a = .changeRequest true)).length
  | _ => 0

/-- the only thing a protocol handler does to the client info: nothing, or (STUN Binding Success,
    reply starting with `01 01`) add `stunBumps d` to the destination port, mod 2^16 -/
def PortRule (ci ci' : ClientInfo) (r : Option Bytes) (d : Bytes) : Prop :=
  ci' = ci ∨
  (ci' = { ci with portDst := ci.portDst.map (fun p => (p + stunBumps d) % 65536) } ∧
   ∃ t, r = some (1 :: 1 :: t))

theorem PortRule.refl (ci : ClientInfo) (r : Option Bytes) (d : Bytes) : PortRule ci ci r d := Or.inl rfl

theorem stunRepl_shape {ci ci' : ClientInfo} {d : Bytes} {r : Option Bytes}
    (h : stunRepl ci d = .ok (ci', r)) : PortRule ci ci' r d := by
  unfold stunRepl at h
  split at h
  · cases h
  · cases h; exact .inl rfl
  · rename_i req hp
    split at h
    · cases h; exact .inl rfl
    · split at h
      · cases h; exact .inl rfl
      · split at h
        · cases h
          refine .inr ⟨?_, _, rfl⟩
          simp [stunBumps, hp]
        · cases h; exact .inl rfl

theorem protoHandle_shape {cfg : Cfg} {env : Env} {id : Nat} {ci ci' : ClientInfo} {tcb tcb' : Option Tcb}
    {d : Bytes} {r : Option Bytes}
    (h : protoHandle cfg env id ci tcb d = .ok (ci', tcb', r)) : PortRule ci ci' r d := by
  unfold protoHandle at h
  split_all h
  all_goals first
    | (cases h; done)
    | (cases h; exact PortRule.refl _ _ _)
    | (cases h; exact stunRepl_shape (by assumption))

theorem protoRepl_shape {cfg : Cfg} {env : Env} {ci ci' : ClientInfo} {tcb tcb' : Option Tcb}
    {d : Bytes} {r : Option Bytes}
    (h : protoRepl cfg env ci tcb d = .ok (ci', tcb', r)) : PortRule ci ci' r d := by
  unfold protoRepl at h
  split_all h
  all_goals first
    | (cases h; done)
    | (cases h; exact PortRule.refl _ _ _)
    | exact protoHandle_shape h


/-! ### transport layer: ports of a TCP/UDP reply -/

/-- ports of the reply segment `l4` (header length `hl`) w.r.t. the request segment `q`:
    swapped, with the source port shifted by `k`, where `k = 0` or (`k = b` and the reply payload
    starts with `01 01`) -/
def L4Mirror (hl : Nat) (q l4 : Bytes) (b : Nat) : Prop :=
  ∃ k, be16 l4 2 = be16 q 0 ∧ be16 l4 0 = (be16 q 2 + k) % 65536 ∧
       (k = 0 ∨ (k = b ∧ sub l4 hl 2 = [1, 1]))

/-- a transport header that starts with the two port fields -/
theorem l4Mirror_of_ports {hl : Nat} {q : Bytes} {ci0 ci' : ClientInfo} {ro : Option Bytes} {d : Bytes}
    (hq : 4 ≤ q.length)
    (hs : ci0.portSrc = some (rdBE (slice q 0 2))) (hd : ci0.portDst = some (rdBE (slice q 2 2)))
    (hp : PortRule ci0 ci' ro d) (tail body : Bytes) (htl : tail.length + 4 = hl)
    (hb : ∀ t, ro = some (1 :: 1 :: t) → ∃ t', body = 1 :: 1 :: t') :
    L4Mirror hl q (u16be (ci'.portDst.getD 0) ++ u16be (ci'.portSrc.getD 0) ++ tail ++ body)
      (stunBumps d) := by
  rw [rdBE_slice2 (by omega)] at hs hd
  have hsrc : ∀ x y, be16 (u16be x ++ u16be y ++ tail ++ body) 2 = y % 65536 := by
    intro x y
    rw [List.append_assoc, List.append_assoc]
    have := be16_append_right (u16be y ++ (tail ++ body)) (u16be_length x) 0
    simp only [Nat.add_zero] at this
    rw [this, be16_u16be]
  have hdst : ∀ x y, be16 (u16be x ++ u16be y ++ tail ++ body) 0 = x % 65536 := by
    intro x y
    rw [List.append_assoc, List.append_assoc, be16_u16be]
  have h1 := be16_lt q 0
  have h2 := be16_lt q 2
  rcases hp with rfl | ⟨rfl, t, rfl⟩
  · refine ⟨0, ?_, ?_, .inl rfl⟩
    · rw [hsrc, hs]; simp; omega
    · rw [hdst, hd]; simp
  · refine ⟨stunBumps d, ?_, ?_, .inr ⟨rfl, ?_⟩⟩
    · rw [hsrc]; simp [hs]; omega
    · rw [hdst]; simp [hd]
    · obtain ⟨t', rfl⟩ := hb t rfl
      have hl' : (u16be ((ci0.portDst.map fun p => (p + stunBumps d) % 65536).getD 0) ++
          u16be (ci0.portSrc.getD 0) ++ tail).length = hl := by simp [u16be_length]; omega
      have := sub_append_right (1 :: 1 :: t') hl' 0 2
      simp only [Nat.add_zero] at this
      simp only [] at *
      rw [this]; rfl

theorem udpRepl_shape {cfg : Cfg} {env : Env} {ci ci' : ClientInfo} {p r : Bytes} {evs : List Ev}
    (hp : 8 ≤ p.length)
    (h : udpRepl cfg env ci p = .ok (evs, ci', some r)) :
    L4Mirror 8 p r (stunBumps (p.drop 8)) ∧ 8 ≤ r.length := by
  unfold udpRepl at h
  split_all h
  · cases h
  · cases h
  · rename_i ci1 _ r0 hpr
    cases h
    have hpr' := protoRepl_shape hpr
    constructor
    · have := l4Mirror_of_ports (hl := 8) (q := p) (by omega) rfl rfl hpr'
        (u16be ((8 + r0.length) % 65536) ++ [0, 0]) r0 (by simp [u16be_length])
        (by intro t ht; cases ht; exact ⟨_, rfl⟩)
      simpa [List.append_assoc] using this
    · simp [u16be_length]; omega

theorem tcp_finish_shape {q : Bytes} {ci0 ci' : ClientInfo} {ro : Option Bytes} {d : Bytes}
    (hq : 20 ≤ q.length)
    (hs : ci0.portSrc = some (rdBE (slice q 0 2))) (hd : ci0.portDst = some (rdBE (slice q 2 2)))
    (hp : PortRule ci0 ci' ro d) (seq ack flags : Nat) (body : Bytes)
    (hb : ∀ t, ro = some (1 :: 1 :: t) → ∃ t', body = 1 :: 1 :: t') :
    L4Mirror 20 q (tcpHdr (ci'.portDst.getD 0) (ci'.portSrc.getD 0) seq ack flags ++ body) (stunBumps d) ∧
    20 ≤ (tcpHdr (ci'.portDst.getD 0) (ci'.portSrc.getD 0) seq ack flags ++ body).length := by
  constructor
  · have := l4Mirror_of_ports (hl := 20) (q := q) (by omega) hs hd hp
      (u32be seq ++ u32be ack ++ [byte (0x50 + flags / 256 % 2), byte flags] ++ [255, 255, 0, 0, 0, 0]) body
      (by simp [u32be]) hb
    simpa [tcpHdr, List.append_assoc] using this
  · simp [tcpHdr, u16be, u32be]

theorem tcpRepl_shape {cfg : Cfg} {env : Env} {st st' : Table} {ci ci' : ClientInfo} {p r : Bytes}
    {evs : List Ev} (hp : 20 ≤ p.length)
    (h : tcpRepl cfg env st ci p = .ok (evs, ci', st', some r)) :
    L4Mirror 20 p r (stunBumps (tcpPayload p)) ∧ 20 ≤ r.length := by
  unfold tcpRepl at h
  extract_lets sport dport seq ack flags ci0 rcv ck finish ackno ci1 data at h
  clear_value ck
  split_all h
  all_goals try dsimp only [finish] at h
  all_goals simp only [Except.ok.injEq, Prod.mk.injEq, Option.some.injEq, reduceCtorEq, and_false] at h
  all_goals obtain ⟨rfl, rfl, rfl, rfl⟩ := h
  all_goals first
    | exact tcp_finish_shape hp rfl rfl (protoRepl_shape (by assumption)) _ _ _ _
         (by intro t ht; first | (cases ht; exact ⟨_, rfl⟩) | cases ht)
    | exact tcp_finish_shape hp rfl rfl (PortRule.refl _ none (tcpPayload p)) _ _ _ _
         (by intro t ht; cases ht)

theorem L4Mirror.setU16 {hl : Nat} {q l4 : Bytes} {b : Nat} (h : L4Mirror hl q l4 b) (off v : Nat)
    (h4 : 4 ≤ off) (hoff : off + 2 ≤ hl) (hlen : hl ≤ l4.length) :
    L4Mirror hl q (setU16 l4 off v) b := by
  obtain ⟨k, h1, h2, h3⟩ := h
  refine ⟨k, ?_, ?_, ?_⟩
  · rw [be16_setU16_lt v (by omega) (by omega)]; exact h1
  · rw [be16_setU16_lt v (by omega) (by omega)]; exact h2
  · rcases h3 with h3 | ⟨h3, h4'⟩
    · exact .inl h3
    · refine .inr ⟨h3, ?_⟩
      have := sub_setU16_ge (r := l4) (off := off) v (hl - (off + 2)) 2 (by omega)
      rw [show off + 2 + (hl - (off + 2)) = hl by omega] at this
      rw [this]; exact h4'

/-! ### ARP, ICMPv6 -/

theorem arpRepl_shape {cfg : Cfg} {p r : Bytes} {evs : List Ev} (h : arpRepl cfg p = (evs, some r)) :
    cfg.isSelf (.v4 (slice p 24 4)) = true ∧
    r = [0, 1] ++ slice p 2 4 ++ [0, 2] ++ cfg.mac ++ slice p 24 4 ++ slice p 8 6 ++ slice p 14 4 ++ p.drop 28 := by
  unfold arpRepl at h
  split_all h
  all_goals simp only [Prod.mk.injEq, Option.some.injEq, reduceCtorEq, and_false] at h
  obtain ⟨_, rfl⟩ := h
  exact ⟨by simpa using ‹¬(!cfg.isSelf _) = true›, rfl⟩

/-- the two ICMPv6 answers: Neighbour Advertisement for a handled target, echo reply -/
theorem icmp6Repl_shape {cfg : Cfg} {ci : ClientInfo} {p r : Bytes} {tgt : Option Bytes} {evs : List Ev}
    (h : icmp6Repl cfg ci p = (evs, some (r, tgt))) :
    (u8 p 0 = 135 ∧ 24 ≤ p.length ∧ tgt = some (slice p 8 16) ∧ cfg.isSelf (.v6 (slice p 8 16)) = true ∧
      r = [136, 0, 0, 0, 0x60, 0, 0, 0] ++ slice p 8 16 ++ [2, 1] ++ cfg.mac) ∨
    (u8 p 0 = 128 ∧ tgt = none ∧ (∀ d, ci.ipDst = some d → cfg.isSelf d = true) ∧
      r = [129, 0, 0, 0] ++ p.drop 4) := by
  unfold icmp6Repl at h
  split_all h
  all_goals simp only [Prod.mk.injEq, Option.some.injEq, reduceCtorEq, and_false] at h
  all_goals obtain ⟨_, rfl, rfl⟩ := h
  all_goals first
    | exact .inl ⟨by assumption, by omega, rfl, by simpa using ‹¬(!cfg.isSelf _) = true›, rfl⟩
    | (refine .inr ⟨by assumption, rfl, ?_, rfl⟩
       intro d hd
       simp_all)

/-! ### network layer -/

/-- what an IPv4 reply looks like, and the guards passed on the way -/
def V4Shape (cfg : Cfg) (p r : Bytes) : Prop :=
  cfg.isSelf (.v4 (slice p 16 4)) = true ∧ cfg.isDenied (.v4 (slice p 12 4)) = false ∧
  ∃ l4, r = ipv4Hdr (slice p 16 4) (slice p 12 4) (at8 p 9) (20 + l4.length) ++ l4 ∧
   (at8 p 9 = 1 ∨
    (at8 p 9 = 6 ∧ 20 ≤ (ipv4Payload p).length ∧
      L4Mirror 20 (ipv4Payload p) l4 (stunBumps (tcpPayload (ipv4Payload p)))) ∨
    (at8 p 9 = 17 ∧ 8 ≤ (ipv4Payload p).length ∧
      L4Mirror 8 (ipv4Payload p) l4 (stunBumps ((ipv4Payload p).drop 8))))

theorem ipv4Repl_shape {cfg : Cfg} {env : Env} {st st' : Table} {ci ci' : ClientInfo} {p r : Bytes}
    {evs : List Ev} (h : ipv4Repl cfg env st ci p = .ok (evs, ci', st', some r)) : V4Shape cfg p r := by
  unfold ipv4Repl at h
  extract_lets src dst proto ci0 rcv ci1 pl wrap drop at h
  split at h
  · simp at h
  split at h
  · simp at h
  rename_i hself hden
  refine ⟨by simpa using hself, by simpa using hden, ?_⟩
  split_all h
  all_goals try dsimp only [wrap, drop] at h
  all_goals try split at h
  all_goals simp only [Except.ok.injEq, Prod.mk.injEq, Option.some.injEq, reduceCtorEq, and_false] at h
  all_goals obtain ⟨_, _, _, rfl⟩ := h
  · exact ⟨_, rfl, .inl (by assumption)⟩
  · have hlen : ¬ pl.length < 20 := by assumption
    have := tcpRepl_shape (p := pl) (by omega) (by assumption)
    refine ⟨_, rfl, .inr (.inl ⟨by assumption, (by show 20 ≤ pl.length; omega), ?_⟩)⟩
    exact this.1.setU16 16 _ (by omega) (by omega) this.2
  · have hlen : ¬ pl.length < 8 := by assumption
    have := udpRepl_shape (p := pl) (by omega) (by assumption)
    refine ⟨_, rfl, .inr (.inr ⟨by assumption, (by show 8 ≤ pl.length; omega), ?_⟩)⟩
    exact this.1.setU16 6 _ (by omega) (by omega) this.2

/-- what an IPv6 reply looks like, and the guards passed on the way (`p` = the request's L3 bytes) -/
def V6Shape (cfg : Cfg) (p r : Bytes) : Prop :=
  cfg.isDenied (.v6 (slice p 8 16)) = false ∧
  ∃ from_ hlim l4, r = ipv6Hdr from_ (slice p 8 16) (at8 p 6) l4.length hlim ++ l4 ∧
    cfg.isSelf (.v6 from_) = true ∧
    ((at8 p 6 = 58 ∧ 4 ≤ (ipv6Payload p).length ∧
       ((u8 (ipv6Payload p) 0 = 135 ∧ 24 ≤ (ipv6Payload p).length ∧ from_ = slice (ipv6Payload p) 8 16 ∧
          u8 l4 0 = 136 ∧ sub l4 8 16 = from_) ∨
        (u8 (ipv6Payload p) 0 = 128 ∧ from_ = slice p 24 16 ∧ u8 l4 0 = 129))) ∨
     (at8 p 6 = 6 ∧ from_ = slice p 24 16 ∧ 20 ≤ (ipv6Payload p).length ∧
        L4Mirror 20 (ipv6Payload p) l4 (stunBumps (tcpPayload (ipv6Payload p)))) ∨
     (at8 p 6 = 17 ∧ from_ = slice p 24 16 ∧ 8 ≤ (ipv6Payload p).length ∧
        L4Mirror 8 (ipv6Payload p) l4 (stunBumps ((ipv6Payload p).drop 8))))

theorem icmp6_l4_shape {cfg : Cfg} {ci : ClientInfo} {pl r0 dst : Bytes} {tgt : Option Bytes} {evs : List Ev}
    (hdst : ci.ipDst = some (.v6 dst)) (h : icmp6Repl cfg ci pl = (evs, some (r0, tgt))) (c : Nat) :
    cfg.isSelf (.v6 (tgt.getD dst)) = true ∧
    ((u8 pl 0 = 135 ∧ 24 ≤ pl.length ∧ tgt.getD dst = slice pl 8 16 ∧ u8 (setU16 r0 2 c) 0 = 136 ∧
        sub (setU16 r0 2 c) 8 16 = tgt.getD dst) ∨
     (u8 pl 0 = 128 ∧ tgt.getD dst = dst ∧ u8 (setU16 r0 2 c) 0 = 129)) := by
  rcases icmp6Repl_shape h with ⟨h1, h2, rfl, h4, rfl⟩ | ⟨h1, rfl, h3, rfl⟩
  · refine ⟨h4, .inl ⟨h1, h2, rfl, ?_, ?_⟩⟩
    · rw [u8_setU16_lt c (by omega) (by simp)]; rfl
    · have hl : (slice pl 8 16).length = 16 := slice_length_of_le (by omega)
      have := sub_setU16_ge (r := [136, 0, 0, 0, 0x60, 0, 0, 0] ++ slice pl 8 16 ++ [2, 1] ++ cfg.mac)
        (off := 2) c 4 16 (by simp)
      rw [this, List.append_assoc]
      exact sub_append_exact _ _ rfl hl
  · refine ⟨h3 _ hdst, .inr ⟨h1, rfl, ?_⟩⟩
    rw [u8_setU16_lt c (by omega) (by simp)]; rfl

theorem ipv6Repl_shape {cfg : Cfg} {env : Env} {st st' : Table} {ci ci' : ClientInfo} {p r : Bytes}
    {evs : List Ev} (h : ipv6Repl cfg env st ci p = .ok (evs, ci', st', some r)) : V6Shape cfg p r := by
  unfold ipv6Repl at h
  extract_lets src dst nh ci0 rcv ci1 pl wrap drop at h
  split at h
  · simp at h
  split at h
  · simp at h
  rename_i hself hden
  refine ⟨by simpa using hden, ?_⟩
  split_all h
  all_goals try dsimp only [wrap, drop] at h
  all_goals try split at h
  all_goals simp only [Except.ok.injEq, Prod.mk.injEq, Option.some.injEq, reduceCtorEq, and_false] at h
  all_goals obtain ⟨_, _, _, rfl⟩ := h
  all_goals first
    | (have hlen : ¬ pl.length < 4 := by assumption
       have hnh : nh = 58 := by assumption
       rename_i heq _ _ _ _ _
       have := fun c => icmp6_l4_shape (ci := ci1) (dst := dst) rfl heq c
       exact ⟨_, _, _, rfl, (this 0).1, .inl ⟨hnh, (by show 4 ≤ pl.length; omega), (this _).2⟩⟩)
    | (have hlen : ¬ pl.length < 20 := by assumption
       have := tcpRepl_shape (p := pl) (by omega) (by assumption)
       have hnh : nh = 6 := by assumption
       refine ⟨_, _, _, rfl, ?_, .inr (.inl ⟨hnh, rfl, (by show 20 ≤ pl.length; omega), ?_⟩)⟩
       · rw [hnh] at hself; simpa using hself
       · exact this.1.setU16 16 _ (by omega) (by omega) this.2)
    | (have hlen : ¬ pl.length < 8 := by assumption
       have := udpRepl_shape (p := pl) (by omega) (by assumption)
       have hnh : nh = 17 := by assumption
       refine ⟨_, _, _, rfl, ?_, .inr (.inr ⟨hnh, rfl, (by show 8 ≤ pl.length; omega), ?_⟩)⟩
       · rw [hnh] at hself; simpa using hself
       · exact this.1.setU16 6 _ (by omega) (by omega) this.2)

/-! ### Ethernet layer and `step` -/

def ArpShape (cfg : Cfg) (p r : Bytes) : Prop :=
  cfg.isSelf (.v4 (slice p 24 4)) = true ∧
  r = [0, 1] ++ slice p 2 4 ++ [0, 2] ++ cfg.mac ++ slice p 24 4 ++ slice p 8 6 ++ slice p 14 4 ++ p.drop 28

/-- everything the C02/C03 proofs need to know about a frame that got a reply -/
def FrameShape (cfg : Cfg) (f r : Bytes) : Prop :=
  14 ≤ f.length ∧ (authMacs cfg).contains (slice f 0 6) = true ∧
  ∃ l3, r = slice f 6 6 ++ cfg.mac ++ u16be (be16 f 12) ++ l3 ∧
   ((be16 f 12 = 0x0806 ∧ 28 ≤ (f.drop 14).length ∧ ArpShape cfg (f.drop 14) l3) ∨
    (be16 f 12 = 0x0800 ∧ 20 ≤ (f.drop 14).length ∧ V4Shape cfg (f.drop 14) l3) ∨
    (be16 f 12 = 0x86dd ∧ 40 ≤ (f.drop 14).length ∧ V6Shape cfg (f.drop 14) l3))

theorem ethRepl_shape {cfg : Cfg} {env : Env} {st st' : Table} {f r : Bytes} {evs : List Ev}
    (hf : 14 ≤ f.length) (h : ethRepl cfg env st f = .ok (evs, st', some r)) : FrameShape cfg f r := by
  unfold ethRepl at h
  extract_lets dstM srcM ety ci rcv pl wrap drop at h
  have hety : ety = be16 f 12 := rdBE_slice2 (by omega)
  split at h
  · simp [drop] at h
  rename_i hauth
  refine ⟨hf, by simpa using hauth, ?_⟩
  split_all h
  all_goals try dsimp only [wrap, drop] at h
  all_goals simp only [Except.ok.injEq, Prod.mk.injEq, Option.some.injEq, reduceCtorEq, and_false] at h
  all_goals obtain ⟨_, _, rfl⟩ := h
  all_goals refine ⟨_, by rw [← hety], ?_⟩
  · have hlen : ¬ pl.length < 28 := by assumption
    have he : ety = 0x0806 := by assumption
    exact .inl ⟨by rw [← hety]; exact he, (by show 28 ≤ pl.length; omega), arpRepl_shape (by assumption)⟩
  · have hlen : ¬ pl.length < 20 := by assumption
    have he : ety = 0x0800 := by assumption
    exact .inr (.inl ⟨by rw [← hety]; exact he, (by show 20 ≤ pl.length; omega), ipv4Repl_shape (by assumption)⟩)
  · have hlen : ¬ pl.length < 40 := by assumption
    have he : ety = 0x86dd := by assumption
    exact .inr (.inr ⟨by rw [← hety]; exact he, (by show 40 ≤ pl.length; omega), ipv6Repl_shape (by assumption)⟩)

theorem step_shape {cfg : Cfg} {env : Env} {st : Table} {f r : Bytes}
    (h : (step cfg env st f).out = .ok (some r)) : FrameShape cfg f r := by
  unfold step at h
  split at h
  · simp at h
  · split at h
    · simp at h
    · simp only [Except.ok.injEq] at h
      subst h
      exact ethRepl_shape (by omega) (by assumption)

/-! ### authorised destination MACs -/

theorem byte_mod128 (n : Nat) : byte (n % 128) = UInt8.ofNat (n % 128) := by
  unfold byte; rw [Nat.mod_eq_of_lt (by omega)]

/-- the model's list of accepted destination MACs is the spec's `authMac` predicate -/
theorem authMacs_contains (cfg : Cfg) (m : Bytes) : (authMacs cfg).contains m = authMac cfg m := by
  rw [Bool.eq_iff_iff]
  unfold authMacs authMac
  cases cfg.selfIps with
  | none => simp; grind
  | some l =>
    simp only [List.contains_append, List.contains_map, Bool.or_eq_true, List.any_eq_true,
      List.contains_cons, List.contains_nil, beq_iff_eq, Bool.or_false, decide_eq_true_eq]
    constructor
    · rintro (h | ⟨ip, hip, h⟩)
      · grind
      · refine .inr ⟨ip, hip, ?_⟩
        cases ip <;> simpa [at8_eq_u8, byte_u8, byte_mod128] using h
    · rintro (h | ⟨ip, hip, h⟩)
      · grind
      · refine .inr ⟨ip, hip, ?_⟩
        cases ip <;> simpa [at8_eq_u8, byte_u8, byte_mod128] using h
end Masscanned
