/-
  Proofs/Frame — byte-offset facts about emitted frames (Ethernet header, reply IP headers) and
  about the request's L3 payload window, phrased with the Spec readers of Spec/Wire.
-/
import Masscanned.Proofs.C0203.Net
namespace Masscanned
open Spec

/-! ### reply frame = Ethernet header ++ L3 -/

section eth
variable {sm mac l3 : Bytes} {e : Nat}

theorem ethHdr_length (h1 : sm.length = 6) (h2 : mac.length = 6) : (sm ++ mac ++ u16be e).length = 14 := by
  simp [h1, h2, u16be_length]

theorem eth_dst (h1 : sm.length = 6) : sub (sm ++ mac ++ u16be e ++ l3) 0 6 = sm := by
  rw [List.append_assoc, List.append_assoc]
  have := sub_append_exact (a := []) sm (mac ++ (u16be e ++ l3)) rfl h1
  simpa using this

theorem eth_src (h1 : sm.length = 6) (h2 : mac.length = 6) : sub (sm ++ mac ++ u16be e ++ l3) 6 6 = mac := by
  rw [List.append_assoc]
  exact sub_append_exact mac (u16be e ++ l3) h1 h2

theorem eth_type (h1 : sm.length = 6) (h2 : mac.length = 6) (he : e < 65536) :
    be16 (sm ++ mac ++ u16be e ++ l3) 12 = e := by
  rw [List.append_assoc]
  have := be16_append_right (u16be e ++ l3) (show (sm ++ mac).length = 12 by simp [h1, h2]) 0
  simp only [Nat.add_zero] at this
  rw [this, be16_u16be]; omega

theorem eth_u8 (h1 : sm.length = 6) (h2 : mac.length = 6) (i : Nat) :
    u8 (sm ++ mac ++ u16be e ++ l3) (14 + i) = u8 l3 i := u8_append_right l3 (ethHdr_length h1 h2) i

theorem eth_be16 (h1 : sm.length = 6) (h2 : mac.length = 6) (i : Nat) :
    be16 (sm ++ mac ++ u16be e ++ l3) (14 + i) = be16 l3 i := be16_append_right l3 (ethHdr_length h1 h2) i

theorem eth_sub (h1 : sm.length = 6) (h2 : mac.length = 6) (i n : Nat) :
    sub (sm ++ mac ++ u16be e ++ l3) (14 + i) n = sub l3 i n := sub_append_right l3 (ethHdr_length h1 h2) i n

theorem eth_length (h1 : sm.length = 6) (h2 : mac.length = 6) :
    (sm ++ mac ++ u16be e ++ l3).length = 14 + l3.length := by
  rw [List.length_append, ethHdr_length h1 h2]
end eth

/-! ### reply IP headers -/

theorem ipv4Hdr_length {s d : Bytes} (proto tl : Nat) (hs : s.length = 4) (hd : d.length = 4) :
    (ipv4Hdr s d proto tl).length = 20 := by
  unfold ipv4Hdr
  rw [setU16_length] <;> simp [hs, hd, u16be_length]

theorem ipv4Hdr_u8_lt {s d : Bytes} (proto tl : Nat) (l4 : Bytes) {i : Nat} (hi : i < 10) :
    u8 (ipv4Hdr s d proto tl ++ l4) i =
      u8 ([0x45, 0] ++ u16be (tl % 65536) ++ [0, 0, 0x40, 0, 64, byte proto, 0, 0]) i := by
  unfold ipv4Hdr
  dsimp only
  rw [u8_append_left _ (by simp [setU16, u16be_length]; omega), u8_setU16_lt _ hi (by simp [u16be_length]; omega),
    List.append_assoc, u8_append_left _ (by simp [u16be_length]; omega)]

theorem ipv4Hdr_src {s d : Bytes} (proto tl : Nat) (l4 : Bytes) (hs : s.length = 4) (hd : d.length = 4) :
    sub (ipv4Hdr s d proto tl ++ l4) 12 4 = s := by
  rw [sub_append_left _ (by rw [ipv4Hdr_length _ _ hs hd]; omega)]
  unfold ipv4Hdr
  dsimp only
  rw [sub_setU16_ge (off := 10) _ 0 4 (by simp [u16be_length]; omega)]
  exact sub_append_exact s d (by simp [u16be_length]) hs

theorem ipv4Hdr_dst {s d : Bytes} (proto tl : Nat) (l4 : Bytes) (hs : s.length = 4) (hd : d.length = 4) :
    sub (ipv4Hdr s d proto tl ++ l4) 16 4 = d := by
  rw [sub_append_left _ (by rw [ipv4Hdr_length _ _ hs hd]; omega)]
  unfold ipv4Hdr
  dsimp only
  rw [sub_setU16_ge (off := 10) _ 4 4 (by simp [u16be_length]; omega)]
  have := sub_append_exact (a := [0x45, 0] ++ u16be (tl % 65536) ++ [0, 0, 0x40, 0, 64, byte proto, 0, 0] ++ s)
    d [] (n := 16) (by simp [u16be_length, hs]) hd
  simpa using this

theorem ipv6Hdr_length {s d : Bytes} (nh pl hlim : Nat) (hs : s.length = 16) (hd : d.length = 16) :
    (ipv6Hdr s d nh pl hlim).length = 40 := by
  simp [ipv6Hdr, u16be_length, hs, hd]

theorem ipv6Hdr_nh {s d : Bytes} (nh pl hlim : Nat) (l4 : Bytes) :
    u8 (ipv6Hdr s d nh pl hlim ++ l4) 6 = nh % 256 := by
  simp [ipv6Hdr, u8, u16be, byte_toNat]

theorem ipv6Hdr_src {s d : Bytes} (nh pl hlim : Nat) (l4 : Bytes) (hs : s.length = 16) :
    sub (ipv6Hdr s d nh pl hlim ++ l4) 8 16 = s := by
  unfold ipv6Hdr
  rw [List.append_assoc]
  exact sub_append_exact s (d ++ l4) (by simp [u16be_length]) hs

theorem ipv6Hdr_dst {s d : Bytes} (nh pl hlim : Nat) (l4 : Bytes) (hs : s.length = 16) (hd : d.length = 16) :
    sub (ipv6Hdr s d nh pl hlim ++ l4) 24 16 = d := by
  unfold ipv6Hdr
  exact sub_append_exact d l4 (by simp [u16be_length, hs]) hd


/-! ### the request's L3 payload window -/

theorem window_length (p : Bytes) (start stop : Nat) :
    ((p.take stop).drop start).length = min stop p.length - start := by simp

theorem u8_window {p : Bytes} {start stop i : Nat} (h : i < ((p.take stop).drop start).length) :
    u8 ((p.take stop).drop start) i = u8 p (start + i) := by
  rw [window_length] at h
  rw [u8_drop, u8_take (by omega)]

theorem be16_window {p : Bytes} {start stop i : Nat} (h : i + 1 < ((p.take stop).drop start).length) :
    be16 ((p.take stop).drop start) i = be16 p (start + i) := by
  rw [window_length] at h
  rw [be16_drop, be16_take (by omega)]

theorem sub_window {p : Bytes} {start stop i n : Nat} (h : i + n ≤ ((p.take stop).drop start).length) :
    sub ((p.take stop).drop start) i n = sub p (start + i) n := by
  rw [window_length] at h
  rw [sub_drop]
  by_cases hn : n = 0
  · subst hn; simp [sub]
  · rw [sub_take (by omega)]

theorem ipv4Payload_be16 {p : Bytes} {i : Nat} (h : i + 1 < (ipv4Payload p).length) :
    be16 (ipv4Payload p) i = be16 p (20 + (u8 p 0 % 16 * 4 - 20) + i) := by
  unfold ipv4Payload at h ⊢
  dsimp only at h ⊢
  split at h
  · simp at h
  · rename_i hlen
    rw [if_neg hlen]
    exact be16_window h

theorem ipv6Payload_u8 {p : Bytes} {i : Nat} (h : i < (ipv6Payload p).length) :
    u8 (ipv6Payload p) i = u8 p (40 + i) := by
  unfold ipv6Payload at h ⊢
  dsimp only at h ⊢
  split at h
  · simp at h
  · rename_i hlen
    rw [if_neg hlen]
    exact u8_window h

theorem ipv6Payload_be16 {p : Bytes} {i : Nat} (h : i + 1 < (ipv6Payload p).length) :
    be16 (ipv6Payload p) i = be16 p (40 + i) := by
  unfold ipv6Payload at h ⊢
  dsimp only at h ⊢
  split at h
  · simp at h
  · rename_i hlen
    rw [if_neg hlen]
    exact be16_window h

theorem ipv6Payload_sub {p : Bytes} {i n : Nat} (h : i + n ≤ (ipv6Payload p).length) (hn : 0 < n) :
    sub (ipv6Payload p) i n = sub p (40 + i) n := by
  unfold ipv6Payload at h ⊢
  dsimp only at h ⊢
  split at h
  · simp at h; omega
  · rename_i hlen
    rw [if_neg hlen]
    exact sub_window h

theorem ipv6Payload_length_le (p : Bytes) : (ipv6Payload p).length + 40 ≤ p.length ∨ (ipv6Payload p).length = 0 := by
  unfold ipv6Payload
  dsimp only
  split
  · right; rfl
  · left; rw [window_length]; omega


/-! ### the request as the Spec reads it -/

theorem req_v4 {f : Bytes} (he : be16 f 12 = 0x0800) (hl : 20 ≤ (f.drop 14).length) :
    srcIp f = some (.v4 (slice (f.drop 14) 12 4)) ∧ dstIp f = some (.v4 (slice (f.drop 14) 16 4)) ∧
    ipProto f = some (at8 (f.drop 14) 9) ∧ nsTarget f = none ∧
    l4Off f = 14 + (20 + (u8 (f.drop 14) 0 % 16 * 4 - 20)) := by
  have hlen : f.length ≥ 34 := by simp at hl; omega
  simp [srcIp, dstIp, ipProto, nsTarget, l4Off, he, hlen, slice_eq_sub, sub_drop, at8_eq_u8, u8_drop]
  omega

theorem req_v6 {f : Bytes} (he : be16 f 12 = 0x86dd) (hl : 40 ≤ (f.drop 14).length) :
    srcIp f = some (.v6 (slice (f.drop 14) 8 16)) ∧ dstIp f = some (.v6 (slice (f.drop 14) 24 16)) ∧
    ipProto f = some (at8 (f.drop 14) 6) ∧ l4Off f = 54 := by
  have hlen : f.length ≥ 54 := by simp at hl; omega
  simp [srcIp, dstIp, ipProto, l4Off, he, hlen, slice_eq_sub, sub_drop, at8_eq_u8, u8_drop]

theorem inList_deny (cfg : Cfg) (ip : Ip) : inList cfg.deny ip = cfg.isDenied ip := rfl

theorem not_mustBeSilent_of_shape {cfg : Cfg} {f r : Bytes} (h : FrameShape cfg f r) :
    mustBeSilent cfg f = false := by
  obtain ⟨hf, hauth, l3, _, hcase⟩ := h
  rw [authMacs_contains] at hauth
  unfold mustBeSilent
  rcases hcase with ⟨he, hl, _⟩ | ⟨he, hl, hs, hd, l4, _, hp⟩ | ⟨he, hl, hd, from_, hlim, l4, _, _, hp⟩
  · simp [srcIp, ipProto, he, hauth, slice_eq_sub] at hauth ⊢
  · obtain ⟨h1, h2, h3, _, _⟩ := req_v4 he hl
    rw [h1, h3]
    have : at8 (f.drop 14) 9 = 1 ∨ at8 (f.drop 14) 9 = 6 ∨ at8 (f.drop 14) 9 = 17 := by
      rcases hp with h | h | h
      · exact .inl h
      · exact .inr (.inl h.1)
      · exact .inr (.inr h.1)
    simp [he, inList_deny, slice_eq_sub] at hauth ⊢
    refine ⟨⟨hauth, hd⟩, ?_⟩
    rcases this with h | h | h <;> simp [h]
  · obtain ⟨h1, h2, h3, _⟩ := req_v6 he hl
    rw [h1, h3]
    have : at8 (f.drop 14) 6 = 58 ∨ at8 (f.drop 14) 6 = 6 ∨ at8 (f.drop 14) 6 = 17 := by
      rcases hp with h | h | h
      · exact .inl h.1
      · exact .inr (.inl h.1)
      · exact .inr (.inr h.1)
    simp [he, inList_deny, slice_eq_sub] at hauth ⊢
    refine ⟨⟨hauth, hd⟩, ?_⟩
    rcases this with h | h | h <;> simp [h]

/-! ### the reply as the Spec reads it -/

section reply
variable {sm mac : Bytes}

theorem reply_v4 {s d l4 : Bytes} {proto tl : Nat} (h1 : sm.length = 6) (h2 : mac.length = 6)
    (hs : s.length = 4) (hd : d.length = 4) (hp : proto < 256) :
    let r := sm ++ mac ++ u16be 0x0800 ++ (ipv4Hdr s d proto tl ++ l4)
    be16 r 12 = 0x0800 ∧ srcIp r = some (.v4 s) ∧ dstIp r = some (.v4 d) ∧ ipProto r = some proto ∧
    l4Off r = 34 ∧ (∀ i, be16 r (34 + i) = be16 l4 i) ∧ (∀ i n, sub r (34 + i) n = sub l4 i n) := by
  intro r
  have hty : be16 r 12 = 0x0800 := eth_type h1 h2 (by omega)
  have hlen : r.length ≥ 34 := by
    show (sm ++ mac ++ u16be 0x0800 ++ (ipv4Hdr s d proto tl ++ l4)).length ≥ 34
    rw [eth_length h1 h2, List.length_append, ipv4Hdr_length _ _ hs hd]; omega
  have hsrc : sub r 26 4 = s := by
    show sub (sm ++ mac ++ u16be 0x0800 ++ (ipv4Hdr s d proto tl ++ l4)) (14 + 12) 4 = s
    rw [eth_sub h1 h2, ipv4Hdr_src _ _ _ hs hd]
  have hdst : sub r 30 4 = d := by
    show sub (sm ++ mac ++ u16be 0x0800 ++ (ipv4Hdr s d proto tl ++ l4)) (14 + 16) 4 = d
    rw [eth_sub h1 h2, ipv4Hdr_dst _ _ _ hs hd]
  have hpr : u8 r 23 = proto := by
    show u8 (sm ++ mac ++ u16be 0x0800 ++ (ipv4Hdr s d proto tl ++ l4)) (14 + 9) = proto
    rw [eth_u8 h1 h2, ipv4Hdr_u8_lt _ _ _ (by omega)]
    simp [u8, u16be, byte_toNat]; omega
  have hihl : u8 r 14 = 0x45 := by
    show u8 (sm ++ mac ++ u16be 0x0800 ++ (ipv4Hdr s d proto tl ++ l4)) (14 + 0) = 0x45
    rw [eth_u8 h1 h2, ipv4Hdr_u8_lt _ _ _ (by omega)]
    simp [u8]
  refine ⟨hty, ?_, ?_, ?_, ?_, ?_, ?_⟩
  · simp [srcIp, hty, hlen, hsrc]
  · simp [dstIp, hty, hlen, hdst]
  · simp [ipProto, hty, hlen, hpr]
  · simp [l4Off, hty, hihl]
  · intro i
    show be16 (sm ++ mac ++ u16be 0x0800 ++ (ipv4Hdr s d proto tl ++ l4)) (34 + i) = _
    rw [show 34 + i = 14 + (20 + i) by omega, eth_be16 h1 h2,
      be16_append_right _ (ipv4Hdr_length _ _ hs hd)]
  · intro i n
    show sub (sm ++ mac ++ u16be 0x0800 ++ (ipv4Hdr s d proto tl ++ l4)) (34 + i) n = _
    rw [show 34 + i = 14 + (20 + i) by omega, eth_sub h1 h2,
      sub_append_right _ (ipv4Hdr_length _ _ hs hd)]

theorem reply_v6 {s d l4 : Bytes} {nh pl hlim : Nat} (h1 : sm.length = 6) (h2 : mac.length = 6)
    (hs : s.length = 16) (hd : d.length = 16) (hp : nh < 256) :
    let r := sm ++ mac ++ u16be 0x86dd ++ (ipv6Hdr s d nh pl hlim ++ l4)
    be16 r 12 = 0x86dd ∧ srcIp r = some (.v6 s) ∧ dstIp r = some (.v6 d) ∧ ipProto r = some nh ∧
    l4Off r = 54 ∧ u8 r 20 = nh ∧
    (∀ i, u8 r (54 + i) = u8 l4 i) ∧ (∀ i, be16 r (54 + i) = be16 l4 i) ∧
    (∀ i n, sub r (54 + i) n = sub l4 i n) := by
  intro r
  have hty : be16 r 12 = 0x86dd := eth_type h1 h2 (by omega)
  have hlen : r.length ≥ 54 := by
    show (sm ++ mac ++ u16be 0x86dd ++ (ipv6Hdr s d nh pl hlim ++ l4)).length ≥ 54
    rw [eth_length h1 h2, List.length_append, ipv6Hdr_length _ _ _ hs hd]; omega
  have hsrc : sub r 22 16 = s := by
    show sub (sm ++ mac ++ u16be 0x86dd ++ (ipv6Hdr s d nh pl hlim ++ l4)) (14 + 8) 16 = s
    rw [eth_sub h1 h2, ipv6Hdr_src _ _ _ _ hs]
  have hdst : sub r 38 16 = d := by
    show sub (sm ++ mac ++ u16be 0x86dd ++ (ipv6Hdr s d nh pl hlim ++ l4)) (14 + 24) 16 = d
    rw [eth_sub h1 h2, ipv6Hdr_dst _ _ _ _ hs hd]
  have hpr : u8 r 20 = nh := by
    show u8 (sm ++ mac ++ u16be 0x86dd ++ (ipv6Hdr s d nh pl hlim ++ l4)) (14 + 6) = nh
    rw [eth_u8 h1 h2, ipv6Hdr_nh]; omega
  refine ⟨hty, ?_, ?_, ?_, ?_, hpr, ?_, ?_, ?_⟩
  · simp [srcIp, hty, hlen, hsrc]
  · simp [dstIp, hty, hlen, hdst]
  · simp [ipProto, hty, hlen, hpr]
  · simp [l4Off, hty]
  · intro i
    show u8 (sm ++ mac ++ u16be 0x86dd ++ (ipv6Hdr s d nh pl hlim ++ l4)) (54 + i) = _
    rw [show 54 + i = 14 + (40 + i) by omega, eth_u8 h1 h2,
      u8_append_right _ (ipv6Hdr_length _ _ _ hs hd)]
  · intro i
    show be16 (sm ++ mac ++ u16be 0x86dd ++ (ipv6Hdr s d nh pl hlim ++ l4)) (54 + i) = _
    rw [show 54 + i = 14 + (40 + i) by omega, eth_be16 h1 h2,
      be16_append_right _ (ipv6Hdr_length _ _ _ hs hd)]
  · intro i n
    show sub (sm ++ mac ++ u16be 0x86dd ++ (ipv6Hdr s d nh pl hlim ++ l4)) (54 + i) n = _
    rw [show 54 + i = 14 + (40 + i) by omega, eth_sub h1 h2,
      sub_append_right _ (ipv6Hdr_length _ _ _ hs hd)]
end reply

theorem arp_spa {s1 mac tpa sha spa rest : Bytes} (h1 : s1.length = 4) (h2 : mac.length = 6)
    (h3 : tpa.length = 4) :
    sub ([0, 1] ++ s1 ++ [0, 2] ++ mac ++ tpa ++ sha ++ spa ++ rest) 14 4 = tpa := by
  have e : [0, 1] ++ s1 ++ [0, 2] ++ mac ++ tpa ++ sha ++ spa ++ rest =
      ([0, 1] ++ s1 ++ [0, 2] ++ mac) ++ tpa ++ (sha ++ (spa ++ rest)) := by simp [List.append_assoc]
  rw [e]
  exact sub_append_exact tpa _ (by simp [h1, h2]) h3

theorem replyInScope_of_shape {cfg : Cfg} {f r : Bytes} (hm : cfg.mac.length = 6)
    (h : FrameShape cfg f r) : replyInScope cfg r = true := by
  obtain ⟨hf, _, l3, rfl, hcase⟩ := h
  have hsm : (slice f 6 6).length = 6 := slice_length_of_le (by omega)
  unfold replyInScope
  cases hsl : cfg.selfIps with
  | none => rfl
  | some l =>
    have hself : ∀ ip, cfg.isSelf ip = true → l.contains ip = true := by
      intro ip h; simpa [Cfg.isSelf, hsl] using h
    dsimp only
    rcases hcase with ⟨he, hl, hs, rfl⟩ | ⟨he, hl, hs, hd, l4, rfl, hp⟩ |
      ⟨he, hl, hd, from_, hlim, l4, rfl, hs, hp⟩
    · -- ARP reply: no IP source; advertised = the requested (handled) address
      rw [he]
      generalize hr : slice f 6 6 ++ cfg.mac ++ u16be 0x0806 ++ _ = r
      have hty : be16 r 12 = 0x0806 := by rw [← hr]; exact eth_type hsm hm (by omega)
      have hadv : sub r 28 4 = slice (f.drop 14) 24 4 := by
        rw [← hr, show 28 = 14 + 14 by rfl, eth_sub hsm hm]
        exact arp_spa (slice_length_of_le (by omega)) hm (slice_length_of_le (by omega))
      have h1 : srcIp r = none := by simp [srcIp, hty]
      have h2 : advertised r = if r.length ≥ 42 then some (.v4 (slice (f.drop 14) 24 4)) else none := by
        simp [advertised, hty, hadv]
      have hmem := List.contains_iff_mem.mp (hself _ hs)
      rw [h1, h2]
      by_cases h42 : r.length ≥ 42 <;> simp [h42, hmem]
    · -- IPv4 reply: source = the request's (handled) destination; nothing advertised
      rw [he]
      have hlen : ∀ i, i + 4 ≤ 20 → (slice (f.drop 14) i 4).length = 4 :=
        fun i hi => slice_length_of_le (by omega)
      obtain ⟨hty, h1, _, _, _, _, _⟩ := reply_v4 (l4 := l4) (proto := at8 (f.drop 14) 9)
        (tl := 20 + l4.length) hsm hm (hlen 16 (by omega)) (hlen 12 (by omega)) (u8_lt _ _)
      generalize slice f 6 6 ++ cfg.mac ++ u16be 0x0800 ++ _ = r at *
      have h2 : advertised r = none := by simp [advertised, hty]
      rw [h1, h2]
      simpa using hself _ hs
    · -- IPv6 reply: source = handled destination or solicited (handled) target; an NA advertises it
      rw [he]
      have hp6 : (slice (f.drop 14) 8 16).length = 16 := slice_length_of_le (by omega)
      have hfrom : from_.length = 16 := by
        rcases hp with ⟨_, _, (⟨_, h24, rfl, _⟩ | ⟨_, rfl, _⟩)⟩ | ⟨_, rfl, _⟩ | ⟨_, rfl, _⟩
        all_goals exact slice_length_of_le (by omega)
      obtain ⟨hty, h1, _, _, _, h20, h54, _, hsub⟩ := reply_v6 (l4 := l4) (nh := at8 (f.drop 14) 6)
        (pl := l4.length) (hlim := hlim) hsm hm hfrom hp6 (u8_lt _ _)
      have h54' := h54 0
      have hsub' := hsub 8 16
      generalize slice f 6 6 ++ cfg.mac ++ u16be 0x86dd ++ _ = r at *
      have hmem := List.contains_iff_mem.mp (hself _ hs)
      rw [h1]
      by_cases hadv : r.length ≥ 78 ∧ u8 r 20 = 58 ∧ u8 r 54 = 136
      · have h2 : advertised r = some (.v6 (sub r 62 16)) := by simp [advertised, hty, hadv]
        have h3 : sub r 62 16 = from_ := by
          rw [show 62 = 54 + 8 by rfl, hsub']
          rcases hp with ⟨_, _, (⟨_, _, _, _, h⟩ | ⟨_, _, h⟩)⟩ | ⟨h, _⟩ | ⟨h, _⟩
          · exact h
          · rw [Nat.add_zero] at h54'; omega
          · omega
          · omega
        rw [h2, h3]; simp [hmem]
      · have h2 : advertised r = none := by simp [advertised, hty, hadv]
        rw [h2]; simp [hmem]
end Masscanned
