/-
  Proofs/Examples — concrete configuration and frames used by the non-vacuity `example`s of
  Thm/C02 and Thm/C03.
-/
import Masscanned.Model.Net
import Masscanned.Spec.Wire
namespace Masscanned.Ex
open Masscanned

/-- 02:00:00:00:00:01, handles 10.0.0.1 and fe80::1, denies 10.0.0.66 -/
def cfg : Cfg :=
  { mac := [2, 0, 0, 0, 0, 1],
    selfIps := some [.v4 [10, 0, 0, 1], .v6 [0xfe, 0x80, 0, 0, 0, 0, 0, 0, 0, 0, 0, 0, 0, 0, 0, 1]],
    deny := some [.v4 [10, 0, 0, 66]],
    k0 := 0, k1 := 0, logger := .none, level := 0, ovf := false }

def env : Env := { httpDate := [], unixSecs := 0 }

def peerMac : Bytes := [2, 0, 0, 0, 0, 2]

/-- who-has 10.0.0.1 tell 10.0.0.2, broadcast -/
def arpReq : Bytes :=
  [255, 255, 255, 255, 255, 255] ++ peerMac ++ [8, 6] ++
  [0, 1, 8, 0, 6, 4, 0, 1] ++ peerMac ++ [10, 0, 0, 2] ++ [0, 0, 0, 0, 0, 0] ++ [10, 0, 0, 1]

def arpReply : Bytes :=
  peerMac ++ cfg.mac ++ [8, 6] ++
  [0, 1, 8, 0, 6, 4, 0, 2] ++ cfg.mac ++ [10, 0, 0, 1] ++ peerMac ++ [10, 0, 0, 2]

/-- the same request sent to a MAC that is not ours -/
def arpReqForeign : Bytes := [2, 0, 0, 0, 0, 9] ++ arpReq.drop 6

/-- IPv4 header (no options, checksum not verified by masscanned) -/
def ip4 (src dst : Bytes) (proto : Nat) (l4 : Bytes) : Bytes :=
  [0x45, 0] ++ u16be (20 + l4.length) ++ [0, 0, 0x40, 0, 64, byte proto, 0, 0] ++ src ++ dst ++ l4

def eth4 (l3 : Bytes) : Bytes := cfg.mac ++ peerMac ++ [8, 0] ++ l3

/-- ICMP echo request 10.0.0.2 → 10.0.0.1 -/
def echoReq : Bytes := eth4 (ip4 [10, 0, 0, 2] [10, 0, 0, 1] 1 [8, 0, 0, 0, 0, 1, 0, 1, 0x61])

/-- the same echo request from a denied source -/
def echoReqDenied : Bytes := eth4 (ip4 [10, 0, 0, 66] [10, 0, 0, 1] 1 [8, 0, 0, 0, 0, 1, 0, 1, 0x61])

/-- an IPv4 frame carrying GRE (protocol 47) -/
def greFrame : Bytes := eth4 (ip4 [10, 0, 0, 2] [10, 0, 0, 1] 47 [0, 0, 8, 0])

/-- an LLDP frame (EtherType 0x88cc) to our MAC -/
def lldpFrame : Bytes := cfg.mac ++ peerMac ++ [0x88, 0xcc] ++ [0, 0]

/-- STUN Binding Request with CHANGE-REQUEST(change port) over UDP, 10.0.0.2:4660 → 10.0.0.1:3478 -/
def stunData : Bytes :=
  [0, 1, 0, 8, 0x21, 0x12, 0xa4, 0x42, 1, 2, 3, 4, 5, 6, 7, 8, 9, 10, 11, 12] ++ [0, 3, 0, 4, 0, 0, 0, 2]

def stunReq : Bytes :=
  eth4 (ip4 [10, 0, 0, 2] [10, 0, 0, 1] 17 ([0x12, 0x34, 0x0d, 0x96] ++ u16be (8 + stunData.length) ++ [0, 0] ++ stunData))

/-- the model's answer to `stunReq`: sent from port 3479 = 3478 + 1 (one change-port attribute) -/
def stunReply : Bytes :=
  [2, 0, 0, 0, 0, 2, 2, 0, 0, 0, 0, 1, 8, 0, 69, 0, 0, 60, 0, 0, 64, 0, 64, 17, 38, 175, 10, 0, 0, 1, 10,
   0, 0, 2, 13, 151, 18, 52, 0, 40, 197, 4, 1, 1, 0, 12, 33, 18, 164, 66, 1, 2, 3, 4, 5, 6, 7, 8, 9, 10, 11, 12, 0, 1, 0,
   8, 0, 1, 18, 52, 10, 0, 0, 2]

/-- TCP SYN 10.0.0.2:4660 → 10.0.0.1:80 -/
def synReq : Bytes :=
  eth4 (ip4 [10, 0, 0, 2] [10, 0, 0, 1] 6
    ([0x12, 0x34, 0, 80, 0, 0, 0, 1, 0, 0, 0, 0, 0x50, 0x02, 0xff, 0xff, 0, 0, 0, 0]))

/-- executable check "the outcome is the reply `r`" (the checksum folding is defined by well-founded
    recursion, so `rfl` does not evaluate it; `decide +kernel` on this Bool does) -/
def outIs (o : Except Site (Option Bytes)) (r : Bytes) : Bool :=
  match o with
  | .ok (some x) => x == r
  | _ => false

theorem outIs_sound {o : Except Site (Option Bytes)} {r : Bytes} (h : outIs o r = true) :
    o = .ok (some r) := by
  unfold outIs at h
  split at h
  · simp at h; rw [h]
  · cases h

end Masscanned.Ex
