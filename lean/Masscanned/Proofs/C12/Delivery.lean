/-
  Proofs/C12/Delivery — a namespaced copy (`Masscanned.C12`) of the delivery lemmas of
  `Proofs/Delivery.lean` and of `arp_out` of `Proofs/C05.lean`.

  Why a copy: `Proofs/Delivery.lean` (and hence `Thm/C05.lean`) cannot be imported together with
  `Proofs/Bytes.lean` (on which Proofs/Tcp, Thm/C07, C14, C15, C16, C17 depend): both declare
  `Masscanned.byte_toNat`, `Masscanned.rdBE_slice2`, … at top level, and Lean refuses the second
  import.  The statements and proofs below are those of the original files, verbatim, in another
  namespace; only the silent-direction corollaries at the end are new.
-/
import Masscanned.Model.Net
import Masscanned.Spec.L4
import Masscanned.Spec.Icmp
namespace Masscanned.C12
open Masscanned

/-! ### readers -/

theorem at8_eq_u8 (b : Bytes) (i : Nat) : at8 b i = Spec.u8 b i := rfl
theorem slice_eq_sub (b : Bytes) (i n : Nat) : slice b i n = Spec.sub b i n := rfl

theorem u8_drop (b : Bytes) (k i : Nat) : Spec.u8 (b.drop k) i = Spec.u8 b (k + i) := by
  simp [Spec.u8, List.getD_eq_getElem?_getD, List.getElem?_drop]

theorem be16_drop (b : Bytes) (k i : Nat) : Spec.be16 (b.drop k) i = Spec.be16 b (k + i) := by
  simp [Spec.be16, u8_drop, Nat.add_assoc]

theorem sub_drop (b : Bytes) (k i n : Nat) : Spec.sub (b.drop k) i n = Spec.sub b (k + i) n := by
  simp [Spec.sub, List.drop_drop]

theorem rdBE_slice2 (b : Bytes) (i : Nat) (h : i + 2 ≤ b.length) : rdBE (slice b i 2) = Spec.be16 b i := by
  obtain ⟨x, y, t, ht⟩ : ∃ x y t, b.drop i = x :: y :: t := by
    match hb : b.drop i with
    | [] => have := congrArg List.length hb; simp at this; omega
    | [_] => have := congrArg List.length hb; simp at this; omega
    | x :: y :: t => exact ⟨x, y, t, rfl⟩
  have h0 : Spec.u8 b i = x.toNat := by
    have := u8_drop b i 0; simp [ht, Spec.u8] at this; simpa [Spec.u8] using this.symm
  have h1 : Spec.u8 b (i+1) = y.toNat := by
    have := u8_drop b i 1; simp [ht, Spec.u8] at this; simpa [Spec.u8] using this.symm
  simp [slice, ht, rdBE, Spec.be16, h0, h1]

theorem ipv4Payload_eq (f : Bytes) (h : 34 ≤ f.length) (he : Spec.be16 f 12 = 0x0800) :
    ipv4Payload (f.drop 14) = Spec.l4Bytes f := by
  have hr : rdBE (slice (f.drop 14) 2 2) = Spec.be16 (f.drop 14) 2 := rdBE_slice2 _ _ (by simp; omega)
  simp only [ipv4Payload, Spec.l4Bytes, he, if_true, hr, at8]
  split
  · rename_i hle
    symm
    apply List.drop_eq_nil_of_le
    simp only [List.length_take, Spec.u8]
    omega
  · rfl

theorem ipv6Payload_eq (f : Bytes) (h : 54 ≤ f.length) (he : Spec.be16 f 12 = 0x86dd) :
    ipv6Payload (f.drop 14) = Spec.l4Bytes f := by
  have hr : rdBE (slice (f.drop 14) 4 2) = Spec.be16 (f.drop 14) 4 := rdBE_slice2 _ _ (by simp; omega)
  simp only [ipv6Payload, Spec.l4Bytes, he, hr]
  split
  · rename_i hle
    simp at hle; 
    symm
    apply List.drop_eq_nil_of_le
    simp only [List.length_take]
    simp; omega
  · simp

/-! ### filters -/

theorem isSelf_eq_handled (cfg : Cfg) (ip : Ip) : cfg.isSelf ip = Spec.handled cfg ip := rfl
theorem isDenied_eq_inList (cfg : Cfg) (ip : Ip) : cfg.isDenied ip = Spec.inList cfg.deny ip := rfl

theorem byte_toNat (x : UInt8) : byte x.toNat = x := by
  have := x.toNat_lt
  simp [byte, Nat.mod_eq_of_lt this]

theorem byte_mod128 (n : Nat) : byte (n % 128) = UInt8.ofNat (n % 128) := by
  have : n % 128 % 256 = n % 128 := by omega
  simp [byte, this]

theorem authMacs_contains (cfg : Cfg) (m : Bytes) : (authMacs cfg).contains m = Spec.authMac cfg m := by
  rw [Bool.eq_iff_iff]
  unfold authMacs Spec.authMac
  cases cfg.selfIps with
  | none => simp; grind
  | some l =>
    simp only [List.contains_iff_mem, List.mem_append, List.mem_cons, List.mem_map, Bool.or_eq_true,
      decide_eq_true_eq, List.any_eq_true, List.not_mem_nil, or_false]
    constructor
    · rintro (h | h)
      · left; grind
      · obtain ⟨ip, hip, rfl⟩ := h
        right; refine ⟨ip, hip, ?_⟩
        cases ip <;> simp [at8, byte_toNat, byte_mod128, Spec.u8]
    · rintro (h | h)
      · left; grind
      · obtain ⟨ip, hip, h⟩ := h
        right; refine ⟨ip, hip, ?_⟩
        cases ip <;> simp [at8, byte_toNat, byte_mod128, Spec.u8] at h ⊢ <;> exact h.symm

/-! ### what `Spec.deliverable` says, field by field -/

theorem deliverable4_elim {cfg : Cfg} {f : Bytes} {proto minLen : Nat}
    (h : Spec.deliverable cfg f false proto minLen = true) :
    34 ≤ f.length ∧ Spec.authMac cfg (Spec.sub f 0 6) = true ∧ Spec.be16 f 12 = 0x0800 ∧
    Spec.inList cfg.deny (.v4 (Spec.sub f 26 4)) = false ∧ Spec.handled cfg (.v4 (Spec.sub f 30 4)) = true ∧
    Spec.u8 f 23 = proto ∧ minLen ≤ (Spec.l4Bytes f).length := by
  simp only [Spec.deliverable, Bool.and_eq_true, decide_eq_true_eq, Bool.false_eq_true, if_false,
    Bool.false_and, Bool.or_false] at h
  obtain ⟨⟨⟨⟨⟨⟨⟨h1, h2⟩, h3⟩, h4⟩, h5⟩, h6⟩, h7⟩, h8⟩ := h
  have h4' : f.length ≥ 34 := h4
  simp only [Spec.srcIp, Spec.dstIp, Spec.ipProto, h3, h4', and_self, if_true] at h5 h6 h7
  simp at h5 h7
  exact ⟨h4, h2, h3, h5, h6, h7, h8⟩

theorem deliverable6_elim {cfg : Cfg} {f : Bytes} {proto minLen : Nat}
    (h : Spec.deliverable cfg f true proto minLen = true) :
    54 ≤ f.length ∧ Spec.authMac cfg (Spec.sub f 0 6) = true ∧ Spec.be16 f 12 = 0x86dd ∧
    Spec.inList cfg.deny (.v6 (Spec.sub f 22 16)) = false ∧
    (Spec.handled cfg (.v6 (Spec.sub f 38 16)) = true ∨ proto = 58) ∧
    Spec.u8 f 20 = proto ∧ minLen ≤ (Spec.l4Bytes f).length := by
  simp only [Spec.deliverable, Bool.and_eq_true, decide_eq_true_eq, if_true,
    Bool.true_and] at h
  obtain ⟨⟨⟨⟨⟨⟨⟨h1, h2⟩, h3⟩, h4⟩, h5⟩, h6⟩, h7⟩, h8⟩ := h
  have h4' : f.length ≥ 54 := h4
  have h4'' : f.length ≥ 34 := by omega
  simp only [Spec.srcIp, Spec.dstIp, Spec.ipProto, h3, h4', h4'', and_self, if_true] at h5 h6 h7
  simp at h5 h6 h7
  exact ⟨h4, h2, h3, h5, h6, h7, h8⟩

/-! ### delivery through layer 2 -/

/-- client info as filled by layer 2 -/
def ci0 (f : Bytes) : ClientInfo := { macSrc := some (slice f 6 6), macDst := some (slice f 0 6) }

/-- Ethernet framing of the reply to `f` -/
def ethWrap (cfg : Cfg) (f l3 : Bytes) : Bytes := slice f 6 6 ++ cfg.mac ++ u16be (rdBE (slice f 12 2)) ++ l3

/-- the part of a layer-3 result that `step` returns as `out`, framed by `w` -/
def l3Out (r : Except Site (List Ev × ClientInfo × Table × Option Bytes)) (w : Bytes → Bytes) :
    Except Site (Option Bytes) :=
  match r with
  | .error e => .error e
  | .ok (_, _, _, o) => .ok (o.map w)

theorem step_out_v4 {cfg : Cfg} {env : Env} {st : Table} {f : Bytes} {proto minLen : Nat}
    (h : Spec.deliverable cfg f false proto minLen = true) :
    (step cfg env st f).out = l3Out (ipv4Repl cfg env st (ci0 f) (f.drop 14)) (ethWrap cfg f) := by
  obtain ⟨hl, ha, he, -⟩ := deliverable4_elim h
  have hety : rdBE (slice f 12 2) = 0x0800 := by rw [rdBE_slice2 _ _ (by omega)]; exact he
  have h14 : ¬ f.length < 14 := by omega
  have hpl : ¬ (f.drop 14).length < 20 := by simp; omega
  rw [← slice_eq_sub, ← authMacs_contains] at ha
  simp only [step, h14, if_false, ethRepl, ha, Bool.not_true, Bool.false_eq_true, hety, hpl]
  simp only [show ¬ (2048 = 2054) by decide, if_false, if_true, ci0, l3Out]
  generalize ipv4Repl cfg env st _ _ = R
  rcases R with e | ⟨evs, ci', st', _ | r⟩ <;> simp [ethWrap, hety]

theorem step_out_v6 {cfg : Cfg} {env : Env} {st : Table} {f : Bytes} {proto minLen : Nat}
    (h : Spec.deliverable cfg f true proto minLen = true) :
    (step cfg env st f).out = l3Out (ipv6Repl cfg env st (ci0 f) (f.drop 14)) (ethWrap cfg f) := by
  obtain ⟨hl, ha, he, -⟩ := deliverable6_elim h
  have hety : rdBE (slice f 12 2) = 0x86dd := by rw [rdBE_slice2 _ _ (by omega)]; exact he
  have h14 : ¬ f.length < 14 := by omega
  have hpl : ¬ (f.drop 14).length < 40 := by simp; omega
  rw [← slice_eq_sub, ← authMacs_contains] at ha
  simp only [step, h14, if_false, ethRepl, ha, Bool.not_true, Bool.false_eq_true, hety, hpl]
  simp only [show ¬ (34525 = 2054) by decide, show ¬ (34525 = 2048) by decide, if_false, if_true, ci0, l3Out]
  generalize ipv6Repl cfg env st _ _ = R
  rcases R with e | ⟨evs, ci', st', _ | r⟩ <;> simp [ethWrap, hety]

/-! ### delivery through layer 3 -/

/-- the model-side facts a deliverable IPv4 frame satisfies (all that `ipv4Repl` tests before layer 4) -/
theorem ipv4_facts {cfg : Cfg} {f : Bytes} {proto minLen : Nat}
    (h : Spec.deliverable cfg f false proto minLen = true) :
    cfg.isSelf (.v4 (slice (f.drop 14) 16 4)) = true ∧ cfg.isDenied (.v4 (slice (f.drop 14) 12 4)) = false ∧
    at8 (f.drop 14) 9 = proto ∧ ipv4Payload (f.drop 14) = Spec.l4Bytes f ∧
    minLen ≤ (Spec.l4Bytes f).length ∧
    slice (f.drop 14) 12 4 = Spec.sub f 26 4 ∧ slice (f.drop 14) 16 4 = Spec.sub f 30 4 := by
  obtain ⟨hl, -, he, hd, hs, hp, hm⟩ := deliverable4_elim h
  refine ⟨?_, ?_, ?_, ipv4Payload_eq f hl he, hm, sub_drop f 14 12 4, sub_drop f 14 16 4⟩
  · rw [isSelf_eq_handled, slice_eq_sub, sub_drop]; exact hs
  · rw [isDenied_eq_inList, slice_eq_sub, sub_drop]; exact hd
  · rw [at8_eq_u8, u8_drop]; exact hp

/-- the model-side facts a deliverable IPv6 frame satisfies -/
theorem ipv6_facts {cfg : Cfg} {f : Bytes} {proto minLen : Nat}
    (h : Spec.deliverable cfg f true proto minLen = true) :
    (cfg.isSelf (.v6 (slice (f.drop 14) 24 16)) = true ∨ proto = 58) ∧
    cfg.isDenied (.v6 (slice (f.drop 14) 8 16)) = false ∧
    at8 (f.drop 14) 6 = proto ∧ ipv6Payload (f.drop 14) = Spec.l4Bytes f ∧
    minLen ≤ (Spec.l4Bytes f).length ∧
    slice (f.drop 14) 8 16 = Spec.sub f 22 16 ∧ slice (f.drop 14) 24 16 = Spec.sub f 38 16 := by
  obtain ⟨hl, -, he, hd, hs, hp, hm⟩ := deliverable6_elim h
  refine ⟨?_, ?_, ?_, ipv6Payload_eq f hl he, hm, sub_drop f 14 8 16, sub_drop f 14 24 16⟩
  · rw [isSelf_eq_handled, slice_eq_sub, sub_drop]; exact hs
  · rw [isDenied_eq_inList, slice_eq_sub, sub_drop]; exact hd
  · rw [at8_eq_u8, u8_drop]; exact hp

/-- what `ipv4Repl` does once its two filters have passed: dispatch of the payload `pl` of protocol
    `proto`; `ci` already carries the addresses `src`, `dst` of the request -/
def ipv4Deliver (cfg : Cfg) (env : Env) (st : Table) (ci : ClientInfo) (src dst : Bytes) (proto : Nat)
    (pl : Bytes) : Except Site (List Ev × ClientInfo × Table × Option Bytes) :=
  let rcv := ev .ipv4 .recv ci
  let ci := { ci with transport := some proto }
  let wrap (evs : List Ev) (ci : ClientInfo) (st : Table) (l4 : Bytes) :
      Except Site (List Ev × ClientInfo × Table × Option Bytes) :=
    if 20 + l4.length > 65535 then .error .setPayload
    else .ok ([rcv] ++ evs ++ [ev .ipv4 .send ci], ci, st, some (ipv4Hdr dst src proto (20 + l4.length) ++ l4))
  let drop (evs : List Ev) (ci : ClientInfo) (st : Table) :
      Except Site (List Ev × ClientInfo × Table × Option Bytes) :=
    .ok ([rcv] ++ evs ++ [ev .ipv4 .drop ci], ci, st, none)
  if proto = 1 then
    if pl.length < 4 then drop [] ci st
    else
      match icmp4Repl ci pl with
      | (evs, none) => drop evs ci st
      | (evs, some r) => wrap evs ci st (setU16 r 2 (csumPlain r))
  else if proto = 6 then
    if pl.length < 20 then drop [] ci st
    else
      match tcpRepl cfg env st ci pl with
      | .error e => .error e
      | .ok (evs, ci', st', none) => drop evs ci' st'
      | .ok (evs, ci', st', some r) => wrap evs ci' st' (setU16 r 16 (csumPseudo dst src 6 r))
  else if proto = 17 then
    if pl.length < 8 then drop [] ci st
    else
      match udpRepl cfg env ci pl with
      | .error e => .error e
      | .ok (evs, ci', none) => drop evs ci' st
      | .ok (evs, ci', some r) =>
        if r.length > 65535 then .error .udpLen
        else wrap evs ci' st (setU16 r 6 (csumPseudo dst src 17 r))
  else drop [] ci st

/-- a deliverable IPv4 frame reaches the layer-4 dispatch with payload `Spec.l4Bytes f` -/
theorem ipv4Repl_deliverable {cfg : Cfg} {f : Bytes} {proto minLen : Nat} (env : Env) (st : Table)
    (ci : ClientInfo) (h : Spec.deliverable cfg f false proto minLen = true) :
    ipv4Repl cfg env st ci (f.drop 14) =
      ipv4Deliver cfg env st { ci with ipSrc := some (.v4 (Spec.sub f 26 4)), ipDst := some (.v4 (Spec.sub f 30 4)) }
        (Spec.sub f 26 4) (Spec.sub f 30 4) proto (Spec.l4Bytes f) := by
  obtain ⟨h1, h2, h3, h4, -, h6, h7⟩ := ipv4_facts h
  simp only [ipv4Repl, h1, h2, h3, h4, Bool.not_true, Bool.false_eq_true, if_false, ipv4Deliver]
  simp only [h6, h7]
  rfl

/-- what `ipv6Repl` does once its two filters have passed -/
def ipv6Deliver (cfg : Cfg) (env : Env) (st : Table) (ci : ClientInfo) (src dst : Bytes) (nh : Nat)
    (pl : Bytes) : Except Site (List Ev × ClientInfo × Table × Option Bytes) :=
  let rcv := ev .ipv6 .recv ci
  let ci := { ci with transport := some nh }
  let wrap (evs : List Ev) (ci : ClientInfo) (st : Table) (from_ : Bytes) (hlim : Nat) (l4 : Bytes) :
      Except Site (List Ev × ClientInfo × Table × Option Bytes) :=
    if l4.length > 65535 then .error .setPayload
    else .ok ([rcv] ++ evs ++ [ev .ipv6 .send ci], ci, st, some (ipv6Hdr from_ src nh l4.length hlim ++ l4))
  let drop (evs : List Ev) (ci : ClientInfo) (st : Table) :
      Except Site (List Ev × ClientInfo × Table × Option Bytes) :=
    .ok ([rcv] ++ evs ++ [ev .ipv6 .drop ci], ci, st, none)
  if nh = 58 then
    if pl.length < 4 then drop [] ci st
    else
      match icmp6Repl cfg ci pl with
      | (evs, none) => drop evs ci st
      | (evs, some (r, tgt)) =>
        let from_ := tgt.getD dst
        let r' := setU16 r 2 (csumPseudo src from_ 58 r)
        wrap evs ci st from_ (if at8 r 0 = 136 then 255 else 64) r'
  else if nh = 6 then
    if pl.length < 20 then drop [] ci st
    else
      match tcpRepl cfg env st ci pl with
      | .error e => .error e
      | .ok (evs, ci', st', none) => drop evs ci' st'
      | .ok (evs, ci', st', some r) => wrap evs ci' st' dst 64 (setU16 r 16 (csumPseudo dst src 6 r))
  else if nh = 17 then
    if pl.length < 8 then drop [] ci st
    else
      match udpRepl cfg env ci pl with
      | .error e => .error e
      | .ok (evs, ci', none) => drop evs ci' st
      | .ok (evs, ci', some r) =>
        let c := csumPseudo dst src 17 r
        wrap evs ci' st dst 64 (setU16 r 6 (if c = 0 then 65535 else c))
  else drop [] ci st

/-- a deliverable IPv6 frame reaches the layer-4 dispatch with payload `Spec.l4Bytes f` -/
theorem ipv6Repl_deliverable {cfg : Cfg} {f : Bytes} {proto minLen : Nat} (env : Env) (st : Table)
    (ci : ClientInfo) (h : Spec.deliverable cfg f true proto minLen = true) :
    ipv6Repl cfg env st ci (f.drop 14) =
      ipv6Deliver cfg env st { ci with ipSrc := some (.v6 (Spec.sub f 22 16)), ipDst := some (.v6 (Spec.sub f 38 16)) }
        (Spec.sub f 22 16) (Spec.sub f 38 16) proto (Spec.l4Bytes f) := by
  obtain ⟨h1, h2, h3, h4, -, h6, h7⟩ := ipv6_facts h
  have h1' : ¬ (cfg.isSelf (.v6 (slice (f.drop 14) 24 16)) = false ∧ proto ≠ 58) := by
    rcases h1 with h1 | h1
    · simp [h1]
    · simp [h1]
  simp only [ipv6Repl, h2, h3, h4, Bool.not_eq_true', h1', Bool.false_eq_true, if_false, ipv6Deliver]
  simp only [h6, h7]
  rfl

/-! ### reply side: reading the frames the model emits -/

theorem l3Out_ite (c : Prop) [Decidable c] (a b : Except Site (List Ev × ClientInfo × Table × Option Bytes))
    (w : Bytes → Bytes) : l3Out (if c then a else b) w = if c then l3Out a w else l3Out b w := by
  split <;> rfl

/-! ### ARP (copy of `arp_out` of Proofs/C05) -/

/-- the ARP reply message built for the request frame `f` -/
def arpMsg (cfg : Cfg) (f : Bytes) : Bytes :=
  [0, 1] ++ Spec.sub f 16 4 ++ [0, 2] ++ cfg.mac ++ Spec.sub f 38 4 ++ Spec.sub f 22 6 ++ Spec.sub f 28 4 ++ f.drop 42

theorem arp_out {cfg : Cfg} {env : Env} {st : Table} {f : Bytes}
    (hl : 42 ≤ f.length) (he : Spec.be16 f 12 = 0x0806) :
    (step cfg env st f).out =
      if Spec.authMac cfg (Spec.sub f 0 6) = true ∧ Spec.be16 f 20 = 1 ∧ Spec.handled cfg (.v4 (Spec.sub f 38 4)) = true
      then .ok (some (ethWrap cfg f (arpMsg cfg f)))
      else .ok none := by
  have hety : rdBE (Spec.sub f 12 2) = 0x0806 := by rw [← slice_eq_sub, rdBE_slice2 _ _ (by omega)]; exact he
  have h14 : ¬ f.length < 14 := by omega
  have hpl : ¬ (f.drop 14).length < 28 := by simp; omega
  have hop : rdBE (Spec.sub f 20 2) = Spec.be16 f 20 := by
    rw [← slice_eq_sub, rdBE_slice2 _ _ (by omega)]
  simp only [step, h14, if_false, ethRepl, hety, if_true, hpl, authMacs_contains, slice_eq_sub, arpRepl, hop,
    isSelf_eq_handled, sub_drop, List.drop_drop]
  by_cases ha : Spec.authMac cfg (Spec.sub f 0 6) = true
  · by_cases h1 : Spec.be16 f 20 = 1
    · by_cases hh : Spec.handled cfg (.v4 (Spec.sub f 38 4)) = true
      · simp [ha, h1, hh, ethWrap, arpMsg, hety, slice_eq_sub]
      · simp [ha, h1, hh]
    · simp [ha, h1]
  · simp [ha]

/-! ### silent direction for ICMPv4 / ICMPv6 -/

theorem icmp4_silent {cfg : Cfg} {env : Env} {st : Table} {f : Bytes}
    (h : Spec.deliverable cfg f false 1 4 = true)
    (hn : ¬ (Spec.u8 (Spec.l4Bytes f) 0 = 8 ∧ Spec.u8 (Spec.l4Bytes f) 1 = 0)) :
    (step cfg env st f).out = .ok none := by
  have hl : ¬ (Spec.l4Bytes f).length < 4 := by have := (deliverable4_elim h).2.2.2.2.2.2; omega
  rw [step_out_v4 h, ipv4Repl_deliverable env st _ h]
  simp only [ipv4Deliver, if_true, hl, if_false, icmp4Repl, at8_eq_u8]
  by_cases h8 : Spec.u8 (Spec.l4Bytes f) 0 = 8
  · have h0 : Spec.u8 (Spec.l4Bytes f) 1 ≠ 0 := fun hc => hn ⟨h8, hc⟩
    simp [h8, h0, l3Out]
  · simp [h8, l3Out]

theorem icmp6_silent {cfg : Cfg} {env : Env} {st : Table} {f : Bytes}
    (h : Spec.deliverable cfg f true 58 4 = true)
    (hn : ¬ (Spec.u8 (Spec.l4Bytes f) 1 = 0 ∧ (Spec.u8 (Spec.l4Bytes f) 0 = 128 ∨ Spec.u8 (Spec.l4Bytes f) 0 = 135))) :
    (step cfg env st f).out = .ok none := by
  have hl : ¬ (Spec.l4Bytes f).length < 4 := by have := (deliverable6_elim h).2.2.2.2.2.2; omega
  rw [step_out_v6 h, ipv6Repl_deliverable env st _ h]
  simp only [ipv6Deliver, if_true, hl, if_false, icmp6Repl, at8_eq_u8]
  by_cases hc : Spec.u8 (Spec.l4Bytes f) 1 = 0
  · have h135 : Spec.u8 (Spec.l4Bytes f) 0 ≠ 135 := fun hh => hn ⟨hc, .inr hh⟩
    have h128 : Spec.u8 (Spec.l4Bytes f) 0 ≠ 128 := fun hh => hn ⟨hc, .inl hh⟩
    simp [hc, h135, h128, l3Out]
  · simp [hc, l3Out]

end Masscanned.C12
