/-
  Proofs/C12/Matcher — soundness of the compiled protocol matcher `Gen.ProtoSmack` (the table that
  `proto::repl` runs through `search_next` / `search_next_end`) with respect to the pinned signature
  set `Spec.sigs`:  whatever the payload, `search_next` from the base state never fails, and an
  identification it returns is justified by a signature of that id matching a prefix of the payload
  (`searchNext_sound`); an identification at end of input is justified by an end-anchored signature
  matching the whole payload, or — quirk of the table: the end-anchor pseudo-character is accepted
  by a trailing wildcard — by an ONC-RPC signature less its last (wildcard) byte (`searchNextEnd_sound`).

  Method: the table is a trie (every row but the dead row 1 has one parent and one incoming edge,
  a literal byte or the wildcard).  `parent`/`edge` are annotations, Nat-encoded; the kernel checks
  them against all 170 × 41 (row, byte class) transitions of the generated table.
-/
import Masscanned.Model.Dispatch
import Masscanned.Spec.Signatures
namespace Masscanned.C12
open Masscanned Spec

/-! ### annotations -/

def parentN : Nat := 0x6050a0f16151d262f363c4544ffff787c809ca8a7a6a5a4a3a2a1a09f9e85a99b9a999897969594939291908f8e8d8c8b8a8988878685848382009d7f7e02817b7a767d77767574730079706f6e6d6c6b6a696867666564636261605f5e5d5c5b5a594672565554535251504f4e4d4c4b4a494847463f58434241403f3e003e3b3a3938073d353433323100372e2d2c2b2a292800302524232221201f00271c1b1a191817001e1413121100300e0d0c0710090807000b040302000000
def edgeN : Nat := 0x42002f002f002f0042002f002f002f002f002f002f0100004201ff01ff00300039007401000100008600010000010000000000000000000000000000000100000000000000010001000100010001000086000100000100000000000000000000000000000001000100010001000100010001000100010000730030006801000039002e00310100002e0032002d004800530053000001000000000000000004000000030000010001000100010001000100010001000100010001000100010001000100010000080000010001000100010001000100010001000100010001000100010001000100010000000000000000a40012002101000100000100000000002000480043005400410100002000450043004100520054010000200053004e004f004900540050004f00ff0020005400430045004e004e004f004300530020004500540045004c00450044004d0020004400410045004800fe002000540053004f00530020005400550050004d002000540045004700000000
def clsByteN : Nat := 0xfe4dff867473683931302e322d04030842a412212a010052494e434c444148534f55502f2054454702

/-- parent row of a trie row (rows 174, 175 — entered only on the end anchor — carry 255) -/
def parent (r : Nat) : Nat := (parentN >>> (8 * r)) % 256
/-- incoming edge: a byte value, or 256 = wildcard (rows 174, 175: 511) -/
def edge (r : Nat) : Nat := (edgeN >>> (16 * r)) % 65536
/-- the byte of a byte class 1..40 -/
def clsByte (s : Nat) : Nat := (clsByteN >>> (8 * s)) % 256

def tr (r s : Nat) : Nat := Gen.ProtoSmack.trans (r * 64 + s)

def chkCls (r s : Nat) : Bool :=
  if r = 1 then decide (tr r s = 1) else
  decide (tr r s = 1 ∨ (2 ≤ tr r s ∧ tr r s < 189 ∧ parent (tr r s) = r ∧
    (edge (tr r s) = 256 ∨ (s ≠ 0 ∧ edge (tr r s) = clsByte s))))

theorem closureOk : ((List.range 170).all fun r => (List.range 41).all fun s => chkCls r s) = true := by
  decide +kernel

def chkByte (b : Nat) : Bool :=
  decide (Gen.ProtoSmack.c2s b ≤ 40) && (decide (Gen.ProtoSmack.c2s b = 0) || decide (clsByte (Gen.ProtoSmack.c2s b) = b))

theorem bytesOk : ((List.range 256).all chkByte) = true := by decide +kernel

def chkRow (r : Nat) : Bool :=
  if r < 170 then decide (Gen.ProtoSmack.cnt r = 0)
  else decide (Gen.ProtoSmack.cnt r = 1) && decide ((Gen.ProtoSmack.ids r).length = 1)

theorem rowsOk : ((List.range 189).all chkRow) = true := by decide +kernel

theorem all_range {n : Nat} {P : Nat → Bool} (h : (List.range n).all P = true) {i : Nat} (hi : i < n) :
    P i = true := by
  rw [List.all_eq_true] at h
  exact h i (List.mem_range.mpr hi)

/-- one byte from row `r` -/
def stepB (r : Nat) (b : UInt8) : Nat := tr r (Gen.ProtoSmack.c2s b.toNat)

theorem c2s_le (b : UInt8) : Gen.ProtoSmack.c2s b.toNat ≤ 40 := by
  have := all_range bytesOk b.toNat_lt
  simp only [chkByte, Bool.and_eq_true, decide_eq_true_eq] at this
  exact this.1

theorem stepB_dead (b : UInt8) : stepB 1 b = 1 := by
  have h := all_range (all_range closureOk (show 1 < 170 by decide)) (show Gen.ProtoSmack.c2s b.toNat < 41 by
    have := c2s_le b; omega)
  unfold stepB
  simpa [chkCls] using h

theorem stepB_closure (r : Nat) (b : UInt8) (hr : r < 170) (h1 : r ≠ 1) :
    stepB r b = 1 ∨ (2 ≤ stepB r b ∧ stepB r b < 189 ∧ parent (stepB r b) = r ∧
      (edge (stepB r b) = 256 ∨ edge (stepB r b) = b.toNat)) := by
  have hc := c2s_le b
  have h := all_range (all_range closureOk hr) (show Gen.ProtoSmack.c2s b.toNat < 41 by omega)
  have hb := all_range bytesOk b.toNat_lt
  simp only [chkByte, Bool.and_eq_true, Bool.or_eq_true, decide_eq_true_eq] at hb
  simp only [chkCls, if_neg h1, decide_eq_true_eq] at h
  unfold stepB
  rcases h with h | ⟨h2, h3, h4, h5⟩
  · exact .inl h
  · refine .inr ⟨h2, h3, h4, ?_⟩
    rcases h5 with h5 | ⟨h5, h6⟩
    · exact .inl h5
    · right
      rw [h6]
      rcases hb.2 with hb | hb
      · exact absurd hb h5
      · exact hb

/-! ### words -/

def symOf (e : Nat) : Sym := if e = 256 then .any else .lit (UInt8.ofNat e)

def wordOf : Nat → Nat → List Sym
  | 0, _ => []
  | f + 1, r => if r = 0 then [] else wordOf f (parent r) ++ [symOf (edge r)]

/-- the pattern (over literal bytes and wildcards) that leads from the start row to row `r` -/
def word (r : Nat) : List Sym := wordOf 30 r

theorem wordsOk : ((List.range 189).all fun r =>
    decide (r < 2) || decide (edge r > 256) || decide (word r = word (parent r) ++ [symOf (edge r)])) = true := by
  decide +kernel

theorem word_step {r : Nat} (h2 : 2 ≤ r) (h : r < 189) (he : edge r ≤ 256) :
    word r = word (parent r) ++ [symOf (edge r)] := by
  have := all_range wordsOk h
  simp only [Bool.or_eq_true, decide_eq_true_eq] at this
  rcases this with (h' | h') | h'
  · omega
  · omega
  · exact h'

/-- `w` matches `s` exactly (same length) -/
def exact : List Sym → Bytes → Bool
  | [], [] => true
  | y :: w, b :: s => symMatch y b && exact w s
  | _, _ => false

theorem exact_snoc {w : List Sym} {s : Bytes} {y : Sym} {b : UInt8} (h : exact w s = true)
    (hy : symMatch y b = true) : exact (w ++ [y]) (s ++ [b]) = true := by
  induction w generalizing s with
  | nil => cases s with
    | nil => simp [exact, hy]
    | cons _ _ => simp [exact] at h
  | cons y' w ih => cases s with
    | nil => simp [exact] at h
    | cons b' s =>
      simp only [exact, Bool.and_eq_true] at h
      simp only [List.cons_append, exact, Bool.and_eq_true]
      exact ⟨h.1, ih h.2⟩

theorem exact_prefix {w : List Sym} {s : Bytes} (t : Bytes) (h : exact w s = true) :
    prefixMatch w (s ++ t) = true := by
  induction w generalizing s with
  | nil => simp [prefixMatch]
  | cons y w ih => cases s with
    | nil => simp [exact] at h
    | cons b s =>
      simp only [exact, Bool.and_eq_true] at h
      simp only [List.cons_append, prefixMatch, Bool.and_eq_true]
      exact ⟨h.1, ih h.2⟩

theorem exact_length {w : List Sym} {s : Bytes} (h : exact w s = true) : w.length = s.length := by
  induction w generalizing s with
  | nil => cases s with
    | nil => rfl
    | cons _ _ => simp [exact] at h
  | cons y w ih => cases s with
    | nil => simp [exact] at h
    | cons b s =>
      simp only [exact, Bool.and_eq_true] at h
      simp [ih h.2]

theorem exact_prefix_self {w : List Sym} {s : Bytes} (h : exact w s = true) : prefixMatch w s = true := by
  have := exact_prefix [] h
  simpa using this

/-- reached row `r` after reading exactly `pre`: dead, or `pre` matches the word of `r` -/
def Inv (r : Nat) (pre : Bytes) : Prop := r = 1 ∨ (r < 189 ∧ edge r ≤ 256 ∧ exact (word r) pre = true)

theorem inv_start : Inv 0 [] := .inr ⟨by decide, by decide +kernel, by decide +kernel⟩

theorem symMatch_symOf (e : Nat) (b : UInt8) (h : e = 256 ∨ e = b.toNat) : symMatch (symOf e) b = true := by
  rcases h with h | h
  · subst h; rfl
  · have hb := b.toNat_lt
    have hne : e ≠ 256 := by omega
    subst h
    simp [symOf, hne, symMatch]

theorem inv_step {r : Nat} {pre : Bytes} (b : UInt8) (hr : r < 170) (h : Inv r pre) :
    Inv (stepB r b) (pre ++ [b]) := by
  by_cases h1 : r = 1
  · subst h1; rw [stepB_dead]; exact .inl rfl
  · rcases h with h | ⟨_, _, hx⟩
    · exact absurd h h1
    · rcases stepB_closure r b hr h1 with hd | ⟨h2, h3, h4, h5⟩
      · exact .inl hd
      · have he : edge (stepB r b) ≤ 256 := by
          have := b.toNat_lt
          rcases h5 with h5 | h5 <;> omega
        refine .inr ⟨h3, he, ?_⟩
        rw [word_step h2 h3 he, h4]
        exact exact_snoc hx (symMatch_symOf _ _ h5)

/-! ### `inner_match` -/

theorem stepB_lt (r : Nat) (b : UInt8) (hr : r < 170) : stepB r b < 189 := by
  by_cases h1 : r = 1
  · subst h1; rw [stepB_dead]; decide
  · rcases stepB_closure r b hr h1 with h | h
    · omega
    · exact h.2.1

theorem innerMatch_cons (row : Nat) (b : UInt8) (t : Bytes) (idx : Nat) (hr : row < 170) :
    protoTbl.innerMatch row (b :: t) idx =
      if stepB row b ≥ 170 then .ok (idx, stepB row b) else protoTbl.innerMatch (stepB row b) t (idx + 1) := by
  have hc := c2s_le b
  have hk : row * 2 ^ protoTbl.rowShift + protoTbl.c2s b.toNat < protoTbl.transLen := by
    show row * 2 ^ 6 + Gen.ProtoSmack.c2s b.toNat < 189 * 2 ^ 6
    omega
  rw [SmackTbl.innerMatch]
  simp only [hk, if_true]
  rfl

theorem innerMatch_spec (d : Bytes) : ∀ (row : Nat) (pre : Bytes) (idx : Nat), row < 170 → Inv row pre →
    ∃ i row', protoTbl.innerMatch row d idx = .ok (i, row') ∧
      ((row' < 170 ∧ i = idx + d.length ∧ Inv row' (pre ++ d)) ∨
       (170 ≤ row' ∧ idx ≤ i ∧ i < idx + d.length ∧ Inv row' (pre ++ d.take (i - idx + 1)))) := by
  induction d with
  | nil =>
    intro row pre idx hr hi
    exact ⟨idx, row, rfl, .inl ⟨hr, by simp, by simpa using hi⟩⟩
  | cons b t ih =>
    intro row pre idx hr hi
    rw [innerMatch_cons row b t idx hr]
    have hs := inv_step b hr hi
    by_cases hm : stepB row b ≥ 170
    · rw [if_pos hm]
      refine ⟨idx, _, rfl, .inr ⟨hm, Nat.le_refl _, by simp, ?_⟩⟩
      simpa using hs
    · rw [if_neg hm]
      obtain ⟨i, row', he, hc⟩ := ih (stepB row b) (pre ++ [b]) (idx + 1) (by omega) hs
      refine ⟨i, row', he, ?_⟩
      rcases hc with ⟨h1, h2, h3⟩ | ⟨h1, h2, h3, h4⟩
      · left
        refine ⟨h1, by simp; omega, ?_⟩
        simpa using h3
      · right
        refine ⟨h1, by omega, by simp; omega, ?_⟩
        have e : i - idx + 1 = (i - (idx + 1) + 1) + 1 := by omega
        rw [e, List.take_succ_cons]
        simpa using h4

/-! ### `search_next` from the base state -/

theorem cnt_nomatch {r : Nat} (h : r < 170) : Gen.ProtoSmack.cnt r = 0 := by
  have := all_range rowsOk (show r < 189 by omega)
  simpa [chkRow, h] using this

theorem cnt_match {r : Nat} (h : 170 ≤ r) (h' : r < 189) :
    Gen.ProtoSmack.cnt r = 1 ∧ ∃ id, Gen.ProtoSmack.ids r = [id] := by
  have := all_range rowsOk h'
  have hn : ¬ r < 170 := by omega
  simp only [chkRow, hn, if_false, Bool.and_eq_true, decide_eq_true_eq] at this
  refine ⟨this.1, ?_⟩
  match hx : Gen.ProtoSmack.ids r, this.2 with
  | [id], _ => exact ⟨id, rfl⟩

/-- `search_next` from the base state on any payload: no failure; either no match, the whole payload
    consumed, ending in a non-match row `st` whose word matches the payload exactly (or in the dead
    row); or a match row `st` whose word matches the first `n` bytes exactly and whose only id is returned -/
theorem searchNext_spec (p : Bytes) :
    (∃ st, st < 170 ∧ protoTbl.searchNext baseState p = .ok (noMatch, st, p.length) ∧ Inv st p) ∨
    (∃ st n id, 170 ≤ st ∧ st < 189 ∧ edge st ≤ 256 ∧ protoTbl.searchNext baseState p = .ok (id, st, n) ∧
      Gen.ProtoSmack.ids st = [id] ∧ n ≤ p.length ∧ exact (word st) (p.take n) = true) := by
  obtain ⟨i, row, he, hc⟩ := innerMatch_spec p 0 [] 0 (by decide) inv_start
  have e0 : baseState % 16777216 = 0 := by decide
  have e1 : baseState / 16777216 = 0 := by decide
  rcases hc with ⟨h1, h2, h3⟩ | ⟨h1, _, h3, h4⟩
  · left
    refine ⟨row, h1, ?_, by simpa using h3⟩
    have hml : row < protoTbl.matchLen := by show row < 228; omega
    have hcnt : protoTbl.cnt row = 0 := cnt_nomatch h1
    unfold SmackTbl.searchNext
    simp only [e0, e1, if_true, he, hml, hcnt, ne_eq, not_true, if_false]
    simp at h2
    rw [h2]
  · right
    have hlt : row < 189 := by
      rcases h4 with h4 | h4
      · omega
      · exact h4.1
    have hed : edge row ≤ 256 ∧ exact (word row) (p.take (i + 1)) = true := by
      rcases h4 with h4 | h4
      · omega
      · simpa using h4.2
    obtain ⟨hc1, id, hid⟩ := cnt_match h1 hlt
    refine ⟨row, i + 1, id, h1, hlt, hed.1, ?_, hid, by simp at h3; omega, hed.2⟩
    have hml : row < protoTbl.matchLen := by show row < 228; omega
    have hcnt : protoTbl.cnt row = 1 := hc1
    have hids : protoTbl.ids row = [id] := hid
    unfold SmackTbl.searchNext
    simp only [e0, e1, if_true, he, hml, hcnt, ne_eq]
    simp [hml, hids]

/-! ### identification -/

/-- what can justify an identification: (pattern, id, whole?) — the pinned signatures (`whole` = end-anchored),
    plus the two ONC-RPC signatures less their last (wildcard) byte, as whole-payload patterns: the
    compiled table lets the end-anchor pseudo-character stand for that wildcard -/
def identPats : List (List Sym × Nat × Bool) :=
  Spec.sigs.map (fun g => (g.pat, g.id, g.endAnchored)) ++
  [(Spec.rpcCall.dropLast, ID_RPC_UDP, true), ((anyN 4 ++ Spec.rpcCall).dropLast, ID_RPC_TCP, true)]

/-- payload `p` is identified as `id` with a justification from `identPats` -/
def Ident (p : Bytes) (id : Nat) : Prop :=
  ∃ e ∈ identPats, e.2.1 = id ∧ prefixMatch e.1 p = true ∧ (e.2.2 = true → e.1.length = p.length)

theorem matchRowsOk : ((List.range 189).all fun st =>
    decide (st < 170) || decide (edge st > 256) ||
    identPats.any (fun e => !e.2.2 && (Gen.ProtoSmack.ids st == [e.2.1]) && (e.1 == word st))) = true := by
  decide +kernel

theorem endRowsOk : ((List.range 170).all fun r =>
    decide (tr r 42 < 228) &&
    (decide (Gen.ProtoSmack.cnt (tr r 42) = 0) ||
     (decide (Gen.ProtoSmack.cnt (tr r 42) = 1) && decide (r ≠ 1) &&
      identPats.any (fun e => e.2.2 && (Gen.ProtoSmack.ids (tr r 42) == [e.2.1]) && (e.1 == word r))))) = true := by
  decide +kernel

theorem identPats_ids : (identPats.all fun e => decide (1 ≤ e.2.1 ∧ e.2.1 ≤ 8)) = true := by decide +kernel

theorem ident_id_range {p : Bytes} {id : Nat} (h : Ident p id) : 1 ≤ id ∧ id ≤ 8 := by
  obtain ⟨e, he, hid, _⟩ := h
  have := List.all_eq_true.1 identPats_ids e he
  rw [hid] at this
  simpa using this

theorem ident_ne_noMatch {p : Bytes} {id : Nat} (h : Ident p id) : id ≠ noMatch := by
  have := ident_id_range h
  unfold noMatch; omega

/-- **matcher soundness, stream part**: `search_next` from the base state never fails; it consumes the
    whole payload without a match, or returns an id justified by a (not end-anchored) signature
    matching a prefix of the payload -/
theorem searchNext_sound (p : Bytes) :
    (∃ st, st < 170 ∧ protoTbl.searchNext baseState p = .ok (noMatch, st, p.length) ∧ Inv st p) ∨
    (∃ st n id, protoTbl.searchNext baseState p = .ok (id, st, n) ∧ Ident p id) := by
  rcases searchNext_spec p with h | ⟨st, n, id, h1, h2, h3, h4, h5, h6, h7⟩
  · exact .inl h
  · right
    refine ⟨st, n, id, h4, ?_⟩
    have := all_range matchRowsOk h2
    have hn1 : ¬ st < 170 := by omega
    have hn2 : ¬ edge st > 256 := by omega
    simp only [hn1, hn2, decide_false, Bool.false_or, List.any_eq_true, Bool.and_eq_true, Bool.not_eq_true',
      beq_iff_eq] at this
    obtain ⟨e, he, ⟨hk, hids⟩, hw⟩ := this
    refine ⟨e, he, ?_, ?_, by simp [hk]⟩
    · rw [h5] at hids; simpa using hids.symm
    · rw [hw]
      have := exact_prefix (p.drop n) h7
      rwa [List.take_append_drop] at this

/-- **matcher soundness, end part**: `search_next_end` from a non-match row reached on the whole
    payload never fails; it returns no match, or an id justified by a whole-payload pattern -/
theorem searchNextEnd_sound (p : Bytes) (st : Nat) (hst : st < 170) (hi : Inv st p) :
    protoTbl.searchNextEnd st = .ok (noMatch, st) ∨
    (∃ id st', protoTbl.searchNextEnd st = .ok (id, st') ∧ Ident p id) := by
  have h := all_range endRowsOk hst
  simp only [Bool.and_eq_true, Bool.or_eq_true, decide_eq_true_eq, List.any_eq_true, beq_iff_eq] at h
  obtain ⟨hlt, hc⟩ := h
  have e0 : st % 16777216 = st := by omega
  have e1 : st / 16777216 = 0 := by omega
  have hk : st * 2 ^ protoTbl.rowShift + protoTbl.c2s charAnchorEnd = st * 64 + 42 := by
    show st * 2 ^ 6 + Gen.ProtoSmack.c2s 257 = st * 64 + 42
    have : Gen.ProtoSmack.c2s 257 = 42 := by decide +kernel
    omega
  have hk2 : st * 64 + 42 < protoTbl.transLen := by show st * 64 + 42 < 189 * 2 ^ 6; omega
  have htr : protoTbl.trans (st * 64 + 42) = tr st 42 := rfl
  have hml : tr st 42 < protoTbl.matchLen := hlt
  unfold SmackTbl.searchNextEnd
  simp only [e0, e1, show ¬ (0 = 255) by decide, if_false, ne_eq, not_true, hk, hk2, if_true, htr, hml]
  rcases hc with hc | ⟨⟨hc1, hne1⟩, e, he, ⟨hk', hids⟩, hw⟩
  · left
    have : protoTbl.cnt (tr st 42) = 0 := hc
    simp [this]
  · right
    have hcnt : protoTbl.cnt (tr st 42) = 1 := hc1
    have hids' : protoTbl.ids (tr st 42) = [e.2.1] := hids
    refine ⟨e.2.1, tr st 42, by simp [hcnt, hids'], e, he, rfl, ?_, ?_⟩
    · rcases hi with hi | ⟨_, _, hx⟩
      · exact absurd hi hne1
      · rw [hw]; exact exact_prefix_self hx
    · intro _
      rcases hi with hi | ⟨_, _, hx⟩
      · exact absurd hi hne1
      · rw [hw]; exact exact_length hx

end Masscanned.C12
