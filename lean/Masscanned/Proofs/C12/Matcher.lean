/-
  Proofs/C12/Matcher — soundness of the compiled protocol matcher `Gen.ProtoSmack` (the table that
  `proto::repl` runs through `search_next` / `search_next_end`) with respect to the pinned signature
  set `Spec.sigs`:  whatever the payload, `search_next` from the base state never fails, and an
  identification it returns is justified by a signature of that id matching a prefix of the payload
  (`searchNext_sound`); an identification at end of input is justified by an end-anchored signature
  matching the whole payload, or — quirk of the table: the end-anchor pseudo-character is accepted
  by a trailing wildcard — by an ONC-RPC signature less its last (wildcard) byte (`searchNextEnd_sound`).

  ROBUSTNESS: no fact about the concrete table is written down here.  Both statements are corollaries
  of the generic, annotation-driven equivalence of C10 (`C10.proto_stream_core`,
  `C10.sim_searchNextEnd` over `C10.proto_closed`: the compiled matcher computes the shadow-aware
  reference `Spec.refStreamK2` / `Spec.refEndK2` on all inputs; the row annotation is a witness
  regenerated with the table and re-checked by the kernel) and of a table-independent fact about the
  signature lists: whatever the shadow-aware reference reports is justified by `identPats`.
-/
import Masscanned.Proofs.C10.Proto
import Masscanned.Spec.Signatures
namespace Masscanned.C12
open Masscanned Spec

/-! ### identification -/

/-- what can justify an identification: (pattern, id, whole?) — the pinned signatures (`whole` = end-anchored),
    plus the two ONC-RPC signatures less their last (wildcard) byte, as whole-payload patterns: the
    compiled table lets the end-anchor pseudo-character stand for that wildcard -/
def identPats : List (List Sym × Nat × Bool) :=
  Spec.sigs.map (fun g => (g.pat, g.id, g.endAnchored)) ++
  [(Spec.rpcCall.dropLast, ID_RPC_UDP, true), ((anyN 4 ++ Spec.rpcCall).dropLast, ID_RPC_TCP, true)]

/-- payload `p` is identified as `id` with a justification from `identPats` -/
def Ident (p : Bytes) (id : Nat) : Prop :=
  ∃ e ∈ identPats, e.2.1 = id ∧ prefixMatch e.1 p = true ∧ (e.2.2 = true → e.1.length = p.length)

theorem identPats_ids : (identPats.all fun e => decide (1 ≤ e.2.1 ∧ e.2.1 ≤ 8)) = true := by decide +kernel

theorem ident_id_range {p : Bytes} {id : Nat} (h : Ident p id) : 1 ≤ id ∧ id ≤ 8 := by
  obtain ⟨e, he, hid, _⟩ := h
  have := List.all_eq_true.1 identPats_ids e he
  rw [hid] at this
  simpa using this

theorem ident_ne_noMatch {p : Bytes} {id : Nat} (h : Ident p id) : id ≠ noMatch := by
  have := ident_id_range h
  unfold noMatch; omega

/-! ### the shadow-aware reference is justified by `identPats` (signature lists only, no table) -/

/-- forget the exclusions of a shadow-aware symbol -/
def toSym : SymX → Sym
  | .lit b => .lit b
  | .any => .any
  | .anyExcept _ => .any

theorem prefixMatch_of_X (P : List SymX) (s : Bytes) (h : prefixMatchX P s = true) :
    prefixMatch (P.map toSym) s = true := by
  induction P generalizing s with
  | nil => rfl
  | cons a t ih =>
    cases s with
    | nil => simp [prefixMatchX] at h
    | cons b bs =>
      simp only [prefixMatchX, Bool.and_eq_true] at h
      simp only [List.map_cons, prefixMatch, Bool.and_eq_true]
      refine ⟨?_, ih bs h.2⟩
      cases a with
      | lit c => exact h.1
      | any => rfl
      | anyExcept l => rfl

theorem shadowPat_toSym : ∀ g ∈ sigs, (shadowPat g).map toSym = g.pat := by decide +kernel

theorem sig_mem_identPats (g : Sig) (hg : g ∈ sigs) : (g.pat, g.id, g.endAnchored) ∈ identPats := by
  unfold identPats
  exact List.mem_append_left _ (List.mem_map.2 ⟨g, hg, rfl⟩)

/-- the only signatures subject to the end-of-datagram quirk are the two ONC-RPC ones -/
theorem oneShort_mem_identPats : ∀ g ∈ sigs,
    (!g.endAnchored && decide ((shadowPat g).getLast? = some SymX.any)) = true →
      (g.pat.dropLast, g.id, true) ∈ identPats := by decide +kernel

theorem ident_of_completed {p : Bytes} {n i : Nat} (h : completedAtK2 p n = some i) : Ident p i := by
  unfold completedAtK2 sigsK2 at h
  rw [List.find?_map, Option.map_map] at h
  cases hf : sigs.find? _ with
  | none => rw [hf] at h; cases h
  | some g =>
    rw [hf] at h
    simp only [Option.map_some, Function.comp, Option.some.injEq] at h
    have hg := List.mem_of_find?_eq_some hf
    have hp := List.find?_some hf
    simp only [Function.comp, Bool.and_eq_true, Bool.not_eq_true', decide_eq_true_eq] at hp
    obtain ⟨⟨⟨he, _⟩, _⟩, hpm⟩ := hp
    refine ⟨_, sig_mem_identPats g hg, h, ?_, ?_⟩
    · have := prefixMatch_of_X _ _ hpm
      rwa [shadowPat_toSym g hg] at this
    · intro hw
      rw [he] at hw; cases hw

theorem ident_of_refStream {p : Bytes} {i : Nat} (h : refStreamK2 p = some i) : Ident p i := by
  unfold refStreamK2 at h
  obtain ⟨n, _, hn⟩ := List.exists_of_findSome?_eq_some h
  exact ident_of_completed hn

theorem ident_of_refEnd {p : Bytes} {i : Nat} (h : refEndK2 p = some i) : Ident p i := by
  unfold refEndK2 sigsK2 at h
  rw [List.find?_map, Option.map_map] at h
  cases hf : sigs.find? _ with
  | none => rw [hf] at h; cases h
  | some g =>
    rw [hf] at h
    simp only [Option.map_some, Function.comp, Option.some.injEq] at h
    have hg := List.mem_of_find?_eq_some hf
    have hp := List.find?_some hf
    simp only [Function.comp, Bool.or_eq_true] at hp
    rcases hp with hp | hp
    · simp only [Bool.and_eq_true, decide_eq_true_eq] at hp
      obtain ⟨⟨_, hl⟩, hpm⟩ := hp
      refine ⟨_, sig_mem_identPats g hg, h, ?_, ?_⟩
      · have := prefixMatch_of_X _ _ hpm
        rwa [shadowPat_toSym g hg] at this
      · intro _
        rw [← C10.shadowPat_length g hg]; exact hl
    · unfold oneShortOf at hp
      simp only [Bool.and_eq_true, Bool.not_eq_true', decide_eq_true_eq] at hp
      obtain ⟨⟨⟨he, hlast⟩, hl⟩, hpm⟩ := hp
      have hmem := oneShort_mem_identPats g hg (by simp [he, hlast])
      refine ⟨_, hmem, h, ?_, ?_⟩
      · have := prefixMatch_of_X _ _ hpm
        rwa [List.map_dropLast, shadowPat_toSym g hg] at this
      · intro _
        show g.pat.dropLast.length = p.length
        rw [List.length_dropLast, ← C10.shadowPat_length g hg, hl]
        omega

/-! ### the compiled matcher -/

/-- row `st` is reached after reading exactly `p`: its (kernel-checked) annotation is the state of the
    shadow-aware reference after `p` -/
def Inv (st : Nat) (p : Bytes) : Prop := C10.protoAR st = p.foldl C10.rstep sigsK2

/-- **matcher soundness, stream part**: `search_next` from the base state never fails; it consumes the
    whole payload without a match, or returns an id justified by a (not end-anchored) signature
    matching a prefix of the payload -/
theorem searchNext_sound (p : Bytes) :
    (∃ st, st < protoTbl.matchLimit ∧ protoTbl.searchNext baseState p = .ok (noMatch, st, p.length) ∧ Inv st p) ∨
    (∃ st n id, protoTbl.searchNext baseState p = .ok (id, st, n) ∧ Ident p id) := by
  have h := C10.proto_stream_core p
  cases hr : C10.refRun sigsK2 p with
  | some ni =>
    obtain ⟨n, i⟩ := ni
    rw [hr] at h
    obtain ⟨st, hst⟩ := h
    obtain ⟨_, _, h3, _⟩ := C10.refRun_pos sigsK2 p C10.proto_rout_init n i hr
    exact .inr ⟨st, n, i, hst, ident_of_completed (n := n) h3⟩
  | none =>
    rw [hr] at h
    obtain ⟨row', h1, h2, h3⟩ := h
    exact .inl ⟨row', h2, h1, h3⟩

/-- **matcher soundness, end part**: `search_next_end` from a non-match row reached on the whole
    payload never fails; it returns no match, or an id justified by a whole-payload pattern -/
theorem searchNextEnd_sound (p : Bytes) (st : Nat) (hst : st < protoTbl.matchLimit) (hi : Inv st p) :
    (∃ st', protoTbl.searchNextEnd st = .ok (noMatch, st')) ∨
    (∃ id st', protoTbl.searchNextEnd st = .ok (id, st') ∧ Ident p id) := by
  obtain ⟨st2, hend⟩ := C10.sim_searchNextEnd C10.proto_closed st hst
  unfold Inv at hi
  rw [hi, ← C10.refEndL_foldl, ← C10.refEndK2_eq] at hend
  cases hr : refEndK2 p with
  | none => rw [hr] at hend; exact .inl ⟨st2, hend⟩
  | some i => rw [hr] at hend; exact .inr ⟨i, st2, hend, ident_of_refEnd hr⟩

end Masscanned.C12
