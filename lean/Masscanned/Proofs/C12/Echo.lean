/-
  Proofs/C12/Echo — the two responder replies that ARE answered in turn: the SSH banner is a valid SSH
  client banner, the Gh0st reply starts with the Gh0st signature.  Every hop (that looks at payloads at
  all) answers each of them with itself, so a chain started by them never ends.
-/
import Masscanned.Proofs.C12.ReplyTyped
namespace Masscanned.C12
open Masscanned Spec

def okIs {α : Type} [DecidableEq α] (o : Except Site α) (e : α) : Bool :=
  match o with
  | .ok x => decide (x = e)
  | _ => false

theorem okIs_eq {α : Type} [DecidableEq α] {o : Except Site α} {e : α} (h : okIs o e = true) : o = .ok e := by
  unfold okIs at h
  split at h
  · simp only [decide_eq_true_eq] at h; subst h; rfl
  · simp at h

/-- a hop that looks at payloads: not a TCP client info without cookie -/
def Hop.looks (h : Hop) : Prop := ¬ (h.ci.transport = some 6 ∧ h.ci.cookie = none)

/-- the matcher state after a search, computed on the generated table (match rows have no fixed number:
    it depends on the order in which the patterns were registered) -/
def stateAfter (d : Bytes) : Nat := ((protoTbl.searchNext baseState d).toOption.map (·.2.1)).getD 0

theorem ssh_search : protoTbl.searchNext baseState sshBanner = .ok (3, stateAfter sshBanner, 7) :=
  okIs_eq (by decide +kernel)

theorem ghost_search : protoTbl.searchNext baseState Gen.ghostReply = .ok (4, stateAfter Gen.ghostReply, 5) :=
  okIs_eq (by decide +kernel)

theorem sshRepl_banner : sshRepl sshBanner = .ok (some sshBanner) := okIs_eq (by decide +kernel)

theorem protoHandle_ssh (cfg : Cfg) (env : Env) (ci : ClientInfo) (tcb : Option Tcb) :
    protoHandle cfg env 3 ci tcb sshBanner = .ok (ci, tcb, some sshBanner) := by
  simp [protoHandle, PROTO_HTTP, PROTO_STUN, PROTO_SSH, sshRepl_banner]

theorem protoHandle_ghost (cfg : Cfg) (env : Env) (ci : ClientInfo) (tcb : Option Tcb) (d : Bytes) :
    protoHandle cfg env 4 ci tcb d = .ok (ci, tcb, some Gen.ghostReply) := by
  simp [protoHandle, PROTO_HTTP, PROTO_STUN, PROTO_SSH, PROTO_GHOST]

/-- the SSH banner is answered with the SSH banner -/
theorem ssh_echo (h : Hop) (hl : h.looks) : bounce h sshBanner = .ok (some sshBanner) := by
  unfold bounce protoRepl
  rw [if_neg hl]
  cases h.tcp with
  | false =>
    simp only [Bool.false_eq_true, if_false, ssh_search]
    simp [noMatch, protoHandle_ssh]
  | true =>
    simp only [if_true, ssh_search, protoHandle_ssh]

/-- the Gh0st reply is answered with the Gh0st reply -/
theorem ghost_echo (h : Hop) (hl : h.looks) : bounce h Gen.ghostReply = .ok (some Gen.ghostReply) := by
  unfold bounce protoRepl
  rw [if_neg hl]
  cases h.tcp with
  | false =>
    simp only [Bool.false_eq_true, if_false, ghost_search]
    simp [noMatch, protoHandle_ghost]
  | true =>
    simp only [if_true, ghost_search, protoHandle_ghost]

/-- a hop that looks at payloads answers `d` with `r` when the matcher identifies `d` as `id` and the
    handler of `id` answers `r` -/
theorem bounce_of_search {h : Hop} {d r : Bytes} {id st n : Nat} (hl : h.looks) (hne : id ≠ noMatch)
    (hs : protoTbl.searchNext baseState d = .ok (id, st, n))
    (hh : ∀ tcb, ∃ tcb', protoHandle h.cfg h.env id h.ci tcb d = .ok (h.ci, tcb', some r)) :
    bounce h d = .ok (some r) := by
  unfold bounce protoRepl
  rw [if_neg hl]
  cases h.tcp with
  | false =>
    obtain ⟨t', e⟩ := hh none
    simp only [Bool.false_eq_true, if_false, hs, if_neg hne, e]
  | true =>
    obtain ⟨t', e⟩ := hh (some { protoId := id, smackState := st })
    simp only [if_true, hs]
    rw [show ({ smackState := st, protoId := id, protoState := ({} : Tcb).protoState } : Tcb) =
      { protoId := id, smackState := st } from rfl, e]

theorem chain_echo {r : Bytes} (he : ∀ h : Hop, h.looks → bounce h r = .ok (some r)) (hs : List Hop)
    (hl : ∀ h ∈ hs, h.looks) : chain hs r = hs.map (fun _ => r) := by
  induction hs with
  | nil => rfl
  | cons h hs ih =>
    simp only [chain, he h (hl h (by simp)), List.map_cons]
    rw [ih (fun x hx => hl x (by simp [hx]))]

/-- between hops that look at payloads the SSH banner bounces for ever: as many replies as hops -/
theorem ssh_chain (hs : List Hop) (hl : ∀ h ∈ hs, h.looks) : chainLen hs sshBanner = hs.length := by
  unfold chainLen; rw [chain_echo ssh_echo hs hl]; simp

theorem ghost_chain (hs : List Hop) (hl : ∀ h ∈ hs, h.looks) : chainLen hs Gen.ghostReply = hs.length := by
  unfold chainLen; rw [chain_echo ghost_echo hs hl]; simp

end Masscanned.C12
