/-
  Proofs/C12/Frames — frame-level closed form of `step` on a deliverable TCP frame whose flags are
  not those of the data arm (PSH and ACK both set): the segment reaches `tcpRepl`, the table comes
  back unchanged and the answer is the one of `nodataRes`.
-/
import Masscanned.Proofs.C12.Delivery
import Masscanned.Proofs.Tcp
namespace Masscanned.C12
open Masscanned

/-- reply-typed TCP flags: RST set, or SYN and ACK both set; and not (PSH and ACK) — the 9 flag bits -/
def replyFlags (fl : Nat) : Bool :=
  (fl &&& Spec.RST = Spec.RST || fl &&& (Spec.SYN + Spec.ACK) = Spec.SYN + Spec.ACK) &&
  !(fl &&& (Spec.PSH + Spec.ACK) = Spec.PSH + Spec.ACK)

/-- the same flags with PSH and ACK: these reach the data arm -/
def replyFlagsPsh (fl : Nat) : Bool :=
  (fl &&& Spec.RST = Spec.RST || fl &&& (Spec.SYN + Spec.ACK) = Spec.SYN + Spec.ACK) &&
  fl &&& (Spec.PSH + Spec.ACK) = Spec.PSH + Spec.ACK

theorem replyFlags_facts : ∀ f, f < 512 →
    (!replyFlags f || (decide (¬(f / 8 % 2 = 1 ∧ f / 16 % 2 = 1)) && decide (f ≠ 16) && decide (f ≠ 17)
        && !synOk f)) = true :=
  forall_lt_of_all 512 _ (by decide +kernel)

theorem replyFlagsPsh_facts : ∀ f, f < 512 →
    (!replyFlagsPsh f || decide (f / 8 % 2 = 1 ∧ f / 16 % 2 = 1)) = true :=
  forall_lt_of_all 512 _ (by decide +kernel)

theorem tcpFlags_lt (p : Bytes) : tcpFlags p < 512 := by
  unfold tcpFlags at8
  have := (p.getD 13 0).toNat_lt
  omega

theorem tcpFlags_eq (p : Bytes) : tcpFlags p = Spec.tcpFlagsOf p := rfl

/-- a reply-typed segment is dropped by `tcpRepl` whatever the table, which comes back unchanged -/
theorem tcpRepl_replyFlags (cfg : Cfg) (env : Env) (st : Table) (ci : ClientInfo) (p : Bytes)
    (h : replyFlags (tcpFlags p) = true) :
    ∃ evs, tcpRepl cfg env st ci p = .ok (evs, tcpCi ci p, st, none) := by
  have hf := replyFlags_facts _ (tcpFlags_lt p)
  rw [h] at hf
  simp only [Bool.not_true, Bool.false_or, Bool.and_eq_true, decide_eq_true_eq, Bool.not_eq_true'] at hf
  obtain ⟨⟨⟨hd, h16⟩, h17⟩, hs⟩ := hf
  refine ⟨(nodataRes cfg ci p).1, ?_⟩
  rw [tcpRepl_nodata cfg env st ci p hd]
  have : (nodataRes cfg ci p).2 = none := by
    unfold nodataRes
    rw [if_neg h16]
    split
    · rfl
    · simp only [hs, Bool.false_eq_true, if_false]
  rw [this]

/-- frame level, IPv4 -/
theorem step_tcp_v4 {cfg : Cfg} {env : Env} {st : Table} {f : Bytes}
    (hd : Spec.deliverable cfg f false 6 20 = true)
    (h : replyFlags (Spec.tcpFlagsOf (Spec.l4Bytes f)) = true) :
    (step cfg env st f).out = .ok none := by
  have hl : ¬ (Spec.l4Bytes f).length < 20 := by have := (deliverable4_elim hd).2.2.2.2.2.2; omega
  rw [step_out_v4 hd, ipv4Repl_deliverable env st _ hd]
  obtain ⟨evs, he⟩ := tcpRepl_replyFlags cfg env st
    { ({ ci0 f with ipSrc := some (.v4 (Spec.sub f 26 4)), ipDst := some (.v4 (Spec.sub f 30 4)) } : ClientInfo)
        with transport := some 6 } (Spec.l4Bytes f) h
  simp only [ipv4Deliver, show ¬ (6 = 1) by decide, if_false, if_true, hl, he, l3Out, Option.map_none]

/-- frame level, IPv6 -/
theorem step_tcp_v6 {cfg : Cfg} {env : Env} {st : Table} {f : Bytes}
    (hd : Spec.deliverable cfg f true 6 20 = true)
    (h : replyFlags (Spec.tcpFlagsOf (Spec.l4Bytes f)) = true) :
    (step cfg env st f).out = .ok none := by
  have hl : ¬ (Spec.l4Bytes f).length < 20 := by have := (deliverable6_elim hd).2.2.2.2.2.2; omega
  rw [step_out_v6 hd, ipv6Repl_deliverable env st _ hd]
  obtain ⟨evs, he⟩ := tcpRepl_replyFlags cfg env st
    { ({ ci0 f with ipSrc := some (.v6 (Spec.sub f 22 16)), ipDst := some (.v6 (Spec.sub f 38 16)) } : ClientInfo)
        with transport := some 6 } (Spec.l4Bytes f) h
  simp only [ipv6Deliver, show ¬ (6 = 58) by decide, if_false, if_true, hl, he, l3Out, Option.map_none]

end Masscanned.C12
