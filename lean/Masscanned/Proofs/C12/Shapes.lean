/-
  Proofs/C12/Shapes — what the replies of the nine responders look like, byte for byte as far as the
  chain bound needs it (first bytes, type words, flags), for EVERY input that makes the responder answer.
-/
import Masscanned.Proofs.C12.Bounce
import Masscanned.Thm.C14
import Masscanned.Thm.C15
import Masscanned.Thm.C17
import Masscanned.Proofs.Texts.Reply
namespace Masscanned.C12
open Masscanned Spec

/-! ### "is a reply of responder X" -/

def IsHttp (r : Bytes) : Prop := ∃ env, r = httpReplyBytes env
def IsStun (r : Bytes) : Prop := ∃ ci ci' d, stunRepl ci d = .ok (ci', some r)
def IsSsh (r : Bytes) : Prop := r = sshBanner
def IsGhost (r : Bytes) : Prop := r = Gen.ghostReply
def IsRpcTcp (r : Bytes) : Prop := ∃ ovf s s' ci d, rpcReplTcp ovf s ci d = .ok (s', some r)
def IsRpcUdp (r : Bytes) : Prop := ∃ ovf ci d, rpcReplUdp ovf ci d = .ok (some r)
def IsSmb1 (r : Bytes) : Prop := ∃ env d, smb1Repl env d = some r
def IsSmb2 (r : Bytes) : Prop := ∃ env d, smb2Repl env d = some r
def IsDns (r : Bytes) : Prop := ∃ ci p m, dnsParse p = some m ∧ dnsRepl ci m = some r

/-- a reply of `protoHandle` is a reply of the responder of that id -/
theorem protoHandle_reply {cfg : Cfg} {env : Env} {id : Nat} {ci ci' : ClientInfo} {tcb tcb' : Option Tcb}
    {d r : Bytes} (h : protoHandle cfg env id ci tcb d = .ok (ci', tcb', some r)) :
    (id = PROTO_HTTP ∧ IsHttp r) ∨ (id = PROTO_STUN ∧ IsStun r) ∨ (id = PROTO_SSH ∧ IsSsh r) ∨
    (id = PROTO_GHOST ∧ IsGhost r) ∨ (id = PROTO_RPC_TCP ∧ IsRpcTcp r) ∨ (id = PROTO_RPC_UDP ∧ IsRpcUdp r) ∨
    (id = PROTO_SMB1 ∧ IsSmb1 r) ∨ (id = PROTO_SMB2 ∧ IsSmb2 r) := by
  have http : ∀ {s s' : HttpSt}, httpRepl env s d = .ok (s', some r) → IsHttp r := by
    intro s s' hh
    unfold httpRepl at hh
    split at hh
    · cases hh
    · split at hh
      · simp only [Except.ok.injEq, Prod.mk.injEq, Option.some.injEq] at hh
        exact ⟨env, hh.2.symm⟩
      · simp only [Except.ok.injEq, Prod.mk.injEq] at hh
        exact absurd hh.2 (by simp)
  have ssh : sshRepl d = .ok (some r) → IsSsh r := by
    intro hh
    unfold sshRepl at hh
    split at hh
    · cases hh
    · simp only [Except.ok.injEq] at hh
      split at hh
      · cases hh; rfl
      · cases hh
  unfold protoHandle at h
  by_cases h1 : id = PROTO_HTTP
  · left
    refine ⟨h1, ?_⟩
    rw [if_pos h1] at h
    dsimp only at h
    repeat' split at h
    all_goals first
      | (cases h; done)
      | (cases h; exact http ‹_›)
  · rw [if_neg h1] at h
    by_cases h2 : id = PROTO_STUN
    · right; left
      refine ⟨h2, ?_⟩
      rw [if_pos h2] at h
      split at h
      · cases h
      · rename_i ci'' r' hs
        cases h
        exact ⟨_, _, _, hs⟩
    · rw [if_neg h2] at h
      by_cases h3 : id = PROTO_SSH
      · right; right; left
        refine ⟨h3, ?_⟩
        rw [if_pos h3] at h
        split at h
        · cases h
        · rename_i r' hs
          cases h
          exact ssh hs
      · rw [if_neg h3] at h
        by_cases h4 : id = PROTO_GHOST
        · right; right; right; left
          refine ⟨h4, ?_⟩
          rw [if_pos h4] at h
          cases h; rfl
        · rw [if_neg h4] at h
          by_cases h5 : id = PROTO_RPC_TCP
          · right; right; right; right; left
            refine ⟨h5, ?_⟩
            rw [if_pos h5] at h
            dsimp only at h
            repeat' split at h
            all_goals first
              | (cases h; done)
              | (cases h; exact ⟨_, _, _, _, _, ‹_›⟩)
          · rw [if_neg h5] at h
            by_cases h6 : id = PROTO_RPC_UDP
            · right; right; right; right; right; left
              refine ⟨h6, ?_⟩
              rw [if_pos h6] at h
              split at h
              · cases h
              · rename_i r' hs
                cases h
                exact ⟨_, _, _, hs⟩
            · rw [if_neg h6] at h
              by_cases h7 : id = PROTO_SMB1
              · right; right; right; right; right; right; left
                refine ⟨h7, ?_⟩
                rw [if_pos h7] at h
                simp only [Except.ok.injEq, Prod.mk.injEq] at h
                exact ⟨_, _, h.2.2⟩
              · rw [if_neg h7] at h
                by_cases h8 : id = PROTO_SMB2
                · right; right; right; right; right; right; right
                  refine ⟨h8, ?_⟩
                  rw [if_pos h8] at h
                  simp only [Except.ok.injEq, Prod.mk.injEq] at h
                  exact ⟨_, _, h.2.2⟩
                · rw [if_neg h8] at h
                  simp only [Except.ok.injEq, Prod.mk.injEq] at h
                  exact absurd h.2.2 (by simp)

/-! ### HTTP -/

/-- "HTTP/1.1 401" -/
def httpHead : Bytes := [72, 84, 84, 80, 47, 49, 46, 49, 32, 52, 48, 49]

theorem http_shape {r : Bytes} (h : IsHttp r) : ∃ rest, r = httpHead ++ rest := by
  obtain ⟨env, rfl⟩ := h
  exact Texts.httpReply_status env

/-! ### STUN -/

theorem stunParse_id {d : Bytes} {req : StunReq} (h : stunParse d = .ok (some req)) : req.id.length = 16 := by
  unfold stunParse at h
  split at h
  · cases h
  · rename_i hl
    dsimp only at h
    split at h
    · cases h
    · split at h
      · cases h
      · split at h
        · cases h
        · cases h
          simp [slice]; omega

/-- a STUN reply: `01 01`, length, the 16 bytes of the request's transaction id, one MAPPED-ADDRESS
    carrying the source address of the client info -/
theorem stun_shape_ci {ci ci' : ClientInfo} {d r : Bytes} (h : stunRepl ci d = .ok (ci', some r)) :
    ∃ tid ip port, ci.ipSrc = some ip ∧ tid.length = 16 ∧
      r = [1, 1] ++ u16be (stunMapped ip port).length ++ tid ++ stunMapped ip port := by
  unfold stunRepl at h
  split at h
  · cases h
  · cases h
  · rename_i req hp
    split at h
    · cases h
    · split at h
      · cases h
      · split at h
        · rename_i ip port hip _
          cases h
          exact ⟨req.id, ip, port, hip, stunParse_id hp, rfl⟩
        · cases h

theorem stun_shape {r : Bytes} (h : IsStun r) :
    ∃ tid ip port, tid.length = 16 ∧
      r = [1, 1] ++ u16be (stunMapped ip port).length ++ tid ++ stunMapped ip port := by
  obtain ⟨ci, ci', d, h⟩ := h
  obtain ⟨tid, ip, port, _, h1, h2⟩ := stun_shape_ci h
  exact ⟨tid, ip, port, h1, h2⟩

/-! ### ONC-RPC -/

theorem rpcPortmap_shape {s : RpcSt} {ip : Ip} {port : Nat} {body : Bytes} (h : rpcPortmap s ip port = .ok body) :
    ∃ x t, body = 0 :: 0 :: 0 :: x :: t := by
  unfold rpcPortmap at h
  split at h
  · split at h
    · cases h; exact ⟨_, _, rfl⟩
    · split at h
      · cases h; exact ⟨_, _, rfl⟩
      · cases h
  · split at h
    · dsimp only at h
      split at h
      · cases h; exact ⟨_, _, rfl⟩
      all_goals cases h
    · cases h; exact ⟨_, _, rfl⟩

/-- an ONC-RPC reply message: xid, message type 1 (REPLY), reply_stat 0, null verifier, and a body whose
    first word is below 256 -/
theorem rpcBuild_shape {s : RpcSt} {ci : ClientInfo} {resp : Bytes} (h : rpcBuild s ci = .ok resp) :
    ∃ x t, resp = u32be s.xid ++ [0, 0, 0, 1, 0, 0, 0, 0, 0, 0, 0, 0, 0, 0, 0, 0] ++ (0 :: 0 :: 0 :: x :: t) := by
  unfold rpcBuild at h
  dsimp only at h
  split at h
  · cases h; exact ⟨_, _, rfl⟩
  · split at h
    · cases h; exact ⟨_, _, rfl⟩
    · split at h
      · split at h
        · split at h
          · cases h
          · rename_i body hb
            cases h
            obtain ⟨x, t, rfl⟩ := rpcPortmap_shape hb
            exact ⟨_, _, rfl⟩
        · cases h
      · cases h; exact ⟨_, _, rfl⟩

theorem rpc_udp_shape {r : Bytes} (h : IsRpcUdp r) :
    ∃ x0 x1 x2 x3 x t, r = [x0, x1, x2, x3, 0, 0, 0, 1, 0, 0, 0, 0, 0, 0, 0, 0, 0, 0, 0, 0, 0, 0, 0, x] ++ t := by
  obtain ⟨ovf, ci, d, h⟩ := h
  unfold rpcReplUdp at h
  split at h
  · cases h
  · split at h
    · split at h
      · cases h
      · rename_i resp hb
        cases h
        obtain ⟨x, t, rfl⟩ := rpcBuild_shape hb
        exact ⟨_, _, _, _, x, t, rfl⟩
    · cases h

theorem rpc_tcp_shape {r : Bytes} (h : IsRpcTcp r) :
    ∃ m0 m1 m2 m3 x0 x1 x2 x3 x t, m0.toNat ≥ 128 ∧
      r = [m0, m1, m2, m3, x0, x1, x2, x3, 0, 0, 0, 1, 0, 0, 0, 0, 0, 0, 0, 0, 0, 0, 0, 0, 0, 0, 0, x] ++ t := by
  obtain ⟨ovf, s, s', ci, d, h⟩ := h
  unfold rpcReplTcp at h
  split at h
  · cases h
  · split at h
    · split at h
      · cases h
      · rename_i resp hb
        simp only [Except.ok.injEq, Prod.mk.injEq, Option.some.injEq] at h
        obtain ⟨x, t, e⟩ := rpcBuild_shape hb
        rw [← h.2, e]
        refine ⟨_, _, _, _, _, _, _, _, x, t, ?_, rfl⟩
        generalize (u32be _ ++ _ ++ _ : Bytes).length = l
        have : (byte (l / 16777216 % 256 + if l / 16777216 % 256 < 128 then 128 else 0)).toNat =
            (l / 16777216 % 256 + if l / 16777216 % 256 < 128 then 128 else 0) % 256 := by
          simp [byte]
        rw [this]
        split <;> omega
    · cases h

/-! ### SMB -/

theorem smb1Payload_cmd {env : Env} {c : Nat} {p body : Bytes} (h : smb1Payload env c p = some body) :
    c = 0x72 ∨ c = 0x73 := by
  unfold smb1Payload at h
  split at h
  · left; assumption
  · split at h
    · right; assumption
    · cases h

theorem byte_lit (n : Nat) (h : n < 256) : byte n = UInt8.ofNat n := by
  simp [byte, Nat.mod_eq_of_lt h]

theorem nbtWrap_small (M : Bytes) (h : M.length % 131072 / 65536 = 0) :
    ∃ l2 l3, nbtWrap M = 0 :: 0 :: l2 :: l3 :: M :=
  ⟨byte (M.length % 131072 % 65536 / 256), byte (M.length % 131072 % 65536), by simp [nbtWrap, h, u16be, byte]⟩

/-- an SMB1 reply: NetBIOS session header with zero type and flags bytes, `ff 'SMB'`, the command
    (negotiate or session setup), status 0, flags 0x98 (reply bit set) -/
theorem smb1_shape {r : Bytes} (h : IsSmb1 r) :
    ∃ l2 l3 cmd rest, (cmd = 0x72 ∨ cmd = 0x73) ∧ 254 ≤ r.length ∧
      r = [0, 0, l2, l3, 255, 83, 77, 66, cmd, 0, 0, 0, 0, 0x98] ++ rest := by
  obtain ⟨env, d, h⟩ := h
  have hlen := (C17.smb_reply_nonempty env d r).1 h
  unfold smb1Repl at h
  split at h
  · rename_i m hm
    cases h
    unfold smb1Message at hm
    split at hm
    · cases hm
    · dsimp only at hm
      split at hm
      · cases hm
      · split at hm
        · cases hm
        · rename_i body hb
          cases hm
          have hc := smb1Payload_cmd hb
          generalize hM : ([255, 83, 77, 66, byte (at8 (d.drop 4) 4)] ++ u32le 0 ++ [0x98] ++ u16le 0xc807 ++
            slice (d.drop 4) 12 2 ++ zeros 8 ++ zeros 2 ++ slice (d.drop 4) 24 2 ++ slice (d.drop 4) 26 2 ++
            slice (d.drop 4) 28 2 ++ slice (d.drop 4) 30 2 ++ body : Bytes) = M at hlen ⊢
          have hl : M.length = 405 ∨ M.length = 250 := by
            simp only [nbtWrap, List.length_append, List.length_cons, List.length_nil, u16be] at hlen
            omega
          have hsz : M.length % 131072 / 65536 = 0 := by omega
          obtain ⟨l2, l3, hw⟩ := nbtWrap_small M hsz
          refine ⟨l2, l3, byte (at8 (d.drop 4) 4), u16le 0xc807 ++
            slice (d.drop 4) 12 2 ++ zeros 8 ++ zeros 2 ++ slice (d.drop 4) 24 2 ++ slice (d.drop 4) 26 2 ++
            slice (d.drop 4) 28 2 ++ slice (d.drop 4) 30 2 ++ body, ?_, by omega, ?_⟩
          · rcases hc with hc | hc <;> rw [hc]
            · left; decide
            · right; decide
          · rw [hw, ← hM]
            simp [u32le, byte]
  · cases h

/-- an SMB2 reply: NetBIOS session header, `fe 'SMB'`, structure size 64, credit charge 0, status 0,
    command, credits 1, flags 1 (SERVER_TO_REDIR) -/
theorem smb2_shape {r : Bytes} (h : IsSmb2 r) :
    ∃ l2 l3 c0 c1 rest, 235 ≤ r.length ∧
      r = [0, 0, l2, l3, 254, 83, 77, 66, 64, 0, 0, 0, 0, 0, 0, 0, c0, c1, 1, 0, 1, 0, 0, 0] ++ rest := by
  obtain ⟨env, d, h⟩ := h
  have hlen := (C17.smb_reply_nonempty env d r).2 h
  unfold smb2Repl at h
  split at h
  · rename_i m hm
    cases h
    unfold smb2Message at hm
    split at hm
    · cases hm
    · dsimp only at hm
      split at hm
      · cases hm
      · split at hm
        · cases hm
        · rename_i body hb
          cases hm
          generalize hM : ([254, 83, 77, 66] ++ u16le 64 ++ u16le 0 ++ u32le 0 ++ u16le (rdLE (slice (d.drop 4) 12 2)) ++
            u16le 1 ++ u32le 1 ++ u32le 0 ++ slice (d.drop 4) 24 8 ++ slice (d.drop 4) 32 8 ++ slice (d.drop 4) 40 8 ++
            zeros 16 ++ body : Bytes) = M at hlen ⊢
          have hl : M.length = 448 ∨ M.length = 231 := by
            simp only [nbtWrap, List.length_append, List.length_cons, List.length_nil, u16be] at hlen
            omega
          have hsz : M.length % 131072 / 65536 = 0 := by omega
          obtain ⟨l2, l3, hw⟩ := nbtWrap_small M hsz
          refine ⟨l2, l3, byte (rdLE (slice (d.drop 4) 12 2)), byte (rdLE (slice (d.drop 4) 12 2) / 256),
            u32le 0 ++ slice (d.drop 4) 24 8 ++ slice (d.drop 4) 32 8 ++ slice (d.drop 4) 40 8 ++
            zeros 16 ++ body, by omega, ?_⟩
          rw [hw, ← hM]
          simp [u16le, u32le, byte]
  · cases h

/-! ### DNS -/

theorem dnsReadQ_name {d acc : Bytes} {q : DnsQ} {rest : Bytes} (h : dnsReadQ acc d = some (q, rest)) :
    ∃ s, q.name = acc ++ s ∧ (s = [0] ∨ ∃ b t, s = b :: t ∧ b ≠ 0) := by
  obtain ⟨n, _, hraw, hn, _⟩ := DnsFix.dnsReadQ_some h
  exact ⟨n, hn, hraw.head⟩

theorem dnsReadQs_head {n : Nat} {d : Bytes} {q : DnsQ} {qs : List DnsQ} {rest : Bytes}
    (h : dnsReadQs n d = some (q :: qs, rest)) : ∃ r', dnsReadQ [] d = some (q, r') := by
  cases n with
  | zero => simp [dnsReadQs] at h
  | succ n =>
    unfold dnsReadQs at h
    split at h
    · cases h
    · rename_i q' r' hq
      split at h
      · cases h
      · simp only [Option.some.injEq, Prod.mk.injEq, List.cons.injEq] at h
        rw [← h.1.1]
        exact ⟨r', hq⟩

/-- a DNS reply: id, a flags byte with QR set, a zero byte, the question count twice, no authority or
    additional records; then nothing, or a root name followed by type A, or a name starting with a
    non-empty label -/
def DnsShape (r : Bytes) : Prop :=
  ∃ i0 i1 fl q0 q1 rest, fl.toNat ≥ 128 ∧ r = [i0, i1, fl, 0, q0, q1, q0, q1, 0, 0, 0, 0] ++ rest ∧
    (rest = [] ∨ (∃ t, rest = 0 :: 0 :: 1 :: t) ∨ (∃ b t, rest = b :: t ∧ b ≠ 0))

theorem dns_shape {r : Bytes} (h : IsDns r) : DnsShape r := by
  obtain ⟨ci, p, m, hm, hr⟩ := h
  obtain ⟨_, _, _, _, _, _, _, rest, hqs, _⟩ := C14.dnsParse_some hm
  unfold dnsRepl at hr
  split at hr
  · cases hr
  · split at hr
    · cases hr
      have hfl : (byte (128 + m.flags / 2048 % 16 * 8 + 4 + m.flags / 256 % 2)).toNat ≥ 128 := by
        have : (byte (128 + m.flags / 2048 % 16 * 8 + 4 + m.flags / 256 % 2)).toNat =
            (128 + m.flags / 2048 % 16 * 8 + 4 + m.flags / 256 % 2) % 256 := by simp [byte]
        rw [this]; omega
      refine ⟨_, _, _, _, _, _, hfl, by simp only [u16be, List.cons_append, List.nil_append]; rfl, ?_⟩
      cases hq : m.qd with
      | nil => left; simp
      | cons q qs =>
        right
        rw [hq] at hqs
        obtain ⟨r', hq1⟩ := dnsReadQs_head hqs
        obtain ⟨s, hs, hc⟩ := dnsReadQ_name hq1
        simp only [List.nil_append] at hs
        rcases hc with rfl | ⟨b, t, rfl, hb⟩
        · left
          simp [hs]
        · right
          simp [hs, hb]
    · cases hr

end Masscanned.C12
