/-
  Proofs/C12/ReplyTyped — the "protocol-marked reply" predicates of C12 (written with the readers and
  parsers of Spec/ only) and what they imply for identification: such a payload is never identified as
  SSH or Gh0st (ONC-RPC in TCP framing excepted: its first eight bytes are free), never as its own
  protocol where the signature fixes the type (STUN, ONC-RPC).
-/
import Masscanned.Proofs.C12.Chain
import Masscanned.Thm.C16
namespace Masscanned.C12
open Masscanned Spec

/-- DNS message with QR = 1 -/
def dnsReply (p : Bytes) : Bool := Spec.be16 p 2 / 32768 = 1
/-- complete STUN message of class indication / success response / error response -/
def stunReply (p : Bytes) : Bool :=
  match Spec.parseStun p with
  | some m => m.cls ≠ 0
  | none => false
/-- SMB1 message (after the 4-byte NetBIOS header) with SMB_FLAGS_REPLY -/
def smb1Reply (p : Bytes) : Bool := Spec.smb1MustIgnore (p.drop 4) && decide (Spec.u8 (p.drop 4) 9 ≥ 128)
/-- SMB2 message (after the 4-byte NetBIOS header) with SMB2_FLAGS_SERVER_TO_REDIR -/
def smb2Reply (p : Bytes) : Bool := Spec.smb2MustIgnore (p.drop 4) && decide (Spec.le32 (p.drop 4) 16 % 2 = 1)
/-- ONC-RPC message of type 1 (REPLY), datagram framing: xid, type -/
def rpcReplyUdp (p : Bytes) : Bool := Spec.be32 p 4 = 1
/-- ONC-RPC message of type 1 (REPLY), TCP framing: record mark, xid, type -/
def rpcReplyTcp (p : Bytes) : Bool := Spec.be32 p 8 = 1
/-- the payload starts with one of the SSH signatures or the Gh0st signature -/
def startsSshOrGhost (p : Bytes) : Bool :=
  prefixMatch (lits "SSH-2.0") p || prefixMatch (lits "SSH-1.99") p || prefixMatch (lits "Gh0st") p

/-- a protocol-marked reply in the sense of C12; for ONC-RPC in TCP framing the record mark and xid
    must not spell an SSH or Gh0st signature (exact condition, see `rpc_tcp_reply_ssh_endless`) -/
def replyTyped (p : Bytes) : Bool :=
  dnsReply p || stunReply p || smb1Reply p || smb2Reply p || rpcReplyUdp p ||
  (rpcReplyTcp p && !startsSshOrGhost p)

theorem u8_lt' (p : Bytes) (i : Nat) : Spec.u8 p i < 256 := (p.getD i 0).toNat_lt

theorem sshGhostPats : ∀ e ∈ identPats, (e.2.1 = 3 ∨ e.2.1 = 4) →
    e.1 = lits "SSH-2.0" ∨ e.1 = lits "SSH-1.99" ∨ e.1 = lits "Gh0st" := by decide +kernel

theorem ident_ssh_ghost {p : Bytes} {id : Nat} (h : Ident p id) (hid : id = 3 ∨ id = 4) :
    startsSshOrGhost p = true := by
  obtain ⟨e, he, rfl, hpm, _⟩ := h
  unfold startsSshOrGhost
  rcases sshGhostPats e he hid with h | h | h <;> rw [h] at hpm <;> simp [hpm]

/-- identification with the ids 3, 4 excluded by single-byte facts -/
theorem not_ssh_ghost_of_facts {p : Bytes} {facts : List Fact} (hf : ∀ f ∈ facts, f.holds p)
    (hc : onlyIds [1, 2, 5, 6, 7, 8] facts [] 0 none = true) : ¬ Ident p 3 ∧ ¬ Ident p 4 := by
  constructor <;> intro hid <;>
    have := ident_allowed (allowed := [1, 2, 5, 6, 7, 8]) (eqs := []) (lo := 0) (hi := none) hid hf (by simp)
      (Nat.zero_le _) (by simp) hc <;> simp at this

theorem dnsReply_not_ssh {p : Bytes} (h : dnsReply p = true) : ¬ Ident p 3 ∧ ¬ Ident p 4 := by
  simp only [dnsReply, decide_eq_true_eq] at h
  apply not_ssh_ghost_of_facts (facts := [(2, fun c => decide (c.toNat ≥ 128))]) _ (by decide +kernel)
  intro f hf
  simp only [List.mem_singleton] at hf
  subst hf
  apply fact_of_u8
  intro c hc
  have := u8_lt' p 3
  simp only [Spec.be16, Nat.reduceAdd] at h
  simp only [decide_eq_true_eq]
  omega

theorem stunReply_u8 {p : Bytes} (h : stunReply p = true) : Spec.u8 p 0 < 64 := by
  unfold stunReply at h
  split at h
  · rename_i m hp
    unfold Spec.parseStun at hp
    split at hp
    · cases hp
    · omega
  · cases h

theorem stunReply_not_ssh {p : Bytes} (h : stunReply p = true) : ¬ Ident p 3 ∧ ¬ Ident p 4 := by
  have h0 := stunReply_u8 h
  apply not_ssh_ghost_of_facts (facts := [(0, fun c => decide (c.toNat < 64))]) _ (by decide +kernel)
  intro f hf
  simp only [List.mem_singleton] at hf
  subst hf
  apply fact_of_u8
  intro c hc
  simp only [decide_eq_true_eq]
  omega

theorem sub_head {m : Bytes} {a b c d : UInt8} (h : Spec.sub m 0 4 = [a, b, c, d]) : m[0]? = some a := by
  cases m with
  | nil => simp [Spec.sub] at h
  | cons x t =>
    simp only [Spec.sub, List.drop_zero, List.take_succ_cons, List.cons.injEq] at h
    simp [h.1]

theorem drop4_head {p : Bytes} {a : UInt8} (h : (p.drop 4)[0]? = some a) : p[4]? = some a := by
  rw [List.getElem?_drop] at h
  exact h

theorem smb1Reply_not_ssh {p : Bytes} (h : smb1Reply p = true) : ¬ Ident p 3 ∧ ¬ Ident p 4 := by
  simp only [smb1Reply, Spec.smb1MustIgnore, Bool.and_eq_true, decide_eq_true_eq] at h
  have h4 := drop4_head (sub_head h.1.1.2)
  apply not_ssh_ghost_of_facts (facts := [(4, (· == 255))]) _ (by decide +kernel)
  intro f hf
  simp only [List.mem_singleton] at hf
  subst hf
  exact fact_known h4 rfl

theorem smb2Reply_not_ssh {p : Bytes} (h : smb2Reply p = true) : ¬ Ident p 3 ∧ ¬ Ident p 4 := by
  simp only [smb2Reply, Spec.smb2MustIgnore, Bool.and_eq_true, decide_eq_true_eq] at h
  have h4 := drop4_head (sub_head h.1.1.2)
  apply not_ssh_ghost_of_facts (facts := [(4, (· == 254))]) _ (by decide +kernel)
  intro f hf
  simp only [List.mem_singleton] at hf
  subst hf
  exact fact_known h4 rfl

/-- the four bytes of a big-endian word equal to 1 -/
theorem be32_one {p : Bytes} {i : Nat} (h : Spec.be32 p i = 1) :
    Spec.u8 p i = 0 ∧ Spec.u8 p (i + 1) = 0 ∧ Spec.u8 p (i + 2) = 0 ∧ Spec.u8 p (i + 2 + 1) = 1 := by
  have a := u8_lt' p i
  have b := u8_lt' p (i + 1)
  have c := u8_lt' p (i + 2)
  have d := u8_lt' p (i + 2 + 1)
  simp only [Spec.be32, Spec.be16] at h
  omega

theorem rpcReplyUdp_not_ssh {p : Bytes} (h : rpcReplyUdp p = true) : ¬ Ident p 3 ∧ ¬ Ident p 4 := by
  simp only [rpcReplyUdp, decide_eq_true_eq] at h
  have h4 := (be32_one h).1
  apply not_ssh_ghost_of_facts (facts := [(4, (· == 0))]) _ (by decide +kernel)
  intro f hf
  simp only [List.mem_singleton] at hf
  subst hf
  apply fact_of_u8
  intro c hc
  have : c.toNat = 0 := by omega
  have : c = 0 := by
    apply UInt8.toNat_inj.1
    simpa using this
  subst this; rfl

theorem replyTyped_not_ssh {p : Bytes} (h : replyTyped p = true) : ¬ Ident p 3 ∧ ¬ Ident p 4 := by
  simp only [replyTyped, Bool.or_eq_true, Bool.and_eq_true, Bool.not_eq_true'] at h
  rcases h with ((((h | h) | h) | h) | h) | h
  · exact dnsReply_not_ssh h
  · exact stunReply_not_ssh h
  · exact smb1Reply_not_ssh h
  · exact smb2Reply_not_ssh h
  · exact rpcReplyUdp_not_ssh h
  · constructor <;> intro hid
    · have := ident_ssh_ghost hid (.inl rfl); rw [h.2] at this; cases this
    · have := ident_ssh_ghost hid (.inr rfl); rw [h.2] at this; cases this

/-! ### a reply-typed STUN / ONC-RPC message is never identified as its own protocol -/

theorem u8_eq_one_fact {p : Bytes} {i : Nat} (h : Spec.u8 p i = 1) : Fact.holds (i, (· == 1)) p := by
  apply fact_of_u8
  intro c hc
  have : c = 1 := by
    apply UInt8.toNat_inj.1
    rw [hc, h]; rfl
  subst this; rfl

theorem rpcReplyUdp_not_rpc {p : Bytes} (h : rpcReplyUdp p = true) : ¬ Ident p 6 := by
  simp only [rpcReplyUdp, decide_eq_true_eq] at h
  have h7 := (be32_one h).2.2.2
  intro hid
  have := ident_allowed (allowed := [1, 2, 3, 4, 5, 7, 8]) (facts := [(7, (· == 1))]) (eqs := []) (lo := 0)
    (hi := none) hid ?_ (by simp) (Nat.zero_le _) (by simp) (by decide +kernel)
  · simp at this
  · intro f hf
    simp only [List.mem_singleton] at hf
    subst hf
    exact u8_eq_one_fact h7

theorem rpcReplyTcp_not_rpc {p : Bytes} (h : rpcReplyTcp p = true) : ¬ Ident p 5 := by
  simp only [rpcReplyTcp, decide_eq_true_eq] at h
  have h11 := (be32_one h).2.2.2
  intro hid
  have := ident_allowed (allowed := [1, 2, 3, 4, 6, 7, 8]) (facts := [(11, (· == 1))]) (eqs := []) (lo := 0)
    (hi := none) hid ?_ (by simp) (Nat.zero_le _) (by simp) (by decide +kernel)
  · simp at this
  · intro f hf
    simp only [List.mem_singleton] at hf
    subst hf
    exact u8_eq_one_fact h11

theorem stunReply_not_stun {p : Bytes} (h : stunReply p = true) : ¬ Ident p 2 := by
  unfold stunReply at h
  split at h
  · rename_i m hp
    have hc : m.cls = (Spec.be16 p 0 / 256 % 2) * 2 + (Spec.be16 p 0 / 16 % 2) := by
      unfold Spec.parseStun at hp
      split at hp
      · cases hp
      · dsimp only at hp
        split at hp
        · cases hp
        · split at hp
          · cases hp
          · cases hp; rfl
    simp only [ne_eq, decide_not, Bool.not_eq_true', decide_eq_false_iff_not] at h
    have a := u8_lt' p 0
    have b := u8_lt' p 1
    simp only [Spec.be16, Nat.reduceAdd] at hc
    intro hid
    by_cases hodd : Spec.u8 p 0 % 2 = 1
    · have := ident_allowed (allowed := [1, 3, 4, 5, 6, 7, 8]) (facts := [(0, fun c => decide (c.toNat % 2 = 1))])
        (eqs := []) (lo := 0) (hi := none) hid ?_ (by simp) (Nat.zero_le _) (by simp) (by decide +kernel)
      · simp at this
      · intro f hf
        simp only [List.mem_singleton] at hf
        subst hf
        apply fact_of_u8
        intro c hcc
        simp only [decide_eq_true_eq]; omega
    · have hb4 : Spec.u8 p 1 / 16 % 2 = 1 := by omega
      have := ident_allowed (allowed := [1, 3, 4, 5, 6, 7, 8]) (facts := [(1, fun c => decide (c.toNat / 16 % 2 = 1))])
        (eqs := []) (lo := 0) (hi := none) hid ?_ (by simp) (Nat.zero_le _) (by simp) (by decide +kernel)
      · simp at this
      · intro f hf
        simp only [List.mem_singleton] at hf
        subst hf
        apply fact_of_u8
        intro c hcc
        simp only [decide_eq_true_eq]; omega
  · cases h

end Masscanned.C12
