/-
  Proofs/C12/Chain — what happens when a responder's own reply is fed to a responder (any hop):
  HTTP, ONC-RPC/TCP, SMB1, SMB2 and DNS replies get nothing; STUN and ONC-RPC/UDP replies get nothing
  or one DNS reply (through the DNS fallback), which gets nothing.  Hence every payload whose first
  answer is not the SSH banner or the Gh0st reply triggers at most two replies in total.
-/
import Masscanned.Proofs.C12.Shapes
namespace Masscanned.C12
open Masscanned Spec

/-- no signature identifies `r`: every hop stays silent or answers through the DNS fallback -/
theorem bounce_dns_or_none (h : Hop) (r : Bytes) (hno : ∀ id, ¬ Ident r id) :
    bounce h r = .ok none ∨ ∃ r2, bounce h r = .ok (some r2) ∧ IsDns r2 := by
  rcases bounce_noIdent h r hno with e | e
  · exact .inl e
  · cases hb : (dnsParse r).bind (dnsRepl h.ci) with
    | none => left; rw [e, hb]
    | some r2 =>
      right
      refine ⟨r2, by rw [e, hb], ?_⟩
      cases hm : dnsParse r with
      | none => rw [hm] at hb; cases hb
      | some m =>
        rw [hm] at hb
        exact ⟨h.ci, r, m, hm, hb⟩

theorem bounce_none_of (h : Hop) (r : Bytes) (hno : ∀ id, ¬ Ident r id) (hd : dnsParse r = none) :
    bounce h r = .ok none := by
  rcases bounce_noIdent h r hno with e | e
  · exact e
  · rw [e, hd]; rfl

/-! ### HTTP -/

theorem http_noIdent (rest : Bytes) (id : Nat) : ¬ Ident (httpHead ++ rest) id := by
  intro hid
  have := ident_allowed (allowed := []) (facts := [(0, (· == 72)), (1, (· == 84)), (4, (· == 47)), (8, (· == 32))])
    (eqs := []) (lo := 0) (hi := none) hid ?_ (by simp) (Nat.zero_le _) (by simp) (by decide +kernel)
  · simp at this
  · intro f hf
    simp only [List.mem_cons, List.not_mem_nil, or_false] at hf
    rcases hf with rfl | rfl | rfl | rfl <;> exact fact_known (b := _) (by simp [httpHead]; rfl) rfl

theorem http_silent {r : Bytes} (hr : IsHttp r) (h : Hop) : bounce h r = .ok none := by
  obtain ⟨rest, rfl⟩ := http_shape hr
  exact bounce_none_of h _ (http_noIdent rest) (dnsParse_ns_pos _ (by simp [httpHead, slice, rdBE]))

/-! ### ONC-RPC over TCP -/

theorem rpc_tcp_silent {r : Bytes} (hr : IsRpcTcp r) (h : Hop) : bounce h r = .ok none := by
  obtain ⟨m0, m1, m2, m3, x0, x1, x2, x3, x, t, hm0, rfl⟩ := rpc_tcp_shape hr
  refine bounce_none_of h _ ?_ (dnsParse_ar_pos _ (by simp [slice, rdBE]))
  intro id hid
  have := ident_allowed (allowed := [])
    (facts := [(0, fun c => decide (c.toNat ≥ 128)), (11, (· == 1)), (13, (· == 0))])
    (eqs := []) (lo := 0) (hi := none) hid ?_ (by simp) (Nat.zero_le _) (by simp) (by decide +kernel)
  · simp at this
  · intro f hf
    simp only [List.mem_cons, List.not_mem_nil, or_false] at hf
    rcases hf with rfl | rfl | rfl
    · exact fact_known (b := m0) (by simp) (by simpa using hm0)
    · exact fact_known (b := 1) (by simp) rfl
    · exact fact_known (b := 0) (by simp) rfl

/-! ### SMB -/

theorem protoHandle_smb1 (cfg : Cfg) (env : Env) (ci : ClientInfo) (tcb : Option Tcb) (d : Bytes) :
    protoHandle cfg env 7 ci tcb d = .ok (ci, tcb, smb1Repl env d) := by
  simp [protoHandle, PROTO_HTTP, PROTO_STUN, PROTO_SSH, PROTO_GHOST, PROTO_RPC_TCP, PROTO_RPC_UDP, PROTO_SMB1]

theorem protoHandle_smb2 (cfg : Cfg) (env : Env) (ci : ClientInfo) (tcb : Option Tcb) (d : Bytes) :
    protoHandle cfg env 8 ci tcb d = .ok (ci, tcb, smb2Repl env d) := by
  simp [protoHandle, PROTO_HTTP, PROTO_STUN, PROTO_SSH, PROTO_GHOST, PROTO_RPC_TCP, PROTO_RPC_UDP, PROTO_SMB1,
    PROTO_SMB2]

theorem smb1_silent {r : Bytes} (hr : IsSmb1 r) (h : Hop) : bounce h r = .ok none := by
  obtain ⟨l2, l3, cmd, rest, hcmd, hlen, rfl⟩ := smb1_shape hr
  have hown : ∀ env, smb1Repl env ([0, 0, l2, l3, 255, 83, 77, 66, cmd, 0, 0, 0, 0, 0x98] ++ rest) = none := by
    intro env
    unfold smb1Repl
    have : smb1Message env (([0, 0, l2, l3, 255, 83, 77, 66, cmd, 0, 0, 0, 0, 0x98] ++ rest).drop 4) = none := by
      unfold smb1Message
      split
      · rfl
      · dsimp only
        rw [if_pos (by simp [at8])]
    rw [this]
  have hdns : dnsParse ([0, 0, l2, l3, 255, 83, 77, 66, cmd, 0, 0, 0, 0, 0x98] ++ rest) = none := by
    apply dnsParse_ns_pos
    rcases hcmd with rfl | rfl <;> simp [slice, rdBE]
  rcases bounce_cases h _ with e | ⟨id, tcb, hid, e⟩ | e
  · exact e
  · have hin := ident_allowed (allowed := [7])
      (facts := [(0, (· == 0)), (1, (· == 0)), (4, (· == 255)), (13, (· == 0x98))])
      (eqs := []) (lo := 0) (hi := none) hid ?_ (by simp) (Nat.zero_le _) (by simp) (by decide +kernel)
    · simp only [List.mem_singleton] at hin
      subst hin
      rw [e, protoHandle_smb1, hown]; rfl
    · intro f hf
      simp only [List.mem_cons, List.not_mem_nil, or_false] at hf
      rcases hf with rfl | rfl | rfl | rfl <;> exact fact_known (b := _) (by simp; rfl) rfl
  · rw [e, hdns]; rfl

theorem smb2_silent {r : Bytes} (hr : IsSmb2 r) (h : Hop) : bounce h r = .ok none := by
  obtain ⟨l2, l3, c0, c1, rest, hlen, rfl⟩ := smb2_shape hr
  have hown : ∀ env, smb2Repl env
      ([0, 0, l2, l3, 254, 83, 77, 66, 64, 0, 0, 0, 0, 0, 0, 0, c0, c1, 1, 0, 1, 0, 0, 0] ++ rest) = none := by
    intro env
    unfold smb2Repl
    have : smb2Message env
        (([0, 0, l2, l3, 254, 83, 77, 66, 64, 0, 0, 0, 0, 0, 0, 0, c0, c1, 1, 0, 1, 0, 0, 0] ++ rest).drop 4) = none := by
      unfold smb2Message
      split
      · rfl
      · dsimp only
        rw [if_pos (by simp [slice, rdLE])]
    rw [this]
  have hdns : dnsParse ([0, 0, l2, l3, 254, 83, 77, 66, 64, 0, 0, 0, 0, 0, 0, 0, c0, c1, 1, 0, 1, 0, 0, 0] ++ rest) = none := by
    apply dnsParse_ns_pos
    simp [slice, rdBE]
  rcases bounce_cases h _ with e | ⟨id, tcb, hid, e⟩ | e
  · exact e
  · have hin := ident_allowed (allowed := [8])
      (facts := [(0, (· == 0)), (1, (· == 0)), (4, (· == 254)), (8, (· == 64))])
      (eqs := []) (lo := 0) (hi := none) hid ?_ (by simp) (Nat.zero_le _) (by simp) (by decide +kernel)
    · simp only [List.mem_singleton] at hin
      subst hin
      rw [e, protoHandle_smb2, hown]; rfl
    · intro f hf
      simp only [List.mem_cons, List.not_mem_nil, or_false] at hf
      rcases hf with rfl | rfl | rfl | rfl <;> exact fact_known (b := _) (by simp; rfl) rfl
  · rw [e, hdns]; rfl

/-! ### DNS -/

theorem dnsShape_noIdent {r : Bytes} (hs : DnsShape r) (id : Nat) : ¬ Ident r id := by
  obtain ⟨i0, i1, fl, q0, q1, rest, hfl, rfl, hc⟩ := hs
  intro hid
  have hf2 : Fact.holds (2, fun c => decide (c.toNat ≥ 128)) ([i0, i1, fl, 0, q0, q1, q0, q1, 0, 0, 0, 0] ++ rest) :=
    fact_known (b := fl) (by simp) (by simpa using hfl)
  have heq : ∀ e ∈ [((4 : Nat), (6 : Nat))],
      ([i0, i1, fl, 0, q0, q1, q0, q1, 0, 0, 0, 0] ++ rest)[e.1]? =
      ([i0, i1, fl, 0, q0, q1, q0, q1, 0, 0, 0, 0] ++ rest)[e.2]? := by
    intro e he
    simp only [List.mem_singleton] at he
    subst he
    simp
  rcases hc with rfl | ⟨t, rfl⟩ | ⟨b, t, rfl, hb⟩
  · have := ident_allowed (allowed := []) (facts := [(2, fun c => decide (c.toNat ≥ 128))])
      (eqs := [(4, 6)]) (lo := 0) (hi := some 12) hid ?_ heq (Nat.zero_le _) (by simp) (by decide +kernel)
    · simp at this
    · intro f hf
      simp only [List.mem_singleton] at hf
      subst hf; exact hf2
  · have := ident_allowed (allowed := [])
      (facts := [(2, fun c => decide (c.toNat ≥ 128)), (13, (· == 0)), (14, (· == 1))])
      (eqs := [(4, 6)]) (lo := 0) (hi := none) hid ?_ heq (Nat.zero_le _) (by simp) (by decide +kernel)
    · simp at this
    · intro f hf
      simp only [List.mem_cons, List.not_mem_nil, or_false] at hf
      rcases hf with rfl | rfl | rfl
      · exact hf2
      · exact fact_known (b := 0) (by simp) rfl
      · exact fact_known (b := 1) (by simp) rfl
  · have := ident_allowed (allowed := [])
      (facts := [(2, fun c => decide (c.toNat ≥ 128)), (12, (· != 0))])
      (eqs := [(4, 6)]) (lo := 0) (hi := none) hid ?_ heq (Nat.zero_le _) (by simp) (by decide +kernel)
    · simp at this
    · intro f hf
      simp only [List.mem_cons, List.not_mem_nil, or_false] at hf
      rcases hf with rfl | rfl
      · exact hf2
      · exact fact_known (b := b) (by simp) (by simpa using hb)

theorem dnsShape_qr {r : Bytes} (hs : DnsShape r) : rdBE (slice r 2 2) / 32768 = 1 := by
  obtain ⟨i0, i1, fl, q0, q1, rest, hfl, rfl, _⟩ := hs
  have := fl.toNat_lt
  simp [slice, rdBE]
  omega

theorem dns_silent {r : Bytes} (hr : IsDns r) (h : Hop) : bounce h r = .ok none := by
  have hs := dns_shape hr
  rcases bounce_noIdent h r (dnsShape_noIdent hs) with e | e
  · exact e
  · rw [e, dns_qr1_bind h.ci r (dnsShape_qr hs)]

/-! ### STUN and ONC-RPC over UDP: at most the DNS fallback answers -/

theorem stun_noIdent {r : Bytes} (hr : IsStun r) (id : Nat) : ¬ Ident r id := by
  obtain ⟨tid, ip, port, htid, rfl⟩ := stun_shape hr
  intro hid
  have hA : ([1, 1] ++ u16be (stunMapped ip port).length ++ tid).length = 20 := by simp [u16be, htid]
  have hget : ∀ k, ([1, 1] ++ u16be (stunMapped ip port).length ++ tid ++ stunMapped ip port)[20 + k]? =
      (stunMapped ip port)[k]? := by
    intro k
    rw [List.getElem?_append_right (by omega)]
    congr 1
    omega
  have := ident_allowed (allowed := [])
    (facts := [(0, (· == 1)), (21, (· == 1)), (25, fun c => c == 1 || c == 2)])
    (eqs := []) (lo := 0) (hi := none) hid ?_ (by simp) (Nat.zero_le _) (by simp) (by decide +kernel)
  · simp at this
  · intro f hf
    simp only [List.mem_cons, List.not_mem_nil, or_false] at hf
    rcases hf with rfl | rfl | rfl
    · exact fact_known (b := 1) (by simp [u16be]) rfl
    · refine fact_known (b := 1) ?_ rfl
      rw [show (21 : Nat) = 20 + 1 from rfl, hget]
      cases ip <;> simp [stunMapped]
    · cases ip with
      | v4 a =>
        refine fact_known (b := 1) ?_ rfl
        rw [show (25 : Nat) = 20 + 5 from rfl, hget]
        simp [stunMapped]
      | v6 a =>
        refine fact_known (b := 2) ?_ rfl
        rw [show (25 : Nat) = 20 + 5 from rfl, hget]
        simp [stunMapped]

theorem rpc_udp_noIdent {r : Bytes} (hr : IsRpcUdp r) (id : Nat) : ¬ Ident r id := by
  obtain ⟨x0, x1, x2, x3, x, t, rfl⟩ := rpc_udp_shape hr
  intro hid
  have := ident_allowed (allowed := [])
    (facts := [(4, (· == 0)), (7, (· == 1)), (17, (· == 0)), (21, (· == 0))])
    (eqs := []) (lo := 24) (hi := none) hid ?_ (by simp) (by simp) (by simp) (by decide +kernel)
  · simp at this
  · intro f hf
    simp only [List.mem_cons, List.not_mem_nil, or_false] at hf
    rcases hf with rfl | rfl | rfl | rfl <;> exact fact_known (b := _) (by simp; rfl) rfl

/-! ### replies that die out -/

/-- a reply that every hop leaves unanswered, or answers with a DNS reply -/
def Quiet (r : Bytes) : Prop := ∀ h : Hop, bounce h r = .ok none ∨ ∃ r2, bounce h r = .ok (some r2) ∧ IsDns r2

theorem quiet_chain {r : Bytes} (hq : Quiet r) (hs : List Hop) : chainLen hs r ≤ 1 := by
  cases hs with
  | nil => simp [chainLen, chain]
  | cons h hs =>
    rcases hq h with e | ⟨r2, e, hd⟩
    · simp [chainLen, chain, e]
    · cases hs with
      | nil => simp [chainLen, chain, e]
      | cons h2 hs => simp [chainLen, chain, e, dns_silent hd h2]

theorem quiet_of_reply {r : Bytes}
    (h : IsHttp r ∨ IsStun r ∨ IsRpcTcp r ∨ IsRpcUdp r ∨ IsSmb1 r ∨ IsSmb2 r ∨ IsDns r) : Quiet r := by
  intro hop
  rcases h with h | h | h | h | h | h | h
  · exact .inl (http_silent h hop)
  · exact bounce_dns_or_none hop r (stun_noIdent h)
  · exact .inl (rpc_tcp_silent h hop)
  · exact bounce_dns_or_none hop r (rpc_udp_noIdent h)
  · exact .inl (smb1_silent h hop)
  · exact .inl (smb2_silent h hop)
  · exact .inl (dns_silent h hop)

theorem replyOf_some {x : Except Site (ClientInfo × Option Tcb × Option Bytes)} {r : Bytes}
    (h : replyOf x = .ok (some r)) : ∃ ci t, x = .ok (ci, t, some r) := by
  unfold replyOf at h
  split at h
  · cases h
  · cases h; exact ⟨_, _, rfl⟩

/-- the first answer to a payload that is not identified as SSH or Gh0st is a reply of one of the other
    seven responders -/
theorem first_reply_kind {p r : Bytes} (h : Hop) (h3 : ¬ Ident p 3) (h4 : ¬ Ident p 4)
    (hb : bounce h p = .ok (some r)) :
    IsHttp r ∨ IsStun r ∨ IsRpcTcp r ∨ IsRpcUdp r ∨ IsSmb1 r ∨ IsSmb2 r ∨ IsDns r := by
  rcases bounce_cases h p with e | ⟨id, tcb, hid, e⟩ | e
  · rw [e] at hb; cases hb
  · rw [e] at hb
    obtain ⟨ci', t', hh⟩ := replyOf_some hb
    rcases protoHandle_reply hh with ⟨_, hr⟩ | ⟨_, hr⟩ | ⟨hi, _⟩ | ⟨hi, _⟩ | ⟨_, hr⟩ | ⟨_, hr⟩ | ⟨_, hr⟩ | ⟨_, hr⟩
    · exact .inl hr
    · exact .inr (.inl hr)
    · subst hi; exact absurd hid h3
    · subst hi; exact absurd hid h4
    · exact .inr (.inr (.inl hr))
    · exact .inr (.inr (.inr (.inl hr)))
    · exact .inr (.inr (.inr (.inr (.inl hr))))
    · exact .inr (.inr (.inr (.inr (.inr (.inl hr)))))
  · rw [e] at hb
    cases hm : dnsParse p with
    | none => rw [hm] at hb; cases hb
    | some m =>
      rw [hm] at hb
      simp only [Option.bind_some, Except.ok.injEq] at hb
      exact .inr (.inr (.inr (.inr (.inr (.inr ⟨h.ci, p, m, hm, hb⟩)))))

/-- … and dies out -/
theorem first_reply_quiet {p r : Bytes} (h : Hop) (h3 : ¬ Ident p 3) (h4 : ¬ Ident p 4)
    (hb : bounce h p = .ok (some r)) : Quiet r :=
  quiet_of_reply (first_reply_kind h h3 h4 hb)

/-- **chain bound**: a payload that is not identified as SSH or Gh0st triggers at most two replies in
    total, whatever the hops -/
theorem chain_le_two {p : Bytes} (h3 : ¬ Ident p 3) (h4 : ¬ Ident p 4) (hs : List Hop) : chainLen hs p ≤ 2 := by
  cases hs with
  | nil => simp [chainLen, chain]
  | cons h hs =>
    unfold chainLen chain
    split
    · rename_i r hb
      have := quiet_chain (first_reply_quiet h h3 h4 hb) hs
      unfold chainLen at this
      simp only [List.length_cons]
      omega
    · simp

end Masscanned.C12
