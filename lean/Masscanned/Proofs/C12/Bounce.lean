/-
  Proofs/C12/Bounce — vocabulary of the chain bound of C12: a *hop* (one responder looking at a payload
  on a fresh flow), `bounce` (its application reply), `chain` (feeding each reply to the next hop), and
  the case analysis of `bounce` by identification.
-/
import Masscanned.Proofs.C12.Dispatch
namespace Masscanned.C12
open Masscanned Spec

/-- one responder receiving a payload on a fresh flow: its configuration and clock, the client info
    of the flow as the layers below filled it, and the transport (datagram: no control block; TCP:
    fresh control block).  The hops of a chain are independent: two different responders, or the
    same one seeing the flow from the other side. -/
structure Hop where
  cfg : Cfg
  env : Env
  ci : ClientInfo
  tcp : Bool

/-- the application reply of `proto::repl` to payload `p` on a fresh flow (`.error` = the responder panics) -/
def bounce (h : Hop) (p : Bytes) : Except Site (Option Bytes) :=
  match protoRepl h.cfg h.env h.ci (if h.tcp then some {} else none) p with
  | .error e => .error e
  | .ok (_, _, r) => .ok r

/-- the replies obtained by feeding `p` to the first hop, its reply to the second hop, and so on; the
    chain stops at the first hop that stays silent (or panics: a panicked responder sends nothing) -/
def chain : List Hop → Bytes → List Bytes
  | [], _ => []
  | h :: hs, p =>
    match bounce h p with
    | .ok (some r) => r :: chain hs r
    | _ => []

/-- number of replies in total -/
def chainLen (hs : List Hop) (p : Bytes) : Nat := (chain hs p).length

/-- the reply part of a handler result -/
def replyOf (x : Except Site (ClientInfo × Option Tcb × Option Bytes)) : Except Site (Option Bytes) :=
  match x with
  | .error e => .error e
  | .ok (_, _, r) => .ok r

theorem bounce_eq (h : Hop) (p : Bytes) :
    bounce h p = replyOf (protoRepl h.cfg h.env h.ci (if h.tcp then some {} else none) p) := rfl

theorem replyOf_dnsFallback (ci : ClientInfo) (p : Bytes) :
    replyOf (dnsFallback ci p) = .ok ((dnsParse p).bind (dnsRepl ci)) := by
  unfold dnsFallback
  cases dnsParse p with
  | none => rfl
  | some m =>
    cases hr : dnsRepl ci m with
    | none => simp [replyOf, hr]
    | some r => simp [replyOf, hr]

/-- a hop stays silent, or answers through the handler of an identified protocol, or (datagram) through
    the DNS fallback -/
theorem bounce_cases (h : Hop) (p : Bytes) :
    bounce h p = .ok none ∨
    (∃ id tcb, Ident p id ∧ bounce h p = replyOf (protoHandle h.cfg h.env id h.ci tcb p)) ∨
    bounce h p = .ok ((dnsParse p).bind (dnsRepl h.ci)) := by
  rw [bounce_eq]
  cases ht : h.tcp with
  | false =>
    simp only [Bool.false_eq_true, if_false]
    rcases protoRepl_none h.cfg h.env h.ci p with ⟨_, _, e⟩ | ⟨id, hid, e⟩ | e
    · left; rw [e]; rfl
    · right; left; exact ⟨id, none, hid, by rw [e]⟩
    · right; right; rw [e, replyOf_dnsFallback]
  | true =>
    simp only [if_true]
    rcases protoRepl_fresh h.cfg h.env h.ci p with ⟨_, _, e⟩ | ⟨id, st, hid, e⟩ | ⟨t, e⟩
    · left; rw [e]; rfl
    · right; left; exact ⟨id, _, hid, by rw [e]⟩
    · left; rw [e]; rfl

/-- a payload no signature identifies gets nothing, except possibly the DNS fallback's answer (datagram) -/
theorem bounce_noIdent (h : Hop) (p : Bytes) (hno : ∀ id, ¬ Ident p id) :
    bounce h p = .ok none ∨ bounce h p = .ok ((dnsParse p).bind (dnsRepl h.ci)) := by
  rcases bounce_cases h p with e | ⟨id, _, hid, _⟩ | e
  · exact .inl e
  · exact absurd hid (hno id)
  · exact .inr e

theorem fact_known {p : Bytes} {i : Nat} {b : UInt8} {pr : UInt8 → Bool} (h : p[i]? = some b) (hb : pr b = true) :
    Fact.holds (i, pr) p := by
  intro c hc
  have hc' : p[i]? = some c := hc
  rw [h] at hc'
  cases hc'
  exact hb

/-! ### the DNS parser refuses anything announcing authority or additional records -/

theorem dnsParse_ns_pos (d : Bytes) (h : rdBE (slice d 8 2) > 0) : dnsParse d = none := by
  unfold dnsParse
  split
  · rfl
  · dsimp only
    split
    · rfl
    · split
      · rfl
      · rw [if_pos (Or.inl h)]

theorem dnsParse_ar_pos (d : Bytes) (h : rdBE (slice d 10 2) > 0) : dnsParse d = none := by
  unfold dnsParse
  split
  · rfl
  · dsimp only
    split
    · rfl
    · split
      · rfl
      · rw [if_pos (Or.inr h)]

/-- a message with QR = 1 is never answered by the DNS fallback -/
theorem dns_qr1_bind (ci : ClientInfo) (p : Bytes) (h : rdBE (slice p 2 2) / 32768 = 1) :
    (dnsParse p).bind (dnsRepl ci) = none := by
  cases hm : dnsParse p with
  | none => rfl
  | some m =>
    simp only [Option.bind_some]
    have : m.flags = rdBE (slice p 2 2) := by
      unfold dnsParse at hm
      split at hm
      · cases hm
      · dsimp only at hm
        split at hm
        · cases hm
        · split at hm
          · cases hm
          · split at hm
            · cases hm
            · cases hm; rfl
    unfold dnsRepl
    rw [if_pos (by rw [this]; exact h)]

end Masscanned.C12
