/-
  Proofs/C12/Dispatch — `proto::repl` on a fresh flow (datagram: no control block; TCP: a fresh
  block), expressed with the identification relation `Ident` of Proofs/C12/Matcher:
  the answer is the one of the handler of an identified protocol, or (datagrams only) of the DNS
  fallback, or nothing.
-/
import Masscanned.Proofs.C12.Matcher
import Masscanned.Spec.Wire
namespace Masscanned.C12
open Masscanned Spec

/-- the DNS fallback of `proto::repl` (no signature matched, datagram) -/
def dnsFallback (ci : ClientInfo) (p : Bytes) : Except Site (ClientInfo × Option Tcb × Option Bytes) :=
  match dnsParse p with
  | some m =>
    match dnsRepl ci m with
    | some r => .ok (ci, none, some r)
    | none => .ok (ci, none, none)
  | none => .ok (ci, none, none)

theorem protoHandle_noMatch (cfg : Cfg) (env : Env) (ci : ClientInfo) (tcb : Option Tcb) (d : Bytes) :
    protoHandle cfg env noMatch ci tcb d = .ok (ci, tcb.map (fun t => { t with protoId := PROTO_NONE }), none) := by
  simp [protoHandle, noMatch, PROTO_HTTP, PROTO_STUN, PROTO_SSH, PROTO_GHOST, PROTO_RPC_TCP, PROTO_RPC_UDP,
    PROTO_SMB1, PROTO_SMB2]

/-- `proto::repl` on a datagram (or any call without control block) -/
theorem protoRepl_none (cfg : Cfg) (env : Env) (ci : ClientInfo) (p : Bytes) :
    (ci.transport = some 6 ∧ ci.cookie = none ∧ protoRepl cfg env ci none p = .ok (ci, none, none)) ∨
    (∃ id, Ident p id ∧ protoRepl cfg env ci none p = protoHandle cfg env id ci none p) ∨
    (protoRepl cfg env ci none p = dnsFallback ci p) := by
  by_cases hc : ci.transport = some 6 ∧ ci.cookie = none
  · left
    exact ⟨hc.1, hc.2, by unfold protoRepl; rw [if_pos hc]⟩
  · right
    unfold protoRepl
    rw [if_neg hc]
    rcases searchNext_sound p with ⟨st, hst, h1, hi⟩ | ⟨st, n, id, h1, hid⟩
    · simp only [h1, if_true]
      rcases searchNextEnd_sound p st hst hi with ⟨st', h2⟩ | ⟨id, st', h2, hid⟩
      · right
        simp only [h2, if_true, dnsFallback]
        cases hm : dnsParse p with
        | none => simp [protoHandle_noMatch]
        | some m =>
          cases hr : dnsRepl ci m with
          | none => simp [hr, protoHandle_noMatch]
          | some r => simp [hr]
      · left
        have hne := ident_ne_noMatch hid
        exact ⟨id, hid, by simp only [h2, if_neg hne]⟩
    · left
      have hne := ident_ne_noMatch hid
      exact ⟨id, hid, by simp only [h1, if_neg hne]⟩

/-- `proto::repl` on the first data segment of a TCP flow (fresh control block) -/
theorem protoRepl_fresh (cfg : Cfg) (env : Env) (ci : ClientInfo) (p : Bytes) :
    (ci.transport = some 6 ∧ ci.cookie = none ∧ protoRepl cfg env ci (some {}) p = .ok (ci, some {}, none)) ∨
    (∃ id st, Ident p id ∧
      protoRepl cfg env ci (some {}) p = protoHandle cfg env id ci (some { protoId := id, smackState := st }) p) ∨
    (∃ t, protoRepl cfg env ci (some {}) p = .ok (ci, some t, none)) := by
  by_cases hc : ci.transport = some 6 ∧ ci.cookie = none
  · left
    exact ⟨hc.1, hc.2, by unfold protoRepl; rw [if_pos hc]⟩
  · right
    unfold protoRepl
    rw [if_neg hc]
    simp only [if_true]
    rcases searchNext_sound p with ⟨st, hst, h1, hi⟩ | ⟨st, n, id, h1, hid⟩
    · right
      simp only [h1, protoHandle_noMatch]
      exact ⟨_, rfl⟩
    · left
      exact ⟨id, st, hid, by simp only [h1]⟩

/-! ### refuting identifications from known facts about the payload -/

theorem pm_getElem {w : List Sym} {p : Bytes} (h : prefixMatch w p = true) {i : Nat} {c : UInt8}
    (hw : w[i]? = some (.lit c)) : p[i]? = some c := by
  induction w generalizing p i with
  | nil => simp at hw
  | cons y w ih =>
    cases p with
    | nil => simp [prefixMatch] at h
    | cons b t =>
      simp only [prefixMatch, Bool.and_eq_true] at h
      cases i with
      | zero =>
        simp only [List.getElem?_cons_zero, Option.some.injEq] at hw
        subst hw
        simp only [symMatch, decide_eq_true_eq] at h
        simp [h.1]
      | succ i =>
        simp only [List.getElem?_cons_succ] at hw ⊢
        exact ih h.2 hw

theorem pm_length {w : List Sym} {p : Bytes} (h : prefixMatch w p = true) : w.length ≤ p.length := by
  induction w generalizing p with
  | nil => simp
  | cons y w ih =>
    cases p with
    | nil => simp [prefixMatch] at h
    | cons b t =>
      simp only [prefixMatch, Bool.and_eq_true] at h
      have := ih h.2
      simp; omega

/-- a fact about a payload: the byte at position `.1`, when present, satisfies `.2` -/
abbrev Fact := Nat × (UInt8 → Bool)

def Fact.holds (f : Fact) (p : Bytes) : Prop := ∀ c, p[f.1]? = some c → f.2 c = true

/-- pattern `w` has a literal at a position where a fact excludes it -/
def refutedBy (w : List Sym) (facts : List Fact) : Bool :=
  facts.any fun f => match w[f.1]? with
    | some (.lit c) => !f.2 c
    | _ => false

/-- pattern `w` has different literals at two positions known to carry the same byte -/
def refutedEq (w : List Sym) (eqs : List (Nat × Nat)) : Bool :=
  eqs.any fun e => match w[e.1]?, w[e.2]? with
    | some (.lit c), some (.lit c') => c != c'
    | _, _ => false

theorem refutedBy_sound {w : List Sym} {p : Bytes} {facts : List Fact} (h : prefixMatch w p = true)
    (hf : ∀ f ∈ facts, f.holds p) : refutedBy w facts = false := by
  rw [Bool.eq_false_iff]
  intro hr
  simp only [refutedBy, List.any_eq_true] at hr
  obtain ⟨f, hfm, hx⟩ := hr
  split at hx
  · rename_i c hw
    have := hf f hfm c (pm_getElem h hw)
    simp [this] at hx
  · cases hx

theorem refutedEq_sound {w : List Sym} {p : Bytes} {eqs : List (Nat × Nat)} (h : prefixMatch w p = true)
    (he : ∀ e ∈ eqs, p[e.1]? = p[e.2]?) : refutedEq w eqs = false := by
  rw [Bool.eq_false_iff]
  intro hr
  simp only [refutedEq, List.any_eq_true] at hr
  obtain ⟨e, hem, hx⟩ := hr
  split at hx
  · rename_i c c' hw hw'
    have h1 := pm_getElem h hw
    have h2 := pm_getElem h hw'
    rw [he e hem, h2] at h1
    simp only [Option.some.injEq] at h1
    simp [h1] at hx
  · cases hx

/-- every justification of an id outside `allowed` is refuted by the facts, the equalities or the length
    bounds `lo ≤ length` (`hi`: `length ≤ hi` when `some hi`) -/
def onlyIds (allowed : List Nat) (facts : List Fact) (eqs : List (Nat × Nat)) (lo : Nat) (hi : Option Nat) : Bool :=
  identPats.all fun e =>
    allowed.contains e.2.1 || refutedBy e.1 facts || refutedEq e.1 eqs ||
    (e.2.2 && decide (e.1.length < lo)) ||
    (match hi with | some h => decide (h < e.1.length) | none => false)

theorem ident_allowed {p : Bytes} {id : Nat} {allowed : List Nat} {facts : List Fact} {eqs : List (Nat × Nat)}
    {lo : Nat} {hi : Option Nat} (hid : Ident p id)
    (hf : ∀ f ∈ facts, f.holds p) (he : ∀ e ∈ eqs, p[e.1]? = p[e.2]?) (hlo : lo ≤ p.length)
    (hhi : ∀ h, hi = some h → p.length ≤ h)
    (hc : onlyIds allowed facts eqs lo hi = true) : id ∈ allowed := by
  obtain ⟨e, hem, rfl, hpm, hwhole⟩ := hid
  have := List.all_eq_true.1 hc e hem
  simp only [Bool.or_eq_true, Bool.and_eq_true, decide_eq_true_eq, List.contains_iff_mem] at this
  rcases this with (((h | h) | h) | h) | h
  · exact h
  · rw [refutedBy_sound hpm hf] at h; cases h
  · rw [refutedEq_sound hpm he] at h; cases h
  · have := hwhole h.1; omega
  · split at h
    · rename_i hh
      have h1 := hhi hh rfl
      have h2 := pm_length hpm
      simp only [decide_eq_true_eq] at h
      omega
    · cases h

/-- facts from readers: `Spec.u8 p i = v` -/
theorem fact_of_u8 {p : Bytes} {i : Nat} {pr : UInt8 → Bool} (h : ∀ c : UInt8, c.toNat = Spec.u8 p i → pr c = true) :
    Fact.holds (i, pr) p := by
  intro c hc
  apply h
  have hc' : p[i]? = some c := hc
  simp [Spec.u8, List.getD_eq_getElem?_getD, hc']

end Masscanned.C12
