/-
  Proofs/J2/Frame — one frame that `Spec.tcpDelivered` recognises, at the level of `step`:
  the model reaches `tcpRepl` on exactly the bytes and the flow the judge sees, the table after the
  frame is the one `tcpRepl` returned, and the reply frame (if any) is read back by `Spec.replyTcp` as
  the segment `tcpRepl` emitted with its checksum field filled in.  A frame that is not `tcpDelivered`
  leaves the table unchanged.
-/
import Masscanned.Proofs.E2E.FrameTcp
import Masscanned.Proofs.Ref
import Masscanned.Proofs.C08.Frame
import Masscanned.Spec.Judge
namespace Masscanned.J2
open Masscanned

/-! ### the checksum write does not disturb what `Spec.meets` reads -/

theorem u8_take {b : Bytes} {n i : Nat} (h : i < n) : Spec.u8 (b.take n) i = Spec.u8 b i := by
  simp [Spec.u8, List.getD_eq_getElem?_getD, h]

theorem setU16_length (r : Bytes) (c : Nat) (h : r.length ≥ 18) : (setU16 r 16 c).length = r.length := by
  simp [setU16, u16be]; omega

theorem setU16_u8 (r : Bytes) (c i : Nat) (h : r.length ≥ 18) (hi : i < 16) :
    Spec.u8 (setU16 r 16 c) i = Spec.u8 r i := by
  unfold setU16
  rw [List.append_assoc, E2E.Fr.u8_append_left (by simp; omega), u8_take hi]

theorem meets_setU16 {e : Spec.Expect} {r : Bytes} (c : Nat) (h : Spec.meets e (some r) = true) :
    Spec.meets e (some (setU16 r 16 c)) = true := by
  cases e with
  | silent => simp [Spec.meets] at h
  | reply fl pf sq ak ep =>
    have hl : r.length ≥ 20 := by
      simp only [Spec.meets, Bool.and_eq_true, decide_eq_true_eq] at h
      exact h.1.1.1.1
    have hlen := setU16_length r c (by omega)
    have hf : Spec.tcpFlagsOf (setU16 r 16 c) = Spec.tcpFlagsOf r := by
      simp only [Spec.tcpFlagsOf, setU16_u8 r c _ (by omega : r.length ≥ 18) (by omega : 12 < 16),
        setU16_u8 r c _ (by omega : r.length ≥ 18) (by omega : 13 < 16)]
    have h4 : Spec.be32 (setU16 r 16 c) 4 = Spec.be32 r 4 := by
      simp only [Spec.be32, Spec.be16, setU16_u8 r c _ (by omega : r.length ≥ 18) (by omega : 4 < 16),
        setU16_u8 r c _ (by omega : r.length ≥ 18) (by omega : 4 + 1 < 16),
        setU16_u8 r c _ (by omega : r.length ≥ 18) (by omega : 4 + 2 < 16),
        setU16_u8 r c _ (by omega : r.length ≥ 18) (by omega : 4 + 2 + 1 < 16)]
    have h8 : Spec.be32 (setU16 r 16 c) 8 = Spec.be32 r 8 := by
      simp only [Spec.be32, Spec.be16, setU16_u8 r c _ (by omega : r.length ≥ 18) (by omega : 8 < 16),
        setU16_u8 r c _ (by omega : r.length ≥ 18) (by omega : 8 + 1 < 16),
        setU16_u8 r c _ (by omega : r.length ≥ 18) (by omega : 8 + 2 < 16),
        setU16_u8 r c _ (by omega : r.length ≥ 18) (by omega : 8 + 2 + 1 < 16)]
    simp only [Spec.meets, hlen, hf, h4, h8] at h ⊢
    exact h

/-! ### reading the reply frame back -/

theorem drop_hdrs (E H L : Bytes) (n : Nat) (h : E.length + H.length = n) : (E ++ (H ++ L)).drop n = L := by
  rw [← List.append_assoc, List.drop_append_of_le_length (by simp; omega)]
  rw [List.drop_of_length_le (by simp; omega)]; rfl

theorem replyTcp_v4 (cfg : Cfg) (f src dst L : Bytes) (hm : cfg.mac.length = 6)
    (hl : 14 ≤ f.length) (he : Spec.be16 f 12 = 0x0800) (hs : src.length = 4) (hd : dst.length = 4)
    (hL : 20 + L.length ≤ 65535) :
    Spec.replyTcp (C12.ethWrap cfg f (ipv4Hdr src dst 6 (20 + L.length) ++ L)) = some L := by
  obtain ⟨-, h12, -, h23, -⟩ := E2E.Fr.reply_v4_frame cfg f src dst L 6 hm hl he hs hd hL
  unfold Spec.replyTcp
  rw [if_pos ⟨h12, h23⟩, E2E.Fr.ethWrap_eq,
    drop_hdrs _ _ _ 34 (by rw [E2E.Fr.ethHdr_length cfg f hm (by omega), E2E.Fr.ipv4Hdr_length _ _ _ _ hs hd])]

theorem replyTcp_v6 (cfg : Cfg) (f src dst L : Bytes) (hlim : Nat) (hm : cfg.mac.length = 6)
    (hl : 14 ≤ f.length) (he : Spec.be16 f 12 = 0x86dd) (hs : src.length = 16) (hd : dst.length = 16)
    (hL : L.length ≤ 65535) :
    Spec.replyTcp (C12.ethWrap cfg f (ipv6Hdr src dst 6 L.length hlim ++ L)) = some L := by
  obtain ⟨-, h12, -, h20, -⟩ := E2E.Fr.reply_v6_frame cfg f src dst L 6 hlim hm hl he hs hd hL
  unfold Spec.replyTcp
  rw [if_neg (by rw [h12]; omega), if_pos ⟨h12, h20⟩, E2E.Fr.ethWrap_eq,
    drop_hdrs _ _ _ 54 (by rw [E2E.Fr.ethHdr_length cfg f hm (by omega), E2E.Fr.ipv6Hdr_length _ _ _ _ _ hs hd])]

/-! ### the cookie depends on the addresses only through their bytes -/

theorem cookie_bytes (k0 k1 : UInt64) {s d s' d' : Ip} (a b : Nat) (hs : s.bytes = s'.bytes) (hd : d.bytes = d'.bytes) :
    cookie k0 k1 s d a b = cookie k0 k1 s' d' a b := by
  unfold cookie cookieMsg; rw [hs, hd]

theorem ipOf_bytes (b : Bytes) : (Spec.ipOf b).bytes = b := by
  unfold Spec.ipOf; split <;> rfl

theorem flowCookie_eq (cfg : Cfg) (s d : Ip) (a b : Nat) :
    Spec.flowCookie cfg { src := s.bytes, dst := d.bytes, sport := a, dport := b } = cookie cfg.k0 cfg.k1 s d a b := by
  unfold Spec.flowCookie
  exact cookie_bytes _ _ _ _ (ipOf_bytes _) (ipOf_bytes _)

/-! ### `tcpDelivered` -/

theorem tcpDelivered_some {cfg : Cfg} {f : Bytes} {fl : Spec.Flow} {t : Bytes}
    (h : Spec.tcpDelivered cfg f = some (fl, t)) :
    ∃ v6 : Bool, Spec.deliverable cfg f v6 6 20 = true ∧ t = Spec.l4Bytes f ∧
      fl = { src := (if v6 then Ip.v6 (Spec.sub f 22 16) else Ip.v4 (Spec.sub f 26 4)).bytes,
             dst := (if v6 then Ip.v6 (Spec.sub f 38 16) else Ip.v4 (Spec.sub f 30 4)).bytes,
             sport := Spec.be16 t 0, dport := Spec.be16 t 2 } := by
  unfold Spec.tcpDelivered at h
  dsimp only at h
  split at h
  · rename_i hd
    obtain ⟨-, -, -, -, hs, hdst⟩ := E2E.Fr.deliverable_facts hd
    rw [hs, hdst] at h
    simp only [Option.some.injEq, Prod.mk.injEq] at h
    refine ⟨_, hd, h.2.symm, ?_⟩
    rw [← h.1, ← h.2]
  · cases h

theorem tcpDelivered_none {cfg : Cfg} {f : Bytes} (h : Spec.tcpDelivered cfg f = none) :
    C08.delivered cfg f = false := by
  cases hd : C08.delivered cfg f with
  | false => rfl
  | true =>
    exfalso
    unfold C08.delivered at hd
    have key : ∀ v6 : Bool, Spec.deliverable cfg f v6 6 20 = true → False := by
      intro v6 hv
      obtain ⟨-, h12, -, -, hs, hdst⟩ := E2E.Fr.deliverable_facts hv
      have hv6 : decide (Spec.be16 f 12 = 0x86dd) = v6 := by
        cases v6 <;> simp [h12]
      unfold Spec.tcpDelivered at h
      dsimp only at h
      rw [hv6, if_pos hv, hs, hdst] at h
      cases h
    rw [Bool.or_eq_true] at hd
    rcases hd with hd | hd
    · exact key _ hd
    · exact key _ hd

/-- a frame the judges do not regard as delivered to TCP leaves the connection table unchanged
    (and its reply does not depend on the table) -/
theorem step_not_delivered {cfg : Cfg} (env : Env) (st : Table) {f : Bytes}
    (h : Spec.tcpDelivered cfg f = none) : (step cfg env st f).st = st := by
  have hd : C08.dataFrame cfg f = false := by
    unfold C08.dataFrame; rw [tcpDelivered_none h]; rfl
  exact (C08.step_other env st st hd).2.2

/-! ### a delivered frame reaches `tcpRepl`; its reply is the emitted segment -/

/-- what `step` did with a delivered TCP frame that did not panic: it ran `tcpRepl` on the judge's bytes
    `t` with the judge's cookie, kept the table `tcpRepl` returned, and answered iff `tcpRepl` did — with a
    frame that `Spec.replyTcp` reads back as the emitted segment, checksum filled in (this last part needs
    a 6-byte own MAC, as every real configuration has) -/
structure Reached (cfg : Cfg) (env : Env) (st : Table) (f : Bytes) (fl : Spec.Flow) (t : Bytes)
    (o : Option Bytes) : Prop where
  len : t.length ≥ 20
  run : ∃ (ci ci' : ClientInfo) (evs : List Ev) (r : Option Bytes),
    tcpCk cfg ci t = Spec.flowCookie cfg fl ∧
    tcpRepl cfg env st ci t = .ok (evs, ci', (step cfg env st f).st, r) ∧
    ((r = none ∧ o = none) ∨ ∃ r0 R c, r = some r0 ∧ o = some R ∧
      (cfg.mac.length = 6 → Spec.replyTcp R = some (setU16 r0 16 c)))

theorem reached_v4 {cfg : Cfg} {env : Env} {st : Table} {f : Bytes} {o : Option Bytes}
    (hd : Spec.deliverable cfg f false 6 20 = true) (ho : (step cfg env st f).out = .ok o) :
    Reached cfg env st f
      { src := Spec.sub f 26 4, dst := Spec.sub f 30 4, sport := Spec.be16 (Spec.l4Bytes f) 0,
        dport := Spec.be16 (Spec.l4Bytes f) 2 } (Spec.l4Bytes f) o := by
  obtain ⟨hl34, -, he, -, -, -, h20⟩ := C12.deliverable4_elim hd
  have h20' : ¬ (Spec.l4Bytes f).length < 20 := by omega
  refine ⟨h20, ?_⟩
  let ci : ClientInfo :=
    { ({ C12.ci0 f with ipSrc := some (.v4 (Spec.sub f 26 4)), ipDst := some (.v4 (Spec.sub f 30 4)) } : ClientInfo)
        with transport := some 6 }
  have hck : tcpCk cfg ci (Spec.l4Bytes f) = Spec.flowCookie cfg
      { src := Spec.sub f 26 4, dst := Spec.sub f 30 4, sport := Spec.be16 (Spec.l4Bytes f) 0,
        dport := Spec.be16 (Spec.l4Bytes f) 2 } := by
    rw [tcpCk_eq (cfg := cfg) (ci := ci) h20 rfl rfl]
    exact (flowCookie_eq cfg (.v4 (Spec.sub f 26 4)) (.v4 (Spec.sub f 30 4)) _ _).symm
  have hs : (Spec.sub f 26 4).length = 4 := by simp [Spec.sub]; omega
  have hdl : (Spec.sub f 30 4).length = 4 := by simp [Spec.sub]; omega
  rw [C12.step_out_v4 hd, C12.ipv4Repl_deliverable env st _ hd] at ho
  have hst := E2E.Fr.step_st_v4 (env := env) (st := st) hd
  rw [C12.ipv4Repl_deliverable env st _ hd] at hst
  simp only [C12.ipv4Deliver, show ¬ (6 = 1) by decide, if_false, if_true, h20'] at ho hst
  cases hT : tcpRepl cfg env st ci (Spec.l4Bytes f) with
  | error e => simp only [ci] at hT; rw [hT] at ho; simp [C12.l3Out] at ho
  | ok x =>
    obtain ⟨evs, ci', st', r⟩ := x
    simp only [ci] at hT
    rw [hT] at ho hst
    cases r with
    | none =>
      simp only [C12.l3Out, E2E.Fr.l3St] at ho hst
      refine ⟨ci, ci', evs, none, hck, ?_, .inl ⟨rfl, ?_⟩⟩
      · rw [hst]; exact hT
      · simpa using ho.symm
    | some r0 =>
      dsimp only at ho hst
      generalize hc : csumPseudo (Spec.sub f 30 4) (Spec.sub f 26 4) 6 r0 = c at ho hst
      split at ho
      · simp [C12.l3Out] at ho
      · rename_i hL
        rw [if_neg hL] at hst
        simp only [E2E.Fr.l3St] at hst
        simp only [C12.l3Out, Option.map_some, Except.ok.injEq] at ho
        refine ⟨ci, ci', evs, some r0, hck, ?_, .inr ⟨r0, _, c, rfl, ho.symm, ?_⟩⟩
        · rw [hst]; exact hT
        · intro hm; exact replyTcp_v4 cfg f _ _ _ hm (by omega) he hdl hs (by omega)

theorem reached_v6 {cfg : Cfg} {env : Env} {st : Table} {f : Bytes} {o : Option Bytes}
    (hd : Spec.deliverable cfg f true 6 20 = true) (ho : (step cfg env st f).out = .ok o) :
    Reached cfg env st f
      { src := Spec.sub f 22 16, dst := Spec.sub f 38 16, sport := Spec.be16 (Spec.l4Bytes f) 0,
        dport := Spec.be16 (Spec.l4Bytes f) 2 } (Spec.l4Bytes f) o := by
  obtain ⟨hl54, -, he, -, -, -, h20⟩ := C12.deliverable6_elim hd
  have h20' : ¬ (Spec.l4Bytes f).length < 20 := by omega
  refine ⟨h20, ?_⟩
  let ci : ClientInfo :=
    { ({ C12.ci0 f with ipSrc := some (.v6 (Spec.sub f 22 16)), ipDst := some (.v6 (Spec.sub f 38 16)) } : ClientInfo)
        with transport := some 6 }
  have hck : tcpCk cfg ci (Spec.l4Bytes f) = Spec.flowCookie cfg
      { src := Spec.sub f 22 16, dst := Spec.sub f 38 16, sport := Spec.be16 (Spec.l4Bytes f) 0,
        dport := Spec.be16 (Spec.l4Bytes f) 2 } := by
    rw [tcpCk_eq (cfg := cfg) (ci := ci) h20 rfl rfl]
    exact (flowCookie_eq cfg (.v6 (Spec.sub f 22 16)) (.v6 (Spec.sub f 38 16)) _ _).symm
  have hs : (Spec.sub f 22 16).length = 16 := by simp [Spec.sub]; omega
  have hdl : (Spec.sub f 38 16).length = 16 := by simp [Spec.sub]; omega
  rw [C12.step_out_v6 hd, C12.ipv6Repl_deliverable env st _ hd] at ho
  have hst := E2E.Fr.step_st_v6 (env := env) (st := st) hd
  rw [C12.ipv6Repl_deliverable env st _ hd] at hst
  simp only [C12.ipv6Deliver, show ¬ (6 = 58) by decide, if_false, if_true, h20'] at ho hst
  cases hT : tcpRepl cfg env st ci (Spec.l4Bytes f) with
  | error e => simp only [ci] at hT; rw [hT] at ho; simp [C12.l3Out] at ho
  | ok x =>
    obtain ⟨evs, ci', st', r⟩ := x
    simp only [ci] at hT
    rw [hT] at ho hst
    cases r with
    | none =>
      simp only [C12.l3Out, E2E.Fr.l3St] at ho hst
      refine ⟨ci, ci', evs, none, hck, ?_, .inl ⟨rfl, ?_⟩⟩
      · rw [hst]; exact hT
      · simpa using ho.symm
    | some r0 =>
      dsimp only at ho hst
      generalize hc : csumPseudo (Spec.sub f 38 16) (Spec.sub f 22 16) 6 r0 = c at ho hst
      split at ho
      · simp [C12.l3Out] at ho
      · rename_i hL
        rw [if_neg hL] at hst
        simp only [E2E.Fr.l3St] at hst
        simp only [C12.l3Out, Option.map_some, Except.ok.injEq] at ho
        refine ⟨ci, ci', evs, some r0, hck, ?_, .inr ⟨r0, _, c, rfl, ho.symm, ?_⟩⟩
        · rw [hst]; exact hT
        · intro hm; exact replyTcp_v6 cfg f _ _ _ 64 hm (by omega) he hdl hs (by omega)

/-- a frame the judges regard as delivered to TCP, processed without panic -/
theorem reached {cfg : Cfg} {env : Env} {st : Table} {f : Bytes} {fl : Spec.Flow} {t : Bytes} {o : Option Bytes}
    (hd : Spec.tcpDelivered cfg f = some (fl, t))
    (ho : (step cfg env st f).out = .ok o) : Reached cfg env st f fl t o := by
  obtain ⟨v6, hv, ht, hfl⟩ := tcpDelivered_some hd
  subst ht
  cases v6 with
  | false => rw [hfl]; exact reached_v4 hv ho
  | true => rw [hfl]; exact reached_v6 hv ho

end Masscanned.J2
