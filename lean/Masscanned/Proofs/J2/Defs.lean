/-
  Proofs/J2/Defs — vocabulary of the judge-soundness theorems (Thm/C07Judge, Thm/C09Judge):
  the joint run of the model (`step`) and of a stateful judge (`Spec.judgeC07` / `Spec.judgeC09`)
  over a list of frames, the two "cookie collision" clauses, and the no-collision hypotheses.
-/
import Masscanned.Model.Net
import Masscanned.Spec.Judge
namespace Masscanned.J2
open Masscanned Masscanned.Spec

/-- the clause `judgeC07` emits when the failing segment's cookie is the cookie of ANOTHER validated flow -/
def collisionClauseC07 : String := "segment judged through another flow's table entry (cookie collision)"

/-- the clause `judgeC09` emits when the table has as many entries as there are distinct COOKIES of
    validated flows, but fewer than there are validated flows -/
def collisionClauseC09 : String := "table smaller than the number of validated flows (cookie collision)"

/-- joint run for C07: the model processes the frames one after the other from table `st`
    (`st_{i+1} = (step cfg env st_i f_i).st`); the reply `o_i` of each step (`(step …).out = .ok o_i`)
    is handed to `judgeC07` together with the frame, the judge state being threaded through.
    Result: the verdicts, the final judge state and the final table — or the panic site if some step of
    the model panics (the real process aborts there; nothing is judged after that). -/
def runC07 (cfg : Cfg) (env : Env) : Table → JState → List Bytes → Except Site (List Verdict × JState × Table)
  | st, js, [] => .ok ([], js, st)
  | st, js, f :: fs =>
    match (step cfg env st f).out with
    | .error e => .error e
    | .ok o =>
      match runC07 cfg env (step cfg env st f).st (judgeC07 cfg js f o).1 fs with
      | .error e => .error e
      | .ok (vs, js', st') => .ok ((judgeC07 cfg js f o).2 :: vs, js', st')

/-- joint run for C09: the same, the judge being given the table size after each frame -/
def runC09 (cfg : Cfg) (env : Env) : Table → JState → List Bytes → Except Site (List Verdict × JState × Table)
  | st, js, [] => .ok ([], js, st)
  | st, js, f :: fs =>
    match (step cfg env st f).out with
    | .error e => .error e
    | .ok _ =>
      match runC09 cfg env (step cfg env st f).st (judgeC09 cfg js f (step cfg env st f).st.length).1 fs with
      | .error e => .error e
      | .ok (vs, js', st') => .ok ((judgeC09 cfg js f (step cfg env st f).st.length).2 :: vs, js', st')

/-- the segment has PSH and ACK set (the only segments whose answer depends on the connection table) -/
def isData (t : Bytes) : Bool := decide (tcpFlagsOf t &&& (PSH + ACK) = PSH + ACK)

/-- the judge state after a delivered TCP segment `t` of flow `fl` (the same update in `judgeC07` and
    `judgeC09`): the flow becomes validated when the reference model says so and it was not yet -/
def jsNext (cfg : Cfg) (js : JState) (fl : Flow) (t : Bytes) : JState :=
  if (refTcp (js.validated.contains fl) (flowCookie cfg fl) (segOf t)).2 = true ∧ (!js.validated.contains fl) = true
  then { js with validated := js.validated ++ [fl] } else js

/-- no two validated flows share a cookie (a predicate of the final judge state) -/
def NoCollision (cfg : Cfg) (js : JState) : Prop := (js.validated.map (flowCookie cfg)).Nodup

instance (cfg : Cfg) (js : JState) : Decidable (NoCollision cfg js) := by unfold NoCollision; infer_instance

/-- no delivered TCP data segment of the run belongs to a flow whose cookie is the cookie of a
    DIFFERENT validated flow (validated at any time of the run: `js` is the final judge state) -/
def noCollisionSeen (cfg : Cfg) (fs : List Bytes) (js : JState) : Bool :=
  fs.all fun f =>
    match tcpDelivered cfg f with
    | none => true
    | some (fl, t) => !isData t || js.validated.all fun g => decide (flowCookie cfg g = flowCookie cfg fl → g = fl)

/-- what a failing `judgeC07` verdict on frame `f` is blamed on: the frame is a delivered TCP data
    segment of a flow `fl`, and some OTHER flow `g`, validated in `js`, has the same cookie -/
def Collides (cfg : Cfg) (js : JState) (f : Bytes) : Prop :=
  ∃ fl t, tcpDelivered cfg f = some (fl, t) ∧ isData t = true ∧
    ∃ g ∈ js.validated, g ≠ fl ∧ flowCookie cfg g = flowCookie cfg fl

end Masscanned.J2
