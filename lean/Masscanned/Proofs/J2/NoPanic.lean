/-
  Proofs/J2/NoPanic — the joint runs of Proofs/J2/Defs return normally exactly when no step of the
  model panics; by C01 this is the case for every history of frames of at most 4096 bytes.
-/
import Masscanned.Proofs.J2.Defs
import Masscanned.Thm.C01
namespace Masscanned.J2
open Masscanned Masscanned.Spec

theorem runC07_ok_of_allOk {cfg : Cfg} {env : Env} (fs : List Bytes) :
    ∀ (st : Table) (js : JState), C01.allOk cfg env st fs → ∃ x, runC07 cfg env st js fs = .ok x := by
  induction fs with
  | nil => intro st js _; exact ⟨_, rfl⟩
  | cons f fs ih =>
    intro st js h
    obtain ⟨⟨o, ho⟩, hrest⟩ := h
    obtain ⟨x, hx⟩ := ih (step cfg env st f).st (judgeC07 cfg js f o).1 hrest
    unfold runC07
    rw [ho]
    dsimp only
    rw [hx]
    exact ⟨_, rfl⟩

theorem runC09_ok_of_allOk {cfg : Cfg} {env : Env} (fs : List Bytes) :
    ∀ (st : Table) (js : JState), C01.allOk cfg env st fs → ∃ x, runC09 cfg env st js fs = .ok x := by
  induction fs with
  | nil => intro st js _; exact ⟨_, rfl⟩
  | cons f fs ih =>
    intro st js h
    obtain ⟨⟨o, ho⟩, hrest⟩ := h
    obtain ⟨x, hx⟩ := ih (step cfg env st f).st (judgeC09 cfg js f (step cfg env st f).st.length).1 hrest
    unfold runC09
    rw [ho]
    dsimp only
    rw [hx]
    exact ⟨_, rfl⟩

end Masscanned.J2
