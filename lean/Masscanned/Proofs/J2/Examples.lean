/-
  Proofs/J2/Examples — concrete joint runs for the non-vacuity examples and the K1 witnesses of
  Thm/C07Judge and Thm/C09Judge: configuration `cfg0` (key (0,0)), the colliding flows A, B of
  Proofs/C07Ex, flow C of Proofs/C08/Examples.
-/
import Masscanned.Proofs.J2.Defs
import Masscanned.Proofs.C08.Examples
namespace Masscanned.J2ex
open Masscanned Masscanned.Spec Masscanned.J2 Masscanned.C07ex Masscanned.C08ex

def flowA : Flow := { src := [1, 2, 3, 4], dst := [10, 0, 0, 1], sport := 34624, dport := 80 }
def flowB : Flow := { src := [1, 2, 3, 5], dst := [10, 0, 0, 1], sport := 9175, dport := 80 }
def flowC : Flow := { src := [1, 2, 3, 6], dst := [10, 0, 0, 1], sport := 1000, dport := 80 }

/-- flow B's data segment of `frameB`, but acknowledging B's cookie + 1 = 1983115676 (the cookie B
    shares with A): valid first data of B -/
def frameB2 : Bytes :=
  [2, 0, 0, 0, 0, 1, 2, 0, 0, 0, 0, 9, 8, 0, 69, 0, 0, 40, 0, 0, 64, 0, 64, 6, 44, 201, 1, 2, 3, 5, 10, 0, 0, 1] ++
  [35, 215, 0, 80, 0, 0, 0, 1, 118, 51, 241, 156, 80, 24, 255, 255, 0, 0, 0, 0]

/-- the decidable part of a joint run: per verdict (`ok`, `nontrivial`), the validated flows, the table size -/
def summary (r : Except Site (List Verdict × JState × Table)) : Option (List (Bool × Bool) × List Flow × Nat) :=
  match r with
  | .ok (vs, js, st) => some (vs.map (fun v => (v.ok, v.nontrivial)), js.validated, st.length)
  | .error _ => none

theorem summary_ok {r : Except Site (List Verdict × JState × Table)} {a : List (Bool × Bool)} {b : List Flow}
    {c : Nat} (h : summary r = some (a, b, c)) :
    ∃ vs st, r = .ok (vs, { validated := b }, st) ∧ vs.map (fun v => (v.ok, v.nontrivial)) = a ∧ st.length = c := by
  cases r with
  | error e => cases h
  | ok x =>
    obtain ⟨vs, js, st⟩ := x
    simp only [summary, Option.some.injEq, Prod.mk.injEq] at h
    obtain ⟨h1, h2, h3⟩ := h
    cases js
    simp only at h2
    subst h2
    exact ⟨vs, st, rfl, h1, h3⟩

/-- SYN of A, valid first data of A (ack = cookie + 1), valid first data of a second flow C:
    three non-trivial `ok` verdicts, two validated flows, two table entries -/
theorem c07_three : summary (runC07 cfg0 env0 [] {} [frameSyn, frameA, frameC]) =
    some ([(true, true), (true, true), (true, true)], [flowA, flowC], 2) := by decide +kernel

theorem c09_three : summary (runC09 cfg0 env0 [] {} [frameSyn, frameA, frameC]) =
    some ([(true, true), (true, true), (true, true)], [flowA, flowC], 2) := by decide +kernel

/-- the mixed history of C08 (ARP, SYN, data of A, ICMP, data of C, UDP, undelivered data, more data of A) -/
theorem c07_hist : summary (runC07 cfg0 env0 [] {} hist) =
    some ([(true, false), (true, true), (true, true), (true, false), (true, true), (true, false), (true, false),
      (true, true)], [flowA, flowC], 2) := by decide +kernel

/-- K1 under `judgeC07`: A validates, then B (same cookie, never validated: wrong ack) is answered
    through A's entry — the second verdict fails, although the validated flows `[flowA]` do not collide -/
theorem c07_k1 : summary (runC07 cfg0 env0 [] {} [frameA, frameB]) =
    some ([(true, true), (false, true)], [flowA], 1) := by decide +kernel

/-- K1 under `judgeC09`: A and B both validate (same cookie): two validated flows, one table entry -/
theorem c09_k1 : summary (runC09 cfg0 env0 [] {} [frameA, frameB2]) =
    some ([(true, true), (false, true)], [flowA, flowB], 1) := by decide +kernel

theorem flows_collide : flowA ≠ flowB ∧ flowCookie cfg0 flowA = flowCookie cfg0 flowB := by decide +kernel

theorem hyps_three : noCollisionSeen cfg0 [frameSyn, frameA, frameC] { validated := [flowA, flowC] } = true ∧
    NoCollision cfg0 { validated := [flowA, flowC] } := by decide +kernel

theorem hyps_k1 : noCollisionSeen cfg0 [frameA, frameB] { validated := [flowA] } = false ∧
    NoCollision cfg0 { validated := [flowA] } ∧ ¬ NoCollision cfg0 { validated := [flowA, flowB] } := by
  decide +kernel

theorem small : (∀ f ∈ [frameSyn, frameA, frameC], f.length ≤ 4096) ∧ cfg0.mac.length = 6 ∧
    env0.httpDate.length ≤ 64 := by decide

end Masscanned.J2ex
