/-
  Proofs/J2/Sim — the simulation invariant between the model's connection table and the judges' state:
  the keys of the table, in order, are the distinct cookies of the validated flows, in order of first
  validation (`Inv`).  One TCP segment (`tcp_sim`), one frame under `judgeC07` / `judgeC09`.
-/
import Masscanned.Proofs.J2.Frame
import Masscanned.Proofs.J2.Defs
namespace Masscanned.J2
open Masscanned Masscanned.Spec

/-! ### `Spec.dedup` -/

theorem dedup_nil : dedup [] = [] := rfl

theorem dedup_snoc (l : List Nat) (x : Nat) :
    dedup (l ++ [x]) = if (dedup l).contains x then dedup l else dedup l ++ [x] := by
  simp [dedup, List.foldl_append]

theorem foldl_dedup_mem (l acc : List Nat) (c : Nat) :
    c ∈ l.foldl (fun acc x => if acc.contains x then acc else acc ++ [x]) acc ↔ c ∈ acc ∨ c ∈ l := by
  induction l generalizing acc with
  | nil => simp
  | cons x l ih =>
    simp only [List.foldl_cons, ih, List.mem_cons]
    by_cases hx : acc.contains x = true
    · rw [if_pos hx]
      have : x ∈ acc := by simpa using hx
      constructor
      · rintro (h | h); exact .inl h; exact .inr (.inr h)
      · rintro (h | h | h); exact .inl h; exact .inl (h ▸ this); exact .inr h
    · rw [if_neg hx]
      simp only [List.mem_append, List.mem_singleton]
      constructor
      · rintro ((h | h) | h); exact .inl h; exact .inr (.inl h); exact .inr (.inr h)
      · rintro (h | h | h); exact .inl (.inl h); exact .inl (.inr h); exact .inr h

theorem mem_dedup (l : List Nat) (c : Nat) : c ∈ dedup l ↔ c ∈ l := by
  unfold dedup; rw [foldl_dedup_mem]; simp

theorem foldl_dedup_nodup (l acc : List Nat) (h : (acc ++ l).Nodup) :
    l.foldl (fun acc x => if acc.contains x then acc else acc ++ [x]) acc = acc ++ l := by
  induction l generalizing acc with
  | nil => simp
  | cons x l ih =>
    have hx : ¬ acc.contains x = true := by
      intro hc
      have hm : x ∈ acc := by simpa using hc
      rw [List.nodup_append] at h
      exact h.2.2 x hm x List.mem_cons_self rfl
    simp only [List.foldl_cons, if_neg hx]
    rw [ih _ (by simpa using h)]
    simp

theorem dedup_of_nodup (l : List Nat) (h : l.Nodup) : dedup l = l := by
  unfold dedup; rw [foldl_dedup_nodup l [] (by simpa using h)]; rfl

theorem foldl_dedup_length_le (l acc : List Nat) :
    (l.foldl (fun acc x => if acc.contains x then acc else acc ++ [x]) acc).length ≤ acc.length + l.length := by
  induction l generalizing acc with
  | nil => simp
  | cons x l ih =>
    simp only [List.foldl_cons, List.length_cons]
    split
    · have := ih acc; omega
    · have := ih (acc ++ [x]); simp only [List.length_append, List.length_singleton] at this; omega

/-- if deduplication removes nothing, there was no duplicate -/
theorem foldl_dedup_length_eq (l acc : List Nat) (hacc : acc.Nodup)
    (h : (l.foldl (fun acc x => if acc.contains x then acc else acc ++ [x]) acc).length = acc.length + l.length) :
    (acc ++ l).Nodup := by
  induction l generalizing acc with
  | nil => simpa using hacc
  | cons x l ih =>
    simp only [List.foldl_cons, List.length_cons] at h
    split at h
    · have := foldl_dedup_length_le l acc; omega
    · rename_i hx
      have hx' : x ∉ acc := by simpa using hx
      have hn : (acc ++ [x]).Nodup := by
        rw [List.nodup_append]
        refine ⟨hacc, by simp, ?_⟩
        intro a ha b hb hab
        simp only [List.mem_singleton] at hb
        subst hb; subst hab; exact hx' ha
      have := ih (acc ++ [x]) hn (by simp only [List.length_append, List.length_singleton]; omega)
      simpa using this

theorem nodup_of_dedup_length (l : List Nat) (h : (dedup l).length = l.length) : l.Nodup := by
  have := foldl_dedup_length_eq l [] List.nodup_nil (by simpa [dedup] using h)
  simpa using this

/-! ### the invariant -/

/-- the distinct cookies of the validated flows, in order of first validation -/
def keysOf (cfg : Cfg) (js : JState) : List Nat := dedup (js.validated.map (flowCookie cfg))

/-- simulation invariant: the keys of the connection table are exactly the distinct cookies of the
    flows the judge holds validated (and in the same order) -/
def Inv (cfg : Cfg) (st : Table) (js : JState) : Prop := st.map Prod.fst = keysOf cfg js

theorem inv_init (cfg : Cfg) : Inv cfg [] {} := rfl

theorem mem_keysOf (cfg : Cfg) (js : JState) (c : Nat) :
    c ∈ keysOf cfg js ↔ ∃ g ∈ js.validated, flowCookie cfg g = c := by
  unfold keysOf; rw [mem_dedup, List.mem_map]

/-- the invariant in the form of the task: a cookie has a table entry iff it is the cookie of a validated flow -/
theorem Inv.get?_iff {cfg : Cfg} {st : Table} {js : JState} (h : Inv cfg st js) (c : Nat) :
    (st.get? c).isSome = true ↔ ∃ g ∈ js.validated, flowCookie cfg g = c := by
  rw [Table.get?_isSome_iff, h, mem_keysOf]

theorem Inv.length {cfg : Cfg} {st : Table} {js : JState} (h : Inv cfg st js) :
    st.length = (dedup (js.validated.map (flowCookie cfg))).length := by
  have := congrArg List.length h
  simpa [keysOf] using this

theorem keysOf_snoc (cfg : Cfg) (js : JState) (fl : Flow) :
    keysOf cfg { js with validated := js.validated ++ [fl] } =
      if flowCookie cfg fl ∈ keysOf cfg js then keysOf cfg js else keysOf cfg js ++ [flowCookie cfg fl] := by
  unfold keysOf
  simp only [List.map_append, List.map_cons, List.map_nil, dedup_snoc, List.contains_iff_mem]

theorem jsNext_validated (cfg : Cfg) (js : JState) (fl : Flow) (t : Bytes) :
    (jsNext cfg js fl t).validated = js.validated ∨
    (fl ∉ js.validated ∧ (refTcp false (flowCookie cfg fl) (segOf t)).2 = true ∧
      (jsNext cfg js fl t).validated = js.validated ++ [fl]) := by
  unfold jsNext
  split
  · rename_i h
    have hv : js.validated.contains fl = false := by simpa using h.2
    right
    refine ⟨by simpa using hv, ?_, rfl⟩
    have := h.1; rw [hv] at this; exact this
  · left; rfl

/-! ### `refTcp` does not look at `validated` outside the data arm -/

theorem refTcp_nodata_fst {p : Bytes} (hd : ¬(tcpFlags p / 8 % 2 = 1 ∧ tcpFlags p / 16 % 2 = 1)) (v v' : Bool) (ck : Nat) :
    (refTcp v ck (segOf p)).1 = (refTcp v' ck (segOf p)).1 ∧ (refTcp v ck (segOf p)).2 = v := by
  rw [refTcp_nodata hd v, refTcp_nodata hd v']
  repeat' split
  all_goals exact ⟨rfl, rfl⟩

theorem isData_iff (p : Bytes) : isData p = true ↔ (tcpFlags p / 8 % 2 = 1 ∧ tcpFlags p / 16 % 2 = 1) := by
  unfold isData
  rw [decide_eq_true_eq, ← tcpFlags_eq_spec, dataBits (tcpFlags_lt p)]

/-! ### one TCP segment: table and judge state move together -/

/-- one segment `p` of a flow `fl` whose cookie is the one the model computes.  From related states,
    the new table and the judge's next state are related again, and the model's answer meets the
    expectation the judge derives from ITS validated bit — unless the judge holds `fl` not validated while
    the table has an entry for its cookie and `p` is a data segment (the entry is then another flow's). -/
theorem tcp_sim {cfg : Cfg} {env : Env} {st : Table} {js : JState} {ci : ClientInfo} {p : Bytes} {fl : Flow}
    (hI : Inv cfg st js) (hl : p.length ≥ 20) (hck : tcpCk cfg ci p = flowCookie cfg fl)
    {evs : List Ev} {ci' : ClientInfo} {st' : Table} {out : Option Bytes}
    (h : tcpRepl cfg env st ci p = .ok (evs, ci', st', out)) :
    Inv cfg st' (jsNext cfg js fl p) ∧
    (meets (refTcp (js.validated.contains fl) (flowCookie cfg fl) (segOf p)).1 out = true ∨
      (js.validated.contains fl = false ∧ (st.get? (flowCookie cfg fl)).isSome = true ∧ isData p = true)) := by
  have href := tcp_refines_ref' hl h
  have htab := tcp_table_step' hl h
  rw [hck] at href htab
  have hmem : ∀ g ∈ js.validated, (st.get? (flowCookie cfg g)).isSome = true :=
    fun g hg => (hI.get?_iff _).mpr ⟨g, hg, rfl⟩
  have hkeys : (st.get? (flowCookie cfg fl)).isSome = true ↔ flowCookie cfg fl ∈ keysOf cfg js := by
    rw [Table.get?_isSome_iff, hI]
  constructor
  · -- the invariant
    unfold Inv
    rcases jsNext_validated cfg js fl p with hv | ⟨hnot, hr2, hv⟩
    · -- judge state unchanged: the table keys must be unchanged
      have hk : keysOf cfg (jsNext cfg js fl p) = keysOf cfg js := by unfold keysOf; rw [hv]
      rw [hk]
      rcases htab with h1 | ⟨hg, -, -, v, hset⟩ | ⟨hg, hb, hack, -, v, happ⟩
      · rw [h1]; exact hI
      · rw [hset, Table.set_keys _ _ _ hg]; exact hI
      · -- an entry was appended although the judge validated nothing: impossible
        exfalso
        have hnot : fl ∉ js.validated := by
          intro hm
          have := hmem fl hm
          rw [hg] at this; cases this
        have hc : js.validated.contains fl = false := by simpa using hnot
        have hr : (refTcp false (flowCookie cfg fl) (segOf p)).2 = true := by
          rw [refTcp_data hb, if_pos (Or.inr hack)]
        have : (jsNext cfg js fl p).validated = js.validated ++ [fl] := by
          unfold jsNext
          rw [hc, if_pos ⟨hr, rfl⟩]
        rw [hv] at this
        have := congrArg List.length this
        simp at this
    · -- the judge validated `fl` now
      have hk : keysOf cfg (jsNext cfg js fl p) =
          if flowCookie cfg fl ∈ keysOf cfg js then keysOf cfg js else keysOf cfg js ++ [flowCookie cfg fl] := by
        rw [← keysOf_snoc cfg js fl]; unfold keysOf; rw [hv]
      rw [hk]
      rcases htab with h1 | ⟨hg, -, -, v, hset⟩ | ⟨hg, hb, hack, -, v, happ⟩
      · -- table unchanged: then the cookie was already there
        have hs : (st.get? (flowCookie cfg fl)).isSome = true := by
          cases hn : (st.get? (flowCookie cfg fl)).isSome with
          | true => rfl
          | false =>
            have h2 := href.2
            rw [h1, hn, hr2] at h2; cases h2
        rw [if_pos (hkeys.mp hs), h1]; exact hI
      · rw [if_pos (hkeys.mp hg), hset, Table.set_keys _ _ _ hg]; exact hI
      · have hn : ¬ flowCookie cfg fl ∈ keysOf cfg js := by
          intro hm; have := hkeys.mpr hm; rw [hg] at this; cases this
        rw [if_neg hn, happ, List.map_append, hI]; rfl
  · -- the answer
    cases hv : js.validated.contains fl with
    | true =>
      have hm : fl ∈ js.validated := by simpa using hv
      have := hmem fl hm
      left
      rw [this] at href; exact href.1
    | false =>
      cases hs : (st.get? (flowCookie cfg fl)).isSome with
      | false => left; rw [hs] at href; exact href.1
      | true =>
        by_cases hd : tcpFlags p / 8 % 2 = 1 ∧ tcpFlags p / 16 % 2 = 1
        · right; exact ⟨rfl, rfl, (isData_iff p).mpr hd⟩
        · left
          rw [(refTcp_nodata_fst hd false (st.get? (flowCookie cfg fl)).isSome (flowCookie cfg fl)).1]
          exact href.1

/-! ### the judges on a delivered frame, in normal form -/

theorem judgeC07_delivered {cfg : Cfg} {js : JState} {f : Bytes} {r : Option Bytes} {fl : Flow} {t : Bytes}
    (h : tcpDelivered cfg f = some (fl, t)) :
    (judgeC07 cfg js f r).1 = jsNext cfg js fl t ∧
    (judgeC07 cfg js f r).2 =
      (if r.isSome = true ∧ (r.bind replyTcp).isNone = true then failv "reply to a TCP segment is not TCP"
       else if meets (refTcp (js.validated.contains fl) (flowCookie cfg fl) (segOf t)).1 (r.bind replyTcp) = true
         then pass true
       else if js.validated.any (fun g => decide (g ≠ fl ∧ flowCookie cfg g = flowCookie cfg fl)) = true
         then failv collisionClauseC07
       else failv "segment answered differently from the reference connection model") := by
  unfold judgeC07 jsNext collisionClauseC07
  rw [h]
  dsimp only
  repeat' split
  all_goals exact ⟨rfl, rfl⟩

theorem judgeC07_not_delivered {cfg : Cfg} {js : JState} {f : Bytes} {r : Option Bytes}
    (h : tcpDelivered cfg f = none) : judgeC07 cfg js f r = (js, pass false) := by
  unfold judgeC07; rw [h]

/-- the judge-state component of `judgeC09` and its verdict, from the next state -/
theorem judgeC09_eq (cfg : Cfg) (js : JState) (f : Bytes) (n : Nat) :
    ∃ js', (js' = match tcpDelivered cfg f with | none => js | some (fl, t) => jsNext cfg js fl t) ∧
      (judgeC09 cfg js f n).1 = js' ∧
      (judgeC09 cfg js f n).2 =
        (if n = js'.validated.length then pass (tcpDelivered cfg f).isSome
         else if n = (dedup (js'.validated.map (flowCookie cfg))).length then failv collisionClauseC09
         else failv "connection table size differs from the number of validated flows") := by
  refine ⟨_, rfl, ?_⟩
  unfold judgeC09 jsNext collisionClauseC09
  dsimp only
  cases tcpDelivered cfg f with
  | none => dsimp only; repeat' split
            all_goals exact ⟨rfl, rfl⟩
  | some x =>
    obtain ⟨fl, t⟩ := x
    dsimp only
    repeat' split
    all_goals exact ⟨rfl, rfl⟩

/-! ### one frame -/

/-- one frame, model and judge state together: invariant preserved, `validated` only grows -/
theorem frame_sim {cfg : Cfg} {env : Env} {st : Table} {js : JState} {f : Bytes} {o : Option Bytes}
    (hI : Inv cfg st js) (ho : (step cfg env st f).out = .ok o) :
    ∃ js', (js' = match tcpDelivered cfg f with | none => js | some (fl, t) => jsNext cfg js fl t) ∧
      Inv cfg (step cfg env st f).st js' ∧ (∃ l, js'.validated = js.validated ++ l) := by
  refine ⟨_, rfl, ?_⟩
  cases hd : tcpDelivered cfg f with
  | none =>
    dsimp only
    rw [step_not_delivered env st hd]
    exact ⟨hI, [], by simp⟩
  | some x =>
    obtain ⟨fl, t⟩ := x
    dsimp only
    obtain ⟨hl, ci, ci', evs, r, hck, hT, -⟩ := reached hd ho
    refine ⟨(tcp_sim hI hl hck hT).1, ?_⟩
    rcases jsNext_validated cfg js fl t with h | ⟨-, -, h⟩
    · exact ⟨[], by simp [h]⟩
    · exact ⟨[fl], h⟩

/-- one frame under `judgeC07`: the verdict is `ok`, or it carries the collision clause and the frame
    is a delivered data segment of a not-validated flow whose cookie belongs to another, validated, flow -/
theorem judgeC07_step {cfg : Cfg} {env : Env} {st : Table} {js : JState} {f : Bytes} {o : Option Bytes}
    (hm : cfg.mac.length = 6) (hI : Inv cfg st js) (ho : (step cfg env st f).out = .ok o) :
    Inv cfg (step cfg env st f).st (judgeC07 cfg js f o).1 ∧
    (∃ l, (judgeC07 cfg js f o).1.validated = js.validated ++ l) ∧
    ((judgeC07 cfg js f o).2.ok = true ∨
      ((judgeC07 cfg js f o).2.clause = collisionClauseC07 ∧ Collides cfg js f)) := by
  obtain ⟨js', hjs, hI', hpre⟩ := frame_sim hI ho
  cases hd : tcpDelivered cfg f with
  | none =>
    rw [hd] at hjs
    rw [judgeC07_not_delivered hd]
    subst hjs
    exact ⟨hI', hpre, .inl rfl⟩
  | some x =>
    obtain ⟨fl, t⟩ := x
    rw [hd] at hjs
    dsimp only at hjs
    obtain ⟨h1, h2⟩ := judgeC07_delivered (js := js) (r := o) hd
    rw [h1, h2, ← hjs]
    refine ⟨hI', hpre, ?_⟩
    obtain ⟨hl, ci, ci', evs, r, hck, hT, hout⟩ := reached hd ho
    have hsim := (tcp_sim hI hl hck hT).2
    -- the reply is TCP whenever there is one
    have hnot : ¬ (o.isSome = true ∧ (o.bind replyTcp).isNone = true) := by
      rcases hout with ⟨-, ho'⟩ | ⟨r0, R, c, -, ho', hR⟩
      · rw [ho']; simp
      · rw [ho']; simp [hR hm]
    rw [if_neg hnot]
    -- what the judge reads is what the model emitted, up to the checksum field
    have hmeets : ∀ e, meets e r = true → meets e (o.bind replyTcp) = true := by
      intro e he
      rcases hout with ⟨hr, ho'⟩ | ⟨r0, R, c, hr, ho', hR⟩
      · rw [ho']; rw [hr] at he; exact he
      · rw [ho']; rw [hr] at he
        simp only [Option.bind_some, hR hm]
        exact meets_setU16 c he
    rcases hsim with hok | ⟨hv, hs, hdat⟩
    · rw [if_pos (hmeets _ hok)]; exact .inl rfl
    · split
      · exact .inl rfl
      · -- the collision: another validated flow owns the cookie
        obtain ⟨g, hg, hgc⟩ := (hI.get?_iff _).mp hs
        have hne : g ≠ fl := by
          intro e; subst e
          have : js.validated.contains g = true := by simpa using hg
          rw [this] at hv; cases hv
        have hany : js.validated.any (fun g => decide (g ≠ fl ∧ flowCookie cfg g = flowCookie cfg fl)) = true := by
          rw [List.any_eq_true]
          exact ⟨g, hg, by simpa using ⟨hne, hgc⟩⟩
        rw [if_pos hany]
        exact .inr ⟨rfl, fl, t, hd, hdat, g, hg, hne, hgc⟩

/-- one frame under `judgeC09` (table size after the frame): the verdict is `ok`, or it carries the
    collision clause and two flows validated so far share a cookie -/
theorem judgeC09_step {cfg : Cfg} {env : Env} {st : Table} {js : JState} {f : Bytes} {o : Option Bytes}
    (hI : Inv cfg st js) (ho : (step cfg env st f).out = .ok o) :
    Inv cfg (step cfg env st f).st (judgeC09 cfg js f (step cfg env st f).st.length).1 ∧
    (∃ l, (judgeC09 cfg js f (step cfg env st f).st.length).1.validated = js.validated ++ l) ∧
    ((judgeC09 cfg js f (step cfg env st f).st.length).2.ok = true ∨
      ((judgeC09 cfg js f (step cfg env st f).st.length).2.clause = collisionClauseC09 ∧
        ¬ NoCollision cfg (judgeC09 cfg js f (step cfg env st f).st.length).1)) := by
  obtain ⟨js', hjs, hI', hpre⟩ := frame_sim hI ho
  obtain ⟨js'', hjs'', h1, h2⟩ := judgeC09_eq cfg js f (step cfg env st f).st.length
  have : js'' = js' := by rw [hjs, hjs'']
  subst this
  rw [h1, h2]
  refine ⟨hI', hpre, ?_⟩
  have hlen := hI'.length
  by_cases hne : (step cfg env st f).st.length = js''.validated.length
  · rw [if_pos hne]; exact .inl rfl
  · rw [if_neg hne, if_pos hlen]
    refine .inr ⟨rfl, ?_⟩
    intro hnc
    unfold NoCollision at hnc
    rw [dedup_of_nodup _ hnc, List.length_map] at hlen
    exact hne hlen

/-! ### whole runs -/

theorem Collides.mono {cfg : Cfg} {js js' : JState} {f : Bytes} (h : Collides cfg js f)
    (hp : ∃ l, js'.validated = js.validated ++ l) : Collides cfg js' f := by
  obtain ⟨fl, t, hd, hdat, g, hg, hne, hc⟩ := h
  obtain ⟨l, hl⟩ := hp
  exact ⟨fl, t, hd, hdat, g, by rw [hl]; exact List.mem_append_left _ hg, hne, hc⟩

theorem NoCollision.mono {cfg : Cfg} {js js' : JState} (h : NoCollision cfg js')
    (hp : ∃ l, js'.validated = js.validated ++ l) : NoCollision cfg js := by
  obtain ⟨l, hl⟩ := hp
  unfold NoCollision at *
  rw [hl, List.map_append, List.nodup_append] at h
  exact h.1

/-- the joint run for C07 from related states: the final states are related, `validated` grew, there
    is one verdict per frame, and each verdict is `ok` or blames a collision with a validated flow -/
theorem runC07_sound {cfg : Cfg} {env : Env} (hm : cfg.mac.length = 6) (fs : List Bytes) :
    ∀ (st : Table) (js : JState) (vs : List Verdict) (jsF : JState) (stF : Table),
      Inv cfg st js → runC07 cfg env st js fs = .ok (vs, jsF, stF) →
      Inv cfg stF jsF ∧ (∃ l, jsF.validated = js.validated ++ l) ∧ vs.length = fs.length ∧
      stF = run cfg env st fs ∧
      ∀ f v, (f, v) ∈ fs.zip vs → v.ok = true ∨ (v.clause = collisionClauseC07 ∧ Collides cfg jsF f) := by
  induction fs with
  | nil =>
    intro st js vs jsF stF hI h
    simp only [runC07, Except.ok.injEq, Prod.mk.injEq] at h
    obtain ⟨rfl, rfl, rfl⟩ := h
    exact ⟨hI, ⟨[], by simp⟩, rfl, rfl, by simp⟩
  | cons f fs ih =>
    intro st js vs jsF stF hI h
    unfold runC07 at h
    split at h
    · cases h
    · rename_i o ho
      split at h
      · cases h
      · rename_i vs' js' st' hrest
        simp only [Except.ok.injEq, Prod.mk.injEq] at h
        obtain ⟨rfl, rfl, rfl⟩ := h
        obtain ⟨hI1, hp1, hv1⟩ := judgeC07_step hm hI ho
        obtain ⟨hI2, hp2, hlen, hrun, hall⟩ := ih _ _ _ _ _ hI1 hrest
        have hp : ∃ l, js'.validated = js.validated ++ l := by
          obtain ⟨l1, hl1⟩ := hp1
          obtain ⟨l2, hl2⟩ := hp2
          exact ⟨l1 ++ l2, by rw [hl2, hl1, List.append_assoc]⟩
        refine ⟨hI2, hp, by simp [hlen], by rw [hrun]; rfl, ?_⟩
        · intro g v hmem
          simp only [List.zip_cons_cons, List.mem_cons, Prod.mk.injEq] at hmem
          rcases hmem with ⟨rfl, rfl⟩ | hmem
          · rcases hv1 with h | ⟨hc, hcol⟩
            · exact .inl h
            · exact .inr ⟨hc, hcol.mono hp⟩
          · exact hall g v hmem

/-- the joint run for C09 from related states -/
theorem runC09_sound {cfg : Cfg} {env : Env} (fs : List Bytes) :
    ∀ (st : Table) (js : JState) (vs : List Verdict) (jsF : JState) (stF : Table),
      Inv cfg st js → runC09 cfg env st js fs = .ok (vs, jsF, stF) →
      Inv cfg stF jsF ∧ (∃ l, jsF.validated = js.validated ++ l) ∧ vs.length = fs.length ∧
      stF = run cfg env st fs ∧
      ∀ v ∈ vs, v.ok = true ∨ (v.clause = collisionClauseC09 ∧ ¬ NoCollision cfg jsF) := by
  induction fs with
  | nil =>
    intro st js vs jsF stF hI h
    simp only [runC09, Except.ok.injEq, Prod.mk.injEq] at h
    obtain ⟨rfl, rfl, rfl⟩ := h
    exact ⟨hI, ⟨[], by simp⟩, rfl, rfl, by simp⟩
  | cons f fs ih =>
    intro st js vs jsF stF hI h
    unfold runC09 at h
    split at h
    · cases h
    · rename_i o ho
      split at h
      · cases h
      · rename_i vs' js' st' hrest
        simp only [Except.ok.injEq, Prod.mk.injEq] at h
        obtain ⟨rfl, rfl, rfl⟩ := h
        obtain ⟨hI1, hp1, hv1⟩ := judgeC09_step hI ho
        obtain ⟨hI2, hp2, hlen, hrun, hall⟩ := ih _ _ _ _ _ hI1 hrest
        refine ⟨hI2, ?_, by simp [hlen], by rw [hrun]; rfl, ?_⟩
        · obtain ⟨l1, hl1⟩ := hp1
          obtain ⟨l2, hl2⟩ := hp2
          exact ⟨l1 ++ l2, by rw [hl2, hl1, List.append_assoc]⟩
        · intro v hmem
          simp only [List.mem_cons] at hmem
          rcases hmem with rfl | hmem
          · rcases hv1 with h | ⟨hc, hcol⟩
            · exact .inl h
            · exact .inr ⟨hc, fun hn => hcol (hn.mono hp2)⟩
          · exact hall v hmem

/-- every verdict of a run sits beside its frame -/
theorem exists_zip_of_mem {α β : Type} : ∀ (fs : List α) (vs : List β), vs.length = fs.length →
    ∀ v ∈ vs, ∃ f, (f, v) ∈ fs.zip vs
  | [], [], _, v, hv => by cases hv
  | [], _ :: _, h, _, _ => by simp at h
  | _ :: _, [], h, _, _ => by simp at h
  | f :: fs, w :: vs, h, v, hv => by
    simp only [List.mem_cons] at hv
    rcases hv with rfl | hv
    · exact ⟨f, by simp⟩
    · obtain ⟨g, hg⟩ := exists_zip_of_mem fs vs (by simpa using h) v hv
      exact ⟨g, by simp [hg]⟩

/-- the Bool `noCollisionSeen`, read as a proposition -/
theorem noCollisionSeen_iff (cfg : Cfg) (fs : List Bytes) (js : JState) :
    noCollisionSeen cfg fs js = true ↔
      ∀ f ∈ fs, ∀ fl t, tcpDelivered cfg f = some (fl, t) → isData t = true →
        ∀ g ∈ js.validated, flowCookie cfg g = flowCookie cfg fl → g = fl := by
  unfold noCollisionSeen
  rw [List.all_eq_true]
  constructor
  · intro h f hf fl t hd hdat g hg hc
    have := h f hf
    rw [hd] at this
    simp only [hdat, Bool.not_true, Bool.false_or, List.all_eq_true, decide_eq_true_eq] at this
    exact this g hg hc
  · intro h f hf
    cases hd : tcpDelivered cfg f with
    | none => rfl
    | some x =>
      obtain ⟨fl, t⟩ := x
      dsimp only
      cases hdat : isData t with
      | false => rfl
      | true =>
        simp only [Bool.not_true, Bool.false_or, List.all_eq_true, decide_eq_true_eq]
        exact fun g hg hc => h f hf fl t hd hdat g hg hc

/-- cookies pairwise distinct on a list of flows: the cookie determines the flow -/
theorem nodup_map_inj {α β : Type} (f : α → β) : ∀ (l : List α), (l.map f).Nodup →
    ∀ a ∈ l, ∀ b ∈ l, f a = f b → a = b
  | [], _, a, ha, _, _, _ => by cases ha
  | x :: l, h, a, ha, b, hb, hab => by
    simp only [List.map_cons, List.nodup_cons, List.mem_map, not_exists, not_and] at h
    simp only [List.mem_cons] at ha hb
    rcases ha with rfl | ha <;> rcases hb with rfl | hb
    · rfl
    · exact absurd hab.symm (h.1 b hb)
    · exact absurd hab (h.1 a ha)
    · exact nodup_map_inj f l h.2 a ha b hb hab

end Masscanned.J2
