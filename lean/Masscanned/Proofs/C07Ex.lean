/-
  Proofs/C07Ex — concrete witnesses used by the counterexample `c07_full_false` and by the
  non-vacuity examples of C06 / C07 / C09 (a configuration with key (0,0), two colliding IPv4
  flows, their segments and frames).
-/
import Masscanned.Model.Net
import Masscanned.Spec.L4
namespace Masscanned.C07ex

def cfg0 : Cfg :=
  { mac := [2, 0, 0, 0, 0, 1], selfIps := none, deny := none, k0 := 0, k1 := 0, logger := .none, level := 0,
    ovf := false }
def env0 : Env := { httpDate := [], unixSecs := 0 }
def ciA : ClientInfo := { ipSrc := some (.v4 [1, 2, 3, 4]), ipDst := some (.v4 [10, 0, 0, 1]), transport := some 6 }
def ciB : ClientInfo := { ipSrc := some (.v4 [1, 2, 3, 5]), ipDst := some (.v4 [10, 0, 0, 1]), transport := some 6 }
/-- flow A (1.2.3.4:34624 → 10.0.0.1:80), PSH|ACK, ack = cookie + 1 = 1983115676 -/
def segA : Bytes := [135, 64, 0, 80, 0, 0, 0, 1, 118, 51, 241, 156, 80, 24, 255, 255, 0, 0, 0, 0]
/-- flow B (1.2.3.5:9175 → 10.0.0.1:80), PSH|ACK, ack = 12345 (wrong) -/
def segB : Bytes := [35, 215, 0, 80, 0, 0, 0, 1, 0, 0, 48, 57, 80, 24, 255, 255, 0, 0, 0, 0]
/-- a 20-byte SYN segment (sport 34624, dport 80, seq 0x01020304, flags SYN) -/
def synSeg : Bytes := [135, 64, 0, 80, 1, 2, 3, 4, 0, 0, 0, 0, 80, 2, 255, 255, 0, 0, 0, 0]
/-- the same with SYN|PSH|ACK: SYN bit set, Linux rule false -/
def synPshAckSeg : Bytes := [135, 64, 0, 80, 1, 2, 3, 4, 0, 0, 0, 0, 80, 26, 255, 255, 0, 0, 0, 0]

/-- Ethernet/IPv4 frames (to our MAC 02:00:00:00:00:01) carrying `segA`, `segB`, `synSeg` -/
def frameA : Bytes :=
  [2, 0, 0, 0, 0, 1, 2, 0, 0, 0, 0, 9, 8, 0, 69, 0, 0, 40, 0, 0, 64, 0, 64, 6, 44, 202, 1, 2, 3, 4, 10, 0, 0, 1] ++ segA
def frameB : Bytes :=
  [2, 0, 0, 0, 0, 1, 2, 0, 0, 0, 0, 9, 8, 0, 69, 0, 0, 40, 0, 0, 64, 0, 64, 6, 44, 201, 1, 2, 3, 5, 10, 0, 0, 1] ++ segB
def frameSyn : Bytes :=
  [2, 0, 0, 0, 0, 1, 2, 0, 0, 0, 0, 9, 8, 0, 69, 0, 0, 40, 0, 0, 64, 0, 64, 6, 44, 202, 1, 2, 3, 4, 10, 0, 0, 1] ++ synSeg

/-- alone, B's segment is refused; A's first data segment validates; after A, B's is answered -/
def chk : Bool :=
  (match tcpRepl cfg0 env0 [] ciB segB with
   | .ok (_, _, [], none) => true
   | _ => false) &&
  (match tcpRepl cfg0 env0 [] ciA segA with
   | .ok (_, _, st1, some _) =>
     (match tcpRepl cfg0 env0 st1 ciB segB with
      | .ok (_, _, _, some _) => true
      | _ => false)
   | _ => false)

theorem chk_true : chk = true := by decide +kernel

end Masscanned.C07ex
