/-
  Proofs/Proto — the two facts about the application layer used by the TCP-layer proofs:
  an application reply is never the empty byte string, (and the control block handed in as
  `some _` comes back as `some _`).
-/
import Masscanned.Model.Dispatch
import Masscanned.Proofs.Texts.Reply
namespace Masscanned

/-- from the status-line fact of Proofs/Texts/Facts (the response text is generated) -/
theorem httpReplyBytes_ne_nil (env : Env) : httpReplyBytes env ≠ [] := Texts.httpReply_ne_nil env

theorem httpRepl_ne_nil {env : Env} {s s' : HttpSt} {d r : Bytes}
    (h : httpRepl env s d = .ok (s', some r)) : r ≠ [] := by
  unfold httpRepl at h
  split at h
  · cases h
  · split at h
    · simp only [Except.ok.injEq, Prod.mk.injEq, Option.some.injEq] at h
      rw [← h.2]; exact httpReplyBytes_ne_nil env
    · simp only [Except.ok.injEq, Prod.mk.injEq] at h
      exact absurd h.2 (by simp)

theorem sshRepl_ne_nil {d r : Bytes} (h : sshRepl d = .ok (some r)) : r ≠ [] := by
  unfold sshRepl at h
  split at h
  · cases h
  · simp only [Except.ok.injEq] at h
    split at h
    · cases h; decide +kernel
    · cases h

theorem stunRepl_ne_nil {ci ci' : ClientInfo} {d r : Bytes}
    (h : stunRepl ci d = .ok (ci', some r)) : r ≠ [] := by
  unfold stunRepl at h
  split at h
  · cases h
  · cases h
  · split at h
    · cases h
    · split at h
      · cases h
      · split at h
        · simp only [Except.ok.injEq, Prod.mk.injEq, Option.some.injEq] at h
          rw [← h.2]; simp
        · cases h

theorem rpcBuild_ne_nil {s : RpcSt} {ci : ClientInfo} {r : Bytes}
    (h : rpcBuild s ci = .ok r) : r ≠ [] := by
  unfold rpcBuild at h
  dsimp only at h
  split at h
  · cases h; simp [u32be]
  · split at h
    · cases h; simp [u32be]
    · split at h
      · split at h
        · split at h
          · cases h
          · cases h; simp [u32be]
        · cases h
      · cases h; simp [u32be]

theorem rpcReplTcp_ne_nil {ovf : Bool} {s s' : RpcSt} {ci : ClientInfo} {d r : Bytes}
    (h : rpcReplTcp ovf s ci d = .ok (s', some r)) : r ≠ [] := by
  unfold rpcReplTcp at h
  split at h
  · cases h
  · split at h
    · split at h
      · cases h
      · simp only [Except.ok.injEq, Prod.mk.injEq, Option.some.injEq] at h
        rw [← h.2]; simp
    · cases h

theorem rpcReplUdp_ne_nil {ovf : Bool} {ci : ClientInfo} {d r : Bytes}
    (h : rpcReplUdp ovf ci d = .ok (some r)) : r ≠ [] := by
  unfold rpcReplUdp at h
  split at h
  · cases h
  · split at h
    · split at h
      · cases h
      · rename_i hb
        cases h; exact rpcBuild_ne_nil hb
    · cases h

theorem nbtWrap_ne_nil (r : Bytes) : nbtWrap r ≠ [] := by simp [nbtWrap]

theorem smb1Repl_ne_nil {env : Env} {d r : Bytes} (h : smb1Repl env d = some r) : r ≠ [] := by
  unfold smb1Repl at h
  split at h
  · cases h; exact nbtWrap_ne_nil _
  · cases h

theorem smb2Repl_ne_nil {env : Env} {d r : Bytes} (h : smb2Repl env d = some r) : r ≠ [] := by
  unfold smb2Repl at h
  split at h
  · cases h; exact nbtWrap_ne_nil _
  · cases h

theorem dnsRepl_ne_nil {ci : ClientInfo} {m : DnsMsg} {r : Bytes} (h : dnsRepl ci m = some r) : r ≠ [] := by
  unfold dnsRepl at h
  split at h
  · cases h
  · split at h
    · cases h; simp [u16be]
    · cases h

theorem ghostReply_ne_nil : Gen.ghostReply ≠ [] := by decide

theorem protoHandle_ne_nil {cfg : Cfg} {env : Env} {id : Nat} {ci ci' : ClientInfo} {tcb tcb' : Option Tcb}
    {d r : Bytes} (h : protoHandle cfg env id ci tcb d = .ok (ci', tcb', some r)) : r ≠ [] := by
  unfold protoHandle at h
  dsimp only at h
  repeat' split at h
  all_goals first
    | (cases h; done)
    | (cases h
       first
        | exact httpRepl_ne_nil ‹_›
        | exact stunRepl_ne_nil ‹_›
        | exact sshRepl_ne_nil ‹_›
        | exact ghostReply_ne_nil
        | exact rpcReplTcp_ne_nil ‹_›
        | exact rpcReplUdp_ne_nil ‹_›)
    | (simp only [Except.ok.injEq, Prod.mk.injEq] at h
       first
        | exact smb1Repl_ne_nil h.2.2
        | exact smb2Repl_ne_nil h.2.2)

/-- an application reply is never the empty byte string -/
theorem protoRepl_ne_nil {cfg : Cfg} {env : Env} {ci ci' : ClientInfo} {tcb tcb' : Option Tcb}
    {d r : Bytes} (h : protoRepl cfg env ci tcb d = .ok (ci', tcb', some r)) : r ≠ [] := by
  unfold protoRepl at h
  split at h
  · simp only [Except.ok.injEq, Prod.mk.injEq] at h
    exact absurd h.2.2 (by simp)
  · split at h
    · split at h
      · split at h
        · cases h
        · exact protoHandle_ne_nil h
      · exact protoHandle_ne_nil h
    · split at h
      · cases h
      · dsimp only at h
        split at h
        · cases h
        · split at h
          · rename_i hd
            simp only [Except.ok.injEq, Prod.mk.injEq, Option.some.injEq] at h
            rw [h.2.2] at hd
            split at hd
            · split at hd
              · exact dnsRepl_ne_nil hd
              · cases hd
            · cases hd
          · exact protoHandle_ne_nil h

end Masscanned
